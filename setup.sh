#!/bin/sh
# Offline setup: nothing to build (gfapy is pure Python, imported from /repo).
# Parse every TLA+ module so a broken specification is caught here.
set -e
cd /verif/spec
for m in *.tla; do
  out=$(tla-sany "$m" 2>&1) || { echo "$out"; exit 1; }
  case "$out" in *"Fatal errors"*|*"*** Errors"*) echo "$out"; exit 1;; esac
done
mkdir -p /verif/.work /verif/evidence/replays
/venv/bin/python -c "import sys; sys.path.insert(0,'/repo'); import gfapy; print('gfapy from', gfapy.__file__)"
echo setup ok
