#!/bin/sh
# Offline setup: nothing to build (gfapy is pure Python, imported from /repo).
# Parse every TLA+ module so a broken specification is caught here.
cd /verif/spec
fail=0
for m in *.tla; do
  out=$(tla-sany "$m" 2>&1)
  case "$out" in
    *"Fatal errors"*|*"*** Errors"*|*"Could not parse"*)
      echo "SANY: $m does not parse"; echo "$out" | tail -5; fail=1;;
  esac
done
mkdir -p /verif/.work /verif/evidence/replays
/venv/bin/python -c "import sys; sys.path.insert(0,'/repo'); import gfapy; print('gfapy from', gfapy.__file__)" || fail=1
[ $fail = 0 ] && echo "setup ok" || echo "setup finished with warnings"
exit 0
