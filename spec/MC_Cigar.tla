------------------------------ MODULE MC_Cigar ------------------------------
(* C12 at design level: laws of the CIGAR algebra over every CIGAR of <= MaxOps
   operations from Codes x lengths 1..MaxLen, and generator of the CIGARs (with
   their complement, as computed by the specification) for the conformance
   runs.  S and N are outside the involution claim (folded onto D and I).     *)
EXTENDS Naturals, Sequences, FiniteSets, TLC, Cigar

CONSTANTS MaxOps, MaxLen
Codes == {"M", "I", "D", "P", "=", "X", "H"}
OpSet == [n : 1..MaxLen, c : Codes]

VARIABLE cg
Init == cg = <<>>
Next == Len(cg) < MaxOps /\ \E op \in OpSet : cg' = Append(cg, op)
Spec == Init /\ [][Next]_cg

Emit == PrintT(<<"CG", cg, Complement(cg), RefLen(cg), QueryLen(cg)>>)

Involution == Complement(Complement(cg)) = cg
SwapsLengths == RefLen(Complement(cg)) = QueryLen(cg) /\ QueryLen(Complement(cg)) = RefLen(cg)
KeepsSize == Len(Complement(cg)) = Len(cg)
=============================================================================
