------------------------------- MODULE Util -------------------------------
(* Small helpers shared by every module: bags as functions, sequence maps. *)
EXTENDS Naturals, Sequences, FiniteSets

Rng(s) == {s[i] : i \in DOMAIN s}

\* bag (multiset) of the elements of a sequence, as a function elem -> count
BagOf(s) == [x \in Rng(s) |-> Cardinality({i \in DOMAIN s : s[i] = x})]

SeqMap(F(_), s) == [i \in DOMAIN s |-> F(s[i])]

SeqFilter(P(_), s) == SelectSeq(s, P)

RECURSIVE SetToSeq(_)
SetToSeq(S) == IF S = {} THEN <<>>
               ELSE LET x == CHOOSE x \in S : TRUE IN <<x>> \o SetToSeq(S \ {x})

\* remove the elements at the index set I from sequence s
RECURSIVE DropIdx(_, _, _)
DropIdx(s, I, k) == IF k > Len(s) THEN <<>>
                    ELSE IF k \in I THEN DropIdx(s, I, k + 1)
                    ELSE <<s[k]>> \o DropIdx(s, I, k + 1)
Without(s, I) == DropIdx(s, I, 1)

Reverse(s) == [i \in 1..Len(s) |-> s[Len(s) + 1 - i]]

Inv(o) == IF o = "+" THEN "-" ELSE IF o = "-" THEN "+" ELSE o

Count(s, P(_)) == Cardinality({i \in DOMAIN s : P(s[i])})

Min2(a, b) == IF a <= b THEN a ELSE b
=============================================================================
