------------------------------ MODULE TraceLink ------------------------------
(* C12 / C10 at line level: what gfapy answers for complement(), the
   equivalence tests and the alignment lengths of one link, against the
   functions of the specification.  One TLC state per case.                  *)
EXTENDS Gfa, Json, IOUtils, TLC

Cases == JsonDeserialize(IOEnv.TRACE_FILE)
VARIABLES n, done
Init == n \in 1..Len(Cases) /\ done = FALSE

ComplLine(l) == [refs |-> <<InvRef(l.refs[2]), InvRef(l.refs[1])>>, cg |-> Complement(l.ovs[1])]
Shape(l) == [refs |-> l.refs, cg |-> l.ovs[1]]
Same(a, b) == Shape(a) = Shape(b)
\* the same edge: identical, or one is the complement of the other
Eqv(a, b) == Same(a, b) \/ Shape(a) = ComplLine(b)
TagsOf(l) == Rng(l.tags)

Fails(c) ==
  LET l == c.l IN
  (IF c.res = "ok" THEN {} ELSE IF c.res = "FOREIGN" THEN {"foreign"} ELSE {"C12.raised"})
  \cup (IF c.res = "ok" THEN
     (IF Shape(c.c1) = ComplLine(l) /\ TagsOf(c.c1) = TagsOf(l) /\ c.c1.name = l.name THEN {} ELSE {"C12.complement"})
     \cup (IF Same(c.c2, l) /\ TagsOf(c.c2) = TagsOf(l) THEN {} ELSE {"C12.involution"})
     \cup (IF Norm(c.after) = Norm(l) /\ Norm(c.c1after) = Norm(c.c1) THEN {} ELSE {"C10.operand-changed"})
     \cup (IF c.rl = RefLen(l.ovs[1]) /\ c.ql = QueryLen(l.ovs[1])
              /\ c.crl = QueryLen(l.ovs[1]) /\ c.cql = RefLen(l.ovs[1]) THEN {} ELSE {"C12.lengths"})
     \* equivalence tests: symmetric, repeatable, true exactly for the symmetry
     \cup (IF \A k \in DOMAIN c.tests :
               LET t == c.tests[k]
                   a == t.a  b == t.b IN
               /\ t.r1 = t.r2                                    \* repeatable
               /\ (t.q = "is_eql" => t.r1 = Eqv(a, b))
               /\ (t.q = "is_same" => t.r1 = Same(a, b))
               /\ (t.q = "is_complement" => t.r1 = (Shape(a) = ComplLine(b)))
           THEN {} ELSE {"C12.equivalence"})
     \cup (IF \A k \in DOMAIN c.tests : Norm(c.tests[k].a2) = Norm(c.tests[k].a) /\ Norm(c.tests[k].b2) = Norm(c.tests[k].b)
           THEN {} ELSE {"C10.operand-changed"})
   ELSE {})

Next == /\ ~done /\ done' = TRUE /\ UNCHANGED n
        /\ LET f == Fails(Cases[n]) IN
           IF f = {} THEN TRUE ELSE PrintT(<<"REJECT", Cases[n].id, 0, f, "link">>)
Spec == Init /\ [][Next]_<<n, done>>
=============================================================================
