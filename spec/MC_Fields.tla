------------------------------ MODULE MC_Fields ------------------------------
(* Model-checking instance of Fields.tla.

   Parameters come from a JSON file (IOEnv.FIELDS_FILE):
     mode    "enum"  : enumerate every program of <= maxlen calls over
                       {Set(field, class), Get, Write, Str, Validate, ValidateField}
                       x fields x levels 0..3 that contains at least one Set; each is
                       printed as <<"CASE", level, field, <<call codes>>>> and run by the
                       harness against the real gfapy (spec -> code).
             "props" : all calls (also Delete, Clone, EditInPlace, calls on the clone),
                       every allowed outcome; TLC checks the statements of C18 / C19
                       (Fields!AllStatements) on every transition and the declarative,
                       history-based form of C18 (Decl) on every behaviour.
             "equiv" : the calls of "enum" with ARBITRARY observed results; TLC tracks
                       the set of spec states still consistent with the observations
                       (exactly what TraceFields does) and checks
                          trace accepted by Step  <=>  Decl(history),
                       i.e. the operational spec used for conformance is neither
                       stronger nor weaker than the declarative statement of C18.
             "renum" : enumerate every sequence of <= maxlen read-only calls
                       (Fields!ReadOps) on the original or on the clone, after a cloning;
                       printed as <<"RCASE", <<"get.clone", ...>>>> and run by the harness
                       on every clone subject (C19: equal copies stay equal, spec -> code).
     maxlen  bound on the number of calls
     fields  sequence of [name, kind ("pos" / "tag" / "newtag"), dt, classes]   *)
EXTENDS Fields, Json, IOUtils, TLC

Params == JsonDeserialize(IOEnv.FIELDS_FILE)
Mode   == Params.mode
MaxLen == Params.maxlen
Flds   == Params.fields

VARIABLES fld, st, hist, alive
vars == <<fld, st, hist, alive>>

Op(k, f, c, t) == [k |-> k, f |-> f, c |-> c, t |-> t]
ClsOf(i) == Rng(Flds[i].classes)
FN(i) == Flds[i].name
Lvl == st.o.lvl

ReadKinds == {"get", "write", "str", "validate", "vfield"}
C18Ops(i, t) == {Op("set", FN(i), c, t) : c \in ClsOf(i)} \cup {Op(k, FN(i), "-", t) : k \in ReadKinds}
AllOps(i, s) ==
  C18Ops(i, "orig")
  \* Add (one more value for a header tag): on tags, on either copy
  \cup (IF Flds[i].kind \in {"tag", "newtag"}
        THEN {Op("add", FN(i), c, t) : c \in ClsOf(i), t \in (IF s.has THEN {"orig", "clone"} ELSE {"orig"})}
        ELSE {})
  \cup (IF s.has THEN C18Ops(i, "clone") ELSE {Op("clone", FN(i), "-", "orig")})
  \cup {Op("edit", FN(i), c, t) : c \in {"same", "wrongsyntax"}, t \in (IF s.has THEN {"orig", "clone"} ELSE {"orig"})}
  \cup (IF Flds[i].kind = "tag"
        THEN {Op("delete", FN(i), "-", t) : t \in (IF s.has THEN {"orig", "clone"} ELSE {"orig"})}
        ELSE {})

\* kind "newtag": the tag does not exist yet, the first Set creates it
InitCls(i) == IF Flds[i].kind = "newtag" THEN "absent" ELSE "valid"
InitSt(i, k, conn) == Init0(k, conn, [n \in {FN(i)} |-> Field(Flds[i].dt, InitCls(i), 1)])

Ev(op, res, mark, chg) == [op |-> op, res |-> res, mark |-> mark, chg |-> chg]

Init == \E i \in DOMAIN Flds, k \in (IF Mode = "renum" THEN {1} ELSE 0..3),
             conn \in (IF Mode = "props" THEN BOOLEAN ELSE {FALSE}) :
          /\ fld = i /\ st = InitSt(i, k, conn) /\ hist = <<>> /\ alive = {st}

NextEnum ==
  \E op \in C18Ops(fld, "orig") :
     /\ hist' = Append(hist, Ev(op, "-", FALSE, FALSE))
     /\ UNCHANGED <<fld, st, alive>>

NextProps ==
  \E op \in AllOps(fld, st) : \E o \in Step(st, op) :
     /\ st' = o.st
     /\ hist' = Append(hist, Ev(op, o.res, o.mark, o.chg))
     /\ UNCHANGED <<fld, alive>>

\* what the harness can observe of one call
Observations(op) ==
  IF op.k \in {"set", "get"} THEN {<<r, FALSE, c>> : r \in {"ok", "Error"}, c \in BOOLEAN}
  ELSE IF op.k = "str" THEN {<<"ok", FALSE, FALSE>>, <<"ok", TRUE, FALSE>>, <<"ok", TRUE, TRUE>>,
                             <<"Error", FALSE, FALSE>>}
  ELSE {<<"ok", FALSE, FALSE>>, <<"Error", FALSE, FALSE>>}
\* (as in TraceFields: a Get outcome that replaced the stored object needs that observation;
\*  one that did not matches either way -- re-storing an equal decoded object is not a change)
Matching(s, op, ob) == {o \in Step(s, op) : /\ o.res = ob[1] /\ o.mark = ob[2]
                                            /\ IF op.k \in {"get", "str"} THEN o.chg => ob[3] ELSE o.chg = ob[3]}
NextEquiv ==
  \E op \in C18Ops(fld, "orig") : \E ob \in Observations(op) :
     /\ alive' = UNION {{o.st : o \in Matching(s, op, ob)} : s \in alive}
     /\ hist' = Append(hist, Ev(op, ob[1], ob[2], ob[3]))
     /\ UNCHANGED <<fld, st>>

NextREnum ==
  \E k \in ReadOps, t \in {"orig", "clone"} :
     /\ hist' = Append(hist, Ev(Op(k, FN(fld), "-", t), "-", FALSE, FALSE))
     /\ UNCHANGED <<fld, st, alive>>

Next == /\ Len(hist) < MaxLen
        /\ CASE Mode = "enum" -> NextEnum [] Mode = "props" -> NextProps [] Mode = "equiv" -> NextEquiv
             [] Mode = "renum" -> NextREnum

Spec == Init /\ [][Next]_vars

-----------------------------------------------------------------------------
(* enumeration of programs (mode "enum") *)
Code(e) == IF e.op.k = "set" THEN "set." \o e.op.c ELSE e.op.k
Codes(h) == [j \in DOMAIN h |-> Code(h[j])]
HasSet(h) == \E j \in DOMAIN h : h[j].op.k = "set"
RCodes(h) == [j \in DOMAIN h |-> h[j].op.k \o "." \o h[j].op.t]
ProgView == <<fld, Lvl, IF Mode = "renum" THEN RCodes(hist) ELSE Codes(hist)>>
Emit == IF Mode = "enum" /\ HasSet(hist) THEN PrintT(<<"CASE", Lvl, FN(fld), Codes(hist)>>)
        ELSE IF Mode = "renum" /\ hist # <<>> THEN PrintT(<<"RCASE", RCodes(hist)>>)
        ELSE TRUE

-----------------------------------------------------------------------------
(* the statements of C18 / C19 on every transition (mode "props") *)
LastOut == [st |-> st', res |-> hist'[Len(hist')].res, mark |-> hist'[Len(hist')].mark,
            chg |-> hist'[Len(hist')].chg]
Statements == [][Mode = "props" => /\ AllStatements(st, hist'[Len(hist')].op, LastOut)
                                    \* C19: reading either copy does not make equal copies unequal
                                    /\ PReadKeepsEqual(st, hist'[Len(hist')].op, LastOut)]_vars

\* the catalogue offers exactly the value classes the datatype has
CatalogueOK == \A i \in DOMAIN Flds :
  IF Flds[i].kind = "newtag" THEN "valid" \in ClsOf(i) /\ ClsOf(i) \subseteq ClassesOf(Flds[i].dt)
  ELSE ClsOf(i) = ClassesOf(Flds[i].dt)
ASSUME CatalogueOK

-----------------------------------------------------------------------------
(* C18, declaratively, on a history of calls on ONE field of the original line.
   Eff(h, j): the last assignment before call j that replaced the value (0: the
   initial, valid value).  An invalid value is "reported" by a failing
   Get / Write / ValidateField / Validate / Str or by a marked Str.
   Poss(h, lvl, j): the value classes the field may hold before call j given
   everything observed so far ({} = some earlier call contradicted the
   statement).  More than one class is possible only at level 0, after a Get (or
   the marked Str, which reads the fields it cannot write) replaced an invalid
   encoded value by the decoded object.                                        *)
OnOrig(h) == \A j \in DOMAIN h : h[j].op.t = "orig" /\ h[j].op.k \in ReadKinds \cup {"set"}
Eff(h, j) == LET S == {i \in 1..(j - 1) : h[i].op.k = "set" /\ h[i].chg} IN
             IF S = {} THEN 0 ELSE CHOOSE i \in S : \A k \in S : k <= i
RepEvent(e) == e.op.k \in ReadKinds /\ (e.res = "Error" \/ e.mark)
ReportedBefore(h, j) == \E k \in (Eff(h, j) + 1)..(j - 1) : RepEvent(h[k])
\* is call j consistent with the statement if the field holds a value of class cur?
CallOK(h, lvl, j, cur) ==
  LET e == h[j] IN
  IF e.op.k = "set" THEN
     IF e.op.c = "valid" THEN e.res = "ok" /\ e.chg                          \* never rejected
     ELSE IF lvl = 3 THEN e.res = "Error" /\ ~e.chg                          \* at the assignment
     ELSE (e.res = "ok" /\ e.chg) \/ (e.res = "Error" /\ ~e.chg)
  ELSE IF cur = "absent" THEN                                               \* nothing assigned yet
       IF e.op.k \in {"write", "vfield"} THEN ~e.mark ELSE e.res = "ok" /\ ~e.mark
  ELSE IF cur = "valid" THEN e.res = "ok" /\ ~e.mark                         \* never rejected later
  ELSE IF cur = "inconsistent" THEN                                         \* valid for the field; the line
       IF e.op.k = "validate" THEN ~e.mark ELSE e.res = "ok" /\ ~e.mark     \* may report its own rule
  ELSE IF e.op.k \in {"validate", "vfield"} THEN e.res = "Error"             \* every level
  ELSE IF e.op.k \in {"write", "str"} THEN
       (lvl >= 2 /\ ~ReportedBefore(h, j)) => (e.res = "Error" \/ e.mark)    \* no later than the write
  ELSE TRUE                                                                  \* get
RECURSIVE Poss(_, _, _)
Poss(h, lvl, j) ==
  IF j = 1 THEN {InitCls(fld)}
  ELSE LET e == h[j - 1]
           Q == {c \in Poss(h, lvl, j - 1) : CallOK(h, lvl, j - 1, c)} IN
       IF Q = {} THEN {}
       ELSE IF e.op.k = "set" THEN (IF e.chg THEN {e.op.c} ELSE Q)
       ELSE IF (e.op.k = "get" \/ (e.op.k = "str" /\ e.mark)) /\ e.chg /\ e.res = "ok" THEN
            \* the stored object was replaced by the read
            (IF lvl = 0 /\ Q \cap InvalidCls # {} THEN Q \cup {"valid", "inconsistent"} ELSE Q)
       ELSE Q
Decl(h, lvl) == Poss(h, lvl, Len(h) + 1) # {}

\* every behaviour of the machine satisfies the declarative statement
DeclHolds == (Mode = "props" /\ OnOrig(hist)) => Decl(hist, Lvl)
\* the machine accepts exactly the observation sequences the statement allows
Equivalent == Mode = "equiv" => ((alive # {}) <=> Decl(hist, Lvl))

-----------------------------------------------------------------------------
(* C20 tables: facts TLC evaluates once *)
P(e, d) == Sym(1, e, d)        \*  2^e + d
M(e, d) == Sym(-1, e, d)       \* -2^e + d
K(d) == Sym(0, 0, d)           \*  d
ASSUME /\ Subtypes(M(7, 0), P(7, -1)) = {"c"}            \* [-128, 127]
       /\ Subtypes(K(0), P(7, -1)) = {"c", "C"}          \* [0, 127]: both are one byte
       /\ Subtypes(K(0), P(7, 0)) = {"C"}                \* 128
       /\ Subtypes(K(0), P(8, -1)) = {"C"}               \* 255
       /\ Subtypes(K(0), P(8, 0)) = {"s", "S"}           \* 256
       /\ Subtypes(M(7, -1), K(0)) = {"s"}               \* -129
       /\ Subtypes(M(7, 0), P(7, 0)) = {"s"}             \* [-128, 128]
       /\ Subtypes(K(-1), P(8, -1)) = {"s"}              \* [-1, 255]
       /\ Subtypes(K(0), P(15, -1)) = {"s", "S"}         \* 32767
       /\ Subtypes(K(0), P(15, 0)) = {"S"}               \* 32768
       /\ Subtypes(K(0), P(16, -1)) = {"S"}              \* 65535
       /\ Subtypes(K(0), P(16, 0)) = {"i", "I"}          \* 65536
       /\ Subtypes(M(15, 0), P(15, -1)) = {"s"}
       /\ Subtypes(M(15, -1), K(0)) = {"i"}              \* -32769
       /\ Subtypes(K(-1), P(15, 0)) = {"i"}              \* [-1, 32768]
       /\ Subtypes(K(0), P(31, -1)) = {"i", "I"}         \* 2^31 - 1
       /\ Subtypes(K(0), P(31, 0)) = {"I"}               \* 2^31
       /\ Subtypes(K(0), P(32, -1)) = {"I"}              \* 2^32 - 1
       /\ Subtypes(K(0), P(32, 0)) = {}                  \* 2^32: out of range
       /\ Subtypes(M(31, 0), P(31, -1)) = {"i"}
       /\ Subtypes(M(31, -1), K(0)) = {}                 \* -2^31 - 1: out of range
       /\ Subtypes(K(-1), P(31, 0)) = {}                 \* negative and above 2^31 - 1
       /\ Subtypes(K(5), K(5)) = {"c", "C"}

SymUniverse == {K(d) : d \in -2..2} \cup {P(e, d) : e \in {7, 8, 15, 16, 31, 32, 63}, d \in -2..2}
               \cup {M(e, d) : e \in {7, 8, 15, 16, 31, 32, 63}, d \in -2..2}
\* the order is total and strict on the universe; the subtype chosen holds the range, is of
\* minimal width, and widening a range never narrows the subtype
ASSUME \A a, b \in SymUniverse : SymOK(a) /\ (Lt(a, b) \/ Lt(b, a) \/ a = b) /\ ~(Lt(a, b) /\ Lt(b, a))
ASSUME \A a, b, c \in SymUniverse : (Lt(a, b) /\ Lt(b, c)) => Lt(a, c)
ASSUME \A lo, hi \in SymUniverse : Le(lo, hi) =>
         /\ \A t \in Subtypes(lo, hi) : Holds(t, lo, hi)
         /\ \A t \in Subtypes(lo, hi), u \in IntSub : Holds(u, lo, hi) => Bits(t) <= Bits(u)
         /\ (Subtypes(lo, hi) = {}) <=> (Lt(lo, M(31, 0)) \/ Lt(P(32, -1), hi) \/ (Lt(lo, Zero) /\ Lt(P(31, -1), hi)))
ASSUME \A lo, hi, hi2 \in SymUniverse : (Le(lo, hi) /\ Le(hi, hi2)) =>
         \A t \in Subtypes(lo, hi), u \in Subtypes(lo, hi2) : Bits(t) <= Bits(u)

\* recognisers on a few literal spellings
ASSUME /\ AccI(<<"-", "1", "2">>) /\ AccI(<<"+", "0">>) /\ ~AccI(<<"1", "_", "0">>) /\ ~AccI(<<>>) /\ ~AccI(<<"-">>)
       /\ AccF(<<"1", ".", "5">>) /\ AccF(<<".", "5">>) /\ AccF(<<"-", "1", "e", "-", "7">>) /\ AccF(<<"3">>)
       /\ ~AccF(<<"1", ".">>) /\ ~AccF(<<"i", "n", "f">>) /\ ~AccF(<<"n", "a", "n">>) /\ ~AccF(<<"1", "e">>)
       /\ ~AccF(<<"1", ".", "2", ".", "3">>)
       /\ AccZ(<<"a", " ", "b">>) /\ ~AccZ(<<"a", "\t", "b">>) /\ ~AccZ(<<"a", "\n">>) /\ ~AccZ(<<>>)
       /\ AccA(<<"~">>) /\ ~AccA(<<" ">>) /\ ~AccA(<<"a", "b">>) /\ ~AccA(<<"a", "\n">>)
       /\ AccH(<<"0", "A", "F", "F">>) /\ ~AccH(<<"A", "B", "C">>) /\ ~AccH(<<"0", "a">>) /\ ~AccH(<<>>)
       /\ AccB(<<"c", ",", "1", ",", "-", "1">>) /\ AccB(<<"f", ",", "1", ".", "5">>)
       /\ ~AccB(<<"f", ",">>) /\ ~AccB(<<"c">>) /\ ~AccB(<<"x", ",", "1">>) /\ ~AccB(<<"C", ",", "1", ".", "5">>)
       /\ StrBOK(<<"c", ",", "1", "2", "7">>) /\ ~StrBOK(<<"c", ",", "1", "2", "8">>) /\ ~StrBOK(<<"C", ",", "-", "1">>)
       /\ AccJ(<<"[", "1", "]">>) /\ ~AccJ(<<"[", "\t", "]">>) /\ ~AccJ(<<"a">>)
       /\ Cardinality(Printable) = 94
=============================================================================
