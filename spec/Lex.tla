-------------------------------- MODULE Lex --------------------------------
(* Lexical and line/document grammar of GFA1 and GFA2, written from the
   specification texts (GFA1: "GFA: Graphical Fragment Assembly (GFA) Format
   Specification" 1.0; GFA2: "GFA 2.0" grammar; tag datatypes as in the
   SAM optional-field table quoted by GFA1), NOT from gfapy's regular
   expressions.  Text is a sequence of 1-character strings (TLC strings are
   atomic).

   Every recogniser returns a verdict in {"acc", "rej", "either"}:
     "acc"    the grammar accepts the text
     "rej"    the grammar rejects the text
     "either" the documents (GFA1 text, GFA2 text, SAM, gfapy's documentation)
              disagree or are silent: no verdict is drawn (DESIGN 3.1:
              the specification is relational where the code is free).
   Accepts(dt, s) / Unsure(dt, s) are the boolean views of FieldVerdict.

   Documented disagreements / silences that are mapped to "either" (each is
   named at its recogniser):
     tags       empty Z value (SAM and the GFA2 tag pattern allow it, GFA1 does not);
                scalar top-level JSON (RFC 8259 yes, RFC 4627 and gfapy's docs no);
                JSON numbers with three-digit exponents and floats whose exponent may
                leave the IEEE single range (value range not expressible here);
                "-0" in an unsigned B array; tag names starting with a digit in GFA2
                (GFA2 pattern [A-Za-z0-9][A-Za-z0-9], GFA1 [A-Za-z][A-Za-z0-9]);
                predefined tags declared by only one of specification / gfapy
                (RC and MQ on C, TS on a GFA1 header, GFA1's segment tags on GFA2
                segments, VN on F).  Upper-case names that are not predefined are
                well-formed custom tags (gfapy's tutorial; GFA1 only "reserves" them).
     GFA1       segment name containing "+," or "-,"; a segment list that only parses
                with commas inside names; `*` as an element of a path's overlap list (only
                while the NUMBER of overlaps fits: a wrong count is rejected whatever the
                elements are, see PathCountWrong); the link of a path junction when only a
                link in the complement form, or one whose overlap is `*` while the path
                states a CIGAR, is present (compatible for gfapy; the texts do not say); empty
                containment position (the GFA1 table allows zero digits); a negative LN on a
                segment without sequence; user record types (none in GFA1)
     GFA2       "-0" as a position; one-element and negative traces; "+" sign of a
                positional integer (<int> is {-}[0-9]+, gfapy documents [-+]?[0-9]+);
                signed segment length; record types not starting with a letter and L/C/P
                as user record types; empty field of a user record; begin > end on a
                line outside a Gfa (gfapy documents the check on connection); `$`
                where the segment's sequence is absent or differs in length from slen
                (slen is "an indication to a drawing program"); a position equal to the
                length without `$` (the property states only the other direction)
     lines      one line terminator at the very end of a comment text; a document with
                duplicate identifiers (C09); comments in rGFA
   Paths and their links (decided, no longer "either"): the GFA1 text defines a path as a list of
   oriented segments "where each consecutive pair of oriented segments is supported by a link
   record"; gfapy's documentation (tutorial/references: "paths contain information in the fields
   segment_names and overlaps, which allow to identify the links from which they depend"; Path
   .is_circular: "the number of CIGARs must be equal to the number of segments") adds that the
   overlaps identify the links and that as many CIGARs as segments denote a circular path, whose
   last overlap belongs to the junction from the last segment back to the first.  So: n-1 or n
   CIGARs are accepted; a junction for which NO link line can serve (none between the two oriented
   segments, or only direct-form links whose CIGAR differs from the one the path states) makes
   the document invalid.                                                                    *)
EXTENDS Naturals, Sequences, FiniteSets, Util

-----------------------------------------------------------------------------
(* characters *)
Digit == {"0", "1", "2", "3", "4", "5", "6", "7", "8", "9"}
Upper == {"A", "B", "C", "D", "E", "F", "G", "H", "I", "J", "K", "L", "M",
          "N", "O", "P", "Q", "R", "S", "T", "U", "V", "W", "X", "Y", "Z"}
Lower == {"a", "b", "c", "d", "e", "f", "g", "h", "i", "j", "k", "l", "m",
          "n", "o", "p", "q", "r", "s", "t", "u", "v", "w", "x", "y", "z"}
Letter == Upper \cup Lower
Alnum  == Letter \cup Digit
\* the 32 printable ASCII characters that are neither letters nor digits
Punct == {"!", "\"", "#", "$", "%", "&", "'", "(", ")", "*", "+", ",", "-",
          ".", "/", ":", ";", "<", "=", ">", "?", "@", "[", "\\", "]", "^",
          "_", "`", "{", "|", "}", "~"}
Graph == Alnum \cup Punct            \* [!-~]
Print == Graph \cup {" "}            \* [ !-~]
HexUp  == Digit \cup {"A", "B", "C", "D", "E", "F"}
HexAny == HexUp \cup {"a", "b", "c", "d", "e", "f"}
Orient == {"+", "-"}

-----------------------------------------------------------------------------
(* verdicts *)
V(acc, unsure) == IF acc THEN "acc" ELSE IF unsure THEN "either" ELSE "rej"
Worst(S) == IF "rej" \in S THEN "rej" ELSE IF "either" \in S THEN "either" ELSE "acc"
Worse(a, b) == Worst({a, b})

-----------------------------------------------------------------------------
(* sequence helpers *)
AllIn(s, S) == \A k \in DOMAIN s : s[k] \in S
LastOf(s) == s[Len(s)]
FrontOf(s) == SubSeq(s, 1, Len(s) - 1)
From(s, k) == SubSeq(s, k, Len(s))

RECURSIVE FirstFrom(_, _, _)
FirstFrom(s, S, i) == IF i > Len(s) THEN 0
                      ELSE IF s[i] \in S THEN i ELSE FirstFrom(s, S, i + 1)
FirstIdx(s, S) == FirstFrom(s, S, 1)

\* like str.split(sep): Split(<<>>, c) = << <<>> >>
RECURSIVE Split(_, _)
Split(s, sep) == LET k == FirstIdx(s, {sep}) IN
                 IF k = 0 THEN <<s>>
                 ELSE <<SubSeq(s, 1, k - 1)>> \o Split(From(s, k + 1), sep)

AllElems(sq, P(_)) == \A k \in DOMAIN sq : P(sq[k])
SetMin(S) == CHOOSE k \in S : \A j \in S : k <= j

-----------------------------------------------------------------------------
(* decimal numerals: compared as digit strings (TLC integers are 32-bit) *)
DigVal(c) == CASE c = "0" -> 0 [] c = "1" -> 1 [] c = "2" -> 2 [] c = "3" -> 3
               [] c = "4" -> 4 [] c = "5" -> 5 [] c = "6" -> 6 [] c = "7" -> 7
               [] c = "8" -> 8 [] c = "9" -> 9
RECURSIVE StripZeros(_)
StripZeros(d) == IF Len(d) > 1 /\ d[1] = "0" THEN StripZeros(Tail(d)) ELSE d
\* a, b non-empty digit sequences without leading zeros
DecLeqN(a, b) ==
  \/ Len(a) < Len(b)
  \/ /\ Len(a) = Len(b)
     /\ LET D == {k \in DOMAIN a : a[k] # b[k]} IN
        D = {} \/ DigVal(a[SetMin(D)]) < DigVal(b[SetMin(D)])
DecLeq(a, b) == DecLeqN(StripZeros(a), StripZeros(b))
DecEq(a, b) == StripZeros(a) = StripZeros(b)
IsZero(d) == AllIn(d, {"0"})
RECURSIVE ToNat(_)
ToNat(d) == IF d = <<>> THEN 0 ELSE ToNat(FrontOf(d)) * 10 + DigVal(LastOf(d))
\* digit string d denotes the (small) natural n
DecIs(d, n) == LET z == StripZeros(d) IN Len(z) <= 9 /\ ToNat(z) = n

-----------------------------------------------------------------------------
(* numbers *)
IsUInt(s) == s # <<>> /\ AllIn(s, Digit)                      \* [0-9]+
StripSign(s, signs) == IF s # <<>> /\ s[1] \in signs THEN Tail(s) ELSE s
IsInt(s) == IsUInt(StripSign(s, {"+", "-"}))                  \* [-+]?[0-9]+
IsIntMinus(s) == IsUInt(StripSign(s, {"-"}))                  \* GFA2 <int> : {-}[0-9]+

\* [0-9]*\.?[0-9]+
IsMantissa(m) == LET d == FirstIdx(m, {"."}) IN
  IF d = 0 THEN IsUInt(m)
  ELSE AllIn(SubSeq(m, 1, d - 1), Digit) /\ IsUInt(From(m, d + 1))
\* [-+]?[0-9]*\.?[0-9]+([eE][-+]?[0-9]+)?
IsFloat(s) == LET u == StripSign(s, {"+", "-"})
                  e == FirstIdx(u, {"e", "E"}) IN
  IF e = 0 THEN IsMantissa(u)
  ELSE IsMantissa(SubSeq(u, 1, e - 1)) /\ IsInt(From(u, e + 1))

\* The value range of a float ("single-precision floating number") cannot be expressed
\* in TLA+; a numeral whose exponent reaches 38 or that is longer than 30 characters may
\* leave the range of an IEEE single: no verdict for those.
ExpDigits(s) == LET u == StripSign(s, {"+", "-"})
                    e == FirstIdx(u, {"e", "E"}) IN
                IF e = 0 THEN <<"0">> ELSE StripZeros(StripSign(From(u, e + 1), {"+", "-"}))
MayOverflow(s) == Len(s) > 30 \/ Len(ExpDigits(s)) >= 3
                  \/ (Len(ExpDigits(s)) = 2 /\ ToNat(ExpDigits(s)) >= 38)
FloatVerdict(s) == IF ~IsFloat(s) THEN "rej" ELSE V(~MayOverflow(s), TRUE)
\* some "e" or "E" of the text is followed by an exponent of three or more digits
HasBigExponent(s) ==
  \E k \in DOMAIN s :
    /\ s[k] \in {"e", "E"}
    /\ LET j == IF k + 1 <= Len(s) /\ s[k + 1] \in {"+", "-"} THEN k + 2 ELSE k + 1 IN
       j + 2 <= Len(s) /\ s[j] \in Digit /\ s[j + 1] \in Digit /\ s[j + 2] \in Digit

-----------------------------------------------------------------------------
(* tag datatypes (GFA1 "Optional fields" table) *)
VInt(s)   == V(IsInt(s), FALSE)
VFloat(s) == FloatVerdict(s)
\* Z: [ !-~]+ in GFA1; SAM (current) and the GFA2 tag pattern allow the empty string
VString(s) == V(s # <<>> /\ AllIn(s, Print), s = <<>>)
VChar(s)  == V(Len(s) = 1 /\ s[1] \in Graph, FALSE)
\* H: [0-9A-F]+, a byte array: two digits per byte
VHex(s)   == V(s # <<>> /\ AllIn(s, HexUp) /\ Len(s) % 2 = 0, FALSE)

\* B: [cCsSiIf](,number)+ ; integer subtypes hold integers of their range
IntBound(t) ==   \* <<|min|, max>> as digit strings
  CASE t = "c" -> << <<"1","2","8">>, <<"1","2","7">> >>
    [] t = "C" -> << <<"0">>, <<"2","5","5">> >>
    [] t = "s" -> << <<"3","2","7","6","8">>, <<"3","2","7","6","7">> >>
    [] t = "S" -> << <<"0">>, <<"6","5","5","3","5">> >>
    [] t = "i" -> << <<"2","1","4","7","4","8","3","6","4","8">>, <<"2","1","4","7","4","8","3","6","4","7">> >>
    [] t = "I" -> << <<"0">>, <<"4","2","9","4","9","6","7","2","9","5">> >>
\* verdict of one element of an integer array of subtype t
VIntElem(t, e) ==
  IF ~IsInt(e) THEN "rej"
  ELSE LET neg == e[1] = "-"
           d == StripSign(e, {"+", "-"})
           b == IntBound(t) IN
       IF neg THEN (IF t \in {"C", "S", "I"}
                    THEN V(FALSE, IsZero(d))      \* "-0" in an unsigned array: value in range, sign not
                    ELSE V(DecLeq(d, b[1]), FALSE))
       ELSE V(DecLeq(d, b[2]), FALSE)
VNumArray(s) ==
  IF Len(s) < 3 \/ s[1] \notin {"c", "C", "s", "S", "i", "I", "f"} \/ s[2] # "," THEN "rej"
  ELSE LET el == Split(From(s, 3), ",") IN
       IF s[1] = "f" THEN Worst({FloatVerdict(el[k]) : k \in DOMAIN el})
       ELSE Worst({VIntElem(s[1], el[k]) : k \in DOMAIN el})

(* J: JSON (RFC 8259 grammar) without tab/newline: a recursive-descent
   recogniser over characters.  Every parse operator takes the text and a
   start index and returns the index after the construct, or 0.            *)
RECURSIVE SkipWs(_, _)
SkipWs(s, i) == IF i <= Len(s) /\ s[i] = " " THEN SkipWs(s, i + 1) ELSE i
RECURSIVE DigitsEnd(_, _)
DigitsEnd(s, i) == IF i <= Len(s) /\ s[i] \in Digit THEN DigitsEnd(s, i + 1) ELSE i
At(s, i, c) == i <= Len(s) /\ s[i] = c
AtIn(s, i, S) == i <= Len(s) /\ s[i] \in S
\* number = [ minus ] int [ frac ] [ exp ]
JNum(s, i) ==
  LET a == IF At(s, i, "-") THEN i + 1 ELSE i IN
  IF ~AtIn(s, a, Digit) THEN 0 ELSE
  LET b == IF s[a] = "0" THEN a + 1 ELSE DigitsEnd(s, a)
      c == IF At(s, b, ".") THEN (IF AtIn(s, b + 1, Digit) THEN DigitsEnd(s, b + 1) ELSE 0) ELSE b IN
  IF c = 0 THEN 0 ELSE
  IF AtIn(s, c, {"e", "E"}) THEN
     LET d == IF AtIn(s, c + 1, {"+", "-"}) THEN c + 2 ELSE c + 1 IN
     IF AtIn(s, d, Digit) THEN DigitsEnd(s, d) ELSE 0
  ELSE c
\* string body after the opening quote
RECURSIVE JStrBody(_, _)
JStrBody(s, i) ==
  IF i > Len(s) THEN 0
  ELSE IF s[i] = "\"" THEN i + 1
  ELSE IF s[i] = "\\" THEN
       IF AtIn(s, i + 1, {"\"", "\\", "/", "b", "f", "n", "r", "t"}) THEN JStrBody(s, i + 2)
       ELSE IF At(s, i + 1, "u") /\ i + 5 <= Len(s) /\ \A k \in (i + 2)..(i + 5) : s[k] \in HexAny
            THEN JStrBody(s, i + 6)
       ELSE 0
  ELSE IF s[i] \in Print THEN JStrBody(s, i + 1)      \* control characters must be escaped
  ELSE 0
JLit(s, i, w) == IF i + Len(w) - 1 <= Len(s) /\ SubSeq(s, i, i + Len(w) - 1) = w THEN i + Len(w) ELSE 0

RECURSIVE JVal(_, _), JArrElems(_, _), JObjMembers(_, _)
JVal(s, i) ==
  IF i > Len(s) THEN 0
  ELSE IF s[i] = "[" THEN
         LET j == SkipWs(s, i + 1) IN IF At(s, j, "]") THEN j + 1 ELSE JArrElems(s, j)
  ELSE IF s[i] = "{" THEN
         LET j == SkipWs(s, i + 1) IN IF At(s, j, "}") THEN j + 1 ELSE JObjMembers(s, j)
  ELSE IF s[i] = "\"" THEN JStrBody(s, i + 1)
  ELSE IF s[i] = "-" \/ s[i] \in Digit THEN JNum(s, i)
  ELSE IF s[i] = "t" THEN JLit(s, i, <<"t", "r", "u", "e">>)
  ELSE IF s[i] = "f" THEN JLit(s, i, <<"f", "a", "l", "s", "e">>)
  ELSE IF s[i] = "n" THEN JLit(s, i, <<"n", "u", "l", "l">>)
  ELSE 0
\* i is at the first character of an element (white space already skipped)
JArrElems(s, i) ==
  LET v == JVal(s, i) IN
  IF v = 0 THEN 0 ELSE
  LET j == SkipWs(s, v) IN
  IF At(s, j, ",") THEN JArrElems(s, SkipWs(s, j + 1))
  ELSE IF At(s, j, "]") THEN j + 1 ELSE 0
JObjMembers(s, i) ==
  IF ~At(s, i, "\"") THEN 0 ELSE
  LET k == JStrBody(s, i + 1) IN
  IF k = 0 THEN 0 ELSE
  LET c == SkipWs(s, k) IN
  IF ~At(s, c, ":") THEN 0 ELSE
  LET v == JVal(s, SkipWs(s, c + 1)) IN
  IF v = 0 THEN 0 ELSE
  LET j == SkipWs(s, v) IN
  IF At(s, j, ",") THEN JObjMembers(s, SkipWs(s, j + 1))
  ELSE IF At(s, j, "}") THEN j + 1 ELSE 0
\* JSON-text = ws value ws
IsJsonText(s) == LET i == SkipWs(s, 1)
                     v == JVal(s, i) IN
                 v # 0 /\ SkipWs(s, v) = Len(s) + 1
\* an object or an array at top level is JSON by every document; a scalar top
\* level is JSON by RFC 7159/8259 but not by RFC 4627 nor by gfapy's documentation
\* (a JSON number has no range by the grammar, but RFC 8259 allows an implementation to
\* limit it: a text with a three-digit exponent is left unjudged)
VJson(s) == IF s = <<>> \/ ~AllIn(s, Print) \/ ~IsJsonText(s) THEN "rej"
            ELSE V(s[SkipWs(s, 1)] \in {"[", "{"} /\ ~HasBigExponent(s), TRUE)

-----------------------------------------------------------------------------
(* positional datatypes *)
NameFirst == Graph \ {"*", "="}                          \* [!-)+-<>-~]
IsName1(s) == s # <<>> /\ s[1] \in NameFirst /\ AllIn(s, Graph)
HasOrientComma(s) == \E k \in 1..(Len(s) - 1) : s[k] \in Orient /\ s[k + 1] = ","
\* GFA1 segment name [!-)+-<>-~][!-~]* ; a name containing "+," or "-," cannot be
\* told apart inside a path's segment list (gfapy documents that it refuses them)
VSegName1(s)  == V(IsName1(s) /\ ~HasOrientComma(s), IsName1(s))
VPathName1(s) == V(IsName1(s), FALSE)
VSeq1(s) == V(s = <<"*">> \/ (s # <<>> /\ AllIn(s, Letter \cup {"=", "."})), FALSE)   \* \*|[A-Za-z=.]+
VSeq2(s) == V(s # <<>> /\ AllIn(s, Graph), FALSE)                                     \* \*|[!-~]+
VOrient(s) == V(s = <<"+">> \/ s = <<"-">>, FALSE)

\* ([0-9]+[ops])+
IsCigar(s, ops) ==
  /\ s # <<>> /\ AllIn(s, Digit \cup ops)
  /\ s[1] \in Digit /\ LastOf(s) \in ops
  /\ \A k \in 2..Len(s) : s[k] \in ops => s[k - 1] \in Digit
Ops1 == {"M", "I", "D", "N", "S", "H", "P", "X", "="}
Ops2 == {"M", "D", "I", "P"}
VAln1(s) == V(s = <<"*">> \/ IsCigar(s, Ops1), FALSE)
\* GFA2 <alignment> <- * | <trace> | <CIGAR> ; <trace> <- <int>(,<int>)*.  A single
\* integer is a trace by the grammar but gfapy's documentation shows traces as lists;
\* negative elements satisfy <int> but not "non-negative integers" of the text.
VAln2(s) ==
  IF s = <<"*">> \/ IsCigar(s, Ops2) THEN "acc"
  ELSE LET el == Split(s, ",") IN
       IF AllElems(el, IsUInt) THEN V(Len(el) >= 2, TRUE)
       ELSE V(FALSE, AllElems(el, IsIntMinus))
\* GFA1 path overlaps: \*|cigar(,cigar)* ; gfapy also documents `*` as an element
VAlnList1(s) ==
  IF s = <<"*">> THEN "acc"
  ELSE LET el == Split(s, ",") IN
       V(AllElems(el, LAMBDA e : IsCigar(e, Ops1)),
         AllElems(el, LAMBDA e : e = <<"*">> \/ IsCigar(e, Ops1)))
\* GFA1 containment position: the table gives [0-9]* (empty allowed) while positional
\* fields are never empty by the text
VPos1(s) == V(IsUInt(s), s = <<>>)
\* GFA2 <pos> <- {-}[0-9]+{$} ; positions are 0..length, so only "-0" is debatable
VPos2(s) == LET core == IF s # <<>> /\ LastOf(s) = "$" THEN FrontOf(s) ELSE s IN
  V(IsUInt(core), Len(core) >= 2 /\ core[1] = "-" /\ IsUInt(Tail(core)) /\ IsZero(Tail(core)))
VId2(s)  == V(s # <<>> /\ AllIn(s, Graph), FALSE)                  \* <id> <- [!-~]+ ; opt_id adds "*", itself an <id>
VRef2(s) == V(Len(s) >= 2 /\ AllIn(s, Graph) /\ LastOf(s) \in Orient, FALSE)   \* <ref> <- [!-~]+[+-]
VIdList2(s)  == V(AllElems(Split(s, " "), LAMBDA e : VId2(e) = "acc"), FALSE)
VRefList2(s) == V(AllElems(Split(s, " "), LAMBDA e : VRef2(e) = "acc"), FALSE)
\* GFA1 path segment list: comma-separated name+orientation.  Strict reading: every
\* piece between commas is a name and an orientation.  Loose reading (the table's
\* pattern applied to the whole field; names may contain commas): some decomposition exists.
IsOrName1(e) == Len(e) >= 2 /\ LastOf(e) \in Orient /\ IsName1(FrontOf(e))
VRefList1(s) == V(AllElems(Split(s, ","), IsOrName1), IsOrName1(s))
\* GFA2 integers in positional fields: <int> <- {-}[0-9]+ ; gfapy documents [-+]?[0-9]+
VOptInt(s) == V(s = <<"*">> \/ IsIntMinus(s), IsInt(s))
VInt2(s)   == V(IsIntMinus(s), IsInt(s))
VLen2(s)   == V(IsUInt(s), IsInt(s))            \* a length is not negative
StdRT2 == {<<"H">>, <<"S">>, <<"E">>, <<"F">>, <<"G">>, <<"O">>, <<"U">>}
\* GFA2: "each descriptor line must begin with a letter"; any other code than the
\* standard ones is a user record.  L, C, P are refused by gfapy (documented).
VCustomRT(s) == LET ok == s # <<>> /\ AllIn(s, Graph) /\ s[1] # "#" /\ s \notin StdRT2 IN
  V(ok /\ s[1] \in Letter /\ s \notin {<<"L">>, <<"C">>, <<"P">>}, ok)
\* a comment is one line: no line break inside.  A single line break at the very end is the
\* line terminator offered together with the line: not judged
VComment(s) == V("\n" \notin Rng(s), s # <<>> /\ "\n" \notin Rng(FrontOf(s)))
VGeneric(s) == V(s # <<>> /\ "\n" \notin Rng(s) /\ "\t" \notin Rng(s), s = <<>>)

FieldVerdict(dt, s) ==
  CASE dt = "i" -> VInt(s)
    [] dt = "f" -> VFloat(s)
    [] dt = "Z" -> VString(s)
    [] dt = "A" -> VChar(s)
    [] dt = "J" -> VJson(s)
    [] dt = "H" -> VHex(s)
    [] dt = "B" -> VNumArray(s)
    [] dt = "segment_name_gfa1" -> VSegName1(s)
    [] dt = "path_name_gfa1" -> VPathName1(s)
    [] dt = "sequence_gfa1" -> VSeq1(s)
    [] dt = "sequence_gfa2" -> VSeq2(s)
    [] dt = "orientation" -> VOrient(s)
    [] dt = "alignment_gfa1" -> VAln1(s)
    [] dt = "alignment_gfa2" -> VAln2(s)
    [] dt = "alignment_list_gfa1" -> VAlnList1(s)
    [] dt = "position_gfa1" -> VPos1(s)
    [] dt = "position_gfa2" -> VPos2(s)
    [] dt = "identifier_gfa2" -> VId2(s)
    [] dt = "optional_identifier_gfa2" -> VId2(s)
    [] dt = "oriented_identifier_gfa2" -> VRef2(s)
    [] dt = "identifier_list_gfa2" -> VIdList2(s)
    [] dt = "oriented_identifier_list_gfa1" -> VRefList1(s)
    [] dt = "oriented_identifier_list_gfa2" -> VRefList2(s)
    [] dt = "optional_integer" -> VOptInt(s)
    [] dt = "integer_gfa2" -> VInt2(s)
    [] dt = "length_gfa2" -> VLen2(s)
    [] dt = "custom_record_type" -> VCustomRT(s)
    [] dt = "comment" -> VComment(s)
    [] dt = "generic" -> VGeneric(s)
Accepts(dt, s) == FieldVerdict(dt, s) = "acc"
Unsure(dt, s)  == FieldVerdict(dt, s) = "either"
Datatypes == {"i", "f", "Z", "A", "J", "H", "B", "segment_name_gfa1", "path_name_gfa1",
  "sequence_gfa1", "sequence_gfa2", "orientation", "alignment_gfa1", "alignment_gfa2",
  "alignment_list_gfa1", "position_gfa1", "position_gfa2", "identifier_gfa2",
  "optional_identifier_gfa2", "oriented_identifier_gfa2", "identifier_list_gfa2",
  "oriented_identifier_list_gfa1", "oriented_identifier_list_gfa2", "optional_integer",
  "integer_gfa2", "length_gfa2", "custom_record_type", "comment", "generic"}

-----------------------------------------------------------------------------
(* tags  NN:T:V *)
TagTypes == {"A", "i", "f", "Z", "J", "H", "B"}
\* shape NN:T:... (two separators in place)
TagShaped(s) == Len(s) >= 5 /\ s[3] = ":" /\ s[5] = ":"
TagName(s)  == <<s[1], s[2]>>
TagType(s)  == s[4]
TagValue(s) == From(s, 6)
\* GFA1: [A-Za-z][A-Za-z0-9]; the GFA2 grammar writes [A-Za-z0-9][A-Za-z0-9]
VTagName(ver, n) == V(n[1] \in Letter /\ n[2] \in Alnum,
                      ver = "gfa2" /\ n[1] \in Digit /\ n[2] \in Alnum)
VTag(ver, s) ==
  IF ~TagShaped(s) \/ TagType(s) \notin TagTypes THEN "rej"
  ELSE Worse(VTagName(ver, TagName(s)), FieldVerdict(TagType(s), TagValue(s)))

-----------------------------------------------------------------------------
(* lines: a line is a sequence of fields (the text split at tabs) *)
PosTypes(ver, rt) ==
  IF ver = "gfa1" THEN
    CASE rt = "H" -> <<>>
      [] rt = "S" -> <<"segment_name_gfa1", "sequence_gfa1">>
      [] rt = "L" -> <<"segment_name_gfa1", "orientation", "segment_name_gfa1", "orientation", "alignment_gfa1">>
      [] rt = "C" -> <<"segment_name_gfa1", "orientation", "segment_name_gfa1", "orientation", "position_gfa1", "alignment_gfa1">>
      [] rt = "P" -> <<"path_name_gfa1", "oriented_identifier_list_gfa1", "alignment_list_gfa1">>
  ELSE
    CASE rt = "H" -> <<>>
      [] rt = "S" -> <<"identifier_gfa2", "length_gfa2", "sequence_gfa2">>
      [] rt = "E" -> <<"optional_identifier_gfa2", "oriented_identifier_gfa2", "oriented_identifier_gfa2",
                       "position_gfa2", "position_gfa2", "position_gfa2", "position_gfa2", "alignment_gfa2">>
      [] rt = "F" -> <<"identifier_gfa2", "oriented_identifier_gfa2",
                       "position_gfa2", "position_gfa2", "position_gfa2", "position_gfa2", "alignment_gfa2">>
      [] rt = "G" -> <<"optional_identifier_gfa2", "oriented_identifier_gfa2", "oriented_identifier_gfa2",
                       "integer_gfa2", "optional_integer">>
      [] rt = "O" -> <<"optional_identifier_gfa2", "oriented_identifier_list_gfa2">>
      [] rt = "U" -> <<"optional_identifier_gfa2", "identifier_list_gfa2">>
StdRT(ver) == IF ver = "gfa1" THEN {"H", "S", "L", "C", "P"} ELSE {"H", "S", "E", "F", "G", "O", "U"}

\* predefined tags on which the specification and gfapy's declaration agree:
\* a function  name -> type  per (version, record type), as a set of pairs
Prescribed(ver, rt) ==
  IF ver = "gfa1" THEN
    CASE rt = "H" -> {<<"VN", "Z">>}
      [] rt = "S" -> {<<"LN", "i">>, <<"RC", "i">>, <<"FC", "i">>, <<"KC", "i">>, <<"SH", "H">>, <<"UR", "Z">>}
      [] rt = "L" -> {<<"MQ", "i">>, <<"NM", "i">>, <<"RC", "i">>, <<"FC", "i">>, <<"KC", "i">>, <<"ID", "Z">>}
      [] rt = "C" -> {<<"NM", "i">>, <<"ID", "Z">>}
      [] OTHER -> {}
  ELSE
    CASE rt = "H" -> {<<"VN", "Z">>, <<"TS", "i">>}
      [] rt = "E" -> {<<"TS", "i">>}
      [] rt = "F" -> {<<"TS", "i">>}
      [] OTHER -> {}
\* declared by one side only (GFA1 text: RC on C; gfapy: MQ on C, TS on a GFA1 header,
\* GFA1's segment tags on GFA2 segments, VN on F): no verdict on their type
Disputed(ver, rt) ==
  IF ver = "gfa1" THEN
    CASE rt = "C" -> {"RC", "MQ"} [] rt = "H" -> {"TS"} [] OTHER -> {}
  ELSE
    CASE rt = "S" -> {"RC", "FC", "KC", "SH", "UR", "LN"} [] rt = "F" -> {"VN"} [] OTHER -> {}

NameStr(n) == n[1] \o n[2]      \* two 1-character strings -> one 2-character string
VTagTypeFor(ver, rt, s) ==
  LET n == NameStr(TagName(s))
      pr == {p \in Prescribed(ver, rt) : p[1] = n} IN
  IF pr # {} THEN V(\E p \in pr : p[2] = TagType(s), FALSE)
  ELSE V(n \notin Disputed(ver, rt), TRUE)

\* verdict of the tags (f[1] is the record type, f[2..n+1] the positional fields, the
\* tags follow): each one a tag, names unique, prescribed types
VTags(ver, rt, f, n) ==
  LET T == (n + 2)..Len(f) IN
  IF \E k \in T : ~TagShaped(f[k]) THEN "rej"
  ELSE IF \E j, k \in T : j < k /\ TagName(f[j]) = TagName(f[k]) THEN "rej"
  ELSE Worst({VTag(ver, f[k]) : k \in T} \cup {VTagTypeFor(ver, rt, f[k]) : k \in T})

TagsNamed(f, n, name) == {k \in (n + 2)..Len(f) : TagShaped(f[k]) /\ NameStr(TagName(f[k])) = name}

\* cross-field rules that need only the line itself ------------------------
\* GFA1 S: LN equals the length of the sequence when both are given
VSegLN(f) ==
  LET K == TagsNamed(f, 2, "LN") IN
  IF K = {} THEN "acc"
  ELSE LET v == TagValue(f[SetMin(K)]) IN
       IF TagType(f[SetMin(K)]) # "i" \/ ~IsInt(v) THEN "acc"        \* judged by the tag rules
       ELSE LET neg == v[1] = "-"
                d == StripSign(v, {"+", "-"}) IN
            IF f[3] = <<"*">> THEN V(~neg \/ IsZero(d), TRUE)          \* a negative length alone: not judged
            ELSE V((~neg \/ IsZero(d)) /\ DecIs(d, Len(f[3])), FALSE)
\* GFA1 P: the overlaps are `*` or one CIGAR per junction: n-1 for a linear path, n for a circular
\* one (the last overlap closes the circle; documented by gfapy, see the head of this module)
VPathCount(f) ==
  LET n == Len(Split(f[3], ","))
      m == Len(Split(f[4], ",")) IN
  IF f[4] = <<"*">> THEN "acc"
  ELSE V(m = n - 1 \/ m = n, FALSE)
\* The SYNTAX of `*` as one of several overlaps is disputed (VAlnList1: "either"), the NUMBER of
\* overlaps is not: by the GFA1 pattern such a list is malformed, by gfapy's reading it is a list
\* of m overlaps and the count rule applies to it (only the single `*` stands for "all
\* unspecified").  So a P line whose segment list is unambiguous (n is certain; elements of the
\* overlap list never contain a comma, so m is certain) and whose m is neither n-1 nor n is
\* rejected under every reading, whatever its elements are.
PathCountWrong(f) == VRefList1(f[3]) = "acc" /\ VAlnList1(f[4]) # "rej" /\ VPathCount(f) = "rej"
\* GFA2 E/F: begin <= end on each sequence (positions already well-formed)
PosDigits(p) == IF LastOf(p) = "$" THEN FrontOf(p) ELSE p
VBegEnd(b, e) == IF IsUInt(PosDigits(b)) /\ IsUInt(PosDigits(e))
                 THEN V(DecLeq(PosDigits(b), PosDigits(e)), FALSE) ELSE "acc"
\* `$` on the begin position forces it on the end position (begin <= end = length)
VDollar(b, e) == IF LastOf(b) = "$" /\ LastOf(e) # "$" /\ IsUInt(PosDigits(b)) /\ IsUInt(PosDigits(e))
                 THEN "rej" ELSE "acc"

VPositional(ver, rt, f) ==
  LET pt == PosTypes(ver, rt) IN
  Worst({FieldVerdict(pt[k], f[k + 1]) : k \in DOMAIN pt})

\* indoc = FALSE: the line alone (gfapy.Line); begin > end is then left unjudged,
\* because gfapy documents that this is checked when the line joins a Gfa
VCross(ver, rt, f, indoc) ==
  IF ver = "gfa1" /\ rt = "S" THEN VSegLN(f)
  ELSE IF ver = "gfa1" /\ rt = "P" THEN VPathCount(f)
  ELSE IF ver = "gfa2" /\ rt \in {"E", "F"} THEN
    LET o == IF rt = "E" THEN 5 ELSE 4
        be == Worst({VBegEnd(f[o], f[o + 1]), VBegEnd(f[o + 2], f[o + 3]),
                     VDollar(f[o], f[o + 1])} \cup
                    (IF rt = "E" THEN {VDollar(f[o + 2], f[o + 3])} ELSE {})) IN
    IF be = "rej" /\ ~indoc THEN "either" ELSE be
  ELSE "acc"

LineVerdict(ver, f, indoc) ==
  IF f = <<>> \/ f[1] = <<>> THEN "rej"                       \* no record type
  ELSE IF f[1][1] = "#" THEN      \* a comment: the whole text, tabs included
       Worst({V("\n" \notin Rng(f[k]), FALSE) : k \in 1..(Len(f) - 1)} \cup {VComment(f[Len(f)])})
  ELSE IF Len(f[1]) = 1 /\ f[1][1] \in StdRT(ver) THEN
    LET rt == f[1][1]
        n == Len(PosTypes(ver, rt)) IN
    IF Len(f) - 1 < n THEN "rej"                              \* too few positional fields
    ELSE LET p == VPositional(ver, rt, f)
             t == VTags(ver, rt, f, n) IN
         IF p = "rej" \/ t = "rej" THEN "rej"
         ELSE IF ver = "gfa1" /\ rt = "P" /\ PathCountWrong(f) THEN "rej"   \* certain under every reading
         ELSE IF p = "either" \/ t = "either" THEN "either"   \* cross-field rules need well-formed fields
         ELSE VCross(ver, rt, f, indoc)
  ELSE IF ver = "gfa1" THEN "either"                          \* GFA1 has no user records; the text does not say "error"
  ELSE \* GFA2 user record: free positional fields, then tags; nothing but the record
       \* type and the absence of line breaks is prescribed
       IF VCustomRT(f[1]) = "rej" \/ \E k \in 2..Len(f) : "\n" \in Rng(f[k]) THEN "rej"
       ELSE IF VCustomRT(f[1]) = "either" \/ \E k \in 2..Len(f) : f[k] = <<>> THEN "either"
       ELSE "acc"

-----------------------------------------------------------------------------
(* documents: a sequence of lines; ver and dialect are given by the caller *)
RT(f) == IF f # <<>> /\ Len(f[1]) = 1 THEN f[1][1] ELSE "?"
IsStd(ver, f) == RT(f) \in StdRT(ver)
StripOr(r) == FrontOf(r)                                    \* "A+" -> "A"
OrOf(r) == LastOf(r)

\* identifiers defined by the document
SegNames(ver, D) == {D[k][2] : k \in {j \in DOMAIN D : IsStd(ver, D[j]) /\ RT(D[j]) = "S"}}
AllNames2(D) == {D[k][2] : k \in {j \in DOMAIN D : IsStd("gfa2", D[j]) /\ RT(D[j]) \in {"S", "E", "G", "O", "U"}
                                                   /\ D[j][2] # <<"*">>}}
\* segment identifiers a line refers to (the line is well-formed)
SegRefs(ver, f) ==
  LET rt == RT(f) IN
  IF ver = "gfa1" THEN
    CASE rt \in {"L", "C"} -> {f[2], f[4]}
      [] rt = "P" -> {StripOr(e) : e \in Rng(Split(f[3], ","))}
      [] OTHER -> {}
  ELSE
    CASE rt \in {"E", "G"} -> {StripOr(f[3]), StripOr(f[4])}
      [] rt = "F" -> {f[2]}
      [] OTHER -> {}
ItemRefs(f) ==
  LET rt == RT(f) IN
  CASE rt = "O" -> {StripOr(e) : e \in Rng(Split(f[3], " "))}
    [] rt = "U" -> Rng(Split(f[3], " "))
    [] OTHER -> {}

\* A GFA1 path names consecutive oriented segments; every junction must be supported by a link.
\* A CIGAR as a sequence of <<length without leading zeros, code>>:
RECURSIVE CigOps(_)
CigOps(s) == IF s = <<>> THEN <<>>
             ELSE LET e == DigitsEnd(s, 1) IN
                  << <<StripZeros(SubSeq(s, 1, e - 1)), s[e]>> >> \o CigOps(From(s, e + 1))
CigEq(a, b) == CigOps(a) = CigOps(b)
\* the junctions of a (well-formed) path: <<oriented segment, next oriented segment, stated overlap>>;
\* a single `*` leaves every overlap unstated; with as many overlaps as segments the last one closes the circle
PathJunctions(f) ==
  LET sl == Split(f[3], ",")
      n == Len(sl)
      ol == IF f[4] = <<"*">> THEN <<>> ELSE Split(f[4], ",")
      m == Len(ol)
      lin == {<<sl[k], sl[k + 1], IF m = 0 THEN <<"*">> ELSE ol[k]>> : k \in 1..(n - 1)} IN
  IF m = n THEN lin \cup {<<sl[n], sl[1], ol[n]>>} ELSE lin
InvOr(o) == IF o = "+" THEN "-" ELSE "+"
LinkLines(D) == {j \in DOMAIN D : IsStd("gfa1", D[j]) /\ RT(D[j]) = "L" /\ Len(D[j]) >= 6}
\* "acc": a link line in the direct form serves the junction (the path leaves the overlap unstated, or
\*        both state the same CIGAR);
\* "rej": no line can serve it: no link between the two oriented segments in either form, or only
\*        direct-form links that state another CIGAR;
\* "either": a link in the complement form, or a link with overlap `*` under a stated CIGAR
VJunction(D, J) ==
  LET a == StripOr(J[1])  oa == OrOf(J[1])  b == StripOr(J[2])  ob == OrOf(J[2])  ov == J[3]
      dir == {j \in LinkLines(D) : D[j][2] = a /\ D[j][3] = <<oa>> /\ D[j][4] = b /\ D[j][5] = <<ob>>}
      cpl == {j \in LinkLines(D) : D[j][2] = b /\ D[j][3] = <<InvOr(ob)>> /\ D[j][4] = a /\ D[j][5] = <<InvOr(oa)>>} \ dir
  IN
  IF \E j \in dir : ov = <<"*">> \/ (D[j][6] # <<"*">> /\ CigEq(D[j][6], ov)) THEN "acc"
  ELSE IF cpl = {} /\ \A j \in dir : ov # <<"*">> /\ D[j][6] # <<"*">> /\ ~CigEq(D[j][6], ov) THEN "rej"
  ELSE "either"
VPathLinks(D, f) == Worst({VJunction(D, J) : J \in PathJunctions(f)})

\* GFA2: `$` only on the last position of the segment.  The GFA2 text calls slen "an indication
\* to a drawing program" that need not be the actual length, and gfapy (and its own test data)
\* measure the given sequence: judged only when the sequence is given and as long as slen.
SegLine2(D, name) == LET K == {j \in DOMAIN D : IsStd("gfa2", D[j]) /\ RT(D[j]) = "S" /\ D[j][2] = name} IN
                     IF Cardinality(K) = 1 THEN D[CHOOSE j \in K : TRUE] ELSE <<>>
VDollarAt(D, name, p) ==
  LET sg == SegLine2(D, name)
      known == sg # <<>> /\ IsUInt(sg[3]) /\ sg[4] # <<"*">> /\ DecIs(sg[3], Len(sg[4])) IN
  IF LastOf(p) # "$"
  THEN \* the GFA2 text wants the `$` if and only if the position is the last one; the
       \* property only states the "only if" direction: the converse is not judged
       V(~(known /\ IsUInt(p) /\ DecEq(p, sg[3])), TRUE)
  ELSE IF ~known THEN "either"
  ELSE V(DecEq(PosDigits(p), sg[3]), FALSE)
VDollarLine(D, f) ==
  LET rt == RT(f) IN
  IF rt = "E" THEN Worst({VDollarAt(D, StripOr(f[3]), f[5]), VDollarAt(D, StripOr(f[3]), f[6]),
                          VDollarAt(D, StripOr(f[4]), f[7]), VDollarAt(D, StripOr(f[4]), f[8])})
  ELSE IF rt = "F" THEN Worst({VDollarAt(D, f[2], f[4]), VDollarAt(D, f[2], f[5])})
  ELSE "acc"

\* rGFA (gfatools' rGFA.md as summarised in gfapy's documentation): GFA1 only; no
\* H, C, P lines; S carries SN:Z SO:i SR:i; L may carry SR:i L1:i L2:i; overlaps are 0M
HasTagTyped(f, n, name, ty) == \E k \in TagsNamed(f, n, name) : TagType(f[k]) = ty
TagAbsentOrTyped(f, n, name, ty) == \A k \in TagsNamed(f, n, name) : TagType(f[k]) = ty
VRgfaLine(f) ==
  LET rt == RT(f) IN
  IF f[1] # <<>> /\ f[1][1] = "#" THEN "either"
  ELSE IF rt \in {"H", "C", "P"} THEN "rej"
  ELSE IF rt = "S" THEN V(HasTagTyped(f, 2, "SN", "Z") /\ HasTagTyped(f, 2, "SO", "i") /\ HasTagTyped(f, 2, "SR", "i"), FALSE)
  ELSE IF rt = "L" THEN
       IF ~(TagAbsentOrTyped(f, 5, "SR", "i") /\ TagAbsentOrTyped(f, 5, "L1", "i") /\ TagAbsentOrTyped(f, 5, "L2", "i")) THEN "rej"
       ELSE V(f[6] = <<"0", "M">>, f[6] = <<"*">>)
  ELSE "either"

DocVerdict(ver, dia, D) ==
  LET lv == {LineVerdict(ver, D[k], TRUE) : k \in DOMAIN D} IN
  IF "rej" \in lv THEN "rej"
  ELSE IF dia = "rgfa" /\ ver # "gfa1" THEN "rej"
  ELSE IF "either" \in lv THEN "either"
  ELSE
    LET std == {k \in DOMAIN D : IsStd(ver, D[k])}
        segs == SegNames(ver, D)
        named == IF ver = "gfa2" THEN AllNames2(D) ELSE {}
        refsOK == \A k \in std : SegRefs(ver, D[k]) \subseteq segs
        itemsOK == ver = "gfa1" \/ \A k \in std : ItemRefs(D[k]) \subseteq named
        dupNames == \E j, k \in std : j < k /\ RT(D[j]) \in {"S", "E", "G", "O", "U", "P"} /\ RT(D[k]) \in {"S", "E", "G", "O", "U", "P"}
                                      /\ D[j][2] = D[k][2] /\ D[j][2] # <<"*">>
        paths == IF ver = "gfa2" THEN "acc" ELSE Worst({VPathLinks(D, D[k]) : k \in {j \in std : RT(D[j]) = "P"}})
        dollar == IF ver = "gfa2" THEN Worst({VDollarLine(D, D[k]) : k \in std}) ELSE "acc"
        rg == IF dia = "rgfa" THEN Worst({VRgfaLine(D[k]) : k \in DOMAIN D}) ELSE "acc"
    IN
    IF ~refsOK \/ ~itemsOK \/ dollar = "rej" \/ rg = "rej" \/ paths = "rej" THEN "rej"
    ELSE IF dupNames \/ paths = "either" \/ dollar = "either" \/ rg = "either" THEN "either"   \* identifier uniqueness is C09's subject
    ELSE "acc"
=============================================================================
