------------------------------ MODULE CigarApa ------------------------------
(* Apalache (symbolic, bounded) check of the CIGAR laws for ALL CIGARs of length
   <= 6 with arbitrary operation lengths in 1..1000 -- beyond what TLC enumerates
   (MC_Cigar: <= 3 operations, lengths 1..2).  Self-contained copy of the
   operators of Cigar.tla with Apalache type annotations.
   Run: apalache-mc check --length=7 --inv=Laws CigarApa.tla                  *)
EXTENDS Integers, Sequences, Apalache

VARIABLE
  \* @type: Seq({n: Int, c: Str});
  cg

Codes == {"M", "I", "D", "P", "=", "X", "H"}

\* @type: (Str) => Str;
ComplCode(c) == IF c = "I" THEN "D" ELSE IF c = "D" THEN "I" ELSE IF c = "S" THEN "D" ELSE IF c = "N" THEN "I" ELSE c

\* @type: (Seq({n: Int, c: Str})) => Seq({n: Int, c: Str});
Complement(s) ==
  LET \* @type: (Seq({n: Int, c: Str}), {n: Int, c: Str}) => Seq({n: Int, c: Str});
      Prepend(acc, op) == <<[n |-> op.n, c |-> ComplCode(op.c)]>> \o acc
  IN ApaFoldSeqLeft(Prepend, <<>>, s)

\* @type: (Seq({n: Int, c: Str}), Set(Str)) => Int;
SumLen(s, S) ==
  LET \* @type: (Int, {n: Int, c: Str}) => Int;
      Add(acc, op) == acc + (IF op.c \in S THEN op.n ELSE 0)
  IN ApaFoldSeqLeft(Add, 0, s)

RefLen(s)   == SumLen(s, {"M", "=", "X", "D", "N"})
QueryLen(s) == SumLen(s, {"M", "=", "X", "I", "S"})

Init == cg = <<>>
Next == \/ /\ Len(cg) < 6
           /\ \E n \in 1..1000 : \E c \in Codes : cg' = Append(cg, [n |-> n, c |-> c])
        \/ UNCHANGED cg

Laws == /\ Complement(Complement(cg)) = cg
        /\ RefLen(Complement(cg)) = QueryLen(cg)
        /\ QueryLen(Complement(cg)) = RefLen(cg)
=============================================================================
