---------------------------- MODULE EdgeClassApa ----------------------------
(* Apalache (symbolic) check of the symmetry laws of the E-line classification
   (EdgeClass.tla) for ALL segment lengths 1..10^6 and all valid intervals, i.e.
   the claim "a segment of length 3 stands for every length" made by MC_EdgeCells.
   Self-contained copy of EdgeClass!Class with type annotations.
   Run: apalache-mc check --length=1 --inv=Laws EdgeClassApa.tla              *)
EXTENDS Integers

VARIABLES
  \* @type: Str;
  o1,
  \* @type: Str;
  o2,
  \* @type: Int;
  len1,
  \* @type: Int;
  len2,
  \* @type: Int;
  b1,
  \* @type: Int;
  e1,
  \* @type: Int;
  b2,
  \* @type: Int;
  e2

\* @type: (Int, Int, Int) => Str;
Kind(b, e, len) ==
  IF b = 0 /\ b # len THEN (IF e = len THEN "whole" ELSE "pfx")
  ELSE IF b = len THEN "sfx"
  ELSE IF e = len THEN "sfx" ELSE "inner"

Flip(k) == IF k = "pfx" THEN "sfx" ELSE IF k = "sfx" THEN "pfx" ELSE k
Oriented(k, o) == IF o = "+" THEN k ELSE Flip(k)
EndOf(k) == IF k = "pfx" THEN "L" ELSE "R"

\* @type: (Str, Str, Str, Str) => <<Str, Str, Str>>;
Class(oa, ob, k1, k2) ==
  IF k1 = "whole" /\ k2 = "whole" THEN <<"C", "edges_to_contained", "edges_to_containers">>
  ELSE IF k2 = "whole" THEN <<"C", "edges_to_contained", "edges_to_containers">>
  ELSE IF k1 = "whole" THEN <<"C", "edges_to_containers", "edges_to_contained">>
  ELSE IF k1 = "inner" \/ k2 = "inner" THEN <<"I", "internals", "internals">>
  ELSE IF Oriented(k1, oa) # Oriented(k2, ob)
    THEN <<"L", IF EndOf(k1) = "L" THEN "dovetails_L" ELSE "dovetails_R",
                IF EndOf(k2) = "L" THEN "dovetails_L" ELSE "dovetails_R">>
  ELSE <<"I", "internals", "internals">>

Inv2(o) == IF o = "+" THEN "-" ELSE "+"

Init == /\ o1 \in {"+", "-"} /\ o2 \in {"+", "-"}
        /\ len1 \in 1..1000000 /\ len2 \in 1..1000000
        /\ b1 \in 0..1000000 /\ e1 \in 0..1000000 /\ b2 \in 0..1000000 /\ e2 \in 0..1000000
        /\ b1 <= e1 /\ e1 <= len1 /\ b2 <= e2 /\ e2 <= len2
Next == UNCHANGED <<o1, o2, len1, len2, b1, e1, b2, e2>>

K1 == Kind(b1, e1, len1)
K2 == Kind(b2, e2, len2)
C == Class(o1, o2, K1, K2)
D == Class(o2, o1, K2, K1)
\* swapping the sides swaps the filings (except the both-whole tie)
SwapSym == (K1 = "whole" /\ K2 = "whole") \/ (D[1] = C[1] /\ D[2] = C[3] /\ D[3] = C[2])
\* reading from the other strand keeps the class
InvSym == Class(Inv2(o1), Inv2(o2), K1, K2) = C
\* a dovetail joins two ends; the end is the one the interval touches
Shape == /\ C[1] = "L" => (C[2] \in {"dovetails_L", "dovetails_R"} /\ C[3] \in {"dovetails_L", "dovetails_R"})
         /\ C[1] = "L" => ((C[2] = "dovetails_L") = (b1 = 0 /\ b1 # len1))
         /\ C[1] = "C" => (C[2] # C[3])
\* the kind depends only on (begin is 0, begin is last, end is last): length 3 is representative
Laws == SwapSym /\ InvSym /\ Shape
=============================================================================
