----------------------------- MODULE MC_Arrival -----------------------------
(* C03 at design level, and generator of arrival orders (spec -> code).
   A document is a set D of catalogue lines that forms a VALID document
   (ValidDoc: identifiers unique up to multi-line groups, every mentioned
   identifier defined, every path served by exactly one stored edge slot, no
   two competing links).  The lines of D are delivered one at a time in every
   possible order (Deliver); when all are delivered the state must be the same
   for every order (Confluent, compared with the state obtained by delivering
   in catalogue order) -- modulo the arrival order of the lines of one
   multi-line group, which C17 makes observable.  Every complete order is
   printed and replayed into the real gfapy.                                  *)
EXTENDS Gfa, Json, IOUtils, TLC

Cat  == JsonDeserialize(IOEnv.CATALOG_FILE)
Ops  == Cat.ops
MaxLines == Cat.depth
MinLines == Cat.mindepth
AddIdx == {i \in DOMAIN Ops : Ops[i].k = "add"}
LineOf(i) == Cat.pool[Ops[i].l]

VARIABLES doc, delivered, st, res
vars == <<doc, delivered, st, res>>

-----------------------------------------------------------------------------
NamedIn(D) == {i \in D : Named(LineOf(i))}
NamesIn(D) == {LineOf(i).name : i \in NamedIn(D)}
SegNamesIn(D) == {LineOf(i).name : i \in {j \in D : LineOf(j).rt = "S"}}
ItemTargets(D, rt) ==   \* what a group of type rt may list
  {LineOf(i).name : i \in {j \in NamedIn(D) :
      LineOf(j).rt \in (IF rt = "O" THEN {"S", "E", "G", "O"} ELSE {"S", "E", "G", "O", "U"})}}
LinksIn(D) == {i \in D : LineOf(i).rt = "L"}

ValidDoc(D) ==
  /\ \E i \in D : LineOf(i).rt = "S"
  /\ \A i, j \in NamedIn(D) :
       (i # j /\ LineOf(i).name = LineOf(j).name) =>
          /\ IsGroup(LineOf(i)) /\ LineOf(i).rt = LineOf(j).rt
          /\ ~TagConflict(LineOf(i), LineOf(j))
  /\ \A i \in D : SegMentions(LineOf(i)) \subseteq SegNamesIn(D)
  /\ \A i \in D : ItemMentions(LineOf(i)) \subseteq ItemTargets(D, LineOf(i).rt)
  /\ \A i \in D : IsGroup(LineOf(i)) => LineOf(i).name \notin RefIds(LineOf(i))
  \* links: two lines compete for a slot only when they are the two forms of one link
  /\ \A i, j \in LinksIn(D) : (i # j /\ LinkClash(LineOf(i), LineOf(j))) =>
        (IsComplement(LineOf(i), LineOf(j)) /\ ~SameEnds(LineOf(i), LineOf(j)))
  \* every requirement of every path is served, and by one edge only (both forms count as one)
  /\ \A i \in D : LineOf(i).rt = "P" =>
        \A r \in Rng(Required(LineOf(i))) :
           LET sv == {j \in LinksIn(D) : Serves(LineOf(j), r)} IN
           /\ sv # {}
           /\ \A a, b \in sv : a = b \/ IsComplement(LineOf(a), LineOf(b))
  \* one segment syntax per document
  /\ \A i, j \in D : (LineOf(i).rt = "S" /\ LineOf(j).rt = "S") => Len(LineOf(i).f) = Len(LineOf(j).f)
  /\ \A i, j \in D : LineVersion(LineOf(i)) = "any" \/ LineVersion(LineOf(j)) = "any"
                       \/ LineVersion(LineOf(i)) = LineVersion(LineOf(j))
  /\ \A i \in D : LineOf(i).rt = "H" =>
        \A v \in VNs(LineOf(i)) : \A j \in D : LineVersion(LineOf(j)) \in {"any", VerOfVN(v)}

Docs == {D \in SUBSET AddIdx : Cardinality(D) >= MinLines /\ Cardinality(D) <= MaxLines /\ ValidDoc(D)}

Init == /\ doc \in Docs
        /\ delivered = <<>>
        /\ st = Init0(Cat.cfg)
        /\ res = "init"

AddOp(i) == [k |-> "add", id |-> "", id2 |-> "", l |-> LineOf(i)]
Deliver ==
  \E i \in doc \ Rng(delivered) :
     \E o \in Step(st, AddOp(i)) :
        /\ st' = o.st /\ res' = o.res
        /\ delivered' = Append(delivered, i)
        /\ UNCHANGED doc
Finish ==    \* end of input: the queue is delivered under the guessed version
  /\ Rng(delivered) = doc /\ st.queue # <<>>
  /\ \E o \in ProcessQueue(st) : st' = o.st /\ res' = o.res
  /\ UNCHANGED <<doc, delivered>>
Next == Deliver \/ Finish
Spec == Init /\ [][Next]_vars

Complete == Rng(delivered) = doc /\ st.queue = <<>>
\* strict documents: no multi-line group and no link given in both forms, so even the
\* digest of the whole object graph must be the same for every order
Strict(D) == /\ \A i, j \in NamedIn(D) : LineOf(i).name = LineOf(j).name => i = j
             /\ \A i, j \in LinksIn(D) : i # j => ~LinkClash(LineOf(i), LineOf(j))
Emit == IF Rng(delivered) = doc /\ Len(delivered) = Cardinality(doc) /\ res # "init"
           /\ (st.queue # <<>> \/ TRUE)
        THEN PrintT(<<"H", delivered, Strict(doc)>>) ELSE TRUE

-----------------------------------------------------------------------------
\* canonical content: lines as a bag; the items of a group compared as a bag
\* (their order is the arrival order of the group's lines, C17); a link is
\* identified with its complement by keeping the reading whichever arrived
GroupBag(l) == IF IsGroup(l) THEN [Norm(l) EXCEPT !.refs = BagOf(l.refs)] ELSE Norm(l)
Content(s) == [ver |-> s.ver, lines |-> BagOf(SeqMap(GroupBag, s.lines)),
               hdr |-> BagOf(SeqMap(LAMBDA h : h.t, s.hdr))]
LinkFree(c) == c   \* (which form of a doubly supplied link is kept may depend on the order)

RECURSIVE LoadSeq(_, _)
LoadSeq(s, q) == IF q = <<>> THEN s
                 ELSE LoadSeq((CHOOSE o \in Step(s, AddOp(Head(q))) : o.res = "ok").st, Tail(q))
Reference(D) ==
  LET s == LoadSeq(Init0(Cat.cfg), SetToSeq(D)) IN
  IF s.queue = <<>> THEN s ELSE (CHOOSE o \in ProcessQueue(s) : TRUE).st

\* complement twins: keep one reading per edge slot when comparing
NormLinkForm(l) == IF IsLink(l) THEN EdgeKey(AsReq(l)) ELSE {}
ContentModLinks(s) ==
  [ver |-> s.ver, hdr |-> BagOf(SeqMap(LAMBDA h : h.t, s.hdr)),
   lines |-> BagOf(SeqMap(LAMBDA l : IF IsLink(l) THEN [k |-> EdgeKey(AsReq(l)), t |-> Rng(l.tags), n |-> l.name]
                                    ELSE GroupBag(l), s.lines))]

\* every delivery of a valid document succeeds
AllAccepted == res \in {"init", "ok"}
Confluent == Complete => ContentModLinks(st) = ContentModLinks(Reference(doc))
NoPlaceholderAtEnd == Complete => PlaceholderIds(st) = {} /\ VirtLinkKeys(st) = {}
VersionDecided == Complete => st.ver \in {"gfa1", "gfa2"}
=============================================================================
