---------------------------- MODULE TraceGroups ----------------------------
(* C17, code -> spec.  One record per case, written by harness/fam_groups.py:

     ev   the calls gfa.add_line(text), in the order made:
            l    index into Pool of the abstract form of the text that was added
            res  result class ("ok", a gfapy.Error class, "FOREIGN")
            gx   for an O/U line: result class of looking the group up afterwards
                 and reading its `items` ("none": no such group)
            gi   its items as gfapy lists them, a sequence of [id, o]
            gt   its tags as gfapy writes them
     q    for every group identifier of the case, after all lines were added:
            id, rt ("O", "U", or "-" when gfapy has no such group)
            a, b, c = captured_path / captured_segments / captured_edges   (O)
                      induced_set / induced_segments_set / induced_edges_set (U)
                      each [r |-> result class, w |-> sequence of [id, o, p]],
                      p = index into Pool of the written form of a set member
     val  result class of gfa.validate()
     exp  the strict expectation classes printed by MC_Groups for this case
          (identifier, kind), or <<>> for cases that do not come from TLC

   The document is rebuilt from the abstract lines with Groups!Deliver, every
   answer is recomputed with the operators of Groups.tla.  Acceptance is
   relational (Groups.tla, "relaxed reading"): a walk is accepted iff it is an
   outcome of some defensible reading, an error iff some reading has no walk;
   WHICH gfapy.Error class is raised and WHEN (on add_line, on the query, in
   validate) is free.  Clauses:
     C17.items   items after a line differ from the concatenation in arrival
                 order / a valid further line was refused
     C17.tags    tags are not the union / a contradicting line was accepted or
                 changed the group
     C17.path    the walk is not one the items imply (or captured_segments /
                 captured_edges are not its segments / edges)
     C17.path-error-missed    no reading has a walk but gfapy returned one
     C17.path-error-spurious  every reading has a walk but gfapy raised
     C17.reading no single reading explains the answers to all the groups of the
                 document, although each answer alone is explained by some reading
     C17.set     induced set (segments as a set, edges as a BAG of name + what
                 they join, so that unnamed edges count one by one) differs
     C17.set-error  gfapy raised on a set that is fully defined, or answered
                 for a set with an illegal item
     C17.validate  validate() raised although every group resolves
     foreign     an exception that is not a gfapy.Error (incl. RecursionError),
                 or the watchdog fired
     harness.*   the harness itself is wrong (reported as machinery failure)  *)
EXTENDS Groups, Json, IOUtils, TLC

Data  == JsonDeserialize(IOEnv.TRACE_FILE)
Pool  == Data.pool
Cases == Data.cases

VARIABLES n, done
vars == <<n, done>>

IsErr(r) == r \notin {"ok", "FOREIGN"}
\* an answer element is [id, o, p]: p = index into Pool of the written form of the line
\* (set answers; 0 in walks)
Refs(w) == [i \in DOMAIN w |-> [id |-> w[i].id, o |-> w[i].o]]
RtOf(x) == IF x.p >= 1 THEN Pool[x.p].rt ELSE "?"
LoggedSegs(w) == {w[i].id : i \in {j \in DOMAIN w : RtOf(w[j]) = "S"}}
\* the logged edges as a bag of keys (unnamed edges are told apart by what they join)
LoggedEdgeBag(w) ==
  BagOf(SeqMap(LAMBDA x : EdgeKeyOf(Pool[x.p]), SelectSeq(w, LAMBDA x : RtOf(x) = "E")))
OnlySegsAndEdges(w) == \A i \in DOMAIN w : RtOf(w[i]) \in {"S", "E"}

-----------------------------------------------------------------------------
(* one add_line event against the document D before it *)
GroupIn(D, l) == IF \E i \in DOMAIN D : D[i].rt = l.rt /\ D[i].name = l.name
                 THEN D[CHOOSE i \in DOMAIN D : D[i].rt = l.rt /\ D[i].name = l.name]
                 ELSE [rt |-> "none", refs |-> <<>>, tags |-> <<>>]
\* what the group looks like in the log
LoggedAs(e, g) ==
  (IF g.rt = "none" THEN (IF e.gx = "none" THEN {} ELSE {"C17.items"})
   ELSE IF e.gx # "ok" THEN {"C17.items"}
   ELSE (IF e.gi = g.refs THEN {} ELSE {"C17.items"})
        \cup (IF Rng(e.gt) = Rng(g.tags) THEN {} ELSE {"C17.tags"}))

\* result: [d |-> document after the call, f |-> failing clauses]
Event(D, e) ==
  LET l == Pool[e.l] IN
  IF e.res = "FOREIGN" THEN [d |-> D, f |-> {"foreign"}]
  ELSE IF l.rt \notin {"O", "U"} THEN
    [d |-> Append(D, l), f |-> IF e.res = "ok" THEN {} ELSE {"harness.base-refused"}]
  ELSE
    LET r == Deliver(D, l) IN
    IF ~r.ok THEN        \* contradicting tag: an error, and the group as before
      [d |-> D, f |-> (IF e.res = "ok" THEN {"C17.tags"} ELSE {})
                      \cup (IF LoggedAs(e, GroupIn(D, l)) = {} THEN {} ELSE {"C17.tags"})]
    ELSE IF e.res # "ok" THEN
      IF SelfRef(l)      \* a group listing itself may be refused; then nothing changes
      THEN [d |-> D, f |-> LoggedAs(e, GroupIn(D, l))]
      ELSE [d |-> D, f |-> {"C17.items"}]
    ELSE [d |-> r.d, f |-> LoggedAs(e, GroupIn(r.d, l))]

RECURSIVE Run(_, _, _)
\* first failing event decides; otherwise the final document
Run(ev, k, D) ==
  IF k > Len(ev) THEN [d |-> D, f |-> {}]
  ELSE LET x == Event(D, ev[k]) IN
       IF x.f # {} THEN x ELSE Run(ev, k + 1, x.d)

-----------------------------------------------------------------------------
(* the queries on the final document *)
PathFails(D, q, B) ==
  LET walks == WalksIn(B)
      mayfail == MayFailIn(B)
      A == IF q.a.r = "FOREIGN" THEN {"foreign"}
           ELSE IF q.a.r = "ok" THEN
             (IF Refs(q.a.w) \in walks THEN {}
              ELSE IF walks # {} THEN {"C17.path"} ELSE {"C17.path-error-missed"})
           ELSE (IF mayfail THEN {} ELSE {"C17.path-error-spurious"})
      \* captured_segments / captured_edges: the segments / edges of the same walk
      Part(x, sel(_, _)) ==
           IF x.r = "FOREIGN" THEN {"foreign"}
           ELSE IF q.a.r = "ok" THEN (IF x.r = "ok" /\ Refs(x.w) = sel(D, Refs(q.a.w)) THEN {} ELSE {"C17.path"})
           ELSE IF x.r = "ok" THEN
             (IF \E w \in walks : Refs(x.w) = sel(D, w) THEN {"C17.path"} ELSE {"C17.path-error-missed"})
           ELSE {} IN
  A \cup Part(q.b, SegsOfWalk) \cup Part(q.c, EdgesOfWalk)

SetFails(D, q) ==
  LET X == SegsMentioned(D, q.id)
      E == EdgeBagWithin(D, X)          \* every E line inside, unnamed ones too: a bag
      none == BagOf(<<>>)
      One(x, S, B) ==
        IF x.r = "FOREIGN" THEN {"foreign"}
        ELSE IF x.r = "ok" THEN
          (IF ~SetMayAnswer(D, q.id) THEN {"C17.set-error"}
           ELSE IF OnlySegsAndEdges(x.w) /\ LoggedSegs(x.w) = S /\ LoggedEdgeBag(x.w) = B
             THEN {} ELSE {"C17.set"})
        ELSE (IF SetMayFail(D, q.id) THEN {} ELSE {"C17.set-error"}) IN
  One(q.a, X, E) \cup One(q.b, X, none) \cup One(q.c, {}, E)

\* B: Groups!ByReading of the path, <<>> for a set
QueryFails(D, q, B) ==
  LET ln == LineNamed(D, q.id) IN
  IF ln.rt \notin {"O", "U"} THEN (IF q.rt = "-" THEN {} ELSE {"C17.items"})
  ELSE IF q.rt # ln.rt THEN {"C17.items"}
  ELSE IF ln.rt = "O" THEN PathFails(D, q, B) ELSE SetFails(D, q)

\* ONE reading explains the answers to all the groups of the document (judged only
\* when every answer on its own is acceptable): walks are outcomes of that reading,
\* errors are raised where that reading has no walk
ExplainedBy(D, q, B, R) ==
  LET ln == LineNamed(D, q.id) IN
  IF ln.rt = "O" /\ q.rt = "O" THEN
    (IF q.a.r = "ok" THEN Refs(q.a.w) \in WalksUnder(B, R)
     ELSE IF IsErr(q.a.r) THEN WalksUnder(B, R) = {} ELSE TRUE)
  ELSE IF ln.rt = "U" /\ q.rt = "U" THEN
    (IF IsErr(q.a.r) THEN SetMayFailUnder(D, q.id, R) ELSE TRUE)
  ELSE TRUE
ReadingFails(D, qs, Bs) ==
  IF \E R \in Readings : \A i \in DOMAIN qs : ExplainedBy(D, qs[i], Bs[i], R) THEN {} ELSE {"C17.reading"}

\* validate() may complain exactly when some group does not resolve
GroupIdsOf(D) == {D[i].name : i \in {j \in DOMAIN D : D[j].rt \in {"O", "U"}}}
Resolves(D, id) ==
  IF LineNamed(D, id).rt = "O" THEN ~PathMayFail(D, id)
  ELSE ~SetMayFail(D, id)
ValFails(D, v) ==
  IF v = "FOREIGN" THEN {"foreign"}
  ELSE IF v = "ok" THEN {}
  ELSE IF \A id \in GroupIdsOf(D) : Resolves(D, id) THEN {"C17.validate"} ELSE {}

\* the case is the one TLC generated: same strict expectation
KindOf(D, id) ==
  LET ln == LineNamed(D, id) IN
  IF ln.rt = "O" THEN (LET cp == CapturedPath(D, id) IN IF cp.ok THEN "walk" ELSE cp.kind)
  ELSE IF ln.rt = "U" THEN (LET is == InducedSet(D, id) IN IF is.ok THEN "set" ELSE is.kind)
  ELSE "refused"
ExpFails(D, c) ==
  IF \E k \in DOMAIN c.ev : SelfRef(Pool[c.ev[k].l]) THEN {}    \* (such a line may be refused)
  ELSE IF \A i \in DOMAIN c.exp : KindOf(D, c.exp[i][1]) = c.exp[i][2] THEN {} ELSE {"harness.exp"}

Fails(c) ==
  LET r == Run(c.ev, 1, <<>>) IN
  IF r.f # {} THEN r.f
  ELSE LET Bs == [i \in DOMAIN c.q |-> IF LineNamed(r.d, c.q[i].id).rt = "O" THEN ByReading(r.d, c.q[i].id) ELSE <<>>]
           qf == UNION {QueryFails(r.d, c.q[i], Bs[i]) : i \in DOMAIN c.q} IN
       qf \cup (IF qf = {} THEN ReadingFails(r.d, c.q, Bs) ELSE {})
          \cup ValFails(r.d, c.val) \cup ExpFails(r.d, c)

\* for replays (GROUPS_EXPLAIN=1): what the specification expects of every group
WalkText(w) == [i \in DOMAIN w |-> w[i].id \o w[i].o]
Explain(c) ==
  LET D == Run(c.ev, 1, <<>>).d IN
  [i \in DOMAIN c.q |->
     LET id == c.q[i].id
         rt == LineNamed(D, id).rt IN
     IF rt = "O" THEN
       LET cp == CapturedPath(D, id) IN
       <<id, "strict reading:", IF cp.ok THEN WalkText(cp.walk) ELSE <<cp.kind>>,
         "also accepted:", {WalkText(w) : w \in PathWalks(D, id)},
         IF PathMayFail(D, id) THEN "or a gfapy.Error" ELSE "no error">>
     ELSE IF rt = "U" THEN
       <<id, "segments:", SegsMentioned(D, id), "edges:", EdgesWithin(D, SegsMentioned(D, id)),
         IF SetMayFail(D, id) THEN "or a gfapy.Error" ELSE "no error",
         IF SetMayAnswer(D, id) THEN "" ELSE "error required">>
     ELSE <<id, "no such group">>]

Init == n \in 1..Len(Cases) /\ done = FALSE
Next == /\ ~done /\ done' = TRUE /\ UNCHANGED n
        /\ (IF "GROUPS_EXPLAIN" \in DOMAIN IOEnv /\ IOEnv.GROUPS_EXPLAIN = "1" THEN PrintT("EXPECT " \o ToString(Explain(Cases[n]))) ELSE TRUE)
        /\ LET f == Fails(Cases[n]) IN
           IF f = {} THEN TRUE ELSE PrintT(<<"REJECT", Cases[n].id, f>>)
Spec == Init /\ [][Next]_vars
=============================================================================
