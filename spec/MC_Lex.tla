------------------------------- MODULE MC_Lex -------------------------------
(* Case generator of the lexical family (spec -> code direction, C04 / C07).
   TLC's state space IS the bounded input space: every state is one case.

   Layers (selected by Cat.layers):
     enum   every string of <= n symbols over a per-datatype alphabet of class
            representatives (a symbol is a short character sequence, e.g. "inf"),
            printed with the verdict of Lex!FieldVerdict
     mut    single-point mutations (delete / replace / insert a class
            representative) of the valid catalogue strings
     line   for every record type and version: every prefix of the positional
            fields (arity n-1, n-2, ...), at most one positional field deviating
            from its primary valid representative (other valid or invalid
            representative), and - behind all-primary positionals - every
            sequence of <= ntag tag fields over the record's tag kinds (valid
            custom, duplicate name, predefined with right / wrong type, bad
            names, unknown type letter, empty value, non-tag extra field =
            arity n+1, empty field); printed with Lex!LineVerdict
     doc    base documents and their single-line variants (delete / substitute
            / add a line), printed with Lex!DocVerdict
     xdoc   document templates for the cross-field rules: a template is a document with
            slots (line, field, alternatives; the first alternative is the valid primary).
            "Context" slots (the sequence of a segment given or `*`) are enumerated
            as a full product, at most `maxdev` of the other slots deviate from their
            primary, and every listed arrival order of the lines is generated
            (segments first / referring line first / in between); printed with
            Lex!DocVerdict, which does not depend on the order
     lmut   single-point mutations of whole valid lines as TEXT (delete, empty,
            duplicate a field; truncate; append tab; replace / delete / insert a
            character; a byte that is not text - Cat.lbytes: undecodable byte, NUL, lone
            CR - in front of / behind every field)          -- C07 input
     lenum  every text of <= n symbols over a line-level alphabet (incl. tab)
                                                           -- C07 input
     hdr    header lines carrying ONE tag: every name of Cat.hdr.names (the predefined
            header tags VN, TS) declared with every datatype letter and every value of a
            small value list (values of every datatype, so most combinations are a type
            or a syntax mismatch), alone or behind one line that waits in the version
            queue or followed by a tag / a segment line           -- C07 input
     hist   API histories on a connected line (C07: "field names and values to set"):
            a document of Cat.api.docs is loaded, then ONE positional field of ONE of
            its lines (every line, every positional field) is assigned a string - every
            valid and invalid representative the line layer knows for that field
            (Recs) and every generic string of Cat.api.values - through line.set() or
            through attribute assignment, followed by every tail of Cat.api.tails
            (remove the line, disconnect it, remove the segment everything hangs on,
            validate, write, assign the old text back and remove).  A history is
            printed as indices <<"CH", doc, line, field, value text, setter, tail>>;
            the harness executes it at every validation level and records the result
            class of every call; TraceLex demands that each is an allowed outcome.
     nest   GFA2 groups nested in each other under removal and under the computing calls
            (captured path / segments / edges, induced set, conversion of the line and of the Gfa) (C07: "identifiers to ... remove";
            RecursionError and non-termination are named by the property).  The DOCUMENTS are
            built here: kind (O / U) x 1..3 groups a, b, c where each lists the next x the
            last one lists the first (a cycle; one group: it lists itself) or not (a chain:
            deep nesting) x which groups also list a segment (none / the last / all) x an
            outer set `U d a` depending on the nest or not x the first group led by an edge
            between the two segments (none / containment / internal alignment / dovetail; the
            other groups then start with their segment) x three arrival orders (as
            listed; reversed = every reference is a forward reference; groups rotated and
            the segments last).  On every line of every such document every tail of
            Cat.nest.tails is run (remove by identifier, remove the instance, disconnect,
            validate, write); printed as <<"CG", document, line, tail>>.
     queue  documents whose first lines do NOT decide the version (valid L / C / P lines and
            lines of unknown type, which wait in the queue), combined with one line that is
            refused in some contexts (truncated, malformed field, duplicate of a queued
            line, name clash with the deciding line, line of the other version, ...) and a
            decider (S line of either version, H VN, a name clash, nothing = end of input)
            in three arrangements (queued, refused, decider / refused first / refused
            after the decision)                                   -- C07 input
     long   over-long records: every field of every valid line (for a tag: its value) replaced
            by a run of Cat.longs[r].n copies of one character between a prefix and a suffix
            (digits alone: identifiers, positions, lengths, integer tags; digits + "M":
            CIGAR length; + "$": last position; + "+": oriented identifier / list element;
            "1," / "c," + digits: trace and array element; "[" digits "]": JSON number;
            letters); printed run-length encoded as
            <<"CX", text before, character, count, text after>>   -- C07 input
   The alphabets, catalogues and bounds are data (one JSON file written by
   harness/fam_lex.py and read here: a single source for TLC and for Python).
   Characters are printed as indices into Cat.chars, because TLC's output
   encoding is lossy for control and non-ASCII characters.                   *)
EXTENDS Lex, Json, IOUtils, TLC

Cat    == JsonDeserialize(IOEnv.LEX_FILE)
Chars  == Cat.chars
Ctx    == Cat.ctx        \* [name, ver, dt, fields, hole, fpre]: a line with a hole
Alph   == Cat.alph       \* [ctx, pre, suf, syms, n]
Valid  == Cat.cat        \* [ctx, s]
Reps   == Cat.reps       \* class representatives used by mut
Recs   == Cat.recs       \* [ver, rt, pos: seq of [good, bad], tags, ntag]
VLines == Cat.lines      \* [ver, f]
LReps  == Cat.lreps
LAlph  == Cat.lalph      \* [syms, n]
Docs   == Cat.docs       \* [ver, dia, lines]
Vars   == Cat.variants   \* [doc, op, k, f]
Tmpl   == Cat.templates  \* [ver, dia, lines, slots: seq of [line, field, alts, ctx], orders, maxdev]
Hdr    == Cat.hdr        \* [names, types, values, pre, suf]: sequences of texts
Api    == Cat.api        \* [docs: seq of [ver, lines], values, nsetters, tails]
Nest   == Cat.nest       \* [tails: seq of seq of operation names]
Que    == Cat.queue      \* [q, bad, dec]: sequences of texts (dec may contain the empty text)
Longs  == Cat.longs      \* seq of [pre, sym (one character), n, suf]: pre, n copies of sym, suf
LBytes == Cat.lbytes     \* bytes that are not text (undecodable byte, NUL, lone CR): placed at field boundaries
Layers == Rng(Cat.layers)

CharIdx == [ch \in Rng(Chars) |-> CHOOSE k \in DOMAIN Chars : Chars[k] = ch]
Enc(s)  == [k \in DOMAIN s |-> CharIdx[s[k]]]
EncF(f) == [k \in DOMAIN f |-> Enc(f[k])]
EncD(d) == [k \in DOMAIN d |-> EncF(d[k])]

RECURSIVE Concat(_)
Concat(ss) == IF ss = <<>> THEN <<>> ELSE Head(ss) \o Concat(Tail(ss))
RECURSIVE Join(_, _)
Join(f, sep) == IF Len(f) = 0 THEN <<>> ELSE IF Len(f) = 1 THEN f[1]
                ELSE f[1] \o <<sep>> \o Join(Tail(f), sep)
Del(x, p)    == SubSeq(x, 1, p - 1) \o SubSeq(x, p + 1, Len(x))
Sub(x, p, v) == [x EXCEPT ![p] = v]
Ins(x, p, v) == SubSeq(x, 1, p - 1) \o <<v>> \o SubSeq(x, p, Len(x))
MinOf(a, b) == IF a <= b THEN a ELSE b

VARIABLE c      \* [lay, a, w]: layer, index into the layer's catalogue, choices
-----------------------------------------------------------------------------
(* enum / mut: field values *)
EnumValue(x) == Alph[x.a].pre
                \o Concat([k \in DOMAIN x.w |-> Alph[x.a].syms[x.w[k]]])
                \o Alph[x.a].suf
MutValue(x) == LET s == Valid[x.a].s IN
  CASE x.w[1] = 1 -> Del(s, x.w[2])
    [] x.w[1] = 2 -> Sub(s, x.w[2], Reps[x.w[3]])
    [] x.w[1] = 3 -> Ins(s, x.w[2], Reps[x.w[3]])
CtxVerdict(cx, v) == IF cx.dt = "tag" THEN VTag(cx.ver, v) ELSE FieldVerdict(cx.dt, v)

(* line layer *)
NPos(a) == Len(Recs[a].pos)
PosReps(a, j) == Recs[a].pos[j].good \o Recs[a].pos[j].bad
Dev(a, w) == Cardinality({j \in 1..MinOf(Len(w), NPos(a)) : w[j] # 1})
LineFields(x) ==
  LET a == x.a
      n == NPos(a)
      m == MinOf(Len(x.w), n) IN
  <<Recs[a].rt>> \o [j \in 1..m |-> PosReps(a, j)[x.w[j]]]
               \o [j \in 1..(Len(x.w) - m) |-> Recs[a].tags[x.w[m + j]]]

(* documents *)
DocLines(x) ==
  LET d == Docs[x.a].lines IN
  IF x.w[1] = 0 THEN d
  ELSE LET v == Vars[x.w[1]] IN
       CASE v.op = "del" -> Del(d, v.k)
         [] v.op = "sub" -> Sub(d, v.k, v.f)
         [] v.op = "add" -> Append(d, v.f)

(* document templates: w = one choice per slot, then the index of the arrival order;
   choices not made yet stand for the primary alternative / the first order *)
NSlots(a) == Len(Tmpl[a].slots)
Choice(x, k) == IF k <= Len(x.w) THEN x.w[k] ELSE 1
TDev(a, w) == Cardinality({k \in 1..MinOf(Len(w), NSlots(a)) : Tmpl[a].slots[k].ctx = 0 /\ w[k] # 1})
RECURSIVE Fill(_, _, _)
Fill(x, d, k) ==      \* put the chosen alternative of slots k.. into the lines d
  IF k > NSlots(x.a) THEN d
  ELSE LET sl == Tmpl[x.a].slots[k] IN
       Fill(x, [d EXCEPT ![sl.line][sl.field] = sl.alts[Choice(x, k)]], k + 1)
TDocLines(x) ==
  LET d == Fill(x, Tmpl[x.a].lines, 1)
      o == Tmpl[x.a].orders[Choice(x, NSlots(x.a) + 1)] IN
  [k \in DOMAIN o |-> d[o[k]]]

(* whole-line texts *)
LText(a) == Join(VLines[a].f, "\t")
LMutText(x) ==
  LET f == VLines[x.a].f
      t == LText(x.a)
      k == x.w[1]  p == x.w[2]  r == x.w[3] IN
  CASE k = 1 -> Join(Del(f, p), "\t")
    [] k = 2 -> Join(Sub(f, p, <<>>), "\t")
    [] k = 3 -> Join(Ins(f, p, f[p]), "\t")
    [] k = 4 -> SubSeq(t, 1, p)
    [] k = 5 -> t \o <<"\t">>
    [] k = 6 -> Sub(t, p, LReps[r])
    [] k = 7 -> Del(t, p)
    [] k = 8 -> Ins(t, p, LReps[r])
    [] k = 9 -> Join(Sub(f, p, <<LBytes[r]>> \o f[p]), "\t")      \* a non-text byte in front of field p
    [] k = 10 -> Join(Sub(f, p, Append(f[p], LBytes[r])), "\t")   \* ... behind field p
LEnumText(x) == Concat([k \in DOMAIN x.w |-> LAlph.syms[x.w[k]]])

(* header lines with one tag: w = <<name, type, value, prefix, suffix>> *)
HdrText(x) == Hdr.pre[x.w[4]] \o <<"H", "\t">> \o Hdr.names[x.w[1]] \o <<":">> \o Hdr.types[x.w[2]]
              \o <<":">> \o Hdr.values[x.w[3]] \o Hdr.suf[x.w[5]]

(* API histories: a = document, w = <<line, field, source of the value, value, setter, tail>> *)
ALine(d, j) == Api.docs[d].lines[j]
ARec(d, j) == {a \in DOMAIN Recs : Recs[a].ver = Api.docs[d].ver /\ Recs[a].rt = ALine(d, j)[1]}
ANPos(d, j) == IF ARec(d, j) = {} THEN 1 ELSE NPos(CHOOSE a \in ARec(d, j) : TRUE)
\* the strings offered for positional field i of line j: what the line layer knows for that
\* field of that record type (source 1), the generic strings (source 2)
AValues(d, j, i, src) ==
  IF src = 2 THEN Api.values
  ELSE IF ARec(d, j) = {} THEN <<>>
  ELSE LET a == CHOOSE b \in ARec(d, j) : TRUE IN IF i <= NPos(a) THEN PosReps(a, i) ELSE <<>>
HistValue(x) == AValues(x.a, x.w[1], x.w[2], x.w[3])[x.w[4]]

(* nested groups: w = <<kind, n, closed, segments, outer, order, lead>> then <<line, tail>> *)
GNames == << <<"a">>, <<"b">>, <<"c">> >>
GKinds == << <<"O">>, <<"U">> >>
GSegs  == << << <<"S">>, <<"1">>, <<"1", "0", "0">>, <<"*">> >>, << <<"S">>, <<"2">>, <<"5", "0">>, <<"*">> >> >>
\* an edge between the two segments that may LEAD the first group (lead = 1: containment of 2 in 1, 2: internal
\* alignment, 3: dovetail): only a dovetail gives a captured path a direction, after another first edge the next
\* item is looked at - which is the next group of the nest
GEdgeName(lead) == CASE lead = 1 -> <<"c", "1">> [] lead = 2 -> <<"i", "1">> [] lead = 3 -> <<"d", "1">>
GEdge(lead) ==
  << <<"E">>, GEdgeName(lead), <<"1", "+">>, <<"2", "+">> >> \o
  (CASE lead = 1 -> << <<"1", "0">>, <<"6", "0">>, <<"0">>, <<"5", "0", "$">>, <<"5", "0", "M">> >>
     [] lead = 2 -> << <<"1", "0">>, <<"6", "0">>, <<"5">>, <<"4", "5">>, <<"*">> >>
     [] lead = 3 -> << <<"9", "0">>, <<"1", "0", "0", "$">>, <<"0">>, <<"1", "0">>, <<"1", "0", "M">> >>)
GItem(kind, name) == IF kind = 1 THEN name \o <<"+">> ELSE name
GLine(kind, n, closed, sm, lead, i) ==
  LET nxt == IF i < n THEN <<GItem(kind, GNames[i + 1])>>
             ELSE IF closed = 1 THEN <<GItem(kind, GNames[1])>> ELSE <<>>
      sg  == IF sm = 2 \/ (sm = 1 /\ i = n)
             THEN <<GItem(kind, IF i % 2 = 1 THEN <<"1">> ELSE <<"2">>)>> ELSE <<>>
      items == IF lead = 0 THEN nxt \o sg
               ELSE IF i = 1 THEN <<GItem(kind, GEdgeName(lead))>> \o nxt \o sg
               ELSE sg \o nxt IN       \* behind a leading edge the other groups start with their segment
  <<GKinds[kind], GNames[i], Join(items, " ")>>
Rot(sq) == IF Len(sq) <= 1 THEN sq ELSE Tail(sq) \o <<Head(sq)>>
NestDoc(w) ==
  LET kind == w[1]  n == w[2]  closed == w[3]  sm == w[4]  outer == w[5]  ord == w[6]  lead == w[7]
      segs == IF sm = 0 THEN <<>> ELSE IF lead = 0 THEN GSegs ELSE GSegs \o <<GEdge(lead)>>
      grps == [i \in 1..n |-> GLine(kind, n, closed, sm, lead, i)]
      out  == IF outer = 1 THEN << << <<"U">>, <<"d">>, <<"a">> >> >> ELSE <<>> IN
  CASE ord = 1 -> segs \o grps \o out
    [] ord = 2 -> Reverse(segs \o grps \o out)
    [] ord = 3 -> Rot(grps) \o out \o segs

(* version queue: w = <<queued, refused, decider, arrangement>> *)
NonEmpty(sq) == SelectSeq(sq, LAMBDA t : t # <<>>)
QueText(x) ==
  LET q == Que.q[x.w[1]]  b == Que.bad[x.w[2]]  d == Que.dec[x.w[3]] IN
  Join(NonEmpty(CASE x.w[4] = 1 -> <<q, b, d>> [] x.w[4] = 2 -> <<b, q, d>> [] x.w[4] = 3 -> <<q, d, b>>), "\n")

(* over-long records: a = line, w = <<field, run>>; the run replaces the field, the value of a tag *)
LongPre(x) ==
  LET f == VLines[x.a].f  p == x.w[1] IN
  Join([k \in 1..p |-> IF k < p THEN f[k] ELSE IF TagShaped(f[p]) THEN SubSeq(f[p], 1, 5) ELSE <<>>], "\t")
  \o Longs[x.w[2]].pre
LongSuf(x) ==
  LET f == VLines[x.a].f  p == x.w[1] IN
  Longs[x.w[2]].suf \o (IF p = Len(f) THEN <<>> ELSE <<"\t">> \o Join(SubSeq(f, p + 1, Len(f)), "\t"))

-----------------------------------------------------------------------------
(* Law of the specification itself, checked by TLC at every run: the number of overlaps of
   a GFA1 path decides independently of what the overlaps are.  For n segments and m overlaps
   that are all `*`, all CIGARs, or mixed: the single `*` is accepted; m = n-1 is accepted
   (CIGARs) or left open (`*` elements are disputed syntax); m = n likewise (a circular
   path); every other m is rejected.                                                     *)
Rep(e, m) == Join([k \in 1..m |-> e], ",")
PLine(n, ov) == << <<"P">>, <<"p">>, Rep(<<"A", "+">>, n), ov >>
Mixed(m) == Join([k \in 1..m |-> IF k = 2 THEN <<"1", "M">> ELSE <<"*">>], ",")
ASSUME PathCountLaw ==
  \A n \in 1..5, m \in 1..7 :
    LET stars == LineVerdict("gfa1", PLine(n, Rep(<<"*">>, m)), FALSE)
        cigs  == LineVerdict("gfa1", PLine(n, Rep(<<"1", "M">>, m)), FALSE)
        mixed == LineVerdict("gfa1", PLine(n, Mixed(m)), FALSE) IN
    /\ stars = (IF m = 1 THEN "acc" ELSE IF m \in {n - 1, n} THEN "either" ELSE "rej")
    /\ cigs = (IF m = n - 1 \/ m = n THEN "acc" ELSE "rej")
    /\ m >= 2 => mixed = (IF m \in {n - 1, n} THEN "either" ELSE "rej")

St(lay, a, w) == [lay |-> lay, a |-> a, w |-> w]

Init ==
  \/ /\ "enum" \in Layers
     /\ \E a \in DOMAIN Alph : c = St("enum", a, <<>>)
  \/ /\ "mut" \in Layers
     /\ \E a \in DOMAIN Valid :
          \/ \E p \in 1..Len(Valid[a].s) : c = St("mut", a, <<1, p, 0>>)
          \/ \E p \in 1..Len(Valid[a].s), r \in DOMAIN Reps : c = St("mut", a, <<2, p, r>>)
          \/ \E p \in 1..(Len(Valid[a].s) + 1), r \in DOMAIN Reps : c = St("mut", a, <<3, p, r>>)
  \/ /\ "line" \in Layers
     /\ \E a \in DOMAIN Recs : c = St("line", a, <<>>)
  \/ /\ "doc" \in Layers
     /\ \E a \in DOMAIN Docs :
          \/ c = St("doc", a, <<0>>)
          \/ \E v \in DOMAIN Vars : Vars[v].doc = a /\ c = St("doc", a, <<v>>)
  \/ /\ "xdoc" \in Layers
     /\ \E a \in DOMAIN Tmpl : c = St("xdoc", a, <<>>)
  \/ /\ "lmut" \in Layers
     /\ \E a \in DOMAIN VLines :
          \/ \E k \in {1, 2, 3}, p \in 1..Len(VLines[a].f) : c = St("lmut", a, <<k, p, 0>>)
          \/ \E p \in 0..(Len(LText(a)) - 1) : c = St("lmut", a, <<4, p, 0>>)
          \/ c = St("lmut", a, <<5, 0, 0>>)
          \/ \E p \in 1..Len(LText(a)), r \in DOMAIN LReps : c = St("lmut", a, <<6, p, r>>)
          \/ \E p \in 1..Len(LText(a)) : c = St("lmut", a, <<7, p, 0>>)
          \/ \E p \in 1..(Len(LText(a)) + 1), r \in DOMAIN LReps : c = St("lmut", a, <<8, p, r>>)
          \/ \E k \in {9, 10}, p \in 1..Len(VLines[a].f), r \in DOMAIN LBytes : c = St("lmut", a, <<k, p, r>>)
  \/ /\ "lenum" \in Layers
     /\ c = St("lenum", 1, <<>>)
  \/ /\ "hdr" \in Layers
     /\ \E n \in DOMAIN Hdr.names, t \in DOMAIN Hdr.types, v \in DOMAIN Hdr.values,
           p \in DOMAIN Hdr.pre, s \in DOMAIN Hdr.suf :
          /\ (IF p = 1 THEN TRUE ELSE s = 1)   \* the first prefix / suffix is the empty one (no disjunction: TLC would split it)
          /\ c = St("hdr", 1, <<n, t, v, p, s>>)
  \/ /\ "nest" \in Layers
     /\ \E kind \in {1, 2}, n \in 1..3, closed \in {0, 1}, sm \in 0..2, outer \in {0, 1}, ord \in 1..3 :
          /\ (IF closed = 0 THEN sm >= 1 ELSE TRUE)      \* the last group of a chain lists a segment
          /\ \E lead \in 0..3 : /\ (IF lead > 0 THEN sm = 1 /\ ord <= 2 ELSE TRUE)   \* an edge needs its segments
                                /\ c = St("nest", 1, <<kind, n, closed, sm, outer, ord, lead>>)
  \/ /\ "queue" \in Layers
     /\ \E q \in DOMAIN Que.q, b \in DOMAIN Que.bad, d \in DOMAIN Que.dec, ar \in 1..3 :
          c = St("queue", 1, <<q, b, d, ar>>)
  \/ /\ "long" \in Layers
     /\ \E a \in DOMAIN VLines : \E p \in 1..Len(VLines[a].f), r \in DOMAIN Longs : c = St("long", a, <<p, r>>)
  \/ /\ "hist" \in Layers
     /\ \E d \in {x \in DOMAIN Api.docs : Api.docs[x].assign = 1} :
        \E j \in DOMAIN Api.docs[d].lines :
        \E i \in 1..ANPos(d, j), src \in {1, 2} :
        \E v \in DOMAIN AValues(d, j, i, src), st \in 1..Api.nsetters, tl \in DOMAIN Api.tails :
          c = St("hist", d, <<j, i, src, v, st, tl>>)
  \/ /\ "hist" \in Layers          \* the same documents without assignment: tails on the identifier (Api.tails0)
     /\ \E d \in DOMAIN Api.docs : \E j \in DOMAIN Api.docs[d].lines, tl \in DOMAIN Api.tails0 :
          c = St("hist", d, <<j, 0, 0, 0, 0, tl>>)

Next ==
  \/ /\ c.lay = "enum" /\ Len(c.w) < Alph[c.a].n
     /\ \E k \in DOMAIN Alph[c.a].syms : c' = [c EXCEPT !.w = Append(@, k)]
  \/ /\ c.lay = "lenum" /\ Len(c.w) < LAlph.n
     /\ \E k \in DOMAIN LAlph.syms : c' = [c EXCEPT !.w = Append(@, k)]
  \/ /\ c.lay = "line" /\ Len(c.w) < NPos(c.a)
     /\ \E k \in DOMAIN PosReps(c.a, Len(c.w) + 1) :
          /\ (IF k = 1 THEN TRUE ELSE Dev(c.a, c.w) = 0)   \* no disjunction: TLC would split it
          /\ c' = [c EXCEPT !.w = Append(@, k)]
  \/ /\ c.lay = "line" /\ Len(c.w) >= NPos(c.a) /\ Dev(c.a, c.w) = 0
     /\ Len(c.w) - NPos(c.a) < Recs[c.a].ntag
     /\ \E t \in DOMAIN Recs[c.a].tags : c' = [c EXCEPT !.w = Append(@, t)]

  \/ /\ c.lay = "nest" /\ Len(c.w) = 7        \* a document: choose the line and the tail
     /\ \E j \in DOMAIN NestDoc(c.w), tl \in DOMAIN Nest.tails :
          /\ (IF c.w[7] > 0 THEN tl \in Rng(Nest.leadtails) ELSE TRUE)   \* edge-led nests: removal by identifier, computing calls
          /\ c' = [c EXCEPT !.w = @ \o <<j, tl>>]
  \/ /\ c.lay = "xdoc" /\ Len(c.w) < NSlots(c.a)
     /\ \E k \in DOMAIN Tmpl[c.a].slots[Len(c.w) + 1].alts :
          /\ (IF k = 1 \/ Tmpl[c.a].slots[Len(c.w) + 1].ctx = 1 THEN TRUE
              ELSE TDev(c.a, c.w) < Tmpl[c.a].maxdev)
          /\ c' = [c EXCEPT !.w = Append(@, k)]
  \/ /\ c.lay = "xdoc" /\ Len(c.w) = NSlots(c.a)
     /\ \E o \in DOMAIN Tmpl[c.a].orders : c' = [c EXCEPT !.w = Append(@, o)]

Spec == Init /\ [][Next]_c

Emit ==
  CASE c.lay = "enum" ->
         LET v == EnumValue(c)  cx == Ctx[Alph[c.a].ctx] IN
         PrintT(<<"CF", Alph[c.a].ctx, Enc(v), CtxVerdict(cx, v)>>)
    [] c.lay = "mut" ->
         LET v == MutValue(c)  cx == Ctx[Valid[c.a].ctx] IN
         PrintT(<<"CF", Valid[c.a].ctx, Enc(v), CtxVerdict(cx, v)>>)
    [] c.lay = "line" ->
         LET f == LineFields(c) IN
         PrintT(<<"CL", Recs[c.a].ver, EncF(f), LineVerdict(Recs[c.a].ver, f, FALSE)>>)
    [] c.lay = "doc" ->
         LET d == DocLines(c) IN
         PrintT(<<"CD", Docs[c.a].ver, Docs[c.a].dia, EncD(d), DocVerdict(Docs[c.a].ver, Docs[c.a].dia, d)>>)
    [] c.lay = "xdoc" ->
         LET d == TDocLines(c) IN
         PrintT(<<"CD", Tmpl[c.a].ver, Tmpl[c.a].dia, EncD(d), DocVerdict(Tmpl[c.a].ver, Tmpl[c.a].dia, d)>>)
    [] c.lay = "lmut" -> PrintT(<<"CT", VLines[c.a].ver, Enc(LMutText(c))>>)
    [] c.lay = "lenum" -> PrintT(<<"CT", "any", Enc(LEnumText(c))>>)
    [] c.lay = "hdr" -> PrintT(<<"CT", "any", Enc(HdrText(c))>>)
    [] c.lay = "queue" -> PrintT(<<"CT", "any", Enc(QueText(c))>>)
    [] c.lay = "long" -> PrintT(<<"CX", VLines[c.a].ver, Enc(LongPre(c)), Enc(<<Longs[c.w[2]].sym>>), Longs[c.w[2]].n, Enc(LongSuf(c))>>)
    [] c.lay = "nest" -> IF Len(c.w) = 7 THEN PrintT(<<"CG", EncD(NestDoc(c.w)), 0, 0>>)
                         ELSE PrintT(<<"CG", EncD(NestDoc(c.w)), c.w[8], c.w[9]>>)
    [] c.lay = "hist" -> IF c.w[2] = 0 THEN PrintT(<<"CH", c.a, c.w[1], 0, <<>>, 0, c.w[6]>>)
                         ELSE PrintT(<<"CH", c.a, c.w[1], c.w[2], Enc(HistValue(c)), c.w[5], c.w[6]>>)
=============================================================================
