------------------------------- MODULE MC_Doc -------------------------------
(* spec -> code for C01: TLC enumerates the documents and the configurations.

   documents  = ValidDocs(ver, KL)  (every valid document of <= KL catalogue lines)
                \cup SeedDocs(ver, KS) (dependency closures of <= KS seed lines, so that
                paths/groups with all their prerequisites appear at small bounds)
   x tag variant tv (0 = no added tags; otherwise rotating tag variants of Doc!Var on
     every line, two tags on even positions), which also fixes the line order
     (ascending = definitions first, descending = every reference is a forward one)
   x configuration set: for one variant per document (of every FULLMOD-th document;
     FULLMOD = 1 in the thorough tier) the full product vlevel 0..3 x version
     explicit/auto x 6 entry points; for the others the four validation levels with
     rotating version/entry point.

   Each state is one (ver, doc, tv); it is printed as a flat tuple
     <<"CASE", ver(1/2), tv, ord(0 asc/1 desc), full(0/1), n, idx1, a1, two1, ...>>
   (idx = catalogue index, a = first added variant or 0, two = 1 if a second one is
   added).  The GFA text of every (line, added tags) combination is printed once as
   <<"TEXT", ver, idx, a, two, text>> (for a line with special characters
   <<"TEXTP", ..., pieces>>, a piece being a string or a sequence of code points that
   the harness turns into characters), the configuration sets as <<"CFGS", ...>>.
   Documents with such a line (Doc!SpecialDocs) always get the full configuration
   product: the same records must result through every entry point.
   Invariant: every enumerated document satisfies Doc!IsValidDoc.                  *)
EXTENDS Doc

CONSTANTS KL, KS, TVALL, FULLMOD

VARIABLES ver, doc, tv
vars == <<ver, doc, tv>>

VerNum(v) == IF v = "gfa1" THEN 1 ELSE 2
RECURSIVE SumSet(_)
SumSet(S) == IF S = {} THEN 0 ELSE LET x == CHOOSE x \in S : TRUE IN x + SumSet(S \ {x})

Docs(v) == ValidDocs(v, KL) \cup SeedDocs(v, KS) \cup SpecialDocs(v) \cup BoundaryDocs(v) \cup LateDocs(v)

\* the variant that gets the full configuration product
FullTv(d) == (SumSet(d) % NVar) + 1
IsSpecial(d) == \E i \in d : HasCp(Cat(ver)[i])
\* documents of the boundary catalogue of custom records: the single lines get the full
\* configuration product under one variant (real tags appended on the right)
IsBoundary(d) == \E i \in d : i \in BoundaryIdx(ver)
\* boundary documents: two consecutive variants, so that both line orders occur with tags
Tvs(d) == IF IsSpecial(d) THEN {0, FullTv(d)}
          ELSE IF IsBoundary(d) /\ ~TVALL THEN {0, FullTv(d), (FullTv(d) % NVar) + 1}
          ELSE IF TVALL THEN 0..NVar
          ELSE {0} \cup {((SumSet(d) + 7 * m) % NVar) + 1 : m \in 0..2}
OrdOf(d, t) == IF (t + Cardinality(d)) % 2 = 0 THEN "asc" ELSE "desc"

FullCfgs == {<<v, Versions[x], Entries[e]>> : v \in VLevels, x \in DOMAIN Versions, e \in DOMAIN Entries}
RedCfgs(t) == {<<v, Versions[((t + v) % 2) + 1], Entries[((t + v) % 6) + 1]>> : v \in VLevels}

Init == /\ ver \in {"gfa1", "gfa2"}
        /\ doc \in Docs(ver)
        /\ tv \in Tvs(doc)
Next == UNCHANGED vars
Spec == Init /\ [][Next]_vars

Valid == IsValidDoc(DocLines(ver, doc, tv, OrdOf(doc, tv)), ver)

RECURSIVE Flat(_, _, _)
Flat(ix, t, j) == IF j > Len(ix) THEN <<>>
                  ELSE LET va == VarIdx(t, j)
                           tagged == Cat(ver)[ix[j]].rt # "#" IN
                       <<ix[j], IF va = <<>> \/ ~tagged THEN 0 ELSE va[1],
                         IF Len(va) = 2 /\ tagged THEN 1 ELSE 0>> \o Flat(ix, t, j + 1)
Emit == LET o == OrdOf(doc, tv)
            ix == DocOrder(doc, o) IN
        PrintT(<<"CASE", VerNum(ver), tv, IF o = "asc" THEN 0 ELSE 1,
                 IF IsSpecial(doc)
                    \/ (tv = FullTv(doc) /\ IF IsBoundary(doc) THEN Cardinality(doc) = 1 \/ FULLMOD = 1
                                             ELSE SumSet(doc) % FULLMOD = 0) THEN 1 ELSE 0, Len(ix)>> \o Flat(ix, tv, 1))

Added(a, two) == IF a = 0 THEN <<>> ELSE IF two = 1 THEN <<Var[a], Var[(a % NVar) + 1]>> ELSE <<Var[a]>>
ASSUME \A v \in {"gfa1", "gfa2"} : \A i \in DOMAIN Cat(v) : \A a \in 0..NVar : \A two \in {0, 1} :
         (a = 0 /\ two = 1) \/
         LET l == WithTags(Cat(v)[i], Added(a, two)) IN
         IF HasCp(l) THEN PrintT(<<"TEXTP", VerNum(v), i, a, two, Pieces(l)>>)
         ELSE PrintT(<<"TEXT", VerNum(v), i, a, two, Text(l)>>)
ASSUME PrintT(<<"CFGS", "full", 0, FullCfgs>>)
ASSUME \A t \in 0..NVar : PrintT(<<"CFGS", "red", t, RedCfgs(t)>>)
ASSUME PrintT(<<"NVAR", NVar, {<<i, Var[i].t, Var[i].n>> : i \in DOMAIN Var}>>)
ASSUME PrintT(<<"BADVALS", BadVals>>)
ASSUME PrintT(<<"BOUNDARY", Len(Cat2) - Len(BoundaryCustom) + 1, Len(Cat2)>>)
ASSUME PrintT(<<"RTS", 1, {<<i, Cat1[i].rt>> : i \in DOMAIN Cat1}>>)
ASSUME PrintT(<<"RTS", 2, {<<i, Cat2[i].rt>> : i \in DOMAIN Cat2}>>)
=============================================================================
