---------------------------- MODULE TraceConvert ----------------------------
(* Code -> spec for C06.  The harness logs, per case, the input document
   (abstract records of harness/project.py, interned in a pool) and what the
   real gfapy produced:
     ln[j] = << <<res, outs>>, <<res, outs>>, <<res, outs>> >>   per input line j:
             line.to_gfaX_s(), line.to_gfaX(), the E-view / L,C-view accessors
     gs    = <<res, outs, load>>   Gfa.to_gfaX_s(); load = result class of
             gfapy.Gfa(text, vlevel=3, version=target) + validate()
     go    = <<res, outs, load>>   Gfa.to_gfaX() (object), written with str()
     bk    = <<res, outs, load>>   the text of gs converted back
   Everything is recomputed here with the operators of Convert.tla and each
   disagreement is printed as <<"REJECT", case id, {<<api, clause>>, ...}>>.
   One TLC state per case.                                                    *)
EXTENDS Convert, Json, IOUtils, TLC

Data  == JsonDeserialize(IOEnv.TRACE_FILE)
Pool  == Data.pool
Cases == Data.cases

VARIABLE i

Recs(ps) == [k \in DOMAIN ps |-> Pool[ps[k]]]

-----------------------------------------------------------------------------
(* abstract records *)
TagSet(r) == {<<r.tagn[k], r.tags[k]>> : k \in DOMAIN r.tags}
Star(r) == r.ovs[1] = <<>>
AsG1(r) == G1(r.rt, r.refs[1].id, r.refs[1].o, r.refs[2].id, r.refs[2].o, r.ovs[1], Star(r),
              IF r.rt = "C" THEN r.num[1] ELSE 0)
AsGeo(r) == Geo(r.refs[1].id, r.refs[1].o, r.refs[2].id, r.refs[2].o, r.num, r.ovs[1], Star(r))
Idx(doc, rts) == {k \in DOMAIN doc : doc[k].rt \in rts}
SegNames(doc) == {doc[k].name : k \in Idx(doc, {"S"})}
LenIn(doc, name) == LET S == {k \in Idx(doc, {"S"}) : doc[k].name = name} IN
                    IF S = {} THEN -1 ELSE doc[CHOOSE k \in S : TRUE].slen
Names(doc) == {doc[k].name : k \in Idx(doc, {"S", "L", "C", "E", "P", "O", "G", "U"})} \ {"*"}
Known == {"S", "L", "C", "E", "P", "O", "G", "F", "U", "H", "#"}

\* attribution when several written forms are allowed: the form with the fewest
\* failing clauses; among those, one that agrees on the oriented pair
Smallest(SS) ==
  LET Min == {s \in SS : \A t \in SS : Cardinality(s) <= Cardinality(t)}
      NoPair == {s \in Min : "C06.pair" \notin s} IN
  IF NoPair # {} THEN CHOOSE s \in NoPair : TRUE ELSE CHOOSE s \in Min : TRUE
ZeroN == <<0, 0, 0, 0, 0, 0, 0, 0>>
G1Key(l) == PathKey(Geo(l.from, l.fo, l.to, l.too, ZeroN, l.ov, l.star))

-----------------------------------------------------------------------------
(* GFA2 documents: the O lines with the same identifier are merged into the
   first of them (the later ones are kept as place holders of type "#", so that
   the line numbers stay), then nested groups are expanded (Convert!ExpandItems).
   Everything below sees one flat O record per group.                          *)
AllIdx(doc) == [j \in DOMAIN doc |-> j]
OLinesOf(doc, name) == SelectSeq(AllIdx(doc), LAMBDA j : doc[j].rt = "O" /\ doc[j].name = name)
MergeO(doc) ==
  [k \in DOMAIN doc |->
     IF doc[k].rt # "O" \/ doc[k].name = "*" THEN doc[k]
     ELSE LET idx == OLinesOf(doc, doc[k].name) IN
          IF Len(idx) = 1 THEN doc[k]
          ELSE IF k # idx[1] THEN [doc[k] EXCEPT !.rt = "#"]
          ELSE [doc[k] EXCEPT !.refs = FlatSeq([n \in DOMAIN idx |-> doc[idx[n]].refs]),
                              !.tags = FlatSeq([n \in DOMAIN idx |-> doc[idx[n]].tags]),
                              !.tagn = FlatSeq([n \in DOMAIN idx |-> doc[idx[n]].tagn])]]
NormO(doc0) ==
  IF \A k \in DOMAIN doc0 : doc0[k].rt # "O" THEN doc0 ELSE
  LET doc == MergeO(doc0)
      other == {doc[k].name : k \in {j \in DOMAIN doc : doc[j].rt \in {"S", "E", "G", "U"}}}
      gn == {doc[k].name : k \in {j \in DOMAIN doc : doc[j].rt = "O"}} \ (other \cup {"*"})
      groups == [n \in gn |-> doc[CHOOSE k \in DOMAIN doc : doc[k].rt = "O" /\ doc[k].name = n].refs]
  IN [k \in DOMAIN doc |-> IF doc[k].rt = "O" THEN [doc[k] EXCEPT !.refs = ExpandItems(doc[k].refs, groups, MaxNesting)]
                            ELSE doc[k]]

-----------------------------------------------------------------------------
(* paths *)
PCirc(x) == x.f[1] # "*" /\ Len(x.ovs) = Len(x.refs)
PWalk(x) == P1Walk(x.refs, PCirc(x))
PHasOv(x, k) == x.f[1] # "*" /\ k <= Len(x.ovs) /\ x.ovs[k] # <<>>
POv(x, k) == IF PHasOv(x, k) THEN x.ovs[k] ELSE <<>>
\* overlap count of a P line is consistent with its segment count
PShapeOK(x) == x.f[1] = "*" \/ Len(x.ovs) \in {Len(x.refs) - 1, Len(x.refs)}
\* links of doc that carry step k of P line x
PCarriers(doc, x, k) ==
  LET w == PWalk(x) IN
  {j \in Idx(doc, {"L"}) : LinkCarries(AsG1(doc[j]), w[k], w[k + 1], PHasOv(x, k), POv(x, k))}

\* O line: positions of the segment items
OSegIdx(doc, x) == SelectSeq([j \in DOMAIN x.refs |-> j], LAMBDA j : x.refs[j].id \in SegNames(doc))
OSegs(doc, x) == OrderedToPath(x.refs, LAMBDA it : it.id \in SegNames(doc))
\* edge items between the k-th and (k+1)-th segment item
OBetween(doc, x, k) == LET sx == OSegIdx(doc, x) IN SubSeq(x.refs, sx[k] + 1, sx[k + 1] - 1)
ENamed(doc, id) == {j \in Idx(doc, {"E"}) : doc[j].name = id}
\* E lines of doc that carry step k of O line x, with the traversal sign
OCarriers(doc, x, k) ==
  LET w == OSegs(doc, x)
      bt == OBetween(doc, x, k) IN
  IF Len(bt) = 0 THEN {j \in Idx(doc, {"E"}) : EdgeCarries(AsGeo(doc[j]), w[k], w[k + 1], "")}
  ELSE IF Len(bt) = 1 THEN {j \in ENamed(doc, bt[1].id) : EdgeCarries(AsGeo(doc[j]), w[k], w[k + 1], bt[1].o)}
  ELSE {}
\* traversal sign the O line gives for step k ("" = the edge is implied)
OSign(doc, x, k) == LET bt == OBetween(doc, x, k) IN IF Len(bt) = 1 THEN bt[1].o ELSE ""
\* an O line this check makes claims about: begins and ends with a segment,
\* every item is a segment or a dovetail E line, every step has a carrier
OModelled(doc, x) ==
  LET sx == OSegIdx(doc, x) IN
  /\ Len(sx) >= 1 /\ sx[1] = 1 /\ sx[Len(sx)] = Len(x.refs)
  /\ \A j \in DOMAIN x.refs : x.refs[j].id \in SegNames(doc) \/ ENamed(doc, x.refs[j].id) # {}
  /\ \A k \in 1..(Len(sx) - 1) : OCarriers(doc, x, k) # {}

\* overlap a P line may state for a step carried by GFA1 link l (direct or complement)
OvOfLinkFor(l, sa, sb) ==
  (IF LinkDirect(l, sa, sb, FALSE, <<>>) THEN {l.ov} ELSE {}) \cup
  (IF LinkCompl(l, sa, sb, FALSE, <<>>) THEN {Complement(l.ov)} ELSE {})

\* P x (GFA1, in doc) -> O y.  outdoc = the converted document, or <<>> at line level.
Path12(doc, x, y, outdoc) ==
  IF y.rt # "O" \/ y.name # x.name THEN {"C06.path"} ELSE
  LET w == PWalk(x)
      segidx == SelectSeq([j \in DOMAIN y.refs |-> j], LAMBDA j : y.refs[j].id \in SegNames(doc))
      ysegs == [k \in DOMAIN segidx |-> y.refs[segidx[k]]]
      StepOK(k) ==
        LET bt == SubSeq(y.refs, segidx[k] + 1, segidx[k + 1] - 1)
            car == PCarriers(doc, x, k) IN
        IF Len(bt) = 0 THEN car # {}
        ELSE IF Len(bt) > 1 THEN FALSE
        ELSE \E j \in car :
               LET l == AsG1(doc[j]) IN
               \* the sign selects the link or its complement: the one read must go
               \* from w[k] to w[k+1] *with the overlap the path states* (a hairpin
               \* link and its complement join the same oriented segments)
               /\ LinkReads(l, bt[1].o, w[k], w[k + 1], PHasOv(x, k), POv(x, k))
               /\ IF doc[j].name # "*" THEN bt[1].id = doc[j].name
                  ELSE IF outdoc = <<>> THEN bt[1].id \notin Names(doc) /\ bt[1].id # "*"
                  ELSE \E e \in ENamed(outdoc, bt[1].id) : PathKey(AsGeo(outdoc[e])) = G1Key(l)
      ok == /\ PShapeOK(x)
            /\ ysegs = w
            /\ Len(segidx) >= 1 /\ segidx[1] = 1 /\ segidx[Len(segidx)] = Len(y.refs)
            /\ \A k \in 1..(Len(w) - 1) : StepOK(k)
  IN (IF ok THEN {} ELSE {"C06.path"}) \cup (IF TagSet(y) = TagSet(x) THEN {} ELSE {"C06.tags"})

\* O x (GFA2, in doc) -> P y
Path21(doc, x, y) ==
  IF y.rt # "P" \/ y.name # x.name THEN {"C06.path"} ELSE
  LET w == OSegs(doc, x)
      StepOK(k) ==
        \/ ~PHasOv(y, k)
        \/ \E j \in OCarriers(doc, x, k) :
             LET g == AsGeo(doc[j]) IN
             \* the overlap read in the direction the O line traverses the edge
             ~g.star /\ y.ovs[k] \in EdgeReadOvs(g, OSign(doc, x, k), w[k], w[k + 1])
      ok == /\ PShapeOK(y)
            /\ PWalk(y) = w
            /\ \A k \in 1..(Len(w) - 1) : StepOK(k)
  IN (IF ok THEN {} ELSE {"C06.path"}) \cup (IF TagSet(y) = TagSet(x) THEN {} ELSE {"C06.tags"})

\* round trips of paths: same closed walk; a stated overlap / a named edge must
\* be one of those that carry the step in the original document
PathBack1(doc, x, y) ==
  /\ y.rt = "P" /\ y.name = x.name /\ TagSet(y) = TagSet(x) /\ PShapeOK(y)
  /\ PWalk(y) = PWalk(x)
  /\ \A k \in 1..(Len(PWalk(x)) - 1) :
       \/ ~PHasOv(y, k)
       \* an overlap the path stated comes back as it was (not as its complement)
       \/ PHasOv(x, k) /\ PCarriers(doc, x, k) # {} /\ y.ovs[k] = x.ovs[k]
       \/ ~PHasOv(x, k) /\ \E j \in PCarriers(doc, x, k) :
                               y.ovs[k] \in OvOfLinkFor(AsG1(doc[j]), PWalk(x)[k], PWalk(x)[k + 1])
PathBack2(doc, x, y) ==
  /\ y.rt = "O" /\ y.name = x.name /\ TagSet(y) = TagSet(x)
  /\ LET w == OSegs(doc, x)
         segidx == SelectSeq([j \in DOMAIN y.refs |-> j], LAMBDA j : y.refs[j].id \in SegNames(doc))
         ysegs == [k \in DOMAIN segidx |-> y.refs[segidx[k]]] IN
     /\ ysegs = w
     /\ Len(segidx) >= 1 /\ segidx[1] = 1 /\ segidx[Len(segidx)] = Len(y.refs)
     /\ \A k \in 1..(Len(w) - 1) :
          LET bt == SubSeq(y.refs, segidx[k] + 1, segidx[k + 1] - 1) IN
          \/ Len(bt) = 0
          \/ Len(bt) = 1 /\ \E j \in OCarriers(doc, x, k) :
                              /\ EdgeCarries(AsGeo(doc[j]), w[k], w[k + 1], bt[1].o)
                              /\ (doc[j].name # "*" => bt[1].id = doc[j].name)
                              \* same reading of the alignment as the traversal x gave
                              /\ (OSign(doc, x, k) # "" =>
                                    EdgeReadOvs(AsGeo(doc[j]), bt[1].o, w[k], w[k + 1])
                                      = EdgeReadOvs(AsGeo(doc[j]), OSign(doc, x, k), w[k], w[k + 1]))

-----------------------------------------------------------------------------
(* one record against its converted counterpart *)

\* does x (a line of doc, source version) have a counterpart in the other version?
Convertible(doc, x) ==
  CASE x.rt = "S" -> x.slen >= 0
    [] x.rt \in {"L", "C"} -> TRUE
    [] x.rt = "E" -> ~Internal(AsGeo(x))
    [] x.rt = "P" -> TRUE
    [] x.rt = "O" -> OModelled(doc, x)
    [] OTHER -> FALSE
\* a trace alignment has no GFA1 form: the edge (and a path through such an edge)
\* may be refused, dropped, or written with the overlap `*`
TraceE(x) == x.rt = "E" /\ Star(x) /\ x.f[5] # "*"
\* GFA2 wants the edge implied between two adjacent segments of an O line to be
\* unique; whether an edge in the opposite direction between the same oriented
\* segments counts is not said, so such a path may be refused as ambiguous
Touches(g, sa, sb) ==
  LET a == Ors(g.s1, g.o1) b == Ors(g.s2, g.o2) IN
  \/ <<a, b>> \in {<<sa, sb>>, <<sb, sa>>}
  \/ <<InvOrs(a), InvOrs(b)>> \in {<<sa, sb>>, <<sb, sa>>}
AmbiguousO(doc, x) ==
  LET w == OSegs(doc, x) IN
  \E k \in 1..(Len(w) - 1) :
     /\ Len(OBetween(doc, x, k)) = 0
     /\ Cardinality({j \in Idx(doc, {"E"}) : Touches(AsGeo(doc[j]), w[k], w[k + 1])}) > 1
Refusable(doc, x) ==
  \/ TraceE(x)
  \/ x.rt = "O" /\ ((\E k \in Idx(doc, {"E"}) : TraceE(doc[k])) \/ AmbiguousO(doc, x))

\* documents outside the quantifier of the property: a GFA1 edge with an
\* unspecified overlap or one that does not fit its segments, a segment
\* without length
Outside(doc, ver) ==
  \/ ver = "gfa1" /\ \E k \in Idx(doc, {"L", "C"}) :
        LET l == AsG1(doc[k]) IN ~Gfa1Fits(l, LenIn(doc, l.from), LenIn(doc, l.to))
  \/ \E k \in Idx(doc, {"S"}) : doc[k].slen < 0
  \/ ver = "gfa2" /\ \E k \in Idx(doc, {"E"}) :
        LET g == AsGeo(doc[k]) IN
        ~ValidE(g, LenIn(doc, g.s1), LenIn(doc, g.s2)) \/ ~Consistent(g)

MissClause(x) == CASE x.rt = "S" -> "C06.segment" [] x.rt \in {"P", "O"} -> "C06.path" [] OTHER -> "C06.pair"

\* (the harness reports the length of a GFA1 segment as slen = LN tag, else the
\*  length of the sequence, and leaves LN out of the tags: S1Len of Convert.tla)
SegOf(r) == Seg(r.name, r.seq, r.slen, TagSet(r))
SegFails(ver, x, y) ==
  IF y.rt # "S" \/ y.name # x.name THEN {"C06.segment"} ELSE
  LET want == IF ver = "gfa1" THEN S1ToS2(SegOf(x)) ELSE S2ToS1(SegOf(x))
      got == SegOf(y) IN
  (IF got.len = want.len /\ got.seq = want.seq THEN {} ELSE {"C06.segment"})
  \cup (IF got.tags = want.tags THEN {} ELSE {"C06.tags"})

NameFails12(doc, x, y) ==
  IF x.name # "*" THEN (IF y.name = x.name THEN {} ELSE {"C06.name"})
  ELSE (IF y.name # "*" /\ y.name \notin Names(doc) THEN {} ELSE {"C06.name"})
NameFails21(doc, x, y) ==
  IF x.name # "*" THEN (IF y.name = x.name THEN {} ELSE {"C06.name"})
  ELSE (IF y.name = "*" \/ y.name \notin Names(doc) THEN {} ELSE {"C06.name"})

\* GFA1 L/C x -> E y
Edge12(doc, x, y) ==
  IF y.rt # "E" THEN {"C06.pair"} ELSE
  LET l == AsG1(x)
      gy == AsGeo(y)
      forms == UNION {EForms(g) : g \in Gfa1ToEdgeSet(l, LenIn(doc, l.from), LenIn(doc, l.to))}
      FailsVs(z) ==
        (IF <<z.s1, z.o1, z.s2, z.o2>> = <<gy.s1, gy.o1, gy.s2, gy.o2>> THEN {} ELSE {"C06.pair"})
        \cup (IF z.n = gy.n THEN {} ELSE {"C06.interval"})
        \cup (IF z.al = gy.al /\ z.star = gy.star /\ (gy.star => y.f[5] = "*") THEN {} ELSE {"C06.alignment"})
  IN Smallest({FailsVs(z) : z \in forms})
     \cup (IF ValidE(gy, LenIn(doc, gy.s1), LenIn(doc, gy.s2)) THEN {} ELSE {"C06.interval"})
     \cup NameFails12(doc, x, y)
     \cup (IF TagSet(y) = TagSet(x) THEN {} ELSE {"C06.tags"})

\* GFA2 E x -> L/C y
Edge21(doc, x, y) ==
  IF y.rt \notin {"L", "C"} THEN {"C06.pair"} ELSE
  LET g == AsGeo(x)
      ly == AsG1(y)
      allowed == EdgeToGfa1Set(g, LenIn(doc, g.s1), LenIn(doc, g.s2))
      ovtext == y.f[Len(y.f)]
      FailsVs(z) ==
        (IF z.t = ly.t THEN {} ELSE {"C06.interval"})          \* link or containment follows from the intervals
        \cup (IF <<z.from, z.fo, z.to, z.too>> = <<ly.from, ly.fo, ly.to, ly.too>> THEN {} ELSE {"C06.pair"})
        \cup (IF z.ov = ly.ov /\ z.star = ly.star /\ (ly.star => ovtext = "*") THEN {} ELSE {"C06.alignment"})
        \cup (IF z.t = "C" /\ ly.t = "C" /\ z.pos # ly.pos THEN {"C06.pos"} ELSE {})
  IN Smallest({FailsVs(z) : z \in allowed})
     \cup NameFails21(doc, x, y)
     \cup (IF TagSet(y) = TagSet(x) THEN {} ELSE {"C06.tags"})

\* x of doc (version ver) against y; outdoc as in Path12
LineFails(doc, ver, x, y, outdoc) ==
  CASE x.rt = "S" -> SegFails(ver, x, y)
    [] x.rt \in {"L", "C"} -> Edge12(doc, x, y)
    [] x.rt = "E" -> Edge21(doc, x, y)
    [] x.rt = "P" -> Path12(doc, x, y, outdoc)
    [] x.rt = "O" -> Path21(doc, x, y)
    [] OTHER -> {}

\* candidates: the lines of `out` that can be the counterpart of x
TargetRts(x) == CASE x.rt = "S" -> {"S"} [] x.rt \in {"L", "C"} -> {"E"} [] x.rt = "E" -> {"L", "C"}
                  [] x.rt = "P" -> {"O"} [] x.rt = "O" -> {"P"} [] OTHER -> {}
\* (segments and paths are found by name; an edge by its best match, its name is a clause)
Cands(x, out) == {k \in Idx(out, TargetRts(x)) : x.rt \in {"L", "C", "E"} \/ out[k].name = x.name}

-----------------------------------------------------------------------------
(* whole documents *)
HdrTags(doc) == UNION {TagSet(doc[k]) : k \in Idx(doc, {"H"})}
HdrFails(doc, out, target) ==
  LET a == {t \in HdrTags(doc) : t[1] # "VN"}
      b == {t \in HdrTags(out) : t[1] # "VN"}
      vin == {t \in HdrTags(doc) : t[1] = "VN"}
      vout == {t \in HdrTags(out) : t[1] = "VN"} IN
  (IF a = b THEN {} ELSE {"C06.tags"})
  \cup (IF vin = {} \/ vout = {<<"VN", HeaderVN(target)>>} THEN {} ELSE {"C06.header"})

Body(doc) == {k \in DOMAIN doc : doc[k].rt \notin {"H", "#"}}

DocFails(doc, ver, out) ==
  LET conv0 == {k \in Body(doc) : Convertible(doc, doc[k])}
      \* a refusable line that was dropped is not demanded
      conv == {k \in conv0 : ~(Refusable(doc, doc[k]) /\ Cands(doc[k], out) = {})}
      PerLine(k) ==
        LET c == Cands(doc[k], out) IN
        IF c = {} THEN {MissClause(doc[k])}
        ELSE Smallest({LineFails(doc, ver, doc[k], out[m], out) : m \in c})
      claimed == UNION {Cands(doc[k], out) : k \in conv}
      named == {k \in Body(out) : out[k].name # "*" /\ out[k].rt \in {"S", "E", "O", "P", "L", "C"}}
  IN UNION {PerLine(k) : k \in conv}
     \cup (IF Body(out) \subseteq claimed THEN {} ELSE {"C06.mistranslated"})
     \cup (IF Cardinality(Body(out)) = Cardinality(conv) THEN {} ELSE {"C06.count"})
     \cup (IF \A k, m \in named : out[k].name = out[m].name => k = m THEN {} ELSE {"C06.name"})
     \cup HdrFails(doc, out, IF ver = "gfa1" THEN "gfa2" ELSE "gfa1")

\* the document came back: equivalent line by line
BackEquiv(doc, ver, x, y) ==
  CASE x.rt = "S" -> y.rt = "S" /\ SegOf(y) = SegOf(x)
    [] x.rt \in {"L", "C"} ->
         /\ y.rt \in {"L", "C"} /\ TagSet(y) = TagSet(x) /\ (x.name # "*" => y.name = x.name)
         /\ ~Star(y) /\ Equiv1(AsG1(x), AsG1(y), LAMBDA n : LenIn(doc, n))
    [] x.rt = "E" ->
         /\ y.rt = "E" /\ TagSet(y) = TagSet(x) /\ (x.name # "*" => y.name = x.name)
         /\ EquivE(AsGeo(x), AsGeo(y))
    [] x.rt = "P" -> PathBack1(doc, x, y)
    [] x.rt = "O" -> PathBack2(doc, x, y)
    [] OTHER -> FALSE
BackRts(x) == IF x.rt \in {"L", "C"} THEN {"L", "C"} ELSE {x.rt}
\* A GFA1 link whose overlap covers a whole segment is in GFA2 an edge with `$`
\* at both ends of that segment, which classifies as a containment (oracle
\* choice (b)).  A GFA1 path goes through links only: a path over such a link
\* has no way back (it must not come back unsupported either: the document that
\* comes back has to load).
LinkStaysLink(doc, l) == ClassOf(LinkToEdge(l, LenIn(doc, l.from), LenIn(doc, l.to))) = "L"
NoWayBackP(doc, x) ==
  x.rt = "P" /\ \E k \in 1..(Len(PWalk(x)) - 1) :
                  \A j \in PCarriers(doc, x, k) : ~LinkStaysLink(doc, AsG1(doc[j]))
RoundOK(doc, ver, back) ==
  LET conv == {k \in Body(doc) : Convertible(doc, doc[k]) /\ ~(ver = "gfa1" /\ NoWayBackP(doc, doc[k]))} IN
  /\ \A k \in conv : \E m \in Idx(back, BackRts(doc[k])) : BackEquiv(doc, ver, doc[k], back[m])
  /\ \A m \in Body(back) : \E k \in conv : back[m].rt \in BackRts(doc[k]) /\ BackEquiv(doc, ver, doc[k], back[m])
  /\ Cardinality(Body(back)) = Cardinality(conv)
\* the way back exists only if the intermediate GFA1 document has its overlaps
RoundApplies(doc, ver) ==
  ver = "gfa1" \/ \A k \in Idx(doc, {"E"}) : Internal(AsGeo(doc[k])) \/ ~Star(doc[k])

-----------------------------------------------------------------------------
(* verdict of one case *)
Errs == {"Error", "NotUniqueError", "VersionError", "NotFoundError"}
Tag(api, S) == {<<api, cl>> : cl \in S}

LineLevel(c, doc, j, a, api) ==
  LET x == doc[j]
      r == c.ln[j][a]
      outs == Recs(r[2]) IN
  IF x.rt \in {"H", "#"} \/ r[1] = "skip" THEN {}
  ELSE IF r[1] \notin Errs \cup {"ok"} THEN Tag(api, {"foreign"})
  ELSE IF Convertible(doc, x) THEN
     IF r[1] # "ok" THEN (IF Refusable(doc, x) THEN {} ELSE Tag(api, {"C06.refused"}))
     ELSE IF Len(outs) = 0 /\ Refusable(doc, x) THEN {}
     ELSE IF Len(outs) # 1 THEN Tag(api, {MissClause(x)})
     ELSE Tag(api, LineFails(doc, c.ver, x, outs[1], <<>>))
  ELSE  \* no counterpart: refused, or nothing written
     IF r[1] = "ok" /\ Len(outs) > 0 /\ x.rt # "O" THEN Tag(api, {"C06.mistranslated"}) ELSE {}

\* the accessor view of an edge: must be the counterpart too (name/tags are not part of the view)
AccLevel(c, doc, j) ==
  LET x == doc[j]
      r == c.ln[j][3]
      outs == Recs(r[2]) IN
  IF x.rt \notin {"L", "C", "E"} \/ r[1] = "skip" \/ TraceE(x) THEN {}
  ELSE IF r[1] \notin Errs \cup {"ok"} THEN Tag("accessors", {"foreign"})
  ELSE IF Convertible(doc, x) THEN
     IF r[1] # "ok" \/ Len(outs) # 1 THEN Tag("accessors", {"C06.refused"})
     ELSE Tag("accessors", LineFails(doc, c.ver, x, outs[1], <<>>) \ {"C06.name", "C06.tags"})
  ELSE IF r[1] = "ok" THEN Tag("accessors", {"C06.mistranslated"}) ELSE {}

Whole(c, doc, r, api) ==
  IF r[1] = "skip" THEN {}
  ELSE IF r[1] \notin Errs \cup {"ok"} THEN Tag(api, {"foreign"})
  ELSE IF r[1] # "ok" THEN
     (IF \E k \in Body(doc) : ~Convertible(doc, doc[k]) \/ Refusable(doc, doc[k]) THEN {}
      ELSE Tag(api, {"C06.refused"}))
  ELSE Tag(api, DocFails(doc, c.ver, Recs(r[2])) \cup (IF r[3] = "ok" THEN {} ELSE {"C06.invalid-output"}))

Back(c, doc) ==
  IF c.gs[1] # "ok" \/ c.gs[3] # "ok" \/ c.bk[1] = "skip" THEN {}
  ELSE IF c.bk[1] \notin Errs \cup {"ok"} THEN Tag("roundtrip", {"foreign"})
  ELSE IF ~RoundApplies(doc, c.ver) THEN {}
  ELSE IF c.bk[1] # "ok" \/ c.bk[3] # "ok" THEN Tag("roundtrip", {"C06.roundtrip"})
  ELSE IF RoundOK(doc, c.ver, Recs(c.bk[2])) THEN {} ELSE Tag("roundtrip", {"C06.roundtrip"})

Fails(c) ==
  LET doc == IF c.ver = "gfa2" THEN NormO(Recs(c.inp)) ELSE Recs(c.inp) IN
  IF Outside(doc, c.ver) THEN {<<"input", "outside">>}
  ELSE UNION {LineLevel(c, doc, j, 1, "line_s") \cup LineLevel(c, doc, j, 2, "line") \cup AccLevel(c, doc, j)
              : j \in DOMAIN doc}
       \cup Whole(c, doc, c.gs, "gfa_s") \cup Whole(c, doc, c.go, "gfa")
       \cup Back(c, doc)

Judge(k) == LET f == Fails(Cases[k]) IN
            IF f = {} THEN TRUE ELSE PrintT(<<"REJECT", Cases[k].id, f>>)

Init == i \in 1..Len(Cases) /\ Judge(i)
Next == FALSE /\ UNCHANGED i
Spec == Init /\ [][Next]_i
=============================================================================
