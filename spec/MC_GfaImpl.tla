----------------------------- MODULE MC_GfaImpl -----------------------------
(* Model-checking instance of GfaImpl: catalogue from JSON (same abstraction as
   everywhere else), bounds as definitions. *)
EXTENDS GfaImpl, Json, IOUtils
MCData == JsonDeserialize(IOEnv.CATALOG_FILE)
MCCatalogue == MCData.pool
MCMaxObjs == MCData.maxobjs
MCMaxOps == MCData.depth
=============================================================================
