-------------------------------- MODULE Gfa --------------------------------
(* Core specification of a gfapy.Gfa as a document state machine.

   The state is the *document*: the real lines in arrival order, the header
   tags, the version and the queue of lines held back while the version is
   unknown.  Everything else a user can observe (placeholders, references,
   back-reference collections, lookup, components, counters) is a function of
   the document -- the OBSERVE sections -- derived from the GFA specifications
   and the gfapy documentation, not from gfapy's code.

   Every public mutation is one operator; Step(st, op) returns the SET of
   allowed outcomes [st |-> post-state, res |-> result class]; a failing call
   always returns the pre-state (C08).  The model-checking modules (MC_...) and
   the trace specifications (Trace...) both use Step, so the model TLC checks and
   the oracle the implementation is compared with are the same text.

   Abstract line (see harness/project.py; all keys always present):
     rt name refs f num tags tagn ovs
   refs = sequence of [id, o]; tags = tag texts, tagn = their names (parallel);
   ovs = the CIGARs of the line (L, C: one; P: one per listed overlap;
   E: one), each a sequence of [n, c], the placeholder "*" being <<>>.        *)
EXTENDS Naturals, Integers, Sequences, FiniteSets, Util, EdgeClass, Cigar

-----------------------------------------------------------------------------
(* LINES *)

IsLink(l) == l.rt = "L"
IsGroup(l) == l.rt \in {"O", "U"}
\* record types whose name lives in the shared identifier namespace (C09)
Named(l) == l.name # "*" /\ l.rt \in {"S", "P", "E", "G", "O", "U", "L", "C"}

Gfa1Only == {"L", "C", "P"}
Gfa2Only == {"E", "G", "F", "O", "U"}
Standard == {"H", "#", "S"} \cup Gfa1Only \cup Gfa2Only
IsS2(l) == l.rt = "S" /\ Len(l.f) = 2          \* GFA2 segment: slen, sequence
IsS1(l) == l.rt = "S" /\ Len(l.f) = 1
IsCustom(l) == l.rt \notin Standard /\ l.rt # "?"

\* version a line forces ("gfa1", "gfa2") or "any"
LineVersion(l) ==
  IF l.rt \in Gfa1Only \/ IsS1(l) THEN "gfa1"
  ELSE IF l.rt \in Gfa2Only \/ IsS2(l) \/ IsCustom(l) THEN "gfa2"
  ELSE "any"

RefIds(l) == {l.refs[i].id : i \in DOMAIN l.refs}
\* identifiers the line mentions that must be segments
\* (an F line: refs[1] is the segment, refs[2] the external sequence, which is no graph identifier)
SegMentions(l) == IF l.rt \in {"L", "C", "E", "G", "P"} THEN RefIds(l)
                  ELSE IF l.rt = "F" THEN {l.refs[1].id} ELSE {}
\* identifiers the line mentions that may be any identified line
ItemMentions(l) == IF IsGroup(l) THEN RefIds(l) ELSE {}
Mentions(l) == SegMentions(l) \cup ItemMentions(l)

\* written form up to the order of tags
Norm(l) == [rt |-> l.rt, name |-> l.name, refs |-> l.refs, f |-> l.f, tags |-> Rng(l.tags)]

InvRef(r) == [id |-> r.id, o |-> Inv(r.o)]

\* --- links, their complement, and the links a path requires --------------
SameEnds(a, b)  == a.refs[1] = b.refs[1] /\ a.refs[2] = b.refs[2]
ComplEnds(a, b) == a.refs[1] = InvRef(b.refs[2]) /\ a.refs[2] = InvRef(b.refs[1])
\* a is exactly the complement of b
IsComplement(a, b) == ComplEnds(a, b) /\ a.ovs[1] = Complement(b.ovs[1])

\* requirement: [a |-> oriented from, b |-> oriented to, cg |-> CIGAR or <<>>]
Required(p) ==
  LET n == Len(p.refs)
      undef == p.f[1] = "*"
      circ == ~undef /\ Len(p.ovs) = n           \* as many overlaps as segments: the path closes
      m == IF circ THEN n ELSE n - 1 IN
  [i \in 1..m |-> [a |-> p.refs[i],
                   b |-> p.refs[IF i = n THEN 1 ELSE i + 1],
                   cg |-> IF undef \/ i > Len(p.ovs) THEN <<>> ELSE p.ovs[i]]]

OvCompat(lcg, rcg, compl) ==
  lcg = <<>> \/ rcg = <<>> \/ (IF compl THEN lcg = Complement(rcg) ELSE lcg = rcg)
Direct(l, r) == l.refs[1] = r.a /\ l.refs[2] = r.b /\ OvCompat(l.ovs[1], r.cg, FALSE)
Compl(l, r)  == l.refs[1] = InvRef(r.b) /\ l.refs[2] = InvRef(r.a) /\ OvCompat(l.ovs[1], r.cg, TRUE)
Serves(l, r) == IsLink(l) /\ (Direct(l, r) \/ Compl(l, r))
AsReq(l) == [a |-> l.refs[1], b |-> l.refs[2], cg |-> l.ovs[1]]
\* two L lines compete for the same slot in gfapy's duplicate search
LinkClash(a, b) == IsLink(a) /\ IsLink(b) /\ Serves(a, AsReq(b))
\* direction-free key of an edge slot
EdgeKey(r) == {<<r.a, r.b>>, <<InvRef(r.b), InvRef(r.a)>>}

-----------------------------------------------------------------------------
(* STATE *)

Init0(cfg) == [ver |-> cfg.version,
               guess |-> IF cfg.version = "none" THEN "gfa2" ELSE cfg.version,
               queue |-> <<>>, hdr |-> <<>>, lines |-> <<>>, orph |-> FALSE,
               vlevel |-> cfg.vlevel, dialect |-> cfg.dialect, explicit |-> cfg.version # "none"]

IdxNamed(st, id) == {i \in DOMAIN st.lines : Named(st.lines[i]) /\ st.lines[i].name = id}
NamesOf(st) == {st.lines[i].name : i \in {j \in DOMAIN st.lines : Named(st.lines[j])}}
SegIds(st) == {st.lines[i].name : i \in {j \in DOMAIN st.lines : st.lines[j].rt = "S"}}
PathIdx(st) == {i \in DOMAIN st.lines : st.lines[i].rt = "P"}
LinkIdx(st) == {i \in DOMAIN st.lines : st.lines[i].rt = "L"}

-----------------------------------------------------------------------------
(* OBSERVE: placeholders *)

AllSegMentions(st) == UNION {SegMentions(st.lines[i]) : i \in DOMAIN st.lines}
AllItemMentions(st) == UNION {ItemMentions(st.lines[i]) : i \in DOMAIN st.lines}
\* identifiers that must be represented by a virtual segment
VirtSegIds(st) == AllSegMentions(st) \ NamesOf(st)
\* identifiers mentioned only by groups: virtual segment or unknown record
UnknownIds(st) == (AllItemMentions(st) \ NamesOf(st)) \ VirtSegIds(st)
PlaceholderIds(st) == VirtSegIds(st) \cup UnknownIds(st)

AllRequired(st) == UNION {Rng(Required(st.lines[i])) : i \in PathIdx(st)}
Unserved(st) == {r \in AllRequired(st) : ~\E j \in LinkIdx(st) : Serves(st.lines[j], r)}
\* edge slots for which a virtual link must exist
VirtLinkKeys(st) == {EdgeKey(r) : r \in Unserved(st)}

-----------------------------------------------------------------------------
(* OBSERVE: back-references.  Filings(st, id) = bag of <<collection, line>>
   for every occurrence of id in a line, under the collection the GFA
   semantics assigns (C11).                                                   *)

LKeyFrom(l) == IF l.refs[1].o = "+" THEN "dovetails_R" ELSE "dovetails_L"
LKeyTo(l)   == IF l.refs[2].o = "+" THEN "dovetails_L" ELSE "dovetails_R"
GKey1(l) == IF l.refs[1].o = "+" THEN "gaps_R" ELSE "gaps_L"
GKey2(l) == IF l.refs[2].o = "+" THEN "gaps_L" ELSE "gaps_R"
EClass(l) == Class(l.refs[1].o, l.refs[2].o, l.num)

KeyOn(l, n) ==
  CASE l.rt = "L" -> IF n = 1 THEN LKeyFrom(l) ELSE LKeyTo(l)
    [] l.rt = "C" -> IF n = 1 THEN "edges_to_contained" ELSE "edges_to_containers"
    [] l.rt = "E" -> IF n = 1 THEN EClass(l).k1 ELSE EClass(l).k2
    [] l.rt = "G" -> IF n = 1 THEN GKey1(l) ELSE GKey2(l)
    [] l.rt = "F" -> "fragments"
    [] l.rt \in {"P", "O"} -> "paths"
    [] l.rt = "U" -> "sets"
    [] OTHER -> "none"

RECURSIVE FilingsOf(_, _, _)
FilingsOf(lines, id, i) ==
  IF i > Len(lines) THEN <<>>
  ELSE LET l == lines[i]
           occ == IF l.rt \in {"L", "C", "E", "G", "P", "O", "U"}
                  THEN {n \in DOMAIN l.refs : l.refs[n].id = id}
                  ELSE IF l.rt = "F" /\ l.refs[1].id = id THEN {1} ELSE {}
           here == SeqMap(LAMBDA n : <<KeyOn(l, n), Norm(l)>>, SetToSeq(occ))
       IN here \o FilingsOf(lines, id, i + 1)
Filings(st, id) == BagOf(FilingsOf(st.lines, id, 1))

\* neighbourhood answers that follow from the collections (C11)
OtherSeg(l, id) == IF l.refs[1].id = id THEN l.refs[2].id ELSE l.refs[1].id
FiledIdx(st, id, k) == {i \in DOMAIN st.lines :
    st.lines[i].rt \in {"L", "C", "E"} /\
    \E n \in DOMAIN st.lines[i].refs : st.lines[i].refs[n].id = id /\ KeyOn(st.lines[i], n) = k}
\* one neighbour per line filed under k on id (a line filed twice counts once)
OthersVia(st, id, k) == BagOf(SeqMap(LAMBDA i : OtherSeg(st.lines[i], id), SetToSeq(FiledIdx(st, id, k))))
OthersVia2(st, id, k1, k2) ==
  BagOf(SeqMap(LAMBDA i : OtherSeg(st.lines[i], id), SetToSeq(FiledIdx(st, id, k1) \cup FiledIdx(st, id, k2))))
EdgeType(l) == IF l.rt = "L" THEN "L" ELSE IF l.rt = "C" THEN "C" ELSE EClass(l).t

\* external sequences of the fragments (registry behind fragments_for_external)
ExternalNames(st) == {st.lines[i].refs[2].id : i \in {j \in DOMAIN st.lines : st.lines[j].rt = "F"}}
FragmentsOf(st, x) == BagOf(SeqMap(Norm, SelectSeq(st.lines, LAMBDA l : l.rt = "F" /\ l.refs[2].id = x)))

\* the paths that use a given real link (once per use)
RECURSIVE PathUses(_, _, _)
PathUses(st, l, i) ==
  IF i > Len(st.lines) THEN <<>>
  ELSE LET p == st.lines[i]
           uses == IF p.rt = "P" THEN {k \in DOMAIN Required(p) : Serves(l, Required(p)[k])} ELSE {} IN
       SeqMap(LAMBDA k : Norm(p), SetToSeq(uses)) \o PathUses(st, l, i + 1)

-----------------------------------------------------------------------------
(* OBSERVE: dovetail graph, components, counters (C16) *)

IsDovetail(l) == l.rt = "L" \/ (l.rt = "E" /\ EClass(l).t = "L")
IsContainment(l) == l.rt = "C" \/ (l.rt = "E" /\ EClass(l).t = "C")
IsInternal(l) == l.rt = "E" /\ EClass(l).t = "I"
NDovetails(st) == Count(st.lines, IsDovetail)
NContainments(st) == Count(st.lines, IsContainment)
NInternals(st) == Count(st.lines, IsInternal)
EndOfKey(k) == IF k = "dovetails_L" THEN "L" ELSE "R"
EndsOf(l) == {<<l.refs[1].id, EndOfKey(KeyOn(l, 1))>>, <<l.refs[2].id, EndOfKey(KeyOn(l, 2))>>}
DovetailIdx(st) == {j \in DOMAIN st.lines : IsDovetail(st.lines[j])}
TouchedEnds(st) == UNION {EndsOf(st.lines[i]) : i \in DovetailIdx(st)}
NDeadEnds(st) == 2 * Cardinality(SegIds(st))
                 - Cardinality(TouchedEnds(st) \cap (SegIds(st) \X {"L", "R"}))
Adj(st) == {<<st.lines[i].refs[1].id, st.lines[i].refs[2].id>> : i \in DovetailIdx(st)}
RECURSIVE Reach(_, _)
Reach(E, X) == LET Y == X \cup {e[2] : e \in {d \in E : d[1] \in X}}
                              \cup {e[1] : e \in {d \in E : d[2] \in X}} IN
               IF Y = X THEN X ELSE Reach(E, Y)
Components(st) == {Reach(Adj(st), {s}) : s \in SegIds(st)}

-----------------------------------------------------------------------------
(* TEXT EDITS: removal with the documented cascade, renaming *)

\* x is a dependant of y: removing y removes x (doc/tutorial/references.rst)
DependsOnLine(x, y) ==
  CASE y.rt = "S" -> y.name \in Mentions(x)
    [] y.rt = "L" -> x.rt = "P" /\ \E r \in Rng(Required(x)) : Serves(y, r)
    [] y.rt \in {"E", "O"} -> y.name # "*" /\ IsGroup(x) /\ y.name \in RefIds(x)
    [] y.rt = "U" -> y.name # "*" /\ x.rt = "U" /\ y.name \in RefIds(x)
    [] OTHER -> FALSE

RECURSIVE Closure(_, _)
Closure(st, X) ==
  LET Y == X \cup {i \in DOMAIN st.lines : \E j \in X : DependsOnLine(st.lines[i], st.lines[j])} IN
  IF Y = X THEN X ELSE Closure(st, Y)

\* mentions of a removed gap are dropped from the groups that list it
DropItems(l, G) == IF IsGroup(l) THEN [l EXCEPT !.refs = SelectSeq(l.refs, LAMBDA r : r.id \notin G)] ELSE l
RemoveIdx(st, gone) ==
  LET gapnames == {st.lines[i].name : i \in {j \in gone : st.lines[j].rt = "G" /\ st.lines[j].name # "*"}} IN
  SeqMap(LAMBDA l : DropItems(l, gapnames), Without(st.lines, gone))

SubstRefs(refs, old, new) ==
  [i \in DOMAIN refs |-> IF refs[i].id = old THEN [refs[i] EXCEPT !.id = new] ELSE refs[i]]

-----------------------------------------------------------------------------
(* STEP *)

Ok(st)      == [st |-> st, res |-> "ok"]
Unmodelled(st) == [st |-> st, res |-> "unmodelled"]
Fail(st, e) == [st |-> st, res |-> e]

\* --- header -------------------------------------------------------------
SingleDef == {"VN", "TS"}
VNs(l) == {l.tags[i] : i \in {j \in DOMAIN l.tags : l.tagn[j] = "VN"}}
VerOfVN(t) == IF t = "VN:Z:1.0" THEN "gfa1" ELSE IF t = "VN:Z:2.0" THEN "gfa2" ELSE "bad"
HdrConflict(hdr, l) ==
  \E i \in DOMAIN l.tags, j \in DOMAIN hdr :
     l.tagn[i] = hdr[j].n /\ l.tagn[i] \in SingleDef /\ l.tags[i] # hdr[j].t
HdrNew(hdr, l) ==
  LET keep == {i \in DOMAIN l.tags :
                 ~(l.tagn[i] \in SingleDef /\ \E j \in DOMAIN hdr : hdr[j].t = l.tags[i])} IN
  SeqMap(LAMBDA i : [n |-> l.tagn[i], t |-> l.tags[i]], SetToSeq(keep))

AddHeader(st, l) ==
  IF st.vlevel > 0 /\ \E v \in VNs(l) : VerOfVN(v) = "bad" THEN {Fail(st, "VersionError")}
  \* level 0 is documented to skip the checks of the VN header: an unsupported value is not specified
  ELSE IF st.vlevel = 0 /\ \E v \in VNs(l) : VerOfVN(v) = "bad" THEN {Unmodelled(st)}
  ELSE IF st.vlevel > 0 /\ st.ver # "none" /\ \E v \in VNs(l) : VerOfVN(v) # st.ver
    THEN {Fail(st, "VersionError")}
  ELSE IF HdrConflict(st.hdr, l) THEN {Fail(st, "Error")}
  ELSE {Ok([st EXCEPT !.hdr = @ \o HdrNew(st.hdr, l)])}

\* --- a non-header line into a Gfa whose version is decided ---------------
MergeGroup(p, l) ==
  LET extra == {i \in DOMAIN l.tags : ~\E j \in DOMAIN p.tagn : p.tagn[j] = l.tagn[i]}
      es == SetToSeq(extra) IN
  [p EXCEPT !.refs = p.refs \o l.refs,
            !.tags = p.tags \o SeqMap(LAMBDA i : l.tags[i], es),
            !.tagn = p.tagn \o SeqMap(LAMBDA i : l.tagn[i], es)]
TagConflict(p, l) ==
  \E i \in DOMAIN p.tags, j \in DOMAIN l.tags : p.tagn[i] = l.tagn[j] /\ p.tags[i] # l.tags[j]

\* the name of the new line is mentioned (and not yet defined) as something the line cannot be:
\* a segment is expected but the line is not one, or a group item but the line is of a type that
\* cannot be listed.  No document containing both can be valid; what gfapy does then is not specified.
OItemIds(st) == UNION {RefIds(st.lines[i]) : i \in {j \in DOMAIN st.lines : st.lines[j].rt = "O"}}
WrongKindForPlaceholder(st, l) ==
  Named(l) /\ ((l.name \in VirtSegIds(st) /\ l.rt # "S")
               \/ (l.name \in UnknownIds(st) /\ l.rt \notin {"S", "E", "G", "O", "U"}))
\* a line that mentions its own identifier (as a segment, or as an item of the group it is): the
\* identifier would be carried by two lines / a group would list itself -- refused
SelfMention(l) == Named(l) /\ l.name \in Mentions(l)

AddDecided(st, l) ==
  LET lv == LineVersion(l) IN
  IF lv # "any" /\ lv # st.ver THEN {Fail(st, "VersionError")}
  ELSE IF l.rt = "#" THEN {Ok([st EXCEPT !.lines = Append(@, l)])}
  ELSE IF SelfMention(l) THEN {Fail(st, "NotUniqueError"), Fail(st, "Error")}
  ELSE IF WrongKindForPlaceholder(st, l)
          /\ ~(IsLink(l) /\ \E i \in DOMAIN st.lines : LinkClash(st.lines[i], l) /\ IsComplement(l, st.lines[i]))
    \* (the complement of a stored link is that link, whatever its ID tag says: C09's documented
    \* exception, C12 -- decided below)
    THEN {Fail(st, "NotUniqueError"), Fail(st, "Error")}
  ELSE IF SegMentions(l) \cap (NamesOf(st) \ SegIds(st)) # {}
    \* a segment is mentioned under an identifier that a line of another type carries
    THEN {Fail(st, "NotUniqueError"), Fail(st, "Error")}
  ELSE IF l.rt = "O" /\ \E i \in DOMAIN st.lines : st.lines[i].rt = "U" /\ st.lines[i].name \in RefIds(l)
    THEN {[st |-> st, res |-> "unmodelled"]}   \* an ordered group cannot list a set: not specified
  ELSE IF l.rt = "U" /\ l.name \in OItemIds(st)
    THEN {[st |-> st, res |-> "unmodelled"]}   \* the same with the set arriving after the path that lists it
  ELSE IF IsLink(l) THEN
    LET clash == {i \in DOMAIN st.lines : LinkClash(st.lines[i], l)} IN
    IF \E i \in clash : IsComplement(l, st.lines[i]) /\ SameEnds(l, st.lines[i])
      \* a self-complementary link (hairpin with a palindromic overlap) given again: it is the
      \* complement of the stored one (no-op, C12) and identical to it (refusal allowed, C09)
      THEN {Ok(st), Fail(st, "NotUniqueError")}
    ELSE IF Named(l) /\ l.name \in NamesOf(st) /\ ~\E i \in clash : IsComplement(l, st.lines[i])
      THEN {Fail(st, "NotUniqueError")}
    ELSE IF \E r1, r2 \in Unserved(st) : EdgeKey(r1) = EdgeKey(r2) /\ Serves(l, r1) /\ ~Serves(l, r2)
      \* two paths wait for links on the same pair of segment ends, and the new link serves only one
      \* of them: how gfapy's shared placeholder link is split is not specified (it needs an
      \* ambiguous document: parallel links under a path with unspecified overlaps)
      THEN {Unmodelled(st)}
    ELSE IF clash = {} THEN {Ok([st EXCEPT !.lines = Append(@, l)])}
    ELSE IF \E i \in clash : IsComplement(l, st.lines[i]) /\ ~SameEnds(l, st.lines[i])
      THEN {Ok(st)}                         \* complement of a stored link: nothing added (C12)
    ELSE IF \E i \in clash : SameEnds(l, st.lines[i]) /\ l.ovs = st.lines[i].ovs
      THEN {Fail(st, "NotUniqueError"), Ok(st)}      \* identical link: refusal or no-op (C09)
    ELSE {Fail(st, "NotUniqueError"), Ok([st EXCEPT !.lines = Append(@, l)])}
                                            \* "*"-overlap twin: refusal or parallel edge
  ELSE IF Named(l) /\ l.name \in NamesOf(st) THEN
    LET prev == IdxNamed(st, l.name) IN
    IF IsGroup(l) /\ \E i \in prev : st.lines[i].rt = l.rt THEN
      LET i == CHOOSE i \in prev : st.lines[i].rt = l.rt IN
      IF TagConflict(st.lines[i], l) THEN {Fail(st, "NotUniqueError")}
      ELSE {Ok([st EXCEPT !.lines = [@ EXCEPT ![i] = MergeGroup(@, l)]])}
    ELSE {Fail(st, "NotUniqueError")}
  ELSE {Ok([st EXCEPT !.lines = Append(@, l)])}

RECURSIVE Flush(_, _)
\* deliver queued lines one by one; the first refusal aborts with its class
Flush(st, q) ==
  IF q = <<>> THEN {Ok(st)}
  ELSE UNION {IF o.res = "ok" THEN Flush(o.st, Tail(q)) ELSE {o} : o \in AddDecided(st, Head(q))}

\* outcome of a composite call: keep the result class, roll back on failure
Commit(st, outs) == {[st |-> IF o.res = "ok" THEN o.st ELSE st, res |-> o.res] : o \in outs}

Add(st, l) ==
  IF l.rt = "H" THEN
    IF st.ver # "none" \/ VNs(l) = {} THEN AddHeader(st, l)
    ELSE UNION {IF o.res # "ok" THEN {o}
                ELSE LET v == VerOfVN(CHOOSE v \in VNs(l) : TRUE) IN
                     Commit(st, Flush([o.st EXCEPT !.ver = v, !.queue = <<>>], st.queue))
                : o \in AddHeader(st, l)}
  ELSE IF st.ver # "none" THEN
    AddDecided(st, l)
      \* an orphan placeholder (outside the claim, DESIGN 3.1) may still carry the identifier
      \cup (IF st.orph /\ Named(l) /\ l.rt # "S" THEN {Fail(st, "NotUniqueError")} ELSE {})
  ELSE IF l.rt = "#" THEN {Ok([st EXCEPT !.lines = Append(@, l)])}
  ELSE IF l.rt \in Gfa1Only THEN {Ok([st EXCEPT !.queue = Append(@, l), !.guess = "gfa1"])}
  ELSE IF IsCustom(l) THEN {Ok([st EXCEPT !.queue = Append(@, l)])}
  ELSE \* a line that decides the version: the queue is delivered under it, then the line
    LET s1 == [st EXCEPT !.ver = LineVersion(l), !.queue = <<>>] IN
    Commit(st, UNION {IF f.res # "ok" THEN {f} ELSE AddDecided(f.st, l) : f \in Flush(s1, st.queue)})

ProcessQueue(st) ==
  LET v == IF st.ver = "none" THEN st.guess ELSE st.ver IN
  Commit(st, Flush([st EXCEPT !.ver = v, !.queue = <<>>], st.queue))

\* --- removal ---------------------------------------------------------------
Removed(st, seed) ==
  LET gone == Closure(st, seed)
      post == [st EXCEPT !.lines = RemoveIdx(st, gone)] IN
  [post EXCEPT !.orph = st.orph \/ PlaceholderIds(st) # {} \/ VirtLinkKeys(st) # {}]

\* a requirement of some path is served by more than one stored link: which one
\* the path is bound to is left open, so a removal cascade is not predicted
Ambiguous(st) == \E r \in AllRequired(st) :
   Cardinality({j \in LinkIdx(st) : Serves(st.lines[j], r)}) > 1

\* a removal that leaves a group without any item (its only item was a gap): whether the
\* emptied group stays, and how it is written, is not specified
EmptiesGroup(st, seed) ==
  LET post == Removed(st, seed) IN
  \E i \in DOMAIN post.lines : IsGroup(post.lines[i]) /\ post.lines[i].refs = <<>>

Rm(st, id) ==
  IF Ambiguous(st) THEN {Unmodelled(st)}
  ELSE IF IdxNamed(st, id) # {} /\ EmptiesGroup(st, IdxNamed(st, id)) THEN {Unmodelled(st)}
  ELSE IF IdxNamed(st, id) # {} THEN {Ok(Removed(st, IdxNamed(st, id)))}
  ELSE IF id \in PlaceholderIds(st)
    THEN {Ok(Removed(st, {i \in DOMAIN st.lines : id \in Mentions(st.lines[i])}))}
  ELSE {Fail(st, "NotFoundError"), Fail(st, "Error")}
         \cup (IF st.orph THEN {Ok(st)} ELSE {})   \* an orphan placeholder may still carry the name

\* disconnect the instance equal to l (any one of the equal stored lines)
Disc(st, l) ==
  LET tgt == {i \in DOMAIN st.lines : Norm(st.lines[i]) = Norm(l)} IN
  IF tgt = {} THEN {Fail(st, "Error")}
  ELSE IF Ambiguous(st) \/ EmptiesGroup(st, {CHOOSE i \in tgt : TRUE}) THEN {Unmodelled(st)}
  ELSE {Ok(Removed(st, {CHOOSE i \in tgt : TRUE}))}

\* --- graph clean-up operations defined through removal ------------------------
SegLen(st, id) == LET i == CHOOSE i \in DOMAIN st.lines : st.lines[i].rt = "S" /\ st.lines[i].name = id IN
                  st.lines[i].num[1]
RECURSIVE SumLens(_, _)
SumLens(st, S) == IF S = {} THEN 0 ELSE LET x == CHOOSE x \in S : TRUE IN SegLen(st, x) + SumLens(st, S \ {x})
\* remove_small_components(minlen): every dovetail-connected component whose total
\* segment length is below minlen is removed (with the dependants of its segments)
RemoveSmallComponents(st, minlen) ==
  IF st.orph \/ PlaceholderIds(st) # {} \/ \E id \in SegIds(st) : SegLen(st, id) < 0 THEN {Fail(st, "NotFoundError"), Fail(st, "Error"), Unmodelled(st)}
  ELSE IF Ambiguous(st) \/ PlaceholderIds(st) # {} \/ VirtLinkKeys(st) # {}
    THEN {Unmodelled(st)}
  ELSE LET small == {c \in Components(st) : SumLens(st, c) < minlen}
           segs == UNION small IN
       {Ok(Removed(st, {i \in DOMAIN st.lines : st.lines[i].rt = "S" /\ st.lines[i].name \in segs}))}
\* remove_self_links(): every dovetail from a segment to itself is removed
RemoveSelfLinks(st) ==
  IF Ambiguous(st) \/ PlaceholderIds(st) # {} \/ VirtLinkKeys(st) # {} THEN {Unmodelled(st)}
  ELSE {Ok(Removed(st, {i \in DOMAIN st.lines :
            IsDovetail(st.lines[i]) /\ st.lines[i].refs[1].id = st.lines[i].refs[2].id}))}

\* --- rename ----------------------------------------------------------------
Rename(st, old, new) ==
  LET tgt == IdxNamed(st, old) IN
  IF tgt = {} THEN {Fail(st, "NotFoundError"), Fail(st, "Error")}
  ELSE IF new = old THEN {Ok(st)}
  ELSE LET i == CHOOSE i \in tgt : TRUE
           t == st.lines[i] IN
    IF new \in NamesOf(st) THEN
      {Fail(st, "NotUniqueError")}
        \cup (IF IsGroup(t) /\ \E j \in IdxNamed(st, new) : st.lines[j].rt = t.rt
              THEN {[st |-> st, res |-> "unmodelled"]} ELSE {})   \* documented group merge: trace ends
    ELSE IF new \in PlaceholderIds(st)
      \* the identifier is in use: other lines mention it and a placeholder carries it (C09)
      THEN {Fail(st, "NotUniqueError")}
    ELSE
      {Ok([st EXCEPT !.lines = [j \in DOMAIN st.lines |->
            LET l1 == IF j = i THEN [st.lines[j] EXCEPT !.name = new] ELSE st.lines[j] IN
            IF t.rt \in {"L", "C"} THEN l1
            ELSE IF l1.rt = "F" THEN [l1 EXCEPT !.refs = <<SubstRefs(l1.refs, old, new)[1], l1.refs[2]>>]
            ELSE [l1 EXCEPT !.refs = SubstRefs(l1.refs, old, new)]]])}
      \cup (IF st.orph THEN {Fail(st, "NotUniqueError")} ELSE {})   \* an orphan placeholder may carry the name

\* renaming to something that is not an ordinary identifier (class decided from the text by the
\* harness: 1 = the placeholder "*", 2 = not an identifier at all: empty or with a blank).
\* An identifier that the grammar requires (S, P) cannot be removed; an optional one (E, G, O, U)
\* can, unless other lines refer to the line by it.  A refusal changes nothing.
RenameSpecial(st, old, new, cls) ==
  LET tgt == IdxNamed(st, old) IN
  IF tgt = {} THEN {Fail(st, "NotFoundError"), Fail(st, "Error")}
  ELSE LET i == CHOOSE i \in tgt : TRUE
           t == st.lines[i] IN
    IF t.rt \in {"L", "C"} THEN {Unmodelled(st)}               \* the ID tag is a string tag: anything printable goes
    ELSE IF t.rt = "S" /\ st.ver = "gfa2" /\ cls = 1 THEN {Unmodelled(st)}   \* "*" matches the GFA2 identifier syntax
    ELSE IF cls = 2 \/ t.rt \in {"S", "P"} THEN {Fail(st, "Error")}
    ELSE IF \E j \in DOMAIN st.lines : j # i /\ old \in Mentions(st.lines[j]) THEN {Fail(st, "Error")}
    ELSE {Ok([st EXCEPT !.lines[i].name = "*"])}

\* --- explicit validation of the Gfa: references resolved; rGFA dialect rules -------
HasTag(l, n, t) == \E i \in DOMAIN l.tagn : l.tagn[i] = n /\ l.tagt[i] = t
RgfaSegOK(l) == HasTag(l, "SN", "Z") /\ HasTag(l, "SO", "i") /\ HasTag(l, "SR", "i")
RgfaLinkOK(l) == l.f[1] = "0M" /\ \A i \in DOMAIN l.tagn : l.tagn[i] \in {"SR", "L1", "L2"} => l.tagt[i] = "i"
RgfaContentBad(s) ==
  \/ s.hdr # <<>>
  \/ \E i \in DOMAIN s.lines : s.lines[i].rt \in {"C", "P"}
  \/ \E i \in DOMAIN s.lines : s.lines[i].rt = "S" /\ ~RgfaSegOK(s.lines[i])
  \/ \E i \in DOMAIN s.lines : s.lines[i].rt = "L" /\ ~RgfaLinkOK(s.lines[i])
\* result classes of gfa.validate() in document state s (the state itself is not changed)
ValidateRes(s) ==
  IF PlaceholderIds(s) # {} \/ VirtLinkKeys(s) # {} THEN {"Error"}           \* undefined references
  ELSE IF s.dialect = "rgfa" THEN
         IF s.ver # "gfa1" THEN
            \* the dialect implies GFA1 (C13); a version-neutral document (the version was only
            \* guessed at the end of the input) may be refused or taken as GFA1
            (IF \E i \in DOMAIN s.lines : LineVersion(s.lines[i]) = "gfa2" THEN {"VersionError"}
             ELSE IF \E i \in DOMAIN s.hdr : s.hdr[i].t = "VN:Z:2.0" THEN {"VersionError"}
             ELSE IF s.explicit THEN {"VersionError"}
             ELSE {"VersionError", "ok"})
         ELSE IF RgfaContentBad(s) THEN {"Error"} ELSE {"ok"}
  ELSE {"ok"}

\* --- whole-document entry points: Gfa(text | list), Gfa.from_file -------------
RECURSIVE AddAll(_, _)
AddAll(st, q) ==
  IF q = <<>> THEN {Ok(st)}
  ELSE UNION {IF o.res = "ok" THEN AddAll(o.st, Tail(q)) ELSE {o} : o \in Add(st, Head(q))}
\* all lines, then the end-of-input delivery of the queue, then (level >= 1) the
\* reference validation, which refuses a document with undefined references
Load(st, ls) ==
  LET fin == UNION {IF a.res # "ok" THEN {a} ELSE ProcessQueue(a.st) : a \in AddAll(st, ls)} IN
  IF st.vlevel = 0 THEN Commit(st, fin)
  ELSE UNION {IF f.res # "ok" THEN {[st |-> st, res |-> f.res]}
              ELSE UNION {IF r = "ok" THEN {f} ELSE {Fail(st, r), [st |-> f.st, res |-> r]} : r \in ValidateRes(f.st)}
              : f \in fin}
    \* (read_file on an existing Gfa keeps what it loaded when the final validation fails;
    \*  a failing constructor leaves no object at all)

\* --- tag edits on a connected line (the tag travels in op.l.tags / op.l.tagn) ---
WithoutTag(l, n) ==
  LET keep == SelectSeq([i \in DOMAIN l.tags |-> i], LAMBDA i : l.tagn[i] # n) IN
  [l EXCEPT !.tags = SeqMap(LAMBDA i : l.tags[i], keep), !.tagn = SeqMap(LAMBDA i : l.tagn[i], keep)]
SetTag(st, id, t) ==
  LET tgt == IdxNamed(st, id) IN
  IF tgt = {} THEN {Fail(st, "NotFoundError"), Fail(st, "Error")}
  ELSE LET i == CHOOSE i \in tgt : TRUE
           base == WithoutTag(st.lines[i], t.tagn[1]) IN
       {Ok([st EXCEPT !.lines[i] = [base EXCEPT !.tags = Append(base.tags, t.tags[1]),
                                                 !.tagn = Append(base.tagn, t.tagn[1])]])}
\* a value that the datatype of the tag cannot represent: refused at level 3 (nothing changes, not
\* even the datatype the tag would have had); stored unchecked below (the line is then invalid)
SetTagBad(st, id) ==
  IF IdxNamed(st, id) = {} THEN {Fail(st, "NotFoundError"), Fail(st, "Error")}
  ELSE IF st.vlevel >= 3 THEN {Fail(st, "Error")} ELSE {Unmodelled(st)}
DelTag(st, id, t) ==
  LET tgt == IdxNamed(st, id) IN
  IF tgt = {} THEN {Fail(st, "NotFoundError"), Fail(st, "Error")}
  ELSE LET i == CHOOSE i \in tgt : TRUE IN
       IF t.tagn[1] = "ID" /\ st.lines[i].rt \in {"L", "C"}
         THEN {Ok([st EXCEPT !.lines[i].name = "*"])}        \* the ID tag is the identifier of an L/C line
       ELSE {Ok([st EXCEPT !.lines[i] = WithoutTag(st.lines[i], t.tagn[1])])}

\* --- editing a positional field of a connected line -----------------------------
\* The documentation: the fields of a connected line which contain references to other
\* lines, and the fields from which the collections holding the back-references are
\* computed, cannot be changed; the identifier is changed by renaming (Rename above);
\* every other field can be edited and the line then reads as edited.
\*   "ref"   refused,  "name" see Rename,  "plain" accepted
FieldClass(rt, ver, pos) ==
  CASE rt = "S" -> IF pos = 1 THEN "name" ELSE "plain"
    [] rt = "L" -> "ref"                                   \* ends, orientations, overlap: all identify/file the link
    [] rt = "C" -> IF pos \in {1, 3} THEN "ref" ELSE "plain"  \* containments are filed by the segments alone
    [] rt = "E" -> IF pos = 1 THEN "name" ELSE IF pos <= 7 THEN "ref" ELSE "plain"
    [] rt = "G" -> IF pos = 1 THEN "name" ELSE IF pos <= 3 THEN "ref" ELSE "plain"
    [] rt = "F" -> IF pos = 1 THEN "ref" ELSE "plain"       \* the external sequence is not a line of the Gfa
    [] rt \in {"P", "O", "U"} -> IF pos = 1 THEN "name" ELSE "ref"
    [] OTHER -> "plain"
\* old: the line as it reads before the call, new: as it reads with the field replaced
\* (both abstracted from text by the harness); valid: the value is allowed by the datatype
SetField(st, old, new, pos, valid) ==
  LET tgt == {i \in DOMAIN st.lines : Norm(st.lines[i]) = Norm(old)} IN
  IF tgt = {} THEN {Fail(st, "NotFoundError")}
  ELSE LET i == CHOOSE i \in tgt : TRUE
           fc == FieldClass(old.rt, st.ver, pos) IN
    IF fc = "ref" THEN {Fail(st, "Error")}
    ELSE IF fc = "name" \/ Ambiguous(st) THEN {Unmodelled(st)}
    \* (the external sequence of a fragment is the key under which it is registered: a value that is
    \* no oriented identifier is refused at every level, like an invalid name in a rename)
    ELSE IF valid # "valid" /\ old.rt = "F" /\ pos = 2 THEN {Fail(st, "Error")}
    ELSE IF valid # "valid" THEN (IF st.vlevel >= 3 THEN {Fail(st, "Error")} ELSE {Unmodelled(st)})
    ELSE {Ok([st EXCEPT !.lines[i] = new])}

\* a line instance that already belongs to the Gfa is offered to add_line again: refused
AddConnected(st, l) ==
  IF \E i \in DOMAIN st.lines : Norm(st.lines[i]) = Norm(l) THEN {Fail(st, "Error")}
  ELSE {Fail(st, "NotFoundError")}

\* a clone of the line named id, renamed to new, is added: exactly as if the text of the line
\* with the other identifier had been added (the clone shares nothing with the original: later
\* edits of either leave the other as it was)
AddClone(st, id, new) ==
  LET tgt == IdxNamed(st, id) IN
  IF tgt = {} THEN {Fail(st, "NotFoundError"), Fail(st, "Error")}
  ELSE LET t == st.lines[CHOOSE i \in tgt : TRUE] IN
    IF t.rt \in {"L", "C"} THEN {Unmodelled(st)}
    ELSE Add(st, [t EXCEPT !.name = new])

Step(st, op) ==
  CASE op.k = "add" /\ op.id2 = "invalid" ->
         \* a line the grammar does not allow (decided outside this specification, C04): refused and
         \* nothing changes, whatever it mentions; at level 0 the checks are skipped
         IF st.vlevel = 0 THEN {Unmodelled(st)} ELSE {Fail(st, "Error")}
    [] op.k = "add"   -> Add(st, op.l)
    [] op.k = "addcl" -> AddClone(st, op.id, op.id2)
    \* an object that was superseded (a placeholder, an earlier line of a multi-line group) is renamed
    \* through a handle the caller kept: it does not belong to the Gfa any more, nothing changes
    \* conversion to GFA2 text: by design it gives the unnamed links and containments of the source an
    \* ID tag (C06, "edge identifiers"); which identifiers is not specified here -- the clauses that
    \* relate the observation to itself (registry, topology) go on
    \* header.add(tag, value): as a header line with that one tag; a value the datatype of the
    \* previous values cannot hold is refused at level >= 2 and nothing changes
    [] op.k = "hadd" ->
         IF op.id2 = "valid" THEN AddHeader(st, op.l)
         ELSE IF ~\E j \in DOMAIN st.hdr : st.hdr[j].n = op.l.tagn[1] THEN {Unmodelled(st)}
         ELSE IF st.vlevel >= 2 THEN {Fail(st, "Error")} ELSE {Unmodelled(st)}
    [] op.k = "tog2" -> {Unmodelled(st)}
    [] op.k = "stale" -> {Ok(st), Fail(st, "NotFoundError"), Fail(st, "Error")}
    [] op.k = "addc"  -> AddConnected(st, op.l)
    [] op.k = "setf"  -> SetField(st, op.ls[1], op.ls[2], op.n, op.id2)
    [] op.k = "settag" -> IF op.id2 = "bad" THEN SetTagBad(st, op.id) ELSE SetTag(st, op.id, op.l)
    [] op.k = "deltag" -> DelTag(st, op.id, op.l)
    [] op.k = "load"  -> Load(st, op.ls)
    [] op.k = "validate" -> {[st |-> st, res |-> r] : r \in ValidateRes(st)}
    [] op.k = "rsc" -> RemoveSmallComponents(st, op.n)
    [] op.k = "rsl" -> RemoveSelfLinks(st)
    [] op.k = "unused" -> {Ok(st)}           \* unused_name(): the document is unchanged, the answer is fresh
    [] op.k = "query" -> {Ok(st)}            \* read-only: the document is unchanged (C10)
    [] op.k = "flush" -> ProcessQueue(st)
    [] op.k = "rm"    -> Rm(st, op.id)
    [] op.k = "disc"  -> Disc(st, op.l)
    [] op.k = "ren"   -> IF op.n = 0 THEN Rename(st, op.id, op.id2) ELSE RenameSpecial(st, op.id, op.id2, op.n)
    [] OTHER -> {Fail(st, "unmodelled")}

-----------------------------------------------------------------------------
(* Design-level invariants of the document (checked by TLC in MC_Gfa) *)
UniqueIds(st) == \A i, j \in DOMAIN st.lines :
   (Named(st.lines[i]) /\ Named(st.lines[j]) /\ st.lines[i].name = st.lines[j].name) => i = j
NoDuplicateLink(st) == \A i, j \in LinkIdx(st) :
   (i # j) => ~(SameEnds(st.lines[i], st.lines[j]) /\ st.lines[i].ovs = st.lines[j].ovs)
                /\ ~(IsComplement(st.lines[i], st.lines[j]) /\ ~SameEnds(st.lines[i], st.lines[j]))
QueueOnlyUndecided(st) == st.ver # "none" => st.queue = <<>>
=============================================================================
