----------------------------- MODULE MC_Version -----------------------------
(* C13 at design level: the operational machine of Gfa.tla (decide on the first
   version-specific line, queue version-ambiguous lines, deliver the queue when
   the version becomes known or at the end of the input) agrees with the
   declarative verdict of Version.tla for EVERY order of every set of line
   kinds; and generator of those orders for the conformance runs.            *)
EXTENDS Version, Json, IOUtils, TLC

Cat  == JsonDeserialize(IOEnv.CATALOG_FILE)
Ops  == Cat.ops
MaxLines == Cat.depth
LineOf(i) == Cat.pool[Ops[i].l]
AddOp(i) == [k |-> "add", id |-> "", id2 |-> "", l |-> LineOf(i)]

VARIABLES delivered, st, res, phase
vars == <<delivered, st, res, phase>>

Init == delivered = <<>> /\ st = Init0(Cat.cfg) /\ res = "init" /\ phase = "add"

Deliver == /\ phase = "add" /\ Len(delivered) < MaxLines
           /\ \E i \in DOMAIN Ops \ Rng(delivered) :
                \E o \in Step(st, AddOp(i)) :
                   /\ st' = o.st /\ res' = o.res
                   /\ delivered' = Append(delivered, i)
                   /\ phase' = IF o.res = "ok" THEN "add" ELSE "done"
EndOfInput == /\ phase = "add" /\ delivered # <<>>
              /\ \E o \in ProcessQueue(st) : st' = o.st /\ res' = o.res
              /\ phase' = "done" /\ UNCHANGED delivered
Next == Deliver \/ EndOfInput
Spec == Init /\ [][Next]_vars

Lines == {LineOf(delivered[k]) : k \in DOMAIN delivered}
Emit == IF phase = "done" THEN PrintT(<<"H", delivered, res, st.ver>>) ELSE TRUE

\* the verdict: refused with VersionError exactly when the declarative verdict is an error
\* level 0 is documented to skip the cross-check between a VN header and the content: at that
\* level the claim is made for the documents without a VN header only
\* (a document whose header lines contradict each other in another single-definition tag, TS, is
\* refused for that reason -- not a matter of the version)
TSs(l) == {l.tags[i] : i \in {j \in DOMAIN l.tags : l.tagn[j] = "TS"}}
TSConflict == \E a, b \in DOMAIN delivered :
                \E x \in TSs(LineOf(delivered[a])), y \in TSs(LineOf(delivered[b])) : x # y
\* (nor for a line that names itself: refused whatever the version is)
SelfNamed == \E k \in DOMAIN delivered : SelfMention(LineOf(delivered[k]))
Claimed == /\ Cat.cfg.vlevel > 0 \/ \A k \in DOMAIN delivered : VNs(LineOf(delivered[k])) = {}
           /\ ~TSConflict /\ ~SelfNamed
Agrees == (phase = "done" /\ Claimed) =>
   /\ (res # "ok") = DeclError(Cat.cfg.version, Lines)
   /\ (res # "ok" => res = "VersionError")
   /\ (res = "ok" =>
         /\ st.ver = DeclVersion(Cat.cfg.version, Lines)
         /\ st.queue = <<>>
         \* every accepted non-header line is stored exactly once
         /\ BagOf(SeqMap(Norm, st.lines))
              = BagOf(SeqMap(Norm, SelectSeq(SeqMap(LAMBDA i : LineOf(i), delivered), LAMBDA l : l.rt # "H"))))
\* whole-document entry points (Gfa(text), from_file: all lines, end of input, validation):
\* when every reference is defined, the document is refused with VersionError exactly when the
\* declarative verdict -- now including the dialect -- is an error
LoadAgrees ==
  LET ls == SeqMap(LAMBDA i : LineOf(i), delivered)
      outs == Load(Init0(Cat.cfg), ls)
      clean == \A o \in outs : PlaceholderIds(o.st) = {} /\ VirtLinkKeys(o.st) = {} IN
  (delivered # <<>> /\ Cat.cfg.vlevel > 0 /\ ~TSConflict /\ ~SelfNamed) =>
     /\ DeclErrorD(Cat.cfg.version, Cat.cfg.dialect, Lines) => \A o \in outs : o.res # "ok"
     /\ (\E o \in outs : o.res = "VersionError") =>
            (DeclErrorD(Cat.cfg.version, Cat.cfg.dialect, Lines)
             \/ (Cat.cfg.dialect = "rgfa" /\ ~Has1(Lines)))      \* version-neutral document under rGFA
     /\ (clean /\ DeclErrorD(Cat.cfg.version, Cat.cfg.dialect, Lines)) => \A o \in outs : o.res = "VersionError"
\* nothing is decided by position: the verdict is the same for every order (follows
\* from Agrees because DeclError/DeclVersion take a set)
FailStutters == [][res' # "ok" => st' = st]_vars
=============================================================================
