------------------------------ MODULE TraceGfa ------------------------------
(* Trace validation: every trace recorded from the real gfapy is stepped
   through Gfa!Step; at every event the logged observation (the projected
   object graph) is compared with the functions of the document and the
   structural invariants are evaluated on the logged graph itself.

   Verdicts are total: an event never blocks the trace.  At the first event
   at which an expectation clause fails the set of ALL failing clauses is
   printed (<<"REJECT", trace id, event, clauses>>) and expectation-based
   clauses stop for that trace (the spec state no longer tracks the code);
   the structural clauses (closed / symmetric / owner / stutter-on-failure)
   keep being evaluated on every remaining event.                            *)
EXTENDS Gfa, Json, IOUtils, TLC, TLCExt

Data   == JsonDeserialize(IOEnv.TRACE_FILE)
Pool   == Data.pool
Traces == Data.traces

VARIABLES tid, l, st, ok
vars == <<tid, l, st, ok>>

Cfg(t) == Traces[t].cfg
Rec(ln) == Pool[ln.p]
NormRec(ln) == Norm(Rec(ln))

-----------------------------------------------------------------------------
(* structural clauses: need no expectation, only the logged graph *)

Idx(o) == DOMAIN o.lines
FwdTargets(o, i) == [k \in DOMAIN o.lines[i].fwd |-> o.lines[i].fwd[k][2]]
BrTargets(o, j) ==      \* flattened sequence of all back-reference entries of j
  LET RECURSIVE Flat(_)
      Flat(k) == IF k > Len(o.lines[j].br) THEN <<>> ELSE o.lines[j].br[k][2] \o Flat(k + 1)
  IN Flat(1)

Closed(o) == \A i \in Idx(o) :
     (\A k \in DOMAIN o.lines[i].fwd : o.lines[i].fwd[k][2] >= 1)
  /\ (\A k \in DOMAIN BrTargets(o, i) : BrTargets(o, i)[k] >= 1)
Owner(o) == \A i \in Idx(o) : o.lines[i].own = 1
NFwd(o, i, j) == Cardinality({k \in DOMAIN o.lines[i].fwd : o.lines[i].fwd[k][2] = j})
NBack(o, j, i) == Cardinality({k \in DOMAIN BrTargets(o, j) : BrTargets(o, j)[k] = i})
Symmetric(o) == \A i, j \in Idx(o) : NFwd(o, i, j) = NBack(o, j, i)
LookupListed(o) == \A k \in DOMAIN o.look : o.look[k][2] # -2 /\ o.look[k][3] # -2 /\ o.look[k][4] # -2

StructFails(o) ==
  (IF Closed(o) THEN {} ELSE {"C02.closed"})
  \cup (IF Owner(o) THEN {} ELSE {"C02.owner"})
  \cup (IF Closed(o) /\ ~Symmetric(o) THEN {"C02.sym"} ELSE {})
  \cup (IF LookupListed(o) THEN {} ELSE {"C02.lookup-unlisted"})

-----------------------------------------------------------------------------
(* expectation clauses: logged observation o against the document s *)

RealIdx(o) == {i \in Idx(o) : o.lines[i].virt = 0}
VirtIdx(o) == {i \in Idx(o) : o.lines[i].virt = 1}

LinesOK(s, o) ==
  BagOf(SeqMap(LAMBDA i : NormRec(o.lines[i]), SetToSeq(RealIdx(o)))) = BagOf(SeqMap(Norm, s.lines))
HdrOK(s, o) == BagOf(o.hdr) = BagOf(SeqMap(LAMBDA h : h.t, s.hdr))
VersionOK(s, o) == o.version = s.ver /\ o.qlen = Len(s.queue)

\* placeholders: virtual segments / unknown records by name, virtual links by slot
VirtNamed(o) == {i \in VirtIdx(o) : Rec(o.lines[i]).rt \in {"S", "?"}}
VirtLinks(o) == {i \in VirtIdx(o) : Rec(o.lines[i]).rt = "L"}
\* orphans: placeholder lines referenced by nothing but other orphans (left behind
\* when a line is removed while something it mentions is undefined; outside C05's claim)
RECURSIVE OrphanFix(_, _)
OrphanFix(o, X) ==
  LET Y == {i \in X : \A k \in DOMAIN BrTargets(o, i) : BrTargets(o, i)[k] \in X} IN
  IF Y = X THEN X ELSE OrphanFix(o, Y)
OrphanSet(o) == OrphanFix(o, {i \in Idx(o) : o.lines[i].virt = 1})
Orphan(o, i) == i \in OrphanSet(o)
\* functions of the document that several clauses need, computed once per event
Derive(s) == LET names == NamesOf(s)
                 vseg == AllSegMentions(s) \ names
                 unk == (AllItemMentions(s) \ names) \ vseg IN
             [names |-> names, vseg |-> vseg, unk |-> unk, ph |-> vseg \cup unk,
              vlk |-> VirtLinkKeys(s)]

VirtualOK(s, d, o) ==
  /\ \A id \in d.vseg : \E i \in VirtNamed(o) : Rec(o.lines[i]).name = id /\ Rec(o.lines[i]).rt = "S"
  /\ \A id \in d.unk : \E i \in VirtNamed(o) : Rec(o.lines[i]).name = id
  /\ \A i \in VirtNamed(o) : Rec(o.lines[i]).name \in d.ph \/ (s.orph /\ Orphan(o, i))
  /\ \A i, j \in VirtNamed(o) : Rec(o.lines[i]).name = Rec(o.lines[j]).name => i = j
  /\ \A K \in d.vlk : \E i \in VirtLinks(o) : EdgeKey(AsReq(Rec(o.lines[i]))) = K
  /\ \A i \in VirtLinks(o) : EdgeKey(AsReq(Rec(o.lines[i]))) \in d.vlk \/ (s.orph /\ Orphan(o, i))
  /\ \A i \in VirtIdx(o) : Rec(o.lines[i]).rt \in {"S", "?", "L"}
\* no placeholder for an identifier the document defines
\* orphan placeholders (outside the claim, DESIGN 3.1) may carry a name that is defined later:
\* names, lookups and the shadow clause are not judged while one is around
Orphans(s, o) == s.orph /\ OrphanSet(o) # {}
NoShadow(s, d, o) == Orphans(s, o) \/ \A i \in VirtNamed(o) : Rec(o.lines[i]).name \notin d.names

\* back-reference collections of every identified line and placeholder (C11 keys)
LoggedFilings(o, j) ==
  LET RECURSIVE F(_)
      F(k) == IF k > Len(o.lines[j].br) THEN <<>>
              ELSE SeqMap(LAMBDA t : <<o.lines[j].br[k][1], IF t >= 1 THEN NormRec(o.lines[t]) ELSE [rt |-> "!gone"]>>,
                          o.lines[j].br[k][2]) \o F(k + 1)
  IN BagOf(F(1))
\* virtual lines are not part of the document: drop their filings before comparing
LoggedFilingsReal(o, j) ==
  LET RECURSIVE F(_)
      F(k) == IF k > Len(o.lines[j].br) THEN <<>>
              ELSE SeqMap(LAMBDA t : <<o.lines[j].br[k][1], NormRec(o.lines[t])>>,
                          SelectSeq(o.lines[j].br[k][2], LAMBDA t : t >= 1 /\ o.lines[t].virt = 0)) \o F(k + 1)
  IN BagOf(F(1))
ExpectedFilings(s, r) ==
  IF r.rt = "L" THEN BagOf(SeqMap(LAMBDA p : <<"paths", p>>, PathUses(s, r, 1)))
  ELSE IF r.name = "*" THEN BagOf(<<>>)
  ELSE Filings(s, r.name)
KeysOK(s, o) == \A j \in Idx(o) :
  LET r == Rec(o.lines[j]) IN
  \* (the `paths` collection of a link is tied to the paths by Symmetric + FlagsOK:
  \*  with parallel links the path may be bound to any serving one)
  (r.rt \in {"S", "?", "E", "G", "O", "U", "P", "C", "F"}) =>
     LoggedFilingsReal(o, j) = (IF r.rt \in {"P", "C", "F"} THEN BagOf(<<>>) ELSE ExpectedFilings(s, r))

\* path link flags (C12): the link a path points to serves the requirement in
\* the direction the flag says
PathLinkTargets(o, i) == SelectSeq(o.lines[i].fwd, LAMBDA e : e[1] = "links")
FlagsOK(s, o) == \A i \in Idx(o) :
  LET r == Rec(o.lines[i]) IN
  (r.rt = "P" /\ o.lines[i].virt = 0) =>
    LET req == Required(r)
        tg == PathLinkTargets(o, i) IN
    /\ Len(tg) = Len(req) /\ Len(o.lines[i].lf) = Len(req)
    /\ \A k \in DOMAIN req :
         tg[k][2] >= 1 =>
           LET lk == Rec(o.lines[tg[k][2]]) IN
           /\ lk.rt = "L"
           /\ IF o.lines[i].lf[k] = "+" THEN Direct(lk, req[k]) ELSE Compl(lk, req[k])

\* neighbourhood answers (C11): follow from the collections; compared when no
\* placeholder link is around (a placeholder link is a dovetail of its segments too)
NbrsOK(s, d, o) == (d.vlk = {} /\ VirtLinks(o) = {}) =>
  \A i \in Idx(o) :
    LET r == Rec(o.lines[i]) IN
    (r.rt = "S" /\ r.name \in d.names \cup d.ph) =>
       /\ BagOf(o.lines[i].nb[1]) = OthersVia(s, r.name, "dovetails_L")
       /\ BagOf(o.lines[i].nb[2]) = OthersVia(s, r.name, "dovetails_R")
       /\ BagOf(o.lines[i].nb[3]) = OthersVia(s, r.name, "edges_to_containers")
       /\ BagOf(o.lines[i].nb[4]) = OthersVia(s, r.name, "edges_to_contained")
       /\ BagOf(o.lines[i].nb[5]) = OthersVia2(s, r.name, "dovetails_L", "dovetails_R")
TypesOK(s, o) == \A i \in RealIdx(o) :
    LET r == Rec(o.lines[i]) IN
    (r.rt \in {"L", "C", "E"}) =>
       /\ o.lines[i].et = EdgeType(r)
       /\ (EdgeType(r) = "L" =>
             LET e == o.lines[i].ends IN
             /\ Len(e) = 4
             /\ {<<e[1][1], e[1][2]>>, <<e[2][1], e[2][2]>>} = EndsOf(r)
             /\ (Cardinality(EndsOf(r)) = 2 => <<e[1][1], e[1][2]>> # <<e[2][1], e[2][2]>>)
             /\ e[3] = e[2] /\ e[4] = e[1])

\* external sequences: names and the fragments filed under each
ExternalsOK(s, o) ==
  /\ {o.ext[k][1] : k \in DOMAIN o.ext} = ExternalNames(s)
  /\ \A k \in DOMAIN o.ext :
        /\ \A j \in DOMAIN o.ext[k][2] : o.ext[k][2][j] >= 1
        /\ BagOf(SeqMap(LAMBDA i : NormRec(o.lines[i]), o.ext[k][2])) = FragmentsOf(s, o.ext[k][1])

\* identifiers and lookup (C09)
LoggedVirtNames(o) == {Rec(o.lines[i]).name : i \in {j \in VirtIdx(o) : Rec(o.lines[j]).rt = "S"}}
NamesOK(s, d, o) ==
  LET lv == LoggedVirtNames(o)
      real == SelectSeq(o.names, LAMBDA n : n \notin lv) IN
  \/ Orphans(s, o)
  \/ (/\ Rng(real) = d.names
      /\ \A n \in d.names : Cardinality({k \in DOMAIN real : real[k] = n}) = 1)
LookupOK(s, d, o) == Orphans(s, o) \/ \A k \in DOMAIN o.look :
  LET e == o.look[k]
      id == e[1]
      tg == IdxNamed(s, id) IN
  IF tg # {} THEN
     LET r == s.lines[CHOOSE i \in tg : TRUE] IN
     /\ e[2] >= 1 /\ NormRec(o.lines[e[2]]) = Norm(r) /\ o.lines[e[2]].virt = 0
     /\ e[4] = e[2]
     /\ (IF r.rt = "S" THEN e[3] = e[2] ELSE e[3] = 0)
  ELSE IF id \in d.ph THEN
     /\ e[2] >= 1 /\ o.lines[e[2]].virt = 1 /\ Rec(o.lines[e[2]]).name = id
     /\ e[4] = e[2]
  ELSE \/ e[2] = 0 /\ e[3] = 0 /\ e[4] = -10
       \/ s.orph /\ e[2] >= 1 /\ Orphan(o, e[2]) /\ e[4] = e[2]

\* components and counters (C16); compared only when no placeholder is around
TopoOK(s, d, o) ==
  (d.ph = {} /\ VirtIdx(o) = {}) =>
    /\ {Rng(o.cc[k]) : k \in DOMAIN o.cc} = Components(s)
    /\ Len(o.cc) = Cardinality(Components(s))
CountsOK(s, d, o) ==
  (d.ph = {} /\ VirtIdx(o) = {}) =>
    /\ o.nd = NDovetails(s) /\ o.nc = NContainments(s) /\ o.ni = NInternals(s)
    /\ o.nde = NDeadEnds(s)

\* the same two clauses against the document the observation itself shows (its real lines as
\* written): independent of the history, so they can be evaluated after the specification state
\* has been lost (C16: the answers are functions of the current document)
ObsSt(o) == [Init0(Cfg(tid)) EXCEPT !.lines = SeqMap(LAMBDA i : Rec(o.lines[i]), SetToSeq(RealIdx(o))),
                                   !.ver = IF o.version \in {"gfa1", "gfa2"} THEN o.version ELSE "none"]
\* the registry against the lines the observation itself shows (C09): an identified line is listed
\* under its identifier and looking the identifier up returns that line
SelfRegistry(o) ==
  LET named == {i \in RealIdx(o) : Named(Rec(o.lines[i]))} IN
  (IF \A i \in named : Rec(o.lines[i]).name \in Rng(o.names) THEN {} ELSE {"names"})
  \cup (IF ~LookupListed(o) \/ \A k \in DOMAIN o.look :
             LET e == o.look[k] IN
             (\E i \in named : Rec(o.lines[i]).name = e[1]) =>
                (e[2] >= 1 /\ o.lines[e[2]].virt = 0 /\ Rec(o.lines[e[2]]).name = e[1])
        THEN {} ELSE {"lookup"})
SelfFails(o) ==
  LET s == ObsSt(o) IN
  SelfRegistry(o) \cup
  IF VirtIdx(o) # {} \/ PlaceholderIds(s) # {} \/ VirtLinkKeys(s) # {} \/ Ambiguous(s) THEN {}
  ELSE (IF /\ {Rng(o.cc[k]) : k \in DOMAIN o.cc} = Components(s)
           /\ Len(o.cc) = Cardinality(Components(s)) THEN {} ELSE {"components"})
       \cup (IF /\ o.nd = NDovetails(s) /\ o.nc = NContainments(s) /\ o.ni = NInternals(s)
                /\ o.nde = NDeadEnds(s) THEN {} ELSE {"counts"})

\* unused_name() must return an identifier nobody carries (C09)
FreshOK(s, e) == e.op.k = "unused" => (e.op.id2 \notin NamesOf(s) \cup PlaceholderIds(s))

ExpFails(s, o) ==
  LET d == Derive(s) IN
  (IF VersionOK(s, o) THEN {} ELSE {"version"})
  \cup (IF LinesOK(s, o) THEN {} ELSE {"lines"})
  \cup (IF HdrOK(s, o) THEN {} ELSE {"hdr"})
  \cup (IF VirtualOK(s, d, o) THEN {} ELSE {"virtual"})
  \cup (IF NoShadow(s, d, o) THEN {} ELSE {"shadow"})
  \* (unlisted targets are skipped inside the two operators, so they are evaluated on an
  \* observation that is not closed as well: a line that should be gone is still a wrong filing)
  \cup (IF ~KeysOK(s, o) THEN {"keys"} ELSE {})
  \cup (IF ~FlagsOK(s, o) THEN {"flags"} ELSE {})
  \cup (IF NbrsOK(s, d, o) THEN {} ELSE {"nbrs"})
  \cup (IF TypesOK(s, o) THEN {} ELSE {"etype"})
  \cup (IF ExternalsOK(s, o) THEN {} ELSE {"externals"})
  \cup (IF NamesOK(s, d, o) THEN {} ELSE {"names"})
  \cup (IF LookupListed(o) /\ ~LookupOK(s, d, o) THEN {"lookup"} ELSE {})
  \cup (IF TopoOK(s, d, o) THEN {} ELSE {"components"})
  \cup (IF CountsOK(s, d, o) THEN {} ELSE {"counts"})

-----------------------------------------------------------------------------
(* result classes *)
ErrClasses == {"Error", "NotUniqueError", "VersionError", "NotFoundError"}
ResMatches(spec, logged) ==
  \/ spec = logged
  \/ spec = "Error" /\ logged \in ErrClasses

OpOf(e) == [k |-> e.op.k, id |-> e.op.id, id2 |-> e.op.id2,
            l |-> IF e.op.l >= 1 THEN Pool[e.op.l] ELSE [rt |-> "none"],
            n |-> IF e.op.k \in {"rsc", "setf", "ren"} THEN e.op.n ELSE 0,
            ls |-> IF e.op.k \in {"load", "setf"} THEN [i \in DOMAIN e.op.ls |-> Pool[e.op.ls[i]]] ELSE <<>>]

ResFails(outs, e) ==
  IF e.res = "FOREIGN" THEN {"foreign"}
  ELSE IF \E o \in outs : o.res = "unmodelled" THEN {}
  ELSE IF \E o \in outs : ResMatches(o.res, e.res) THEN {}
  ELSE IF \E o \in outs : o.res = "NotUniqueError" THEN {"res.notunique"}
  ELSE IF e.res = "VersionError" \/ \E o \in outs : o.res = "VersionError" THEN {"res.version"}
  ELSE IF e.res = "ok" THEN {"res.accepted"}
  ELSE {"res.refused"}

-----------------------------------------------------------------------------
Init == /\ tid \in 1..Len(Traces)
        /\ l = 1
        /\ st = Init0(Cfg(tid))
        /\ ok = TRUE

PrevDig(t, k) == IF k = 1 THEN Traces[t].init.dig ELSE Traces[t].ev[k - 1].obs.dig
PrevDigR(t, k) == IF k = 1 THEN Traces[t].init.digr ELSE Traces[t].ev[k - 1].obs.digr

Next ==
  /\ l <= Len(Traces[tid].ev)
  /\ l' = l + 1
  /\ UNCHANGED tid
  /\ LET e == Traces[tid].ev[l]
         o == e.obs
         sf == StructFails(o)
         \* while orphan placeholders exist (outside the claim) a refused call is compared on the
         \* part of the observation that does not involve placeholders
         \* (the same once the specification state has been lost: orphans cannot be excluded then)
         changed == IF ok /\ ~st.orph THEN o.dig # PrevDig(tid, l) ELSE o.digr # PrevDigR(tid, l)
         \* (a conversion that fails half way has named some edges of the source: by design, C06)
         stutter == (IF e.res # "ok" /\ e.op.k \notin {"load", "tog2"} /\ changed THEN {"stutter"} ELSE {})
                    \* C10: a read-only call leaves the whole observation unchanged and
                    \* answers the same when repeated (and as it did earlier in this state)
                    \cup (IF e.op.k = "query" /\ o.dig # PrevDig(tid, l) THEN {"query-changed"} ELSE {})
                    \cup (IF e.op.k = "query" /\ e.qsame = 0 THEN {"query-unrepeatable"} ELSE {})
                    \* (not while orphan placeholders exist -- outside the claim --, nor after the
                    \* specification state was lost: a refused call may sweep orphans)
                    \cup (IF e.qsame = 2 /\ ok /\ ~st.orph THEN {"stutter.query"} ELSE {})
     IN
     IF ~ok THEN
        /\ LET late == sf \cup stutter \cup SelfFails(o) IN
             IF late = {} THEN TRUE ELSE PrintT(<<"REJECT", Traces[tid].id, l, late, "late">>)
        /\ UNCHANGED <<st, ok>>
     ELSE
       LET outs == Step(st, OpOf(e))
           rf == ResFails(outs, e)
           unm == \E x \in outs : x.res = "unmodelled"
           cands == {x \in outs : ResMatches(x.res, e.res)}
           good == {x \in cands : ExpFails(x.st, o) = {} /\ FreshOK(x.st, e)}
       IN
       IF unm /\ good = {} THEN
          \* the specification leaves this call open and no specified outcome explains the
          \* observation: the expectation clauses stop here (reported for the coverage account)
          /\ (IF sf \cup stutter = {} THEN TRUE ELSE PrintT(<<"REJECT", Traces[tid].id, l, sf \cup stutter, "first">>))
          /\ PrintT(<<"UNM", Traces[tid].id, l, Len(Traces[tid].ev) - l>>)
          /\ ok' = FALSE /\ UNCHANGED st
       ELSE IF ~unm /\ (rf # {} \/ cands = {}) THEN
          /\ PrintT(<<"REJECT", Traces[tid].id, l, rf \cup sf \cup stutter, "first">>)
          /\ ok' = FALSE /\ UNCHANGED st
       ELSE IF good # {} THEN
          /\ (IF sf \cup stutter = {} THEN TRUE ELSE PrintT(<<"REJECT", Traces[tid].id, l, sf \cup stutter, "first">>))
          /\ st' = (CHOOSE x \in good : TRUE).st
          /\ UNCHANGED ok
       ELSE
          /\ PrintT(<<"REJECT", Traces[tid].id, l,
                      ExpFails((CHOOSE x \in cands : TRUE).st, o) \cup sf \cup stutter
                        \cup (IF FreshOK((CHOOSE x \in cands : TRUE).st, e) THEN {} ELSE {"fresh"}), "first">>)
          \* the call is rejected; the specification goes on from the state it prescribes for this
          \* result, so that the rest of the history is still compared with what should be there
          /\ st' = (CHOOSE x \in cands : TRUE).st /\ UNCHANGED ok

Spec == Init /\ [][Next]_vars
=============================================================================
