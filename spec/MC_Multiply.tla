---------------------------- MODULE MC_Multiply ----------------------------
(* Enumeration of small graphs for C15 (spec -> code) and check that the
   relational post-condition of Multiply.tla is satisfiable and discriminating
   on every one of them.

   State = (profile, selection of dovetails, containment option).  Dovetail
   catalogue as in MC_LinearPaths: every unordered pair of segment ends
   (hairpins, self-links included) plus two parallel twins.  Profiles:
     1  names A B C D, sequences, count tags RC/KC/FC with remainders under
        division by 2 and 3, an ordinary tag, anonymous edges, overlaps 1M (twins 2M)
     2  names A*2 B A*3 D (copy naming must step over used *n names), segment 2
        without sequence, overlaps `*` and 1M mixed, other count values
     3  as 1 but every edge carries an identifier (GFA1 ID tag, GFA2 edge name);
        only graphs with at most one dovetail
     4  "fan": as 1, but every dovetail lies on an end of segment A (hairpins and
        self-links of A included) and each may come with a parallel twin of another
        overlap (2M) and/or an IDENTICAL twin (same overlap, counts and tags: a
        repeated anonymous E line, GFA2 only); one dovetail more than MaxLinks, no
        containments.  These are the neighbourhoods in which an end carries
        parallel links and more links than the factor (link distribution).
     5  "placeholders": as 1 with at most two dovetails, GFA1 read at validation
        level 0, with P lines over consecutive segments that no L line joins (gfapy
        keeps a VIRTUAL link for such a step: a placeholder, not a link of the graph)
        and / or without the S line of segment C (a virtual segment).  The
        containment option selects the paths (PathCat) instead of containments.
     6  as 5 with the names A, A*3, A*2 and never an S line for the third segment:
        a segment that is only mentioned (placeholder) is named like an automatic
        copy name of the first one ("fresh" = not in use by anything, placeholders
        included)
   Containment options: none; A contains B; C contains B (reversed) and A
   contains C; two parallel containments of B in A, and A contains itself
   (reversed; written in GFA1 only).
   The argument catalogue (printed once as ARGS) is
     segment x {-1, 0, 1} x off x automatic names
     segment x {2, 3} x {off, auto, equal, L, R} x {automatic, given names}.   *)
EXTENDS Multiply, TLC

CONSTANTS NSeg, MaxLinks, LawLinks

VARIABLES prof, sel, cont
vars == <<prof, sel, cont>>

Profiles == {1, 2, 3, 4, 5, 6}
ContOptionsOf(p) == IF p = 4 THEN {0} ELSE IF p = 5 THEN 0..5 ELSE IF p = 6 THEN {4, 5} ELSE 0..3
MaxLinksOf(p) == IF p = 4 THEN MaxLinks + 1 ELSE IF p \in {5, 6} THEN 2 ELSE MaxLinks
LetterNames == <<"A", "B", "C", "D">>
StarNames   == <<"A*2", "B", "A*3", "D">>
CandNames   == <<"A", "A*3", "A*2", "D">>
SeqCat == << <<"A", "A", "C", "G", "T">>, <<"C", "C", "G">>, <<"G", "T", "T", "A">>, <<"T", "C", "A">> >>

NameOf(p, i) == IF p = 2 THEN StarNames[i] ELSE IF p = 6 THEN CandNames[i] ELSE LetterNames[i]
SegCnt(p, i) == IF p = 2 THEN (CASE i = 1 -> <<7, -1, -1>> [] i = 2 -> <<-1, -1, 1>> [] OTHER -> <<-1, 8, -1>>)
                ELSE (CASE i = 1 -> <<10, -1, 7>> [] i = 2 -> <<-1, 9, -1>> [] i = 3 -> <<-1, -1, -1>> [] OTHER -> <<3, -1, -1>>)
\* ordinary tags of every datatype (the copies carry "identical ... tags": name, datatype and
\* value): Z (also one that reads like a number), A, i, f (also with an integral value), H,
\* B of several subtypes, J arrays of integers / of floats / mixed / nested / empty
SegTags(p, i) == CASE i = 1 -> <<"xx:Z:t", "ja:J:[1, 2, 3]", "je:J:[]", "aa:A:c", "ff:f:3", "hh:H:1AFF">>
                   [] i = 2 -> <<"bc:B:c,-1,2", "bS:B:S,300,2", "bf:B:f,1.5,2", "zz:Z:12", "jf:J:[1.5, 2.5]">>
                   [] i = 3 -> <<"jm:J:[1, 2.5]", "bI:B:I,70000", "ii:i:-5", "fz:f:1.5", "jn:J:[[1], 2]">>
                   [] OTHER -> <<>>
EdgeTags(n) == CASE n % 4 = 0 -> <<"yy:i:1", "ja:J:[1, 2, 3]">>
                 [] n % 4 = 1 -> <<"je:J:[]", "bC:B:C,1,2">>
                 [] n % 4 = 2 -> <<"jf:J:[1.5, 2.5]", "ff:f:3", "aa:A:c">>
                 [] OTHER -> <<"hh:H:1AFF", "zz:Z:12">>
SegRec(p, i) == [name |-> NameOf(p, i), seq |-> IF p = 2 /\ i = 2 THEN <<>> ELSE SeqCat[i],
                 len |-> Len(SeqCat[i]), ln |-> IF i = 3 THEN 1 ELSE 0,
                 cnt |-> SegCnt(p, i), otags |-> SegTags(p, i)]

NE == 2 * NSeg
EndAt(p, k) == <<NameOf(p, (k + 1) \div 2), IF k % 2 = 1 THEN "L" ELSE "R">>
RECURSIVE PairsFrom(_, _)
PairsFrom(i, j) == IF i > NE THEN <<>>
                   ELSE IF j > NE THEN PairsFrom(i + 1, i + 1)
                   ELSE <<[a |-> i, b |-> j, twin |-> 0]>> \o PairsFrom(i, j + 1)
Plain == PairsFrom(1, 1)
Twins == <<[a |-> 2, b |-> 3, twin |-> 1], [a |-> 1, b |-> 2, twin |-> 1]>>
\* the fan (profile 4): the pairs with an end of segment 1, each followed by its twin of another
\* overlap (twin = 1) and its identical twin (twin = 2)
FanPlain == SelectSeq(Plain, LAMBDA r : r.a <= 2)
WithTwin(S, t) == [r \in DOMAIN S |-> [a |-> S[r].a, b |-> S[r].b, twin |-> t]]
FanCat == FanPlain \o WithTwin(FanPlain, 1) \o WithTwin(FanPlain, 2)
CatOf(p) == IF p = 4 THEN FanCat ELSE Plain \o Twins
\* the plain entry a twin belongs to (a plain entry is its own original)
OrigOf(p, q) == LET C == CatOf(p) IN
  CHOOSE r \in DOMAIN C : C[r].twin = 0 /\ C[r].a = C[q].a /\ C[r].b = C[q].b
\* an identical twin has the content of its original
Src(p, q) == IF CatOf(p)[q].twin = 2 THEN OrigOf(p, q) ELSE q

OvOf(p, q) == IF CatOf(p)[q].twin = 1 THEN 2
              ELSE IF p = 2 /\ Src(p, q) % 3 = 0 THEN -1 ELSE 1
LinkCnt(p, q) == CASE Src(p, q) % 3 = 0 -> <<-1, -1, -1>>
                   [] Src(p, q) % 3 = 1 -> <<11, -1, -1>>
                   [] OTHER -> <<-1, 5, 8>>
\* k-th selected dovetail (the identifier depends on the position in the selection)
LinkRec(p, s, k) ==
  LET q == s[k]
      C == CatOf(p) IN
  [e1 |-> EndAt(p, C[q].a), e2 |-> EndAt(p, C[q].b), ov |-> OvOf(p, q),
   cnt |-> LinkCnt(p, q), otags |-> IF Src(p, q) % 5 = 4 THEN <<>> ELSE EdgeTags(Src(p, q)),
   eid |-> IF p = 3 THEN "l" \o ToString(k) ELSE "*", twin |-> C[q].twin]

\* containments: [container, its orientation, contained, its orientation, position, overlap]
ContCat(p) ==
  LET N(i) == NameOf(p, i) IN
  << <<>>,
     <<[n1 |-> N(1), o1 |-> "+", n2 |-> N(2), o2 |-> "+", pos |-> 1, ov |-> 3, cnt |-> <<-1, 4, -1>>]>>,
     <<[n1 |-> N(3), o1 |-> "+", n2 |-> N(2), o2 |-> "-", pos |-> 0, ov |-> -1, cnt |-> <<-1, -1, -1>>],
       [n1 |-> N(1), o1 |-> "-", n2 |-> N(3), o2 |-> "+", pos |-> 1, ov |-> 4, cnt |-> <<9, -1, -1>>]>>,
     <<[n1 |-> N(1), o1 |-> "+", n2 |-> N(2), o2 |-> "+", pos |-> 1, ov |-> 3, cnt |-> <<-1, 4, -1>>],
       [n1 |-> N(1), o1 |-> "+", n2 |-> N(2), o2 |-> "-", pos |-> 2, ov |-> -1, cnt |-> <<5, -1, -1>>],
       [n1 |-> N(1), o1 |-> "+", n2 |-> N(1), o2 |-> "-", pos |-> 0, ov |-> 2, cnt |-> <<-1, -1, 7>>]>> >>
ContRecs(p, c) == LET r == IF p \in {5, 6} THEN <<>> ELSE ContCat(p)[c + 1] IN
   [k \in DOMAIN r |-> [n1 |-> r[k].n1, o1 |-> r[k].o1, n2 |-> r[k].n2, o2 |-> r[k].o2,
                        pos |-> r[k].pos, ov |-> r[k].ov, cnt |-> r[k].cnt, otags |-> EdgeTags(c + k),
                        eid |-> IF p = 3 THEN "c" \o ToString(k) ELSE "*",
                        v1only |-> IF r[k].n1 = r[k].n2 THEN 1 ELSE 0]]

\* profile 5: the P lines (name, oriented segments, overlaps) and whether segment C has an S line
PathCat(p) ==
  LET A == NameOf(p, 1)  B == NameOf(p, 2)  C == NameOf(p, 3) IN
  << [paths |-> << <<"p1", <<A \o "+", B \o "+", C \o "+">>, <<"*">> >> >>, sc |-> 1],
     [paths |-> << <<"p1", <<A \o "+", B \o "+", C \o "+">>, <<"1M", "1M">> >> >>, sc |-> 1],
     [paths |-> << <<"p1", <<B \o "-", A \o "-">>, <<"1M">> >>, <<"p2", <<A \o "+", C \o "-">>, <<"*">> >> >>, sc |-> 1],
     [paths |-> << <<"p1", <<A \o "+", A \o "+">>, <<"*">> >>,
                   <<"p2", <<C \o "+", A \o "+", B \o "-">>, <<"1M", "1M">> >> >>, sc |-> 1],
     [paths |-> <<>>, sc |-> 0],
     [paths |-> << <<"p1", <<A \o "+", B \o "+", C \o "+">>, <<"*">> >> >>, sc |-> 0] >>
PathsOf(p, c) == IF p \in {5, 6} THEN PathCat(p)[c + 1].paths ELSE <<>>
\* the segments with an S line
SegIdxOf(p, c) == IF p \in {5, 6} /\ PathCat(p)[c + 1].sc = 0 THEN 1..2 ELSE 1..NSeg

Init == prof \in Profiles /\ sel = <<>> /\ cont \in ContOptionsOf(prof)
Next == /\ Len(sel) < MaxLinksOf(prof)
        /\ prof = 3 => Len(sel) < 1        \* identified edges: graphs with at most one dovetail
        /\ \E q \in DOMAIN CatOf(prof) :
             /\ (IF sel = <<>> THEN TRUE ELSE q > sel[Len(sel)])
             /\ CatOf(prof)[q].twin >= 1 => \E k \in DOMAIN sel : sel[k] = OrigOf(prof, q)
             /\ sel' = Append(sel, q)
        /\ UNCHANGED <<prof, cont>>
Spec == Init /\ [][Next]_vars

\* GFA2 internal overlaps (E lines that are neither dovetails nor containments: both intervals
\* inside their segments, lengths 5, 3, 4), field by field, with count tags: on the first
\* segment (one of them with itself), and one between the others.  The harness adds them to
\* a seeded half of the GFA2 texts in which all three segments are defined.
Internals(p) ==
  LET A == NameOf(p, 1)  B == NameOf(p, 2)  C == NameOf(p, 3) IN
  << <<"E", "*", A \o "+", B \o "+", "1", "3", "1", "2", "2M", "RC:i:20", "KC:i:9", "ja:J:[1, 2, 3]">>,
     <<"E", "i2", A \o "-", C \o "+", "2", "4", "1", "3", "*", "FC:i:14">>,
     <<"E", "*", A \o "+", A \o "-", "1", "2", "2", "4", "1M", "RC:i:7">>,
     <<"E", "*", C \o "-", B \o "+", "1", "3", "1", "2", "*", "RC:i:10", "FC:i:3">> >>

-----------------------------------------------------------------------------
(* text of the tags, for the harness *)
CntTags(c) == (IF c[1] >= 0 THEN <<"RC:i:" \o ToString(c[1])>> ELSE <<>>)
              \o (IF c[2] >= 0 THEN <<"FC:i:" \o ToString(c[2])>> ELSE <<>>)
              \o (IF c[3] >= 0 THEN <<"KC:i:" \o ToString(c[3])>> ELSE <<>>)

Emit == PrintT(<<"CASE", prof,
   [i \in 1..NSeg |-> LET r == SegRec(prof, i) IN <<r.name, r.seq, r.len, r.ln, CntTags(r.cnt) \o r.otags>>],
   [k \in DOMAIN sel |-> LET r == LinkRec(prof, sel, k) IN
        <<r.e1[1], r.e1[2], r.e2[1], r.e2[2], r.ov, CntTags(r.cnt) \o r.otags, r.eid, r.twin>>],
   [k \in DOMAIN ContRecs(prof, cont) |-> LET r == ContRecs(prof, cont)[k] IN
        <<r.n1, r.o1, r.n2, r.o2, r.pos, r.ov, CntTags(r.cnt) \o r.otags, r.eid, r.v1only>>],
   PathsOf(prof, cont), SetToSeq(SegIdxOf(prof, cont)), cont, Internals(prof)>>)

Policies == {"off", "auto", "equal", "L", "R"}
Given == <<"cp1", "cp2", "cp3">>
ArgSet == {<<i, k, "off", "auto">> : i \in 1..NSeg, k \in {-1, 0, 1}}
          \cup {<<i, k, pol, nm>> : i \in 1..NSeg, k \in {2, 3}, pol \in Policies, nm \in {"auto", "given"}}
ASSUME PrintT(<<"ARGS", SetToSeq(ArgSet), Given>>)

-----------------------------------------------------------------------------
(* the graph as GFA1 lines in the record shape of Multiply.tla *)
Cig(k) == IF k < 0 THEN <<>> ELSE <<[n |-> k, c |-> "M"]>>
SLine(r) == [rt |-> "S", name |-> r.name, refs |-> <<>>, f |-> <<r.seq>>, num |-> <<>>, ovs |-> <<>>,
             cnt |-> r.cnt, otags |-> r.otags]
LLine(r) == [rt |-> "L", name |-> r.eid,
             refs |-> <<[id |-> r.e1[1], o |-> IF r.e1[2] = "R" THEN "+" ELSE "-"],
                        [id |-> r.e2[1], o |-> IF r.e2[2] = "L" THEN "+" ELSE "-"]>>,
             f |-> <<r.ov>>, num |-> <<>>, ovs |-> <<Cig(r.ov)>>, cnt |-> r.cnt, otags |-> r.otags]
CLine(r) == [rt |-> "C", name |-> r.eid,
             refs |-> <<[id |-> r.n1, o |-> r.o1], [id |-> r.n2, o |-> r.o2]>>,
             f |-> <<r.pos, r.ov>>, num |-> <<>>, ovs |-> <<Cig(r.ov)>>, cnt |-> r.cnt, otags |-> r.otags]
LinesOf(p, s, c) ==
  [i \in SegIdxOf(p, c) |-> SLine(SegRec(p, i))]
  \o [k \in DOMAIN s |-> LLine(LinkRec(p, s, k))]
  \o [k \in DOMAIN ContRecs(p, c) |-> CLine(ContRecs(p, c)[k])]

-----------------------------------------------------------------------------
(* a reference multiplication: one of the outcomes the post-condition must accept *)
DivLine(l, k) == [l EXCEPT !.cnt = DivCnt(l.cnt, k)]
AnonLine(l) == [l EXCEPT !.name = "*"]
\* i-th dovetail of end d goes to member number (i mod k) of the group
RECURSIVE RankIn(_, _, _)
RankIn(seq, x, i) == IF seq[i] = x THEN i ELSE RankIn(seq, x, i + 1)

RefMultiply(pre, args, d) ==
  LET s == args.seg
      k == args.k
      copies == IF args.names # <<>> THEN args.names ELSE [j \in 1..(k - 1) |-> s \o "#" \o ToString(j + 1)]
      members == <<s>> \o copies
      E == SetToSeq(EdgeIdxOf(pre, {s}))
      shared == SelectSeq(E, LAMBDA i : d # "none" /\ d \in DoveEndsOn(pre[i], s) /\ ~IsSelfEdge(pre[i], s))
      Keeps(i, m) == IF \E r \in DOMAIN shared : shared[r] = i
                     THEN (RankIn(shared, i, 1) - 1) % k = m - 1 ELSE TRUE
      base == [i \in DOMAIN pre |-> IF MentionsId(pre[i], s) /\ (IsSegLine(pre[i]) \/ IsEdgeLine(pre[i]))
                                      THEN DivLine(pre[i], k) ELSE pre[i]]
      kept == SelectSeq([i \in DOMAIN pre |-> [i |-> i, l |-> base[i]]],
                        LAMBDA e : ~(IsEdgeLine(e.l) /\ MentionsId(e.l, s)) \/ Keeps(e.i, 1))
      RECURSIVE CopiesFor(_)
      CopiesFor(m) ==
        IF m > k THEN <<>>
        ELSE <<[DivLine(SegLineOf(pre, s), k) EXCEPT !.name = members[m]]>>
             \o SeqMap(LAMBDA i : AnonLine(SubstId(DivLine(pre[i], k), s, members[m])),
                       SelectSeq(E, LAMBDA i : Keeps(i, m)))
             \o CopiesFor(m + 1) IN
  SeqMap(LAMBDA e : e.l, kept) \o CopiesFor(2)

ArgRec(p, a) == [seg |-> NameOf(p, a[1]), k |-> a[2], policy |-> a[3],
                 names |-> IF a[4] = "given" /\ a[2] >= 2 THEN SubSeq(Given, 1, a[2] - 1) ELSE <<>>]

\* The laws are evaluated on the states with at most LawLinks dovetails, for the
\* arguments that multiply segment 1 (every neighbourhood of a segment occurs as the
\* neighbourhood of segment 1 in some enumerated graph).
LawArgs == {a \in ArgSet : a[1] = 1}
\* (a fan: one dovetail more, so that an end with a parallel pair and more links than the factor
\*  is covered; placeholders: the real lines do not depend on the paths)
LawState == /\ Len(sel) <= (IF prof = 4 THEN LawLinks + 1 ELSE LawLinks)
            /\ prof = 5 => cont \in {0, 4}
            /\ prof = 6 => cont = 4
\* the post-condition accepts the reference outcome, for every end it may distribute
Satisfiable ==
  LawState =>
  LET pre == LinesOf(prof, sel, cont) IN
  \A a \in LawArgs :
    LET args == ArgRec(prof, a) IN
    IF args.k >= 2 THEN
       \A d \in EndsAllowed(args.policy) :
          LET post == RefMultiply(pre, args, d) IN
          /\ MultiplyFails(pre, post, args) = {}
          /\ (args.policy = "off" /\ args.names = <<>>) => MultiplyPost(pre, post, args, "ok")
    ELSE IF args.k = 1 THEN MultiplyPost(pre, pre, args, "ok")
    ELSE IF args.k = 0 THEN MultiplyPost(pre, SelectSeq(pre, LAMBDA l : ~MentionsId(l, args.seg)), args, "ok")
    ELSE MultiplyPost(pre, pre, args, "Error") /\ ~MultiplyPost(pre, pre, args, "ok")

\* ... and rejects single-point corruptions of it, under the expected clause
Mut(post, j, l) == [post EXCEPT ![j] = l]
Discriminating ==
  LawState =>
  LET pre == LinesOf(prof, sel, cont) IN
  \A a \in {b \in LawArgs : (b[2] = 2 /\ b[3] = "off") \/ (b[2] = 3 /\ b[3] = "L" /\ b[4] = "given")} :
    LET args == ArgRec(prof, a)
        s == args.seg
        d == IF args.policy = "L" THEN "L" ELSE "none"
        post == RefMultiply(pre, args, d)
        N == Group(pre, post, s)
        copyEdges == {j \in DOMAIN post : IsEdgeLine(post[j]) /\ RefIdSet(post[j]) \cap (N \ {s}) # {}
                                          /\ ~(RefIdSet(post[j]) \subseteq N)}
        notShared(j) == d = "none" \/ d \notin DoveEndsOn(BackTo(post[j], N, s), s)
        counted == {j \in DOMAIN post : MentionsAny(post[j], N) /\ \E t \in 1..3 : post[j].cnt[t] >= 0}
        rest == {j \in DOMAIN post : ~MentionsAny(post[j], N)} IN
    \* a copied edge of a copy is lost
    /\ \A j \in copyEdges : notShared(j) => "C15.edges" \in MultiplyFails(pre, Without(post, {j}), args)
    \* a count is not divided
    /\ \A j \in counted : "C15.counts" \in
          MultiplyFails(pre, Mut(post, j, [post[j] EXCEPT !.cnt = [t \in 1..3 |-> IF @[t] >= 0 THEN @[t] + 1 ELSE -1]]), args)
    \* an edge is invented: a copy linked to a segment the original was not linked to in this way
    /\ \A j \in copyEdges : LET l == post[j]
                                inv == [l EXCEPT !.refs = [t \in DOMAIN l.refs |-> [id |-> l.refs[t].id, o |-> Inv(l.refs[t].o)]]] IN
          (\A i \in PreEdges(pre, s) : ~CopyOf(inv, pre[i], N, s)) =>
              {"C15.edges", "C15.distribution"} \cap MultiplyFails(pre, Append(post, inv), args) # {}
    \* the copy of an edge of the segment with itself runs from the copy to the original
    /\ \A j \in DOMAIN post : (IsEdgeLine(post[j]) /\ \E c \in N \ {s} : RefIdSet(post[j]) = {c}) =>
          LET l == post[j]
              crossed == [l EXCEPT !.refs = [t \in DOMAIN l.refs |-> IF t = 2 THEN [id |-> s, o |-> l.refs[t].o] ELSE l.refs[t]]] IN
          "C15.edges" \in MultiplyFails(pre, Mut(post, j, crossed), args)
    \* a line of the rest is altered / lost
    /\ \A j \in rest : "C15.rest" \in MultiplyFails(pre, Without(post, {j}), args)
    \* a copy has another sequence / a requested name is not used
    /\ \A c \in N \ {s} :
         LET j == CHOOSE j \in SegIdx(post) : post[j].name = c IN
         /\ "C15.copies" \in MultiplyFails(pre, Mut(post, j, [post[j] EXCEPT !.f = <<<<"N", "N">>>>]), args)
         /\ args.names # <<>> => "C15.names" \in MultiplyFails(pre, Mut(post, j, [post[j] EXCEPT !.name = "other"]), args)
=============================================================================
