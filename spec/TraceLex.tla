------------------------------ MODULE TraceLex ------------------------------
(* Code -> spec direction of the lexical family (C04, C07).

   harness/fam_lex.py offers every case to the real gfapy and records, purely
   syntactically, the result class of every call ("ok", the gfapy.Error
   subclass group, "FOREIGN" for an exception that is not derived from
   gfapy.Error, "FOREIGN:timeout" for the watchdog, "marker" when the written
   text carries gfapy's "# INVALID" note, "na" when the call was not made).
   This module reads the recorded cases, recomputes the verdict of the grammar
   with the operators of Lex.tla and prints one
        <<"REJECT", case id, verdict, {<<row, clause>>, ...}>>
   per disagreeing case.  One TLC state per case and nothing else: the harness
   checks that the number of distinct states equals the number of cases.

   A case:  [id, kind, ctx, ver, dia, s, lines, lv, res]
     kind "f"  field value s placed in the hole of context line Ctx[ctx]
          "l"  one line, lines[1] (a sequence of fields), version ver
          "d"  a document lines (version ver, dialect dia)
          "t"  raw text / "a" API strings: only the result classes matter (C07)
          "h"  an API history (MC_Lex layer hist: load a document, assign a string to a
               positional field of a connected line, then remove / disconnect / validate /
               write): a row is the sequence of the result classes of its calls at one
               validation level; every call must end in an allowed outcome (C07)
     res[j]  the j-th observation row, made at validation level lv[j];
             for kinds f, l, d a row is <<construction, validate(), validate_field(), written>>

   Clauses (property statement of C04 / C07):
     C04.rejected-valid      the grammar accepts, construction is refused
     C04.validate-disagrees  the grammar accepts, construction succeeds, an explicit
                             validate() / validate_field() does not pass
     C04.written-invalid     the grammar accepts and gfapy writes the line with its
                             "# INVALID" note
     C04.accepted-invalid    the grammar rejects, construction succeeds AND the explicit
                             validate() passes: silently kept
     C07.foreign             some recorded result is in no allowed outcome set
   C04 clauses are evaluated at validation level >= 1 and only where the grammar
   has a verdict ("either" = the documents disagree: nothing is demanded).     *)
EXTENDS Lex, Json, IOUtils, TLC

Data  == JsonDeserialize(IOEnv.TRACE_FILE)
Ctx   == Data.ctx
Cases == Data.cases

VARIABLE i

Fill(x, v) == [x.fields EXCEPT ![x.hole] = x.fpre \o v]

Expected(cs) ==
  CASE cs.kind = "f" -> LET x == Ctx[cs.ctx] IN LineVerdict(x.ver, Fill(x, cs.s), FALSE)
    [] cs.kind = "l" -> LineVerdict(cs.ver, cs.lines[1], FALSE)
    [] cs.kind = "d" -> DocVerdict(cs.ver, cs.dia, cs.lines)
    [] OTHER -> "either"

\* the outcome sets: a call returns, or raises something derived from gfapy.Error
Refused == {"Error", "NotUniqueError", "VersionError", "NotFoundError"}
Allowed == {"ok", "na", "marker"} \cup Refused

RowClauses(kind, exp, k, r) ==
  (IF \E m \in DOMAIN r : r[m] \notin Allowed THEN {"C07.foreign"} ELSE {})
  \cup
  (IF kind \notin {"f", "l", "d"} \/ k = 0 \/ exp = "either" \/ Len(r) # 4 THEN {}
   ELSE IF exp = "acc" THEN
          IF r[1] # "ok" THEN {"C04.rejected-valid"}
          ELSE IF r[2] # "ok" \/ r[3] \notin {"ok", "na"} THEN {"C04.validate-disagrees"}
          ELSE IF r[4] = "marker" THEN {"C04.written-invalid"}
          ELSE {}
   ELSE \* exp = "rej"
          IF r[1] = "ok" /\ r[2] = "ok" THEN {"C04.accepted-invalid"} ELSE {})

Fails(cs) ==
  LET exp == Expected(cs) IN
  [exp |-> exp,
   bad |-> UNION {{<<j, cl>> : cl \in RowClauses(cs.kind, exp, cs.lv[j], cs.res[j])} : j \in DOMAIN cs.res}]

Init == i \in 1..Len(Cases)
Next == FALSE /\ i' = i
Spec == Init /\ [][Next]_i

Judge == LET fl == Fails(Cases[i]) IN
         IF fl.bad = {} THEN TRUE ELSE PrintT(<<"REJECT", Cases[i].id, fl.exp, fl.bad>>)
=============================================================================
