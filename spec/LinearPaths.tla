---------------------------- MODULE LinearPaths ----------------------------
(* Linear paths of a sequence graph and their merging (property C14),
   written from the statement of the property and the GFA semantics of a
   dovetail, not from gfapy's code.

   Graph  = [segs  : set of [name, seq, len],
             links : sequence (a bag) of [ends, ov]]
     seq   sequence of 1-character strings; <<>> stands for `*`
     len   length of the segment, -1 when unknown
     ends  the set of the one or two segment ENDS the dovetail joins; an end
           is <<name, "L"|"R">>; a hairpin joins an end to itself (one end)
     ov    the overlap, direction-free: the set {cg, Complement(cg)} of the
           CIGAR as written from one side and from the other (Cigar.tla; a
           CIGAR is a sequence of [n, c]); {<<>>} stands for `*`.
   The overlap LENGTH is the number of bases the CIGAR consumes (RefLen =
   QueryLen for the operations M, = and X, which consume both sequences --
   SAM specification, section 1.4.6); an unspecified overlap has length 0.

   An ORIENTED segment is <<name, exit end>>: <<s,"R">> is s read forwards
   (entered through L, left through R), <<s,"L">> is s reverse-complemented.
   A CHAIN is a sequence of oriented segments in which each member is joined
   to the next by a dovetail that is the only dovetail on both joined ends.  *)
EXTENDS Naturals, Integers, Sequences, FiniteSets, Util, Cigar

OtherEnd(t) == IF t = "L" THEN "R" ELSE "L"
\* the end through which an oriented segment is entered / left
EntryOf(x) == <<x[1], OtherEnd(x[2])>>
ExitOf(x)  == <<x[1], x[2]>>

SegNames(G) == {s.name : s \in G.segs}
Seg(G, n)   == CHOOSE s \in G.segs : s.name = n
LkIdx(G)  == DOMAIN G.links

\* number of dovetails on a segment end
Degree(G, e) == Cardinality({i \in LkIdx(G) : e \in G.links[i].ends})

\* a dovetail JOINS two segments when it lies between ends of two different
\* segments and is the only dovetail on both of these ends
Joins(G, i) ==
  LET E == G.links[i].ends IN
  /\ Cardinality(E) = 2
  /\ \A e \in E : Degree(G, e) = 1
  /\ \A e, f \in E : e # f => e[1] # f[1]
JoinSet(G)  == {i \in LkIdx(G) : Joins(G, i)}
JoinAt(J, G, e) == {i \in J : e \in G.links[i].ends}

\* the oriented segment that follows x (only defined when the exit of x is joined)
SuccOf(J, G, x) ==
  LET i == CHOOSE i \in JoinAt(J, G, ExitOf(x)) : TRUE
      f == CHOOSE f \in G.links[i].ends : f # ExitOf(x) IN
  <<f[1], OtherEnd(f[2])>>

\* walk forwards from the oriented segment acc[1] until the exit is not joined
\* or the walk is back at its first segment (a pure cycle)
RECURSIVE Walk(_, _, _)
Walk(J, G, acc) ==
  LET x == acc[Len(acc)] IN
  IF JoinAt(J, G, ExitOf(x)) = {} THEN acc
  ELSE LET y == SuccOf(J, G, x) IN
       IF y[1] = acc[1][1] THEN acc ELSE Walk(J, G, Append(acc, y))

OrientedSegs(G) == SegNames(G) \X {"L", "R"}
Names(c) == {c[i][1] : i \in DOMAIN c}

\* every reading of every maximal chain of >= 2 segments: a linear chain in its
\* two directions, a pure cycle in every rotation of its two directions
AllWalks(G) ==
  LET J == JoinSet(G)
      W == {Walk(J, G, <<x>>) : x \in OrientedSegs(G)}
      \* maximal: nothing joined in front of the first member, unless the walk is a cycle
      IsCycle(w) == /\ JoinAt(J, G, ExitOf(w[Len(w)])) # {}
                    /\ SuccOf(J, G, w[Len(w)]) = w[1]
      Maximal(w) == JoinAt(J, G, EntryOf(w[1])) = {} \/ IsCycle(w) IN
  {w \in W : Len(w) >= 2 /\ Maximal(w)}

\* the readings of the chain with the same members as c
Variants(G, c) == {w \in AllWalks(G) : Names(w) = Names(c)}
\* maximal chains are pairwise disjoint, so a chain is identified by its members;
\* Chains picks one reading of each
Chains(G) == LET A == AllWalks(G) IN
             {CHOOSE w \in A : Names(w) = N : N \in {Names(w) : w \in A}}
ChainNameSets(G) == {Names(w) : w \in AllWalks(G)}

\* the same chain read in the other direction
Rev(c) == [i \in 1..Len(c) |-> <<c[Len(c) + 1 - i][1], OtherEnd(c[Len(c) + 1 - i][2])>>]
IsPureCycle(G, c) == LET J == JoinSet(G) IN
   JoinAt(J, G, ExitOf(c[Len(c)])) # {} /\ SuccOf(J, G, c[Len(c)]) = c[1]

-----------------------------------------------------------------------------
(* sequences *)
\* Watson-Crick complement over the whole IUPAC nucleotide alphabet (Cornish-Bowden 1985:
\* a code stands for a set of bases, its complement for the set of their complements:
\* R = {A,G} <-> Y = {C,T};  K = {G,T} <-> M = {A,C};  B = not A <-> V = not T;
\* D = not C <-> H = not G;  S = {C,G}, W = {A,T}, N = any base are their own complements);
\* the case of a letter is kept.  (U is left out: its complement A does not lead back to it.)
ComplUpper == [A |-> "T", T |-> "A", C |-> "G", G |-> "C", R |-> "Y", Y |-> "R", K |-> "M", M |-> "K",
               B |-> "V", V |-> "B", D |-> "H", H |-> "D", S |-> "S", W |-> "W", N |-> "N"]
ComplLower == [a |-> "t", t |-> "a", c |-> "g", g |-> "c", r |-> "y", y |-> "r", k |-> "m", m |-> "k",
               b |-> "v", v |-> "b", d |-> "h", h |-> "d", s |-> "s", w |-> "w", n |-> "n"]
ComplBase(ch) == IF ch \in DOMAIN ComplUpper THEN ComplUpper[ch]
                 ELSE IF ch \in DOMAIN ComplLower THEN ComplLower[ch] ELSE ch
RC(s) == [i \in 1..Len(s) |-> ComplBase(s[Len(s) + 1 - i])]
\* the table follows from the meaning of the codes (checked once by TLC, MC_LinearPaths)
IupacSet == [A |-> {"A"}, C |-> {"C"}, G |-> {"G"}, T |-> {"T"},
             R |-> {"A", "G"}, Y |-> {"C", "T"}, K |-> {"G", "T"}, M |-> {"A", "C"},
             S |-> {"C", "G"}, W |-> {"A", "T"},
             B |-> {"C", "G", "T"}, D |-> {"A", "G", "T"}, H |-> {"A", "C", "T"}, V |-> {"A", "C", "G"},
             N |-> {"A", "C", "G", "T"}]
LowerOf == [A |-> "a", C |-> "c", G |-> "g", T |-> "t", R |-> "r", Y |-> "y", K |-> "k", M |-> "m",
            S |-> "s", W |-> "w", B |-> "b", D |-> "d", H |-> "h", V |-> "v", N |-> "n"]
ComplementLaw ==
  /\ DOMAIN ComplUpper = DOMAIN IupacSet /\ DOMAIN LowerOf = DOMAIN IupacSet
  /\ DOMAIN ComplLower = {LowerOf[x] : x \in DOMAIN IupacSet}
  /\ \A x \in DOMAIN IupacSet :
        /\ IupacSet[ComplBase(x)] = {ComplBase(b) : b \in IupacSet[x]}
        /\ ComplBase(ComplBase(x)) = x
        /\ ComplBase(LowerOf[x]) = LowerOf[ComplBase(x)]
  /\ \A x, y \in DOMAIN IupacSet : IupacSet[x] = IupacSet[y] => x = y
Drop(s, k) == IF k >= Len(s) THEN <<>> ELSE SubSeq(s, k + 1, Len(s))

\* sequence of a member in the orientation of the traversal
OrientedSeq(G, x) == IF x[2] = "R" THEN Seg(G, x[1]).seq ELSE RC(Seg(G, x[1]).seq)
\* the dovetail between consecutive members x, y of a chain
JoinLink(G, x, y) == CHOOSE i \in LkIdx(G) : G.links[i].ends = {ExitOf(x), EntryOf(y)}
\* overlaps
OvKey(cg) == {cg, Complement(cg)}
OvStar == {<<>>}
\* every operation consumes both sequences (M: match or mismatch, =: match, X: mismatch)
ConsumesBoth(cg) == \A i \in DOMAIN cg : cg[i].c \in {"M", "=", "X"}
HasMismatchOp(ov) == \E cg \in ov : \E i \in DOMAIN cg : cg[i].c = "X"
\* number of bases of the successor that lie inside the overlap: all operations count
OvLen(ov) == RefLen(CHOOSE cg \in ov : TRUE)
\* overlap length by which y is trimmed (an unspecified overlap trims nothing)
Cut(G, x, y) == OvLen(G.links[JoinLink(G, x, y)].ov)
\* the chain has a join whose CIGAR contains the mismatch operation X: whether such an
\* overlap is "match-only" is not settled by the documents (SAM: X consumes both sequences
\* like M; gfapy's documentation: "all operations are M/="), so merging such a chain
\* (trimmed by the full length) and refusing it are both accepted
HasMismatchJoin(G, c) == \E i \in 1..(Len(c) - 1) : HasMismatchOp(G.links[JoinLink(G, c[i], c[i + 1])].ov)

RECURSIVE SpellFrom(_, _, _)
SpellFrom(G, c, i) ==
  IF i > Len(c) THEN <<>>
  ELSE (IF i = 1 THEN OrientedSeq(G, c[1]) ELSE Drop(OrientedSeq(G, c[i]), Cut(G, c[i - 1], c[i])))
       \o SpellFrom(G, c, i + 1)
HasSeq(G, c) == \A i \in DOMAIN c : Seg(G, c[i][1]).seq # <<>>
\* the spelled sequence; `*` as soon as one member has no sequence
Spell(G, c) == IF HasSeq(G, c) THEN SpellFrom(G, c, 1) ELSE <<>>

RECURSIVE SumLens(_, _, _)
SumLens(G, c, i) ==
  IF i > Len(c) THEN 0
  ELSE Seg(G, c[i][1]).len - (IF i = 1 THEN 0 ELSE Cut(G, c[i - 1], c[i])) + SumLens(G, c, i + 1)
\* the length of the merged segment; unknown when a member's length is unknown
SpellLen(G, c) == IF \A i \in DOMAIN c : Seg(G, c[i][1]).len >= 0 THEN SumLens(G, c, 1) ELSE -1

-----------------------------------------------------------------------------
(* merging *)
InternalJoins(G, c) == {JoinLink(G, c[i], c[i + 1]) : i \in 1..(Len(c) - 1)}

\* where an end of the old graph is found after the chain c (in this reading)
\* became the segment m: the entry of the first member is m's L end, the exit of
\* the last member its R end; all other ends of members carry internal joins only
MapEnd(c, m, e) == IF e = EntryOf(c[1]) THEN <<m, "L">>
                   ELSE IF e = ExitOf(c[Len(c)]) THEN <<m, "R">> ELSE e

MergeNamed(G, c, m) ==
  LET int == InternalJoins(G, c)
      keep == SetToSeq(LkIdx(G) \ int) IN
  [segs |-> {s \in G.segs : s.name \notin Names(c)}
              \cup {[name |-> m, seq |-> Spell(G, c), len |-> SpellLen(G, c)]},
   links |-> [k \in DOMAIN keep |->
                [ends |-> {MapEnd(c, m, e) : e \in G.links[keep[k]].ends},
                 ov |-> G.links[keep[k]].ov]]]

\* a name for the merged segment (gfapy joins the member names with "_"; nothing
\* in the property depends on it and the trace specification does not demand it)
RECURSIVE JoinName(_, _)
JoinName(c, i) == IF i = Len(c) THEN c[i][1] ELSE c[i][1] \o "_" \o JoinName(c, i + 1)

\* flip = TRUE: the chain is traversed from its other end (the merged sequence is the
\* reverse complement, L and R of the merged segment are exchanged)
Merge(G, chain, flip) ==
  LET c == IF flip THEN Rev(chain) ELSE chain IN MergeNamed(G, c, JoinName(c, 1))

RECURSIVE MergeAll(_)
MergeAll(G) == LET C == Chains(G) IN
               IF C = {} THEN G ELSE MergeAll(Merge(G, CHOOSE c \in C : TRUE, FALSE))

\* segment name -> name after merging the chain c into m
MergeMap(c, m, n) == IF n \in Names(c) THEN m ELSE n

-----------------------------------------------------------------------------
(* connected components over dovetails *)
AdjOf(G) == {<<p[1][1], p[2][1]>> : p \in UNION {G.links[i].ends \X G.links[i].ends : i \in LkIdx(G)}}
RECURSIVE ReachN(_, _)
ReachN(E, X) == LET Y == X \cup {p[2] : p \in {q \in E : q[1] \in X}} IN
                IF Y = X THEN X ELSE ReachN(E, Y)
Comps(G) == LET E == AdjOf(G) IN {ReachN(E, {n}) : n \in SegNames(G)}

-----------------------------------------------------------------------------
(* laws of the definitions, checked by TLC for every enumerated graph
   (MC_LinearPaths) *)
\* links as a bag up to the order of the sequence
LinkBag(G) == BagOf(G.links)
SameGraph(G, H) == G.segs = H.segs /\ LinkBag(G) = LinkBag(H)

\* chains are disjoint; each has both readings; every reading walks joined ends
ChainsWellFormed(G) ==
  LET A == AllWalks(G) IN
  /\ \A w \in A : Rev(w) \in A
  /\ \A w \in A : Cardinality(Names(w)) = Len(w)
  /\ \A v, w \in A : Names(v) = Names(w) \/ Names(v) \cap Names(w) = {}
  /\ \A w \in A : \A i \in 1..(Len(w) - 1) :
        \E k \in LkIdx(G) : G.links[k].ends = {ExitOf(w[i]), EntryOf(w[i + 1])}
                              /\ Degree(G, ExitOf(w[i])) = 1 /\ Degree(G, EntryOf(w[i + 1])) = 1
\* maximality: a joining dovetail always lies inside some chain
JoinsCovered(G) ==
  \A i \in JoinSet(G) : \E w \in AllWalks(G) : \A e \in G.links[i].ends : e[1] \in Names(w)
\* merging one chain leaves the other chains alone and creates no new one
MergeLocal(G) ==
  \A c \in Chains(G) : \A flip \in BOOLEAN :
     ChainNameSets(Merge(G, c, flip)) = ChainNameSets(G) \ {Names(c)}
\* idempotence: after merging everything no chain of >= 2 segments remains
MergeAllFinal(G) == Chains(MergeAll(G)) = {} /\ SameGraph(MergeAll(MergeAll(G)), MergeAll(G))
\* the component partition is preserved modulo the merge map
ComponentsPreserved(G) ==
  \A c \in Chains(G) : \A flip \in BOOLEAN :
     LET cc == IF flip THEN Rev(c) ELSE c
         m == JoinName(cc, 1) IN
     Comps(Merge(G, c, flip)) = {{MergeMap(c, m, n) : n \in K} : K \in Comps(G)}
\* the two readings give sequences of the same length (reverse complements of each
\* other only if the overlapping parts really are identical, which nothing in a GFA
\* file guarantees: each reading trims the *successor*) and mirrored links
FlipLaw(G) ==
  \A c \in Chains(G) :
     LET a == MergeNamed(G, c, "m")
         b == MergeNamed(G, Rev(c), "m")
         Mirror(e) == IF e[1] = "m" THEN <<"m", OtherEnd(e[2])>> ELSE e IN
     /\ Len(Seg(b, "m").seq) = Len(Seg(a, "m").seq)
     /\ (Len(c) = 2 /\ Cut(G, c[1], c[2]) = 0) => Seg(b, "m").seq = RC(Seg(a, "m").seq)
     /\ Seg(b, "m").len = Seg(a, "m").len
     /\ BagOf([k \in DOMAIN a.links |-> [ends |-> {Mirror(e) : e \in a.links[k].ends}, ov |-> a.links[k].ov]])
          = LinkBag(b)
\* the overlap length does not depend on the side from which the CIGAR is written
OvLenWellDefined(G) ==
  \A i \in LkIdx(G) : \A cg \in G.links[i].ov :
     ConsumesBoth(cg) => /\ RefLen(cg) = QueryLen(cg)
                         /\ RefLen(cg) = OvLen(G.links[i].ov)
                         /\ RefLen(cg) = SumLen(cg, {"M", "=", "X"})
\* number of dovetails: only the internal joins disappear
LinkCount(G) == \A c \in Chains(G) : Len(Merge(G, c, FALSE).links) = Len(G.links) - (Len(c) - 1)
=============================================================================
