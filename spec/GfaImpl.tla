------------------------------ MODULE GfaImpl ------------------------------
(* Implementation-shaped model of the reference machinery of gfapy (second
   layer, DESIGN 9): line OBJECTS with reference cells, back-reference lists
   per key, a registry, placeholder (virtual) objects that are substituted when
   the definition arrives, and `disconnect` as the cascade the code performs,
   ONE DEPENDANT AT A TIME with an explicit call stack -- so that the grain of
   the code (a cascade that runs while the lists it walks are being edited) is
   visible to TLC.

   Scope: segments (S), links (L, orientation abstracted to the end they touch)
   and unordered groups (U, items may be segments, links by name, or groups),
   i.e. three levels of dependency and both kinds of placeholder.

   Refinement: at every quiescent state the projection of the object graph
   (registered real objects rendered as abstract lines) must equal the
   document that the declarative specification Gfa.tla computes for the same
   call -- checked as the invariant Refines, through the history variable
   `doc` which is advanced with Gfa!Step.  The structural invariants of C02
   (Closed, Symmetric, RegisteredOnly) are checked on the object graph itself.

   The constant SnapshotCascade selects how the cascade walks a back-reference
   list: over a snapshot taken before the walk (the repaired code) or over the
   live list by index (the pinned code).  With FALSE, TLC finds the violation
   of Refines / Closed that the conformance checks found in the real library. *)
EXTENDS Gfa, TLC

CONSTANTS Catalogue,        \* sequence of abstract lines that may be added
          MaxObjs,          \* bound on the number of objects ever created
          MaxOps,           \* bound on the number of public calls
          SnapshotCascade,  \* BOOLEAN
          RepointMerged,    \* BOOLEAN: a merged group definition takes over the back-references
                            \* its predecessor left in its items (the repaired code) or not (pinned)
          RollbackOnRefusal \* BOOLEAN: a line refused while its mentions are being resolved leaves
                            \* nothing behind (the repaired code) or keeps what was done so far (pinned)

VARIABLES objs,    \* oid -> object record (see NewObj)
          nobj,    \* number of objects created so far
          stack,   \* call stack of the running disconnect cascade (sequence of frames)
          doc,     \* history: the document state of Gfa.tla after the same calls
          nops,    \* number of public calls started
          last     \* result class of the last public call
vars == <<objs, nobj, stack, doc, nops, last>>

Oids == 1..nobj
Cfg0 == [version |-> "gfa2", vlevel |-> 1, dialect |-> "standard"]

\* object: line = abstract line as given (mentions by name), tgt = for each mention the oid it
\* points to (0 = unresolved string), br = back-references as a sequence of <<key, oid>>,
\* virt = placeholder, reg = listed by the Gfa
NewObj(l, virt) == [line |-> l, tgt |-> [i \in DOMAIN l.refs |-> 0], br |-> <<>>, virt |-> virt, reg |-> FALSE]

PlaceholderLine(id, asSeg) ==
  [rt |-> IF asSeg THEN "S" ELSE "?", name |-> id, refs |-> <<>>, f |-> IF asSeg THEN <<"1", "*">> ELSE <<>>,
   num |-> IF asSeg THEN <<1>> ELSE <<>>, tags |-> <<>>, tagn |-> <<>>, tagt |-> <<>>, ovs |-> <<>>]

Registered(o) == {i \in DOMAIN o : o[i].reg}
ByName(o, id) == {i \in Registered(o) : o[i].line.name = id /\ id # "*"}

BackKey(l, n) == KeyOn(l, n)     \* the collection of the target in which the referrer files itself

-----------------------------------------------------------------------------
(* connect: resolve the mentions of object i one by one (creating placeholders),
   then register -- atomic, as no caller can observe the middle *)

RECURSIVE Resolve(_, _, _, _)
\* returns [o |-> objects, n |-> count] after resolving mentions k..Len of object i
Resolve(o, n, i, k) ==
  LET l == o[i].line IN
  IF k > Len(l.refs) THEN [o |-> o, n |-> n]
  ELSE
    LET id == l.refs[k].id
        found == ByName(o, id) IN
    IF found # {} THEN
      LET t == CHOOSE t \in found : TRUE
          o1 == [o EXCEPT ![i].tgt[k] = t, ![t].br = Append(@, <<BackKey(l, k), i>>)] IN
      Resolve(o1, n, i, k + 1)
    ELSE
      LET t == n + 1
          ph == [NewObj(PlaceholderLine(id, l.rt # "U"), TRUE) EXCEPT !.reg = TRUE,
                                                                     !.br = <<<<BackKey(l, k), i>>>>]
          o1 == [j \in 1..t |-> IF j = t THEN ph ELSE IF j = i THEN [o[i] EXCEPT !.tgt[k] = t] ELSE o[j]] IN
      Resolve(o1, t, i, k + 1)

\* substitute placeholder p by the new object i: take over its back-references and re-point referrers
Substitute(o, p, i) ==
  [j \in DOMAIN o |->
     IF j = i THEN [o[i] EXCEPT !.br = o[p].br, !.reg = TRUE]
     ELSE IF j = p THEN [o[p] EXCEPT !.reg = FALSE, !.br = <<>>]
     ELSE [o[j] EXCEPT !.tgt = [k \in DOMAIN o[j].tgt |-> IF o[j].tgt[k] = p THEN i ELSE o[j].tgt[k]]]]

WrongKind(o, l, k) ==      \* mention k of l must be a segment and is carried by a real line of another type
  l.rt \in {"E", "L"} /\ \E t \in ByName(o, l.refs[k].id) : ~o[t].virt /\ o[t].line.rt # "S"

AddCall(l) ==
  /\ stack = <<>> /\ nops < MaxOps /\ nobj + 1 + Len(l.refs) <= MaxObjs
  /\ ~\E k \in DOMAIN l.refs : WrongKind(objs, l, k)
  \* (the merge of multi-line group definitions is not part of this layer)
  /\ ~(IsGroup(l) /\ \E i \in DOMAIN doc.lines : doc.lines[i].name = l.name)
  /\ nops' = nops + 1
  /\ LET outs == Step(doc, [k |-> "add", l |-> l, id |-> "", id2 |-> ""])
         ok == \E x \in outs : x.res = "ok"
         exp == CHOOSE x \in outs : (ok => x.res = "ok") IN
     /\ doc' = exp.st
     /\ last' = exp.res
     /\ IF exp.res # "ok" \/ exp.st = doc
          THEN UNCHANGED <<objs, nobj>>          \* refused (or no-op): nothing is touched
          ELSE
            LET i == nobj + 1
                o0 == [j \in 1..i |-> IF j = i THEN NewObj(l, FALSE) ELSE objs[j]]
                prev == IF l.name = "*" THEN {} ELSE {p \in ByName(objs, l.name) : objs[p].virt}
                r == Resolve(o0, i, i, 1)
                o2 == IF prev # {} THEN Substitute(r.o, CHOOSE p \in prev : TRUE, i)
                      ELSE [r.o EXCEPT ![i].reg = TRUE] IN
            /\ objs' = o2 /\ nobj' = r.n
  /\ UNCHANGED stack

-----------------------------------------------------------------------------
(* a line that is refused in the middle of connect: its mentions are resolved one by one, and the
   k-th turns out to name a line that cannot stand there (a segment is expected, the identifier is
   carried by a line of another type).  The document does not change (Gfa!Step refuses); the object
   graph must not either: the placeholders created and the back-references added for the mentions
   before the k-th have to be taken back. *)
RECURSIVE ResolveUpTo(_, _, _, _, _)
ResolveUpTo(o, n, i, k, stop) ==
  IF k >= stop THEN [o |-> o, n |-> n]
  ELSE LET l == o[i].line
           id == l.refs[k].id
           found == ByName(o, id) IN
       IF found # {} THEN
         LET t == CHOOSE t \in found : TRUE
             o1 == [o EXCEPT ![i].tgt[k] = t, ![t].br = Append(@, <<BackKey(l, k), i>>)] IN
         ResolveUpTo(o1, n, i, k + 1, stop)
       ELSE
         LET t == n + 1
             ph == [NewObj(PlaceholderLine(id, l.rt # "U"), TRUE) EXCEPT !.reg = TRUE,
                                                                        !.br = <<<<BackKey(l, k), i>>>>]
             o1 == [j \in 1..t |-> IF j = t THEN ph ELSE IF j = i THEN [o[i] EXCEPT !.tgt[k] = t] ELSE o[j]] IN
         ResolveUpTo(o1, t, i, k + 1, stop)

RefusedAddCall(l) ==
  /\ stack = <<>> /\ nops < MaxOps /\ nobj + 1 + Len(l.refs) <= MaxObjs
  /\ \E k \in DOMAIN l.refs :
       /\ WrongKind(objs, l, k) /\ \A j \in 1..(k - 1) : ~WrongKind(objs, l, j)
       /\ LET outs == Step(doc, [k |-> "add", l |-> l, id |-> "", id2 |-> ""]) IN
          /\ \A x \in outs : x.res # "ok" /\ x.st = doc          \* the document specification refuses
          /\ doc' = doc /\ last' = "Error" /\ nops' = nops + 1
          /\ IF RollbackOnRefusal THEN UNCHANGED <<objs, nobj>>
             ELSE LET i == nobj + 1
                      o0 == [j \in 1..i |-> IF j = i THEN NewObj(l, FALSE) ELSE objs[j]]
                      r == ResolveUpTo(o0, i, i, 1, k) IN
                  objs' = r.o /\ nobj' = r.n
  /\ UNCHANGED stack

-----------------------------------------------------------------------------
(* a further line of a multi-line group (same identifier, same record type): the code builds a
   NEW object, resolves its items, and lets it take the place of the previous object exactly as
   if that were a placeholder -- so everything that pointed to the previous object (its
   referrers' cells, and the back-reference entries it had left in ITS items) must be
   re-pointed to the new object, whose items are the previous ones followed by the new ones *)
Repoint(o, p, i) ==
  [j \in DOMAIN o |->
     [o[j] EXCEPT !.tgt = [k \in DOMAIN o[j].tgt |-> IF o[j].tgt[k] = p THEN i ELSE o[j].tgt[k]],
                  !.br = IF RepointMerged
                           THEN [k \in DOMAIN o[j].br |-> IF o[j].br[k][2] = p THEN <<o[j].br[k][1], i>> ELSE o[j].br[k]]
                           ELSE o[j].br]]

MergeCall(l) ==
  /\ stack = <<>> /\ nops < MaxOps /\ nobj + 1 + Len(l.refs) <= MaxObjs
  /\ IsGroup(l) /\ ~doc.orph
  /\ \E p \in {j \in ByName(objs, l.name) : ~objs[j].virt /\ objs[j].line.rt = l.rt} :
       LET outs == Step(doc, [k |-> "add", l |-> l, id |-> "", id2 |-> ""])
           ok == \E x \in outs : x.res = "ok"
           exp == CHOOSE x \in outs : (ok => x.res = "ok") IN
       /\ exp.res # "unmodelled"
       /\ nops' = nops + 1 /\ doc' = exp.st /\ last' = exp.res
       /\ IF exp.res # "ok" THEN UNCHANGED <<objs, nobj>>
          ELSE
            LET i == nobj + 1
                o0 == [j \in 1..i |-> IF j = i THEN NewObj(l, FALSE) ELSE objs[j]]
                r == Resolve(o0, i, i, 1)                        \* the new items
                mi == CHOOSE m \in DOMAIN exp.st.lines : exp.st.lines[m].name = l.name
                o1 == [r.o EXCEPT ![i].line = exp.st.lines[mi],   \* reads as the merged definition
                                  ![i].tgt = r.o[p].tgt \o r.o[i].tgt,
                                  ![i].br = r.o[p].br, ![i].reg = TRUE,
                                  ![p].reg = FALSE, ![p].br = <<>>,
                                  ![p].tgt = [k \in DOMAIN r.o[p].tgt |-> 0]] IN
            /\ objs' = Repoint(o1, p, i) /\ nobj' = r.n
  /\ UNCHANGED stack

-----------------------------------------------------------------------------
(* disconnect: the cascade, one step at a time.  A frame is
   [oid, phase, list, idx]: phase "deps" walks the dependants, "finish" completes. *)

Dependant(o, i, e) ==      \* entry e = <<key, oid>> of object i's back-references is a dependant
  LET rt == o[i].line.rt IN
  CASE rt \in {"S", "?"} -> TRUE
    [] rt \in {"L", "E"} -> e[1] \in {"paths", "sets"}
    [] rt = "U" -> e[1] = "sets"
    [] OTHER -> FALSE

DepList(o, i) == SelectSeq(o[i].br, LAMBDA e : Dependant(o, i, e))

\* first part of disconnect(i): remove i from the back-references of its targets, turn its
\* reference cells back into names
Detach(o, i) ==
  [j \in DOMAIN o |->
     IF j = i THEN [o[i] EXCEPT !.tgt = [k \in DOMAIN o[i].tgt |-> 0]]
     ELSE [o[j] EXCEPT !.br = SelectSeq(o[j].br, LAMBDA e : e[2] # i)]]

\* last part: non-dependent referrers drop their mention of i; i is unregistered
Finish(o, i) ==
  [j \in DOMAIN o |->
     IF j = i THEN [o[i] EXCEPT !.br = <<>>, !.reg = FALSE]
     ELSE o[j]]

RmCall(id) ==
  /\ stack = <<>> /\ nops < MaxOps
  /\ \E i \in ByName(objs, id) :
       LET outs == Step(doc, [k |-> "rm", id |-> id, id2 |-> "", l |-> [rt |-> "none"]])
           exp == CHOOSE x \in outs : TRUE IN
       /\ exp.res = "ok"
       /\ doc' = exp.st /\ last' = "ok" /\ nops' = nops + 1
       /\ objs' = Detach(objs, i)
       /\ stack' = <<[oid |-> i, list |-> DepList(Detach(objs, i), i), idx |-> 1]>>
       /\ UNCHANGED nobj

\* rename: only the name cell of the object changes; every mention is rendered through the
\* reference cells of the referrers, so nothing else has to be touched
RenameCall(old, new) ==
  /\ stack = <<>> /\ nops < MaxOps
  /\ ~doc.orph          \* orphan placeholders are outside the claim (DESIGN 3.1)
  /\ \E i \in {j \in ByName(objs, old) : ~objs[j].virt} :
       LET outs == Step(doc, [k |-> "ren", id |-> old, id2 |-> new, n |-> 0, l |-> [rt |-> "none"]])
           ok == \E x \in outs : x.res = "ok"
           exp == CHOOSE x \in outs : (ok => x.res = "ok") IN
       /\ exp.res # "unmodelled"
       /\ doc' = exp.st /\ last' = exp.res /\ nops' = nops + 1
       /\ objs' = IF exp.res = "ok" THEN [objs EXCEPT ![i].line.name = new] ELSE objs
       /\ UNCHANGED <<nobj, stack>>

\* one step of the cascade
CascadeStep ==
  /\ stack # <<>>
  /\ LET fr == stack[Len(stack)]
         i == fr.oid
         \* the list the loop walks: the snapshot taken at entry, or the live list
         walked == IF SnapshotCascade THEN fr.list ELSE DepList(objs, i) IN
     IF fr.idx > Len(walked) THEN
        /\ objs' = Finish(objs, i)
        /\ stack' = SubSeq(stack, 1, Len(stack) - 1)
     ELSE
        LET d == walked[fr.idx][2]
            rest == [stack EXCEPT ![Len(stack)].idx = fr.idx + 1] IN
        IF objs[d].reg /\ d # i THEN        \* still connected: disconnect it (recursive call)
           /\ objs' = Detach(objs, d)
           /\ stack' = Append(rest, [oid |-> d, list |-> DepList(Detach(objs, d), d), idx |-> 1])
        ELSE
           /\ stack' = rest /\ UNCHANGED objs
  /\ UNCHANGED <<nobj, doc, nops, last>>

Init == /\ objs = <<>> /\ nobj = 0 /\ stack = <<>> /\ nops = 0 /\ last = "init"
        /\ doc = Init0(Cfg0)

Ids == {"a", "b", "u", "v", "e1", "z"}
Next == \/ \E k \in DOMAIN Catalogue : AddCall(Catalogue[k])
        \/ \E k \in DOMAIN Catalogue : MergeCall(Catalogue[k])
        \/ \E k \in DOMAIN Catalogue : RefusedAddCall(Catalogue[k])
        \/ \E id \in Ids : RmCall(id)
        \/ \E old \in {"a", "e1", "u"}, new \in {"z", "b"} : RenameCall(old, new)
        \/ CascadeStep
Spec == Init /\ [][Next]_vars

-----------------------------------------------------------------------------
(* projection and properties *)

Quiescent == stack = <<>>
RealIdx == {i \in Registered(objs) : ~objs[i].virt}
\* the line an object denotes now: its mentions rendered through the current names of the targets
Rendered(i) ==
  LET l == objs[i].line IN
  [l EXCEPT !.refs = [k \in DOMAIN l.refs |->
       IF objs[i].tgt[k] = 0 THEN l.refs[k] ELSE [l.refs[k] EXCEPT !.id = objs[objs[i].tgt[k]].line.name]]]

\* C05 at the grain of the code: the listed real lines are exactly the document's lines
Refines == Quiescent =>
   BagOf(SeqMap(LAMBDA i : Norm(Rendered(i)), SetToSeq(RealIdx))) = BagOf(SeqMap(Norm, doc.lines))
\* C02 on the object graph
Closed == Quiescent => \A i \in Registered(objs) :
   /\ \A k \in DOMAIN objs[i].tgt : objs[i].tgt[k] \in Registered(objs)
   /\ \A k \in DOMAIN objs[i].br : objs[i].br[k][2] \in Registered(objs)
Symmetric == Quiescent => \A i, j \in Registered(objs) :
   Cardinality({k \in DOMAIN objs[i].tgt : objs[i].tgt[k] = j})
     = Cardinality({k \in DOMAIN objs[j].br : objs[j].br[k][2] = i})
\* placeholders exist exactly for mentioned-undefined identifiers (none left behind by a pure-add history)
PlaceholdersExact == (Quiescent /\ ~doc.orph) =>
   {objs[i].line.name : i \in {j \in Registered(objs) : objs[j].virt}} = PlaceholderIds(doc)
=============================================================================
