----------------------------- MODULE TraceFields -----------------------------
(* Code -> spec for the "fields" family (C18, C19, C20).

   The harness writes what the real gfapy did for a batch of cases of ONE kind
   to a JSON file (IOEnv.TRACE_FILE = [kind, cases]); this module recomputes the
   expected answer with the operators of Fields.tla and prints
        <<"REJECT", case id, {clauses}>>
   for every case on which gfapy disagrees.  One TLC state per case: the harness
   checks that the number of distinct states equals the number of cases.

   kinds
     "prog"   C18: a program of calls on one field of one line at one level (a stand-alone
              line, a line a Gfa built from text, or a line DERIVED by a library operation
              from lines of that level: c.origin); each
              event carries the observed result class, the "# INVALID" mark of
              str(line) and whether the stored object is still the previous one
              (kept: "T" / "F" / "?" when the very same object was assigned again).
              The set of spec states consistent with the observations is tracked
              through Fields!Step; the first call no allowed outcome matches names
              the clause.
     "lvl"    C18: one document built at levels 0..3: acceptance, written lines
              (bag; tags as sets), digest of the object graph; optionally a library
              operation after the load (op: its result class).
     "clone"  C19: a line and its clone: text, == (both directions), is_connected(), gfa;
              then a program of read-only calls on one copy or the other (c.steps, from
              MC_Fields mode renum) with == after every call.
     "edit"   C19: one in-place edit of one copy: text of the other copy and of the
              Gfa before / after.
     "val"    C20: one Python value assigned to a new tag or to a tag of a declared
              datatype: datatype, written characters, validation, read back.
     "gval"   C20: a "val" case on a tag of a line that belongs to a Gfa, with what every
              write path of the Gfa wrote (c.outs).
     "hist"   C20: one custom tag through a sequence of set / delete / set(None) /
              set_datatype calls; a "val"-like record after every call.
     "chist"  C19 / C20: one custom tag on a line AND on the copy the library made of it
              (clone, multiply), calls on either, both observed after every call.
     "table"  one string representative of the C18 value-class table, judged
              by Lex.tla.                                                     *)
EXTENDS Fields, Json, IOUtils, TLC

\* the full lexical grammar (written by the lexical family from the GFA specification
\* texts; three-valued: "acc" / "rej" / "either" where the documents disagree)
LX == INSTANCE Lex

Data  == JsonDeserialize(IOEnv.TRACE_FILE)
Kind  == Data.kind
Cases == Data.cases

VARIABLE cid
vars == <<cid>>

Op(k, f, c, t) == [k |-> k, f |-> f, c |-> c, t |-> t]
ErrLike(r) == r \in {"Error", "FOREIGN"}

-----------------------------------------------------------------------------
(* kind "prog" *)
\* c.lvl: the level of the stand-alone line, or of the Gfa the line was obtained from (then
\* c.conn; c.linelvl is the level the line object itself reports)
ProgInit(c) == Init0(LineLevelOf(c.lvl), c.conn, [n \in {c.f} |-> Field(c.dt, c.init, 1)])   \* init: "valid" / "absent"
Matching(s, op, e) ==
  {o \in Step(s, op) : /\ o.res = e.res
                       /\ (op.k = "str" => o.mark = e.mark)
                       /\ (op.k \in {"set", "add"} => (e.kept = "?" \/ o.chg = (e.kept = "F")))
                       \* an outcome in which reading replaced the stored object needs that observation
                       /\ (op.k \in {"get", "str"} => (o.chg => e.kept = "F"))}
\* the clause violated when no allowed outcome matches (s: a state consistent so far)
ProgClause(s, op) ==
  LET L == s.o
      bad == Has(L, op.f) /\ IsInvalid(L.fields[op.f]) IN
  CASE op.k \in {"set", "add"} -> IF op.c = "valid" THEN "C18.valid-rejected"
                       ELSE IF L.lvl = 3 THEN "C18.level3-not-at-set"
                       \* below level 3: the invalid value was neither stored nor refused, so
                       \* nothing can report it any more
                       ELSE "C18.validate-missed"
    [] op.k \in {"validate", "vfield"} -> IF bad THEN "C18.validate-missed" ELSE "C18.valid-rejected"
    [] op.k \in {"write", "str"} -> IF bad THEN "C18.level2-not-at-write" ELSE "C18.valid-rejected"
    [] OTHER -> "C18.valid-rejected"
RECURSIVE ProgRun(_, _, _)
ProgRun(c, j, A) ==
  IF j > Len(c.ev) THEN {}
  ELSE LET e == c.ev[j]
           op == Op(e.k, c.f, e.c, "orig") IN
       IF e.res = "FOREIGN" THEN {"foreign"}
       ELSE LET B == UNION {{o.st : o \in Matching(s, op, e)} : s \in A} IN
            IF B # {} THEN ProgRun(c, j + 1, B)
            ELSE {ProgClause(CHOOSE s \in A : TRUE, op)}
ProgVerdict(c) == ProgRun(c, 1, {ProgInit(c)})
                  \* c.origin: "text" (built from text by the Gfa / stand-alone) or the Fields!DeriveKinds
                  \* operation that made the line from lines of a Gfa (of a line) of level c.lvl
                  \cup (IF (IF c.origin = "text" THEN LevelPropagated(c.lvl, c.linelvl)
                           ELSE DerivedLevelPropagated(c.lvl, c.origin, c.linelvl))
                        THEN {} ELSE {"C18.level-not-propagated"})
\* index of the first call that is rejected (0: none), for the report
RECURSIVE ProgAt(_, _, _)
ProgAt(c, j, A) ==
  IF j > Len(c.ev) THEN 0
  ELSE LET e == c.ev[j]
           op == Op(e.k, c.f, e.c, "orig") IN
       IF e.res = "FOREIGN" THEN j
       ELSE LET B == UNION {{o.st : o \in Matching(s, op, e)} : s \in A} IN
            IF B # {} THEN ProgAt(c, j + 1, B) ELSE j

-----------------------------------------------------------------------------
(* kind "lvl": r[k+1] is what level k did with the document *)
LineKey(l) == [pos |-> l.pos, tags |-> Rng(l.tags)]
TextBag(r) == BagOf(SeqMap(LineKey, r.lines))
LvlVerdict(c) ==
  LET r == c.r IN
  (IF \E k \in 1..4 : r[k].res = "FOREIGN" THEN {"foreign"} ELSE {})
  \cup (IF \E k \in 2..4 : r[k].res = "ok" /\ \E j \in 1..(k - 1) : r[j].res = "Error"
        THEN {"C18.not-monotone"} ELSE {})
  \* valid input = accepted at the strictest level; then every level that accepts it
  \* (all of them, by monotonicity) writes the same text and builds the same graph
  \cup (IF r[4].res = "ok" /\ \E k \in 1..3 : r[k].res = "ok" /\
              (TextBag(r[k]) # TextBag(r[4]) \/ r[k].dig # r[4].dig)
        THEN {"C18.level-dependence"} ELSE {})
  \* a library operation applied after the load (r[k].op: "-" none / its result class; lines and
  \* dig are then those after the operation, empty when it failed): on valid input its outcome
  \* does not depend on the level either (Fields.tla PART 5 a')
  \cup (IF \E k \in 1..4 : r[k].op = "FOREIGN" THEN {"foreign"} ELSE {})
  \cup (IF r[4].res = "ok" /\ \E k \in 1..3 : r[k].res = "ok" /\ r[k].op # r[4].op
        THEN {"C18.level-dependence"} ELSE {})

-----------------------------------------------------------------------------
(* kind "clone": Fields!Step says what a clone is: detached, fields equal *)
\* c.steps: read-only calls (Fields!ReadOps; on every field of the copy st.t) after the cloning;
\* after each the harness records the result class, == in both directions, and whether the two
\* written forms are the same (and the original's the one it had).  Step says what a read does to
\* valid fields (nothing); as long as Fields!CopiesEqual holds, == must hold.
RECURSIVE CloneRun(_, _, _)
CloneRun(c, j, s) ==
  IF j > Len(c.steps) THEN {}
  ELSE LET st == c.steps[j]
           op == Op(st.k, "line", "-", st.t)
           M == {o \in Step(s, op) : o.res = st.res} IN
       IF "FOREIGN" \in {st.res, st.eq, st.eqr} THEN {"foreign"}
       ELSE IF M = {} THEN {"C19.read-rejected"}
       ELSE LET s2 == (CHOOSE o \in M : TRUE).st IN
            (IF CopiesEqual(s2) /\ (st.eq # "T" \/ st.eqr # "T") THEN {"C19.not-equal"} ELSE {})
            \cup (IF CopiesEqual(s2) /\ st.same # "T" THEN {"C19.text-differs"} ELSE {})
            \cup CloneRun(c, j + 1, s2)
RECURSIVE CloneAt(_, _, _)
CloneAt(c, j, s) ==
  IF j > Len(c.steps) THEN 0
  ELSE LET st == c.steps[j]
           op == Op(st.k, "line", "-", st.t)
           M == {o \in Step(s, op) : o.res = st.res} IN
       IF M = {} \/ "FOREIGN" \in {st.res, st.eq, st.eqr} \/ st.eq # "T" \/ st.eqr # "T" \/ st.same # "T" THEN j
       ELSE CloneAt(c, j + 1, (CHOOSE o \in M : TRUE).st)
CloneState(c) ==
  (CHOOSE o \in Step(Init0(c.lvl, c.conn, [n \in {"line"} |-> Field("text", "valid", 1)]),
                     Op("clone", "line", "-", "orig")) : TRUE).st

CloneVerdict(c) ==
  LET s0 == Init0(c.lvl, c.conn, [n \in {"line"} |-> Field("text", "valid", 1)])
      o == CHOOSE o \in Step(s0, Op("clone", "line", "-", "orig")) : TRUE
      \* the clone writes what the original writes, and is detached
      sameText == Written(o.st.c) = Written(o.st.o)
      detached == ~o.st.c.conn IN
  (IF "FOREIGN" \in {c.cl, c.o.res, c.c.res, c.eq, c.eqr, c.isconn, c.gfa} THEN {"foreign"} ELSE {})
  \cup (IF c.cl = "Error" THEN {"C19.not-equal"} ELSE {})
  \cup (IF c.cl = "ok" /\ sameText /\ c.o.res = "ok" /\
           (c.c.res # "ok" \/ c.c.pos # c.o.pos \/ Rng(c.c.tags) # Rng(c.o.tags))
        THEN {"C19.text-differs"} ELSE {})
  \cup (IF c.cl = "ok" /\ c.eq \in {"F", "Error"} THEN {"C19.not-equal"} ELSE {})
  \cup (IF c.cl = "ok" /\ detached /\ (c.isconn \in {"T", "Error"} \/ c.gfa \in {"some", "Error"})
        THEN {"C19.not-detached"} ELSE {})
  \* Step copies the whole record of the line (level, every field with its datatype): everything
  \* the two copies say about themselves -- record type, version, level, names of the positional
  \* fields in order, tag names with their datatypes, datatypes declared for absent tags -- agrees
  \* (c.o.meta, c.c.meta: the harness' rendering of these, compared as wholes)
  \cup (IF c.cl = "ok" /\ o.st.c.lvl = o.st.o.lvl /\ o.st.c.fields = o.st.o.fields /\ c.c.meta # c.o.meta
        THEN {"C19.metadata-differs"} ELSE {})
  \* the other direction of ==, and equality after reads of either copy (c.steps)
  \cup (IF c.cl = "ok" /\ c.eqr \in {"F", "Error"} THEN {"C19.not-equal"} ELSE {})
  \cup (IF c.cl = "ok" THEN CloneRun(c, 1, o.st) ELSE {})

-----------------------------------------------------------------------------
(* kind "edit": clone, then one edit of copy c.target; the frame condition of
   Fields!Step says which written forms may not change *)
EditVerdict(c) ==
  LET s0 == Init0(1, c.conn, [n \in {"line"} |-> Field("text", "valid", 1)])
      s1 == (CHOOSE o \in Step(s0, Op("clone", "line", "-", "orig")) : TRUE).st
      s2 == (CHOOSE o \in Step(s1, Op("edit", "line", "same", c.target)) : TRUE).st
      other == IF c.target = "clone" THEN "orig" ELSE "clone"
      otherKept == Written(Cp(s2, other)) = Written(Cp(s1, other))
      gfaKept == s2.g = s1.g IN
  (IF c.res = "FOREIGN" THEN {"foreign"} ELSE {})
  \cup (IF otherKept /\ c.ob # c.oa THEN {"C19.shared-state"} ELSE {})
  \cup (IF gfaKept /\ c.gb # c.ga THEN {"C19.shared-state"} ELSE {})

-----------------------------------------------------------------------------
(* kind "val" *)
ValDTs(c) == IF c.mode = "new" THEN DefaultDTs(c.v) ELSE {c.mode}
\* Can datatype d represent the value?  "yes" / "no" / "either".  For an encoded (string)
\* value the answer of Fields!Representable is confronted with the full grammar of Lex.tla:
\* where that grammar is undecided, or the two disagree, no side is taken.
RepStatus(d, v) ==
  LET mine == Representable(d, v) IN
  IF v.k # "str" THEN (IF mine THEN "yes" ELSE "no")
  ELSE LET lx == LX!FieldVerdict(d, v.chars) IN
       IF lx = "acc" /\ mine THEN "yes"
       ELSE IF lx = "rej" /\ ~mine THEN "no"
       ELSE "either"
ValVerdictAs(c, d, dts, rep) ==
  LET v == c.v
      wv == TagValueOf(c.wchars) IN
  IF c.set = "Error" THEN
       \* refused at the assignment: fine unless the datatype can represent the value
       (IF rep THEN {"C20.readback"} ELSE {})
  ELSE
    (IF c.dt \notin dts THEN {"C20.datatype"} ELSE {})
    \cup
    (IF rep THEN
        (IF c.val # "ok" \/ c.vf # "ok" \/ c.w # "ok" \/ c.s # "ok" \/ c.mark THEN {"C20.readback"} ELSE {})
        \* the written characters: accepted by the recogniser of Fields.tla and not rejected by
        \* the full grammar (where that one is undecided, its indecision stands)
        \cup (IF c.w = "ok" /\ ~(TagShape(c.wchars) /\
                               LET lx == LX!FieldVerdict(d, wv) IN
                               lx = "either" \/ (lx = "acc" /\ Accepts(d, wv)))
              THEN {"C20.grammar"} ELSE {})
        \cup (IF c.w = "ok" /\ TagShape(c.wchars) /\ TagTypeOf(c.wchars) \notin dts THEN {"C20.datatype"} ELSE {})
        \cup (IF c.w = "ok" /\ TagShape(c.wchars) /\ d = "B" /\ v.k # "str"
                 /\ WrittenSubtype(wv) \notin ExpectedSubtypes(v) THEN {"C20.subtype"} ELSE {})
        \cup (IF c.s = "ok" /\ ~c.mark /\ (c.rb.res # "ok" \/ c.rb.dt # c.dt \/ c.rb.eq # "T" \/ c.rb.eqv = "F")
              THEN {"C20.readback"} ELSE {})
     ELSE
        \* a value the datatype cannot represent: reported by validation at every level,
        \* and by writing at level >= 2
        (IF c.val = "ok" \/ c.vf = "ok" THEN {"C20.unrepresentable-emitted"} ELSE {})
        \cup (IF c.lvl >= 2 /\ (c.w = "ok" \/ (c.s = "ok" /\ ~c.mark)) THEN {"C20.unrepresentable-emitted"} ELSE {}))
ValVerdict(c) ==
  LET v == c.v
      dts == ValDTs(c)
      d == IF c.dt \in dts THEN c.dt ELSE CHOOSE x \in dts : TRUE
      st == RepStatus(d, v) IN
  IF ~(\A x \in dts : InScope(x, v)) THEN {"machinery.scope"}
  ELSE IF "FOREIGN" \in {c.set, c.val, c.vf, c.w, c.s, c.rb.res} \/ c.dt = "!FOREIGN" THEN {"foreign"}
  ELSE IF st = "yes" THEN ValVerdictAs(c, d, dts, TRUE)
  ELSE IF st = "no" THEN ValVerdictAs(c, d, dts, FALSE)
  ELSE \* undecided: gfapy must be consistent with ONE of the two readings
       LET a == ValVerdictAs(c, d, dts, TRUE)
           b == ValVerdictAs(c, d, dts, FALSE) IN
       IF a = {} \/ b = {} THEN {} ELSE a \cup b

-----------------------------------------------------------------------------
(* kind "gval": a "val" case whose tag lives on a line that BELONGS TO A Gfa -- the
   header (one value, or the same tag added c.nadd = 2 times), a segment, a link --
   and is written through every path that writes it (Fields!WritePaths): the base
   record is what field_to_s / str of the line itself gave, c.outs the DISTINCT
   observations [w, wchars, s, mark, rb, n] of the other paths (n: how often the tag
   occurs in what that path wrote).  Fields!WrittenAlike: the law of C20 does not
   depend on the path, so every observation is judged by ValVerdict.            *)
GvalOut(c, o) == [c EXCEPT !.w = o.w, !.wchars = o.wchars, !.s = o.s, !.mark = o.mark, !.rb = o.rb]
GvalOutVerdict(c, o) ==
  LET dts == ValDTs(c)
      d == IF c.dt \in dts THEN c.dt ELSE CHOOSE x \in dts : TRUE IN
  ValVerdict(GvalOut(c, o))
  \* every stored value is written exactly once by a path that writes the line
  \cup (IF c.set = "ok" /\ o.s = "ok" /\ ~o.mark /\ (\A x \in dts : InScope(x, c.v))
           /\ RepStatus(d, c.v) = "yes" /\ ~OccurrencesOK(c.nadd, o.n)
        THEN {"C20.readback"} ELSE {})
GvalBase(c) ==
  LET dts == ValDTs(c)
      d == IF c.dt \in dts THEN c.dt ELSE CHOOSE x \in dts : TRUE IN
  ValVerdict(c)
  \cup (IF c.add2 = "FOREIGN" THEN {"foreign"} ELSE {})
  \* adding a second representable value of the same datatype to a header tag is not refused
  \cup (IF c.add2 = "Error" /\ (\A x \in dts : InScope(x, c.v)) /\ RepStatus(d, c.v) = "yes"
        THEN {"C20.readback"} ELSE {})
GvalVerdict(c) == GvalBase(c) \cup UNION {GvalOutVerdict(c, c.outs[i]) : i \in DOMAIN c.outs}
\* 0: the line's own field_to_s / str; k: observation k of c.outs
GvalAt(c) == IF GvalBase(c) # {} \/ \A i \in DOMAIN c.outs : GvalOutVerdict(c, c.outs[i]) = {} THEN 0
             ELSE CHOOSE i \in DOMAIN c.outs : GvalOutVerdict(c, c.outs[i]) # {}
                                               /\ \A j \in 1..(i - 1) : GvalOutVerdict(c, c.outs[j]) = {}

-----------------------------------------------------------------------------
(* kind "hist": one custom tag of one line through set / delete / set(None) /
   set_datatype; after every call the harness records what a "val" case records.
   Fields!HStep gives the tag's state; the per-step verdict is ValVerdictAs with
   the datatype that state prescribes.                                       *)
\* pairs outside InScope about which the claim says nothing ("skip"): an int in an f tag and a
\* list of small ints in an H tag (gfapy's encoders accept both; neither is the Python class the
\* statement lists for the datatype)
HistStatus(d, v) ==
  IF v.k = "none" THEN "no"
  ELSE IF InScope(d, v) THEN RepStatus(d, v)
  ELSE IF (d = "f" /\ v.k = "int") \/ (d = "H" /\ v.k \in {"numlist", "numarray"}) THEN "skip"
  ELSE "no"
HistStepVerdict(lvl, h, st) ==
  LET op == st.op
      o == st.o
      refused == o.set = "Error"
      post == HStep(h, op, refused, o.dt) IN
  IF "FOREIGN" \in {o.set, o.val, o.vf, o.w, o.s, o.rb.res} \/ o.dt = "!FOREIGN" THEN {"foreign"}
  ELSE
    \* a refusal is legitimate only for a value the datatype in force cannot (surely) represent
    (IF refused /\ (op.k # "set" \/ \A d \in HDatatypes(h, op.v) : HistStatus(d, op.v) = "yes")
     THEN {"C20.readback"} ELSE {})
    \cup
    (IF ~post.present THEN
        \* the tag does not exist: not written, and no datatype unless one was declared since
        (IF o.present \/ o.dt # (IF post.dt = "none" THEN "-" ELSE post.dt) THEN {"C20.datatype"} ELSE {})
     ELSE
        LET cc == [lvl |-> lvl, v |-> post.v, set |-> "ok", dt |-> o.dt, val |-> o.val, vf |-> o.vf,
                   w |-> o.w, wchars |-> o.wchars, s |-> o.s, mark |-> o.mark, rb |-> o.rb]
            status == HistStatus(post.dt, post.v)
            a == ValVerdictAs(cc, post.dt, {post.dt}, TRUE)
            b == ValVerdictAs(cc, post.dt, {post.dt}, FALSE) IN
        (IF ~o.present THEN {"C20.datatype"} ELSE {})
        \cup (IF status = "yes" THEN a ELSE IF status = "no" THEN b
              ELSE IF status = "skip" \/ a = {} \/ b = {} THEN {} ELSE a \cup b))
RECURSIVE HistRun(_, _, _)
HistRun(c, j, h) ==
  IF j > Len(c.steps) THEN {}
  ELSE LET v == HistStepVerdict(c.lvl, h, c.steps[j]) IN
       IF v # {} THEN v
       ELSE HistRun(c, j + 1, HStep(h, c.steps[j].op, c.steps[j].o.set = "Error", c.steps[j].o.dt))
HistVerdict(c) == HistRun(c, 1, HState(c.init.present, c.init.dt, c.init.v))
RECURSIVE HistAt(_, _, _)
HistAt(c, j, h) ==
  IF j > Len(c.steps) THEN 0
  ELSE IF HistStepVerdict(c.lvl, h, c.steps[j]) # {} THEN j
  ELSE HistAt(c, j + 1, HStep(h, c.steps[j].op, c.steps[j].o.set = "Error", c.steps[j].o.dt))

-----------------------------------------------------------------------------
(* kind "chist": the history of one custom tag on TWO lines -- a line and the copy the library made
   of it (clone, multiply).  The copy starts with the state of the original (Fields!HCopy); every
   call acts on one of the two (st.tgt); after every call both are observed (st.oo, st.oc).  Each
   line has its own Fields!HState, advanced by the calls on THAT line only: the untouched line
   is judged as after a call that does nothing.  Step 1 is the copying itself.           *)
HNoop == [k |-> "none", v |-> NoVal, t |-> "-"]
ChistOp(st, who) == IF st.tgt = who THEN st.op ELSE HNoop
ChistStepVerdict(lvl, H, st) ==
  LET vo == HistStepVerdict(lvl, H.o, [op |-> ChistOp(st, "orig"), o |-> st.oo])
      vc == HistStepVerdict(lvl, H.c, [op |-> ChistOp(st, "copy"), o |-> st.oc])
      untouched == IF st.tgt = "orig" THEN vc ELSE vo
      touched == IF st.tgt = "orig" THEN vo ELSE vc IN
  vo \cup vc
  \cup (IF untouched # {} /\ st.op.k # "none" THEN {"C19.shared-state"} ELSE {})
  \cup (IF touched # {} \/ (untouched # {} /\ st.op.k = "none") THEN {"C19.copy-not-independent"} ELSE {})
ChistNext(H, st) ==
  HCopies(HStep(H.o, ChistOp(st, "orig"), st.oo.set = "Error", st.oo.dt),
          HStep(H.c, ChistOp(st, "copy"), st.oc.set = "Error", st.oc.dt))
RECURSIVE ChistRun(_, _, _)
ChistRun(c, j, H) ==
  IF j > Len(c.steps) THEN {}
  ELSE LET v == ChistStepVerdict(c.lvl, H, c.steps[j]) IN
       IF v # {} THEN v ELSE ChistRun(c, j + 1, ChistNext(H, c.steps[j]))
RECURSIVE ChistAt(_, _, _)
ChistAt(c, j, H) ==
  IF j > Len(c.steps) THEN 0
  ELSE IF ChistStepVerdict(c.lvl, H, c.steps[j]) # {} THEN j
  ELSE ChistAt(c, j + 1, ChistNext(H, c.steps[j]))
ChistInit(c) == HCopy(HState(c.init.present, c.init.dt, c.init.v))

-----------------------------------------------------------------------------
(* kind "table": the value-class table of the harness (string representatives of the C18
   fields) against the full grammar: a "valid" string must not be rejected by Lex.tla, an
   invalid one must not be accepted.                                          *)
TableVerdict(c) ==
  LET lx == LX!FieldVerdict(c.dt, c.chars) IN
  IF c.cls = "valid" /\ lx # "acc" THEN {"table.valid-not-accepted-by-Lex"}
  ELSE IF c.cls # "valid" /\ lx # "rej" THEN {"table.invalid-not-rejected-by-Lex"}
  ELSE {}

-----------------------------------------------------------------------------
Verdict(c) ==
  CASE Kind = "prog" -> ProgVerdict(c)
    [] Kind = "lvl" -> LvlVerdict(c)
    [] Kind = "clone" -> CloneVerdict(c)
    [] Kind = "edit" -> EditVerdict(c)
    [] Kind = "val" -> ValVerdict(c)
    [] Kind = "gval" -> GvalVerdict(c)
    [] Kind = "table" -> TableVerdict(c)
    [] Kind = "hist" -> HistVerdict(c)
    [] Kind = "chist" -> ChistRun(c, 1, ChistInit(c))
Where(c) == IF Kind = "prog" THEN ProgAt(c, 1, {ProgInit(c)})
            ELSE IF Kind = "hist" THEN HistAt(c, 1, HState(c.init.present, c.init.dt, c.init.v))
            ELSE IF Kind = "gval" THEN GvalAt(c)
            ELSE IF Kind = "chist" THEN ChistAt(c, 1, ChistInit(c))
            ELSE IF Kind = "clone" /\ c.cl = "ok" THEN CloneAt(c, 1, CloneState(c))
            ELSE 0

Init == cid \in 1..Len(Cases)
Next == UNCHANGED cid
Spec == Init /\ [][Next]_vars

\* evaluated once per distinct state = once per case
Judge == LET c == Cases[cid]
             v == Verdict(c) IN
         IF v = {} THEN TRUE ELSE PrintT(<<"REJECT", c.id, v, Where(c)>>)
=============================================================================
