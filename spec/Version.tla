------------------------------- MODULE Version -------------------------------
(* C13, declarative: the version of a document is a function of the SET of its
   lines and of the version given to Gfa(); it does not depend on their order.
   K1 = constructs that exist only in GFA1 (L, C, P, GFA1 segment syntax, VN 1.0),
   K2 = constructs that exist only in GFA2 (E, F, G, O, U, custom records, GFA2
   segment syntax, VN 2.0).                                                   *)
EXTENDS Gfa

Has1(ls) == \E l \in ls : LineVersion(l) = "gfa1" \/ (l.rt = "H" /\ "VN:Z:1.0" \in VNs(l))
Has2(ls) == \E l \in ls : LineVersion(l) = "gfa2" \/ (l.rt = "H" /\ "VN:Z:2.0" \in VNs(l))
HasBad(ls) == \E l \in ls : l.rt = "H" /\ \E v \in VNs(l) : VerOfVN(v) = "bad"

DeclError(cfgv, ls) == \/ HasBad(ls)
                       \/ (Has1(ls) /\ Has2(ls))
                       \/ (cfgv = "gfa1" /\ Has2(ls))
                       \/ (cfgv = "gfa2" /\ Has1(ls))
\* with the dialect: rGFA is a dialect of GFA1
DeclErrorD(cfgv, dialect, ls) == DeclError(cfgv, ls) \/ (dialect = "rgfa" /\ (cfgv = "gfa2" \/ Has2(ls)))
DeclVersion(cfgv, ls) == IF cfgv # "none" THEN cfgv
                         ELSE IF Has1(ls) THEN "gfa1" ELSE "gfa2"
=============================================================================
