------------------------------- MODULE Cigar -------------------------------
(* CIGAR algebra, written from the SAM/GFA definition of the operations.
   A CIGAR is a sequence of [n |-> length, c |-> code]; the placeholder "*" is
   the empty sequence.  Reference-consuming: M = X D N ; query-consuming:
   M = X I S.  The complement (roles of the two sequences exchanged, read
   from the other end) reverses the operations and exchanges I and D; gfapy
   documents that S and N are folded onto D and I.                            *)
EXTENDS Naturals, Sequences, Util

ComplCode(c) == CASE c = "I" -> "D" [] c = "D" -> "I" [] c = "S" -> "D" [] c = "N" -> "I" [] OTHER -> c
Complement(cg) == [i \in 1..Len(cg) |-> [n |-> cg[Len(cg) + 1 - i].n, c |-> ComplCode(cg[Len(cg) + 1 - i].c)]]

RECURSIVE SumLen(_, _)
SumLen(cg, S) == IF cg = <<>> THEN 0
                 ELSE (IF Head(cg).c \in S THEN Head(cg).n ELSE 0) + SumLen(Tail(cg), S)
RefLen(cg)   == SumLen(cg, {"M", "=", "X", "D", "N"})
QueryLen(cg) == SumLen(cg, {"M", "=", "X", "I", "S"})
=============================================================================
