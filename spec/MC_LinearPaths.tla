-------------------------- MODULE MC_LinearPaths --------------------------
(* Enumeration of small sequence graphs for C14 (spec -> code) and check of
   the laws of LinearPaths.tla on every one of them.

   A state is (profile, selection): the selection is an increasing sequence of
   indices into the catalogue of dovetails = every unordered pair of segment
   ends (hairpins = both ends the same end, self-links, links between two
   segments) followed by two "twin" entries (a second, parallel dovetail
   between ends that already carry one, with another overlap; only selectable
   together with the original) and, for every pair, identical twins (a second
   and a third dovetail with the same overlap; GFA2 only, anonymous E lines).
   The profile fixes names, sequences, lengths and overlaps:
     1  letters, every segment with a sequence, overlaps 1M / 2M
     2  letters, segment 2 without sequence (and, in GFA1, without length),
        segment 1 with an explicit LN, overlaps `*` and 1M mixed
     3  integer names (the merged segment is named by unused_name()),
        sequences `*` with explicit lengths except segment 3, overlaps 2M / `*`
     4  letters, sequences; the match-only CIGARs of 1-2 operations over {M, =}
        of total length 1-2: 1=, 2=, 1M1=, 1=1M, 1M1M, 0M2M, 0M1=, 2M
        (GFA2 alignments admit only M: a graph is also written as GFA2 when all
        its overlaps do)
     5  letters, sequences; overlaps 1X, 1M1X, 1=1X (mismatch operation: merging
        with full trim or a clean refusal are both accepted) mixed with 1=, 2M
   Every state is printed as <<"CASE", profile, segments, links>>; the harness
   writes it as GFA1 and as GFA2 text and runs gfapy on it.                   *)
EXTENDS LinearPaths, TLC

CONSTANTS NSeg, MaxLinks, LawLinks

VARIABLES prof, sel
vars == <<prof, sel>>

Profiles == {1, 2, 3, 4, 5}
LetterNames == <<"A", "B", "C", "D">>
DigitNames  == <<"1", "2", "3", "4">>
\* sequences over the whole IUPAC alphabet in both cases: every code occurs in one of the first
\* three segments, each of which is traversed backwards in some enumerated chain
SeqCat == << <<"A", "a", "D", "H", "C", "g", "T", "r", "Y", "k">>,
             <<"d", "h", "B", "v", "M", "m", "S", "w", "N", "c">>,
             <<"G", "t", "b", "V", "R", "y", "K", "W", "s", "n">>,
             <<"H", "d", "M", "a", "C">> >>
ASSUME ComplementLaw
ASSUME UNION {Rng(SeqCat[i]) : i \in 1..3} = DOMAIN ComplUpper \cup DOMAIN ComplLower

NameOf(p, i) == IF p = 3 THEN DigitNames[i] ELSE LetterNames[i]
\* [name, seq, len (always known: GFA2 needs it), ln = 1 when GFA1 text carries LN]
SegRec(p, i) ==
  CASE p \in {1, 4, 5} -> [name |-> NameOf(p, i), seq |-> SeqCat[i], len |-> Len(SeqCat[i]), ln |-> 0]
    [] p = 2 -> [name |-> NameOf(p, i), seq |-> IF i = 2 THEN <<>> ELSE SeqCat[i],
                 len |-> Len(SeqCat[i]), ln |-> IF i = 1 THEN 1 ELSE 0]
    [] p = 3 -> [name |-> NameOf(p, i), seq |-> IF i = 3 THEN SeqCat[i] ELSE <<>>,
                 len |-> Len(SeqCat[i]), ln |-> 1]

NE == 2 * NSeg
EndAt(p, k) == <<NameOf(p, (k + 1) \div 2), IF k % 2 = 1 THEN "L" ELSE "R">>
RECURSIVE PairsFrom(_, _)
PairsFrom(i, j) == IF i > NE THEN <<>>
                   ELSE IF j > NE THEN PairsFrom(i + 1, i + 1)
                   ELSE <<[a |-> i, b |-> j, twin |-> 0]>> \o PairsFrom(i, j + 1)
Plain == PairsFrom(1, 1)
Twins == <<[a |-> 2, b |-> 3, twin |-> 1], [a |-> 1, b |-> 2, twin |-> 1]>>
\* identical twins: a second (twin = 2) and a third (twin = 3) dovetail with the same ends AND the
\* same overlap as a selected one.  GFA1 refuses a repeated link; GFA2 admits any number of
\* anonymous E lines with the same content, so these graphs are written as GFA2 only, all edges `*`.
Ident(t) == [r \in DOMAIN Plain |-> [a |-> Plain[r].a, b |-> Plain[r].b, twin |-> t]]
Cat == Plain \o Twins \o Ident(2) \o Ident(3)
OrigOf(q) == CHOOSE r \in DOMAIN Plain : Plain[r].a = Cat[q].a /\ Plain[r].b = Cat[q].b
\* the entry that must be selected before q: the plain one, for a third dovetail the second one
NeedsOf(q) == IF Cat[q].twin = 3 THEN CHOOSE r \in DOMAIN Cat : Cat[r].twin = 2 /\ Cat[r].a = Cat[q].a /\ Cat[r].b = Cat[q].b
              ELSE OrigOf(q)
IdentProfiles == {1, 2, 3}      \* (profiles whose overlaps are `*` or kM: writable as GFA2)

Op(n, c) == [n |-> n, c |-> c]
KM(k) == IF k < 0 THEN <<>> ELSE <<Op(k, "M")>>
Rich == << <<Op(1, "=")>>, <<Op(2, "=")>>, <<Op(1, "M"), Op(1, "=")>>, <<Op(1, "="), Op(1, "M")>>,
           <<Op(1, "M"), Op(1, "M")>>, <<Op(0, "M"), Op(2, "M")>>, <<Op(0, "M"), Op(1, "=")>>, <<Op(2, "M")>> >>
Mism == << <<Op(1, "X")>>, <<Op(1, "=")>>, <<Op(1, "M"), Op(1, "X")>>, <<Op(2, "M")>>, <<Op(1, "="), Op(1, "X")>> >>
\* the CIGAR of the q-th catalogue entry, written from its first end to its second
RECURSIVE OvOf(_, _)
OvOf(p, q) ==
  IF Cat[q].twin = 1 THEN KM(3)
  ELSE IF Cat[q].twin >= 2 THEN OvOf(p, OrigOf(q))
  ELSE CASE p = 1 -> KM(1 + (q % 2))
         [] p = 2 -> IF q % 3 = 0 THEN KM(-1) ELSE KM(1)
         [] p = 3 -> IF q % 2 = 0 THEN KM(2) ELSE KM(-1)
         [] p = 4 -> Rich[1 + (q % 8)]
         [] p = 5 -> Mism[1 + (q % 5)]

LinkRec(p, q) == [e1 |-> EndAt(p, Cat[q].a), e2 |-> EndAt(p, Cat[q].b), ov |-> OvOf(p, q)]

\* the abstract graph as GFA1 text presents it (length unknown without LN and sequence)
GraphOf(p, s) ==
  [segs |-> {LET r == SegRec(p, i) IN
             [name |-> r.name, seq |-> r.seq,
              len |-> IF r.ln = 1 \/ r.seq # <<>> THEN r.len ELSE -1] : i \in 1..NSeg},
   links |-> [k \in DOMAIN s |-> LET r == LinkRec(p, s[k]) IN [ends |-> {r.e1, r.e2}, ov |-> OvKey(r.ov)]]]
\* ... and as GFA2 text presents it (slen is mandatory)
GraphOf2(p, s) ==
  [segs |-> {LET r == SegRec(p, i) IN [name |-> r.name, seq |-> r.seq, len |-> r.len] : i \in 1..NSeg},
   links |-> GraphOf(p, s).links]

Init == prof \in Profiles /\ sel = <<>>
Next == /\ Len(sel) < MaxLinks
        /\ \E q \in DOMAIN Cat :
             /\ (IF sel = <<>> THEN TRUE ELSE q > sel[Len(sel)])
             /\ Cat[q].twin >= 1 => \E k \in DOMAIN sel : sel[k] = NeedsOf(q)
             /\ Cat[q].twin >= 2 => prof \in IdentProfiles
             /\ sel' = Append(sel, q)
        /\ UNCHANGED prof
Spec == Init /\ [][Next]_vars

Emit == PrintT(<<"CASE", prof,
                 [i \in 1..NSeg |-> LET r == SegRec(prof, i) IN <<r.name, r.seq, r.len, r.ln>>],
                 [k \in DOMAIN sel |-> LET r == LinkRec(prof, sel[k]) IN
                                       <<r.e1[1], r.e1[2], r.e2[1], r.e2[2],
                                         [j \in DOMAIN r.ov |-> <<r.ov[j].n, r.ov[j].c>>],
                                         <<>>, Cat[sel[k]].twin>>]>>)

-----------------------------------------------------------------------------
Laws(G) == /\ ChainsWellFormed(G)
           /\ JoinsCovered(G)
           /\ MergeLocal(G)
           /\ MergeAllFinal(G)
           /\ ComponentsPreserved(G)
           /\ FlipLaw(G)
           /\ LinkCount(G)
           /\ OvLenWellDefined(G)
\* (the laws are evaluated on the states with at most LawLinks dovetails)
InvLaws  == Len(sel) <= LawLinks => Laws(GraphOf(prof, sel))
InvLaws2 == Len(sel) <= LawLinks => Laws(GraphOf2(prof, sel))
\* the same laws one by one (to name the law that fails)
InvWellFormed == ChainsWellFormed(GraphOf(prof, sel))
InvCovered    == JoinsCovered(GraphOf(prof, sel))
InvLocal      == MergeLocal(GraphOf(prof, sel))
InvFinal      == MergeAllFinal(GraphOf(prof, sel))
InvComps      == ComponentsPreserved(GraphOf(prof, sel))
InvFlip       == FlipLaw(GraphOf(prof, sel))
InvCount      == LinkCount(GraphOf(prof, sel))
=============================================================================
