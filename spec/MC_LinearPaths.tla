-------------------------- MODULE MC_LinearPaths --------------------------
(* Enumeration of small sequence graphs for C14 (spec -> code) and check of
   the laws of LinearPaths.tla on every one of them.

   A state is (profile, selection): the selection is an increasing sequence of
   indices into the catalogue of dovetails = every unordered pair of segment
   ends (hairpins = both ends the same end, self-links, links between two
   segments) followed by two "twin" entries (a second, parallel dovetail
   between ends that already carry one, with another overlap; only selectable
   together with the original) and, for every pair, identical twins (a second
   and a third dovetail with the same overlap; GFA2 only, anonymous E lines).
   The profile fixes names, sequences, lengths and overlaps:
     1  letters, every segment with a sequence, overlaps 1M / 2M
     2  letters, segment 2 without sequence (and, in GFA1, without length),
        segment 1 with an explicit LN, overlaps `*` and 1M mixed
     3  integer names (the merged segment is named by unused_name()),
        sequences `*` with explicit lengths except segment 3, overlaps 2M / `*`
     4  letters, sequences; the match-only CIGARs of 1-2 operations over {M, =}
        of total length 1-2: 1=, 2=, 1M1=, 1=1M, 1M1M, 0M2M, 0M1=, 2M
        (GFA2 alignments admit only M: a graph is also written as GFA2 when all
        its overlaps do)
     5  letters, sequences; overlaps 1X, 1M1X, 1=1X (mismatch operation: merging
        with full trim or a clean refusal are both accepted) mixed with 1=, 2M
     6  as 1, with DEPENDANTS on every segment and dovetail (variable deco): lines
        that go when a chain member or an internal dovetail goes, several of them
        in the same reference collection of the line they depend on:
          deco 1  containments: every segment contains the satellites X, Y, Z and is
                  contained twice in the satellite K (GFA1 and GFA2)
          deco 2  GFA1 paths: three one-segment paths per segment, two paths over
                  every dovetail (one in each direction)
          deco 3  GFA2: per segment three fragments, two gaps on each end, two
                  unordered and two ordered groups; two unordered groups per edge
          deco 4  containments of the segments in each other, both ways (GFA1)
        The satellites take no part in any dovetail.
   Every state is printed as <<"CASE", profile, segments, links, containments,
   other lines, whether the graph has a chain>>; the harness writes it as GFA1 and
   as GFA2 text and runs gfapy on it.                                         *)
EXTENDS LinearPaths, TLC

CONSTANTS NSeg, MaxLinks, LawLinks

VARIABLES prof, sel, deco
vars == <<prof, sel, deco>>

Profiles == {1, 2, 3, 4, 5, 6}
Decos == 1..4
LetterNames == <<"A", "B", "C", "D">>
DigitNames  == <<"1", "2", "3", "4">>
\* sequences over the whole IUPAC alphabet in both cases: every code occurs in one of the first
\* three segments, each of which is traversed backwards in some enumerated chain
SeqCat == << <<"A", "a", "D", "H", "C", "g", "T", "r", "Y", "k">>,
             <<"d", "h", "B", "v", "M", "m", "S", "w", "N", "c">>,
             <<"G", "t", "b", "V", "R", "y", "K", "W", "s", "n">>,
             <<"H", "d", "M", "a", "C">> >>
ASSUME ComplementLaw
ASSUME UNION {Rng(SeqCat[i]) : i \in 1..3} = DOMAIN ComplUpper \cup DOMAIN ComplLower

NameOf(p, i) == IF p = 3 THEN DigitNames[i] ELSE LetterNames[i]
\* [name, seq, len (always known: GFA2 needs it), ln = 1 when GFA1 text carries LN]
SegRec(p, i) ==
  CASE p \in {1, 4, 5, 6} -> [name |-> NameOf(p, i), seq |-> SeqCat[i], len |-> Len(SeqCat[i]), ln |-> 0]
    [] p = 2 -> [name |-> NameOf(p, i), seq |-> IF i = 2 THEN <<>> ELSE SeqCat[i],
                 len |-> Len(SeqCat[i]), ln |-> IF i = 1 THEN 1 ELSE 0]
    [] p = 3 -> [name |-> NameOf(p, i), seq |-> IF i = 3 THEN SeqCat[i] ELSE <<>>,
                 len |-> Len(SeqCat[i]), ln |-> 1]

NE == 2 * NSeg
EndAt(p, k) == <<NameOf(p, (k + 1) \div 2), IF k % 2 = 1 THEN "L" ELSE "R">>
RECURSIVE PairsFrom(_, _)
PairsFrom(i, j) == IF i > NE THEN <<>>
                   ELSE IF j > NE THEN PairsFrom(i + 1, i + 1)
                   ELSE <<[a |-> i, b |-> j, twin |-> 0]>> \o PairsFrom(i, j + 1)
Plain == PairsFrom(1, 1)
Twins == <<[a |-> 2, b |-> 3, twin |-> 1], [a |-> 1, b |-> 2, twin |-> 1]>>
\* identical twins: a second (twin = 2) and a third (twin = 3) dovetail with the same ends AND the
\* same overlap as a selected one.  GFA1 refuses a repeated link; GFA2 admits any number of
\* anonymous E lines with the same content, so these graphs are written as GFA2 only, all edges `*`.
Ident(t) == [r \in DOMAIN Plain |-> [a |-> Plain[r].a, b |-> Plain[r].b, twin |-> t]]
Cat == Plain \o Twins \o Ident(2) \o Ident(3)
OrigOf(q) == CHOOSE r \in DOMAIN Plain : Plain[r].a = Cat[q].a /\ Plain[r].b = Cat[q].b
\* the entry that must be selected before q: the plain one, for a third dovetail the second one
NeedsOf(q) == IF Cat[q].twin = 3 THEN CHOOSE r \in DOMAIN Cat : Cat[r].twin = 2 /\ Cat[r].a = Cat[q].a /\ Cat[r].b = Cat[q].b
              ELSE OrigOf(q)
IdentProfiles == {1, 2, 3}      \* (profiles whose overlaps are `*` or kM: writable as GFA2)

Op(n, c) == [n |-> n, c |-> c]
KM(k) == IF k < 0 THEN <<>> ELSE <<Op(k, "M")>>
Rich == << <<Op(1, "=")>>, <<Op(2, "=")>>, <<Op(1, "M"), Op(1, "=")>>, <<Op(1, "="), Op(1, "M")>>,
           <<Op(1, "M"), Op(1, "M")>>, <<Op(0, "M"), Op(2, "M")>>, <<Op(0, "M"), Op(1, "=")>>, <<Op(2, "M")>> >>
Mism == << <<Op(1, "X")>>, <<Op(1, "=")>>, <<Op(1, "M"), Op(1, "X")>>, <<Op(2, "M")>>, <<Op(1, "="), Op(1, "X")>> >>
\* the CIGAR of the q-th catalogue entry, written from its first end to its second
RECURSIVE OvOf(_, _)
OvOf(p, q) ==
  IF Cat[q].twin = 1 THEN KM(3)
  ELSE IF Cat[q].twin >= 2 THEN OvOf(p, OrigOf(q))
  ELSE CASE p \in {1, 6} -> KM(1 + (q % 2))
         [] p = 2 -> IF q % 3 = 0 THEN KM(-1) ELSE KM(1)
         [] p = 3 -> IF q % 2 = 0 THEN KM(2) ELSE KM(-1)
         [] p = 4 -> Rich[1 + (q % 8)]
         [] p = 5 -> Mism[1 + (q % 5)]

LinkRec(p, q) == [e1 |-> EndAt(p, Cat[q].a), e2 |-> EndAt(p, Cat[q].b), ov |-> OvOf(p, q)]

\* the abstract graph as GFA1 text presents it (length unknown without LN and sequence)
GraphOf(p, s) ==
  [segs |-> {LET r == SegRec(p, i) IN
             [name |-> r.name, seq |-> r.seq,
              len |-> IF r.ln = 1 \/ r.seq # <<>> THEN r.len ELSE -1] : i \in 1..NSeg},
   links |-> [k \in DOMAIN s |-> LET r == LinkRec(p, s[k]) IN [ends |-> {r.e1, r.e2}, ov |-> OvKey(r.ov)]]]
\* ... and as GFA2 text presents it (slen is mandatory)
GraphOf2(p, s) ==
  [segs |-> {LET r == SegRec(p, i) IN [name |-> r.name, seq |-> r.seq, len |-> r.len] : i \in 1..NSeg},
   links |-> GraphOf(p, s).links]

Init == prof \in Profiles /\ sel = <<>> /\ deco \in (IF prof = 6 THEN Decos ELSE {0})
Next == /\ Len(sel) < MaxLinks
        /\ prof = 6 => Len(sel) < 3        \* graphs with dependants: at most three dovetails
        /\ \E q \in DOMAIN Cat :
             /\ (IF sel = <<>> THEN TRUE ELSE q > sel[Len(sel)])
             /\ Cat[q].twin >= 1 => \E k \in DOMAIN sel : sel[k] = NeedsOf(q)
             /\ Cat[q].twin >= 2 => prof \in IdentProfiles
             /\ sel' = Append(sel, q)
        /\ UNCHANGED <<prof, deco>>
Spec == Init /\ [][Next]_vars

-----------------------------------------------------------------------------
(* dependants (profile 6) *)
Sat == << <<"X", <<"A", "c">>>>, <<"Y", <<"G", "t">>>>, <<"Z", <<"T", "A">>>>,
          <<"K", <<"A", "A", "C", "C", "G", "G", "T", "T", "A", "C", "G", "T", "A", "C">>>> >>
SatSegs(d) == IF d = 0 THEN <<>> ELSE [k \in DOMAIN Sat |-> <<Sat[k][1], Sat[k][2], Len(Sat[k][2]), 0>>]
RECURSIVE FlatMap(_, _, _)
FlatMap(F(_), n, i) == IF i > n THEN <<>> ELSE F(i) \o FlatMap(F, n, i + 1)
\* containments <<container, orientation, contained, orientation, position, overlap length (-1 = `*`), tags, id>>
DecoConts(p, d) ==
  LET N(i) == NameOf(p, i) IN
  IF d = 1 THEN FlatMap(LAMBDA i : << <<N(i), "+", "X", "+", 1, 2, <<>>, "*">>, <<N(i), "+", "Y", "-", 2, -1, <<>>, "*">>,
                                     <<N(i), "-", "Z", "+", 3, 2, <<>>, "*">>,
                                     <<"K", "+", N(i), "+", i, -1, <<>>, "*">>, <<"K", "-", N(i), "+", 0, -1, <<>>, "*">> >>,
                        NSeg, 1)
  ELSE IF d = 4 THEN FlatMap(LAMBDA i : FlatMap(LAMBDA j : IF j <= i THEN <<>> ELSE
                                      << <<N(i), "+", N(j), "+", 0, -1, <<>>, "*">>, <<N(j), "-", N(i), "+", 1, -1, <<>>, "*">> >>,
                                      NSeg, 1), NSeg, 1)
  ELSE <<>>
\* other lines, as sequences of fields
OrientOut(e) == IF e[2] = "R" THEN "+" ELSE "-"
OrientIn(e)  == IF e[2] = "L" THEN "+" ELSE "-"
Flip(o) == IF o = "+" THEN "-" ELSE "+"
DecoLines(p, d, s) ==
  LET N(i) == NameOf(p, i)
      T(i) == ToString(i) IN
  IF d = 2 THEN
    FlatMap(LAMBDA i : << <<"P", "p" \o T(i) \o "a", N(i) \o "+", "*">>, <<"P", "p" \o T(i) \o "b", N(i) \o "-", "*">>,
                          <<"P", "p" \o T(i) \o "c", N(i) \o "+", "*">> >>, NSeg, 1)
    \o FlatMap(LAMBDA k : LET r == LinkRec(p, s[k]) IN
                << <<"P", "q" \o T(k), r.e1[1] \o OrientOut(r.e1) \o "," \o r.e2[1] \o OrientIn(r.e2), "*">>,
                   <<"P", "r" \o T(k), r.e2[1] \o Flip(OrientIn(r.e2)) \o "," \o r.e1[1] \o Flip(OrientOut(r.e1)), "*">> >>,
                Len(s), 1)
  ELSE IF d = 3 THEN
    FlatMap(LAMBDA i : << <<"F", N(i), "ext1+", "0", "2", "0", "2", "*">>, <<"F", N(i), "ext2-", "1", "3", "0", "2", "*">>,
                          <<"F", N(i), "ext1+", "2", "3", "5", "6", "*">>,
                          <<"G", "*", N(i) \o "+", "X+", "5", "*">>, <<"G", "*", N(i) \o "+", "Y-", "5", "*">>,
                          <<"G", "g" \o T(i), N(i) \o "-", "Z+", "7", "*">>, <<"G", "*", N(i) \o "-", "X-", "7", "2">>,
                          <<"U", "u" \o T(i) \o "a", N(i) \o " X">>, <<"U", "u" \o T(i) \o "b", "Y " \o N(i)>>,
                          <<"O", "o" \o T(i) \o "a", N(i) \o "+">>, <<"O", "o" \o T(i) \o "b", N(i) \o "-">> >>, NSeg, 1)
    \o FlatMap(LAMBDA k : << <<"U", "v" \o T(k) \o "a", "e" \o T(k) \o " X">>, <<"U", "v" \o T(k) \o "b", "K e" \o T(k)>> >>,
                Len(s), 1)
  ELSE <<>>
\* the versions a decoration can be written in (0 = both)
DecoVer(d) == CASE d = 2 -> 1 [] d = 4 -> 1 [] d = 3 -> 2 [] OTHER -> 0

Emit == PrintT(<<"CASE", prof,
                 [i \in 1..NSeg |-> LET r == SegRec(prof, i) IN <<r.name, r.seq, r.len, r.ln>>] \o SatSegs(deco),
                 [k \in DOMAIN sel |-> LET r == LinkRec(prof, sel[k]) IN
                                       <<r.e1[1], r.e1[2], r.e2[1], r.e2[2],
                                         [j \in DOMAIN r.ov |-> <<r.ov[j].n, r.ov[j].c>>],
                                         <<>>, Cat[sel[k]].twin>>],
                 DecoConts(prof, deco), DecoLines(prof, deco, sel), DecoVer(deco),
                 IF prof = 6 /\ Chains(GraphOf(prof, sel)) # {} THEN 1 ELSE 0>>)

-----------------------------------------------------------------------------
Laws(G) == /\ ChainsWellFormed(G)
           /\ JoinsCovered(G)
           /\ MergeLocal(G)
           /\ MergeAllFinal(G)
           /\ ComponentsPreserved(G)
           /\ FlipLaw(G)
           /\ LinkCount(G)
           /\ OvLenWellDefined(G)
\* (the laws are evaluated on the states with at most LawLinks dovetails)
\* (the dependants of profile 6 do not enter the graph of the laws: once per selection)
InvLaws  == (Len(sel) <= LawLinks /\ deco <= 1) => Laws(GraphOf(prof, sel))
InvLaws2 == (Len(sel) <= LawLinks /\ deco <= 1) => Laws(GraphOf2(prof, sel))
\* the same laws one by one (to name the law that fails)
InvWellFormed == ChainsWellFormed(GraphOf(prof, sel))
InvCovered    == JoinsCovered(GraphOf(prof, sel))
InvLocal      == MergeLocal(GraphOf(prof, sel))
InvFinal      == MergeAllFinal(GraphOf(prof, sel))
InvComps      == ComponentsPreserved(GraphOf(prof, sel))
InvFlip       == FlipLaw(GraphOf(prof, sel))
InvCount      == LinkCount(GraphOf(prof, sel))
=============================================================================
