------------------------------ MODULE TraceDoc ------------------------------
(* code -> spec for C01.  The harness parsed each document through every chosen
   configuration and recorded, purely syntactically, what gfapy wrote.  One TLC
   state per group (document x tag variant); a group lists its DISTINCT recorded
   outcomes (the harness keeps which configurations produced which outcome).

   Data = [pool   |-> abstract records (project.abstract_text + structured tags),
           texts  |-> distinct written lines: [p |-> pool index, inv |-> 0/1 (the text
                      contains the "# INVALID" marker), virt |-> 0/1 (contains the
                      virtual-line marker tag)],
           groups |-> [id, kind ("enum"/"rand"), ver, cat |-> [doc, tv, ord], inp,
                       outs |-> [res, s, tfres, tf, tfterm, lres, ls, lv, r2res, r2]]]
     s  = lines of str(gfa);  tf = lines of the file written by to_file, tfterm = 1 iff
     every line of it is newline-terminated;  ls = [str(l) for l in gfa.lines],
     lv = their `virtual` attributes;  r2 = lines of str(Gfa(str(gfa))).  All as text ids.

   Verdict: <<"REJECT", group id, outcome index, clauses>>; outcome index 0 = a
   clause about the group as a whole.  <<"MACHINERY", id, what>> = the harness or
   the catalogue is wrong (never a verdict about gfapy).                          *)
EXTENDS Doc, Json, IOUtils

Data   == JsonDeserialize(IOEnv.TRACE_FILE)
Pool   == Data.pool
Texts  == Data.texts
Groups == Data.groups

VARIABLE g

ErrRes == {"Error", "NotUniqueError", "VersionError", "NotFoundError"}

\* a custom record arrives with all its fields and their shapes: Doc!Resolve decides which are tags
RecOf(tid) == Resolve(Pool[Texts[tid].p])
LoggedBag(tids) == BagOf(SeqMap(LAMBDA t : NormC(RecOf(t)), tids))

\* complete identity of an abstract line (catalogue self-check)
Full(l) == [rt |-> l.rt, name |-> l.name, refs |-> l.refs, f |-> l.f, fc |-> l.fc, num |-> l.num, ovs |-> l.ovs,
            tags |-> {<<l.tg[i].n, l.tg[i].t, l.tg[i].v, l.tg[i].sub, l.tg[i].el>> : i \in DOMAIN l.tg}]

CatOK(G, inp) ==
  G.kind # "enum" \/
  LET ls == DocLines(G.ver, Rng(G.cat.doc), G.cat.tv, G.cat.ord) IN
  /\ Len(ls) = Len(inp)
  /\ G.cat.doc = DocOrder(Rng(G.cat.doc), G.cat.ord)
  /\ \A j \in DOMAIN ls : Full(ls[j]) = Full(inp[j])

-----------------------------------------------------------------------------
(* difference between a logged bag and the reference normal form, in words *)
PosKey(x) == <<x.rt, x.name, x.refs, x.f, x.fc>>
CountIn(B, x) == IF x \in DOMAIN B THEN B[x] ELSE 0
DiffClauses(L, E) ==
  LET miss == {x \in DOMAIN E : CountIn(L, x) < E[x]}
      add  == {x \in DOMAIN L : CountIn(E, x) < L[x]}
      tagp == {p \in miss \X add : p[1].rt # "H" /\ PosKey(p[1]) = PosKey(p[2])}
      fldp == {p \in miss \X add : p[1].rt # "H" /\ p[1].rt = p[2].rt /\ p[1].name = p[2].name
                                   /\ p[1].tags = p[2].tags /\ PosKey(p[1]) # PosKey(p[2])}
      expl == tagp \cup fldp
      m0 == {x \in miss : x.rt # "H" /\ ~\E p \in expl : p[1] = x}
      a0 == {x \in add : x.rt # "H" /\ ~\E p \in expl : p[2] = x}
  IN (IF tagp # {} THEN {"C01.tags"} ELSE {})
     \cup (IF fldp # {} THEN {"C01.field"} ELSE {})
     \cup (IF m0 # {} THEN {"C01.missing"} ELSE {})
     \cup (IF a0 # {} THEN {"C01.added"} ELSE {})
     \cup (IF \E x \in miss \cup add : x.rt = "H" THEN {"C01.header"} ELSE {})

BagFails(tids, canon, ref) ==
  LET L == LoggedBag(tids) IN IF L \in canon THEN {} ELSE DiffClauses(L, ref)

MarkerFails(tids) ==
  (IF \E k \in DOMAIN tids : Texts[tids[k]].inv = 1 THEN {"C01.invalid-marker"} ELSE {})
  \cup (IF \E k \in DOMAIN tids : Texts[tids[k]].virt = 1 THEN {"C01.virtual-marker"} ELSE {})

Foreign(r) == IF r = "FOREIGN" THEN {"foreign"} ELSE {}

OutFails(o, canon, ref) ==
  IF o.res = "FOREIGN" THEN {"foreign"}
  ELSE IF o.res # "ok" THEN {"C01.refused"}
  ELSE
    \* the written text
    BagFails(o.s, canon, ref) \cup MarkerFails(o.s)
    \* to_file = str(gfa) with every line terminated
    \cup (IF o.tfres # "ok" THEN {"C01.to_file"} \cup Foreign(o.tfres)
          ELSE (IF o.tf = o.s /\ o.tfterm = 1 THEN {} ELSE {"C01.to_file"}) \cup MarkerFails(o.tf))
    \* the line objects the Gfa lists
    \cup (IF o.lres # "ok" THEN {"C01.lines"} \cup Foreign(o.lres)
          ELSE BagFails(o.ls, canon, ref) \cup MarkerFails(o.ls)
               \cup (IF \E k \in DOMAIN o.lv : o.lv[k] = 1 THEN {"C01.virtual-marker"} ELSE {}))
    \* second round: same text again
    \cup (IF o.r2res # "ok" THEN {"C01.fixpoint"} \cup Foreign(o.r2res)
          ELSE IF o.r2 = o.s THEN {} ELSE {"C01.fixpoint"})

Judge(i) ==
  LET G == Groups[i]
      inp == SeqMap(LAMBDA p : Resolve(Pool[p]), G.inp) IN
  IF ~CatOK(G, inp) THEN PrintT(<<"MACHINERY", G.id, "catalogue">>)
  ELSE IF ~IsValidDoc(inp, G.ver) THEN PrintT(<<"MACHINERY", G.id, "invalid-document">>)
  ELSE
    LET canon == Canon(inp)
        ref == CanonRef(inp)
        fails == [k \in DOMAIN G.outs |-> OutFails(G.outs[k], canon, ref)] IN
    /\ \A k \in DOMAIN G.outs : IF fails[k] = {} THEN TRUE ELSE PrintT(<<"REJECT", G.id, k, fails[k]>>)
    /\ IF (\E k \in DOMAIN fails : fails[k] = {}) /\ (\E k \in DOMAIN fails : fails[k] # {})
       THEN PrintT(<<"REJECT", G.id, 0, {"C01.entrypoint"}>>) ELSE TRUE

Init == g \in 1..Len(Groups) /\ Judge(g)
Next == UNCHANGED g
Spec == Init /\ [][Next]_g
=============================================================================
