------------------------------- MODULE Groups -------------------------------
(* GFA2 groups (property C17), written from the GFA2 specification text:

     "U/O-lines with the same name are considered to be concatenated together
      in the order in which they appear, and a group list may refer to another
      group recursively.  An unordered collection defined in a U-line refers to
      the subgraph induced by the vertices and edges in the collection (i.e. one
      adds all edges between a pair of segments in the list and one adds all
      segments adjacent to edges in the list).  An ordered collection defined
      in an O-line captures paths in the graph consisting of the listed objects
      and the implied adjacent objects between consecutive objects in the list
      (e.g. the edge between two consecutive segments, the segment between two
      consecutive edges, etc.)  A set can contain a reference to paths, but not
      vice versa, in which case the orientation of the objects in the path
      become irrelevant. ... there may be several edges between a given pair of
      segments ... an unordered collection refers to all such edges"

   A document D is a sequence of abstract lines (shape of Gfa.tla: rt name
   refs num tags tagn ...), multi-line groups already merged.

   THE STRICT READING (CapturedPath, InducedSet) is the one of the property
   statement: a captured path is a walk in the bidirected graph.
     - an oriented edge e+ leads from sid1 to sid2 in the orientations written
       on the E line; e- leads from the inverse of sid2 to the inverse of sid1;
     - two consecutive segment items x y imply the edge between them when
       EXACTLY ONE dovetail E line can be traversed from x to y (none:
       "not-contiguous", several: "ambiguous").  Containments and internal
       alignments do not join the end of x to the start of y, so they are not
       candidates (they can still be listed explicitly);
     - an edge item implies its two segments; consecutive items must be
       contiguous: the oriented segment at which one item ends is the one at
       which the next starts (a segment implied by an edge and then listed
       explicitly is the same walk element, not a repetition);
     - a nested path is inlined, and reversed (items in reverse order, every
       orientation inverted) when referenced with "-";
     - an undefined identifier, or a path nested in itself: "unresolved";
       an item that is neither segment, edge nor path: "bad-item".
     - induced set: all segments mentioned directly, through edges (both
       segments of the edge), through paths and through nested sets to any
       depth (least fixpoint, so cyclic nesting terminates), plus EVERY E line
       both of whose segments are in that set ("one adds all edges between a
       pair of segments in the list": not only the listed edges, and edges of
       every kind -- an E line is an edge whatever its alignment looks like).

   THE RELAXED READING (Readings, PathWalks / PathMayFail, SetMayFail / SetMayAnswer) collects what
   can also be defended from the GFA2 text, which never defines "between":
     - cand: the implied edge may be looked for among ALL E lines joining the
       two oriented segments (gfapy) instead of among the dovetails only;
     - dir: an E line that is not a dovetail written from its exit segment to
       its entry segment (containment, internal alignment, or a dovetail whose
       positions say sid2 -> sid1) has no geometry that agrees with the order
       of its two segment fields; the written direction, the direction of the
       positions (where they give one), or either direction are accepted for it.
       For a dovetail written sid1(suffix) -> sid2(prefix) the syntax and the
       geometry agree, and only that direction is a walk;
     A nested path is always read as inlined (its items in place of the
     reference): gfapy's treatment of the first segment of a nested path as
     "listed" even when an edge supplied it makes `b- p-` fail where `p+ b+`
     succeeds, and is a defect (groups-6), not a reading.
   A reading (Readings: cand x dir) is held for a whole path.  The trace
   specification accepts a walk iff it is an outcome of some reading, and an
   error iff under some reading the path has no walk at all (PathMayFail); the
   strict answer is always acceptable (checked by TLC in MC_Groups:
   StrictInRelaxed).  A reading is also held for the whole DOCUMENT: the
   answers to all groups of one document must be explained by one and the same
   reading (an implementation that travels an internal alignment against its
   written order in `x+ b+` cannot refuse `x+ y+` on the ground that the
   written order is binding) -- TraceGroups, clause C17.reading.              *)
EXTENDS Gfa

-----------------------------------------------------------------------------
(* SAME-IDENTIFIER MERGE *)

RECURSIVE MergedItems(_)
\* ls: the lines of one identifier in arrival order
MergedItems(ls) == IF ls = <<>> THEN <<>> ELSE Head(ls).refs \o MergedItems(Tail(ls))
MergedTags(ls) == UNION {Rng(ls[i].tags) : i \in DOMAIN ls}
\* line l gives a tag of the group g a different value
Contradicts(g, l) ==
  \E i \in DOMAIN g.tags, j \in DOMAIN l.tags : g.tagn[i] = l.tagn[j] /\ g.tags[i] # l.tags[j]

-----------------------------------------------------------------------------
(* DELIVERY of a line to a document: a further line of an existing group is
   merged into it (items appended, tags united) unless it contradicts a tag,
   in which case it is refused and the document is unchanged.                *)
SelfRef(l) == l.name \in RefIds(l)
Deliver(D, l) ==
  IF l.rt \in {"O", "U"} /\ \E i \in DOMAIN D : D[i].rt = l.rt /\ D[i].name = l.name
  THEN LET i == CHOOSE i \in DOMAIN D : D[i].rt = l.rt /\ D[i].name = l.name IN
       IF Contradicts(D[i], l) THEN [d |-> D, ok |-> FALSE]
       ELSE [d |-> [D EXCEPT ![i] = MergeGroup(@, l)], ok |-> TRUE]
  ELSE [d |-> Append(D, l), ok |-> TRUE]
RECURSIVE DeliverAll(_, _)
DeliverAll(D, ls) == IF ls = <<>> THEN D ELSE DeliverAll(Deliver(D, Head(ls)).d, Tail(ls))

-----------------------------------------------------------------------------
(* THE GRAPH OF A DOCUMENT *)

NoLine == [rt |-> "none", name |-> "*", refs |-> <<>>, num |-> <<>>]
LineNamed(D, id) ==
  IF id # "*" /\ \E i \in DOMAIN D : D[i].name = id /\ D[i].rt \in {"S", "E", "G", "O", "U"}
  THEN D[CHOOSE i \in DOMAIN D : D[i].name = id /\ D[i].rt \in {"S", "E", "G", "O", "U"}]
  ELSE NoLine
EdgeIdxOf(D) == {i \in DOMAIN D : D[i].rt = "E"}

EFrom(e, d) == IF d = "+" THEN e.refs[1] ELSE InvRef(e.refs[2])
ETo(e, d)   == IF d = "+" THEN e.refs[2] ELSE InvRef(e.refs[1])
\* a dovetail written from the segment it leaves to the segment it enters
Canonical(e) ==
  /\ IsDovetail(e)
  /\ Oriented(Kind(e.num[1], e.num[2], e.num[3], e.num[4]), e.refs[1].o) = "sfx"

Strict  == [cand |-> {"dovetail"}, dir |-> "syn"]

\* the <<from, to>> pairs of oriented segments that traversing e as e^d joins.
\*   dir = "syn"  the direction written on the E line (sid1 -> sid2)
\*   dir = "geo"  the direction the positions give to a dovetail (exit segment ->
\*                entry segment); none for other alignments: both ways
\*   dir = "free" both ways whenever writing and positions do not agree
\* For a dovetail written exit -> entry all three coincide.
Travs(e, d, R) ==
  LET b == <<EFrom(e, d), ETo(e, d)>>
      r == <<b[2], b[1]>> IN
  IF R.dir = "syn" \/ Canonical(e) THEN {b}
  ELSE IF R.dir = "geo" /\ IsDovetail(e) THEN {r}
  ELSE {b, r}
\* <<index of an E line, orientation>> that lead from x to y
Cands(D, R, mode, x, y) ==
  {p \in EdgeIdxOf(D) \X {"+", "-"} :
     /\ mode = "all" \/ IsDovetail(D[p[1]])
     /\ <<x, y>> \in Travs(D[p[1]], p[2], R)}

-----------------------------------------------------------------------------
(* WALKS.  An outcome is either a walk w (alternating oriented segments and
   oriented edges, first and last a segment) with two flags: ps = its first
   segment was supplied by an edge item, pe = its last segment was supplied by
   an edge item -- or an error kind.  All fields always present.             *)

Good(w, ps, pe) == [ok |-> TRUE, w |-> w, ps |-> ps, pe |-> pe, kind |-> ""]
Err(k) == [ok |-> FALSE, w |-> <<>>, ps |-> FALSE, pe |-> FALSE, kind |-> k]

RevWalk(w) == [i \in 1..Len(w) |-> InvRef(w[Len(w) + 1 - i])]
OrientOut(r, d) == IF d = "+" \/ ~r.ok THEN r ELSE Good(RevWalk(r.w), r.pe, r.ps)

\* the listed segment x after the non-empty walk of s
PushSeg(D, R, s, x) ==
  LET last == s.w[Len(s.w)] IN
  IF s.pe THEN (IF last = x THEN {[s EXCEPT !.pe = FALSE]} ELSE {Err("not-contiguous")})
  ELSE UNION {
         LET c == Cands(D, R, m, last, x)
             es == {p[1] : p \in c} IN
         IF es = {} THEN {Err("not-contiguous")}
         ELSE IF Cardinality(es) > 1 THEN {Err("ambiguous")}
         ELSE {Good(s.w \o <<[id |-> D[p[1]].name, o |-> p[2]], x>>, s.ps, FALSE) : p \in c}
         : m \in R.cand}

\* the walk sub (of one item, a nested path being inlined) after the walk of s:
\* a first segment that an edge supplied must be the segment the walk has reached
\* (and is not repeated); a first segment that was listed is pushed like any segment
Splice(D, R, s, sub) ==
  IF s.w = <<>> THEN {sub}
  ELSE
    LET last == s.w[Len(s.w)]
        first == IF sub.ps
                 THEN (IF last = sub.w[1] THEN {s} ELSE {Err("not-contiguous")})
                 ELSE PushSeg(D, R, s, sub.w[1]) IN
    UNION {IF ~t.ok THEN {t}
           ELSE IF Len(sub.w) = 1 THEN {t}
           ELSE {Good(t.w \o Tail(sub.w), t.ps, sub.pe)}
           : t \in first}

RECURSIVE WalksOf(_, _, _, _), FoldItems(_, _, _, _, _), ItemOutcomes(_, _, _, _)
\* the outcomes of one oriented item on its own; stack = the paths being expanded
ItemOutcomes(D, R, x, stack) ==
  LET ln == LineNamed(D, x.id) IN
  CASE ln.rt = "S" -> {Good(<<x>>, FALSE, FALSE)}
    [] ln.rt = "E" -> {Good(<<t[1], x, t[2]>>, TRUE, TRUE) : t \in Travs(ln, x.o, R)}
    [] ln.rt = "O" -> IF x.id \in stack THEN {Err("unresolved")}
                      ELSE {OrientOut(r, x.o) : r \in WalksOf(D, R, ln.refs, stack \cup {x.id})}
    [] ln.rt = "none" -> {Err("unresolved")}
    [] OTHER -> {Err("bad-item")}
FoldItems(D, R, S, items, stack) ==
  IF items = <<>> THEN S
  ELSE LET subs == ItemOutcomes(D, R, Head(items), stack)
           S2 == UNION {IF ~s.ok THEN {s}
                        ELSE UNION {IF ~sub.ok THEN {sub} ELSE Splice(D, R, s, sub) : sub \in subs}
                        : s \in S} IN
       FoldItems(D, R, S2, Tail(items), stack)
WalksOf(D, R, items, stack) == FoldItems(D, R, {Good(<<>>, FALSE, FALSE)}, items, stack)

\* every outcome the reading R allows for the ordered group named o
PathOutcomes(D, R, o) == WalksOf(D, R, LineNamed(D, o).refs, {o})
\* the defensible readings: where the implied edge is looked for x which way an E line
\* that is not a dovetail written exit -> entry may be travelled.  A reading is held
\* for the whole path (and the paths nested in it).  Inside a reading the travelling
\* direction of such an E line is a choice: the path HAS a walk when some choice gives one
Readings == {[cand |-> {m}, dir |-> d] : m \in {"dovetail", "all"}, d \in {"syn", "geo", "free"}}
\* the outcomes of the path o under every reading (evaluate once, pass down)
ByReading(D, o) == [R \in Readings |-> PathOutcomes(D, R, o)]
\* the walks that are acceptable answers: the outcomes of some reading
WalksIn(B) == {r.w : r \in {x \in UNION {B[R] : R \in DOMAIN B} : x.ok}}
\* an error is an acceptable answer: under some reading NO choice gives a walk.
\* (Not: "some choice of some reading fails" -- a path that has a walk under every
\* reading has to be answered with a walk, e.g. a nested path mentioned twice, or a
\* first item that is an internal alignment followed by a path that starts at one
\* of its two segments.)
MayFailIn(B) == \E R \in DOMAIN B : \A r \in B[R] : ~r.ok
\* the same under ONE reading: a reading is held for the whole document
WalksUnder(B, R) == {r.w : r \in {x \in B[R] : x.ok}}
PathWalks(D, o) == WalksIn(ByReading(D, o))
PathMayFail(D, o) == MayFailIn(ByReading(D, o))

\* the strict answer.  (Its outcomes differ at most in the orientation given to
\* a supplied hairpin edge, which joins x to y read either way: any of them.)
StrictAnswer(S) ==
  IF \E r \in S : r.ok THEN [ok |-> TRUE, walk |-> (CHOOSE r \in S : r.ok).w]
  ELSE [ok |-> FALSE, kind |-> (CHOOSE r \in S : TRUE).kind]
CapturedPath(D, o) == StrictAnswer(PathOutcomes(D, Strict, o))

\* (by position: a supplied edge may be an unnamed one, written "*")
SegsOfWalk(D, w)  == [i \in 1..((Len(w) + 1) \div 2) |-> w[2 * i - 1]]
EdgesOfWalk(D, w) == [i \in 1..(Len(w) \div 2) |-> w[2 * i]]

-----------------------------------------------------------------------------
(* INDUCED SETS *)

\* identifiers reachable from X through the item lists of groups (fixpoint)
RECURSIVE ReachIds(_, _)
ReachIds(D, X) ==
  LET Y == X \cup UNION {RefIds(LineNamed(D, id)) : id \in {z \in X : LineNamed(D, z).rt \in {"O", "U"}}} IN
  IF Y = X THEN X ELSE ReachIds(D, Y)
MentionedIds(D, u) == ReachIds(D, RefIds(LineNamed(D, u)))

SegsMentioned(D, u) ==
  LET M == MentionedIds(D, u) IN
  {id \in M : LineNamed(D, id).rt = "S"}
    \cup UNION {{LineNamed(D, id).refs[1].id, LineNamed(D, id).refs[2].id}
                : id \in {z \in M : LineNamed(D, z).rt = "E"}}
\* an E line as it can be told apart in an answer: its name and what it joins where
\* (unnamed edges all carry the name "*")
EdgeKeyOf(e) == <<e.name, e.refs, e.num>>
EdgeIdxWithin(D, X) == {j \in EdgeIdxOf(D) : D[j].refs[1].id \in X /\ D[j].refs[2].id \in X}
EdgesWithin(D, X) == {D[i].name : i \in EdgeIdxWithin(D, X)}
\* the induced edges as a bag of keys: EVERY E line counts, also several unnamed ones
\* and several that are written identically
EdgeBagWithin(D, X) == BagOf(SeqMap(LAMBDA i : EdgeKeyOf(D[i]), SetToSeq(EdgeIdxWithin(D, X))))

Unresolved(D, u) == \E id \in MentionedIds(D, u) : LineNamed(D, id).rt = "none"
BadSetItem(D, u) == \E id \in MentionedIds(D, u) : LineNamed(D, id).rt \notin {"S", "E", "O", "U", "none"}
\* a set reached through a path ("a set can contain a reference to paths, but not vice versa")
SetInPath(D, u) == \E id \in MentionedIds(D, u) \cup {u} :
   LineNamed(D, id).rt = "O" /\ \E z \in RefIds(LineNamed(D, id)) : LineNamed(D, z).rt = "U"
\* the set is nested, directly or not, in itself (or in a set it reaches)
CyclicSets(D, u) == \E id \in MentionedIds(D, u) \cup {u} :
   LineNamed(D, id).rt = "U" /\ id \in MentionedIds(D, id)
PathsReached(D, u) == {id \in MentionedIds(D, u) : LineNamed(D, id).rt = "O"}

InducedSet(D, u) ==
  IF Unresolved(D, u) THEN [ok |-> FALSE, kind |-> "unresolved"]
  ELSE IF BadSetItem(D, u) \/ SetInPath(D, u) THEN [ok |-> FALSE, kind |-> "bad-item"]
  ELSE LET X == SegsMentioned(D, u) IN [ok |-> TRUE, segs |-> X, edges |-> EdgesWithin(D, X)]

\* an error is an acceptable answer for the set u: something is unresolved or
\* not a legal item, a path it reaches has (under some reading) no unique walk
\* (gfapy resolves a nested path to its captured segments), or the nesting of
\* sets is cyclic (a definition the GFA2 text neither allows nor forbids)
SetMayFail(D, u) ==
  \/ Unresolved(D, u) \/ BadSetItem(D, u) \/ SetInPath(D, u) \/ CyclicSets(D, u)
  \/ \E p \in PathsReached(D, u) : PathMayFail(D, p)
\* the same under the one reading R
SetMayFailUnder(D, u, R) ==
  \/ Unresolved(D, u) \/ BadSetItem(D, u) \/ SetInPath(D, u) \/ CyclicSets(D, u)
  \/ \E p \in PathsReached(D, u) : \A r \in PathOutcomes(D, R, p) : ~r.ok
\* a set is an acceptable answer: the segments mentioned and all edges between them
SetMayAnswer(D, u) == ~BadSetItem(D, u) /\ ~SetInPath(D, u)
=============================================================================
