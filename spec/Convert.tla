------------------------------ MODULE Convert ------------------------------
(* GFA1 <-> GFA2 conversion, record by record, written from the GFA1 and GFA2
   specification texts (not from gfapy).  Pure functions; every verdict of the
   C06 check is computed with them (TraceConvert), and MC_Convert checks the
   round-trip and validity laws on these functions themselves.

   Conventions taken from the specifications
   * GFA1 `L from fo to to_o ov`: a suffix of the oriented from-segment is
     aligned to a prefix of the oriented to-segment; the CIGAR has the
     (oriented) from-segment as reference and the to-segment as query.
   * GFA1 `C container co contained cdo pos ov`: same roles (container =
     reference); the whole contained segment is aligned.
   * GFA2 `E id sid1 sid2 b1 e1 b2 e2 al`: positions are on the forward strand
     of each segment, a position equal to the segment length carries `$`;
     the CIGAR has the oriented sid1 interval as reference and the oriented
     sid2 interval as query, read left to right along the oriented sequences.
   * hence the same alignment can be written in four ways (EForms): as given;
     with sid1/sid2 exchanged (I and D exchanged, same reading direction);
     with both orientations inverted (operations reversed); both (= the
     complement of Cigar.tla, which is what the complement of a link uses).

   Records
     geometry of an edge (version independent):
        [s1, o1, s2, o2, n = <<b1,b1$,e1,e1$,b2,b2$,e2,e2$>>, al, star]
        star = TRUE: the alignment is unspecified (`*`, or a trace that GFA1
        cannot express); al = <<>> then.
     GFA1 edge: [t = "L"|"C"|"I", from, fo, to, too, ov, star, pos]
        ("I": no GFA1 counterpart -- internal alignment)                     *)
EXTENDS Naturals, Integers, Sequences, FiniteSets, Cigar

EC == INSTANCE EdgeClass

SwapID(cg) == [i \in 1..Len(cg) |-> [n |-> cg[i].n, c |-> ComplCode(cg[i].c)]]
Dollar(p, len) == IF p = len THEN 1 ELSE 0
N8(b1, e1, l1, b2, e2, l2) ==
  <<b1, Dollar(b1, l1), e1, Dollar(e1, l1), b2, Dollar(b2, l2), e2, Dollar(e2, l2)>>

Geo(s1, o1, s2, o2, n, al, star) ==
  [s1 |-> s1, o1 |-> o1, s2 |-> s2, o2 |-> o2, n |-> n, al |-> al, star |-> star]
G1(t, from, fo, to, too, ov, star, pos) ==
  [t |-> t, from |-> from, fo |-> fo, to |-> to, too |-> too, ov |-> ov, star |-> star, pos |-> pos]

-----------------------------------------------------------------------------
(* segments and header *)

\* a segment, version independent: [name, seq (text), len, tags]; tags is a set
\* of <<tag name, tag text>>.  In GFA1 the length is the LN tag or, without
\* one, the length of the sequence; len = -1: no length (no GFA2 counterpart,
\* must be refused).  LN is not a member of `tags` on either side: it *is* len.
Seg(name, seq, len, tags) == [name |-> name, seq |-> seq, len |-> len, tags |-> tags]
S1Len(ln, seqlen) == IF ln >= 0 THEN ln ELSE seqlen
S1ToS2(s) == Seg(s.name, s.seq, s.len, s.tags)       \* LN <-> slen: the identity on this form
S2ToS1(s) == Seg(s.name, s.seq, s.len, s.tags)
SegHasGfa2(s) == s.len >= 0
HeaderVN(target) == IF target = "gfa2" THEN "VN:Z:2.0" ELSE "VN:Z:1.0"

-----------------------------------------------------------------------------
(* GFA1 -> GFA2 edges *)

LinkFits(l, lf, lt) == l.star = FALSE /\ RefLen(l.ov) <= lf /\ QueryLen(l.ov) <= lt
LinkToEdge(l, lf, lt) ==
  LET r == RefLen(l.ov)
      q == QueryLen(l.ov)
      b1 == IF l.fo = "+" THEN lf - r ELSE 0       \* suffix of from+ / prefix of the forward strand for from-
      e1 == IF l.fo = "+" THEN lf ELSE r
      b2 == IF l.too = "+" THEN 0 ELSE lt - q
      e2 == IF l.too = "+" THEN q ELSE lt
  IN Geo(l.from, l.fo, l.to, l.too, N8(b1, e1, lf, b2, e2, lt), l.ov, FALSE)

\* rev = TRUE: `pos` counted on the reverse strand of a reversed container
\* (the GFA1 text does not say; DESIGN C06 oracle choice (c))
ContFits(c, lf, lt) == c.star = FALSE /\ c.pos + RefLen(c.ov) <= lf
ContainmentToEdgeR(c, lf, lt, rev) ==
  LET r == RefLen(c.ov)
      b1 == IF rev THEN lf - c.pos - r ELSE c.pos
  IN Geo(c.from, c.fo, c.to, c.too, N8(b1, b1 + r, lf, 0, lt, lt), c.ov, FALSE)
ContainmentToEdge(c, lf, lt) == ContainmentToEdgeR(c, lf, lt, FALSE)
ContainmentToEdgeSet(c, lf, lt) ==
  {ContainmentToEdgeR(c, lf, lt, FALSE)} \cup
  (IF c.fo = "-" THEN {ContainmentToEdgeR(c, lf, lt, TRUE)} ELSE {})

Gfa1Fits(x, lf, lt) == IF x.t = "L" THEN LinkFits(x, lf, lt) ELSE ContFits(x, lf, lt)
Gfa1ToEdge(x, lf, lt) == IF x.t = "L" THEN LinkToEdge(x, lf, lt) ELSE ContainmentToEdge(x, lf, lt)
Gfa1ToEdgeSet(x, lf, lt) == IF x.t = "L" THEN {LinkToEdge(x, lf, lt)} ELSE ContainmentToEdgeSet(x, lf, lt)

\* the four ways of writing one edge
SwapN(n) == <<n[5], n[6], n[7], n[8], n[1], n[2], n[3], n[4]>>
F1(g) == g
F2(g) == Geo(g.s2, g.o2, g.s1, g.o1, SwapN(g.n), SwapID(g.al), g.star)              \* sides exchanged
F3(g) == Geo(g.s1, Inv(g.o1), g.s2, Inv(g.o2), g.n, Reverse(g.al), g.star)         \* read on the other strand
F4(g) == Geo(g.s2, Inv(g.o2), g.s1, Inv(g.o1), SwapN(g.n), Complement(g.al), g.star) \* both
EForms(g) == {F1(g), F2(g), F3(g), F4(g)}
EquivE(g, h) == h \in EForms(g)

\* validity of an E line in GFA2 given the segment lengths
ValidIv(b, bl, e, el, len) == b <= e /\ e <= len /\ (bl = 1) = (b = len) /\ (el = 1) = (e = len)
ValidE(g, l1, l2) == ValidIv(g.n[1], g.n[2], g.n[3], g.n[4], l1) /\ ValidIv(g.n[5], g.n[6], g.n[7], g.n[8], l2)
\* the CIGAR spans exactly the two intervals (needed for an E line to be
\* expressible in GFA1 without changing the intervals)
Consistent(g) == g.star \/ (RefLen(g.al) = g.n[3] - g.n[1] /\ QueryLen(g.al) = g.n[7] - g.n[5])

-----------------------------------------------------------------------------
(* GFA2 -> GFA1 edges *)

K1(g) == EC!Kind(g.n[1], g.n[2], g.n[3], g.n[4])
K2(g) == EC!Kind(g.n[5], g.n[6], g.n[7], g.n[8])
ClassOf(g) == EC!Class(g.o1, g.o2, g.n).t
Internal(g) == ClassOf(g) = "I"

EdgeToLink(g) ==       \* defined when ClassOf(g) = "L"
  IF EC!Oriented(K1(g), g.o1) = "sfx"                 \* sid1 is `from`
  THEN G1("L", g.s1, g.o1, g.s2, g.o2, g.al, g.star, 0)
  ELSE G1("L", g.s2, g.o2, g.s1, g.o1, SwapID(g.al), g.star, 0)
EdgeToContainment(g) ==  \* defined when ClassOf(g) = "C"
  IF K2(g) = "whole"                                   \* sid1 is the container
  THEN G1("C", g.s1, g.o1, g.s2, g.o2, g.al, g.star, g.n[1])
  ELSE G1("C", g.s2, g.o2, g.s1, g.o1, SwapID(g.al), g.star, g.n[5])
NoGfa1 == G1("I", "", "", "", "", <<>>, TRUE, 0)
EdgeToGfa1(g) == LET t == ClassOf(g) IN
  IF t = "L" THEN EdgeToLink(g) ELSE IF t = "C" THEN EdgeToContainment(g) ELSE NoGfa1

ComplLink(l) == G1("L", l.to, Inv(l.too), l.from, Inv(l.fo), Complement(l.ov), l.star, 0)

\* everything a correct converter may write for g (lc = length of the container
\* it picks): the two forms of a link; for a containment either side when both
\* intervals are whole, and either strand reading of pos for a reversed container
EdgeToGfa1Set(g, l1, l2) ==
  LET t == ClassOf(g) IN
  IF t = "L" THEN {EdgeToLink(g), ComplLink(EdgeToLink(g))}
  ELSE IF t = "C" THEN
    LET P1 == {g.n[1]} \cup (IF g.o1 = "-" THEN {l1 - g.n[3]} ELSE {})
        P2 == {g.n[5]} \cup (IF g.o2 = "-" THEN {l2 - g.n[7]} ELSE {})
    IN (IF K2(g) = "whole" THEN {G1("C", g.s1, g.o1, g.s2, g.o2, g.al, g.star, p) : p \in P1} ELSE {})
       \cup (IF K1(g) = "whole" THEN {G1("C", g.s2, g.o2, g.s1, g.o1, SwapID(g.al), g.star, p) : p \in P2} ELSE {})
  ELSE {}

\* equivalence of two GFA1 edges: they denote the same GFA2 edge
Equiv1(x, y, lenOf(_)) ==
  /\ Gfa1Fits(x, lenOf(x.from), lenOf(x.to)) /\ Gfa1Fits(y, lenOf(y.from), lenOf(y.to))
  /\ \E gx \in Gfa1ToEdgeSet(x, lenOf(x.from), lenOf(x.to)),
        gy \in Gfa1ToEdgeSet(y, lenOf(y.from), lenOf(y.to)) : EquivE(gx, gy)

-----------------------------------------------------------------------------
(* paths.  A walk = the oriented segments visited (a circular GFA1 path
   repeats its first segment at the end) and, per step, the set of edges
   (geometries) that can carry the step.  An edge carries the step sa -> sb
   when, read as a dovetail link, it goes from sa to sb (traversal "+") or
   from Inv(sb) to Inv(sa) (traversal "-").                                  *)

Ors(id, o) == [id |-> id, o |-> o]
InvOrs(s) == [id |-> s.id, o |-> Inv(s.o)]

\* a GFA1 link l carries sa->sb with the overlap the path states (hasov)
LinkDirect(l, sa, sb, hasov, ov) ==
  l.from = sa.id /\ l.fo = sa.o /\ l.to = sb.id /\ l.too = sb.o /\ (~hasov \/ l.star \/ l.ov = ov)
LinkCompl(l, sa, sb, hasov, ov) ==
  l.from = sb.id /\ l.fo = Inv(sb.o) /\ l.to = sa.id /\ l.too = Inv(sa.o)
    /\ (~hasov \/ l.star \/ l.ov = Complement(ov))
LinkCarries(l, sa, sb, hasov, ov) == LinkDirect(l, sa, sb, hasov, ov) \/ LinkCompl(l, sa, sb, hasov, ov)

\* a GFA2 edge g (a dovetail) carries sa->sb with traversal sign sg ("" = any)
EdgeCarries(g, sa, sb, sg) ==
  /\ ClassOf(g) = "L"
  /\ LET l == EdgeToLink(g) IN
     \/ sg \in {"+", ""} /\ LinkDirect(l, sa, sb, FALSE, <<>>)
     \/ sg \in {"-", ""} /\ LinkCompl(l, sa, sb, FALSE, <<>>)

\* The traversal sign says which of the two links is read: "+" the link as
\* written, "-" its complement.  For most links the oriented segments of the
\* step already decide the sign; for a hairpin (`L a + a -`, `L a - a +`) the
\* link and its complement join the same oriented segments, and only the
\* alignment tells the two readings apart: an asymmetric CIGAR read in the
\* other direction is a different statement about the sequences.
ReadLink(l, sg) == IF sg = "-" THEN ComplLink(l) ELSE l
LinkReads(l, sg, sa, sb, hasov, ov) == LinkDirect(ReadLink(l, sg), sa, sb, hasov, ov)
Signs(sg) == IF sg = "" THEN {"+", "-"} ELSE {sg}
\* signs with which link l can serve the step sa -> sb of a path stating ov
StepSigns(l, sa, sb, hasov, ov) == {s \in {"+", "-"} : LinkReads(l, s, sa, sb, hasov, ov)}
\* overlaps read on the step sa -> sb through link l traversed with sign sg ("" = any)
LinkReadOvs(l, sg, sa, sb) ==
  {ReadLink(l, s).ov : s \in {t \in Signs(sg) : LinkReads(l, t, sa, sb, FALSE, <<>>)}}
EdgeReadOvs(g, sg, sa, sb) == IF ClassOf(g) = "L" THEN LinkReadOvs(EdgeToLink(g), sg, sa, sb) ELSE {}
Hairpin(l) == l.t = "L" /\ l.from = l.to /\ l.fo # l.too

\* Ordered groups written on several lines and nested groups (GFA2 text: O lines
\* with the same identifier are one group, their item lists concatenated in the
\* order of the lines; an item may be another O group, whose path is walked at
\* that place -- backwards, every orientation inverted, when the item is `-`).
\* groups: function  group name -> merged item list;  items: [id, o].
InvItem(it) == [id |-> it.id, o |-> Inv(it.o)]
RevInv(s) == [i \in 1..Len(s) |-> InvItem(s[Len(s) + 1 - i])]
RECURSIVE FlatSeq(_)
FlatSeq(ss) == IF ss = <<>> THEN <<>> ELSE Head(ss) \o FlatSeq(Tail(ss))
RECURSIVE ExpandItems(_, _, _)
ExpandItems(items, groups, d) ==
  IF items = <<>> THEN <<>> ELSE
  LET it == Head(items)
      rest == ExpandItems(Tail(items), groups, d) IN
  IF d > 0 /\ it.id \in DOMAIN groups THEN
    LET sub == ExpandItems(groups[it.id], groups, d - 1) IN
    (IF it.o = "-" THEN RevInv(sub) ELSE sub) \o rest
  ELSE <<it>> \o rest
MaxNesting == 4

\* identity of an edge inside a path comparison: oriented pair + alignment
\* (the intervals are judged by the edge clauses)
PathKey(g) == {[s1 |-> h.s1, o1 |-> h.o1, s2 |-> h.s2, o2 |-> h.o2, al |-> h.al, star |-> h.star] : h \in EForms(g)}
SameEdgeForPath(g, h) == PathKey(g) = PathKey(h)

\* closed walk of a GFA1 path: segs = seq of Ors, circular flag
P1Walk(segs, circular) == IF circular THEN Append(segs, segs[1]) ELSE segs
\* P -> O: the walk with one edge reference between consecutive segments
PathToOrdered(walk, refs) ==
  [k \in 1..(2 * Len(walk) - 1) |-> IF k % 2 = 1 THEN walk[(k + 1) \div 2] ELSE refs[k \div 2]]
\* O -> P: the segments of the item list, in order (edge items only say which
\* edge carries the step between their neighbours)
OrderedToPath(items, IsSeg(_)) == SelectSeq(items, IsSeg)
=============================================================================
