------------------------------ MODULE TracePerm ------------------------------
(* C03, literal form: all arrival orders of one (strict) document must leave
   the same Gfa.  The harness logs, per document, the digest of the complete
   final observation (version, written lines, names, lookups, for every line
   its reference targets and back-reference collections, path traversal flags,
   components, counters) of every order; TLC requires them to be equal.      *)
EXTENDS Naturals, Sequences, FiniteSets, Json, IOUtils, TLC

Groups == JsonDeserialize(IOEnv.TRACE_FILE)
VARIABLES g, done
Init == g \in 1..Len(Groups) /\ done = FALSE
Same(d) == \A i, j \in DOMAIN d : d[i] = d[j]
Next == /\ ~done /\ done' = TRUE /\ UNCHANGED g
        /\ IF Same(Groups[g].digs) /\ Same(Groups[g].res) THEN TRUE
           ELSE PrintT(<<"REJECT", Groups[g].id, 0, {"order"}, "perm">>)
Spec == Init /\ [][Next]_<<g, done>>
=============================================================================
