-------------------------------- MODULE Doc --------------------------------
(* C01 -- parse -> write round trip.

   (a) a line catalogue for GFA1 and GFA2, written here as abstract lines; the
       GFA text of every line is GENERATED from the abstract line (Text), so the
       text the harness feeds to gfapy and the record the verdict is computed
       from have one source.  The harness abstracts the generated text again
       (project.abstract_text) and TraceDoc checks that this gives the record
       back (clause "catalogue": a machinery failure, never a verdict).
   (b) IsValidDoc: which sequences of abstract lines are a valid document
       (identifiers unique, every mention defined, version-consistent record
       types, links of every path present, consecutive segments of an ordered
       group joined by an edge, E positions inside the segment, VN/TS single
       valued).  ValidDocs(ver, k): the valid documents of <= k catalogue lines.
       SeedDocs(ver, k): dependency closures of <= k seed lines, the generator
       MC_Doc uses (every one is checked to satisfy IsValidDoc).
   (c) Canon(lines): the writer normal form = SET of allowed output bags.
       Relational where the statement leaves freedom: order of lines and tags,
       which complement form of a doubly-given link is kept, number spelling.

   Abstract line (harness/project.py shape, tags structured):
     rt name refs f num ovs tg
     tg = sequence of [n |-> name, t |-> datatype letter,
                       v |-> "T:value" text, sub |-> B subtype or "", el |-> B elements]
     sh = <<>>, except for a user-defined (custom) record as the harness delivers it:
          there f holds ALL fields after the record type, tg is empty and sh gives the
          syntactic shape of every field (see "CUSTOM RECORDS" below); Resolve draws the
          boundary between positional fields and tags.                              *)
EXTENDS Gfa, TLC

-----------------------------------------------------------------------------
(* text helpers *)
RECURSIVE JoinS(_, _)
JoinS(s, sep) == IF s = <<>> THEN ""
                 ELSE IF Len(s) = 1 THEN s[1]
                 ELSE s[1] \o sep \o JoinS(Tail(s), sep)

RECURSIVE AscFrom(_)
AscFrom(S) == IF S = {} THEN <<>>
              ELSE LET m == CHOOSE x \in S : \A y \in S : x <= y IN <<m>> \o AscFrom(S \ {m})

-----------------------------------------------------------------------------
(* TAGS and the spelling table *)

Tg(n, t, val) == [n |-> n, t |-> t, v |-> t \o ":" \o val, sub |-> "", el |-> <<>>]
TgB(n, sub, el) == [n |-> n, t |-> "B", v |-> "B:" \o sub \o "," \o JoinS(el, ","), sub |-> sub, el |-> el]
TagText(t) == t.n \o ":" \o t.v

(* spelling -> canonical spelling, keyed by "datatype:value".  Entries are pairs of
   spellings of the SAME value ("canonical spelling of numbers/JSON"):
     i   an optional "+" sign, "-0": same integer
     f   exponent / trailing zero / missing fraction: same real number
     J   insignificant white space between JSON tokens (RFC 8259 section 2)
     B   float elements as for f.  Integer arrays are not table entries but a rule of
         CT below: same element texts under ANY integer subtype letter, because the
         letter is a function of the range of the elements (gfapy doc/tutorial/tags.rst:
         "the smallest possible subtype range is selected") -- (name, B, list of numbers)
         is kept, e.g.  B:i,1,2 -> B:C,1,2
   A, Z, H have a single spelling: identity entries only.  Identity entries list the
   values of the catalogue whose written text is fully predicted.                    *)
SpellTo ==
     ("A:x" :> "A:x")
  @@ ("i:5" :> "i:5") @@ ("i:+5" :> "i:5") @@ ("i:-0" :> "i:0") @@ ("i:0" :> "i:0")
  @@ ("i:-12" :> "i:-12")
  @@ ("i:1" :> "i:1") @@ ("i:2" :> "i:2") @@ ("i:3" :> "i:3") @@ ("i:6" :> "i:6") @@ ("i:10" :> "i:10")
  @@ ("f:1.5" :> "f:1.5") @@ ("f:1.50" :> "f:1.5")
  @@ ("f:1e3" :> "f:1000.0") @@ ("f:1000.0" :> "f:1000.0")
  @@ ("f:0.1234567891" :> "f:0.1234567891")
  @@ ("f:-5" :> "f:-5.0") @@ ("f:-5.0" :> "f:-5.0")
  @@ ("Z:with space" :> "Z:with space") @@ ("Z:x" :> "Z:x")
  @@ ("Z:1.0" :> "Z:1.0") @@ ("Z:2.0" :> "Z:2.0")
  @@ ("J:{\"a\": 1}" :> "J:{\"a\": 1}") @@ ("J:{\"a\":1}" :> "J:{\"a\": 1}")
  @@ ("J:[1,2.5,\"x\",null,true]" :> "J:[1, 2.5, \"x\", null, true]")
  @@ ("J:[1, 2.5, \"x\", null, true]" :> "J:[1, 2.5, \"x\", null, true]")
  @@ ("J:[1, 2]" :> "J:[1, 2]")
  \* JSON escapes (RFC 8259 section 7): \uXXXX in either case of the hex digits, \/ and an escaped
  \* ASCII letter are spellings of the same string; a character outside printable ASCII can only be
  \* given (and written) escaped, a field being printable ASCII
  @@ ("J:{\"lab\":\"Universit\\u00e9\",\"\\u00b5\":[1,2]}" :> "J:{\"lab\": \"Universit\\u00e9\", \"\\u00b5\": [1, 2]}")
  @@ ("J:{\"lab\": \"Universit\\u00e9\", \"\\u00b5\": [1, 2]}" :> "J:{\"lab\": \"Universit\\u00e9\", \"\\u00b5\": [1, 2]}")
  @@ ("J:[\"\\u00E9\\u65e5\",\"\\ud83d\\ude00\"]" :> "J:[\"\\u00e9\\u65e5\", \"\\ud83d\\ude00\"]")
  @@ ("J:[\"\\u00e9\\u65e5\", \"\\ud83d\\ude00\"]" :> "J:[\"\\u00e9\\u65e5\", \"\\ud83d\\ude00\"]")
  @@ ("J:[\"a\\/b\",\"\\u0041\",\"q\\\"\\\\\"]" :> "J:[\"a/b\", \"A\", \"q\\\"\\\\\"]")
  @@ ("J:[\"a/b\", \"A\", \"q\\\"\\\\\"]" :> "J:[\"a/b\", \"A\", \"q\\\"\\\\\"]")
  @@ ("J:[\"\\n\\t\\b\\f\\r\",\"\\u000a\\u001f\\u007f\"]" :> "J:[\"\\n\\t\\b\\f\\r\", \"\\n\\u001f\\u007f\"]")
  @@ ("J:[\"\\n\\t\\b\\f\\r\", \"\\n\\u001f\\u007f\"]" :> "J:[\"\\n\\t\\b\\f\\r\", \"\\n\\u001f\\u007f\"]")
  @@ ("H:1AE3" :> "H:1AE3")
  @@ ("B:f,1.5,2.0" :> "B:f,1.5,2.0")
  @@ ("B:f,1,2.5" :> "B:f,1.0,2.5") @@ ("B:f,1.0,2.5" :> "B:f,1.0,2.5")

IntSub == {"c", "C", "s", "S", "i", "I"}
(* canonical tag: in the table -> the table decides; otherwise (values of the random
   driver) integers/strings/JSON must keep their text, a B array of integers must keep
   its element texts under an integer subtype, floats are only held to the fixed point *)
CT(t) ==
  IF t.t = "B" /\ t.sub \in IntSub THEN <<t.n, "B:int", t.el>>
  ELSE IF t.v \in DOMAIN SpellTo THEN <<t.n, SpellTo[t.v]>>
  ELSE IF t.t = "f" THEN <<t.n, "f:~">>
  ELSE IF t.t = "B" /\ t.sub = "f" THEN <<t.n, "B:f~", Len(t.el)>>
  ELSE <<t.n, t.v>>
CTags(l) == {CT(l.tg[i]) : i \in DOMAIN l.tg}

(* tag variants: every datatype, canonical and non-canonical spellings *)
Var == <<
  Tg("aa", "A", "x"),
  Tg("ia", "i", "5"), Tg("ib", "i", "+5"), Tg("ic", "i", "-0"), Tg("in", "i", "-12"),
  Tg("fa", "f", "1.5"), Tg("fb", "f", "1e3"), Tg("fc", "f", "1.50"),
  Tg("fd", "f", "0.1234567891"), Tg("fe", "f", "-5"),
  Tg("za", "Z", "with space"),
  Tg("ja", "J", "{\"a\": 1}"), Tg("jb", "J", "{\"a\":1}"), Tg("jc", "J", "[1,2.5,\"x\",null,true]"), Tg("jd", "J", "[1, 2]"),
  Tg("je", "J", "{\"lab\":\"Universit\\u00e9\",\"\\u00b5\":[1,2]}"), Tg("jf", "J", "[\"\\u00E9\\u65e5\",\"\\ud83d\\ude00\"]"),
  Tg("jg", "J", "[\"a\\/b\",\"\\u0041\",\"q\\\"\\\\\"]"), Tg("jh", "J", "[\"\\n\\t\\b\\f\\r\",\"\\u000a\\u001f\\u007f\"]"),
  Tg("ha", "H", "1AE3"),
  TgB("ba", "C", <<"1", "2">>), TgB("bb", "i", <<"1", "2">>),
  TgB("bc", "f", <<"1.5", "2.0">>), TgB("bd", "f", <<"1", "2.5">>), TgB("be", "c", <<"-1", "2">>) >>
NVar == Len(Var)
Datatypes == {"A", "i", "f", "Z", "J", "H", "B"}
ASSUME {Var[i].t : i \in DOMAIN Var} = Datatypes
\* the written form of every catalogue tag is fully predicted
ASSUME \A i \in DOMAIN Var : Var[i].v \in DOMAIN SpellTo \/ (Var[i].t = "B" /\ Var[i].sub \in IntSub)

(* tags added to the line at position j (1-based) of a document under variant tv:
   tv = 0 none; otherwise a rotating variant, two of them on even positions *)
VarIdx(tv, j) ==
  IF tv = 0 THEN <<>>
  ELSE LET a == ((tv + j - 2) % NVar) + 1 IN
       IF j % 2 = 0 THEN <<a, (a % NVar) + 1>> ELSE <<a>>
VariantTags(tv, j) == SeqMap(LAMBDA a : Var[a], VarIdx(tv, j))

-----------------------------------------------------------------------------
(* CATALOGUE *)
Rf(id, o) == [id |-> id, o |-> o]
COp(n, c) == [n |-> n, c |-> c]
\* fc: for every element of f that contains a character outside printable ASCII / tab, its
\* sequence of code points (the element of f is then the marker CpMark); <<>> otherwise.
\* TLC cannot write control characters, so such content lives in the specification as numbers
\* and the harness builds the text from them.
CpMark == "<cp>"
MkLine(rt, name, refs, f, num, ovs, tg) ==
  [rt |-> rt, name |-> name, refs |-> refs, f |-> f, fc |-> [i \in DOMAIN f |-> <<>>],
   num |-> num, ovs |-> ovs, tg |-> tg, sh |-> <<>>]

Hd(tg)            == MkLine("H", "*", <<>>, <<>>, <<>>, <<>>, tg)
Cm(text)          == MkLine("#", "*", <<>>, <<text>>, <<>>, <<>>, <<>>)
\* num of a GFA1 segment: the LN tag, else the length of the sequence, else -1 (project.py)
S1(n, seq, len, tg) == MkLine("S", n, <<>>, <<seq>>, <<len>>, <<>>, tg)
Lk(a, ao, b, bo, ov, ops, id) == MkLine("L", id, <<Rf(a, ao), Rf(b, bo)>>, <<ov>>, <<>>, <<ops>>, <<>>)
Ct(a, ao, b, bo, pos, ov, ops, id) == MkLine("C", id, <<Rf(a, ao), Rf(b, bo)>>, <<pos, ov>>, <<>>, <<ops>>, <<>>)
Pa(n, refs, ov, ops) == MkLine("P", n, refs, <<ov>>, <<>>, ops, <<>>)
S2(n, len, lentxt, seq) == MkLine("S", n, <<>>, <<lentxt, seq>>, <<len>>, <<>>, <<>>)
Ed(n, r1, r2, pos, num, aln, ops) == MkLine("E", n, <<r1, r2>>, pos \o <<aln>>, num, <<ops>>, <<>>)
Gp(n, r1, r2, dist, var) == MkLine("G", n, <<r1, r2>>, <<dist, var>>, <<>>, <<>>, <<>>)
\* refs[1] = the segment, refs[2] = the external sequence (not a graph identifier)
Fr(s, ext, exto, pos, aln) == MkLine("F", "*", <<Rf(s, ""), Rf(ext, exto)>>, pos \o <<aln>>, <<>>, <<>>, <<>>)
Og(n, refs) == MkLine("O", n, refs, <<>>, <<>>, <<>>, <<>>)
Ug(n, ids)  == MkLine("U", n, SeqMap(LAMBDA x : Rf(x, ""), ids), <<>>, <<>>, <<>>, <<>>)
Cu(rt, f)   == MkLine(rt, "*", <<>>, f, <<>>, <<>>, <<>>)
\* comment / custom record whose free text contains special characters (given as code points)
CmCp(cps)   == [Cm(CpMark) EXCEPT !.fc = <<cps>>]
CuCp(rt, f, fc) == [Cu(rt, f) EXCEPT !.fc = fc]
HasCp(l) == \E i \in DOMAIN l.fc : l.fc[i] # <<>>

(* Characters that are content of a line for GFA but a line boundary for some text tools
   (Python str.splitlines): VT FF FS GS RS NEL LS PS.  A comment is "any text up to the end of
   the line" (GFA1: "#" lines, GFA2: "# <any text>"), so each of them is comment content.  The
   GFA2 specification gives no grammar for the fields of a user-defined record and gfapy's generic
   datatype excludes only tab and newline: the ASCII ones are used in a custom-record field too.
   CR and LF are the terminator characters themselves and are not used.                        *)
SplitChars == <<11, 12, 28, 29, 30, 133, 8232, 8233>>
NAsciiSplit == 5
SpecialComments == [k \in DOMAIN SplitChars |-> CmCp(<<32, 97, SplitChars[k], 98>>)]       \* "# a?b"
SpecialCustom == [k \in 1..NAsciiSplit |->
                    CuCp("X", <<"k", CpMark>>, <<<<>>, <<112, SplitChars[k], 113>>>>)]       \* "X k p?q"

-----------------------------------------------------------------------------
(* CUSTOM RECORDS: the boundary between positional fields and tags.

   A user-defined record has no declared number of positional fields; this is the one place
   where the boundary is not given by the record type.  The rule (gfapy doc/tutorial/
   custom_records.rst, "the fields are parsed from the last to the first. As soon as a field is
   found which does not resemble a tag, all remaining fields are considered positionals"):
   reading from the right, a field is a tag as long as
     - it has the shape  name:letter:value  (name = letter + letter/digit, value non-empty
       printable ASCII: decided syntactically by the harness, which delivers the pieces in sh),
     - the letter is one of the seven datatypes,
     - the value can be a value of that datatype (BadVals: table of the values of the catalogue
       and of the random driver which cannot; every other value they use can),
     - no tag further right has the same name (a line has one tag per name);
   the first field for which this fails, and everything left of it, is positional: written
   back character by character, no spelling normalisation, whatever it looks like.
   The rule does not mention the validation level: the same document has the same records
   at every level.                                                                        *)
NoShape == [n |-> "", t |-> "", v |-> "", sub |-> "", el |-> <<>>]
BadVals == {"A:xy", "i:abc", "i:1.5", "i:0x1F", "f:abc", "f:1.5x", "J:{", "J:[1,]", "H:1AE", "H:XYZW",
            "B:c,300", "B:c,-129", "B:C,-1", "B:C,256", "B:s,40000", "B:S,-1", "B:S,65536",
            "B:i,2147483648", "B:I,-1", "B:q,3", "B:c,x", "B:c,1.5", "B:f,abc"}
Taggable(s) == s.t \in Datatypes /\ s.v \notin BadVals
\* index of the first tag of the field sequence whose shapes are sh (Len(sh) + 1: no tag)
RECURSIVE TagStart(_, _, _)
TagStart(sh, i, seen) ==
  IF i = 0 THEN 1
  ELSE IF Taggable(sh[i]) /\ sh[i].n \notin seen THEN TagStart(sh, i - 1, seen \cup {sh[i].n})
  ELSE i + 1
Resolve(l) ==
  IF l.sh = <<>> THEN l
  ELSE LET b == TagStart(l.sh, Len(l.sh), {}) IN
       [l EXCEPT !.f = SubSeq(@, 1, b - 1), !.fc = SubSeq(@, 1, b - 1),
                 !.tg = SubSeq(l.sh, b, Len(l.sh)), !.sh = <<>>]

(* boundary catalogue: k tag-shaped positional fields before m real tags.  Names differ from
   those of Var (variant tags are appended on the right: every datatype occurs as the real
   tag next to the boundary).  A catalogue line DECLARES its positional fields (f) and tags (tg);
   TraceDoc checks that Resolve, applied to the generated text as the harness splits it, gives
   the declared line back (clause "catalogue").                                          *)
CuT(rt, f, tg) == MkLine(rt, "*", <<>>, f, <<>>, <<>>, tg)
\* tag-shaped but never a tag: value impossible for the datatype, unknown datatype letter,
\* malformed name (the last three have not even the shape)
BadFields == <<"cn:A:xy", "cn:i:abc", "cn:i:1.5", "cn:f:abc", "cn:J:{", "cn:J:[1,]", "cn:H:1AE", "cn:H:XYZW",
               "cn:B:c,300", "cn:B:C,-1", "cn:B:s,40000", "cn:B:q,3", "cn:B:c,x", "cn:B:c,1.5", "cn:B:f,abc",
               "cn:Q:1", "cn:z:abc", "1n:i:1", "c:i:1", "cnn:i:1">>
\* perfectly good tags of every datatype (non-canonical spellings where there is one), which are
\* positional fields only because of what stands to their right
GoodFields(n) == <<n \o ":A:x", n \o ":i:+5", n \o ":f:1e3", n \o ":Z:with space", n \o ":J:{\"a\":1}",
                   n \o ":H:1AE3", n \o ":B:i,1,2", n \o ":B:f,1,2.5">>
LongRts == <<"HX", "SQ", "LNK", "CTG", "PTH", "EX", "FRG", "GP", "OX", "UX", "H1", "Sx", "h", "s">>
BoundaryCustom ==
     \* k = 1, m = 1: refused for its value / letter / name, after a plain field
     [i \in DOMAIN BadFields |-> CuT("X", <<"counts", BadFields[i]>>, <<Tg("yy", "Z", "k")>>)]
     \* k = 1, m = 0 (m = 1, 2 with the variant tags), no plain field
  \o [i \in DOMAIN BadFields |-> CuT("X", <<BadFields[i]>>, <<>>)]
     \* the name is repeated by the next field / two fields further right / twice
  \o [i \in DOMAIN GoodFields("xx") |-> CuT("X", <<"sample", GoodFields("xx")[i]>>, <<Tg("xx", "i", "2")>>)]
  \o [i \in DOMAIN GoodFields("xx") |-> CuT("Y", <<GoodFields("xx")[i]>>, <<Tg("yy", "Z", "k"), Tg("xx", "f", "1.5")>>)]
  \o [i \in DOMAIN GoodFields("xx") |-> CuT("Z", <<GoodFields("xx")[i], "xx:i:1">>, <<Tg("xx", "i", "+5")>>)]
     \* a good tag left of a field that is not one (plain / refused)
  \o [i \in DOMAIN GoodFields("kk") |-> CuT("Y", <<GoodFields("kk")[i], "plain">>, <<Tg("kk", "Z", "second"), Tg("zz", "f", "1.5")>>)]
  \o [i \in DOMAIN GoodFields("q1") |-> CuT("X", <<GoodFields("q1")[i], BadFields[((3 * i) % Len(BadFields)) + 1]>>, <<Tg("yy", "Z", "k")>>)]
     \* record types of more than one character that begin like a standard one (or differ from one
     \* in case): the record type is the whole first field
  \o [i \in DOMAIN LongRts |-> CuT(LongRts[i], <<"a", "b">>, <<Tg("rt", "i", "+5")>>)]
     \* k = 0: nothing but tags; a record type alone
  \o <<CuT("X", <<>>, <<Tg("q1", "i", "+5")>>),
       CuT("X", <<>>, <<Tg("q1", "i", "+5"), Tg("q2", "f", "1e3")>>),
       CuT("Z", <<>>, <<>>),
       \* tag-shaped text in a comment is comment text
       Cm(" xx:i:+5\txx:i:+5")>>

C2M1D1M == <<COp(2, "M"), COp(1, "D"), COp(1, "M")>>
C1M1I2M == <<COp(1, "M"), COp(1, "I"), COp(2, "M")>>

Cat1N == <<
  (* 1*) Hd(<<Tg("VN", "Z", "1.0")>>),
  (* 2*) Hd(<<Tg("TS", "i", "10")>>),
  (* 3*) Hd(<<Tg("xx", "i", "1")>>),
  (* 4*) Hd(<<Tg("xx", "i", "2")>>),
  (* 5*) Hd(<<Tg("ya", "Z", "x"), Tg("yb", "i", "3")>>),
  (* 6*) Hd(<<>>),
  (* 7*) S1("A", "ACGT", 4, <<>>),
  (* 8*) S1("B", "*", 6, <<Tg("LN", "i", "6")>>),
  (* 9*) S1("C", "*", -1, <<>>),
  (*10*) Lk("A", "+", "B", "+", "2M1D1M", C2M1D1M, "*"),
  (*11*) Lk("B", "-", "A", "-", "1M1I2M", C1M1I2M, "*"),       \* complement form of 10
  (*12*) Lk("A", "+", "C", "+", "*", <<>>, "*"),
  (*13*) Lk("B", "+", "C", "-", "3M", <<COp(3, "M")>>, "l1"),
  (*14*) Lk("B", "+", "A", "+", "1M", <<COp(1, "M")>>, "*"),
  (*15*) Ct("A", "+", "B", "+", "1", "2M", <<COp(2, "M")>>, "*"),
  (*16*) Ct("A", "-", "C", "+", "0", "*", <<>>, "c1"),
  (*17*) Pa("p1", <<Rf("A", "+"), Rf("B", "+")>>, "2M1D1M", <<C2M1D1M>>),
  (*18*) Pa("p2", <<Rf("A", "+"), Rf("C", "+")>>, "*", <<<<>>>>),
  (*19*) Pa("p3", <<Rf("A", "+"), Rf("B", "+")>>, "*,*", <<<<>>, <<>>>>),              \* circular
  (*20*) Pa("p4", <<Rf("B", "+"), Rf("A", "+")>>, "1M,2M1D1M", <<<<COp(1, "M")>>, C2M1D1M>>),  \* circular
  (*21*) Pa("p5", <<Rf("A", "+")>>, "*", <<<<>>>>),
  (*22*) Pa("p6", <<Rf("B", "-"), Rf("A", "-")>>, "1M1I2M", <<C1M1I2M>>),              \* uses the complement
  (*23*) Cm(" comment"),
  (*24*) Cm("  two leading spaces"),
  (*25*) Cm("no space\tbut a tab") >>
Cat1 == Cat1N \o SpecialComments
\* lines a line needs besides the definitions of the identifiers it mentions
Extra1 == [i \in DOMAIN Cat1 |->
  CASE i = 17 -> {10} [] i = 18 -> {12} [] i = 19 -> {10, 14} [] i = 20 -> {10, 14}
    [] i = 22 -> {10} [] OTHER -> {}]

Cat2N == <<
  (* 1*) Hd(<<Tg("VN", "Z", "2.0")>>),
  (* 2*) Hd(<<Tg("TS", "i", "10")>>),
  (* 3*) Hd(<<Tg("xx", "i", "1")>>),
  (* 4*) Hd(<<Tg("xx", "i", "2")>>),
  (* 5*) Hd(<<Tg("ya", "Z", "x"), Tg("yb", "i", "3")>>),
  (* 6*) S2("a", 4, "4", "ACGT"),
  (* 7*) S2("b", 6, "6", "*"),
  (* 8*) S2("c", 3, "3", "*"),
  (* 9*) Ed("e1", Rf("a", "+"), Rf("b", "+"), <<"2", "4$", "0", "2">>, <<2, 0, 4, 1, 0, 0, 2, 0>>, "2M", <<COp(2, "M")>>),
  (*10*) Ed("*",  Rf("a", "+"), Rf("b", "-"), <<"0", "4$", "1", "5">>, <<0, 0, 4, 1, 1, 0, 5, 0>>, "*", <<>>),
  (*11*) Ed("e3", Rf("a", "+"), Rf("c", "+"), <<"1", "2", "1", "2">>, <<1, 0, 2, 0, 1, 0, 2, 0>>, "*", <<>>),
  (*12*) Ed("e4", Rf("b", "-"), Rf("c", "+"), <<"0", "3", "0", "3$">>, <<0, 0, 3, 0, 0, 0, 3, 1>>, "1,2", <<>>),
  (*13*) Ed("*",  Rf("b", "+"), Rf("c", "+"), <<"3", "6$", "0", "3$">>, <<3, 0, 6, 1, 0, 0, 3, 1>>, "3M", <<COp(3, "M")>>),
  (*14*) Ed("e5", Rf("c", "+"), Rf("a", "+"), <<"1", "3$", "0", "2">>, <<1, 0, 3, 1, 0, 0, 2, 0>>, "*", <<>>),
  (*15*) Fr("a", "x", "+", <<"0", "2", "0", "2">>, "*"),
  (*16*) Fr("b", "y", "-", <<"1", "3", "10", "12$">>, "2M"),
  (*17*) Fr("a", "x", "+", <<"2", "4$", "5", "7">>, "0,2"),
  (*18*) Gp("g1", Rf("a", "+"), Rf("b", "-"), "10", "*"),
  (*19*) Gp("*",  Rf("b", "+"), Rf("c", "+"), "5", "2"),
  (*20*) Og("o1", <<Rf("a", "+"), Rf("b", "+")>>),
  (*21*) Og("o2", <<Rf("a", "+"), Rf("e1", "+"), Rf("b", "+")>>),
  (*22*) Og("o3", <<Rf("o2", "-"), Rf("c", "-")>>),
  (*23*) Og("*",  <<Rf("b", "+"), Rf("c", "+")>>),
  (*24*) Og("o4", <<Rf("c", "-")>>),
  (*25*) Ug("u1", <<"a", "e1", "g1">>),
  (*26*) Ug("u2", <<"u1", "o1">>),                       \* nested
  (*27*) Ug("u3", <<"c">>),
  (*28*) Ug("u3", <<"b">>),                              \* second line of the same group
  (*29*) Ug("*",  <<"a", "b">>),
  (*30*) Cu("X", <<"custom", "1">>),
  (*31*) Cu("Y", <<"only">>),
  (*32*) Cm(" gfa2 comment"),
  (*33*) Cm("   spaces") >>
Cat2 == Cat2N \o SpecialComments \o SpecialCustom \o BoundaryCustom
Extra2 == [i \in DOMAIN Cat2 |->
  CASE i = 20 -> {9} [] i = 22 -> {14} [] i = 23 -> {13} [] OTHER -> {}]

Cat(ver)   == IF ver = "gfa1" THEN Cat1 ELSE Cat2
\* the lines with special characters are kept out of the combinatorial enumeration
NormalIdx(ver)  == 1..(IF ver = "gfa1" THEN Len(Cat1N) ELSE Len(Cat2N))
SpecialIdx(ver) == DOMAIN Cat(ver) \ NormalIdx(ver)
DepExtra(ver) == IF ver = "gfa1" THEN Extra1 ELSE Extra2

-----------------------------------------------------------------------------
(* TEXT of an abstract line (inverse of project.abstract_text) *)
OrId(r) == r.id \o r.o
PosFields(l) ==
  CASE l.rt = "S" -> <<l.name>> \o l.f
    [] l.rt \in {"L", "C"} -> <<l.refs[1].id, l.refs[1].o, l.refs[2].id, l.refs[2].o>> \o l.f
    [] l.rt = "P" -> <<l.name, JoinS(SeqMap(OrId, l.refs), ",")>> \o l.f
    [] l.rt \in {"E", "G"} -> <<l.name, OrId(l.refs[1]), OrId(l.refs[2])>> \o l.f
    [] l.rt = "F" -> <<l.refs[1].id, OrId(l.refs[2])>> \o l.f
    [] l.rt = "O" -> <<l.name, JoinS(SeqMap(OrId, l.refs), " ")>>
    [] l.rt = "U" -> <<l.name, JoinS(SeqMap(LAMBDA r : r.id, l.refs), " ")>>
    [] l.rt = "H" -> <<>>
    [] OTHER -> l.f
IdTag(l) == IF l.rt \in {"L", "C"} /\ l.name # "*" THEN <<"ID:Z:" \o l.name>> ELSE <<>>
Text(l) == IF l.rt = "#" THEN "#" \o l.f[1]
           ELSE JoinS(<<l.rt>> \o PosFields(l) \o IdTag(l) \o SeqMap(TagText, l.tg), "\t")

\* text of a line with special characters: pieces that are strings or code-point sequences
RECURSIVE TabJoin(_)
TabJoin(ps) == IF Len(ps) <= 1 THEN ps ELSE <<ps[1], "\t">> \o TabJoin(Tail(ps))
Pieces(l) ==
  LET fp == [i \in DOMAIN l.f |-> IF l.fc[i] # <<>> THEN l.fc[i] ELSE l.f[i]] IN
  IF l.rt = "#" THEN <<"#", fp[1]>>
  ELSE TabJoin(<<l.rt>> \o fp \o SeqMap(TagText, l.tg))

WithTags(l, tgs) == IF l.rt = "#" THEN l ELSE [l EXCEPT !.tg = @ \o tgs]

(* the lines of the document (set of catalogue indices) in the given order *)
DocOrder(doc, ord) == IF ord = "asc" THEN AscFrom(doc) ELSE Reverse(AscFrom(doc))
DocLines(ver, doc, tv, ord) ==
  LET ix == DocOrder(doc, ord) IN
  [j \in DOMAIN ix |-> WithTags(Cat(ver)[ix[j]], VariantTags(tv, j))]

-----------------------------------------------------------------------------
(* VALID DOCUMENTS *)
TagNamesUnique(l) == \A i, j \in DOMAIN l.tg : l.tg[i].n = l.tg[j].n => i = j
HdrTagVals(ls, n) ==
  UNION {{CT(ls[i].tg[k]) : k \in {m \in DOMAIN ls[i].tg : ls[i].tg[m].n = n}}
         : i \in {j \in DOMAIN ls : ls[j].rt = "H"}}
DocSegLen(ls, id) == LET S == {i \in DOMAIN ls : IsS2(ls[i]) /\ ls[i].name = id} IN
                  IF S = {} THEN -1 ELSE ls[CHOOSE i \in S : TRUE].num[1]
\* an interval [b, e] on a segment of length n, "$" flags fb, fe
DocIvOK(b, fb, e, fe, n) == /\ 0 <= b /\ b <= e /\ e <= n
                         /\ (fb = 1) = (b = n) /\ (fe = 1) = (e = n)
EdgePosOK(ls, l) ==
  /\ DocIvOK(l.num[1], l.num[2], l.num[3], l.num[4], DocSegLen(ls, l.refs[1].id))
  /\ DocIvOK(l.num[5], l.num[6], l.num[7], l.num[8], DocSegLen(ls, l.refs[2].id))
DocJoined(ls, x, y) == \E i \in DOMAIN ls :
  /\ ls[i].rt = "E"
  /\ \/ ls[i].refs[1] = x /\ ls[i].refs[2] = y
     \/ ls[i].refs[1] = InvRef(y) /\ ls[i].refs[2] = InvRef(x)
DocSegNames(ls) == {ls[i].name : i \in {j \in DOMAIN ls : ls[j].rt = "S"}}
OrderedOK(ls, l) == \A k \in 1..(Len(l.refs) - 1) :
  (l.refs[k].id \in DocSegNames(ls) /\ l.refs[k + 1].id \in DocSegNames(ls)) => DocJoined(ls, l.refs[k], l.refs[k + 1])
GroupTagsAgree(a, b) == \A i \in DOMAIN a.tg, j \in DOMAIN b.tg : a.tg[i].n = b.tg[j].n => CT(a.tg[i]) = CT(b.tg[j])

IsValidDoc(ls, ver) ==
  LET N == DOMAIN ls
      named == {i \in N : Named(ls[i])}
      names == {ls[i].name : i \in named}
      links == {i \in N : ls[i].rt = "L"} IN
  /\ \A i \in N : LineVersion(ls[i]) \in {"any", ver} /\ TagNamesUnique(ls[i])
  /\ \A i \in N : ls[i].rt \in {"L", "C"} => \A k \in DOMAIN ls[i].tg : ls[i].tg[k].n # "ID"
  \* identifiers unique (a group may be given in several lines of the same type)
  /\ \A i, j \in named : (i # j /\ ls[i].name = ls[j].name) =>
        (IsGroup(ls[i]) /\ ls[i].rt = ls[j].rt /\ GroupTagsAgree(ls[i], ls[j]))
  \* every mention is defined
  /\ \A i \in N : SegMentions(ls[i]) \subseteq DocSegNames(ls) /\ ItemMentions(ls[i]) \subseteq names
  \* links: no two lines for the same edge except one pair of complement forms
  /\ \A i, j \in links : (i < j /\ LinkClash(ls[i], ls[j])) =>
        (IsComplement(ls[i], ls[j]) /\ ~SameEnds(ls[i], ls[j]))
  /\ \A i, j, k \in links : ~(i < j /\ j < k /\ LinkClash(ls[i], ls[j]) /\ LinkClash(ls[i], ls[k]))
  \* the links of every path are there
  /\ \A i \in N : ls[i].rt = "P" =>
        \A r \in Rng(Required(ls[i])) : \E j \in links : Serves(ls[j], r)
  /\ \A i \in N : ls[i].rt = "O" => OrderedOK(ls, ls[i])
  /\ \A i \in N : ls[i].rt = "E" => EdgePosOK(ls, ls[i])
  \* header: VN names the version, VN and TS have one value
  /\ HdrTagVals(ls, "VN") \subseteq {<<"VN", IF ver = "gfa1" THEN "Z:1.0" ELSE "Z:2.0">>}
  /\ Cardinality(HdrTagVals(ls, "TS")) <= 1

\* (b) documents of <= k catalogue lines
LinesOf(ver, doc) == DocLines(ver, doc, 0, "asc")
RECURSIVE SubsetsUpTo(_, _)
SubsetsUpTo(S, k) == IF k = 0 THEN {{}}
                     ELSE LET P == SubsetsUpTo(S, k - 1) IN P \cup {p \cup {x} : p \in P, x \in S}
ValidDocs(ver, k) == {d \in SubsetsUpTo(NormalIdx(ver), k) \ {{}} : IsValidDoc(LinesOf(ver, d), ver)}

\* generator: dependency closure of a set of seed lines
DefLine(ver, id) == LET D == {j \in DOMAIN Cat(ver) : Named(Cat(ver)[j]) /\ Cat(ver)[j].name = id} IN
                    CHOOSE j \in D : \A m \in D : j <= m
DepNeeds(ver, i) == {DefLine(ver, id) : id \in Mentions(Cat(ver)[i])} \cup DepExtra(ver)[i]
RECURSIVE DepClose(_, _)
DepClose(ver, X) == LET Y == X \cup UNION {DepNeeds(ver, i) : i \in X} IN
                 IF Y = X THEN X ELSE DepClose(ver, Y)
SeedDocs(ver, k) == {DepClose(ver, s) : s \in SubsetsUpTo(NormalIdx(ver), k) \ {{}}}
\* every line with special characters alone and next to a segment line
FirstSeg(ver) == CHOOSE i \in NormalIdx(ver) : Cat(ver)[i].rt = "S" /\ \A j \in NormalIdx(ver) : Cat(ver)[j].rt = "S" => i <= j
SpecialDocs(ver) == UNION {{{i}, {i, FirstSeg(ver)}} : i \in SpecialIdx(ver)}
\* two custom records of the boundary catalogue in one document
BoundaryIdx(ver) == IF ver = "gfa1" THEN {}
                    ELSE (Len(Cat2) - Len(BoundaryCustom) + 1)..Len(Cat2)
BoundaryDocs(ver) == {{i, i + 1} : i \in {x \in BoundaryIdx(ver) : x + 1 \in BoundaryIdx(ver)}}
\* the custom record with segments, an edge and a gap: in descending order the custom record comes
\* first and the version of the document is decided by a later line
LongRtIdx(ver) == {i \in BoundaryIdx(ver) : Cat(ver)[i].rt \in Rng(LongRts)}
LateDocs(ver) == UNION {{{i, 6, 7, 9}, {i, 6, 7, 18}} : i \in LongRtIdx(ver)}

-----------------------------------------------------------------------------
(* (c) WRITER NORMAL FORM *)
\* a written / expected record up to order of tags and spelling
NormC(l) == [rt |-> l.rt, name |-> l.name, refs |-> l.refs, f |-> l.f, fc |-> l.fc, tags |-> CTags(l)]
HRec(ct) == [rt |-> "H", name |-> "*", refs |-> <<>>, f |-> <<>>, fc |-> <<>>, tags |-> {ct}]

\* header: one record per tag occurrence; VN/TS given again with the same value: once
RECURSIVE HdrFold(_, _)
HdrFold(tags, acc) ==
  IF tags = <<>> THEN acc
  ELSE LET c == CT(Head(tags)) IN
       IF Head(tags).n \in SingleDef /\ \E k \in DOMAIN acc : acc[k] = c
       THEN HdrFold(Tail(tags), acc) ELSE HdrFold(Tail(tags), Append(acc, c))
RECURSIVE AllHdrTags(_)
AllHdrTags(ls) == IF ls = <<>> THEN <<>>
                  ELSE (IF Head(ls).rt = "H" THEN Head(ls).tg ELSE <<>>) \o AllHdrTags(Tail(ls))
HdrRecs(ls) == SeqMap(HRec, HdrFold(AllHdrTags(ls), <<>>))

DocBody(ls) == SelectSeq(ls, LAMBDA l : l.rt # "H")

\* a group given in several lines is one record: items in line order, tags united
RECURSIVE MergeFold(_, _)
MergeFold(ls, acc) ==
  IF ls = <<>> THEN acc
  ELSE LET l == Head(ls)
           prev == {k \in DOMAIN acc : IsGroup(l) /\ l.name # "*" /\ acc[k].rt = l.rt /\ acc[k].name = l.name} IN
       IF prev = {} THEN MergeFold(Tail(ls), Append(acc, l))
       ELSE LET k == CHOOSE k \in prev : TRUE
                extra == SelectSeq(l.tg, LAMBDA t : ~\E m \in DOMAIN acc[k].tg : acc[k].tg[m].n = t.n) IN
            MergeFold(Tail(ls), [acc EXCEPT ![k] = [@ EXCEPT !.refs = @ \o l.refs, !.tg = @ \o extra]])
MergedGroups(ls) == MergeFold(ls, <<>>)

ComplPairs(ls) ==
  LET L == {k \in DOMAIN ls : ls[k].rt = "L"} IN
  {{q[1], q[2]} : q \in {r \in L \X L : r[1] < r[2] /\ IsComplement(ls[r[1]], ls[r[2]])
                                                   /\ ~SameEnds(ls[r[1]], ls[r[2]])}}
DropChoices(ls) == LET P == ComplPairs(ls) IN
                   {D \in SUBSET (UNION P) : \A p \in P : Cardinality(D \cap p) = 1}
\* gfapy's own choice (keeps the first form): used only to word a rejection
MaxOf(p) == CHOOSE j \in p : \A i \in p : i <= j
FirstDrop(ls) == {MaxOf(p) : p \in ComplPairs(ls)}

OutBag(body, D, ls) == BagOf(SeqMap(NormC, Without(body, D)) \o HdrRecs(ls))
Canon(ls) ==
  LET b1 == MergedGroups(DocBody(ls))
      b2 == DocBody(ls) IN
  {OutBag(b1, D, ls) : D \in DropChoices(b1)} \cup {OutBag(b2, D, ls) : D \in DropChoices(b2)}
CanonRef(ls) == LET b1 == MergedGroups(DocBody(ls)) IN OutBag(b1, FirstDrop(b1), ls)

-----------------------------------------------------------------------------
(* configurations *)
VLevels  == 0..3
Versions == <<"explicit", "auto">>
Entries  == <<"str", "strnl", "list", "fileLF", "fileCRLF", "fileNoEOL">>
=============================================================================
