----------------------------- MODULE EdgeClass -----------------------------
(* Classification of a GFA2 E line from orientations and interval kinds,
   derived from the GFA2 specification text (not from gfapy):
     interval kind of (beg, end): whole = [0, len$], pfx = [0, x], sfx = [x, len$],
     inner otherwise.  `last` = the position carries the $ marker.
   A side that is `whole` is contained in the other segment; otherwise the
   alignment is a dovetail iff, in the oriented reading, a suffix of one
   segment meets a prefix of the other; the end involved is the end the
   interval touches (pfx -> L, sfx -> R).  Everything else is internal.
   The positions arrive as the 8-tuple <<b1,b1$,e1,e1$,b2,b2$,e2,e2$>>.      *)
EXTENDS Naturals, Sequences

Kind(b, bl, e, el) ==
  IF b = 0 /\ bl = 0 THEN (IF el = 1 THEN "whole" ELSE "pfx")
  ELSE IF bl = 1 THEN "sfx"                  \* [len$, len$]: empty suffix
  ELSE IF el = 1 THEN "sfx" ELSE "inner"
  \* note: b = 0 with $ (zero-length segment) is read as an (empty) suffix

Flip(k) == IF k = "pfx" THEN "sfx" ELSE IF k = "sfx" THEN "pfx" ELSE k
Oriented(k, o) == IF o = "+" THEN k ELSE Flip(k)
EndOf(k) == IF k = "pfx" THEN "L" ELSE "R"

\* result: [t |-> "C"|"L"|"I", k1 |-> key filed on segment 1, k2 |-> key on segment 2]
Class(o1, o2, n) ==
  LET k1 == Kind(n[1], n[2], n[3], n[4])
      k2 == Kind(n[5], n[6], n[7], n[8]) IN
  IF k1 = "whole" /\ k2 = "whole"
    THEN [t |-> "C", k1 |-> "edges_to_contained", k2 |-> "edges_to_containers"]
  ELSE IF k2 = "whole"
    THEN [t |-> "C", k1 |-> "edges_to_contained", k2 |-> "edges_to_containers"]
  ELSE IF k1 = "whole"
    THEN [t |-> "C", k1 |-> "edges_to_containers", k2 |-> "edges_to_contained"]
  ELSE IF k1 = "inner" \/ k2 = "inner"
    THEN [t |-> "I", k1 |-> "internals", k2 |-> "internals"]
  ELSE IF Oriented(k1, o1) # Oriented(k2, o2)
    THEN [t |-> "L", k1 |-> "dovetails_" \o EndOf(k1), k2 |-> "dovetails_" \o EndOf(k2)]
  ELSE [t |-> "I", k1 |-> "internals", k2 |-> "internals"]
=============================================================================
