------------------------------ MODULE Multiply ------------------------------
(* Relational post-condition of Gfa.multiply(segment, factor, copy_names,
   distribute) -- property C15 -- written from the statement of the property.

   It speaks about LINES in the abstract record shape of Gfa.tla / project.py
   (rt, name, refs, f, num, ovs ...) extended with
       cnt    <<RC, FC, KC>>, -1 = the tag is absent
       otags  the other tags (sequence of strings)
   pre and post are sequences (bags) of such lines.

   args = [seg    |-> name of the multiplied segment,
           k      |-> factor,
           policy |-> "off" | "auto" | "equal" | "L" | "R",
           names  |-> the requested copy names (<<>> = automatic)]

   What the statement leaves open is left open here:
     * automatic copy names: any k-1 distinct identifiers not in use;
     * the identifier of a copied edge (an edge identifier cannot be repeated);
     * which end "auto"/"equal" pick, and which copy receives which of the
       distributed links: every outcome in which the links of the end are
       shared out (each former neighbour still linked to one of the k segments,
       no link that is not a copy of an original link) is accepted -- keeping
       all copies is the special case "no distribution".
   An edge of the segment WITH ITSELF (self-loop, hairpin, self-containment) is an edge of
   the original to the neighbour "itself": a faithful copy carries it as an edge with itself
   ("to the same neighbours": what the original is to itself, the copy is to itself).  An
   edge between two different members of the k segments is invented: the original had no
   edge to another segment there, and it would give the original (or a copy) a dovetail
   more on one of its ends than the original had.                                       *)
EXTENDS Gfa

IsSegLine(l)  == l.rt = "S"
IsEdgeLine(l) == l.rt \in {"L", "C", "E"}
RefIdSet(l)   == {l.refs[i].id : i \in DOMAIN l.refs}
MentionsId(l, n) == (IsSegLine(l) /\ l.name = n) \/ n \in RefIdSet(l)
MentionsAny(l, N) == (IsSegLine(l) /\ l.name \in N) \/ RefIdSet(l) \cap N # {}

Idx(L) == DOMAIN L
SegIdx(L) == {i \in Idx(L) : IsSegLine(L[i])}
SegNameSet(L) == {L[i].name : i \in SegIdx(L)}
\* every identifier in use (segments, named edges, paths, ...)
UsedIds(L) == {L[i].name : i \in {j \in Idx(L) : L[j].name # "*" /\ L[j].rt # "#"}}
SegLineOf(L, n) == L[CHOOSE i \in SegIdx(L) : L[i].name = n]
\* The statement speaks about the DOVETAILS AND CONTAINMENTS of the segment ("each carrying a
\* copy of every dovetail and containment ... the counts of the segment and of those edges
\* divided by k").  A GFA2 edge that is neither (an internal overlap) is not one of "those
\* edges": it belongs to "the rest of the graph [that] is untouched" -- not copied, its counts
\* not divided, none appearing on a copy.
IsCopiedKind(l) == IsDovetail(l) \/ IsContainment(l)
IsInternalEdge(l) == IsEdgeLine(l) /\ ~IsCopiedKind(l)
\* the dovetails and containments on the segments N
EdgeIdxOf(L, N) == {i \in Idx(L) : IsEdgeLine(L[i]) /\ IsCopiedKind(L[i]) /\ MentionsAny(L[i], N)}

\* a line without its count values / without identifier and count values
NoCnt(l)   == [rt |-> l.rt, name |-> l.name, refs |-> l.refs, f |-> l.f, tags |-> Rng(l.otags),
               has |-> [j \in 1..3 |-> l.cnt[j] >= 0]]
EdgeCore(l) == [rt |-> l.rt, refs |-> l.refs, f |-> l.f, tags |-> Rng(l.otags),
                has |-> [j \in 1..3 |-> l.cnt[j] >= 0]]
DivCnt(c, k) == [j \in 1..3 |-> IF c[j] < 0 THEN -1 ELSE c[j] \div k]

SubstId(l, from, to) ==
  [l EXCEPT !.refs = [i \in DOMAIN l.refs |-> IF l.refs[i].id = from
                                               THEN [id |-> to, o |-> l.refs[i].o] ELSE l.refs[i]]]
\* every member of the group N read as the original segment s again
BackTo(l, N, s) ==
  [l EXCEPT !.refs = [i \in DOMAIN l.refs |-> IF l.refs[i].id \in N
                                               THEN [id |-> s, o |-> l.refs[i].o] ELSE l.refs[i]]]
IsSelfEdge(l, s) == RefIdSet(l) = {s}

\* ends of segment n on which the dovetail l lies ({} for a containment)
DoveEndsOn(l, n) ==
  IF IsDovetail(l) THEN {EndOfKey(KeyOn(l, i)) : i \in {j \in DOMAIN l.refs : l.refs[j].id = n}} ELSE {}


-----------------------------------------------------------------------------
(* k >= 2 *)
CopyNames(pre, post) == SegNameSet(post) \ SegNameSet(pre)
Group(pre, post, s) == {s} \cup CopyNames(pre, post)

\* every identifier that a line mentions (whether a line with that identifier exists or not)
MentionedIds(L) == UNION {RefIdSet(L[i]) : i \in Idx(L)}
\* "k-1 copies with fresh, distinct identifiers (the requested ones, if given)": fresh against
\* every identifier in use -- the lines of the graph (pre) and `used`, the identifiers that are
\* in use otherwise (placeholders: a segment that is mentioned but not defined yet)
NamesOK(pre, post, args, used) ==
  LET C == CopyNames(pre, post) IN
  /\ args.seg \in SegNameSet(post)
  /\ Cardinality(C) = args.k - 1
  /\ Cardinality({i \in SegIdx(post) : post[i].name \in C}) = args.k - 1     \* distinct lines
  /\ C \cap (UsedIds(pre) \cup MentionedIds(pre) \cup used) = {}
  /\ args.names # <<>> => C = Rng(args.names)

\* "with identical sequence and tags" (the values of the count tags apart)
CopiesOK(pre, post, args) ==
  LET s == args.seg
      orig == NoCnt(SegLineOf(pre, s)) IN
  /\ s \in SegNameSet(post)
  /\ Cardinality({i \in SegIdx(post) : post[i].name = s}) = 1
  /\ NoCnt(SegLineOf(post, s)) = orig
  /\ \A c \in CopyNames(pre, post) : NoCnt(SegLineOf(post, c)) = [orig EXCEPT !.name = c]

\* post edges on the group, pre edges on the segment
PostEdges(pre, post, s) == EdgeIdxOf(post, Group(pre, post, s))
PreEdges(pre, s) == EdgeIdxOf(pre, {s})
\* the edge e1 of post is a copy of the edge e of pre
CopyOf(e1, e, N, s) == EdgeCore(BackTo(e1, N, s)) = EdgeCore(e)

(* The operators below take a context x computed once per evaluation:
     x.s the segment, x.k the factor, x.N the k segments of post (original + copies),
     x.E the edges of the segment in pre, x.P the edges of post on a member of x.N,
     x.pc / x.bc  the content of the edges x.E / of the edges x.P read back onto the original,
     x.qc  the content of all edges of post,
     x.cross  the edges of post that join two different members of x.N                *)
Ctx(pre, post, args) ==
  LET s == args.seg
      N == Group(pre, post, s)
      E == PreEdges(pre, s)
      P == EdgeIdxOf(post, N)
      Q == {j \in Idx(post) : IsEdgeLine(post[j]) /\ IsCopiedKind(post[j])} IN
  [s |-> s, k |-> args.k, N |-> N, E |-> E, P |-> P,
   cross |-> {j \in P : Cardinality(RefIdSet(post[j]) \cap N) > 1},
   pc |-> {<<i, EdgeCore(pre[i])>> : i \in E},
   bc |-> {<<j, EdgeCore(BackTo(post[j], N, s))>> : j \in P},
   qc |-> {<<j, EdgeCore(post[j])>> : j \in Q}]
CoreIn(S, i) == (CHOOSE p \in S : p[1] = i)[2]
CountCore(S, c) == Cardinality({p \in S : p[2] = c})

\* "no link is invented": every edge on one of the k segments is a copy of an edge of the
\* original, and none joins two different members (the copy of an edge of the original with
\* itself is an edge of a member with itself)
NothingInvented(x) == x.cross = {} /\ \A q \in x.bc : \E p \in x.pc : q[2] = p[2]

\* the edge pre[i] of the segment, copied for member m of the group (every mention of the
\* segment replaced by m: an edge of the segment with itself becomes an edge of m with itself):
\* present in post exactly as often as pre holds edges with the same content
HasCopyFor(pre, x, i, m) ==
  CountCore(x.qc, EdgeCore(SubstId(pre[i], x.s, m))) = CountCore(x.pc, CoreIn(x.pc, i))

\* the edges that distribution on end d may share out: dovetails of the segment on that end
OnEnd(pre, s, i, d) == d # "none" /\ d \in DoveEndsOn(pre[i], s)

\* "each carrying a copy of every dovetail and containment of the original to the same
\*  neighbours with the same orientations and overlaps" -- for everything that is not
\*  being distributed
EdgesOKx(pre, post, x, d) ==
  \A i \in x.E : ~OnEnd(pre, x.s, i, d) => \A m \in x.N : HasCopyFor(pre, x, i, m)

\* "the links of that end are shared out among the copies so that every former neighbour
\*  stays linked to at least one copy and no link is invented"
DistOKx(pre, post, x, d) ==
  /\ \A i \in x.E : OnEnd(pre, x.s, i, d) =>
        LET c == CoreIn(x.pc, i) IN
        \E q \in x.bc : /\ q[2] = c
                        /\ IsSelfEdge(pre[i], x.s) => RefIdSet(post[q[1]]) \subseteq x.N
  \* never more copies of a link than a full copy would make
  /\ \A i \in x.E : OnEnd(pre, x.s, i, d) =>
        \A m \in x.N :
          CountCore(x.qc, EdgeCore(SubstId(pre[i], x.s, m))) <= CountCore(x.pc, CoreIn(x.pc, i))

EdgesOK(pre, post, args, d) ==
  LET x == Ctx(pre, post, args) IN NothingInvented(x) /\ EdgesOKx(pre, post, x, d)
DistOK(pre, post, args, d) ==
  LET x == Ctx(pre, post, args) IN NothingInvented(x) /\ DistOKx(pre, post, x, d)

EndsAllowed(policy) ==
  CASE policy = "off" -> {"none"}
    [] policy = "L" -> {"L"}
    [] policy = "R" -> {"R"}
    [] OTHER -> {"none", "L", "R"}          \* auto, equal: the choice of the end is gfapy's

\* "with the read/fragment/k-mer counts of the segment and of those edges divided by k"
CountsOKx(pre, post, x) ==
  LET want == DivCnt(SegLineOf(pre, x.s).cnt, x.k) IN
  /\ \A i \in SegIdx(post) : post[i].name \in x.N => post[i].cnt = want
  /\ \A q \in x.bc : \E p \in x.pc : q[2] = p[2] /\ post[q[1]].cnt = DivCnt(pre[p[1]].cnt, x.k)
CountsOK(pre, post, args) == CountsOKx(pre, post, Ctx(pre, post, args))

\* "the rest of the graph is untouched": lines that mention neither the segment nor a copy,
\* and the internal overlaps, also those of the segment
RestOf(L, N) == BagOf(SelectSeq(L, LAMBDA l : ~MentionsAny(l, N) \/ IsInternalEdge(l)))
RestOK(pre, post, args) ==
  RestOf(pre, {args.seg}) = RestOf(post, Group(pre, post, args.seg))

\* the set of failing clauses for k >= 2 (names as in the harness); used: identifiers in use
\* besides those of the lines of pre
MultiplyFailsU(pre, post, args, used) ==
  LET x == Ctx(pre, post, args)
      D == EndsAllowed(args.policy)
      ni == NothingInvented(x)
      eOK == IF ni THEN {d \in D : EdgesOKx(pre, post, x, d)} ELSE {}
      dOK == IF ni THEN {d \in D : DistOKx(pre, post, x, d)} ELSE {} IN
  (IF NamesOK(pre, post, args, used) THEN {} ELSE {"C15.names"})
  \cup (IF CopiesOK(pre, post, args) THEN {} ELSE {"C15.copies"})
  \cup (IF ~ni THEN {"C15.edges"} \cup (IF args.policy = "off" THEN {} ELSE {"C15.distribution"})
        ELSE IF eOK \cap dOK # {} THEN {}
        ELSE (IF eOK = {} THEN {"C15.edges"} ELSE {})
             \cup (IF dOK = {} THEN {"C15.distribution"} ELSE {})
             \cup (IF eOK # {} /\ dOK # {} THEN {"C15.edges", "C15.distribution"} ELSE {}))
  \cup (IF CountsOKx(pre, post, x) THEN {} ELSE {"C15.counts"})
  \cup (IF RestOK(pre, post, args) THEN {} ELSE {"C15.rest"})

MultiplyFails(pre, post, args) == MultiplyFailsU(pre, post, args, {})

-----------------------------------------------------------------------------
(* placeholders *)
(* gfapy keeps a VIRTUAL line for something that is mentioned but not defined: a link that a
   GFA1 path needs between two consecutive segments, a segment named by a link or a path
   (documentation, "References": "virtual lines"; written with co:Z:GFAPY_virtual_line).  A
   virtual link is not a link of the graph: pre and post above hold the REAL lines only, so a
   copy that turns a placeholder of the original into a real link is an invented link
   (NothingInvented).  About the placeholders themselves (vpre, vpost: the virtual lines before
   and after) the statement only yields:
     * "the rest of the graph is untouched": the placeholders that mention neither the segment
       nor a copy are the same;
     * "no link is invented": a placeholder edge on one of the k segments is the copy of a
       placeholder edge of the original (whether the copies receive such placeholders at all,
       and which of them survive a distribution, is left open).                               *)
PlaceholderRestOK(pre, post, vpre, vpost, args) ==
  RestOf(vpre, {args.seg}) = RestOf(vpost, Group(pre, post, args.seg))
PlaceholderEdgesOK(pre, post, vpre, vpost, args) ==
  LET s == args.seg
      N == Group(pre, post, s) IN
  \A j \in EdgeIdxOf(vpost, N) : \E i \in EdgeIdxOf(vpre, {s}) : CopyOf(vpost[j], vpre[i], N, s)
PlaceholderFails(pre, post, vpre, vpost, args) ==
  (IF PlaceholderRestOK(pre, post, vpre, vpost, args) THEN {} ELSE {"C15.rest"})
  \cup (IF PlaceholderEdgesOK(pre, post, vpre, vpost, args) THEN {} ELSE {"C15.edges"})

-----------------------------------------------------------------------------
(* factors below 2 *)
\* factor 0 removes the segment (with the lines that depend on it)
RemovedOK(pre, post, args) ==
  BagOf(post) = BagOf(SelectSeq(pre, LAMBDA l : ~MentionsId(l, args.seg)))
UnchangedOK(pre, post) == BagOf(post) = BagOf(pre)

ErrorClasses == {"Error", "NotUniqueError", "VersionError", "NotFoundError"}

\* the post-condition as one predicate: res is the result class of the call
MultiplyPost(pre, post, args, res) ==
  IF args.k < 0 THEN res \in ErrorClasses /\ UnchangedOK(pre, post)
  ELSE /\ res = "ok"
       /\ IF args.k = 0 THEN RemovedOK(pre, post, args)
          ELSE IF args.k = 1 THEN UnchangedOK(pre, post)
          ELSE MultiplyFails(pre, post, args) = {}
=============================================================================
