---------------------------- MODULE MC_EdgeCells ----------------------------
(* C11: the complete table of E-line cells for a segment of length SLen:
   both orientations x every (beg, end) with beg <= end over 0..SLen, the last
   position written with $, on both sides.  TLC enumerates every cell, checks
   the symmetry laws of the classification on the specification itself and
   prints each cell with the class the GFA2 text assigns (spec -> code).     *)
EXTENDS Naturals, Sequences, FiniteSets, TLC, EdgeClass

CONSTANT SLen
\* a position: <<value, last>>; value = SLen iff it is the last position (then it carries $)
Pos == {<<v, 0>> : v \in 0..(SLen - 1)} \cup {<<SLen, 1>>}
Ivs == {iv \in Pos \X Pos : iv[1][1] <= iv[2][1]}
Ors == {"+", "-"}
Num(iv1, iv2) == <<iv1[1][1], iv1[1][2], iv1[2][1], iv1[2][2], iv2[1][1], iv2[1][2], iv2[2][1], iv2[2][2]>>

VARIABLES o1, o2, iv1, iv2
vars == <<o1, o2, iv1, iv2>>
Init == o1 \in Ors /\ o2 \in Ors /\ iv1 \in Ivs /\ iv2 \in Ivs
Next == UNCHANGED vars
Spec == Init /\ [][Next]_vars

Inv2(o) == IF o = "+" THEN "-" ELSE "+"
C == Class(o1, o2, Num(iv1, iv2))
Emit == PrintT(<<"CELL", o1, o2, Num(iv1, iv2), C.t, C.k1, C.k2>>)

\* swapping the two sides swaps the filings (except the both-whole tie, where
\* the first segment is the container by convention)
SwapSym == LET D == Class(o2, o1, Num(iv2, iv1)) IN
           (Kind(iv1[1][1], iv1[1][2], iv1[2][1], iv1[2][2]) = "whole"
              /\ Kind(iv2[1][1], iv2[1][2], iv2[2][1], iv2[2][2]) = "whole")
           \/ (D.t = C.t /\ D.k1 = C.k2 /\ D.k2 = C.k1)
\* reading the edge from the other strand (both orientations inverted) keeps the class
InvSym == LET D == Class(Inv2(o1), Inv2(o2), Num(iv1, iv2)) IN D = C
\* the length-based reading of the interval kind used by the symbolic (Apalache) check of the
\* laws for every segment length (spec/apalache/EdgeClassApa.tla) is the same function
KindByLen(b, e, len) ==
  IF b = 0 /\ b # len THEN (IF e = len THEN "whole" ELSE "pfx")
  ELSE IF b = len THEN "sfx"
  ELSE IF e = len THEN "sfx" ELSE "inner"
KindAgrees == /\ KindByLen(iv1[1][1], iv1[2][1], SLen) = Kind(iv1[1][1], iv1[1][2], iv1[2][1], iv1[2][2])
              /\ KindByLen(iv2[1][1], iv2[2][1], SLen) = Kind(iv2[1][1], iv2[1][2], iv2[2][1], iv2[2][2])
\* a dovetail always joins two segment ends, a containment one container and one contained
Shape == /\ C.t = "L" => C.k1 \in {"dovetails_L", "dovetails_R"} /\ C.k2 \in {"dovetails_L", "dovetails_R"}
         /\ C.t = "C" => {C.k1, C.k2} = {"edges_to_contained", "edges_to_containers"}
         /\ C.t = "I" => C.k1 = "internals" /\ C.k2 = "internals"
=============================================================================
