--------------------------- MODULE TraceGraphOps ---------------------------
(* Code -> spec for the graph operations (C14 linear paths / merging, C15
   multiplication).  One TLC state per recorded case.  For each case the
   harness logged (syntactically) the projection of the object graph before
   the call, gfapy's answers, and the projection after the call(s).  Here the
   graph is re-derived from the LOGGED pre-state with the operators of Gfa.tla
   (what is a dovetail, on which end it lies), the expected answers are
   computed with LinearPaths.tla / Multiply.tla, and every disagreement is
   printed as <<"REJECT", case id, set of clauses>>.

   pool record = abstract line of project.py + seq (1-char strings), ln, cnt, otags.
   observation = [lines |-> <<[p, virt, own, fwd, br]>>, cc, dig, hdr]                 *)
EXTENDS Gfa, LinearPaths, Multiply, Json, IOUtils, TLC

Data  == JsonDeserialize(IOEnv.TRACE_FILE)
Pool  == Data.pool
Cases == Data.cases

VARIABLE cid

Rec(ln) == Pool[ln.p]

-----------------------------------------------------------------------------
(* structural clauses on a logged object graph (the clauses of TraceGfa) *)
LIdx(o) == DOMAIN o.lines
BrTargets(o, j) ==
  LET RECURSIVE Flat(_)
      Flat(k) == IF k > Len(o.lines[j].br) THEN <<>> ELSE o.lines[j].br[k][2] \o Flat(k + 1)
  IN Flat(1)
Closed(o) == \A i \in LIdx(o) :
     (\A k \in DOMAIN o.lines[i].fwd : o.lines[i].fwd[k][2] >= 1)
  /\ (\A k \in DOMAIN BrTargets(o, i) : BrTargets(o, i)[k] >= 1)
Owner(o) == \A i \in LIdx(o) : o.lines[i].own = 1
NFwd(o, i, j) == Cardinality({k \in DOMAIN o.lines[i].fwd : o.lines[i].fwd[k][2] = j})
NBack(o, j, i) == LET b == BrTargets(o, j) IN Cardinality({k \in DOMAIN b : b[k] = i})
Symmetric(o) == \A i, j \in LIdx(o) : NFwd(o, i, j) = NBack(o, j, i)
GraphOK(o) == Closed(o) /\ Owner(o) /\ Symmetric(o)

-----------------------------------------------------------------------------
(* the sequence graph a logged state presents *)
RealIdx(o) == {i \in LIdx(o) : o.lines[i].virt = 0}
NVirt(o) == Cardinality(LIdx(o) \ RealIdx(o))
SegLenOf(r) == IF Len(r.f) = 2 THEN r.num[1]              \* GFA2 (slen, sequence): slen
               ELSE IF r.ln >= 0 THEN r.ln                 \* GFA1: LN tag
               ELSE IF r.seq # <<>> THEN Len(r.seq) ELSE -1
DoveIdx(o) == {i \in RealIdx(o) : IsDovetail(Rec(o.lines[i]))}
GraphOfObs(o) ==
  [segs  |-> {[name |-> Rec(o.lines[i]).name, seq |-> Rec(o.lines[i]).seq, len |-> SegLenOf(Rec(o.lines[i]))]
              : i \in {j \in RealIdx(o) : Rec(o.lines[j]).rt = "S"}},
   links |-> SeqMap(LAMBDA i : [ends |-> EndsOf(Rec(o.lines[i])), ov |-> OvKey(Rec(o.lines[i]).ovs[1])],
                    SetToSeq(DoveIdx(o)))]
\* the graph the harness meant to build (sanity of the text builder, not a verdict on gfapy)
GraphIntended(c) ==
  [segs  |-> {[name |-> c.intended.segs[k].name, seq |-> c.intended.segs[k].seq, len |-> c.intended.segs[k].len]
              : k \in DOMAIN c.intended.segs},
   links |-> [k \in DOMAIN c.intended.links |->
                [ends |-> {c.intended.links[k].e1, c.intended.links[k].e2}, ov |-> OvKey(c.intended.links[k].ov)]]]

\* GFA2: the positions of every edge fit the segments they refer to ($ exactly at the end)
SegLenNamed(o, n) ==
  LET S == {i \in RealIdx(o) : Rec(o.lines[i]).rt = "S" /\ Rec(o.lines[i]).name = n} IN
  IF S = {} THEN -1 ELSE SegLenOf(Rec(o.lines[CHOOSE i \in S : TRUE]))
\* (n = -1: the segment is only mentioned, its length is not known)
PosFits(b, bl, e, el, n) == n = -1 \/ (b >= 0 /\ b <= e /\ e <= n /\ (bl = 1 <=> b = n) /\ (el = 1 <=> e = n))
PosValid(o) == \A i \in RealIdx(o) :
  LET r == Rec(o.lines[i]) IN
  (r.rt = "E" /\ Len(r.num) = 8) =>
     /\ PosFits(r.num[1], r.num[2], r.num[3], r.num[4], SegLenNamed(o, r.refs[1].id))
     /\ PosFits(r.num[5], r.num[6], r.num[7], r.num[8], SegLenNamed(o, r.refs[2].id))

\* lines that mention none of the names N, as written (pool index) with their virtual flag.
\* A line TOUCHES the segments N when it mentions one of them or (by identifier) a line that
\* touches them: a group over an edge of a chain member, a path over such an edge, ...
Touches(r, N) == (r.rt = "S" /\ r.name \in N) \/ \E k \in DOMAIN r.refs : r.refs[k].id \in N
RECURSIVE TouchClosure(_, _)
TouchClosure(o, T) ==
  LET ids == {Rec(o.lines[i]).name : i \in T} \ {"*"}
      T2 == T \cup {i \in LIdx(o) : \E k \in DOMAIN Rec(o.lines[i]).refs : Rec(o.lines[i]).refs[k].id \in ids} IN
  IF T2 = T THEN T ELSE TouchClosure(o, T2)
TouchIdx(o, N) == TouchClosure(o, {i \in LIdx(o) : Touches(Rec(o.lines[i]), N)})
RestBag(o, N) == BagOf(SeqMap(LAMBDA i : <<o.lines[i].p, o.lines[i].virt>>,
                              SetToSeq(LIdx(o) \ TouchIdx(o, N))))
CompSets(o) == {Rng(o.cc[k]) : k \in DOMAIN o.cc}

-----------------------------------------------------------------------------
(* C14 *)
\* logged linear_paths() / linear_path(s) against the chains of the logged pre-state
ChainsOK(c, G, A) ==
  LET P == c.lps.paths IN
  /\ c.lps.res = "ok"
  /\ \A k \in DOMAIN P : P[k] \in A
  /\ \A j, k \in DOMAIN P : j # k => Names(P[j]) # Names(P[k])
  /\ {Names(P[k]) : k \in DOMAIN P} = {Names(w) : w \in A}
  /\ \A k \in DOMAIN c.lp :
       LET e == c.lp[k] IN
       /\ e.res = "ok"
       /\ IF \E w \in A : e.seg \in Names(w)
          THEN e.path \in A /\ e.seg \in Names(e.path)
          ELSE Len(e.path) <= 1 /\ (Len(e.path) = 1 => e.path[1][1] = e.seg)

\* assignments: to the k-th chain a reading and the name of a new segment, names distinct
RECURSIVE Assignments(_, _, _, _)
Assignments(G, chs, newNames, k) ==
  IF k = 0 THEN {<<>>}
  ELSE LET prev == Assignments(G, chs, newNames, k - 1)
           cands == Variants(G, chs[k]) \X newNames IN
       {Append(y[1], y[2]) : y \in {z \in prev \X cands : \A j \in DOMAIN z[1] : z[1][j][2] # z[2][2]}}

RECURSIVE MergedBy(_, _, _)
MergedBy(G, a, k) == IF k = 0 THEN G ELSE MergeNamed(MergedBy(G, a, k - 1), a[k][1], a[k][2])

SeqOKa(G, P1, a) == \A k \in DOMAIN a :
  a[k][2] \in SegNames(P1) /\ Seg(P1, a[k][2]).seq = Spell(G, a[k][1])
LenOKa(G, P1, a) == \A k \in DOMAIN a :
  /\ a[k][2] \in SegNames(P1)
  /\ LET s == Seg(P1, a[k][2])
         e == SpellLen(G, a[k][1]) IN
     /\ s.seq # <<>> => s.len = Len(s.seq)
     /\ s.len = -1 \/ e = -1 \/ s.len = e
LinksOKa(G, P1, a) == LinkBag(MergedBy(G, a, Len(a))) = LinkBag(P1)
\* "connected components are preserved": the partition of the post-state is the image of the
\* partition of the pre-state under the merge map -- for the graphs as written (Comps) and for
\* gfapy's own answers connected_components() before and after (whether these answers are the
\* right partition of a given graph is C16's concern, not decided here)
CompsOKa(G, P1, opre, o, chs, a) ==
  LET Map(n) == IF \E k \in DOMAIN chs : n \in Names(chs[k])
                THEN a[CHOOSE k \in DOMAIN chs : n \in Names(chs[k])][2] ELSE n IN
  /\ Comps(P1) = {{Map(n) : n \in K} : K \in Comps(G)}
  /\ CompSets(o) = {{Map(n) : n \in K} : K \in CompSets(opre)}
  /\ Len(o.cc) = Cardinality(CompSets(o))

\* the clauses about the merged graph, for the chains chs (a sequence) taken as the merged ones
MergeFails(c, G, P1, chs) ==
  LET o1 == c.m1.obs
      members == UNION {Names(chs[k]) : k \in DOMAIN chs}
      newNames == SegNames(P1) \ SegNames(G)
      n == Len(chs)
      all == IF Cardinality(newNames) = n THEN Assignments(G, chs, newNames, n) ELSE {}
      sOK == {a \in all : SeqOKa(G, P1, a)}
      lOK == {a \in all : LenOKa(G, P1, a)}
      base == IF sOK \cap lOK # {} THEN sOK \cap lOK ELSE all
      kOK == {a \in base : LinksOKa(G, P1, a)}
      cbase == IF sOK \cap lOK \cap kOK # {} THEN sOK \cap lOK \cap kOK ELSE all IN
  (IF sOK # {} THEN {} ELSE {"C14.sequence"})
  \cup (IF lOK # {} /\ (sOK = {} \/ sOK \cap lOK # {}) THEN {} ELSE {"C14.length"})
  \cup (IF kOK # {} /\ PosValid(o1) THEN {} ELSE {"C14.links"})
  \cup (IF RestBag(c.pre, members) = RestBag(o1, newNames) /\ c.pre.hdr = o1.hdr THEN {} ELSE {"C14.rest"})
  \cup (IF \E a \in cbase : CompsOKa(G, P1, c.pre, o1, chs, a) THEN {} ELSE {"C14.components"})

C14Fails(c) ==
  LET G  == GraphOfObs(c.pre)
      A  == AllWalks(G)
      o1 == c.m1.obs
      o2 == c.m2.obs
      P1 == GraphOfObs(o1)
      C == Chains(G)
      \* chains with a mismatch operation (X) in a joining overlap: merged or refused (see LinearPaths)
      \* (for a pure cycle, which dovetail closes it depends on the rotation: any reading counts)
      XC == {w \in C : \E v \in Variants(G, w) : HasMismatchJoin(G, v)}
      \* the sets of chains that may have been merged: all of them; if the call succeeded, at
      \* least those without X; if it was refused, at least one chain with X is not merged
      \* (the refused one; those merged before the refusal are merged correctly -- a cycle
      \* possibly in a reading that avoids its X dovetail --, everything else is untouched)
      allowed == IF XC = {} THEN {C}
                 ELSE IF c.m1.res = "ok" THEN {S \in SUBSET C : C \ XC \subseteq S}
                 ELSE {S \in SUBSET C : XC \ S # {}}
      good == {S \in allowed : MergeFails(c, G, P1, SetToSeq(S)) = {}}
      refusedOK == XC # {} /\ c.m1.res \in {"Error"}
      foreign == c.lps.res = "FOREIGN" \/ c.m1.res = "FOREIGN" \/ c.m2.res = "FOREIGN"
                 \/ \E k \in DOMAIN c.lp : c.lp[k].res = "FOREIGN" IN
  (IF foreign THEN {"foreign"} ELSE {})
  \cup (IF c.m1.res \notin {"ok", "FOREIGN"} /\ ~refusedOK THEN {"C14.refused"} ELSE {})
  \cup (IF ChainsOK(c, G, A) THEN {} ELSE {"C14.chains"})
  \cup (IF good # {} THEN {} ELSE MergeFails(c, G, P1, SetToSeq(C)))
  \* closed and symmetric; the chain is REPLACED: no placeholder stands in for a removed member
  \cup (IF GraphOK(o1) /\ NVirt(o1) = 0 THEN {} ELSE {"C14.graph"})
  \cup (IF c.m1.res # "ok" \/ (c.m2.res \in (IF XC = {} THEN {"ok"} ELSE {"ok", "Error"})
                                /\ o2.dig = o1.dig /\ SameGraph(GraphOfObs(o2), P1))
        THEN {} ELSE {"C14.idempotent"})

\* the text builder of the harness produced the intended graph (else: machinery failure)
PreOK(c) ==
  LET G == GraphOfObs(c.pre)
      I == GraphIntended(c) IN
  /\ G.segs = I.segs /\ LinkBag(G) = LinkBag(I)
  /\ PosValid(c.pre) /\ GraphOK(c.pre)
  /\ Cardinality({i \in RealIdx(c.pre) : IsContainment(Rec(c.pre.lines[i]))}) = c.intended.nconts
  \* placeholders only in the cases that were built to have them
  /\ c.intended.virtok = 1 \/ \A i \in LIdx(c.pre) : c.pre.lines[i].virt = 0

-----------------------------------------------------------------------------
(* C15 *)
LinesOfObs(o) == SeqMap(LAMBDA i : Rec(o.lines[i]), SetToSeq(RealIdx(o)))
VirtLinesOfObs(o) == SeqMap(LAMBDA i : Rec(o.lines[i]), SetToSeq(LIdx(o) \ RealIdx(o)))

C15Fails(c) ==
  LET pre == LinesOfObs(c.pre)
      post == LinesOfObs(c.m1.obs)
      args == [seg |-> c.args.seg, k |-> c.args.k, policy |-> c.args.policy, names |-> c.args.names]
      res == c.m1.res
      same == c.m1.obs.dig = c.pre.dig /\ UnchangedOK(pre, post) IN
  (IF res = "FOREIGN" THEN {"foreign"} ELSE {})
  \cup (IF GraphOK(c.m1.obs) /\ PosValid(c.m1.obs) THEN {} ELSE {"C15.graph"})
  \* placeholders (virtual lines): none appears in a graph without; in a graph with placeholders
  \* (factor >= 2) those of the rest stay and none is invented on a copy
  \cup (IF NVirt(c.pre) = 0 THEN (IF NVirt(c.m1.obs) = 0 THEN {} ELSE {"C15.rest"})
        ELSE IF args.k >= 2 /\ res = "ok"
             THEN PlaceholderFails(pre, post, VirtLinesOfObs(c.pre), VirtLinesOfObs(c.m1.obs), args)
             ELSE {})
  \cup (IF args.k < 0 THEN (IF res \in ErrorClasses /\ same THEN {} ELSE {"C15.factor"})
        ELSE (IF res \notin {"ok", "FOREIGN"} THEN {"C15.refused"} ELSE {})
             \cup (IF args.k = 0 THEN (IF res = "ok" /\ RemovedOK(pre, post, args) THEN {} ELSE {"C15.factor"})
                   ELSE IF args.k = 1 THEN (IF res = "ok" /\ same THEN {} ELSE {"C15.factor"})
                   ELSE MultiplyFailsU(pre, post, args,
                                       LET v == VirtLinesOfObs(c.pre) IN UsedIds(v) \cup MentionedIds(v))))

-----------------------------------------------------------------------------
Fails(c) == IF ~PreOK(c) THEN {"harness.pre"}
            ELSE IF c.kind = "c14" THEN C14Fails(c)
            ELSE C15Fails(c)

Init == cid \in 1..Len(Cases)
Next == FALSE /\ cid' = cid
Spec == Init /\ [][Next]_cid

Judge == LET f == Fails(Cases[cid]) IN
         IF f = {} THEN TRUE ELSE PrintT(<<"REJECT", Cases[cid].id, f>>)
=============================================================================
