----------------------------- MODULE MC_Groups -----------------------------
(* C17, spec -> code direction, and design-level checks of Groups.tla.

   TLC enumerates the cases of ONE family (and one shard of it) described in the
   catalogue file (a JSON file written by harness/fam_groups.py and read by both
   sides): a GFA2 base graph and up to four "slots", each slot an O or U line
   whose item list ranges over ALL sequences (length lo..hi) over the slot's
   alphabet of items (segments+-, edges+-, nested paths+-, sets, an undefined
   identifier), or over an explicit list of item lists given in the catalogue
   (targeted families).  The item list of slot 1 can be cut into 1..3 consecutive
   chunks = several lines with the same identifier (families of kind "walks":
   slot 1 ranges instead over every way of leaving elements out of every walk of
   the graph with a bounded number of edges; families of kind "repeat": only the
   cases in which the path of slot 1 comes to another path more than once and
   still has a walk -- see Repeating).  Two slots may carry the same identifier:
   they are two more lines of one group.  The lines arrive in the
   order `perm` (identity / identity and reverse / every permutation) and carry
   the tag sets `tg` (disjoint, equal, contradictory ...).  `arr` is the
   arrangement of the group lines relative to the base graph (1 graph first,
   2 groups first, 3 segments-groups-edges, 4 edges-groups-segments; 5 and up:
   an order of the blocks S, E, F, G, group lines but the last, last group
   line -- a code that only harness/fam_groups.py interprets: the base graph
   may contain fragments and gaps, which create placeholders like E lines do).

   Every case is one TLC state; the single invariant Case prints it
   ("CASE <<arr, lines, classes>>": the lines as indices into the catalogue
   tables, the strict expectation of every group as a class) and evaluates the
   design-level properties of the specification on it:
     StrictDet       the strict reading is a function (up to the orientation of
                     a supplied hairpin edge)
     StrictInRelaxed the strict answer is an outcome of the relaxed reading
     WellFormed      a captured walk alternates segments and edges, starts and
                     ends with a segment, and every edge leads from the segment
                     before it to the segment after it
     Reversal        the outcomes of the reversed item list (reverse order, all
                     orientations inverted) are the reversed walks
     MergeAgrees     MergedItems / MergedTags (written here from the GFA2
                     sentence) agree with Gfa!MergeGroup on the delivered lines
     InducedClosed   the induced set contains what the group lists, both segments
                     of each listed edge and the segments and edges of the
                     captured walk of a path it reaches                        *)
EXTENDS Groups, Json, IOUtils, TLC

Cat   == JsonDeserialize(IOEnv.CATALOG_FILE)
Fam   == Cat.fam
ItemT == Cat.items
TagT  == Cat.tags
Graph == Cat.graphs[Fam.g]
NS    == Len(Fam.slots)

VARIABLES s1, s2, s3, s4, cut, tg, perm, arr
vars == <<s1, s2, s3, s4, cut, tg, perm, arr>>

\* --- families of kind "walks": slot 1 ranges over the PRESENTATIONS of the walks of
\* the graph: every strict walk with at most Fam.maxedges edges (built by following
\* dovetails from every oriented segment), and every non-empty subsequence of it
\* (elements left out = elements to be supplied) that still has a walk or is
\* ambiguous -- the contiguous item lists of the quantifier, up to 2*maxedges+1 items
RECURSIVE WalksUpTo(_)
WalksUpTo(k) ==
  IF k = 0 THEN {<<[id |-> Graph[i].name, o |-> o]>> : i \in {j \in DOMAIN Graph : Graph[j].rt = "S"}, o \in {"+", "-"}}
  ELSE LET W == WalksUpTo(k - 1) IN
       W \cup {w \o <<[id |-> Graph[p[1]].name, o |-> p[2]], ETo(Graph[p[1]], p[2])>> :
                 w \in W, p \in {q \in EdgeIdxOf(Graph) \X {"+", "-"} : IsDovetail(Graph[q[1]])}}
\* (filtered below: the edge must start where the walk ends)
IsWalk(w) == \A i \in DOMAIN w : (i % 2 = 0) => EFrom(LineNamed(Graph, w[i].id), w[i].o) = w[i - 1]
IdxOfItem(r) == CHOOSE i \in DOMAIN ItemT : ItemT[i] = r
RECURSIVE SubSeqs(_)
SubSeqs(w) == IF w = <<>> THEN {<<>>}
              ELSE LET R == SubSeqs(Tail(w)) IN R \cup {<<Head(w)>> \o r : r \in R}
Presentable(its) ==
  LET D == Append(Graph, [rt |-> "O", name |-> "o", refs |-> its, f |-> <<>>, num |-> <<>>,
                          tags |-> <<>>, tagn |-> <<>>, ovs |-> <<>>])
      cp == CapturedPath(D, "o") IN
  cp.ok \/ cp.kind = "ambiguous"
Presentations ==
  {[i \in DOMAIN its |-> IdxOfItem(its[i])] :
     its \in {x \in UNION {SubSeqs(w) : w \in {v \in WalksUpTo(Fam.maxedges) : IsWalk(v)}} :
                x # <<>> /\ Presentable(x)}}

SeqsOf(k) ==
  LET sl == Fam.slots[k]
      A == Rng(sl.alph) IN
  IF k = 1 /\ Fam.kind = "walks" THEN Presentations
  ELSE IF sl.seqs # <<>> THEN Rng(sl.seqs)       \* an explicit list of item lists
  ELSE
  {s \in UNION {[1..n -> A] : n \in sl.lo..sl.hi} :
       sl.must = <<>> \/ \E i \in DOMAIN s : s[i] \in Rng(sl.must)}
SlotSet(k) == IF k <= NS THEN SeqsOf(k) ELSE {<<>>}

Cuts(n) ==
  (IF Fam.splitmin <= 1 THEN {<<n>>} ELSE {})
  \cup (IF Fam.splitmin <= 2 /\ Fam.split >= 2 THEN {<<i, n - i>> : i \in 1..(n - 1)} ELSE {})
  \cup (IF Fam.split >= 3
        THEN {<<p[1], p[2], n - p[1] - p[2]>> : p \in {q \in (1..n) \X (1..n) : q[1] + q[2] < n}}
        ELSE {})

Ident(n) == [i \in 1..n |-> i]
PermsFor(n) ==
  CASE Fam.orders = "all" -> {p \in [1..n -> 1..n] : \A i, j \in 1..n : p[i] = p[j] => i = j}
    [] Fam.orders = "rev" -> {Ident(n), [i \in 1..n |-> n + 1 - i]}
    [] OTHER -> {Ident(n)}

\* shard of a case: a hash of its item lists (and of the arrival order and arrangement)
RECURSIVE Hash(_, _)
Hash(s, h) == IF s = <<>> THEN h ELSE Hash(Tail(s), (h * 31 + Head(s)) % 10007)
Key(a, b, c, d) == Hash(a \o <<0>> \o b \o <<0>> \o c \o <<0>> \o d, 7)

\* --- families of kind "repeat": only the cases in which the path of slot 1 comes to
\* one of the other paths MORE THAN ONCE (as siblings, or through different intermediate
\* paths; counted over the expansion of the item lists) and still has a walk or is
\* ambiguous: no path is nested in itself, the repeated path is simply walked again
LD(rt, id, it, t) == [rt |-> rt, id |-> id, it |-> it, tg |-> t]
Abs(d) == [rt |-> d.rt, name |-> d.id, refs |-> [i \in DOMAIN d.it |-> ItemT[d.it[i]]],
           f |-> <<>>, num |-> <<>>, tags |-> TagT[d.tg].t, tagn |-> TagT[d.tg].n, ovs |-> <<>>]
RECURSIVE ReachCount(_, _, _, _)
ReachCount(D, items, q, stack) ==
  IF items = <<>> THEN 0
  ELSE LET x == Head(items)
           ln == LineNamed(D, x.id) IN
       (IF x.id = q THEN 1 ELSE 0)
       + (IF ln.rt = "O" /\ x.id \notin stack THEN ReachCount(D, ln.refs, q, stack \cup {x.id}) ELSE 0)
       + ReachCount(D, Tail(items), q, stack)
Repeating(a, b, c, d) ==
  LET S == <<a, b, c, d>>
      D == DeliverAll(Graph, [k \in 1..NS |-> Abs(LD(Fam.slots[k].rt, Fam.slots[k].id, S[k], 1))])
      top == Fam.slots[1].id IN
  /\ \E k \in 2..NS : /\ Fam.slots[k].rt = "O"
                       /\ ReachCount(D, LineNamed(D, top).refs, Fam.slots[k].id, {top}) >= 2
  /\ LET cp == CapturedPath(D, top) IN IF cp.ok THEN TRUE ELSE cp.kind = "ambiguous"

Init ==
  /\ s1 \in SeqsOf(1)
  /\ s2 \in SlotSet(2)
  /\ s3 \in SlotSet(3)
  /\ s4 \in SlotSet(4)
  /\ Fam.kind = "repeat" => (Key(s1, s2, s3, s4) % Fam.nsh = Fam.sh /\ Repeating(s1, s2, s3, s4))
  /\ cut \in Cuts(Len(s1))
  /\ tg \in {t \in Rng(Fam.tagsets) : Len(t) = Len(cut)}
  /\ perm \in PermsFor(Len(cut) + NS - 1)
  /\ arr \in Rng(Fam.arrs)
  /\ Fam.kind # "repeat" => (Key(s1, s2, s3, s4) + 13 * arr + Hash(perm, 3) + 5 * Len(cut)) % Fam.nsh = Fam.sh
Next == UNCHANGED vars
Spec == Init /\ [][Next]_vars

-----------------------------------------------------------------------------
\* line descriptions (indices into the catalogue tables) in arrival order
Start(i) == IF i = 1 THEN 1 ELSE 1 + cut[1] + (IF i = 3 THEN cut[2] ELSE 0)
Chunk(i) == SubSeq(s1, Start(i), Start(i) + cut[i] - 1)
Rest == LET S == <<s1, s2, s3, s4>> IN
        [k \in 1..(NS - 1) |-> LD(Fam.slots[k + 1].rt, Fam.slots[k + 1].id, S[k + 1], 1)]
Lines0 == [i \in 1..Len(cut) |-> LD(Fam.slots[1].rt, Fam.slots[1].id, Chunk(i), tg[i])] \o Rest
LinesD == [i \in DOMAIN Lines0 |-> Lines0[perm[i]]]

Lines == [i \in DOMAIN LinesD |-> Abs(LinesD[i])]

\* the document: the graph, then the group lines in arrival order (the arrangement
\* does not change the relative order of the group lines)
Doc == DeliverAll(Graph, Lines)

GroupIds == LET all == [i \in DOMAIN Lines |-> Lines[i].name] IN
            SelectSeq([i \in DOMAIN all |-> IF \E j \in 1..(i - 1) : all[j] = all[i] THEN "" ELSE all[i]],
                      LAMBDA x : x # "")

-----------------------------------------------------------------------------
WalkSet(S) == {r.w : r \in {x \in S : x.ok}}
HasErr(S) == \E r \in S : ~r.ok

\* B: the outcomes of the path under every reading (Groups!ByReading), <<>> for a set
ClassOf(D, id, B) ==
  LET ln == LineNamed(D, id) IN
  IF ln.rt = "O" THEN
    LET cp == StrictAnswer(B[Strict])
        differs == MayFailIn(B) # ~cp.ok \/ Cardinality(WalksIn(B)) > 1 IN
    <<id, "O", IF cp.ok THEN "walk" ELSE cp.kind,
      IF cp.ok THEN Len(cp.walk) > Len(ln.refs) ELSE TRUE, differs>>
  ELSE IF ln.rt = "U" THEN
    LET is == InducedSet(D, id) IN
    <<id, "U", IF is.ok THEN "set" ELSE is.kind,
      IF is.ok THEN Cardinality(is.segs) + Cardinality(is.edges) > Cardinality(RefIds(ln)) ELSE TRUE,
      SetMayFail(D, id) # ~is.ok>>
  ELSE <<id, "-", "refused", FALSE, FALSE>>

-----------------------------------------------------------------------------
(* design-level properties *)
RevItems(its) == [i \in 1..Len(its) |-> InvRef(its[Len(its) + 1 - i])]
SegEdgeNames(D, w) == [i \in DOMAIN w |-> IF i % 2 = 1 THEN w[i] ELSE [id |-> w[i].id, o |-> ""]]

StrictDet(D, id, S) ==
  \/ \A r \in S : r.ok /\ \A q \in S : SegEdgeNames(D, q.w) = SegEdgeNames(D, r.w)
  \/ Cardinality(S) = 1 /\ HasErr(S)
StrictInRelaxed(D, id, B) ==
  LET S == B[Strict] IN
  /\ WalkSet(S) \subseteq WalksIn(B)
  /\ (\A r \in S : ~r.ok) => MayFailIn(B)
WellFormed(D, id, S) ==
  \A w \in WalkSet(S) :
    /\ Len(w) % 2 = 1
    /\ \A i \in DOMAIN w :
         IF i % 2 = 1 THEN LineNamed(D, w[i].id).rt = "S"
         ELSE \E j \in EdgeIdxOf(D) :      \* (a supplied edge may be unnamed)
                /\ D[j].name = w[i].id
                /\ EFrom(D[j], w[i].o) = w[i - 1] /\ ETo(D[j], w[i].o) = w[i + 1]
Reversal(D, id, fw) ==
  LET its == LineNamed(D, id).refs
      bw == WalksOf(D, Strict, RevItems(its), {id}) IN
  /\ WalkSet(bw) = {RevWalk(w) : w \in WalkSet(fw)}
  /\ HasErr(bw) = HasErr(fw)

\* the accepted lines of one identifier, in arrival order
RECURSIVE Accepted(_, _, _)
Accepted(D, ls, id) ==
  IF ls = <<>> THEN <<>>
  ELSE LET r == Deliver(D, Head(ls)) IN
       (IF r.ok /\ Head(ls).name = id THEN <<Head(ls)>> ELSE <<>>) \o Accepted(r.d, Tail(ls), id)
MergeAgrees(D, id) ==
  LET acc == Accepted(Graph, Lines, id)
      ln == LineNamed(D, id) IN
  ln.rt \in {"O", "U"} => (ln.refs = MergedItems(acc) /\ Rng(ln.tags) = MergedTags(acc)
                             /\ \A i, j \in DOMAIN ln.tags : ln.tagn[i] = ln.tagn[j] => i = j)

InducedClosed(D, id) ==
  LET is == InducedSet(D, id) IN
  is.ok =>
    /\ \A x \in RefIds(LineNamed(D, id)) :       \* what is listed is in the set
         /\ LineNamed(D, x).rt = "S" => x \in is.segs
         /\ LineNamed(D, x).rt = "E" => x \in is.edges /\ {LineNamed(D, x).refs[1].id, LineNamed(D, x).refs[2].id} \subseteq is.segs
    /\ \A p \in PathsReached(D, id) :
         LET cp == CapturedPath(D, p) IN
         cp.ok => {x.id : x \in Rng(SegsOfWalk(D, cp.walk))} \subseteq is.segs
                  /\ {x.id : x \in Rng(EdgesOfWalk(D, cp.walk))} \subseteq is.edges

Design(D, id, B) ==
  LET rt == LineNamed(D, id).rt IN
  /\ MergeAgrees(D, id)
  /\ rt = "O" => LET S == B[Strict] IN
                 StrictDet(D, id, S) /\ StrictInRelaxed(D, id, B) /\ WellFormed(D, id, S) /\ Reversal(D, id, S)
  /\ rt = "U" => InducedClosed(D, id)

Compact(d) == <<d.rt, d.id, d.it, d.tg>>
Case ==
  LET D == Doc
      ids == GroupIds
      Bs == [i \in DOMAIN ids |-> IF LineNamed(D, ids[i]).rt = "O" THEN ByReading(D, ids[i]) ELSE <<>>] IN
  /\ PrintT("CASE " \o ToString(<<arr, [i \in DOMAIN LinesD |-> Compact(LinesD[i])],
                                   [i \in DOMAIN ids |-> ClassOf(D, ids[i], Bs[i])]>>))
  /\ \A i \in DOMAIN ids : Design(D, ids[i], Bs[i])
=============================================================================
