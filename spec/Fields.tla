------------------------------- MODULE Fields -------------------------------
(* The per-line field store of gfapy (properties C18, C19, C20).

   PART 1  characters and the grammars of the seven tag datatypes, as
           recognisers over sequences of 1-character strings.
   PART 2  symbolic integers (TLC integers are 32 bit) and the B-array
           subtype table  Subtypes(min, max).
   PART 3  Python values as abstract descriptors: documented default datatype
           of a value assigned to a new tag, "representable or not" per
           datatype.
   PART 4  the field store as a state machine with a validation level:
           Step(st, op) returns the SET of allowed outcomes of one public call
           (Set / Add / Get / Write / Str / Validate / ValidateField / Delete /
           Clone / EditInPlace) -- relational where the property statements
           leave gfapy free.  The statements of C18 and C19 are then given as
           predicates over one transition (pre-state, call, outcome); MC_Fields
           checks them on every transition of the machine, TraceFields uses the
           same Step to judge what the real gfapy did.

   Written from the property statements, doc/tutorial/tags.rst,
   doc/tutorial/validation.rst and the GFA specifications, not from the code. *)
EXTENDS Naturals, Integers, Sequences, FiniteSets, Util

-----------------------------------------------------------------------------
(* PART 1 -- characters, recognisers *)

Digit == {"0", "1", "2", "3", "4", "5", "6", "7", "8", "9"}
HexUp == Digit \cup {"A", "B", "C", "D", "E", "F"}
Lower == {"a", "b", "c", "d", "e", "f", "g", "h", "i", "j", "k", "l", "m", "n",
          "o", "p", "q", "r", "s", "t", "u", "v", "w", "x", "y", "z"}
Upper == {"A", "B", "C", "D", "E", "F", "G", "H", "I", "J", "K", "L", "M", "N",
          "O", "P", "Q", "R", "S", "T", "U", "V", "W", "X", "Y", "Z"}
Letter == Lower \cup Upper
Punct == {"!", "\"", "#", "$", "%", "&", "'", "(", ")", "*", "+", ",", "-", ".",
          "/", ":", ";", "<", "=", ">", "?", "@", "[", "\\", "]", "^", "_", "`",
          "{", "|", "}", "~"}
\* the 94 characters '!' .. '~'
Printable == Digit \cup Letter \cup Punct
PrintSp == Printable \cup {" "}

AllIn(s, S) == \A i \in DOMAIN s : s[i] \in S
IsDigits(s) == Len(s) >= 1 /\ AllIn(s, Digit)
Unsigned(s) == IF Len(s) >= 1 /\ s[1] \in {"+", "-"} THEN Tail(s) ELSE s

\* first index of an element of S in s; 0 when there is none
FirstIn(s, S) ==
  IF \E i \in DOMAIN s : s[i] \in S
  THEN CHOOSE i \in DOMAIN s : s[i] \in S /\ \A j \in 1..(i - 1) : s[j] \notin S
  ELSE 0

RECURSIVE Split(_, _)
Split(s, c) == LET p == FirstIn(s, {c}) IN
               IF p = 0 THEN <<s>>
               ELSE <<SubSeq(s, 1, p - 1)>> \o Split(SubSeq(s, p + 1, Len(s)), c)

\* i : [-+]?[0-9]+
AccI(s) == IsDigits(Unsigned(s))
\* f : [-+]?[0-9]*\.?[0-9]+([eE][-+]?[0-9]+)?
Mantissa(m) == LET p == FirstIn(m, {"."}) IN
               IF p = 0 THEN IsDigits(m)
               ELSE AllIn(SubSeq(m, 1, p - 1), Digit) /\ IsDigits(SubSeq(m, p + 1, Len(m)))
AccF(s) == LET u == Unsigned(s)
               p == FirstIn(u, {"e", "E"}) IN
           IF p = 0 THEN Mantissa(u)
           ELSE Mantissa(SubSeq(u, 1, p - 1)) /\ AccI(SubSeq(u, p + 1, Len(u)))
\* Z : [ !-~]+        A : [!-~]
AccZ(s) == Len(s) >= 1 /\ AllIn(s, PrintSp)
AccA(s) == Len(s) = 1 /\ s[1] \in Printable
\* H : [0-9A-F]+ spelling whole bytes
AccH(s) == Len(s) >= 2 /\ Len(s) % 2 = 0 /\ AllIn(s, HexUp)
\* B : [cCsSiIf](,number)+
IntSub == {"c", "C", "s", "S", "i", "I"}
AccB(s) == LET parts == Split(s, ",") IN
           /\ Len(parts) >= 2
           /\ Len(parts[1]) = 1
           /\ \/ parts[1][1] \in IntSub /\ \A i \in 2..Len(parts) : AccI(parts[i])
              \/ parts[1][1] = "f" /\ \A i \in 2..Len(parts) : AccF(parts[i])
\* J : coarse -- a bracketed text without tab, newline or non-printable character
AccJ(s) == /\ Len(s) >= 2 /\ AllIn(s, PrintSp)
           /\ \/ s[1] = "[" /\ s[Len(s)] = "]"
              \/ s[1] = "{" /\ s[Len(s)] = "}"

TagDT == {"i", "f", "Z", "A", "J", "H", "B"}
Accepts(dt, s) ==
  CASE dt = "i" -> AccI(s) [] dt = "f" -> AccF(s) [] dt = "Z" -> AccZ(s)
    [] dt = "A" -> AccA(s) [] dt = "J" -> AccJ(s) [] dt = "H" -> AccH(s)
    [] dt = "B" -> AccB(s) [] OTHER -> FALSE

\* a written tag NN:T:value
TagNameOK(n) == Len(n) = 2 /\ n[1] \in Letter /\ n[2] \in Letter \cup Digit
TagShape(s) == Len(s) >= 6 /\ s[3] = ":" /\ s[5] = ":" /\ TagNameOK(SubSeq(s, 1, 2))
TagTypeOf(s) == s[4]
TagValueOf(s) == SubSeq(s, 6, Len(s))
\* the B subtype letter of a written value
WrittenSubtype(v) == IF Len(v) >= 1 THEN v[1] ELSE "?"

\* small decimal numbers (at most 9 digits) as TLC integers
DigitVal(c) == CASE c = "0" -> 0 [] c = "1" -> 1 [] c = "2" -> 2 [] c = "3" -> 3 [] c = "4" -> 4
                 [] c = "5" -> 5 [] c = "6" -> 6 [] c = "7" -> 7 [] c = "8" -> 8 [] c = "9" -> 9
RECURSIVE NatOf(_)
NatOf(s) == IF s = <<>> THEN 0 ELSE 10 * NatOf(SubSeq(s, 1, Len(s) - 1)) + DigitVal(s[Len(s)])
Small(s) == AccI(s) /\ Len(Unsigned(s)) <= 9
IntOf(s) == IF s[1] = "-" THEN 0 - NatOf(Tail(s)) ELSE NatOf(Unsigned(s))
\* range of a subtype for numbers below 10^9 (so i holds all of them)
InRangeSmall(t, n) ==
  CASE t = "c" -> -128 <= n /\ n <= 127      [] t = "C" -> 0 <= n /\ n <= 255
    [] t = "s" -> -32768 <= n /\ n <= 32767  [] t = "S" -> 0 <= n /\ n <= 65535
    [] t = "i" -> TRUE                        [] t = "I" -> 0 <= n
    [] OTHER -> FALSE
\* an encoded B array all of whose integers are small: grammar and range
StrBOK(s) == LET parts == Split(s, ",") IN
             /\ AccB(s)
             /\ parts[1][1] \in IntSub =>
                  \A i \in 2..Len(parts) : Small(parts[i]) /\ InRangeSmall(parts[1][1], IntOf(parts[i]))

-----------------------------------------------------------------------------
(* PART 2 -- symbolic integers and the subtype table

   [sg, e, d] stands for  sg * 2^e + d  with sg in {-1, 0, 1}, |d| <= 63,
   e = 0 when sg = 0 and 7 <= e <= 64 otherwise.  Under these side conditions
   the denotation is injective and ordered lexicographically by (sg * e, d):
   2^e + 63 < 2^(e+1) - 63 for e >= 7, and |d| <= 63 < 2^7 - 63.              *)

Sym(sg, e, d) == [sg |-> sg, e |-> e, d |-> d]
SymOK(n) == /\ n.sg \in {-1, 0, 1} /\ n.d \in -63..63
            /\ (n.sg = 0 => n.e = 0) /\ (n.sg # 0 => n.e \in 7..64)
Zero == Sym(0, 0, 0)
Rank(n) == n.sg * n.e
Lt(a, b) == Rank(a) < Rank(b) \/ (Rank(a) = Rank(b) /\ a.d < b.d)
Le(a, b) == ~Lt(b, a)

RECURSIVE MinOf(_)
MinOf(s) == IF Len(s) = 1 THEN s[1]
            ELSE LET m == MinOf(Tail(s)) IN IF Lt(s[1], m) THEN s[1] ELSE m
RECURSIVE MaxOf(_)
MaxOf(s) == IF Len(s) = 1 THEN s[1]
            ELSE LET m == MaxOf(Tail(s)) IN IF Lt(m, s[1]) THEN s[1] ELSE m

\* c [-2^7, 2^7-1]  C [0, 2^8-1]  s [-2^15, 2^15-1]  S [0, 2^16-1]  i [-2^31, 2^31-1]  I [0, 2^32-1]
SubLo(t) == CASE t = "c" -> Sym(-1, 7, 0) [] t = "s" -> Sym(-1, 15, 0) [] t = "i" -> Sym(-1, 31, 0)
              [] OTHER -> Zero
SubHi(t) == CASE t = "c" -> Sym(1, 7, -1) [] t = "C" -> Sym(1, 8, -1) [] t = "s" -> Sym(1, 15, -1)
              [] t = "S" -> Sym(1, 16, -1) [] t = "i" -> Sym(1, 31, -1) [] t = "I" -> Sym(1, 32, -1)
Bits(t) == CASE t \in {"c", "C"} -> 8 [] t \in {"s", "S"} -> 16 [] OTHER -> 32
Holds(t, lo, hi) == Le(SubLo(t), lo) /\ Le(hi, SubHi(t))
Holding(lo, hi) == {t \in IntSub : Holds(t, lo, hi)}
\* the smallest integer subtypes holding [lo, hi]: every holding subtype of minimal width
\* (the statement does not choose between c and C for 0..127); {} = out of range
Subtypes(lo, hi) == LET H == Holding(lo, hi) IN {t \in H : \A u \in H : Bits(t) <= Bits(u)}

-----------------------------------------------------------------------------
(* PART 3 -- Python values

   A value descriptor (all keys always present):
     k     "int" "float" "str" "dict" "list" "numlist" "numarray" "bytearray"
           ("list" = a list that is not purely numeric; "numlist" = a Python
            list of numbers; "numarray" = gfapy.NumericArray)
     n     the integer (symbolic) when k = "int"
     fin   all floats involved are finite
     chars the characters when k = "str"
     el    element kind of a numlist / numarray: "int" "float" "mixed" "none"
     elems the integers (symbolic) of an integer numlist / numarray
     len   number of elements (numlist, numarray, bytearray)                   *)

\* documented default datatype for a value assigned to a NEW tag (tags.rst: "i/f for
\* numeric values, J/B for arrays, J for hashes and Z for strings"; NumericArray -> B,
\* ByteArray -> H).  A set: which of J/B an empty or mixed numeric list gets is not fixed.
DefaultDTs(v) ==
  CASE v.k = "int" -> {"i"} [] v.k = "float" -> {"f"} [] v.k = "str" -> {"Z"}
    [] v.k = "dict" -> {"J"} [] v.k = "list" -> {"J"}
    [] v.k = "numlist" -> IF v.el \in {"int", "float"} THEN {"B"} ELSE {"J", "B"}
    [] v.k = "numarray" -> {"B"}
    [] v.k = "bytearray" -> {"H"}

\* which (datatype, kind of value) pairs the claim of C20 speaks about: the Python
\* class documented for the datatype, or a string (the encoded form)
InScope(dt, v) ==
  CASE dt = "i" -> v.k \in {"int", "str"}
    [] dt = "f" -> v.k \in {"float", "str"}
    [] dt = "Z" -> v.k = "str"
    [] dt = "A" -> v.k = "str"
    [] dt = "J" -> v.k \in {"dict", "list", "numlist", "numarray", "str"}   \* (a NumericArray is a list)
    [] dt = "B" -> v.k \in {"numlist", "numarray", "str"}
    [] dt = "H" -> v.k \in {"bytearray", "str"}
    [] OTHER -> FALSE

NumArrayOK(v) ==
  /\ v.len >= 1
  /\ \/ v.el = "float" /\ v.fin
     \/ v.el = "int" /\ Subtypes(MinOf(v.elems), MaxOf(v.elems)) # {}

\* can the datatype represent the value?
Representable(dt, v) ==
  CASE dt = "i" -> v.k = "int" \/ (v.k = "str" /\ AccI(v.chars))
    [] dt = "f" -> (v.k = "float" /\ v.fin) \/ (v.k = "str" /\ AccF(v.chars))
    [] dt = "Z" -> v.k = "str" /\ AccZ(v.chars)
    [] dt = "A" -> v.k = "str" /\ AccA(v.chars)
    [] dt = "J" -> (v.k \in {"dict", "list"}) \/ (v.k \in {"numlist", "numarray"} /\ v.fin)
                   \/ (v.k = "str" /\ AccJ(v.chars))
    [] dt = "B" -> (v.k \in {"numlist", "numarray"} /\ NumArrayOK(v))
                   \/ (v.k = "str" /\ StrBOK(v.chars))
    [] dt = "H" -> (v.k = "bytearray" /\ v.len >= 1) \/ (v.k = "str" /\ AccH(v.chars))
    [] OTHER -> FALSE

\* the subtype letters a written integer array may carry
ExpectedSubtypes(v) == IF v.el = "int" /\ v.len >= 1 THEN Subtypes(MinOf(v.elems), MaxOf(v.elems))
                       ELSE IF v.el = "float" THEN {"f"} ELSE {}

-----------------------------------------------------------------------------
(* PART 4 -- the field store

   A copy of a line:  [lvl   validation level 0..3,
                       conn  belongs to a Gfa,
                       fields name -> [dt, cls, ver],
                       rep   fields whose current invalid value has been reported]
   cls is the VALUE CLASS of what the field holds: "valid", or one of the
   invalid classes, or "absent"; ver is the identity of the written value
   (a fresh number for every assignment or in-place edit).

   State: [o  the original, c  its clone (meaningful when has), has,
           g  what the Gfa writes for the line (name -> ver; follows o while
              o is connected), nv  next fresh ver]                             *)

InvalidCls == {"wrongtype", "wrongsyntax", "outofrange"}
Classes == {"valid"} \cup InvalidCls
\* A further class that cannot be assigned but can ARISE: "inconsistent" -- a value that is a valid
\* value of the field's datatype but breaks a rule of the LINE that relates several fields (a path
\* with 3 segments and 1 overlap).  It arises when level 0 decodes an invalid encoded value
\* leniently ("1M;2M" read as the single CIGAR 1M2M).  For the field it is a valid value (Get,
\* Write, Str, ValidateField); Validate of the line may report the cross-field rule -- a report
\* about the line, not a verdict on the value class.  (The valid representatives that are
\* assigned are chosen consistent with their line.)
Inconsistent(L) == {f \in DOMAIN L.fields : L.fields[f].cls = "inconsistent"}

\* value classes that exist for a datatype (there is no integer i cannot hold, etc.)
Ranged == {"B", "f", "position_gfa1", "position_gfa2"}      \* (f: the non-finite floats)
ClassesOf(dt) == IF dt \in Ranged THEN Classes ELSE Classes \ {"outofrange"}

Field(dt, cls, ver) == [dt |-> dt, cls |-> cls, ver |-> ver]
IsInvalid(fl) == fl.cls \in InvalidCls
InvalidFields(L) == {f \in DOMAIN L.fields : IsInvalid(L.fields[f])}
Has(L, f) == f \in DOMAIN L.fields /\ L.fields[f].cls # "absent"
Written(L) == [f \in DOMAIN L.fields |-> L.fields[f].ver]

Init0(lvl, conn, fields) ==
  LET o == [lvl |-> lvl, conn |-> conn, fields |-> fields, rep |-> {}] IN
  [o |-> o, c |-> o, has |-> FALSE, g |-> Written(o), nv |-> 100]

Cp(s, t) == IF t = "clone" THEN s.c ELSE s.o
WithCp(s, t, L) == IF t = "clone" THEN [s EXCEPT !.c = L]
                   ELSE [s EXCEPT !.o = L, !.g = IF L.conn THEN Written(L) ELSE s.g]
Reported(s, t, F) == WithCp(s, t, [Cp(s, t) EXCEPT !.rep = @ \cup F])

\* outcome of a call: post-state, result class ("ok" / "Error" = any gfapy.Error),
\* mark (str(line) carries "# INVALID"), chg (the stored value is no longer the previous object)
Out(st, res, mark, chg) == [st |-> st, res |-> res, mark |-> mark, chg |-> chg]

\* at level >= 2 an invalid value that has not been reported yet must be reported when written
MustReport(L, F) == L.lvl >= 2 /\ ~(F \subseteq L.rep)

Step(s, op) ==
  LET L == Cp(s, op.t) IN
  CASE op.k = "set" ->
         LET nf == Field(L.fields[op.f].dt, op.c, s.nv)
             stored == [WithCp(s, op.t, [L EXCEPT !.fields[op.f] = nf, !.rep = @ \ {op.f}])
                          EXCEPT !.nv = s.nv + 1]
         IN IF op.c = "valid" THEN {Out(stored, "ok", FALSE, TRUE)}        \* never rejected
            ELSE IF L.lvl = 3 THEN {Out(s, "Error", FALSE, FALSE)}         \* reported at the assignment
            ELSE {Out(stored, "ok", FALSE, TRUE), Out(s, "Error", FALSE, FALSE)}
    [] op.k = "add" ->
         \* Multiline.add of the header: ONE MORE value for a tag (a first value when there is
         \* none).  The field then holds every value added so far; it is valid iff each of them is,
         \* so a valid addition leaves an invalid field invalid.  The addition is an assignment of
         \* the added value: never rejected when valid, reported at the call at level 3 when not
         \* -- with or without the optional datatype argument, whatever the tag held before.
         LET cur == L.fields[op.f].cls
             ncls == IF cur \in InvalidCls \/ (cur = "inconsistent" /\ op.c = "valid") THEN cur ELSE op.c
             nf == Field(L.fields[op.f].dt, ncls, s.nv)
             stored == [WithCp(s, op.t, [L EXCEPT !.fields[op.f] = nf,
                                                  !.rep = IF op.c = "valid" THEN @ ELSE @ \ {op.f}])
                          EXCEPT !.nv = s.nv + 1]
             \* adding to a tag READS what the tag holds: as a Get may, the call may report an invalid
             \* value assigned earlier (then nothing is added) -- a report of that value, not a
             \* rejection of the one being added
             early == IF cur \in InvalidCls THEN {Out(Reported(s, op.t, {op.f}), "Error", FALSE, FALSE)} ELSE {}
         IN IF op.c = "valid" THEN {Out(stored, "ok", FALSE, TRUE)} \cup early
            ELSE IF L.lvl = 3 THEN {Out(s, "Error", FALSE, FALSE)} \cup early
            ELSE {Out(stored, "ok", FALSE, TRUE), Out(s, "Error", FALSE, FALSE)} \cup early
    [] op.k = "get" ->
         \* reading an invalid value may or may not report it.  At level 0 ("no validation:
         \* gfapy will try to accept any input", validation.rst) reading decodes an encoded
         \* value without checking it: the decoded object replaces the string (chg) and may
         \* itself be a valid value of the datatype.  From level 1 on, values are "validated
         \* during parsing or on first access", so an invalid value stays invalid.
         IF Has(L, op.f) /\ IsInvalid(L.fields[op.f])
         THEN {Out(s, "ok", FALSE, FALSE), Out(Reported(s, op.t, {op.f}), "Error", FALSE, FALSE)}
              \cup (IF L.lvl = 0
                    THEN {Out([WithCp(s, op.t, [L EXCEPT !.fields[op.f] = Field(@.dt, c, s.nv),
                                                         !.rep = @ \ {op.f}])
                                 EXCEPT !.nv = s.nv + 1], "ok", FALSE, TRUE)
                          : c \in {"valid", "inconsistent", L.fields[op.f].cls}}
                    ELSE {})
         ELSE {Out(s, "ok", FALSE, FALSE)}
    [] op.k = "write" ->
         IF ~Has(L, op.f) THEN {Out(s, "ok", FALSE, FALSE), Out(s, "Error", FALSE, FALSE)}
         ELSE IF ~IsInvalid(L.fields[op.f]) THEN {Out(s, "ok", FALSE, FALSE)}
         ELSE {Out(Reported(s, op.t, {op.f}), "Error", FALSE, FALSE)}
              \cup (IF MustReport(L, {op.f}) THEN {} ELSE {Out(s, "ok", FALSE, FALSE)})
    [] op.k = "str" ->
         LET inv == InvalidFields(L) IN
         IF inv = {} THEN {Out(s, "ok", FALSE, FALSE)}
         ELSE {Out(Reported(s, op.t, inv), "ok", TRUE, FALSE),
               Out(Reported(s, op.t, inv), "Error", FALSE, FALSE)}
              \cup (IF MustReport(L, inv) THEN {} ELSE {Out(s, "ok", FALSE, FALSE)})
              \* level 0: the marked line shows the fields it could not write by reading them,
              \* which decodes them as Get does (see above)
              \cup (IF L.lvl = 0
                    THEN {Out([WithCp(s, op.t,
                                 [L EXCEPT !.fields = [f \in DOMAIN @ |->
                                                        IF f \in inv
                                                        THEN Field(@[f].dt, IF v = "same" THEN @[f].cls ELSE v, s.nv)
                                                        ELSE @[f]],
                                           !.rep = IF v = "same" THEN inv ELSE {}])
                                 EXCEPT !.nv = s.nv + 1], "ok", TRUE, TRUE)
                          : v \in {"valid", "inconsistent", "same"}}
                    ELSE {})
    [] op.k = "validate" ->
         LET inv == InvalidFields(L) IN
         IF inv = {} THEN {Out(s, "ok", FALSE, FALSE)}
                          \* (a rule of the line relating several fields may be reported)
                          \cup (IF Inconsistent(L) # {} THEN {Out(s, "Error", FALSE, FALSE)} ELSE {})
         ELSE {Out(Reported(s, op.t, inv), "Error", FALSE, FALSE)}
    [] op.k = "vfield" ->
         IF ~Has(L, op.f) THEN {Out(s, "ok", FALSE, FALSE), Out(s, "Error", FALSE, FALSE)}
         ELSE IF IsInvalid(L.fields[op.f]) THEN {Out(Reported(s, op.t, {op.f}), "Error", FALSE, FALSE)}
         ELSE {Out(s, "ok", FALSE, FALSE)}
    [] op.k = "delete" ->
         {Out(WithCp(s, op.t, [L EXCEPT !.fields[op.f] = Field(@.dt, "absent", 0), !.rep = @ \ {op.f}]),
              "ok", FALSE, TRUE)}
    [] op.k = "clone" ->         \* a detached record equal to the original
         {Out([s EXCEPT !.c = [s.o EXCEPT !.conn = FALSE], !.has = TRUE], "ok", FALSE, FALSE)}
    [] op.k = "edit" ->          \* in-place edit of the value object held by copy op.t
         IF ~Has(L, op.f) THEN {Out(s, "ok", FALSE, FALSE)}
         ELSE LET nf == Field(L.fields[op.f].dt,
                              IF op.c = "same" THEN L.fields[op.f].cls ELSE op.c, s.nv) IN
              {Out([WithCp(s, op.t, [L EXCEPT !.fields[op.f] = nf, !.rep = @ \ {op.f}])
                      EXCEPT !.nv = s.nv + 1], "ok", FALSE, TRUE)}

-----------------------------------------------------------------------------
(* The statements, as predicates over one transition  s --op--> o  (o an outcome).
   MC_Fields checks each of them on every transition; they are what C18 / C19 say. *)

Reports(o) == o.res = "Error" \/ o.mark

\* C18: an invalid value assigned at level 3 is reported at the assignment, value unchanged
PLevel3AtSet(s, op, o) ==
  /\ (op.k = "set" /\ op.c \in InvalidCls /\ Cp(s, op.t).lvl = 3) => (o.res = "Error" /\ o.st = s)
  /\ (op.k = "add" /\ op.c \in InvalidCls /\ Cp(s, op.t).lvl = 3) =>
        (o.res = "Error" /\ Cp(o.st, op.t).fields = Cp(s, op.t).fields)
\* C18: at level >= 2, no later than the next write of the field / of the line
PLevel2AtWrite(s, op, o) ==
  LET L == Cp(s, op.t) IN
  /\ (op.k = "write" /\ Has(L, op.f) /\ IsInvalid(L.fields[op.f]) /\ L.lvl >= 2 /\ op.f \notin L.rep)
        => Reports(o)
  /\ (op.k = "str" /\ L.lvl >= 2 /\ ~(InvalidFields(L) \subseteq L.rep)) => Reports(o)
\* C18: explicit validation reports at every level
PValidateReports(s, op, o) ==
  LET L == Cp(s, op.t) IN
  /\ (op.k = "validate" /\ InvalidFields(L) # {}) => o.res = "Error"
  /\ (op.k = "vfield" /\ Has(L, op.f) /\ IsInvalid(L.fields[op.f])) => o.res = "Error"
\* C18: a valid assignment is never rejected -- neither at the Set nor by anything later
PValidNeverRejected(s, op, o) ==
  LET L == Cp(s, op.t) IN
  /\ (op.k = "set" /\ op.c = "valid") =>
        (o.res = "ok" /\ Cp(o.st, op.t).fields[op.f].cls = "valid")
  /\ (op.k = "add" /\ op.c = "valid" /\ ~IsInvalid(L.fields[op.f])) =>
        (o.res = "ok" /\ Cp(o.st, op.t).fields[op.f].cls \in {"valid", "inconsistent"})
  /\ (op.k \in {"get", "write", "vfield"} /\ Has(L, op.f) /\ ~IsInvalid(L.fields[op.f]))
        => (o.res = "ok" /\ ~o.mark)
  /\ (op.k = "str" /\ InvalidFields(L) = {}) => (o.res = "ok" /\ ~o.mark)
  /\ (op.k = "validate" /\ InvalidFields(L) = {} /\ Inconsistent(L) = {}) => (o.res = "ok" /\ ~o.mark)
  /\ (op.k = "validate" /\ InvalidFields(L) = {}) => ~o.mark
\* only a reporting call adds to rep; a report concerns invalid fields only
PRepSound(s, op, o) ==
  LET L == Cp(s, op.t)  M == Cp(o.st, op.t) IN
  /\ M.rep \subseteq InvalidFields(M)
  /\ (M.rep \ L.rep # {}) => Reports(o)
\* C19: the clone is detached, equal to the original, and cloning changes nothing else
PCloneDetachedEqual(s, op, o) ==
  op.k = "clone" =>
    /\ o.st.has /\ ~o.st.c.conn
    /\ o.st.c.fields = s.o.fields /\ Written(o.st.c) = Written(s.o)
    /\ o.st.o = s.o /\ o.st.g = s.g
\* C19: an edit (in place, or through the API) changes only its target
PFrame(s, op, o) ==
  (op.k \in {"edit", "set", "add", "delete", "get", "write", "str", "validate", "vfield"}) =>
    /\ op.t = "clone" => (o.st.o = s.o /\ o.st.g = s.g)
    /\ op.t = "orig" => o.st.c = s.c
\* the Gfa writes what its connected line holds
PGfaFollows(s, op, o) == o.st.o.conn => o.st.g = Written(o.st.o)
\* a failing call changes nothing but the report bookkeeping
PFailStutters(s, op, o) ==
  o.res = "Error" => (Cp(o.st, op.t).fields = Cp(s, op.t).fields /\ o.st.g = s.g)

AllStatements(s, op, o) ==
  /\ PLevel3AtSet(s, op, o) /\ PLevel2AtWrite(s, op, o) /\ PValidateReports(s, op, o)
  /\ PValidNeverRejected(s, op, o) /\ PRepSound(s, op, o)
  /\ PCloneDetachedEqual(s, op, o) /\ PFrame(s, op, o) /\ PGfaFollows(s, op, o)
  /\ PFailStutters(s, op, o)

-----------------------------------------------------------------------------
(* PART 5 -- the validation level of a line that belongs to a Gfa, and the
   history of one custom tag.

   (a) doc/tutorial/validation.rst: "The validation level can be specified when
   the Gfa object is created"; C18 quantifies over the levels "per Gfa and per
   Line".  Every line a Gfa constructs from text -- whatever the entry point
   (constructor from a text or a list, add_line before or after the version is
   known, lines held in the queue, from_file) -- works at the level of that
   Gfa.  The report points of C18 for such a line are those of Step with
   lvl = the Gfa's level.                                                      *)
LineLevelOf(gfaLevel) == gfaLevel
LevelPropagated(gfaLevel, lineLevel) == lineLevel = LineLevelOf(gfaLevel)

(* (a') DERIVED LINES KEEP THE LEVEL.  The library also constructs lines from
   other lines: the segment and the links made by merge_linear_paths, the copies
   made by multiply, the lines of the Gfa returned by to_gfa1 / to_gfa2 and the
   line returned by Line.to_gfa1 / to_gfa2, a clone, the complement of a link,
   the one-tag H lines into which the header is split, a line whose identifier
   was renamed, a line that was disconnected and added again.  "Per Gfa and per
   Line": such a line works at the level of the line (of the Gfa) it was derived
   from, whatever its content, and a Gfa made from a Gfa has the level of its
   source.  The report points of C18 for a derived line are those of Step with
   lvl = that level (TraceFields, kind "prog", with c.lvl the source level).
   Moreover a library operation applied to a valid document performs valid
   assignments only: "a valid assignment is never rejected at any level" and
   "every validation level builds the same graph and writes the same text", so
   whether the operation succeeds and what is written afterwards do not depend on
   the level (TraceFields, kind "lvl", with an operation after the load).     *)
DeriveKinds == {"merge", "multiply", "convert-gfa", "convert-line", "clone", "complement",
                "split-header", "rename", "readd"}
DerivedLevelOf(sourceLevel, kind) == sourceLevel
DerivedLevelPropagated(sourceLevel, kind, lineLevel) ==
  kind \in DeriveKinds /\ lineLevel = DerivedLevelOf(sourceLevel, kind)

(* (b) One custom tag of one line through a sequence of calls
         set(value) / delete / set(None) / set_datatype(t).
   State: [present, dt, v] -- dt = "none": no datatype is recorded for the tag;
   v: descriptor of the value held (PART 3).
     - a value assigned while no datatype is recorded gets the documented default
       datatype of the value (the tag is NEW); otherwise the recorded datatype is used;
     - set_datatype(t) records t (also before a value exists; tags.rst) until the
       tag is removed;
     - delete(tag) removes value AND datatype: afterwards the tag does not exist, a
       later assignment is an assignment to a new tag; on a tag that has no value it
       does nothing (FieldData.delete: "Remove a tag from the line, if it exists; do
       nothing if it does not"), so a datatype declared in advance stays declared;
     - set(tag, None) is the same removal: tags.rst "To remove a tag from a line, use
       the delete(fieldname) method, or set its value to None".
   A set that is refused (a gfapy.Error; allowed when the datatype in force
   cannot represent the value) changes nothing.                               *)
NoVal == [k |-> "none", n |-> Zero, fin |-> TRUE, chars |-> <<>>, el |-> "none", elems |-> <<>>, len |-> 0]
HState(present, dt, v) == [present |-> present, dt |-> dt, v |-> v]
HAbsent == HState(FALSE, "none", NoVal)
\* the datatypes a value assigned now may get
HDatatypes(h, v) == IF h.dt = "none" THEN DefaultDTs(v) ELSE {h.dt}
\* post-state; `refused`: the call raised a gfapy.Error; `dtobs`: the datatype gfapy reports
\* afterwards (it selects among HDatatypes when the documentation leaves a choice)
HStep(h, op, refused, dtobs) ==
  CASE refused -> h
    [] op.k = "set" -> LET D == HDatatypes(h, op.v) IN
                       HState(TRUE, IF dtobs \in D THEN dtobs ELSE CHOOSE d \in D : TRUE, op.v)
    [] op.k \in {"delete", "setnone"} -> IF h.present THEN HAbsent ELSE h
    [] op.k = "setdt" -> [h EXCEPT !.dt = op.t]
    [] OTHER -> h

(* (b') A COPY OF THE LINE (clone(), the lines made by multiply() ...) starts with the tag in the
   state it has on the original -- value AND datatype, also a datatype that is only declared -- and
   from then on the two lines are independent: HStep is applied to the state of the line the call
   was made on, the state of the other line does not change (C19: "shares no mutable state";
   C20: the datatype in force for a line's tag is that line's own).                           *)
HCopies(ho, hc) == [o |-> ho, c |-> hc]
HCopy(h) == HCopies(h, h)

(* (c) WRITE PATHS.  The law of C20 is about THE tag of THE line, not about one
   function: whichever public path writes a line that carries the tag -- the
   line's own field_to_s / str, or, for a line that belongs to a Gfa, str(gfa),
   the strings of gfa.lines, of gfa.headers (the header split into one-tag H
   lines), Gfa.to_file, to_gfa1_s / to_gfa2_s and the Gfa made by to_gfa1 /
   to_gfa2, or a clone of the line -- the tag is written with the datatype in
   force (declared, or the default of a new tag), in that datatype's grammar,
   once per value stored (a repeated header tag: once per value added), and is
   read back equal from what was written.                                     *)
WritePaths == {"field_to_s", "str(line)", "str(gfa)", "gfa.lines", "gfa.headers", "to_file",
               "to_gfa1_s", "to_gfa2_s", "to_gfa1", "to_gfa2", "clone"}
OccurrencesOK(nstored, nwritten) == nwritten = nstored

(* (d) EQUALITY OF THE COPIES (C19).  The clone "compares equal" to the original:
   in the model, two copies are equal when every field holds the same value
   (same class, same written identity ver).  Reading is not editing: Get / Write /
   Str / Validate / ValidateField on either copy leave valid fields as they are
   (Step), so copies that were equal stay equal -- whether a field is stored
   parsed or still encoded, at every level, is not observable through ==.      *)
ReadOps == {"get", "write", "str", "validate", "vfield"}
CopiesEqual(s) == s.has /\ s.c.fields = s.o.fields
PReadKeepsEqual(s, op, o) ==
  (op.k \in ReadOps /\ CopiesEqual(s) /\ InvalidFields(s.o) = {}) => CopiesEqual(o.st)
=============================================================================
