------------------------------- MODULE MC_Gfa -------------------------------
(* Model-checking instance of Gfa.tla over an operation catalogue.
   - checks the design-level properties of the specification itself
     (unique identifiers, a failing call stutters, queue only while the
     version is undecided, removal leaves no mention of a removed line ...)
   - enumerates every history of length <= MaxDepth allowed by the generation
     guards; each history is printed (<<"H", hist>>) and replayed by the
     harness into the real gfapy (spec -> code direction).                    *)
EXTENDS Gfa, Json, IOUtils, TLC

Cat  == JsonDeserialize(IOEnv.CATALOG_FILE)
Ops  == Cat.ops
MaxDepth == Cat.depth

VARIABLES st, hist, res
vars == <<st, hist, res>>

OpRec(i) == [k |-> Ops[i].k, id |-> Ops[i].id, id2 |-> Ops[i].id2, n |-> Ops[i].n,
             l |-> IF Ops[i].l >= 1 THEN Cat.pool[Ops[i].l] ELSE [rt |-> "none"],
             ls |-> IF Ops[i].k = "setf" THEN <<Cat.pool[Ops[i].l], Cat.pool[Ops[i].l2]>> ELSE <<>>]

\* generation guards: keep the operations that can tell something apart
Present(s, l) == \E i \in DOMAIN s.lines : Norm(s.lines[i]) = Norm(l)
Guard(s, i) ==
  LET op == OpRec(i) IN
  CASE op.k = "add"  -> TRUE
    [] op.k = "rm"   -> op.id \in NamesOf(s) \cup PlaceholderIds(s) \/ op.id = "zz"
    [] op.k = "disc" -> Present(s, op.l)
    [] op.k = "setf" -> Present(s, op.l)
    [] op.k = "addc" -> Present(s, op.l)
    [] op.k = "ren"  -> op.id \in NamesOf(s)
    [] op.k = "addcl" -> op.id \in NamesOf(s)
    [] op.k \in {"settag", "deltag"} -> op.id \in NamesOf(s)
    [] op.k = "flush" -> s.queue # <<>>
    [] op.k = "hadd" -> TRUE
    [] op.k = "unused" -> TRUE
    [] op.k = "validate" -> s.lines # <<>>
    [] op.k \in {"rsc", "rsl"} -> s.lines # <<>>
    [] OTHER -> FALSE

\* outcomes that leave the modelled behaviour (orphan placeholders, ambiguous
\* path bindings) are not generated (DESIGN 3.1)
Legal(s, o) == o.res # "unmodelled" /\ (o.st.orph = s.orph)

Init == st = Init0(Cat.cfg) /\ hist = <<>> /\ res = "init"

Next == /\ Len(hist) < MaxDepth
        /\ \E i \in DOMAIN Ops :
             /\ Guard(st, i)
             /\ \E o \in Step(st, OpRec(i)) :
                  /\ Legal(st, o)
                  /\ st' = o.st /\ res' = o.res /\ hist' = Append(hist, i)

Spec == Init /\ [][Next]_vars

Emit == PrintT(<<"H", hist>>)

-----------------------------------------------------------------------------
(* properties of the specification *)
InvUniqueIds == UniqueIds(st)
InvNoDuplicateLink == NoDuplicateLink(st)
InvQueue == QueueOnlyUndecided(st)
\* C08 at design level: a call that does not return "ok" leaves the document unchanged
FailStutters == [][res' # "ok" => st' = st]_vars
\* every mention of a real line's name refers to something: after a successful
\* step no line mentions an identifier that was removed by this step
NoDanglingAfterRm ==
  [][(res' = "ok" /\ Ops[hist'[Len(hist')]].k \in {"rm", "disc"}) =>
       \A id \in NamesOf(st) \ NamesOf(st') :
          \A i \in DOMAIN st'.lines : id \notin Mentions(st'.lines[i])]_vars
\* the version, once decided, never changes (C13)
VersionStable == [][st.ver # "none" => st'.ver = st.ver]_vars
=============================================================================
