----------------------------- MODULE MC_Convert -----------------------------
(* Enumeration of conversion cases (spec -> code) and the laws of Convert.tla
   checked on the specification itself.

   One TLC state = one case.  A case is a small GFA document given as text
   lines (tuples of field strings; the harness only joins them with tabs) plus
   the semantic record the laws are evaluated on.  Every case is printed as
   <<"CASE", kind, version, <<line, ...>>>> from the CONSTRAINT.

   Parameters come from a JSON file (IOEnv.PARAM_FILE):
     lens      segment lengths                       (thorough 3..6, quick 3..4)
     shard     lengths of the first segment handled by this TLC process
     maxops    maximal number of CIGAR operations    (thorough 3, quick 2)
     unnamed   lengths up to which E lines are also enumerated without a name
     kinds     which case kinds this process enumerates ("L","C","E","P","O","X","H","N","T")
     rot       rotations of the CIGAR choice used by path documents            *)
EXTENDS Convert, Json, IOUtils, TLC

Par     == JsonDeserialize(IOEnv.PARAM_FILE)
Lens    == Rng(Par.lens)
Shard   == Rng(Par.shard)
MaxOps  == Par.maxops
Unnamed == Par.unnamed
Kinds   == Rng(Par.kinds)
Rots    == Rng(Par.rot)

Ori == {"+", "-"}
Op1 == {[n |-> k, c |-> x] : k \in {1, 2}, x \in {"M", "I", "D"}}
Cigs == UNION {[1..m -> Op1] : m \in 1..MaxOps}

-----------------------------------------------------------------------------
(* text *)
RECURSIVE Join(_, _)
Join(s, sep) == IF Len(s) = 0 THEN "" ELSE IF Len(s) = 1 THEN s[1] ELSE s[1] \o sep \o Join(Tail(s), sep)
RECURSIVE CigText(_)
CigText(cg) == IF cg = <<>> THEN "" ELSE ToString(Head(cg).n) \o Head(cg).c \o CigText(Tail(cg))
OvText(cg, star) == IF star THEN "*" ELSE CigText(cg)
SeqOf(n) == CASE n = 3 -> "ACG" [] n = 4 -> "ACGT" [] n = 5 -> "ACGTA" [] n = 6 -> "ACGTAC" [] OTHER -> "*"
DocText(ls) == Join([i \in DOMAIN ls |-> Join(ls[i], "|")], ";")
PosText(p, d) == ToString(p) \o (IF d = 1 THEN "$" ELSE "")

\* first segment carries a sequence, the second only a length
S1Line(name, len, withseq) ==
  IF withseq THEN <<"S", name, SeqOf(len)>> ELSE <<"S", name, "*", "LN:i:" \o ToString(len)>>
S2Line(name, len, withseq) == <<"S", name, ToString(len), IF withseq THEN SeqOf(len) ELSE "*">>

G1Line(x, id) ==
  (IF x.t = "L" THEN <<"L", x.from, x.fo, x.to, x.too, OvText(x.ov, x.star)>>
   ELSE <<"C", x.from, x.fo, x.to, x.too, ToString(x.pos), OvText(x.ov, x.star)>>)
  \o (IF id = "" THEN <<>> ELSE <<"ID:Z:" \o id>>)
ELine(g, id) ==
  <<"E", IF id = "" THEN "*" ELSE id, g.s1 \o g.o1, g.s2 \o g.o2,
    PosText(g.n[1], g.n[2]), PosText(g.n[3], g.n[4]), PosText(g.n[5], g.n[6]), PosText(g.n[7], g.n[8]),
    OvText(g.al, g.star)>>

-----------------------------------------------------------------------------
(* edge cases *)
VARIABLE c
SegLines1(self, lf, lt) == IF self THEN <<S1Line("A", lf, TRUE)>> ELSE <<S1Line("A", lf, TRUE), S1Line("B", lt, FALSE)>>
SegLines2(self, l1, l2) == IF self THEN <<S2Line("A", l1, TRUE)>> ELSE <<S2Line("A", l1, TRUE), S2Line("B", l2, FALSE)>>

LCases(dummy) ==
  {[k |-> "L", ver |-> "gfa1", lf |-> lf, lt |-> lt,
    x |-> G1("L", "A", fo, IF self THEN "A" ELSE "B", to, ov, FALSE, 0),
    lines |-> SegLines1(self, lf, lt) \o <<G1Line(G1("L", "A", fo, IF self THEN "A" ELSE "B", to, ov, FALSE, 0), id)>>] :
   <<lf, lt, self, fo, to, ov, id>> \in
     {t \in Shard \X Lens \X BOOLEAN \X Ori \X Ori \X Cigs \X {"", "l1"} :
        /\ (t[3] => t[1] = t[2])
        /\ RefLen(t[6]) <= t[1] /\ QueryLen(t[6]) <= t[2]}}

\* containments: the CIGAR spans the whole contained segment, every offset
CCases(dummy) ==
  {[k |-> "C", ver |-> "gfa1", lf |-> lf, lt |-> lt,
    x |-> G1("C", "A", fo, IF self THEN "A" ELSE "B", to, ov, FALSE, pos),
    lines |-> SegLines1(self, lf, lt) \o <<G1Line(G1("C", "A", fo, IF self THEN "A" ELSE "B", to, ov, FALSE, pos), id)>>] :
   <<lf, lt, self, fo, to, ov, id, pos>> \in
     {t \in Shard \X Lens \X BOOLEAN \X Ori \X Ori \X Cigs \X {"", "c1"} \X (0..6) :
        /\ (t[3] => t[1] = t[2])
        /\ QueryLen(t[6]) = t[2] /\ t[8] + RefLen(t[6]) <= t[1]}}

\* E lines: every valid pair of intervals, `$` exactly at the end; alignment `*`
\* or every enumerated CIGAR that spans the two intervals
Ivs(len) == {<<b, e>> \in (0..len) \X (0..len) : b <= e}
CigsBy == [r \in 0..6, q \in 0..6 |-> {cg \in Cigs : RefLen(cg) = r /\ QueryLen(cg) = q}]
AlsFor(i1, i2) == {<<<<>>, TRUE>>} \cup {<<cg, FALSE>> : cg \in CigsBy[i1[2] - i1[1], i2[2] - i2[1]]}
ECase(l1, l2, self, o1, o2, i1, i2, al, id) ==
  LET g == Geo("A", o1, IF self THEN "A" ELSE "B", o2, N8(i1[1], i1[2], l1, i2[1], i2[2], l2), al[1], al[2]) IN
  [k |-> "E", ver |-> "gfa2", lf |-> l1, lt |-> l2, x |-> g,
   lines |-> SegLines2(self, l1, l2) \o <<ELine(g, id)>>]
InitE ==
  \E t \in {u \in Shard \X Lens \X BOOLEAN : u[3] => u[1] = u[2]} :
    \E i1 \in Ivs(t[1]), i2 \in Ivs(t[2]) :
      \E al \in AlsFor(i1, i2), o1 \in Ori, o2 \in Ori,
         id \in (IF t[1] <= Unnamed /\ t[2] <= Unnamed THEN {"", "e1"} ELSE {"e1"}) :
        c = ECase(t[1], t[2], t[3], o1, o2, i1, i2, al, id)

-----------------------------------------------------------------------------
(* path documents: segments A (4, sequence) B (5) C (6); a walk shape, per step
   the stored form of the edge, a CIGAR (asymmetric ones included), named or
   unnamed edges, overlaps listed or `*` *)
PLen(id) == CASE id = "A" -> 4 [] id = "B" -> 5 [] OTHER -> 6
W(s) == [i \in DOMAIN s |-> Ors(s[i][1], s[i][2])]
Shapes ==
  {[w |-> W(<<<<"A", o>>>>), c |-> FALSE] : o \in Ori}
  \cup {[w |-> W(<<<<"A", o1>>, <<"B", o2>>>>), c |-> cc] : o1 \in Ori, o2 \in Ori, cc \in BOOLEAN}
  \cup {[w |-> W(<<<<"A", o1>>, <<"B", o2>>, <<"C", o3>>>>), c |-> FALSE] : o1 \in Ori, o2 \in Ori, o3 \in Ori}
  \cup {[w |-> W(<<<<"A", "+">>, <<"B", "+">>, <<"C", "+">>>>), c |-> TRUE],
        [w |-> W(<<<<"A", "-">>, <<"B", "+">>, <<"C", "-">>>>), c |-> TRUE],
        [w |-> W(<<<<"A", "+">>, <<"B", "+">>, <<"A", "+">>>>), c |-> FALSE],
        [w |-> W(<<<<"A", "+">>, <<"B", "-">>, <<"A", "-">>>>), c |-> FALSE],
        [w |-> W(<<<<"A", "+">>, <<"A", "+">>>>), c |-> FALSE],
        [w |-> W(<<<<"A", "+">>, <<"A", "-">>>>), c |-> FALSE],
        [w |-> W(<<<<"A", "-">>, <<"A", "+">>>>), c |-> FALSE]}
PCig == << <<[n |-> 1, c |-> "M"], [n |-> 1, c |-> "D"], [n |-> 1, c |-> "M"]>>,
           <<[n |-> 2, c |-> "M"], [n |-> 1, c |-> "I"]>>,
           <<[n |-> 2, c |-> "M"]>> >>
StepCig(k, r) == PCig[((k + r) % 3) + 1]
NSteps(sh) == IF sh.c THEN Len(sh.w) ELSE Len(sh.w) - 1
StepFrom(sh, k) == sh.w[k]
StepTo(sh, k) == IF k = Len(sh.w) THEN sh.w[1] ELSE sh.w[k + 1]
StepLink(sh, k, r) == G1("L", StepFrom(sh, k).id, StepFrom(sh, k).o, StepTo(sh, k).id, StepTo(sh, k).o,
                         StepCig(k, r), FALSE, 0)
\* stored form of step k under form vector fv: "d" direct, "c" complement, "a" alternate
Direct(fv, k) == fv = "d" \/ (fv = "a" /\ k % 2 = 1)
Stored1(sh, k, r, fv) == IF Direct(fv, k) THEN StepLink(sh, k, r) ELSE ComplLink(StepLink(sh, k, r))
\* no two steps may be served by the same or by complementary links
Distinct(sh, r) == \A i, j \in 1..NSteps(sh) : i # j =>
   LET a == StepLink(sh, i, r) b == StepLink(sh, j, r) IN
   ~(a.from = b.from /\ a.fo = b.fo /\ a.to = b.to /\ a.too = b.too)
   /\ ~(ComplLink(a).from = b.from /\ ComplLink(a).fo = b.fo /\ ComplLink(a).to = b.to /\ ComplLink(a).too = b.too)
SegsUsed(sh) == {sh.w[i].id : i \in DOMAIN sh.w}
PSegLines(sh, v) ==
  LET names == SelectSeq(<<"A", "B", "C">>, LAMBDA n : n \in SegsUsed(sh)) IN
  [i \in DOMAIN names |-> IF v = "gfa1" THEN S1Line(names[i], PLen(names[i]), names[i] = "A")
                          ELSE S2Line(names[i], PLen(names[i]), names[i] = "A")]
EName(k, named) == IF named THEN "l" \o ToString(k) ELSE ""

PCases(dummy) ==
  {[k |-> "P", ver |-> "gfa1", lf |-> 0, lt |-> 0, x |-> [sh |-> sh, r |-> r, fv |-> fv],
    lines |-> PSegLines(sh, "gfa1")
       \o [k \in 1..NSteps(sh) |-> G1Line(Stored1(sh, k, r, fv), EName(k, named))]
       \o << <<"P", "p", Join([i \in DOMAIN sh.w |-> sh.w[i].id \o sh.w[i].o], ","),
               IF given /\ NSteps(sh) > 0 THEN Join([k \in 1..NSteps(sh) |-> CigText(StepCig(k, r))], ",") ELSE "*">>
             \o (IF tagged THEN <<"zz:i:1">> ELSE <<>>) >>] :
   <<sh, r, fv, named, given, tagged>> \in
     {t \in Shapes \X Rots \X {"d", "c", "a"} \X BOOLEAN \X BOOLEAN \X BOOLEAN :
        /\ Distinct(t[1], t[2])
        /\ (t[1].c => t[5])                       \* a circular GFA1 path lists its overlaps
        /\ (NSteps(t[1]) = 0 => (t[3] = "d" /\ ~t[4] /\ ~t[5]))
        /\ (t[6] = (t[3] = "d"))}}                \* the tag rides along with one form vector

\* GFA2: the edge of step k stored in one of the four forms; "+" forms are
\* referenced with sign "+", the strand-exchanged ones with "-"
Stored2(sh, k, r, fv) ==
  LET g == LinkToEdge(StepLink(sh, k, r), PLen(StepFrom(sh, k).id), PLen(StepTo(sh, k).id)) IN
  CASE fv = "d" -> [g |-> F1(g), s |-> "+"]
    [] fv = "c" -> [g |-> F4(g), s |-> "-"]
    [] OTHER -> IF k % 2 = 1 THEN [g |-> F2(g), s |-> "+"] ELSE [g |-> F3(g), s |-> "-"]
OItems(sh, r, fv, explicit) ==
  LET closed == P1Walk(sh.w, sh.c)
      segtxt == [i \in DOMAIN closed |-> closed[i].id \o closed[i].o]
      refs == [k \in 1..NSteps(sh) |-> "l" \o ToString(k) \o Stored2(sh, k, r, fv).s]
  IN IF explicit THEN PathToOrdered(segtxt, refs) ELSE segtxt
OCases(dummy) ==
  {[k |-> "O", ver |-> "gfa2", lf |-> 0, lt |-> 0, x |-> [sh |-> sh, r |-> r, fv |-> fv],
    lines |-> PSegLines(sh, "gfa2")
       \o [k \in 1..NSteps(sh) |-> ELine(Stored2(sh, k, r, fv).g, IF explicit \/ named THEN "l" \o ToString(k) ELSE "")]
       \o << <<"O", "p", Join(OItems(sh, r, fv, explicit), " ")>> \o (IF tagged THEN <<"zz:i:1">> ELSE <<>>) >>] :
   <<sh, r, fv, named, explicit, tagged>> \in
     {t \in Shapes \X Rots \X {"d", "c", "a"} \X BOOLEAN \X BOOLEAN \X BOOLEAN :
        /\ Distinct(t[1], t[2])
        /\ (NSteps(t[1]) = 0 => (t[3] = "d" /\ ~t[4] /\ ~t[5]))
        /\ (t[5] => t[4])
        /\ (t[6] = (t[3] = "d"))}}

-----------------------------------------------------------------------------
(* hairpin documents (kind "H").  A hairpin link `L A o A Inv(o)` and its
   complement join the same oriented segments: which of the two a path reads
   is said by the overlap alone.  One or two paths traverse the hairpin, each
   stating the overlap as the link is written ("w"), as its complement ("c")
   or not at all ("s"); the P lines stand after the L lines, before them, or
   around them (the references are then resolved through a virtual link);
   the hairpin alone or inside a longer walk X+ A A X-.  GFA2: the E line in
   each of its four forms, traversed "+", "-" or implied, O before or after E. *)
C1M == <<[n |-> 1, c |-> "M"]>>
HCigs == << <<[n |-> 2, c |-> "M"], [n |-> 1, c |-> "I"]>>,
            <<[n |-> 1, c |-> "M"], [n |-> 1, c |-> "D"], [n |-> 1, c |-> "M"]>>,
            <<[n |-> 2, c |-> "M"]>> >>
         \o (IF MaxOps >= 3 THEN << <<[n |-> 1, c |-> "I"], [n |-> 1, c |-> "M"], [n |-> 1, c |-> "D"]>>,
                                    <<[n |-> 2, c |-> "D"], [n |-> 1, c |-> "M"]>> >> ELSE <<>>)
HLink(o, cg) == G1("L", "A", o, "A", Inv(o), cg, FALSE, 0)
XLink(o) == G1("L", "X", "+", "A", o, C1M, FALSE, 0)
HWalk(o, emb) == IF emb THEN W(<<<<"X", "+">>, <<"A", o>>, <<"A", Inv(o)>>, <<"X", "-">>>>)
                 ELSE W(<<<<"A", o>>, <<"A", Inv(o)>>>>)
HStep(emb) == IF emb THEN 2 ELSE 1                      \* the step served by the hairpin
WalkText(w, sep) == Join([i \in DOMAIN w |-> w[i].id \o w[i].o], sep)
HOv(cg, how) == CASE how = "w" -> CigText(cg) [] how = "c" -> CigText(Complement(cg)) [] OTHER -> "*"
HPLine(name, o, cg, emb, how) ==
  <<"P", name, WalkText(HWalk(o, emb), ","),
    IF how = "s" \/ ~emb THEN HOv(cg, how) ELSE "1M," \o HOv(cg, how) \o ",1M">>
HSeg1(emb) == <<S1Line("A", 4, TRUE)>> \o (IF emb THEN <<S1Line("X", 5, FALSE)>> ELSE <<>>)
HSeg2(emb) == <<S2Line("A", 4, TRUE)>> \o (IF emb THEN <<S2Line("X", 5, FALSE)>> ELSE <<>>)
HLinks1(o, cg, emb, named) ==
  (IF emb THEN <<G1Line(XLink(o), IF named THEN "l1" ELSE "")>> ELSE <<>>)
  \o <<G1Line(HLink(o, cg), IF named THEN "hp" ELSE "")>>
\* hows: overlaps of the paths p, q (one or two); ord: "LP" links first, "PL" paths first,
\* "PLQ" the links between the two paths
HDoc1(o, cg, emb, named, hows, ord) ==
  LET ps == [i \in DOMAIN hows |-> HPLine(IF i = 1 THEN "p" ELSE "q", o, cg, emb, hows[i])]
      ls == HLinks1(o, cg, emb, named) IN
  HSeg1(emb) \o (CASE ord = "LP" -> ls \o ps [] ord = "PL" -> ps \o ls [] OTHER -> <<ps[1]>> \o ls \o Tail(ps))
HHows == {<<a>> : a \in {"w", "c", "s"}} \cup {<<a, b>> : a \in {"w", "c", "s"}, b \in {"w", "c", "s"}}
H1Cases(dummy) ==
  {[k |-> "H", ver |-> "gfa1", lf |-> 0, lt |-> 0,
    x |-> [o |-> o, cg |-> HCigs[ci], emb |-> emb, hows |-> hows, form |-> 0, sg |-> ""],
    lines |-> HDoc1(o, HCigs[ci], emb, named, hows, ord)] :
   <<o, ci, emb, named, hows, ord>> \in
     {t \in Ori \X (DOMAIN HCigs) \X BOOLEAN \X BOOLEAN \X HHows \X {"LP", "PL", "PLQ"} :
        t[6] = "PLQ" => Len(t[5]) = 2}}

HForm(g, f) == CASE f = 1 -> F1(g) [] f = 2 -> F2(g) [] f = 3 -> F3(g) [] OTHER -> F4(g)
HEdge(o, cg, f) == HForm(LinkToEdge(HLink(o, cg), 4, 4), f)
HOLine(o, emb, sg) ==
  LET w == HWalk(o, emb)
      segtxt == [i \in DOMAIN w |-> w[i].id \o w[i].o] IN
  <<"O", "p", Join(IF sg = "" THEN segtxt
                   ELSE IF emb THEN PathToOrdered(segtxt, <<"l1+", "hp" \o sg, "l1-">>)
                   ELSE PathToOrdered(segtxt, <<"hp" \o sg>>), " ")>>
HDoc2(o, cg, emb, named, f, sg, ofirst) ==
  LET es == (IF emb THEN <<ELine(LinkToEdge(XLink(o), 5, 4), IF named THEN "l1" ELSE "")>> ELSE <<>>)
            \o <<ELine(HEdge(o, cg, f), IF named THEN "hp" ELSE "")>>
      ol == <<HOLine(o, emb, sg)>> IN
  HSeg2(emb) \o (IF ofirst THEN ol \o es ELSE es \o ol)
H2Cases(dummy) ==
  {[k |-> "H", ver |-> "gfa2", lf |-> 0, lt |-> 0,
    x |-> [o |-> o, cg |-> HCigs[ci], emb |-> emb, hows |-> <<>>, form |-> f, sg |-> sg],
    lines |-> HDoc2(o, HCigs[ci], emb, named, f, sg, ofirst)] :
   <<o, ci, emb, named, f, sg, ofirst>> \in
     {t \in Ori \X (DOMAIN HCigs) \X BOOLEAN \X BOOLEAN \X (1..4) \X {"+", "-", ""} \X BOOLEAN :
        t[6] # "" => t[4]}}

-----------------------------------------------------------------------------
(* nested and multi-line ordered groups (kind "N", GFA2).  A chain A-B-C-D
   (orientation vector v, edges l1..l3 in the stored forms of Stored2).  Group
   `inner` walks the segments i..j, written on one to three lines (cut at any
   item, also next to an edge item); group `outer` walks the whole chain with
   `inner` as one item, forwards (`inner+`) or backwards (`inner-`); optionally
   `top` = `outer+` / `outer-`.  The `outer` line arrives before, between or
   after the lines of `inner`; the O lines before or after the E lines; edges
   listed or implied.                                                         *)
NVecs == << <<"+", "+", "+", "+">>, <<"+", "-", "-", "+">>, <<"-", "-", "+", "+">> >>
NCombos == IF MaxOps >= 3 THEN {<<vi, fv>> : vi \in 1..3, fv \in {"d", "c", "a"}}
           ELSE {<<1, "d">>, <<2, "a">>, <<1, "c">>}
NChain(vi) == LET v == NVecs[vi] IN
  [w |-> W(<<<<"A", v[1]>>, <<"B", v[2]>>, <<"C", v[3]>>, <<"D", v[4]>>>>), c |-> FALSE]
It(id, o) == [id |-> id, o |-> o]
\* items of the walk over the segments i..j of the chain
NItems(sh, r, fv, i, j, expl) ==
  IF expl THEN [k \in 1..(2 * (j - i) + 1) |->
                  IF k % 2 = 1 THEN It(sh.w[i + (k - 1) \div 2].id, sh.w[i + (k - 1) \div 2].o)
                  ELSE It("l" \o ToString(i + k \div 2 - 1), Stored2(sh, i + k \div 2 - 1, r, fv).s)]
  ELSE [k \in 1..(j - i + 1) |-> It(sh.w[i + k - 1].id, sh.w[i + k - 1].o)]
NPos(m, expl) == IF expl THEN 2 * m - 1 ELSE m
NOuterFwd(sh, r, fv, i, j, expl) ==
  LET full == NItems(sh, r, fv, 1, 4, expl) IN
  SubSeq(full, 1, NPos(i, expl) - 1) \o <<It("inner", "+")>> \o SubSeq(full, NPos(j, expl) + 1, Len(full))
NOuter(sh, r, fv, i, j, expl, rev) ==
  IF rev THEN RevInv(NOuterFwd(sh, r, fv, i, j, expl)) ELSE NOuterFwd(sh, r, fv, i, j, expl)
NCuts(n) == {<<>>} \cup {<<k>> : k \in {1, 2} \cap (1..(n - 1))} \cup (IF n >= 4 THEN {<<1, 3>>} ELSE {})
\* the pieces of `items` cut after the positions in cuts
NPieces(items, cuts) ==
  LET b == <<0>> \o cuts \o <<Len(items)>> IN
  [k \in 1..(Len(cuts) + 1) |-> SubSeq(items, b[k] + 1, b[k + 1])]
ItemsText(items) == Join([k \in DOMAIN items |-> items[k].id \o items[k].o], " ")
NOLine(name, items, tag) == <<"O", name, ItemsText(items)>> \o (IF tag THEN <<"zz:i:1">> ELSE <<>>)
NSegLines == <<S2Line("A", 4, TRUE), S2Line("B", 5, FALSE), S2Line("C", 6, FALSE), S2Line("D", 6, FALSE)>>
NDoc(vi, fv, r, i, j, expl, rev, cuts, p, top, ofirst) ==
  LET sh == NChain(vi)
      pieces == NPieces(NItems(sh, r, fv, i, j, expl), cuts)
      m == Len(pieces)
      tl == IF p % 2 = 0 THEN 1 ELSE m                       \* the inner line which carries the tag
      inl == [k \in 1..m |-> NOLine("inner", pieces[k], k = tl)]
      outl == <<NOLine("outer", NOuter(sh, r, fv, i, j, expl, rev), FALSE)>>
      ols0 == SubSeq(inl, 1, p) \o outl \o SubSeq(inl, p + 1, m)
      ols == CASE top = "+" -> <<NOLine("top", <<It("outer", "+")>>, FALSE)>> \o ols0
               [] top = "-" -> ols0 \o <<NOLine("top", <<It("outer", "-")>>, FALSE)>>
               [] OTHER -> ols0
      els == [k \in 1..3 |-> ELine(Stored2(sh, k, r, fv).g, "l" \o ToString(k))]
  IN NSegLines \o (IF ofirst THEN ols \o els ELSE els \o ols)
NRanges == {<<2, 4>>, <<2, 3>>, <<1, 4>>, <<1, 2>>, <<3, 3>>}
NCases(dummy) ==
  {[k |-> "N", ver |-> "gfa2", lf |-> 0, lt |-> 0,
    x |-> [vi |-> t[1][1], fv |-> t[1][2], r |-> t[2], i |-> t[3][1], j |-> t[3][2], expl |-> t[4], rev |-> t[5],
           cuts |-> t[6], top |-> t[8]],
    lines |-> NDoc(t[1][1], t[1][2], t[2], t[3][1], t[3][2], t[4], t[5], t[6], t[7], t[8], t[9])] :
   t \in {u \in NCombos \X Rots \X NRanges \X BOOLEAN \X BOOLEAN \X NCuts(7) \X (0..3) \X {"", "+", "-"} \X BOOLEAN :
          LET n == IF u[4] THEN 2 * (u[3][2] - u[3][1]) + 1 ELSE u[3][2] - u[3][1] + 1 IN
          /\ u[6] \in NCuts(n)
          /\ u[7] <= Len(u[6]) + 1}}

-----------------------------------------------------------------------------
(* histories (kind "T"): one Gfa object is converted, edited, converted again
   (and once more).  A case is the document as it stands at each stage with the
   edit commands between them,  doc0 @ cmd1 @ doc1 @ cmd2 @ doc2 ; the document
   after an edit is written here (what the edit means), the harness issues the
   command on the live object and every stage is judged like any other
   document.  Edits: length of a segment (LN tag or sequence; longer, shorter,
   down to where `$` appears), position / overlap of a containment, a tag,
   renaming a segment, an edge or a path taken out and added again in another
   form.  GFA2: segment length, alignment, tag, renaming, E line re-added.   *)
M(n) == [n |-> n, c |-> "M"]
Iop(n) == [n |-> n, c |-> "I"]
Dop(n) == [n |-> n, c |-> "D"]
TLenEdits == {"A3", "A6", "B3", "B6"}
TEdits == TLenEdits \cup {"pos", "ov", "tag", "ren", "readd", "readdP"}
THists == {<<e>> : e \in TEdits}
          \cup {h \in {<<a, b>> : a \in TLenEdits \cup {"ren", "readd"}, b \in TLenEdits} : h[1] # h[2]}
TName(p, n) == IF n = "A" THEN p.nA ELSE n
TLenOf(p, n) == IF n = "A" THEN p.la ELSE p.lb
TUsesB(p) == "B" \in {p.x.from, p.x.to}
TSegs(p) ==
  << IF p.seqA THEN <<"S", p.nA, SeqOf(p.la)>> ELSE <<"S", p.nA, "*", "LN:i:" \o ToString(p.la)>> >>
  \o (IF TUsesB(p) THEN << <<"S", "B", "*", "LN:i:" \o ToString(p.lb)>> >> ELSE <<>>)
TX(p) == [p.x EXCEPT !.from = TName(p, @), !.to = TName(p, @)]
TEdgeLine(p) == G1Line(TX(p), p.id) \o (IF p.tag THEN <<"xx:i:5">> ELSE <<>>)
TPathLine(p) == <<"P", "p", TName(p, p.x.from) \o p.x.fo \o "," \o TName(p, p.x.to) \o p.x.too,
                  IF p.path = "g" THEN CigText(p.x.ov) ELSE "*">>
TDoc(p) == TSegs(p) \o <<TEdgeLine(p)>> \o (IF p.path # "" THEN <<TPathLine(p)>> ELSE <<>>)
TFits(p) == /\ Gfa1Fits(p.x, TLenOf(p, p.x.from), TLenOf(p, p.x.to))
            /\ (p.x.t = "C" => QueryLen(p.x.ov) = TLenOf(p, p.x.to))
TApply(p, e) ==
  CASE e \in {"A3", "A6"} ->
         LET n == IF e = "A3" THEN 3 ELSE 6 IN
         [ok |-> n # p.la, p |-> [p EXCEPT !.la = n],
          cmd |-> IF p.seqA THEN <<"seq", p.nA, SeqOf(n)>> ELSE <<"LN", p.nA, ToString(n)>>]
    [] e \in {"B3", "B6"} ->
         LET n == IF e = "B3" THEN 3 ELSE 6 IN
         [ok |-> n # p.lb /\ TUsesB(p), p |-> [p EXCEPT !.lb = n], cmd |-> <<"LN", "B", ToString(n)>>]
    [] e = "pos" ->
         LET n == IF p.x.pos = 0 THEN 1 ELSE 0 IN
         [ok |-> p.x.t = "C" /\ p.id # "", p |-> [p EXCEPT !.x.pos = n], cmd |-> <<"pos", p.id, ToString(n)>>]
    [] e = "ov" ->
         [ok |-> p.x.t = "C" /\ p.id # "" /\ Reverse(p.x.ov) # p.x.ov, p |-> [p EXCEPT !.x.ov = Reverse(@)],
          cmd |-> <<"ov", p.id, CigText(Reverse(p.x.ov))>>]
    [] e = "tag" -> [ok |-> ~p.tag /\ p.id # "", p |-> [p EXCEPT !.tag = TRUE], cmd |-> <<"tag", p.id, "xx:i:5">>]
    [] e = "ren" -> [ok |-> p.nA = "A", p |-> [p EXCEPT !.nA = "Z"], cmd |-> <<"rename", "A", "Z">>]
    [] e = "readd" ->
         LET q == [p EXCEPT !.x.fo = Inv(@), !.x.ov = Reverse(@)] IN
         [ok |-> p.id # "" /\ p.path = "", p |-> q, cmd |-> <<"readd", p.id, Join(TEdgeLine(q), "|")>>]
    [] OTHER ->
         LET q == [p EXCEPT !.path = IF @ = "g" THEN "s" ELSE "g"] IN
         [ok |-> p.path # "", p |-> q, cmd |-> <<"readd", "p", Join(TPathLine(q), "|")>>]
RECURSIVE THistOK(_, _)
THistOK(p, h) == TFits(p) /\ (h = <<>> \/ (TApply(p, Head(h)).ok /\ THistOK(TApply(p, Head(h)).p, Tail(h))))
RECURSIVE THistText(_, _)
THistText(p, h) ==
  IF h = <<>> THEN DocText(TDoc(p))
  ELSE LET r == TApply(p, Head(h)) IN
       DocText(TDoc(p)) \o "@" \o Join(r.cmd, "~") \o "@" \o THistText(r.p, Tail(h))
RECURSIVE TStages(_, _)
TStages(p, h) == IF h = <<>> THEN <<p>> ELSE <<p>> \o TStages(TApply(p, Head(h)).p, Tail(h))
TP(x, seqA, id, path) == [la |-> 5, lb |-> 4, seqA |-> seqA, nA |-> "A", x |-> x, id |-> id, tag |-> FALSE, path |-> path]
TLCig(k) == IF k % 2 = 0 THEN <<M(2), Iop(1)>> ELSE <<M(1), Dop(1), M(1)>>
TCOv(k) == IF k % 2 = 0 THEN <<M(1), Iop(1), M(2)>> ELSE <<M(2), Dop(1), M(2)>>      \* both span a contained B of length 4
TOriIdx(fo, to) == (IF fo = "-" THEN 1 ELSE 0) + (IF to = "-" THEN 2 ELSE 0)
TBaseSet1 ==
  LET full == MaxOps >= 3 IN
  {p \in
    {TP(G1("L", "A", fo, "B", to, TLCig(k), FALSE, 0), sq, id, path) :
       fo \in Ori, to \in Ori, k \in 0..1, sq \in BOOLEAN, id \in {"", "l1"}, path \in {"", "g", "s"}}
    \cup {TP(G1("L", "A", fo, "A", to, TLCig(k), FALSE, 0), sq, "l1", "") : fo \in Ori, to \in Ori, k \in 0..1, sq \in BOOLEAN}
    \cup {TP(G1("C", "A", fo, "B", to, TCOv(k), FALSE, pos), sq, "c1", "") :
            fo \in Ori, to \in Ori, k \in 0..1, sq \in BOOLEAN, pos \in 0..1} :
    \* quick tier: CIGAR and sequence/LN ride along with the orientation pair
    full \/ LET n == TOriIdx(p.x.fo, p.x.too) IN
            /\ p.x.ov \in {TLCig(n), TCOv(n)}
            /\ p.seqA = (p.x.fo = "+")
            /\ (p.id = "" => p.path = "")
            /\ (p.x.t = "C" => p.x.pos = n % 2)}
T1Cases(dummy) ==
  {[k |-> "T", ver |-> "gfa1", lf |-> 0, lt |-> 0, x |-> [p |-> p, h |-> h], text |-> THistText(p, h), lines |-> <<>>] :
     <<p, h>> \in {t \in TBaseSet1 \X THists : THistOK(t[1], t[2])}}

\* GFA2 histories: the E line of a link A-B in one of its four forms, optionally an O path over it
UName(p, n) == IF n = "A" THEN p.nA ELSE n
ULenOf(p, n) == IF n = "A" THEN p.la ELSE p.lb
UG(p) == [p.g EXCEPT !.s1 = UName(p, @), !.s2 = UName(p, @)]
UELine(p) == ELine(UG(p), p.id) \o (IF p.tag THEN <<"xx:i:5">> ELSE <<>>)
UOLine(p) ==
  LET l == EdgeToLink(p.g)
      a == IF p.sg = "+" THEN UName(p, l.from) \o l.fo ELSE UName(p, l.to) \o Inv(l.too)
      b == IF p.sg = "+" THEN UName(p, l.to) \o l.too ELSE UName(p, l.from) \o Inv(l.fo) IN
  <<"O", "p", IF p.path = "x" THEN a \o " " \o p.id \o p.sg \o " " \o b ELSE a \o " " \o b>>
UDoc(p) == <<S2Line(p.nA, p.la, FALSE), S2Line("B", p.lb, FALSE), UELine(p)>>
           \o (IF p.path # "" THEN <<UOLine(p)>> ELSE <<>>)
UFits(p) == /\ ValidE(p.g, ULenOf(p, p.g.s1), ULenOf(p, p.g.s2)) /\ Consistent(p.g) /\ ClassOf(p.g) = "L"
UApply(p, e) ==
  CASE e \in {"A3", "A6"} ->
         LET n == IF e = "A3" THEN 3 ELSE 6 IN
         [ok |-> n # p.la, p |-> [p EXCEPT !.la = n], cmd |-> <<"slen", p.nA, ToString(n)>>]
    [] e \in {"B3", "B6"} ->
         LET n == IF e = "B3" THEN 3 ELSE 6 IN
         [ok |-> n # p.lb, p |-> [p EXCEPT !.lb = n], cmd |-> <<"slen", "B", ToString(n)>>]
    [] e = "ov" ->
         [ok |-> Reverse(p.g.al) # p.g.al, p |-> [p EXCEPT !.g.al = Reverse(@)],
          cmd |-> <<"aln", p.id, CigText(Reverse(p.g.al))>>]
    [] e = "tag" -> [ok |-> ~p.tag, p |-> [p EXCEPT !.tag = TRUE], cmd |-> <<"tag", p.id, "xx:i:5">>]
    [] e = "ren" -> [ok |-> p.nA = "A", p |-> [p EXCEPT !.nA = "Z"], cmd |-> <<"rename", "A", "Z">>]
    [] e = "readd" ->
         LET q == [p EXCEPT !.g = F2(@)] IN
         [ok |-> p.path = "", p |-> q, cmd |-> <<"readd", p.id, Join(UELine(q), "|")>>]
    [] e = "readdP" ->
         LET q == [p EXCEPT !.path = IF @ = "x" THEN "i" ELSE "x"] IN
         [ok |-> p.path # "", p |-> q, cmd |-> <<"readd", "p", Join(UOLine(q), "|")>>]
    [] OTHER -> [ok |-> FALSE, p |-> p, cmd |-> <<>>]
RECURSIVE UHistOK(_, _)
UHistOK(p, h) == UFits(p) /\ (h = <<>> \/ (UApply(p, Head(h)).ok /\ UHistOK(UApply(p, Head(h)).p, Tail(h))))
RECURSIVE UHistText(_, _)
UHistText(p, h) ==
  IF h = <<>> THEN DocText(UDoc(p))
  ELSE LET r == UApply(p, Head(h)) IN
       DocText(UDoc(p)) \o "@" \o Join(r.cmd, "~") \o "@" \o UHistText(r.p, Tail(h))
RECURSIVE UStages(_, _)
UStages(p, h) == IF h = <<>> THEN <<p>> ELSE <<p>> \o UStages(UApply(p, Head(h)).p, Tail(h))
UBaseSet ==
  LET full == MaxOps >= 3 IN
  {[la |-> 5, lb |-> 4, nA |-> "A", id |-> "e1", tag |-> FALSE, path |-> path,
    g |-> HForm(LinkToEdge(G1("L", "A", fo, "B", to, TLCig(k), FALSE, 0), 5, 4), f),
    sg |-> IF f \in {1, 2} THEN "+" ELSE "-"] :
   <<fo, to, k, f, path>> \in
     {t \in Ori \X Ori \X (0..1) \X (1..4) \X {"", "x", "i"} :
        full \/ (t[3] = TOriIdx(t[1], t[2]) % 2 /\ t[4] = TOriIdx(t[1], t[2]) + 1)}}
T2Cases(dummy) ==
  {[k |-> "T", ver |-> "gfa2", lf |-> 0, lt |-> 0, x |-> [p |-> p, h |-> h], text |-> UHistText(p, h), lines |-> <<>>] :
     <<p, h>> \in {t \in UBaseSet \X THists : UHistOK(t[1], t[2])}}

-----------------------------------------------------------------------------
(* fixed catalogue: headers, tags, records without counterpart, traces,
   identifiers that look like integers (fresh edge identifiers) *)
XDocs == <<
  [ver |-> "gfa2", lines |-> <<
     <<"H", "VN:Z:2.0", "ab:i:7">>, <<"S", "a", "4", "ACGT", "xx:i:1", "yy:Z:two words">>, <<"S", "b", "6", "*">>,
     <<"E", "e1", "a+", "b+", "2", "4$", "0", "3", "1M1I1M", "zz:Z:hi", "cc:i:-3">>,
     <<"E", "e2", "a-", "b+", "1", "2", "1", "2", "1M">>,
     <<"G", "g", "a+", "b-", "10", "*">>, <<"F", "a", "x+", "0", "2", "0", "2", "*">>,
     <<"O", "o1", "a+ e1+ b+", "ab:i:3">>, <<"U", "u", "a b">>, <<"X", "custom", "xx:i:1">> >>],
  [ver |-> "gfa2", lines |-> <<
     <<"S", "a", "4", "ACGT">>, <<"S", "b", "6", "*">>,
     <<"E", "t1", "a+", "b+", "1", "4$", "0", "3", "1,2">>, <<"E", "*", "a-", "b-", "0", "2", "4", "6$", "*">>,
     <<"O", "o1", "a+ t1+ b+">> >>],
  [ver |-> "gfa2", lines |-> <<
     <<"S", "a", "4", "ACGT">>, <<"S", "b", "6", "*">>, <<"G", "g", "a+", "b-", "10", "*">>,
     <<"F", "a", "x+", "0", "2", "0", "2", "*">>, <<"U", "u", "a b g">>, <<"Y", "other", "1">> >>],
  [ver |-> "gfa1", lines |-> <<
     <<"H", "VN:Z:1.0", "ab:i:7">>, <<"S", "A", "ACGT", "xx:i:1", "yy:Z:two words">>, <<"S", "B", "*", "LN:i:6", "RC:i:12">>,
     <<"L", "A", "+", "B", "-", "1M1I1M", "ID:Z:l1", "zz:Z:hi", "MQ:i:3">>,
     <<"C", "B", "+", "A", "-", "1", "2M1D2M", "ID:Z:c1", "NM:i:1">>,
     <<"P", "p", "A+,B-", "1M1I1M", "ab:i:3">> >>],
  [ver |-> "gfa1", lines |-> <<
     <<"S", "1", "ACGT">>, <<"S", "2", "ACGTA">>, <<"S", "4", "*", "LN:i:6">>,
     <<"L", "1", "+", "2", "+", "2M">>, <<"L", "2", "+", "4", "-", "1M1D1M">>, <<"L", "4", "-", "1", "+", "1M1I">>,
     <<"P", "3", "1+,2+,4-", "*">> >>],
  [ver |-> "gfa1", lines |-> <<
     <<"S", "A", "ACGT">>, <<"S", "B", "ACGTA">>,
     <<"L", "A", "+", "B", "+", "2M", "ID:Z:1">>, <<"L", "B", "+", "A", "-", "1M1D1M">>,
     <<"L", "A", "-", "A", "+", "1M">>, <<"C", "B", "-", "A", "+", "1", "2M1I1M">> >>],
  [ver |-> "gfa1", lines |-> <<
     <<"S", "A", "ACGT">>, <<"S", "B", "ACGTA">>, <<"S", "3", "ACG">>,
     <<"L", "A", "+", "B", "+", "2M", "ID:Z:2">>, <<"L", "B", "+", "3", "-", "1M1D1M">>,
     <<"L", "3", "+", "A", "+", "1M">> >>],
  \* an O path through an edge that is not a dovetail has no GFA1 counterpart; the GFA1 document
  \* it comes from when a link covers a whole segment
  [ver |-> "gfa2", lines |-> <<
     <<"S", "A", "5", "*">>, <<"S", "B", "3", "*">>, <<"E", "l1", "A+", "B+", "3", "5$", "0", "3$", "2M1I">>,
     <<"O", "p", "A+ l1+ B+">> >>],
  [ver |-> "gfa1", lines |-> <<
     <<"S", "A", "*", "LN:i:5">>, <<"S", "B", "*", "LN:i:3">>, <<"L", "A", "+", "B", "+", "2M1I", "ID:Z:l1">>,
     <<"P", "p", "A+,B+", "2M1I">> >>]
>>
XCases(dummy) == {[k |-> "X", ver |-> XDocs[i].ver, lf |-> 0, lt |-> 0, x |-> i, lines |-> XDocs[i].lines] : i \in DOMAIN XDocs}

-----------------------------------------------------------------------------
Init == \/ "L" \in Kinds /\ c \in LCases(0)
        \/ "C" \in Kinds /\ c \in CCases(0)
        \/ "E" \in Kinds /\ InitE
        \/ "P" \in Kinds /\ c \in PCases(0)
        \/ "O" \in Kinds /\ c \in OCases(0)
        \/ "X" \in Kinds /\ c \in XCases(0)
        \/ "H" \in Kinds /\ (c \in H1Cases(0) \/ c \in H2Cases(0))
        \/ "N" \in Kinds /\ c \in NCases(0)
        \/ "T" \in Kinds /\ (c \in T1Cases(0) \/ c \in T2Cases(0))
Next == FALSE /\ UNCHANGED c
Spec == Init /\ [][Next]_c

\* one printed line per case: fields joined with "|", lines with ";" (neither
\* occurs inside a field of any enumerated document)
Emit == PrintT(<<"CASE", c.k, c.ver, IF c.k = "T" THEN c.text ELSE DocText(c.lines)>>)

-----------------------------------------------------------------------------
(* laws of the specification *)
LenOfEdgeCase(id) == IF id = "A" THEN c.lf ELSE c.lt

\* GFA1 -> GFA2 is valid in GFA2, spans its intervals, and comes back
LawGfa1 == c.k \in {"L", "C"} =>
  LET x == c.x
      lf == c.lf
      lt == IF x.to = "A" THEN c.lf ELSE c.lt
  IN /\ Gfa1Fits(x, lf, lt)
     /\ \A g \in Gfa1ToEdgeSet(x, lf, lt) :
          /\ ValidE(g, lf, lt)
          /\ (x.t = "L" => Consistent(g))
          /\ ~Internal(g)
          /\ \A y \in EdgeToGfa1Set(g, lf, lt) : Equiv1(x, y, LenOfEdgeCase)
     \* the deterministic pair of functions is mutually inverse up to EquivE
     /\ LET g == Gfa1ToEdge(x, lf, lt)
            y == EdgeToGfa1(g) IN
        /\ y.t # "I"
        /\ EquivE(Gfa1ToEdge(y, LenOfEdgeCase(y.from), LenOfEdgeCase(y.to)), g)
        \* a link stays the same link (or its complement) unless its overlap
        \* covers a whole segment; a containment keeps container, offset, overlap
        /\ (x.t = "C" => y = x)
        /\ (x.t = "L" /\ y.t = "L" => y \in {x, ComplLink(x)})

\* GFA2 -> GFA1 -> GFA2 returns the same edge (when the E line is expressible:
\* not internal, alignment a CIGAR spanning the intervals)
LawGfa2 == c.k = "E" =>
  LET g == c.x
      l1 == c.lf
      l2 == IF g.s2 = "A" THEN c.lf ELSE c.lt
  IN /\ ValidE(g, l1, l2)
     /\ (Internal(g) <=> EdgeToGfa1Set(g, l1, l2) = {})
     /\ (Internal(g) <=> EdgeToGfa1(g).t = "I")
     /\ (~Internal(g) => EdgeToGfa1(g) \in EdgeToGfa1Set(g, l1, l2))
     /\ (~Internal(g) /\ ~g.star =>
          /\ LET y == EdgeToGfa1(g) IN
               /\ Gfa1Fits(y, LenOfEdgeCase(y.from), LenOfEdgeCase(y.to))
               /\ EquivE(Gfa1ToEdge(y, LenOfEdgeCase(y.from), LenOfEdgeCase(y.to)), g)
          /\ \A y \in EdgeToGfa1Set(g, l1, l2) :
               /\ Gfa1Fits(y, LenOfEdgeCase(y.from), LenOfEdgeCase(y.to))
               /\ \E h \in Gfa1ToEdgeSet(y, LenOfEdgeCase(y.from), LenOfEdgeCase(y.to)) : EquivE(g, h))

\* the four forms are an equivalence class: closed under each other
LawForms == c.k \in {"E"} => \A h \in EForms(c.x) : EForms(h) = EForms(c.x)

\* path documents: the stored edges carry the steps they were built for, in
\* both versions and in every stored form
LawPaths == c.k \in {"P", "O"} =>
  \A k \in 1..NSteps(c.x.sh) :
    LET sa == StepFrom(c.x.sh, k)
        sb == StepTo(c.x.sh, k)
        l == StepLink(c.x.sh, k, c.x.r)
        e == Stored2(c.x.sh, k, c.x.r, c.x.fv) IN
    /\ LinkCarries(Stored1(c.x.sh, k, c.x.r, c.x.fv), sa, sb, TRUE, l.ov)
    /\ EdgeCarries(e.g, sa, sb, e.s)
    /\ EquivE(e.g, LinkToEdge(l, PLen(sa.id), PLen(sb.id)))

\* reading direction.  Traversing a link with "-" is reading its complement;
\* on a hairpin both signs serve the step, and the overlap a path states picks
\* exactly one of them unless the CIGAR is its own complement; the four forms
\* of the E line, traversed with the sign that belongs to the form, read the
\* same alignment, and the other sign reads the complement.
LawReading == c.k = "H" =>
  LET l == HLink(c.x.o, c.x.cg)
      w == HWalk(c.x.o, c.x.emb)
      sa == w[HStep(c.x.emb)]
      sb == w[HStep(c.x.emb) + 1]
      selfc == Complement(c.x.cg) = c.x.cg
      OvOf(how) == IF how = "c" THEN Complement(c.x.cg) ELSE c.x.cg IN
  /\ Hairpin(l) /\ Hairpin(ComplLink(l)) /\ ComplLink(ComplLink(l)) = l
  /\ \A hasov \in BOOLEAN, ov \in {c.x.cg, Complement(c.x.cg)} :
        /\ LinkReads(l, "-", sa, sb, hasov, ov) <=> LinkCompl(l, sa, sb, hasov, ov)
        /\ LinkReads(l, "+", sa, sb, hasov, ov) <=> LinkDirect(l, sa, sb, hasov, ov)
  /\ StepSigns(l, sa, sb, FALSE, <<>>) = {"+", "-"}
  /\ LinkReadOvs(l, "", sa, sb) = {c.x.cg, Complement(c.x.cg)}
  /\ \A i \in DOMAIN c.x.hows :
        StepSigns(l, sa, sb, c.x.hows[i] # "s", OvOf(c.x.hows[i])) =
          (CASE c.x.hows[i] = "s" -> {"+", "-"}
             [] c.x.hows[i] = "w" -> IF selfc THEN {"+", "-"} ELSE {"+"}
             [] OTHER -> IF selfc THEN {"+", "-"} ELSE {"-"})
  /\ c.x.form # 0 =>
        LET g == HEdge(c.x.o, c.x.cg, c.x.form)
            own == IF c.x.form \in {1, 2} THEN "+" ELSE "-" IN
        /\ EdgeCarries(g, sa, sb, "+") /\ EdgeCarries(g, sa, sb, "-")
        /\ EdgeReadOvs(g, own, sa, sb) = {c.x.cg}
        /\ EdgeReadOvs(g, Inv(own), sa, sb) = {Complement(c.x.cg)}
        /\ EdgeReadOvs(g, "", sa, sb) = {c.x.cg, Complement(c.x.cg)}

\* nested groups: the lines of `inner` concatenated are its walk; `outer` and
\* `top` expand to the walk over the whole chain (backwards: every item inverted,
\* in the opposite order); every step of the expansion is carried by the edge
\* listed for it, traversed with the sign listed
LawNested == c.k = "N" =>
  LET sh == NChain(c.x.vi)
      inner == NItems(sh, c.x.r, c.x.fv, c.x.i, c.x.j, c.x.expl)
      outer == NOuter(sh, c.x.r, c.x.fv, c.x.i, c.x.j, c.x.expl, c.x.rev)
      groups == [n \in {"inner", "outer"} |-> IF n = "inner" THEN inner ELSE outer]
      full == NItems(sh, c.x.r, c.x.fv, 1, 4, c.x.expl)
      want == IF c.x.rev THEN RevInv(full) ELSE full
      exp == ExpandItems(outer, groups, MaxNesting)
      IsSeg(it) == it.id \in {"A", "B", "C", "D"}
      segs == OrderedToPath(exp, IsSeg) IN
  /\ FlatSeq(NPieces(inner, c.x.cuts)) = inner
  /\ exp = want
  /\ ExpandItems(<<It("outer", "+")>>, groups, MaxNesting) = want
  /\ ExpandItems(<<It("outer", "-")>>, groups, MaxNesting) = RevInv(want)
  /\ RevInv(RevInv(want)) = want
  /\ Len(segs) = 4
  /\ \A k \in 1..3 :
        LET e == IF c.x.rev THEN 4 - k ELSE k
            sg == IF c.x.rev THEN Inv(Stored2(sh, e, c.x.r, c.x.fv).s) ELSE Stored2(sh, e, c.x.r, c.x.fv).s IN
        /\ EdgeCarries(Stored2(sh, e, c.x.r, c.x.fv).g, Ors(segs[k].id, segs[k].o), Ors(segs[k + 1].id, segs[k + 1].o), sg)
        /\ (c.x.expl => exp[2 * k] = It("l" \o ToString(e), sg))

\* histories: the document of every stage is inside the quantifier, its edge
\* converts to a valid E line for the lengths of that stage and comes back
LawHist == (c.k = "T" /\ c.ver = "gfa1") =>
  \A n \in DOMAIN TStages(c.x.p, c.x.h) :
    LET p == TStages(c.x.p, c.x.h)[n]
        lf == TLenOf(p, p.x.from)
        lt == TLenOf(p, p.x.to) IN
    /\ TFits(p)
    /\ \A g \in Gfa1ToEdgeSet(p.x, lf, lt) :
          /\ ValidE(g, lf, lt) /\ Consistent(g)
          /\ \A y \in EdgeToGfa1Set(g, lf, lt) : Equiv1(p.x, y, LAMBDA m : TLenOf(p, m))

LawHist2 == (c.k = "T" /\ c.ver = "gfa2") =>
  \A n \in DOMAIN UStages(c.x.p, c.x.h) :
    LET p == UStages(c.x.p, c.x.h)[n]
        l1 == ULenOf(p, p.g.s1)
        l2 == ULenOf(p, p.g.s2) IN
    /\ UFits(p)
    /\ \A y \in EdgeToGfa1Set(p.g, l1, l2) :
          /\ Gfa1Fits(y, ULenOf(p, y.from), ULenOf(p, y.to))
          /\ \E h \in Gfa1ToEdgeSet(y, ULenOf(p, y.from), ULenOf(p, y.to)) : EquivE(p.g, h)
    /\ (p.path # "" => LET l == EdgeToLink(p.g) IN
                        EdgeCarries(p.g, IF p.sg = "+" THEN Ors(l.from, l.fo) ELSE Ors(l.to, Inv(l.too)),
                                    IF p.sg = "+" THEN Ors(l.to, l.too) ELSE Ors(l.from, Inv(l.fo)), p.sg))

Laws == LawGfa1 /\ LawGfa2 /\ LawForms /\ LawPaths /\ LawReading /\ LawNested /\ LawHist /\ LawHist2
=============================================================================
