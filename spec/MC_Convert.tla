----------------------------- MODULE MC_Convert -----------------------------
(* Enumeration of conversion cases (spec -> code) and the laws of Convert.tla
   checked on the specification itself.

   One TLC state = one case.  A case is a small GFA document given as text
   lines (tuples of field strings; the harness only joins them with tabs) plus
   the semantic record the laws are evaluated on.  Every case is printed as
   <<"CASE", kind, version, <<line, ...>>>> from the CONSTRAINT.

   Parameters come from a JSON file (IOEnv.PARAM_FILE):
     lens      segment lengths                       (thorough 3..6, quick 3..4)
     shard     lengths of the first segment handled by this TLC process
     maxops    maximal number of CIGAR operations    (thorough 3, quick 2)
     unnamed   lengths up to which E lines are also enumerated without a name
     kinds     which case kinds this process enumerates ("L","C","E","P","O","X","H")
     rot       rotations of the CIGAR choice used by path documents            *)
EXTENDS Convert, Json, IOUtils, TLC

Par     == JsonDeserialize(IOEnv.PARAM_FILE)
Lens    == Rng(Par.lens)
Shard   == Rng(Par.shard)
MaxOps  == Par.maxops
Unnamed == Par.unnamed
Kinds   == Rng(Par.kinds)
Rots    == Rng(Par.rot)

Ori == {"+", "-"}
Op1 == {[n |-> k, c |-> x] : k \in {1, 2}, x \in {"M", "I", "D"}}
Cigs == UNION {[1..m -> Op1] : m \in 1..MaxOps}

-----------------------------------------------------------------------------
(* text *)
RECURSIVE Join(_, _)
Join(s, sep) == IF Len(s) = 0 THEN "" ELSE IF Len(s) = 1 THEN s[1] ELSE s[1] \o sep \o Join(Tail(s), sep)
RECURSIVE CigText(_)
CigText(cg) == IF cg = <<>> THEN "" ELSE ToString(Head(cg).n) \o Head(cg).c \o CigText(Tail(cg))
OvText(cg, star) == IF star THEN "*" ELSE CigText(cg)
SeqOf(n) == CASE n = 3 -> "ACG" [] n = 4 -> "ACGT" [] n = 5 -> "ACGTA" [] n = 6 -> "ACGTAC" [] OTHER -> "*"
PosText(p, d) == ToString(p) \o (IF d = 1 THEN "$" ELSE "")

\* first segment carries a sequence, the second only a length
S1Line(name, len, withseq) ==
  IF withseq THEN <<"S", name, SeqOf(len)>> ELSE <<"S", name, "*", "LN:i:" \o ToString(len)>>
S2Line(name, len, withseq) == <<"S", name, ToString(len), IF withseq THEN SeqOf(len) ELSE "*">>

G1Line(x, id) ==
  (IF x.t = "L" THEN <<"L", x.from, x.fo, x.to, x.too, OvText(x.ov, x.star)>>
   ELSE <<"C", x.from, x.fo, x.to, x.too, ToString(x.pos), OvText(x.ov, x.star)>>)
  \o (IF id = "" THEN <<>> ELSE <<"ID:Z:" \o id>>)
ELine(g, id) ==
  <<"E", IF id = "" THEN "*" ELSE id, g.s1 \o g.o1, g.s2 \o g.o2,
    PosText(g.n[1], g.n[2]), PosText(g.n[3], g.n[4]), PosText(g.n[5], g.n[6]), PosText(g.n[7], g.n[8]),
    OvText(g.al, g.star)>>

-----------------------------------------------------------------------------
(* edge cases *)
VARIABLE c
SegLines1(self, lf, lt) == IF self THEN <<S1Line("A", lf, TRUE)>> ELSE <<S1Line("A", lf, TRUE), S1Line("B", lt, FALSE)>>
SegLines2(self, l1, l2) == IF self THEN <<S2Line("A", l1, TRUE)>> ELSE <<S2Line("A", l1, TRUE), S2Line("B", l2, FALSE)>>

LCases(dummy) ==
  {[k |-> "L", ver |-> "gfa1", lf |-> lf, lt |-> lt,
    x |-> G1("L", "A", fo, IF self THEN "A" ELSE "B", to, ov, FALSE, 0),
    lines |-> SegLines1(self, lf, lt) \o <<G1Line(G1("L", "A", fo, IF self THEN "A" ELSE "B", to, ov, FALSE, 0), id)>>] :
   <<lf, lt, self, fo, to, ov, id>> \in
     {t \in Shard \X Lens \X BOOLEAN \X Ori \X Ori \X Cigs \X {"", "l1"} :
        /\ (t[3] => t[1] = t[2])
        /\ RefLen(t[6]) <= t[1] /\ QueryLen(t[6]) <= t[2]}}

\* containments: the CIGAR spans the whole contained segment, every offset
CCases(dummy) ==
  {[k |-> "C", ver |-> "gfa1", lf |-> lf, lt |-> lt,
    x |-> G1("C", "A", fo, IF self THEN "A" ELSE "B", to, ov, FALSE, pos),
    lines |-> SegLines1(self, lf, lt) \o <<G1Line(G1("C", "A", fo, IF self THEN "A" ELSE "B", to, ov, FALSE, pos), id)>>] :
   <<lf, lt, self, fo, to, ov, id, pos>> \in
     {t \in Shard \X Lens \X BOOLEAN \X Ori \X Ori \X Cigs \X {"", "c1"} \X (0..6) :
        /\ (t[3] => t[1] = t[2])
        /\ QueryLen(t[6]) = t[2] /\ t[8] + RefLen(t[6]) <= t[1]}}

\* E lines: every valid pair of intervals, `$` exactly at the end; alignment `*`
\* or every enumerated CIGAR that spans the two intervals
Ivs(len) == {<<b, e>> \in (0..len) \X (0..len) : b <= e}
CigsBy == [r \in 0..6, q \in 0..6 |-> {cg \in Cigs : RefLen(cg) = r /\ QueryLen(cg) = q}]
AlsFor(i1, i2) == {<<<<>>, TRUE>>} \cup {<<cg, FALSE>> : cg \in CigsBy[i1[2] - i1[1], i2[2] - i2[1]]}
ECase(l1, l2, self, o1, o2, i1, i2, al, id) ==
  LET g == Geo("A", o1, IF self THEN "A" ELSE "B", o2, N8(i1[1], i1[2], l1, i2[1], i2[2], l2), al[1], al[2]) IN
  [k |-> "E", ver |-> "gfa2", lf |-> l1, lt |-> l2, x |-> g,
   lines |-> SegLines2(self, l1, l2) \o <<ELine(g, id)>>]
InitE ==
  \E t \in {u \in Shard \X Lens \X BOOLEAN : u[3] => u[1] = u[2]} :
    \E i1 \in Ivs(t[1]), i2 \in Ivs(t[2]) :
      \E al \in AlsFor(i1, i2), o1 \in Ori, o2 \in Ori,
         id \in (IF t[1] <= Unnamed /\ t[2] <= Unnamed THEN {"", "e1"} ELSE {"e1"}) :
        c = ECase(t[1], t[2], t[3], o1, o2, i1, i2, al, id)

-----------------------------------------------------------------------------
(* path documents: segments A (4, sequence) B (5) C (6); a walk shape, per step
   the stored form of the edge, a CIGAR (asymmetric ones included), named or
   unnamed edges, overlaps listed or `*` *)
PLen(id) == CASE id = "A" -> 4 [] id = "B" -> 5 [] OTHER -> 6
W(s) == [i \in DOMAIN s |-> Ors(s[i][1], s[i][2])]
Shapes ==
  {[w |-> W(<<<<"A", o>>>>), c |-> FALSE] : o \in Ori}
  \cup {[w |-> W(<<<<"A", o1>>, <<"B", o2>>>>), c |-> cc] : o1 \in Ori, o2 \in Ori, cc \in BOOLEAN}
  \cup {[w |-> W(<<<<"A", o1>>, <<"B", o2>>, <<"C", o3>>>>), c |-> FALSE] : o1 \in Ori, o2 \in Ori, o3 \in Ori}
  \cup {[w |-> W(<<<<"A", "+">>, <<"B", "+">>, <<"C", "+">>>>), c |-> TRUE],
        [w |-> W(<<<<"A", "-">>, <<"B", "+">>, <<"C", "-">>>>), c |-> TRUE],
        [w |-> W(<<<<"A", "+">>, <<"B", "+">>, <<"A", "+">>>>), c |-> FALSE],
        [w |-> W(<<<<"A", "+">>, <<"B", "-">>, <<"A", "-">>>>), c |-> FALSE],
        [w |-> W(<<<<"A", "+">>, <<"A", "+">>>>), c |-> FALSE],
        [w |-> W(<<<<"A", "+">>, <<"A", "-">>>>), c |-> FALSE],
        [w |-> W(<<<<"A", "-">>, <<"A", "+">>>>), c |-> FALSE]}
PCig == << <<[n |-> 1, c |-> "M"], [n |-> 1, c |-> "D"], [n |-> 1, c |-> "M"]>>,
           <<[n |-> 2, c |-> "M"], [n |-> 1, c |-> "I"]>>,
           <<[n |-> 2, c |-> "M"]>> >>
StepCig(k, r) == PCig[((k + r) % 3) + 1]
NSteps(sh) == IF sh.c THEN Len(sh.w) ELSE Len(sh.w) - 1
StepFrom(sh, k) == sh.w[k]
StepTo(sh, k) == IF k = Len(sh.w) THEN sh.w[1] ELSE sh.w[k + 1]
StepLink(sh, k, r) == G1("L", StepFrom(sh, k).id, StepFrom(sh, k).o, StepTo(sh, k).id, StepTo(sh, k).o,
                         StepCig(k, r), FALSE, 0)
\* stored form of step k under form vector fv: "d" direct, "c" complement, "a" alternate
Direct(fv, k) == fv = "d" \/ (fv = "a" /\ k % 2 = 1)
Stored1(sh, k, r, fv) == IF Direct(fv, k) THEN StepLink(sh, k, r) ELSE ComplLink(StepLink(sh, k, r))
\* no two steps may be served by the same or by complementary links
Distinct(sh, r) == \A i, j \in 1..NSteps(sh) : i # j =>
   LET a == StepLink(sh, i, r) b == StepLink(sh, j, r) IN
   ~(a.from = b.from /\ a.fo = b.fo /\ a.to = b.to /\ a.too = b.too)
   /\ ~(ComplLink(a).from = b.from /\ ComplLink(a).fo = b.fo /\ ComplLink(a).to = b.to /\ ComplLink(a).too = b.too)
SegsUsed(sh) == {sh.w[i].id : i \in DOMAIN sh.w}
PSegLines(sh, v) ==
  LET names == SelectSeq(<<"A", "B", "C">>, LAMBDA n : n \in SegsUsed(sh)) IN
  [i \in DOMAIN names |-> IF v = "gfa1" THEN S1Line(names[i], PLen(names[i]), names[i] = "A")
                          ELSE S2Line(names[i], PLen(names[i]), names[i] = "A")]
EName(k, named) == IF named THEN "l" \o ToString(k) ELSE ""

PCases(dummy) ==
  {[k |-> "P", ver |-> "gfa1", lf |-> 0, lt |-> 0, x |-> [sh |-> sh, r |-> r, fv |-> fv],
    lines |-> PSegLines(sh, "gfa1")
       \o [k \in 1..NSteps(sh) |-> G1Line(Stored1(sh, k, r, fv), EName(k, named))]
       \o << <<"P", "p", Join([i \in DOMAIN sh.w |-> sh.w[i].id \o sh.w[i].o], ","),
               IF given /\ NSteps(sh) > 0 THEN Join([k \in 1..NSteps(sh) |-> CigText(StepCig(k, r))], ",") ELSE "*">>
             \o (IF tagged THEN <<"zz:i:1">> ELSE <<>>) >>] :
   <<sh, r, fv, named, given, tagged>> \in
     {t \in Shapes \X Rots \X {"d", "c", "a"} \X BOOLEAN \X BOOLEAN \X BOOLEAN :
        /\ Distinct(t[1], t[2])
        /\ (t[1].c => t[5])                       \* a circular GFA1 path lists its overlaps
        /\ (NSteps(t[1]) = 0 => (t[3] = "d" /\ ~t[4] /\ ~t[5]))
        /\ (t[6] = (t[3] = "d"))}}                \* the tag rides along with one form vector

\* GFA2: the edge of step k stored in one of the four forms; "+" forms are
\* referenced with sign "+", the strand-exchanged ones with "-"
Stored2(sh, k, r, fv) ==
  LET g == LinkToEdge(StepLink(sh, k, r), PLen(StepFrom(sh, k).id), PLen(StepTo(sh, k).id)) IN
  CASE fv = "d" -> [g |-> F1(g), s |-> "+"]
    [] fv = "c" -> [g |-> F4(g), s |-> "-"]
    [] OTHER -> IF k % 2 = 1 THEN [g |-> F2(g), s |-> "+"] ELSE [g |-> F3(g), s |-> "-"]
OItems(sh, r, fv, explicit) ==
  LET closed == P1Walk(sh.w, sh.c)
      segtxt == [i \in DOMAIN closed |-> closed[i].id \o closed[i].o]
      refs == [k \in 1..NSteps(sh) |-> "l" \o ToString(k) \o Stored2(sh, k, r, fv).s]
  IN IF explicit THEN PathToOrdered(segtxt, refs) ELSE segtxt
OCases(dummy) ==
  {[k |-> "O", ver |-> "gfa2", lf |-> 0, lt |-> 0, x |-> [sh |-> sh, r |-> r, fv |-> fv],
    lines |-> PSegLines(sh, "gfa2")
       \o [k \in 1..NSteps(sh) |-> ELine(Stored2(sh, k, r, fv).g, IF explicit \/ named THEN "l" \o ToString(k) ELSE "")]
       \o << <<"O", "p", Join(OItems(sh, r, fv, explicit), " ")>> \o (IF tagged THEN <<"zz:i:1">> ELSE <<>>) >>] :
   <<sh, r, fv, named, explicit, tagged>> \in
     {t \in Shapes \X Rots \X {"d", "c", "a"} \X BOOLEAN \X BOOLEAN \X BOOLEAN :
        /\ Distinct(t[1], t[2])
        /\ (NSteps(t[1]) = 0 => (t[3] = "d" /\ ~t[4] /\ ~t[5]))
        /\ (t[5] => t[4])
        /\ (t[6] = (t[3] = "d"))}}

-----------------------------------------------------------------------------
(* hairpin documents (kind "H").  A hairpin link `L A o A Inv(o)` and its
   complement join the same oriented segments: which of the two a path reads
   is said by the overlap alone.  One or two paths traverse the hairpin, each
   stating the overlap as the link is written ("w"), as its complement ("c")
   or not at all ("s"); the P lines stand after the L lines, before them, or
   around them (the references are then resolved through a virtual link);
   the hairpin alone or inside a longer walk X+ A A X-.  GFA2: the E line in
   each of its four forms, traversed "+", "-" or implied, O before or after E. *)
C1M == <<[n |-> 1, c |-> "M"]>>
HCigs == << <<[n |-> 2, c |-> "M"], [n |-> 1, c |-> "I"]>>,
            <<[n |-> 1, c |-> "M"], [n |-> 1, c |-> "D"], [n |-> 1, c |-> "M"]>>,
            <<[n |-> 2, c |-> "M"]>> >>
         \o (IF MaxOps >= 3 THEN << <<[n |-> 1, c |-> "I"], [n |-> 1, c |-> "M"], [n |-> 1, c |-> "D"]>>,
                                    <<[n |-> 2, c |-> "D"], [n |-> 1, c |-> "M"]>> >> ELSE <<>>)
HLink(o, cg) == G1("L", "A", o, "A", Inv(o), cg, FALSE, 0)
XLink(o) == G1("L", "X", "+", "A", o, C1M, FALSE, 0)
HWalk(o, emb) == IF emb THEN W(<<<<"X", "+">>, <<"A", o>>, <<"A", Inv(o)>>, <<"X", "-">>>>)
                 ELSE W(<<<<"A", o>>, <<"A", Inv(o)>>>>)
HStep(emb) == IF emb THEN 2 ELSE 1                      \* the step served by the hairpin
WalkText(w, sep) == Join([i \in DOMAIN w |-> w[i].id \o w[i].o], sep)
HOv(cg, how) == CASE how = "w" -> CigText(cg) [] how = "c" -> CigText(Complement(cg)) [] OTHER -> "*"
HPLine(name, o, cg, emb, how) ==
  <<"P", name, WalkText(HWalk(o, emb), ","),
    IF how = "s" \/ ~emb THEN HOv(cg, how) ELSE "1M," \o HOv(cg, how) \o ",1M">>
HSeg1(emb) == <<S1Line("A", 4, TRUE)>> \o (IF emb THEN <<S1Line("X", 5, FALSE)>> ELSE <<>>)
HSeg2(emb) == <<S2Line("A", 4, TRUE)>> \o (IF emb THEN <<S2Line("X", 5, FALSE)>> ELSE <<>>)
HLinks1(o, cg, emb, named) ==
  (IF emb THEN <<G1Line(XLink(o), IF named THEN "l1" ELSE "")>> ELSE <<>>)
  \o <<G1Line(HLink(o, cg), IF named THEN "hp" ELSE "")>>
\* hows: overlaps of the paths p, q (one or two); ord: "LP" links first, "PL" paths first,
\* "PLQ" the links between the two paths
HDoc1(o, cg, emb, named, hows, ord) ==
  LET ps == [i \in DOMAIN hows |-> HPLine(IF i = 1 THEN "p" ELSE "q", o, cg, emb, hows[i])]
      ls == HLinks1(o, cg, emb, named) IN
  HSeg1(emb) \o (CASE ord = "LP" -> ls \o ps [] ord = "PL" -> ps \o ls [] OTHER -> <<ps[1]>> \o ls \o Tail(ps))
HHows == {<<a>> : a \in {"w", "c", "s"}} \cup {<<a, b>> : a \in {"w", "c", "s"}, b \in {"w", "c", "s"}}
H1Cases(dummy) ==
  {[k |-> "H", ver |-> "gfa1", lf |-> 0, lt |-> 0,
    x |-> [o |-> o, cg |-> HCigs[ci], emb |-> emb, hows |-> hows, form |-> 0, sg |-> ""],
    lines |-> HDoc1(o, HCigs[ci], emb, named, hows, ord)] :
   <<o, ci, emb, named, hows, ord>> \in
     {t \in Ori \X (DOMAIN HCigs) \X BOOLEAN \X BOOLEAN \X HHows \X {"LP", "PL", "PLQ"} :
        t[6] = "PLQ" => Len(t[5]) = 2}}

HForm(g, f) == CASE f = 1 -> F1(g) [] f = 2 -> F2(g) [] f = 3 -> F3(g) [] OTHER -> F4(g)
HEdge(o, cg, f) == HForm(LinkToEdge(HLink(o, cg), 4, 4), f)
HOLine(o, emb, sg) ==
  LET w == HWalk(o, emb)
      segtxt == [i \in DOMAIN w |-> w[i].id \o w[i].o] IN
  <<"O", "p", Join(IF sg = "" THEN segtxt
                   ELSE IF emb THEN PathToOrdered(segtxt, <<"l1+", "hp" \o sg, "l1-">>)
                   ELSE PathToOrdered(segtxt, <<"hp" \o sg>>), " ")>>
HDoc2(o, cg, emb, named, f, sg, ofirst) ==
  LET es == (IF emb THEN <<ELine(LinkToEdge(XLink(o), 5, 4), IF named THEN "l1" ELSE "")>> ELSE <<>>)
            \o <<ELine(HEdge(o, cg, f), IF named THEN "hp" ELSE "")>>
      ol == <<HOLine(o, emb, sg)>> IN
  HSeg2(emb) \o (IF ofirst THEN ol \o es ELSE es \o ol)
H2Cases(dummy) ==
  {[k |-> "H", ver |-> "gfa2", lf |-> 0, lt |-> 0,
    x |-> [o |-> o, cg |-> HCigs[ci], emb |-> emb, hows |-> <<>>, form |-> f, sg |-> sg],
    lines |-> HDoc2(o, HCigs[ci], emb, named, f, sg, ofirst)] :
   <<o, ci, emb, named, f, sg, ofirst>> \in
     {t \in Ori \X (DOMAIN HCigs) \X BOOLEAN \X BOOLEAN \X (1..4) \X {"+", "-", ""} \X BOOLEAN :
        t[6] # "" => t[4]}}

-----------------------------------------------------------------------------
(* fixed catalogue: headers, tags, records without counterpart, traces,
   identifiers that look like integers (fresh edge identifiers) *)
XDocs == <<
  [ver |-> "gfa2", lines |-> <<
     <<"H", "VN:Z:2.0", "ab:i:7">>, <<"S", "a", "4", "ACGT", "xx:i:1", "yy:Z:two words">>, <<"S", "b", "6", "*">>,
     <<"E", "e1", "a+", "b+", "2", "4$", "0", "3", "1M1I1M", "zz:Z:hi", "cc:i:-3">>,
     <<"E", "e2", "a-", "b+", "1", "2", "1", "2", "1M">>,
     <<"G", "g", "a+", "b-", "10", "*">>, <<"F", "a", "x+", "0", "2", "0", "2", "*">>,
     <<"O", "o1", "a+ e1+ b+", "ab:i:3">>, <<"U", "u", "a b">>, <<"X", "custom", "xx:i:1">> >>],
  [ver |-> "gfa2", lines |-> <<
     <<"S", "a", "4", "ACGT">>, <<"S", "b", "6", "*">>,
     <<"E", "t1", "a+", "b+", "1", "4$", "0", "3", "1,2">>, <<"E", "*", "a-", "b-", "0", "2", "4", "6$", "*">>,
     <<"O", "o1", "a+ t1+ b+">> >>],
  [ver |-> "gfa2", lines |-> <<
     <<"S", "a", "4", "ACGT">>, <<"S", "b", "6", "*">>, <<"G", "g", "a+", "b-", "10", "*">>,
     <<"F", "a", "x+", "0", "2", "0", "2", "*">>, <<"U", "u", "a b g">>, <<"Y", "other", "1">> >>],
  [ver |-> "gfa1", lines |-> <<
     <<"H", "VN:Z:1.0", "ab:i:7">>, <<"S", "A", "ACGT", "xx:i:1", "yy:Z:two words">>, <<"S", "B", "*", "LN:i:6", "RC:i:12">>,
     <<"L", "A", "+", "B", "-", "1M1I1M", "ID:Z:l1", "zz:Z:hi", "MQ:i:3">>,
     <<"C", "B", "+", "A", "-", "1", "2M1D2M", "ID:Z:c1", "NM:i:1">>,
     <<"P", "p", "A+,B-", "1M1I1M", "ab:i:3">> >>],
  [ver |-> "gfa1", lines |-> <<
     <<"S", "1", "ACGT">>, <<"S", "2", "ACGTA">>, <<"S", "4", "*", "LN:i:6">>,
     <<"L", "1", "+", "2", "+", "2M">>, <<"L", "2", "+", "4", "-", "1M1D1M">>, <<"L", "4", "-", "1", "+", "1M1I">>,
     <<"P", "3", "1+,2+,4-", "*">> >>],
  [ver |-> "gfa1", lines |-> <<
     <<"S", "A", "ACGT">>, <<"S", "B", "ACGTA">>,
     <<"L", "A", "+", "B", "+", "2M", "ID:Z:1">>, <<"L", "B", "+", "A", "-", "1M1D1M">>,
     <<"L", "A", "-", "A", "+", "1M">>, <<"C", "B", "-", "A", "+", "1", "2M1I1M">> >>],
  [ver |-> "gfa1", lines |-> <<
     <<"S", "A", "ACGT">>, <<"S", "B", "ACGTA">>, <<"S", "3", "ACG">>,
     <<"L", "A", "+", "B", "+", "2M", "ID:Z:2">>, <<"L", "B", "+", "3", "-", "1M1D1M">>,
     <<"L", "3", "+", "A", "+", "1M">> >>]
>>
XCases(dummy) == {[k |-> "X", ver |-> XDocs[i].ver, lf |-> 0, lt |-> 0, x |-> i, lines |-> XDocs[i].lines] : i \in DOMAIN XDocs}

-----------------------------------------------------------------------------
Init == \/ "L" \in Kinds /\ c \in LCases(0)
        \/ "C" \in Kinds /\ c \in CCases(0)
        \/ "E" \in Kinds /\ InitE
        \/ "P" \in Kinds /\ c \in PCases(0)
        \/ "O" \in Kinds /\ c \in OCases(0)
        \/ "X" \in Kinds /\ c \in XCases(0)
        \/ "H" \in Kinds /\ (c \in H1Cases(0) \/ c \in H2Cases(0))
Next == FALSE /\ UNCHANGED c
Spec == Init /\ [][Next]_c

\* one printed line per case: fields joined with "|", lines with ";" (neither
\* occurs inside a field of any enumerated document)
DocText(ls) == Join([i \in DOMAIN ls |-> Join(ls[i], "|")], ";")
Emit == PrintT(<<"CASE", c.k, c.ver, DocText(c.lines)>>)

-----------------------------------------------------------------------------
(* laws of the specification *)
LenOfEdgeCase(id) == IF id = "A" THEN c.lf ELSE c.lt

\* GFA1 -> GFA2 is valid in GFA2, spans its intervals, and comes back
LawGfa1 == c.k \in {"L", "C"} =>
  LET x == c.x
      lf == c.lf
      lt == IF x.to = "A" THEN c.lf ELSE c.lt
  IN /\ Gfa1Fits(x, lf, lt)
     /\ \A g \in Gfa1ToEdgeSet(x, lf, lt) :
          /\ ValidE(g, lf, lt)
          /\ (x.t = "L" => Consistent(g))
          /\ ~Internal(g)
          /\ \A y \in EdgeToGfa1Set(g, lf, lt) : Equiv1(x, y, LenOfEdgeCase)
     \* the deterministic pair of functions is mutually inverse up to EquivE
     /\ LET g == Gfa1ToEdge(x, lf, lt)
            y == EdgeToGfa1(g) IN
        /\ y.t # "I"
        /\ EquivE(Gfa1ToEdge(y, LenOfEdgeCase(y.from), LenOfEdgeCase(y.to)), g)
        \* a link stays the same link (or its complement) unless its overlap
        \* covers a whole segment; a containment keeps container, offset, overlap
        /\ (x.t = "C" => y = x)
        /\ (x.t = "L" /\ y.t = "L" => y \in {x, ComplLink(x)})

\* GFA2 -> GFA1 -> GFA2 returns the same edge (when the E line is expressible:
\* not internal, alignment a CIGAR spanning the intervals)
LawGfa2 == c.k = "E" =>
  LET g == c.x
      l1 == c.lf
      l2 == IF g.s2 = "A" THEN c.lf ELSE c.lt
  IN /\ ValidE(g, l1, l2)
     /\ (Internal(g) <=> EdgeToGfa1Set(g, l1, l2) = {})
     /\ (Internal(g) <=> EdgeToGfa1(g).t = "I")
     /\ (~Internal(g) => EdgeToGfa1(g) \in EdgeToGfa1Set(g, l1, l2))
     /\ (~Internal(g) /\ ~g.star =>
          /\ LET y == EdgeToGfa1(g) IN
               /\ Gfa1Fits(y, LenOfEdgeCase(y.from), LenOfEdgeCase(y.to))
               /\ EquivE(Gfa1ToEdge(y, LenOfEdgeCase(y.from), LenOfEdgeCase(y.to)), g)
          /\ \A y \in EdgeToGfa1Set(g, l1, l2) :
               /\ Gfa1Fits(y, LenOfEdgeCase(y.from), LenOfEdgeCase(y.to))
               /\ \E h \in Gfa1ToEdgeSet(y, LenOfEdgeCase(y.from), LenOfEdgeCase(y.to)) : EquivE(g, h))

\* the four forms are an equivalence class: closed under each other
LawForms == c.k \in {"E"} => \A h \in EForms(c.x) : EForms(h) = EForms(c.x)

\* path documents: the stored edges carry the steps they were built for, in
\* both versions and in every stored form
LawPaths == c.k \in {"P", "O"} =>
  \A k \in 1..NSteps(c.x.sh) :
    LET sa == StepFrom(c.x.sh, k)
        sb == StepTo(c.x.sh, k)
        l == StepLink(c.x.sh, k, c.x.r)
        e == Stored2(c.x.sh, k, c.x.r, c.x.fv) IN
    /\ LinkCarries(Stored1(c.x.sh, k, c.x.r, c.x.fv), sa, sb, TRUE, l.ov)
    /\ EdgeCarries(e.g, sa, sb, e.s)
    /\ EquivE(e.g, LinkToEdge(l, PLen(sa.id), PLen(sb.id)))

\* reading direction.  Traversing a link with "-" is reading its complement;
\* on a hairpin both signs serve the step, and the overlap a path states picks
\* exactly one of them unless the CIGAR is its own complement; the four forms
\* of the E line, traversed with the sign that belongs to the form, read the
\* same alignment, and the other sign reads the complement.
LawReading == c.k = "H" =>
  LET l == HLink(c.x.o, c.x.cg)
      w == HWalk(c.x.o, c.x.emb)
      sa == w[HStep(c.x.emb)]
      sb == w[HStep(c.x.emb) + 1]
      selfc == Complement(c.x.cg) = c.x.cg
      OvOf(how) == IF how = "c" THEN Complement(c.x.cg) ELSE c.x.cg IN
  /\ Hairpin(l) /\ Hairpin(ComplLink(l)) /\ ComplLink(ComplLink(l)) = l
  /\ \A hasov \in BOOLEAN, ov \in {c.x.cg, Complement(c.x.cg)} :
        /\ LinkReads(l, "-", sa, sb, hasov, ov) <=> LinkCompl(l, sa, sb, hasov, ov)
        /\ LinkReads(l, "+", sa, sb, hasov, ov) <=> LinkDirect(l, sa, sb, hasov, ov)
  /\ StepSigns(l, sa, sb, FALSE, <<>>) = {"+", "-"}
  /\ LinkReadOvs(l, "", sa, sb) = {c.x.cg, Complement(c.x.cg)}
  /\ \A i \in DOMAIN c.x.hows :
        StepSigns(l, sa, sb, c.x.hows[i] # "s", OvOf(c.x.hows[i])) =
          (CASE c.x.hows[i] = "s" -> {"+", "-"}
             [] c.x.hows[i] = "w" -> IF selfc THEN {"+", "-"} ELSE {"+"}
             [] OTHER -> IF selfc THEN {"+", "-"} ELSE {"-"})
  /\ c.x.form # 0 =>
        LET g == HEdge(c.x.o, c.x.cg, c.x.form)
            own == IF c.x.form \in {1, 2} THEN "+" ELSE "-" IN
        /\ EdgeCarries(g, sa, sb, "+") /\ EdgeCarries(g, sa, sb, "-")
        /\ EdgeReadOvs(g, own, sa, sb) = {c.x.cg}
        /\ EdgeReadOvs(g, Inv(own), sa, sb) = {Complement(c.x.cg)}
        /\ EdgeReadOvs(g, "", sa, sb) = {c.x.cg, Complement(c.x.cg)}

Laws == LawGfa1 /\ LawGfa2 /\ LawForms /\ LawPaths /\ LawReading
=============================================================================
