"""Family "lex": C04 (validation accepts exactly the grammar) and C07 (only gfapy.Error escapes).

Technique (FAMILY_GUIDE): spec/Lex.tla holds the grammar, spec/MC_Lex.tla makes TLC enumerate the
cases (spec -> code), this module offers every case to the real gfapy and records the result
classes, spec/TraceLex.tla recomputes the grammar's verdict and names the violated clause
(code -> spec).  Nothing below decides whether a text is valid GFA: the tables are inputs
(alphabets, catalogue strings, context lines), the verdicts come from TLC.
"""
import json, os, signal, sys, time, traceback, itertools, hashlib
from multiprocessing import Pool as MPool

from . import tlc, report, project
from .core import _load_gfapy, REPO
from .tlc import MachineryError

WATCHDOG = 5.0
FILES = os.path.join(tlc.WORK, "lex-files")

# ---------------------------------------------------------------------------------------------
# data handed to MC_Lex (single source for TLC and Python).  Everything is text; "\t" separates
# the fields of a context line, HOLE marks the field under test.

HOLE = "\0"
FF, NONASCII, DEL = "\x0c", "é", "\x7f"
# a byte that is not valid UTF-8: as a character of a str it is the lone surrogate that Python's "surrogateescape"
# error handler maps to the byte 0xFF when the text is written to a file (so from_file gets an undecodable file, the
# string entry points get an unencodable character).  TLC and the JSON files only see the placeholder BADBYTE_PH.
BADBYTE, BADBYTE_PH = "\udcff", "\ue0ff"


def _ctx(name, ver, dt, line, fname, fpre="", nover=False):
    fields = line.split("\t")
    return dict(name=name, ver=ver, dt=dt, fields=[f if f != HOLE else "" for f in fields],
                hole=fields.index(HOLE) + 1, fpre=fpre, fname=fname, nover=nover)


CONTEXTS = [_ctx("tag_" + t, "gfa1", t, "S\tA\t*\t" + HOLE, "xx", "xx:%s:" % t) for t in "ifZAJHB"] + \
    [_ctx("htag_" + t, "gfa1", t, "H\t" + HOLE, "xx", "xx:%s:" % t, nover=True) for t in "ifZAJHB"] + [
    _ctx("tagsyntax1", "gfa1", "tag", "S\tA\t*\t" + HOLE, ""),
    _ctx("tagsyntax2", "gfa2", "tag", "S\ta\t5\t*\t" + HOLE, ""),
    _ctx("segname1", "gfa1", "segment_name_gfa1", "S\t" + HOLE + "\t*", "name"),
    _ctx("segname1_L", "gfa1", "segment_name_gfa1", "L\t" + HOLE + "\t+\tB\t+\t*", "from_segment", nover=True),
    _ctx("pathname1", "gfa1", "path_name_gfa1", "P\t" + HOLE + "\tA+\t*", "path_name", nover=True),
    _ctx("seq1", "gfa1", "sequence_gfa1", "S\tA\t" + HOLE, "sequence"),
    _ctx("seq2", "gfa2", "sequence_gfa2", "S\ta\t5\t" + HOLE, "sequence"),
    _ctx("orient", "gfa1", "orientation", "L\tA\t" + HOLE + "\tB\t+\t*", "from_orient", nover=True),
    _ctx("aln1", "gfa1", "alignment_gfa1", "L\tA\t+\tB\t+\t" + HOLE, "overlap", nover=True),
    _ctx("aln2", "gfa2", "alignment_gfa2", "E\t*\ta+\tb+\t0\t2\t0\t2\t" + HOLE, "alignment", nover=True),
    _ctx("alnlist1_2", "gfa1", "alignment_list_gfa1", "P\tp\tA+,B+\t" + HOLE, "overlaps", nover=True),
    _ctx("alnlist1_3", "gfa1", "alignment_list_gfa1", "P\tp\tA+,B+,C+\t" + HOLE, "overlaps", nover=True),
    _ctx("alnlist1_1", "gfa1", "alignment_list_gfa1", "P\tp\tA+\t" + HOLE, "overlaps", nover=True),
    _ctx("alnlist1_4", "gfa1", "alignment_list_gfa1", "P\tp\tA+,B+,C+,D+\t" + HOLE, "overlaps", nover=True),
    _ctx("pos1", "gfa1", "position_gfa1", "C\tA\t+\tB\t+\t" + HOLE + "\t*", "pos", nover=True),
    _ctx("pos2_E", "gfa2", "position_gfa2", "E\t*\ta+\tb+\t0\t" + HOLE + "\t0\t2\t*", "end1", nover=True),
    _ctx("pos2_F", "gfa2", "position_gfa2", "F\ta\tx+\t0\t" + HOLE + "\t0\t2\t*", "s_end", nover=True),
    _ctx("id2", "gfa2", "identifier_gfa2", "S\t" + HOLE + "\t5\t*", "sid"),
    _ctx("optid2", "gfa2", "optional_identifier_gfa2", "E\t" + HOLE + "\ta+\tb+\t0\t2\t0\t2\t*", "eid", nover=True),
    _ctx("ref2", "gfa2", "oriented_identifier_gfa2", "E\t*\t" + HOLE + "\tb+\t0\t2\t0\t2\t*", "sid1", nover=True),
    _ctx("idlist2", "gfa2", "identifier_list_gfa2", "U\tu\t" + HOLE, "items", nover=True),
    _ctx("reflist1", "gfa1", "oriented_identifier_list_gfa1", "P\tp\t" + HOLE + "\t*", "segment_names", nover=True),
    _ctx("reflist2", "gfa2", "oriented_identifier_list_gfa2", "O\to\t" + HOLE, "items", nover=True),
    _ctx("optint", "gfa2", "optional_integer", "G\tg\ta+\tb+\t10\t" + HOLE, "var", nover=True),
    _ctx("int2", "gfa2", "integer_gfa2", "G\tg\ta+\tb+\t" + HOLE + "\t5", "disp", nover=True),
    _ctx("len2", "gfa2", "length_gfa2", "S\ta\t" + HOLE + "\t*", "slen"),
    _ctx("customrt", "gfa2", "custom_record_type", HOLE + "\ta", "record_type"),
    _ctx("comment", "gfa1", "comment", HOLE, "content", "#", nover=True),
    _ctx("generic", "gfa2", "generic", "X\t" + HOLE, "field1"),
]
CTX_IDX = {c["name"]: i + 1 for i, c in enumerate(CONTEXTS)}


def _syms(spec):
    """'a b inf' -> symbols; the names SP FF NA DEL NL stand for the characters"""
    names = {"SP": " ", "FF": FF, "NA": NONASCII, "DEL": DEL, "NL": "\n", "TAB": "\t", "EMPTYSTR": '""', "XB": BADBYTE_PH, "NUL": "\0", "CR": "\r"}
    return [names.get(t, t) for t in spec.split(" ")]


# (context, symbols, n quick, n thorough, prefix, suffix): every string of <= n symbols
ALPHABETS = [
    ("tag_i", "0 1 9 + - _ SP . e $", 4, 5, "", ""),
    ("tag_f", "0 1 . e E + - _ SP inf nan", 3, 4, "", ""),
    ("tag_Z", "a Z 0 SP ! ~ : NA FF DEL", 2, 4, "", ""),
    ("tag_A", "a Z 0 SP ! ~ NA FF", 2, 3, "", ""),
    ("tag_H", "0 9 A F a f G SP _", 3, 5, "", ""),
    ("tag_B", "c C f , 1 - . 200 SP", 4, 5, "", ""),
    ("tag_B", "s S i I , 1 + e _ 70000 -40000 5000000000", 0, 4, "", ""),
    ("tag_J", '{ } [ ] , : "a" 1 true NaN SP -', 4, 5, "", ""),
    ("tag_J", '" \\ a u 0 1 - . e + SP', 3, 5, "[", "]"),
    ("tagsyntax1", "i Z q : 1 _ SP", 4, 5, "xx:", ""),
    ("tagsyntax1", "x X 1 _ : NA", 3, 3, "", ":i:1"),
    ("tagsyntax2", "x X 1 _ : NA", 3, 3, "", ":i:1"),
    ("tagsyntax1", "x 1 : i Z _", 0, 6, "", ""),
    ("segname1", "A a 1 * = + - , SP ! NA FF", 3, 4, "", ""),
    ("segname1_L", "A a * = + , SP NA", 2, 4, "", ""),
    ("pathname1", "A a 1 * = + - , SP ! NA", 3, 4, "", ""),
    ("seq1", "A c N * = . - 1 SP NA", 3, 4, "", ""),
    ("seq2", "A * = 1 SP ! NA FF", 3, 4, "", ""),
    ("orient", "+ - * a SP", 2, 3, "", ""),
    ("aln1", "1 0 M D N = X , * - SP", 4, 5, "", ""),
    ("aln2", "1 0 M I P N = X , * - + SP", 3, 4, "", ""),
    ("alnlist1_2", "1 M = , * SP 0", 4, 5, "", ""),
    ("alnlist1_3", "1 M , * 0", 5, 6, "", ""),
    ("alnlist1_4", "* 1M , *, 1M,", 5, 6, "", ""),
    ("alnlist1_1", "* 1M , *, 1M,", 4, 5, "", ""),
    ("alnlist1_3", "* 1M , *, 1M,", 4, 5, "", ""),
    ("pos1", "0 1 9 + - _ SP $ .", 3, 5, "", ""),
    ("pos2_E", "0 1 $ - + SP _ 9", 4, 5, "", ""),
    ("pos2_F", "0 1 $ - SP", 3, 5, "", ""),
    ("id2", "a 1 * + - SP ! NA FF ,", 3, 4, "", ""),
    ("optid2", "a 1 * + - SP ! NA FF ,", 3, 4, "", ""),
    ("ref2", "a 1 * + - SP ! NA FF ,", 3, 4, "", ""),
    ("idlist2", "a b * + SP , NA", 4, 5, "", ""),
    ("reflist1", "A b + - , * = SP 1", 4, 5, "", ""),
    ("reflist2", "a b + - SP , *", 4, 5, "", ""),
    ("optint", "0 1 * + - _ SP $", 3, 5, "", ""),
    ("int2", "0 1 * + - _ SP . e", 3, 4, "", ""),
    ("len2", "0 1 * + - _ SP $", 3, 5, "", ""),
    ("customrt", "X x 1 S E L # * SP NA", 2, 3, "", ""),
    ("comment", "a SP # FF NA NL TAB", 3, 4, "", ""),
    ("generic", "a SP FF NA : NL", 3, 4, "", ""),
]

# valid strings per context, mutated at a single point by MC_Lex (boundary values of the B
# subtypes, every JSON construct, the longest forms of each grammar)
CATALOGUE = {
    "tag_i": ["0", "-12", "+7", "2147483648", "007"],
    "htag_i": ["5", "-12"],
    "tag_f": ["1.5", "-.5e-3", "+1E+10", "3", "0.0"],
    "htag_f": ["1.5e3"],
    "tag_Z": ["a b", "~!:", "x"],
    "htag_Z": ["a b"],
    "tag_A": ["x", "~"],
    "htag_A": ["x"],
    "tag_H": ["1AE3", "00", "FFFF"],
    "htag_H": ["1AE3"],
    "tag_B": ["c,127", "c,-128", "C,255", "C,0", "s,32767", "s,-32768", "S,65535", "i,2147483647",
              "i,-2147483648", "I,4294967295", "f,1.5,-2e3,.5", "c,1,-2,3", "I,+5"],
    "htag_B": ["c,1,-2", "f,1.5"],
    "tag_J": ['[1,{"k":2}]', '{"a":[true,false,null]}', '["a\\"b\\u00e9\\n"]', "[-1.5e+3,0,0.5]", "{}", "[]",
              '{"a":{"b":{}}}', "[ 1 , 2 ]"],
    "htag_J": ['[1,{"k":2}]', '{"a":"b"}'],
    "tagsyntax1": ["xx:i:1", "a1:Z:x y", "Zz:A:q", "LN:i:3", "ab:B:c,1", "ab:H:0F", "ab:J:[1]", "ab:f:.5"],
    "tagsyntax2": ["xx:i:1", "TS:i:5", "ab:Z:x"],
    "segname1": ["A", "seg_1.2", "a+b", "x,y", "!*="],
    "segname1_L": ["A", "a+b"],
    "pathname1": ["p1", "a,b+"],
    "seq1": ["*", "ACGTN", "acgt=.Y"],
    "seq2": ["*", "ACGT", "a!~*"],
    "orient": ["+", "-"],
    "aln1": ["*", "12M", "2M1D3M", "1=2X3N4S5H6P7I"],
    "aln2": ["*", "12M", "2M1D3I4P", "1,2,3", "10,0"],
    "alnlist1_2": ["*", "12M", "2M1D"],
    "alnlist1_3": ["*", "12M,3M", "2M1D,1I"],
    "alnlist1_1": ["*"],
    "alnlist1_4": ["*", "1M,2M,3M", "*,*,*", "*,*,*,*", "1M,*,1M"],
    "pos1": ["0", "12", "007"],
    "pos2_E": ["0", "12", "12$", "0$"],
    "pos2_F": ["3", "12$"],
    "id2": ["a", "seg-1", "1", "*x"],
    "optid2": ["*", "e1", "e+"],
    "ref2": ["a+", "seg1-", "a+-"],
    "idlist2": ["a", "a b c", "a+ 1"],
    "reflist1": ["A+", "A+,B-", "a1+,b2-,c3+"],
    "reflist2": ["a+", "a+ b-", "a+ e1- b+"],
    "optint": ["*", "0", "12", "-3"],
    "int2": ["0", "12", "-3"],
    "len2": ["0", "12", "007"],
    "customrt": ["X", "x", "Xy", "T1"],
    "comment": ["", " a comment", "x\ty"],
    "generic": ["a", "a b", "xx:i:1"],
}
REPS_QUICK = "0 A a * + , SP _ FF NA"
REPS_THOROUGH = '0 9 A a * + - , . SP _ : $ FF NA " [ DEL'

COMMON_TAGS = ["xx:i:1", "xx:Z:a", "yy:Z:a b", "x:i:1", "xxx:i:1", "1x:i:1", "x_:i:1", "xx:q:1", "xx:i:", "extra",
               "", "XX:i:1"]


def _rec(ver, rt, pos, tags):
    return dict(ver=ver, rt=rt, pos=[dict(good=g, bad=b) for g, b in pos], tags=COMMON_TAGS + tags)


# record types: per positional field (valid representatives, first = primary; invalid
# representatives), record-specific tag kinds (predefined with right / wrong type)
RECS = [
    _rec("gfa1", "H", [], ["VN:Z:1.0", "VN:i:1"]),
    _rec("gfa1", "S", [(["A", "a1"], ["*", "", "A B", "=x"]), (["*", "ACGT"], ["", "AC GT", "AC1", "*A"])],
         ["LN:i:4", "LN:Z:4", "SH:H:AB", "SH:i:1"]),
    _rec("gfa1", "L", [(["A"], ["*", ""]), (["+", "-"], ["*", "", "++"]), (["B"], [""]), (["+"], ["x"]),
                       (["*", "4M", "1M1I2M"], ["4", "M", "", "4m", "4M,"])],
         ["MQ:i:1", "MQ:Z:x", "ID:Z:l1", "ID:i:1"]),
    _rec("gfa1", "C", [(["A"], [""]), (["+"], ["+-"]), (["B"], ["="]), (["-", "+"], [""]),
                       (["0", "10"], ["-1", "", "1$", "x", "1.0"]), (["*", "4M"], ["4", ""])],
         ["NM:i:1", "NM:Z:x", "ID:Z:c1", "RC:Z:x", "MQ:Z:x"]),
    _rec("gfa1", "P", [(["p"], ["*x", "", "p q"]), (["A+,B+", "A+", "A+,B-,C+"], ["A", "A+,", "A+ B+", "", "+"]),
                       (["*", "4M", "*,4M", "*,*"], ["4M,4M,4M", "", "4M;4M", "x", "*,*,*", "*,*,*,*", "4M,*,*"])], []),
    _rec("gfa2", "H", [], ["VN:Z:2.0", "VN:i:2", "TS:i:100", "TS:Z:x"]),
    _rec("gfa2", "S", [(["a", "1"], ["", "a b"]), (["5", "0"], ["", "x", "5.0", "5$"]),
                       (["*", "ACGTA", "acg!"], ["", "A C"])], ["RC:Z:x"]),
    _rec("gfa2", "E", [(["*", "e1"], ["", "e 1"]), (["a+", "a-"], ["a", "", "a*", "+"]), (["b+"], ["b"]),
                       (["0", "2"], ["", "-1", "x", "2$$", "1.0"]), (["4$", "4"], ["$4", "4$ "]), (["0"], ["+"]),
                       (["2", "6$"], [""]), (["*", "2M", "1,2"], ["2X", "M", "2M,", "1,x", ""])],
         ["TS:i:10", "TS:Z:x"]),
    _rec("gfa2", "F", [(["a"], [""]), (["x+", "x-", "y+"], ["x"]), (["0"], ["a"]), (["2", "4$"], ["4$$"]), (["0"], [""]),
                       (["2"], ["2 "]), (["*", "2M"], ["2="])], ["TS:i:10", "TS:f:1.0"]),
    _rec("gfa2", "G", [(["g", "*"], [""]), (["a+"], ["a"]), (["b-"], ["-"]), (["10", "-5", "0"], ["", "x", "1.5", "1e2"]),
                       (["5", "*"], ["", "x", "**"])], []),
    _rec("gfa2", "O", [(["o", "*"], [""]), (["a+ b+", "a+", "a+ e1- b+"], ["a", "a+  b+", " a+", "a+ ", "a+,b+", ""])], []),
    _rec("gfa2", "U", [(["u", "*"], [""]), (["a b", "a", "a e1 g"], ["a  b", " a", "a ", ""])], []),
    _rec("gfa2", "X", [(["a", "a b"], ["a\nb"]), (["b"], [])], []),
]

# valid lines of every record type: mutated as whole texts (C07)
LINES = [
    ("gfa1", "H\tVN:Z:1.0"),
    ("gfa1", "S\tA\tACGT\tLN:i:4\txx:Z:a b"),
    ("gfa1", "S\tB\t*\taa:H:1AE3\tbb:f:1.5e3\tcc:A:x\tdd:B:f,1.5,2"),
    ("gfa1", "L\tA\t+\tB\t-\t2M1D1M\tID:Z:l1"),
    ("gfa1", "C\tA\t+\tB\t+\t1\t2M"),
    ("gfa1", "P\tp1\tA+,B+\t2M"),
    ("gfa1", "# a comment"),
    ("gfa2", "H\tVN:Z:2.0\tTS:i:100"),
    ("gfa2", "S\ta\t4\tACGT\txx:J:[1,{\"k\":2}]"),
    ("gfa2", "E\te1\ta+\tb-\t0\t2\t2\t4$\t1,2\tTS:i:5"),
    ("gfa2", "F\ta\tx+\t0\t2\t0\t2$\t2M"),
    ("gfa2", "G\tg1\ta+\tb-\t10\t*"),
    ("gfa2", "O\to1\ta+ e1+ b-"),
    ("gfa2", "U\tu1\ta e1 g1"),
    ("gfa2", "X\tcustom\tfield\tyy:B:c,1,-2"),
]
LREPS_QUICK = "TAB SP FF NA * $"
LREPS_THOROUGH = "TAB SP FF NA * $ 0 A + - , : NL XB NUL CR"
LBYTES = "XB NUL CR"        # bytes that are not text, placed in front of / behind every field of every valid line
LALPH = ("S H E P # X TAB * $ + 1 : SP", 3, 4)

# documents (version, dialect, lines) and single-line variants (doc index, op, k, line)
DOCS = [
    ("gfa1", "standard", ["S\tA\tACGT", "S\tB\t*\tLN:i:6", "S\tC\t*", "L\tA\t+\tB\t+\t2M", "L\tB\t+\tC\t-\t*",
                          "C\tA\t+\tB\t+\t1\t2M", "P\tp\tA+,B+\t2M", "P\tq\tA+,B+,C-\t*"]),
    ("gfa2", "standard", ["S\ta\t4\tACGT", "S\tb\t6\tACGTAC", "S\tc\t3\tACG", "E\te1\ta+\tb+\t2\t4$\t0\t2\t2M",
                          "E\t*\ta+\tc-\t0\t2\t1\t3$\t*", "G\tg\ta+\tb-\t10\t5", "F\ta\tx+\t0\t2\t0\t2\t*",
                          "O\to\ta+ e1+ b+", "U\tu\ta e1 g o"]),
    ("gfa1", "rgfa", ["S\ts1\tACG\tSN:Z:chr1\tSO:i:0\tSR:i:0", "S\ts2\t*\tSN:Z:chr1\tSO:i:3\tSR:i:0",
                      "L\ts1\t+\ts2\t+\t0M\tSR:i:0"]),
    ("gfa2", "rgfa", ["S\ta\t4\t*"]),
]
VARIANTS = [
    (1, "del", 3, ""), (1, "del", 1, ""), (1, "del", 4, ""),
    (1, "sub", 1, "S\tA\tACGT\tLN:i:4"), (1, "sub", 1, "S\tA\tACGT\tLN:i:5"), (1, "sub", 1, "S\tA\tACGT\tLN:i:3"),
    (1, "sub", 7, "P\tp\tA+,B+\t2M,1M"), (1, "sub", 7, "P\tp\tA+,B+\t2M,1M,1M"), (1, "sub", 7, "P\tp\tA+,Z+\t*"),
    (1, "sub", 7, "P\tp\tA+\t*"), (1, "add", 0, "P\tr\tZ+\t*"),
    (1, "sub", 8, "P\tq\tA+,B+,C-\t*,*,*,*"), (1, "sub", 8, "P\tq\tA+,B+,C-\t*,*"), (1, "sub", 7, "P\tp\tA+,B+\t*,*,*"),
    (1, "sub", 8, "P\tq\tA+,B+,C-\t*,*,*,*,*,*"), (1, "add", 0, "P\tr\tA+\t*,*"),
    (1, "sub", 4, "L\tA\t+\tZ\t+\t2M"), (1, "sub", 6, "C\tZ\t+\tB\t+\t1\t2M"), (1, "add", 0, "L\tC\t+\tA\t+\t*"),
    (1, "add", 0, "C\tA\t-\tC\t+\t0\t*"), (1, "add", 0, "# comment"), (1, "add", 0, "H\tVN:Z:1.0"),
    (2, "sub", 4, "E\te1\ta+\tb+\t3\t2\t0\t2\t2M"), (2, "sub", 4, "E\te1\ta+\tb+\t2\t4$\t3\t2\t2M"),
    (2, "sub", 4, "E\te1\ta+\tb+\t2\t3$\t0\t2\t2M"), (2, "sub", 4, "E\te1\ta+\tb+\t2\t4$\t0\t5$\t2M"),
    (2, "sub", 4, "E\te1\ta+\tb+\t2\t4$\t0\t6$\t2M"), (2, "sub", 4, "E\te1\ta+\tb+\t2\t4\t0\t2\t2M"),
    (2, "sub", 4, "E\te1\ta+\tb+\t4$\t4$\t0\t2\t2M"), (2, "sub", 4, "E\te1\ta+\tb+\t4$\t4\t0\t2\t2M"),
    (2, "sub", 4, "E\te1\ta+\tz+\t2\t4$\t0\t2\t2M"), (2, "sub", 4, "E\te1\tz-\tb+\t2\t4$\t0\t2\t2M"),
    (2, "sub", 6, "G\tg\ta+\tz-\t10\t5"), (2, "sub", 7, "F\tz\tx+\t0\t2\t0\t2\t*"),
    (2, "sub", 7, "F\ta\tx+\t0\t3$\t0\t2\t*"), (2, "sub", 7, "F\ta\tx+\t0\t4$\t0\t2\t*"),
    (2, "sub", 7, "F\ta\tx+\t3\t2\t0\t2\t*"), (2, "sub", 7, "F\tb\tx+\t0\t5$\t0\t2\t*"),
    (2, "sub", 8, "O\to\ta+ z+ b+"), (2, "sub", 9, "U\tu\ta z"), (2, "del", 4, ""), (2, "del", 6, ""),
    (2, "del", 2, ""), (2, "sub", 2, "S\tb\t6\t*"), (2, "sub", 2, "S\tb\t7\tACGTAC"), (2, "add", 0, "U\tv\tu o"), (2, "add", 0, "O\tw\to- c+"), (2, "add", 0, "X\tcustom\t1"),
    (3, "add", 0, "H\tVN:Z:1.0"), (3, "add", 0, "C\ts1\t+\ts2\t+\t0\t*"), (3, "add", 0, "P\tp\ts1+,s2+\t*"),
    (3, "sub", 1, "S\ts1\tACG\tSO:i:0\tSR:i:0"), (3, "sub", 1, "S\ts1\tACG\tSN:Z:chr1\tSR:i:0"),
    (3, "sub", 1, "S\ts1\tACG\tSN:Z:chr1\tSO:i:0"), (3, "sub", 1, "S\ts1\tACG\tSN:i:1\tSO:i:0\tSR:i:0"),
    (3, "sub", 1, "S\ts1\tACG\tSN:Z:chr1\tSO:Z:0\tSR:i:0"), (3, "sub", 1, "S\ts1\tACG\tSN:Z:chr1\tSO:i:0\tSR:f:0"),
    (3, "sub", 3, "L\ts1\t+\ts2\t+\t1M\tSR:i:0"), (3, "sub", 3, "L\ts1\t+\ts2\t+\t*\tSR:i:0"),
    (3, "sub", 3, "L\ts1\t+\ts2\t+\t0M\tSR:Z:x"), (3, "sub", 3, "L\ts1\t+\ts2\t+\t0M\tL1:Z:x"),
    (3, "sub", 3, "L\ts1\t+\ts2\t+\t0M\tL1:i:1\tL2:i:2"), (3, "sub", 3, "L\ts1\t+\ts2\t+\t0M"),
    (3, "add", 0, "# comment"),
]

# document templates for the cross-field rules (MC_Lex layer xdoc): lines, slots (line, field, alternatives with
# the valid primary first, context flag), arrival orders, number of non-context slots that may deviate at once.
# Which documents violate a rule is decided by Lex!DocVerdict, not here.
SEQ12, SEQ8 = "ACGTACGTACGT", "ACGTACGT"
_A_BEG, _A_END = ["4", "4$", "12$", "13", "0"], ["7", "12$", "11$", "3", "12", "13$", "7$"]
_B_BEG, _B_END = ["0", "3$", "8$", "6"], ["5", "5$", "8$", "8", "9$", "9"]
TEMPLATES = [
    # `$` only on the last position / begin <= end, E line, sid1 = a (12), sid2 = b (8); either sequence given or `*`
    dict(ver="gfa2", dia="standard", maxdev=2,
         lines=["S\ta\t12\t" + SEQ12, "S\tb\t8\t" + SEQ8, "E\te1\ta+\tb+\t4\t7\t0\t5\t*"],
         slots=[(1, 4, [SEQ12, "*"], 1), (2, 4, [SEQ8, "*"], 1),
                (3, 5, _A_BEG, 0), (3, 6, _A_END, 0), (3, 7, _B_BEG, 0), (3, 8, _B_END, 0)],
         orders=[[1, 2, 3], [3, 1, 2], [1, 3, 2], [2, 3, 1]]),
    # the same with the segments exchanged (sid1 = b reversed, sid2 = a) and an anonymous edge
    dict(ver="gfa2", dia="standard", maxdev=2,
         lines=["S\ta\t12\t" + SEQ12, "S\tb\t8\t" + SEQ8, "E\t*\tb-\ta+\t0\t5\t4\t7\t*"],
         slots=[(1, 4, [SEQ12, "*"], 1), (2, 4, [SEQ8, "*"], 1),
                (3, 5, _B_BEG, 0), (3, 6, _B_END, 0), (3, 7, _A_BEG, 0), (3, 8, _A_END, 0)],
         orders=[[1, 2, 3], [3, 1, 2], [1, 3, 2], [2, 3, 1]]),
    # F line: s_beg / s_end on the segment, f_beg / f_end on the external sequence
    dict(ver="gfa2", dia="standard", maxdev=2,
         lines=["S\ta\t12\t" + SEQ12, "F\ta\tx+\t4\t7\t0\t2\t*"],
         slots=[(1, 4, [SEQ12, "*"], 1), (2, 4, _A_BEG, 0), (2, 5, _A_END, 0), (2, 6, ["0", "3"], 0),
                (2, 7, ["2", "2$"], 0)],
         orders=[[1, 2], [2, 1]]),
    # LN equals the sequence length
    dict(ver="gfa1", dia="standard", maxdev=2,
         lines=["S\tA\tACGT\tLN:i:4", "S\tB\t*\tLN:i:6", "L\tA\t+\tB\t+\t*"],
         slots=[(1, 3, ["ACGT", "*", "ACGTA"], 0),
                (1, 4, ["LN:i:4", "LN:i:5", "LN:i:3", "LN:i:+4", "LN:i:04", "LN:i:0", "LN:i:-4"], 0),
                (2, 4, ["LN:i:6", "LN:i:0", "LN:i:-1"], 0)],
         orders=[[1, 2, 3], [3, 1, 2], [2, 3, 1]]),
    # number of overlaps of a path
    dict(ver="gfa1", dia="standard", maxdev=2,
         lines=["S\tA\t*", "S\tB\t*", "S\tC\t*", "L\tA\t+\tB\t+\t1M", "L\tB\t+\tC\t+\t1M",
                "P\tp\tA+,B+,C+\t1M,1M"],
         slots=[(6, 3, ["A+,B+,C+", "A+,B+", "A+"], 0),
                (6, 4, ["1M,1M", "*", "1M", "1M,1M,1M", "*,*", "1M,1M,1M,1M", "*,*,*", "*,*,*,*", "*,*,*,*,*", "*,1M",
                        "1M,*", "*,1M,*,*", "1M,*,*,*,*"], 0)],
         orders=[[1, 2, 3, 4, 5, 6], [6, 1, 2, 3, 4, 5], [1, 2, 3, 6, 4, 5], [4, 5, 6, 1, 2, 3]]),
    # the same on a ring of four segments whose links leave the overlap unspecified: every number of `*`
    dict(ver="gfa1", dia="standard", maxdev=2,
         lines=["S\ta\t*", "S\tb\t*", "S\tc\t*", "S\td\t*", "L\ta\t+\tb\t+\t*", "L\tb\t+\tc\t+\t*",
                "L\tc\t+\td\t+\t*", "L\td\t+\ta\t+\t*", "P\tp1\ta+,b+,c+,d+\t*"],
         slots=[(9, 3, ["a+,b+,c+,d+", "a+,b+,c+", "a+,b+", "a+", "d+,a+,b+,c+,d+"], 0),
                (9, 4, ["*", "*,*", "*,*,*", "*,*,*,*", "*,*,*,*,*", "*,*,*,*,*,*", "*,*,*,*,*,*,*", "4M,*,4M", "4M,4M",
                        "4M,4M,4M,4M,4M", "*,4M", "*,*,*,*,4M,*"], 0)],
         orders=[[1, 2, 3, 4, 5, 6, 7, 8, 9], [9, 5, 6, 7, 8, 1, 2, 3, 4], [1, 2, 9, 5, 6, 3, 4, 7, 8]]),
    # referenced identifiers defined, GFA1
    dict(ver="gfa1", dia="standard", maxdev=2,
         lines=["S\tA\t*", "S\tB\t*", "L\tA\t+\tB\t+\t*", "C\tA\t+\tB\t-\t0\t*", "P\tp\tA+,B+\t*"],
         slots=[(3, 2, ["A", "Z"], 0), (3, 4, ["B", "Z"], 0), (4, 2, ["A", "Z"], 0), (4, 4, ["B", "Z"], 0),
                (5, 3, ["A+,B+", "A+,Z+", "Z+", "Z+,A+"], 0)],
         orders=[[1, 2, 3, 4, 5], [5, 4, 3, 2, 1], [3, 4, 5, 1, 2], [1, 3, 2, 4, 5]]),
    # referenced identifiers defined, GFA2 (segments of E / G / F, items of O / U)
    dict(ver="gfa2", dia="standard", maxdev=1,
         lines=["S\ta\t4\tACGT", "S\tb\t4\tACGT", "E\te1\ta+\tb+\t0\t2\t0\t2\t*", "G\tg\ta+\tb-\t10\t5",
                "F\ta\tx+\t0\t2\t0\t2\t*", "O\to\ta+ e1+ b+", "U\tu\ta e1 g o"],
         slots=[(3, 3, ["a+", "z+"], 0), (3, 4, ["b+", "z-"], 0), (4, 3, ["a+", "z+"], 0), (4, 4, ["b-", "z+"], 0),
                (5, 2, ["a", "z"], 0), (6, 3, ["a+ e1+ b+", "a+ z+", "z-", "a+ e1+ z+"], 0),
                (7, 3, ["a e1 g o", "a z", "z", "o z g"], 0)],
         orders=[[1, 2, 3, 4, 5, 6, 7], [7, 6, 5, 4, 3, 2, 1], [3, 4, 5, 6, 7, 1, 2], [7, 6, 1, 3, 2, 4, 5]]),
    # a record that mentions the same line twice or more, in EVERY arrival order of the document (the mentions are
    # forward references whenever the record arrives first): items of O / U groups (segments and an edge) ...
    dict(ver="gfa2", dia="standard", maxdev=1, orders="all",
         lines=["S\ta\t10\t*", "S\tb\t10\t*", "E\te1\ta+\tb+\t5\t10$\t0\t5\t*", "O\to1\ta+ b+ a+", "U\tu1\te1 a e1"],
         slots=[(4, 3, ["a+ b+ a+", "a+ a+", "a- b+ a+ b- a+", "a+ b+", "a+ z+ a+", "b+ b+ b+"], 0),
                (5, 3, ["e1 a e1", "e1 e1", "a e1 a b a", "e1 a", "e1 z e1", "o1 a o1"], 0)]),
    # ... and the segments / the links of a GFA1 path that goes through one link twice
    dict(ver="gfa1", dia="standard", maxdev=1, orders="all",
         lines=["S\ta\t*", "S\tb\t*", "L\ta\t+\tb\t+\t1M", "L\tb\t+\ta\t+\t1M", "P\tp\ta+,b+,a+,b+\t1M,1M,1M"],
         slots=[(5, 3, ["a+,b+,a+,b+", "a+,b+,a+", "b+,a+,b+,a+", "a+,b+", "a+,z+,a+,b+"], 0),
                (5, 4, ["1M,1M,1M", "*", "1M,1M", "1M,1M,1M,1M,1M"], 0)]),
    # circular paths (as many overlaps as segments): pairwise different overlaps, a link for every junction; the
    # closing junction's overlap, a link's overlap, the rotation of the segments may deviate (near misses)
    dict(ver="gfa1", dia="standard", maxdev=1, orders="all",
         lines=["S\ta\t*", "S\tb\t*", "L\ta\t+\tb\t+\t4M", "L\tb\t+\ta\t+\t6M", "P\tq\ta+,b+\t4M,6M"],
         slots=[(5, 3, ["a+,b+", "b+,a+", "a+,b+,a+", "a+"], 0),
                (5, 4, ["4M,6M", "6M,4M", "4M,4M", "4M", "4M,6M,4M", "*", "04M,6M", "4M,3M3M"], 0),
                (4, 6, ["6M", "4M", "4M1I", "*"], 0), (3, 6, ["4M", "6M"], 0)]),
    dict(ver="gfa1", dia="standard", maxdev=2,
         lines=["S\ta\t*", "S\tb\t*", "S\tc\t*", "L\ta\t+\tb\t+\t1M", "L\tb\t+\tc\t+\t2M", "L\tc\t+\ta\t+\t3M",
                "P\tp\ta+,b+,c+\t1M,2M,3M"],
         slots=[(7, 3, ["a+,b+,c+", "b+,c+,a+", "c+,a+,b+", "a+,b+", "a+,c+,b+"], 0),
                (7, 4, ["1M,2M,3M", "1M,2M,2M", "1M,2M", "2M,3M,1M", "3M,1M,2M", "1M,2M,3M,1M", "*", "1M,2M,1M"], 0),
                (6, 6, ["3M", "2M", "1M", "*"], 0), (5, 6, ["2M", "3M"], 0), (6, 4, ["a", "b"], 0)],
         orders=[[1, 2, 3, 4, 5, 6, 7], [1, 2, 3, 7, 4, 5, 6], [7, 4, 5, 6, 1, 2, 3], [7, 6, 5, 4, 3, 2, 1], [4, 5, 7, 6, 1, 2, 3],
                 [6, 7, 1, 2, 3, 4, 5], [1, 2, 3, 4, 7, 5, 6], [3, 6, 2, 5, 7, 1, 4]]),
    # a circular path over one segment (self link)
    dict(ver="gfa1", dia="standard", maxdev=2, orders="all",
         lines=["S\ta\t*", "L\ta\t+\ta\t+\t5M", "P\tr\ta+\t5M"],
         slots=[(3, 4, ["5M", "4M", "*", "5M,5M"], 0), (2, 6, ["5M", "*", "4M"], 0), (3, 3, ["a+", "a+,a+", "a-"], 0)]),
    # a character that some text functions treat as a line boundary (lone CR, VT, FF, FS, GS, RS, NEL, LS, PS; US and
    # a no-break space for contrast) between two texts that are each a valid line: ONE line for the grammar, whose
    # field contains a character no datatype allows
    dict(ver="gfa1", dia="standard", maxdev=1,
         lines=["S\ta\t*", "S\tb\t*\x0cS\tc\t*", "L\ta\t+\tb\t+\t*\txx:Z:one\x0cS\td\t*"],
         slots=[(2, 3, ["*" + ch + "S" for ch in "\x0c\r\x0b\x1c\x1d\x1e\x85\u2028\u2029\x1f\xa0"], 0),
                (3, 7, ["xx:Z:one" + ch + "S" for ch in "\x0c\r\x0b\x1c\x1d\x1e\x85\u2028\u2029\x1f\xa0"], 0)],
         orders=[[1, 2, 3], [3, 2, 1]]),
    dict(ver="gfa2", dia="standard", maxdev=1,
         lines=["S\ta\t4\t*", "S\tb\t4\tACGT\x0cS\tc\t4\t*", "# comment\x0cS\td\t4\t*"],
         slots=[(2, 4, ["ACGT" + ch + "S" for ch in "\x0c\r\x0b\x1c\x1d\x1e\x85\u2028\u2029\x1f\xa0"], 0)],
         orders=[[1, 2, 3], [2, 3, 1]]),
    # rGFA restrictions
    dict(ver="gfa1", dia="rgfa", maxdev=2,
         lines=["S\ts1\tACG\tSN:Z:chr1\tSO:i:0\tSR:i:0", "S\ts2\t*\tSN:Z:chr1\tSO:i:3\tSR:i:0",
                "L\ts1\t+\ts2\t+\t0M\tSR:i:0"],
         slots=[(1, 4, ["SN:Z:chr1", "SN:i:1", "sn:Z:x"], 0), (1, 5, ["SO:i:0", "SO:Z:0", "so:i:0"], 0),
                (1, 6, ["SR:i:0", "SR:f:0", "sr:i:0"], 0), (3, 4, ["s2", "zz"], 0),
                (3, 6, ["0M", "1M", "*", "0M1M"], 0), (3, 7, ["SR:i:0", "SR:Z:x", "L1:i:1", "L1:Z:x", "L2:f:1"], 0)],
         orders=[[1, 2, 3], [3, 2, 1], [2, 3, 1]]),
]


def _hub(defined, referrers, sizes, rotations, last=False):
    out = []
    n = len(referrers)
    for k in sizes:
        for r in rotations:
            ref = (referrers[r % n:] + referrers[:r % n])[:k]
            out.append("\n".join(ref + defined if last else defined + ref))
    return out


def hub_texts():
    """Documents in which ONE undefined identifier is referred to by few / exactly 10 / more than 10 lines of mixed
    types (named and unnamed), in every rotation of the referrers, so that each kind of line is among the first ten
    and among the surplus: every message-building path of Gfa.validate() is reached with few and many referrers."""
    seg1 = ["S\tA\t*", "S\tB\t*", "S\tC\t*"]
    ref1 = ["L\tA\t+\tZ\t+\t*", "L\tA\t-\tZ\t+\t*\tID:Z:l1", "L\tB\t+\tZ\t-\t*", "L\tZ\t+\tB\t-\t*\tID:Z:l2",
            "L\tC\t+\tZ\t+\t*", "L\tZ\t-\tC\t+\t*", "C\tA\t+\tZ\t+\t0\t*", "C\tZ\t+\tB\t+\t0\t*\tID:Z:c1",
            "C\tC\t-\tZ\t-\t0\t*", "P\tp1\tA+,Z+\t*", "P\tp2\tZ+\t*", "P\tp3\tB+,Z-\t*", "P\tp4\tC+,Z+\t*"]
    seg2 = ["S\ta\t4\t*", "S\tb\t4\t*"]
    ref2 = ["E\t*\ta+\tz+\t0\t2\t0\t2\t*", "E\te2\tb+\tz-\t0\t2\t0\t2\t*", "E\t*\tz+\ta-\t0\t2\t0\t2\t*",
            "E\te4\tz-\tb+\t0\t2\t0\t2\t*", "G\t*\ta+\tz+\t10\t5", "G\tg2\tz-\tb+\t10\t*", "G\t*\tb-\tz-\t3\t1",
            "F\tz\tx+\t0\t2\t0\t2\t*", "F\tz\ty-\t0\t2\t0\t2\t*", "O\to1\ta+ z+", "O\t*\tz- b+", "U\tu1\ta z", "U\t*\tz b"]
    item = ["U\tu1\ta q", "U\t*\tq", "U\tu3\tq b", "U\t*\tb q a", "O\to1\ta+ q+", "O\t*\tq-", "O\to3\tq+ b-",
            "O\t*\tb+ q+", "U\tu5\tq u1", "O\to5\tq+ a+", "U\t*\tq a b", "O\t*\ta- q-", "U\tu7\ta b q"]
    paths = ["P\tp%d\tA+,B+\t*" % i for i in range(1, 13)]
    plinks = ["P\tq%d\tA+,B+,C-\t*" % i for i in range(1, 13)]
    rg = ["S\ts%d\t*\tSN:Z:c\tSO:i:%d\tSR:i:0" % (i, i) for i in range(1, 13)]
    out = []
    for seg, ref in ((seg1, ref1), (seg2, ref2), (seg2, item)):
        out += _hub(seg, ref, (11, 12, 13), range(13))
        out += _hub(seg, ref, (13,), range(0, 13, 3), last=True)
        out += _hub(seg, ref, (1, 3, 10), (0, 4, 8))
    out += _hub(seg1[:2], paths, (2, 10, 11, 12), (0,))                     # a missing link required by few / many paths
    out += _hub(seg1 + ["L\tA\t+\tB\t+\t*"], plinks, (2, 11, 12), (0,))     # one of two links missing
    out += _hub(seg1[:2] + ["L\tA\t+\tB\t+\t*"], paths, (12,), (0,))          # nothing missing: must load
    out += ["\n".join(rg[:k] + x) for k in (2, 12) for x in (
        ["L\ts1\t+\ts2\t+\t0M"], ["L\ts1\t+\ts2\t+\t1M"], ["L\ts1\t+\tzz\t+\t0M"], ["H\tVN:Z:1.0"], ["S\tx\t*"],
        ["S\tx\t*\tSN:i:1\tSO:i:0\tSR:i:0"], ["P\tp\ts1+,s2+\t*"], ["C\ts1\t+\ts2\t+\t0\t*"])]
    # `$` on a non-last position of a segment that many edges / fragments refer to
    e12 = ["E\t*\ta+\tb+\t0\t2\t0\t%d\t*" % i for i in range(1, 4)] * 4
    out += ["\n".join(["S\ta\t4\tACGT", "S\tb\t4\tACGT"] + e12[:k] + [bad]) for k in (1, 12) for bad in (
        "E\t*\ta+\tb+\t0\t3$\t0\t2\t*", "E\tx\tb+\ta-\t0\t2\t1\t3$\t*", "F\ta\tx+\t0\t3$\t0\t2\t*")]
    return out


# whole documents / odd texts offered as they are (C07)
TEXTS = ["", "\n", " ", "\t", "\n\n", "S\tA\t*\n", "S\tA\t*\n\nS\tB\t*", "S\tA\t*\r\n", "S\tA\t*\r\nS\tB\t*\r\n",
         "H\txx:i:1\nH\txx:i:2\nH\txx:i:3", "H\txx:i:1\nH\txx:i:2", "P\tp\tA+\t*", "P\tp\tA+,B+\t*",
         "S\tA\t*\nP\tp\tA+\t*", "$", "*", "S", "S\t", "H\tVN:Z:3.0", "H\tVN:Z:1.0\nH\tVN:Z:2.0",
         "S\tA\t*\nS\tA\t*", "E\t*\ta+\tb+\t0\t$\t0\t2\t*", "S\tA\t*\txx:J:{", "S\tA\t*\txx:J:" + "[" * 3000,
         "S\tA\t*\txx:J:" + "[" * 3000 + "]" * 3000, "S\tA\t*\txx:Z:" + "a" * 100000,
         "U\tu1\tu2 a\nU\tu2\tu1", "O\to1\to2+\nO\to2\to1+", "U\tu1\tu1", "S\ta\t4\t*\nF\ta\tx+\t0\t2\t0\t2\t*\tVN:Z:1",
         "L\tA\t+\tB\t+\t*\nE\t*\ta+\tb+\t0\t2\t0\t2\t*", "S\tA\t*\nS\ta\t4\t*", "\x00", "S\tA\t*\x00", NONASCII,
         "#", "#\t\t\t", "X", "X\t", "\tS\tA\t*", " S\tA\t*",
         # files / strings that are not UTF-8 text: a Latin-1 byte in a tag, a lone 0xFF, a UTF-16 byte order mark,
         # a truncated multi-byte sequence, undecodable bytes in a comment, a name, a sequence
         "S\tA\t*\txx:Z:caf\udce9", BADBYTE, "\udcff\udcfeS\tA\t*", "S\tA\t*\txx:Z:\udcc3", "# " + BADBYTE + "\nS\tA\t*",
         "S\t" + BADBYTE + "\t*", "S\tA\tAC" + BADBYTE, "S\tA\t*\n" + BADBYTE + "\n", "H\tVN:Z:1.0" + BADBYTE,
         # lone CR (a line break for a file opened with universal newlines, a character for the string entry points), NUL
         "\r", "S\tA\t*\r", "S\tA\t*\rS\tB\t*", "S\tA\t*\rS\tA\t*", "S\tA\t*\r\r\nS\tB\t*", "\rS\tA\t*", "S\tA\r\t*",
         "S\tA\t*\x00\nS\tB\t*", "\x00\n\x00", "S\tA\t*\n\x00",
         # a line break where the record type should be, offered as ONE line (add_line): gfapy's internal record type of
         # unknown lines
         "\n\ta", "\n\tVN:Z:1.0", "\n\ta\tb\txx:i:1"]

# strings passed to the string-taking API (C07)
API_IDS = ["A", "a", "l1", "e1", "p", "o", "u", "g", "zz", "*", "", " ", "A+", "A,B", "a b", "\t", "\n", NONASCII,
           "A" * 5000, "+", "-", "$", "0", "1", "-1", "None", "%s", "{}", "co", "1" * 5000, BADBYTE]
API_DOCS = [("gfa1", "S\tA\tACGT\nS\tB\t*\nL\tA\t+\tB\t+\t2M\tID:Z:l1\nC\tA\t+\tB\t-\t0\t*\nP\tp\tA+,B+\t2M\nH\txx:i:1\n# c"),
            ("gfa2", "S\ta\t4\tACGT\nS\tb\t6\t*\nE\te1\ta+\tb+\t2\t4$\t0\t2\t2M\nG\tg\ta+\tb-\t10\t5\nF\ta\tx+\t0\t2\t0\t2\t*\n"
                     "O\to\ta+ e1+ b+\nU\tu\ta e1 g o\nX\tcustom\t1\nH\txx:i:1")]
API_LINES = [("gfa1", "S\tA\tACGT\tLN:i:4\txx:Z:a b"), ("gfa1", "L\tA\t+\tB\t-\t2M\tID:Z:l1"), ("gfa1", "P\tp\tA+,B+\t2M"),
             ("gfa1", "H\tVN:Z:1.0\txx:i:1"), ("gfa1", "# c"), ("gfa2", "S\ta\t4\tACGT"),
             ("gfa2", "E\te1\ta+\tb+\t2\t4$\t0\t2\t2M\tTS:i:5"), ("gfa2", "G\tg\ta+\tb-\t10\t*"),
             ("gfa2", "U\tu\ta b"), ("gfa2", "X\tcustom\t1\txx:i:1")]
# field names: the line's own first / last positional field and first tag (resolved on the line), an
# undefined well-formed tag, predefined tags, the `name` alias, "*", "" and malformed names
API_FIELDS = ["@first", "@last", "@tag", "zz", "LN", "VN", "TS", "ID", "name", "*", "", "x", "xxx", "1x", "x_", "na me",
              NONASCII, "\t", "a" * 300]
API_VALUES = ["1", "abc", "", "*", "a\tb", "a\nb", NONASCII, "1_0", "+", "A+,B+", "2M", "[1]", "{", "5$", "$", "1" * 5000,
              "1" * 5000 + "M", BADBYTE]
API_DTYPES = ["i", "Z", "J", "H", "B", "f", "A", "q", "", "ii", "position_gfa2", "generic"]


# header lines with one tag (MC_Lex layer hdr): predefined header tags x every datatype letter x values of every
# datatype; PRE / SUF: alone, behind a line that waits for the version decision, with a second tag, before a segment
HDR = dict(names=["VN", "TS"], types=list("AifZJHB"),
           values=["1.0", "2.0", "1", "100", "1A", "a", "[1]", '["1.0"]', '{"v":1}', "{}", "c,1", "f,1.0,2.0", "C,2,0", ""],
           pre=["", "L\tA\t+\tB\t+\t*\n", "# c\nX\tcustom\trecord\n"],
           suf=["", "\txy:Z:other", "\nS\ta\t1\t*"])

# API histories (MC_Lex layer hist).  Documents in which every record type is connected, fragments share an external
# sequence, edges / gaps / groups are group items; `seg` is the segment everything hangs on (tail operation rmseg).
HIST_DOCS = [
    dict(ver="gfa1", seg="A", lines=["S\tA\tACGT", "S\tB\t*", "S\tC\t*", "L\tA\t+\tB\t+\t2M\tID:Z:l1",
                                     "L\tB\t+\tC\t-\t*", "C\tA\t+\tB\t-\t0\t*\tID:Z:c1", "P\tp\tA+,B+\t2M", "# c"]),
    dict(ver="gfa2", seg="a", lines=["S\ta\t4\tACGT", "S\tb\t6\t*", "E\te1\ta+\tb+\t2\t4$\t0\t2\t2M",
                                     "G\tg\ta+\tb-\t10\t5", "F\ta\tx+\t0\t2\t0\t2\t*", "F\ta\tx-\t1\t3\t0\t2\t*",
                                     "F\tb\ty+\t0\t2\t0\t2\t*", "O\to\ta+ e1+ b+", "U\tu\ta e1 g o",
                                     "X\tcustom\t1\txx:i:1", "# c"]),
    # identifiers that are the character `*` where it is NOT a placeholder: the ID tag of links / containments,
    # a GFA2 segment, (at level 0) a GFA1 segment and a path; lines that depend on them
    dict(ver="gfa1", seg="a", lines=["S\ta\tACGT", "S\tb\tACGT", "S\tc\tACGT", "L\ta\t+\tb\t+\t2M\tID:Z:*",
                                     "L\tb\t+\tc\t-\t*", "C\ta\t+\tc\t+\t0\t4M\tID:Z:*", "P\tp\ta+,b+\t2M"]),
    dict(ver="gfa2", seg="b", lines=["S\t*\t4\tACGT", "S\tb\t4\tACGT", "E\te1\tb+\tb-\t2\t4$\t2\t4$\t2M",
                                     "E\te2\t*+\tb+\t0\t2\t0\t2\t*", "F\t*\tx+\t0\t2\t0\t2\t*", "U\tu\t* e2"]),
    dict(ver="gfa1", seg="b", lines=["S\t*\tACGT", "S\tb\t*", "L\t*\t+\tb\t+\t*", "P\t*\t*+,b+\t*"]),
]
HIST_VALUES = ["zz", "zz+", "*", "", "1"]
HIST_SETTERS = ["set", "attr"]           # line.set(fieldname, value) / line.<fieldname> = value
# operations after the assignment: rm = gfa.rm(line), disc = line.disconnect(), rmseg = gfa.rm(<seg>),
# validate = gfa.validate(), lvalidate = line.validate(), str = str(gfa), lstr = str(line), get = line.get(field),
# back = line.set(field, <the old text of the field>)
# tails of the histories without assignment: operations on the identifier. delid = line.delete("ID"),
# unsetid = line.set("ID", None), setid = line.set("ID", "x9"), rename = line.set(<name field>, "x9") (lines with a name)
HIST_TAILS0 = [["rm", "str", "validate"], ["disc", "str"], ["rmseg", "str", "validate"], ["delid", "str", "rmseg"],
               ["unsetid", "validate", "disc"], ["setid", "str", "rm"], ["rename", "str", "validate", "rmseg"]]
HIST_TAILS = [["rm", "str"], ["disc", "str"], ["rmseg", "str"], ["validate", "lvalidate", "str", "lstr"],
              ["get", "back", "rm", "str"], ["str", "rmseg", "validate"]]


# removal histories on nested groups (MC_Lex layer nest; the documents are built by TLC): operations as in HIST_TAILS,
# rmid = gfa.rm(<identifier of the line>)
# computing calls (made where the class of the line has them): captured_path / captured_segments / captured_edges
# (O), induced_set (U), to_gfa1_s of the line, gto_gfa1_s / gto_gfa1 = conversion of the whole Gfa
NEST_TAILS = [["rmid", "str", "validate"], ["rm", "str"], ["disc", "str", "validate"], ["validate", "lvalidate", "str", "lstr"],
              ["captured_path", "captured_segments", "captured_edges", "induced_set", "to_gfa1_s", "gto_gfa1_s", "gto_gfa1",
               "str", "rmid"]]

# version queue (MC_Lex layer queue): lines that wait for the version decision, a line that is refused in some of the
# contexts, a decider.  Which combination is refused for which reason is not stated here: only the result classes count.
QUEUE = dict(
    q=["L\ta\t+\tb\t+\t*", "P\tp\ta+,b+\t*", "C\ta\t+\tb\t+\t0\t*", "L\ta\t+\tb\t-\t10M\nP\tp\ta+,b-\t10M",
       "P\tp\ta+,b+\t*\nL\ta\t+\tb\t+\t*", "X\tcustom\n# c\nL\ta\t+\tb\t+\t*",
       "L\ta\t+\tb\t+\t2M\tID:Z:*\nC\ta\t+\tb\t+\t0\t4M\tID:Z:x"],
    bad=["L\ta\t+\tb\t+", "C\ta\t+\tb\t+\tx\t*", "P\tp\tb+,c+\t*", "L\ta\t+\tb\t+\t*", "P\tx\ta+,b+\t*",
         "E\t*\ta+\tb+\t0\t2\t0\t2\t*", "S\ta", "L\ta\t+\tb\t+\t*\txx:i:x", "P\tp\ta+\t*,*", "H\tVN:Z:3.0",
         "S\ta\t*\tLN:i:x", "L\tb\t+\ta\t+\t2M\tID:Z:x"],
    dec=["S\ta\t*", "S\tx\t*", "S\tp\t*", "H\tVN:Z:1.0", "", "S\ta\t*\nS\tb\t*", "H\tVN:Z:2.0", "S\ta\t1\t*"])

# over-long records (MC_Lex layer long): (character, length of the run that replaces a field)
# (prefix, character, length of the run, suffix): the field (value of a tag) becomes prefix + run + suffix
LONGS = [("", "1", 5000, ""), ("", "A", 5000, ""), ("", "1", 5000, "M"), ("", "1", 5000, "$"), ("", "1", 5000, "+"),
         ("1,", "1", 5000, ""), ("c,", "1", 5000, ""), ("[", "1", 5000, "]"), ("", "0", 5000, "1")]


# ---------------------------------------------------------------------------------------------
# catalogue file for MC_Lex

def _chars(s):
    return list(s)


def alphabet_sizes(tier, shorter=0):
    """index in ALPHABETS -> number of strings enumerated for it"""
    q = tier == "quick"
    out = {}
    for i, (name, syms, nq, nt, pre, suf) in enumerate(ALPHABETS):
        n = nq if q else nt
        if n <= 0:
            continue
        n = max(1, n - shorter)
        k = len(_syms(syms))
        out[i] = sum(k ** j for j in range(n + 1))
    return out


def slices(tier, layers, shorter=0, limit=250000):
    """Split the work into batches that fit in memory: [(layers, alphabet indices or None)]"""
    rest = tuple(l for l in layers if l != "enum")
    out = []
    if "enum" in layers:
        cur, tot = [], 0
        for i, n in sorted(alphabet_sizes(tier, shorter).items(), key=lambda x: -x[1]):
            if cur and tot + n > limit:
                out.append((("enum",), cur))
                cur, tot = [], 0
            cur.append(i)
            tot += n
        if cur:
            out.append((("enum",), cur))
    if rest:
        if len(out) == 1:
            out = [(("enum",) + rest, out[0][1])]
        else:
            out.append((rest, None))
    return out


def build_catalog(tier, layers, shorter=0, only=None):
    """shorter: subtract from every enumeration bound (C07 re-uses the C04 enumeration one symbol shorter);
    only: indices into ALPHABETS to enumerate in this batch (None = all)"""
    q = tier == "quick"
    ctx = [dict(name=c["name"], ver=c["ver"], dt=c["dt"], fields=[_chars(f) for f in c["fields"]], hole=c["hole"],
                fpre=_chars(c["fpre"])) for c in CONTEXTS]
    alph = []
    for ai, (name, syms, nq, nt, pre, suf) in enumerate(ALPHABETS):
        n = (nq if q else nt)
        if n <= 0 or (only is not None and ai not in only):
            continue
        n = max(1, n - shorter)
        alph.append(dict(ctx=CTX_IDX[name], pre=_chars(pre), suf=_chars(suf), syms=[_chars(s) for s in _syms(syms)], n=n))
    cat = [dict(ctx=CTX_IDX[name], s=_chars(s)) for name, ss in CATALOGUE.items() for s in ss]
    reps = _syms(REPS_QUICK if q else REPS_THOROUGH)
    recs = [dict(ver=r["ver"], rt=_chars(r["rt"]),
                 pos=[dict(good=[_chars(x) for x in p["good"]], bad=[_chars(x) for x in p["bad"]]) for p in r["pos"]],
                 tags=[_chars(t) for t in r["tags"]], ntag=2 if q else 3) for r in RECS]
    lines = [dict(ver=v, f=[_chars(f) for f in t.split("\t")]) for v, t in LINES]
    lsy, lnq, lnt = LALPH
    docs = [dict(ver=v, dia=d, lines=[[_chars(f) for f in ln.split("\t")] for ln in ls]) for v, d, ls in DOCS]
    variants = [dict(doc=d, op=op, k=k, f=[_chars(f) for f in ln.split("\t")] if ln else []) for d, op, k, ln in VARIANTS]
    allc = set("\t\nH:")
    def walk(x):
        if isinstance(x, str):
            allc.update(x)
        elif isinstance(x, dict):
            for v in x.values():
                walk(v)
        elif isinstance(x, list):
            for v in x:
                walk(v)
    lreps = _syms(LREPS_QUICK if q else LREPS_THOROUGH)
    templates = []
    for t in TEMPLATES:
        tl = [ln.split("\t") for ln in t["lines"]]
        for li, fi, alts, cx in t["slots"]:
            if tl[li - 1][fi - 1] != alts[0]:
                raise MachineryError("template slot %r: primary %r is not the text of the line" % ((li, fi), alts[0]))
        orders = t["orders"] if t["orders"] != "all" else [list(o) for o in itertools.permutations(range(1, len(tl) + 1))]
        templates.append(dict(ver=t["ver"], dia=t["dia"], maxdev=t["maxdev"], orders=orders,
                              lines=[[_chars(f) for f in ln] for ln in tl],
                              slots=[dict(line=li, field=fi, alts=[_chars(a) for a in alts], ctx=cx)
                                     for li, fi, alts, cx in t["slots"]]))
    hdr = {k: [_chars(x) for x in v] for k, v in HDR.items()}
    api = dict(docs=[dict(ver=d["ver"], assign=1 if di < 2 else 0, lines=[[_chars(f) for f in ln.split("\t")] for ln in d["lines"]]) for di, d in enumerate(HIST_DOCS)],
               values=[_chars(v) for v in HIST_VALUES], nsetters=len(HIST_SETTERS), tails=HIST_TAILS, tails0=HIST_TAILS0)
    data = dict(ctx=ctx, alph=alph, cat=cat, reps=reps, recs=recs, lines=lines, lreps=lreps, templates=templates,
                hdr=hdr, api=api, nest=dict(tails=NEST_TAILS, leadtails=[1, 5]), queue={k: [_chars(x) for x in v] for k, v in QUEUE.items()},
                longs=[dict(pre=_chars(a), sym=c, n=n, suf=_chars(b)) for a, c, n, b in LONGS],
                lbytes=_syms(LBYTES),
                lalph=dict(syms=[_chars(s) for s in _syms(lsy)], n=lnq if q else lnt), docs=docs, variants=variants,
                layers=list(layers))
    walk(data)
    data["chars"] = sorted(allc)
    return data


MC_CFG = "SPECIFICATION Spec\nCONSTRAINT Emit\nCHECK_DEADLOCK FALSE\n"


CF_RE = None


def generate(tier, layers, name, shorter=0, only=None):
    """Run MC_Lex; returns (cases, tlc stats, verdict histogram). A case is a dict with kind f/l/d/t."""
    import re
    wd = tlc.workdir(name)
    data = build_catalog(tier, layers, shorter, only)
    cf = os.path.join(wd, "lexcat.json")
    with open(cf, "w") as f:
        json.dump(data, f)
    rc, out = tlc.run_tlc("MC_Lex", MC_CFG, wd, env={"LEX_FILE": cf}, workers=max(1, min(tlc.NCPU, 8)), heap="4g")
    if rc != 0 or "No error has been found" not in out:
        raise MachineryError("MC_Lex failed:\n" + "\n".join(out.splitlines()[-40:]))
    st = tlc.stats(out)
    chars = [BADBYTE if ch == BADBYTE_PH else ch for ch in data["chars"]]
    dec = lambda idx: "".join(chars[i - 1] for i in idx)
    seen, cases = set(), []
    hist = {}
    printed = 0
    # the bulk (field cases) has a fixed flat shape: parse it with one regular expression
    cf = re.compile(r'<<\s*"CF",\s*(\d+),\s*<<([\d,\s]*)>>,\s*"(\w+)"\s*>>')
    flat = [["CF", int(m.group(1)), [int(x) for x in m.group(2).replace(",", " ").split()], m.group(3)]
            for m in cf.finditer(out)]
    rest = cf.sub("", out)
    parsed = [("CF", v) for v in flat]
    for head in ("CL", "CD", "CT", "CH", "CG", "CX"):
        parsed += [(head, tlc.tla_value(raw)) for raw in tlc.parse_tuples(rest, head)]
    for head, v in parsed:
        if True:
            printed += 1
            if head == "CF":
                c = dict(kind="f", ctx=v[1], ver=CONTEXTS[v[1] - 1]["ver"], dia="standard", s=dec(v[2]), lines=[], mc=v[3])
                key = ("f", v[1], c["s"])
            elif head == "CL":
                c = dict(kind="l", ctx=0, ver=v[1], dia="standard", s="", lines=[[dec(f) for f in v[2]]], mc=v[3])
                key = ("l", v[1], tuple(c["lines"][0]))
            elif head == "CD":
                c = dict(kind="d", ctx=0, ver=v[1], dia=v[2], s="", lines=[[dec(f) for f in ln] for ln in v[3]], mc=v[4])
                key = ("d", v[1], v[2], tuple(tuple(l) for l in c["lines"]))
            elif head == "CH":      # history: the case carries everything a replay needs (texts, not indices)
                d = HIST_DOCS[v[1] - 1]
                c = dict(kind="h", ctx=0, ver=d["ver"], dia="standard", s="", lines=[], mc="either",
                         api=["hist", d["ver"], "\n".join(d["lines"]), d["lines"][v[2] - 1], v[3], dec(v[4])] +
                             (["none", HIST_TAILS0[v[6] - 1]] if v[5] == 0 else [HIST_SETTERS[v[5] - 1], HIST_TAILS[v[6] - 1]]) +
                             [d["seg"]])
                key = ("h", v[1], v[2], v[3], c["api"][5], v[5], v[6])
            elif head == "CG" and v[2] > 0:     # removal history on a document built by TLC
                doc = ["\t".join(dec(f) for f in ln) for ln in v[1]]
                c = dict(kind="h", ctx=0, ver="gfa2", dia="standard", s="", lines=[], mc="either",
                         api=["hist", None, "\n".join(doc), doc[v[2] - 1], 0, "", "none", NEST_TAILS[v[3] - 1], "1"])
                key = ("g", tuple(doc), v[2], v[3])
            elif head == "CG":                  # the document itself: every entry point
                c = dict(kind="t", ctx=0, ver="any", dia="standard", mc="either", lines=[],
                         s="\n".join("\t".join(dec(f) for f in ln) for ln in v[1]))
                key = ("t", c["s"])
            elif head == "CX":                  # run-length encoded over-long record
                c = dict(kind="t", ctx=0, ver="any", dia="standard", mc="either", lines=[],
                         s=dec(v[2]) + dec(v[3]) * v[4] + dec(v[5]))
                key = ("t", c["s"])
            else:
                c = dict(kind="t", ctx=0, ver="any", dia="standard", s=dec(v[2]), lines=[], mc="either")
                key = ("t", c["s"])
            if key in seen:
                continue
            seen.add(key)
            hist[(c["kind"], c["mc"])] = hist.get((c["kind"], c["mc"]), 0) + 1
            cases.append(c)
    if st is None or printed != st[1]:
        raise MachineryError("MC_Lex printed %d cases for %s distinct states" % (printed, st))
    for i, c in enumerate(cases):
        c["id"] = i + 1
    return cases, st, hist


# ---------------------------------------------------------------------------------------------
# driving gfapy (records result classes only)

class Timeout(BaseException):
    pass


def _alarm(signum, frame):
    raise Timeout()


def _site(e):
    """innermost frame of the traceback that lies in the repository: 'gfapy/x/y.py:function'"""
    root = os.path.abspath(REPO) + os.sep
    site, seen = "", 0
    while e is not None and seen < 10:     # gfapy re-raises with added context: prefer the original raise
        here = ""
        for fs in traceback.extract_tb(e.__traceback__):
            fn = os.path.abspath(fs.filename)
            if fn.startswith(root):
                here = "%s:%s" % (fn[len(root):], fs.name)
        if here:
            site = here
        e = e.__cause__ or e.__context__
        seen += 1
    return site


def _short(x):
    """repr of a string for a label (the case itself keeps the full text)"""
    return repr(x) if len(x) <= 40 else "%s...(%d chars)" % (repr(x[:20]), len(x))


class Runner:
    def __init__(self):
        self.gfapy = _load_gfapy()
        signal.signal(signal.SIGVTALRM, _alarm)
        self.notes = []     # (exception type, call site) of foreign results of the current case
        self.all_dialects = os.environ.get("VERIF_TIER", "quick") != "quick"
        d = os.path.join(FILES, str(os.getpid()))
        os.makedirs(d, exist_ok=True)
        self.path = os.path.join(d, "case.gfa")

    def call(self, f, *a, **kw):
        """-> (result class, value)"""
        signal.setitimer(signal.ITIMER_VIRTUAL, WATCHDOG)
        try:
            v = f(*a, **kw)
            signal.setitimer(signal.ITIMER_VIRTUAL, 0)
            return "ok", v
        except Timeout:
            self.notes.append(("timeout", ""))
            return "FOREIGN:timeout", None
        except BaseException as e:  # noqa
            signal.setitimer(signal.ITIMER_VIRTUAL, 0)
            cls = project.errclass(e)
            if cls == "FOREIGN" and len(self.notes) < 50:
                self.notes.append((type(e).__name__, _site(e)))
            return cls, None
        finally:
            signal.setitimer(signal.ITIMER_VIRTUAL, 0)

    def has_field(self, ln, fname):
        try:
            return fname in ln.positional_fieldnames or fname in ln.tagnames
        except Exception:
            return False

    def written(self, obj):
        st, s = self.call(str, obj)
        if st == "ok" and "# INVALID" in s:
            st = "marker"
        return st

    # -- C04 rows: <<construction, validate(), validate_field(), written>>
    def line_row(self, text, ver, k, fname):
        kw = dict(vlevel=k)
        if ver:
            kw["version"] = ver
        cons, ln = self.call(self.gfapy.Line, text, **kw)
        if cons != "ok":
            return [cons, "na", "na", "na"]
        val, _ = self.call(ln.validate)
        vf = "na"
        if fname and self.has_field(ln, fname):   # the field under test exists under that name on this line
            vf, _ = self.call(ln.validate_field, fname)
        return [cons, val, vf, self.written(ln)]

    def doc_row(self, text, ver, dia, k, entry="Gfa"):
        """entry: the document as one string, line by line into an empty Gfa, or as a file"""
        G = self.gfapy
        if entry == "Gfa":
            cons, g = self.call(G.Gfa, text, vlevel=k, version=ver, dialect=dia)
        elif entry == "add_line":
            cons, g = self.call(G.Gfa, vlevel=k, version=ver, dialect=dia)
            for ln in text.split("\n"):
                if cons != "ok":
                    break
                cons, _ = self.call(g.add_line, ln)
            if cons == "ok":
                cons, _ = self.call(g.process_line_queue)
        elif "\r" in text.replace("\r\n", ""):
            # a lone CR: the line terminator of some platforms for a FILE (Python's universal newlines), a character
            # of a line for a string: no verdict of the line grammar applies to the file entry point
            return ["na"]
        else:
            with open(self.path, "w", encoding="utf-8", newline="", errors="surrogateescape") as f:
                f.write(text)
            cons, g = self.call(G.Gfa.from_file, self.path, vlevel=k, version=ver, dialect=dia)
        if cons != "ok":
            return [cons, "na", "na", "na"]

        def validate_all():
            g.validate()
            for ln in g.lines:
                ln.validate()
        val, _ = self.call(validate_all)
        return [cons, val, "na", self.written(g)]

    # -- C07 rows for a raw text: every entry point, level, version, dialect
    def text_rows(self, text, levels):
        G = self.gfapy
        rows, lv, cfg = [], [], []
        try:
            with open(self.path, "w", encoding="utf-8", newline="", errors="surrogateescape") as f:
                f.write(text)
            have_file = True
        except (OSError, UnicodeError):
            have_file = False
        for k in levels:
            for ver in (None, "gfa1", "gfa2"):
                r = []
                kw = dict(vlevel=k)
                if ver:
                    kw["version"] = ver
                st, ln = self.call(G.Line, text, **kw)
                r.append(st)
                if st == "ok":
                    r.append(self.call(ln.validate)[0])
                    r.append(self.written(ln))
                rows.append(r); lv.append(k); cfg.append("Line/%s" % ver)
                for dia in ("standard", "rgfa"):
                    st, g = self.call(G.Gfa, text, vlevel=k, version=ver, dialect=dia)
                    r = [st]
                    if st == "ok":
                        r.append(self.call(g.validate)[0])
                        r.append(self.written(g))
                    rows.append(r); lv.append(k); cfg.append("Gfa/%s/%s" % (ver, dia))
                    if dia == "rgfa" and not self.all_dialects:
                        continue
                    st, g = self.call(G.Gfa, vlevel=k, version=ver, dialect=dia)
                    r = [st]
                    if st == "ok":
                        r.append(self.call(g.add_line, text)[0])
                        r.append(self.call(g.process_line_queue)[0])
                        r.append(self.call(g.validate)[0])
                        r.append(self.written(g))
                    rows.append(r); lv.append(k); cfg.append("add_line/%s/%s" % (ver, dia))
                    if "\n" in text:       # a document: line by line, then the explicit validation
                        st, g = self.call(G.Gfa, vlevel=k, version=ver, dialect=dia)
                        r = [st]
                        if st == "ok":
                            for ln in text.split("\n"):
                                r.append(self.call(g.add_line, ln)[0])
                                if r[-1] != "ok":
                                    break
                            r.append(self.call(g.process_line_queue)[0])
                            r.append(self.call(g.validate)[0])
                            r.append(self.written(g))
                        rows.append(r); lv.append(k); cfg.append("add_line each/%s/%s" % (ver, dia))
                    if have_file:
                        st, g = self.call(G.Gfa.from_file, self.path, vlevel=k, version=ver, dialect=dia)
                        r = [st]
                        if st == "ok":
                            r.append(self.written(g))
                        rows.append(r); lv.append(k); cfg.append("from_file/%s/%s" % (ver, dia))
                        if ver is None:     # the same through an existing instance
                            st, g = self.call(G.Gfa, vlevel=k, dialect=dia)
                            r = [st]
                            if st == "ok":
                                r.append(self.call(g.read_file, self.path)[0])
                                r.append(self.call(g.validate)[0])
                                r.append(self.written(g))
                            rows.append(r); lv.append(k); cfg.append("read_file/%s/%s" % (ver, dia))
        return rows, lv, cfg

    # -- C07 rows for the string-taking API
    def api_gfa_rows(self, ver, doc, ident):
        G = self.gfapy
        rows, lv, cfg = [], [], []
        for k in (0, 1, 2, 3):
            st, g = self.call(G.Gfa, doc, vlevel=k, version=ver)
            r = [st]
            if st == "ok":
                for meth in ("line", "segment", "try_get_line", "try_get_segment"):
                    r.append(self.call(getattr(g, meth), ident)[0])
                r.append(self.call(g.rm, ident)[0])
                r.append(self.written(g))
                r.append(self.call(g.validate)[0])
            rows.append(r); lv.append(k); cfg.append("Gfa.line/segment/try_get_line/try_get_segment/rm(%s)" % _short(ident))
        return rows, lv, cfg

    def api_line_rows(self, ver, text, field, connect):
        G = self.gfapy
        rows, lv, cfg = [], [], []
        if field.startswith("@"):       # a field name of this very line
            st, ln = self.call(G.Line, text, version=ver)
            names = (list(ln.positional_fieldnames), list(ln.tagnames)) if st == "ok" else ([], [])
            pick = {"@first": names[0][:1], "@last": names[0][-1:], "@tag": names[1][:1]}[field]
            if not pick:
                return [["na"]], [0], ["line has no such field: " + field]
            field = pick[0]
        for k in (0, 1, 2, 3):
            def fresh():
                ln = G.Line(text, vlevel=k, version=ver)
                if connect:
                    g = G.Gfa(vlevel=k, version=ver)
                    g.add_line(ln)
                return ln
            st, ln = self.call(fresh)
            r = [st]
            if st == "ok":
                for meth in ("get", "try_get", "get_datatype", "validate_field", "field_to_s"):
                    r.append(self.call(getattr(ln, meth), field)[0])
            rows.append(r); lv.append(k); cfg.append("line.get/try_get/get_datatype/validate_field/field_to_s(%r)" % field)
            for val in API_VALUES:
                st, ln = self.call(fresh)
                r = [st]
                if st == "ok":
                    r.append(self.call(ln.set, field, val)[0])
                    r.append(self.call(ln.get, field)[0])
                    r.append(self.call(ln.validate)[0])
                    r.append(self.written(ln))
                rows.append(r); lv.append(k); cfg.append("line.set(%r,%s);get;validate;str" % (field, _short(val)))
            for dt in API_DTYPES:
                st, ln = self.call(fresh)
                r = [st]
                if st == "ok":
                    r.append(self.call(ln.set_datatype, field, dt)[0])
                    r.append(self.call(ln.get, field)[0])
                    r.append(self.written(ln))
                rows.append(r); lv.append(k); cfg.append("line.set_datatype(%r,%r);get;str" % (field, dt))
            st, ln = self.call(fresh)
            r = [st]
            if st == "ok":
                r.append(self.call(ln.delete, field)[0])
                r.append(self.written(ln))
            rows.append(r); lv.append(k); cfg.append("line.delete(%r);str" % field)
        return rows, lv, cfg

    # -- C07 rows for an API history: one row per validation level, one result class per call
    def hist_rows(self, ver, doc, text, i, value, setter, tail, seg):
        G = self.gfapy
        rows, lv, cfg = [], [], []
        label = ("hist %r: field %d %s %r; %s" % (text, i, setter, value, ",".join(tail)) if setter != "none" else
                 "hist %r in %r: %s" % (text, doc, ",".join(tail)))
        for k in (0, 1, 2, 3):
            st, g = self.call(G.Gfa, doc, vlevel=k, version=ver)
            r = [st]
            if st == "ok":
                st, found = self.call(lambda: [x for x in g.lines if str(x) == text])
                names = []
                if st == "ok" and found:
                    ln = found[0]
                    st, names = self.call(lambda: list(ln.positional_fieldnames))
                if st != "ok" or not found or i > len(names):
                    r.append("na" if st == "ok" else st)
                else:
                    name = names[i - 1] if i else None
                    fields = text.split("\t")
                    old = fields[i] if i < len(fields) else ""
                    r.append("ok")
                    if setter == "set":
                        r.append(self.call(ln.set, name, value)[0])
                    elif setter == "attr":
                        r.append(self.call(setattr, ln, name, value)[0])
                    for op in tail:
                        f = {"rm": lambda: g.rm(ln), "disc": ln.disconnect, "rmseg": lambda: g.rm(seg),
                             "rmid": lambda: g.rm(fields[1] if len(fields) > 1 else ""),
                             "delid": lambda: ln.delete("ID"), "unsetid": lambda: ln.set("ID", None),
                             "setid": lambda: ln.set("ID", "x9"),
                             "rename": (lambda: ln.set(names[0], "x9")) if names else None,
                             "gto_gfa1_s": g.to_gfa1_s, "gto_gfa1": g.to_gfa1,
                             "validate": g.validate, "lvalidate": ln.validate, "get": lambda: ln.get(name),
                             "back": lambda: ln.set(name, old)}.get(op)
                        if op in ("captured_path", "captured_segments", "captured_edges", "induced_set", "to_gfa1_s"):
                            if not hasattr(type(ln), op):       # not an operation of this record type
                                r.append("na")
                            elif op == "to_gfa1_s":
                                r.append(self.call(ln.to_gfa1_s)[0])
                            else:
                                r.append(self.call(getattr, ln, op)[0])
                        elif op == "str":
                            r.append(self.written(g))
                        elif op == "lstr":
                            r.append(self.written(ln))
                        elif op == "rename" and f is None:
                            r.append("na")
                        elif f is None:
                            raise MachineryError("unknown history operation " + op)
                        else:
                            r.append(self.call(f)[0])
            rows.append(r); lv.append(k); cfg.append(label)
        return rows, lv, cfg

    def run(self, c, levels):
        self.notes = []
        kind = c["kind"]
        rows, lv, cfg = [], [], []
        if kind == "f":
            cx = CONTEXTS[c["ctx"] - 1]
            text = case_text(c)
            for k in levels:
                rows.append(self.line_row(text, cx["ver"], k, cx["fname"])); lv.append(k); cfg.append("Line/" + cx["ver"])
                if cx["nover"]:
                    rows.append(self.line_row(text, None, k, cx["fname"])); lv.append(k); cfg.append("Line/None")
        elif kind == "l":
            text = case_text(c)
            rt = c["lines"][0][0]
            for k in levels:
                rows.append(self.line_row(text, c["ver"], k, "")); lv.append(k); cfg.append("Line/" + c["ver"])
                if rt in ("L", "C", "P", "E", "F", "G", "O", "U"):
                    rows.append(self.line_row(text, None, k, "")); lv.append(k); cfg.append("Line/None")
        elif kind == "d":
            text = case_text(c)
            for k in levels:
                for entry in ("Gfa", "add_line", "from_file"):
                    rows.append(self.doc_row(text, c["ver"], c["dia"], k, entry)); lv.append(k)
                    cfg.append("%s/%s/%s" % (entry if entry != "add_line" else "add_line each", c["ver"], c["dia"]))
        elif kind == "t":
            rows, lv, cfg = self.text_rows(c["s"], levels)
        elif kind == "a":
            a = c["api"]
            if a[0] == "gfa":
                rows, lv, cfg = self.api_gfa_rows(a[1], a[2], a[3])
            else:
                rows, lv, cfg = self.api_line_rows(a[1], a[2], a[3], a[4])
        elif kind == "h":
            rows, lv, cfg = self.hist_rows(*c["api"][1:])
        else:
            raise MachineryError("unknown case kind " + kind)
        return rows, lv, cfg, self.notes


def case_text(c):
    if c["kind"] == "f":
        cx = CONTEXTS[c["ctx"] - 1]
        f = list(cx["fields"])
        f[cx["hole"] - 1] = cx["fpre"] + c["s"]
        return "\t".join(f)
    if c["kind"] == "l":
        return "\t".join(c["lines"][0])
    if c["kind"] == "d":
        return "\n".join("\t".join(ln) for ln in c["lines"])
    if c["kind"] == "t":
        return c["s"]
    return repr(c.get("api"))


_RUNNER = None


def _work(args):
    global _RUNNER
    if _RUNNER is None:
        _RUNNER = Runner()
    chunk, levels = args
    out = []
    for c in chunk:
        rows, lv, cfg, notes = _RUNNER.run(c, levels)
        out.append((c["id"], rows, lv, cfg, notes))
    return out


def run_cases(cases, levels, procs=None):
    """Fills res / lv / cfg / notes of every case."""
    procs = procs or tlc.NCPU
    os.makedirs(FILES, exist_ok=True)
    by_id = {c["id"]: c for c in cases}
    heavy = [c for c in cases if c["kind"] in ("t", "a")]
    light = [c for c in cases if c["kind"] not in ("t", "a", "h")]
    hist = [c for c in cases if c["kind"] == "h"]
    # the slowest cases (over-long fields: some of gfapy's patterns need quadratic time on them) are spread over the
    # chunks and started first, so that no worker ends up with all of them
    heavy.sort(key=lambda c: -len(c.get("s") or ""))
    nh = max(1, (len(heavy) + 19) // 20)
    chunks = [(heavy[i::nh], levels) for i in range(nh)] + \
             [(hist[i:i + 100], levels) for i in range(0, len(hist), 100)] + \
             [(light[i:i + 500], levels) for i in range(0, len(light), 500)]
    if procs <= 1 or len(chunks) <= 1:
        results = [_work(ch) for ch in chunks]
    else:
        with MPool(processes=min(procs, len(chunks))) as mp:
            results = mp.map(_work, chunks, chunksize=1)
    for part in results:
        for cid, rows, lv, cfg, notes in part:
            c = by_id[cid]
            c["res"], c["lv"], c["cfg"], c["notes"] = rows, lv, cfg, notes
    return cases


# ---------------------------------------------------------------------------------------------
# validation of the recorded results by TLC (TraceLex)

TRACE_CFG = "INIT Init\nNEXT Next\nCONSTRAINT Judge\nCHECK_DEADLOCK FALSE\n"


def _trace_case(c):
    return dict(id=c["id"], kind=c["kind"], ctx=c["ctx"], ver=c["ver"], dia=c["dia"],
                s=_chars(c["s"]) if c["kind"] in ("f",) else [],
                lines=[[_chars(f) for f in ln] for ln in c["lines"]] if c["kind"] in ("l", "d") else [],
                lv=c["lv"], res=c["res"])


def validate(cases, name, nshards=None):
    """-> {case id: (verdict, [(row, clause)])} for the rejected cases; checks the state count."""
    if not cases:
        return {}, 0
    wd = tlc.workdir(name + "-shards")
    nshards = max(1, min(nshards or tlc.NCPU, (len(cases) + 199) // 200))
    ctx = [dict(ver=c["ver"], fields=[_chars(f) for f in c["fields"]], hole=c["hole"], fpre=_chars(c["fpre"]))
           for c in CONTEXTS]
    files = []
    for s in range(nshards):
        part = cases[s::nshards]
        f = os.path.join(wd, "shard%d.json" % s)
        with open(f, "w") as fh:
            json.dump(dict(ctx=ctx, cases=[_trace_case(c) for c in part]), fh)
        files.append(f)
    res = tlc.run_sharded("TraceLex", TRACE_CFG, files, name + "-tlc")
    rejects, distinct = {}, 0
    for rc, out in res:
        st = tlc.stats(out)
        if rc != 0 or st is None or "No error has been found" not in out:
            raise MachineryError("TraceLex failed:\n" + "\n".join(out.splitlines()[-30:]))
        distinct += st[1]
        for raw in tlc.parse_tuples(out, "REJECT"):
            v = tlc.tla_value(raw)
            rejects[v[1]] = (v[2], sorted((int(j), cl) for j, cl in v[3]))
    if distinct != len(cases):
        raise MachineryError("TraceLex consumed %d states, expected %d cases" % (distinct, len(cases)))
    return rejects, distinct


# ---------------------------------------------------------------------------------------------
# checks

def api_cases(first_id):
    cases = []
    for ver, doc in API_DOCS:
        for ident in API_IDS:
            cases.append(dict(kind="a", ctx=0, ver=ver, dia="standard", s="", lines=[], mc="either",
                              api=["gfa", ver, doc, ident]))
    for ver, text in API_LINES:
        for field in API_FIELDS:
            for connect in (False, True):
                if connect and text[0] in "H#":
                    continue
                cases.append(dict(kind="a", ctx=0, ver=ver, dia="standard", s="", lines=[], mc="either",
                                  api=["line", ver, text, field, connect]))
    for i, c in enumerate(cases):
        c["id"] = first_id + i
    return cases


def text_cases(first_id):
    texts = list(dict.fromkeys(TEXTS + hub_texts()))
    return [dict(id=first_id + i, kind="t", ctx=0, ver="any", dia="standard", s=t, lines=[], mc="either")
            for i, t in enumerate(texts)]


def _violations(out, prop, cases, rejects):
    pfx = prop + "."
    by_id = {c["id"]: c for c in cases}
    n_other = {}
    for cid, (exp, bad) in sorted(rejects.items()):
        c = by_id[cid]
        mine = [(j, cl) for j, cl in bad if cl.startswith(pfx)]
        for j, cl in bad:
            if not cl.startswith(pfx):
                p = cl.split(".")[0]
                n_other[p] = n_other.get(p, 0) + 1
        if not mine:
            continue
        clauses = sorted({cl for _, cl in mine})
        rows = sorted({j for j, _ in mine})
        text = case_text(c)
        api = c["cfg"][rows[0] - 1].split("/")[0] if c["kind"] not in ("a", "h") else c["cfg"][rows[0] - 1]
        sites = sorted({"%s@%s" % n for n in c.get("notes", [])})
        v = dict(family="lex", clauses=clauses, input=text if len(text) < 400 else text[:200] + "...(%d chars)" % len(text),
                 api=api, expected=exp, kind=c["kind"],
                 failing=[dict(config=c["cfg"][j - 1], vlevel=c["lv"][j - 1], observed=c["res"][j - 1]) for j in rows][:12],
                 case={k: c[k] for k in ("kind", "ctx", "ver", "dia", "s", "lines") if k in c} | ({"api": c["api"]} if "api" in c else {}),
                 what="%s: grammar verdict %s, %s" % (",".join(clauses), exp, c["cfg"][rows[0] - 1] + " -> " + "/".join(c["res"][rows[0] - 1])))
        if sites:
            v["exceptions"] = sites
            v["callsite"] = sites[-1].split("@", 1)[1]
        if c["kind"] == "f":
            v["datatype"] = CONTEXTS[c["ctx"] - 1]["dt"]
            v["context"] = CONTEXTS[c["ctx"] - 1]["name"]
        out.violations.append(v)
    for p, n in n_other.items():
        out.others[p] = out.others.get(p, 0) + n


class _Cov:
    """coverage aggregated over the batches of one check"""
    def __init__(self):
        self.kinds, self.hist = {}, {}
        self.rows = self.calls = self.cases = self.nontrivial = 0
        self.spec_states = self.spec_generated = self.trace_states = 0
        self.t_gen = self.t_run = self.t_val = 0.0
        self.samples = []

    def add(self, cases, st, hist, nstates, t_gen, t_run, t_val):
        for c in cases:
            self.kinds[c["kind"]] = self.kinds.get(c["kind"], 0) + 1
            self.rows += len(c["res"])
            self.calls += sum(len(r) for r in c["res"])
            if c["kind"] in ("f", "l", "d"):
                if c["mc"] == "acc" or any(r[0] == "ok" for r in c["res"]):
                    self.nontrivial += 1
            elif any("ok" in r[1:] or r == ["ok"] for r in c["res"]):
                self.nontrivial += 1
        self.cases += len(cases)
        for k, n in hist.items():
            self.hist[k] = self.hist.get(k, 0) + n
        self.spec_states += st[1]
        self.spec_generated += st[0]
        self.trace_states += nstates
        self.t_gen += t_gen; self.t_run += t_run; self.t_val += t_val
        if len(self.samples) < 5:
            for c in cases[:: max(1, len(cases) // 3)][:3]:
                self.samples.append(dict(kind=c["kind"], input=case_text(c)[:120], grammar=c["mc"], observed=c["res"][:2]))


def _coverage(out, tier, cov, layers, shorter):
    q = tier == "quick"
    out.add_cov(
        evaluations=cov.calls, observation_rows=cov.rows, cases=cov.cases, cases_by_kind=cov.kinds,
        distinct_nontrivial=cov.nontrivial,
        rule="distinct cases (after de-duplication of equal texts) in which either the grammar accepts the text "
             "(verdict of Lex.tla printed by MC_Lex) or gfapy accepted it at some level, i.e. the cases on which an "
             "acceptance decision is actually exercised; for raw texts / API strings: at least one call succeeded",
        grammar_verdicts={"%s:%s" % k: n for k, n in sorted(cov.hist.items())},
        spec_states=cov.spec_states, spec_states_generated=cov.spec_generated, trace_states=cov.trace_states,
        layers=list(layers),
        alphabets={"%s#%d" % (name, i): dict(symbols=_syms(sy), max_symbols=max(1, (nq if q else nt) - shorter),
                                             prefix=pre, suffix=suf)
                   for i, (name, sy, nq, nt, pre, suf) in enumerate(ALPHABETS) if (nq if q else nt) > 0},
        mutation_representatives=_syms(REPS_QUICK if q else REPS_THOROUGH),
        catalogue_strings=sum(len(v) for v in CATALOGUE.values()),
        line_layer=dict(records=["%s/%s" % (r["ver"], r["rt"]) for r in RECS], max_tags=2 if q else 3),
        line_text_alphabet=dict(symbols=_syms(LALPH[0]), max_symbols=LALPH[1] if q else LALPH[2]),
        line_mutation_representatives=_syms(LREPS_QUICK if q else LREPS_THOROUGH),
        documents=len(DOCS), document_variants=len(VARIANTS),
        document_templates=[dict(lines=t["lines"], slots=[dict(line=a, field=b, alternatives=c, context=bool(d))
                                                          for a, b, c, d in t["slots"]],
                                 orders=t["orders"] if t["orders"] != "all" else "every permutation of the lines",
                                 max_deviating=t["maxdev"], dialect=t["dia"]) for t in TEMPLATES],
        document_entry_points=["Gfa(text)", "add_line per line + process_line_queue", "from_file"],
        hub_documents=len(hub_texts()),
        header_tag_lines=dict(names=HDR["names"], datatypes=HDR["types"], values=HDR["values"], before=HDR["pre"],
                              after=HDR["suf"]) if "hdr" in layers else None,
        nested_group_removal=dict(documents="built by MC_Lex: kind O/U x 1..3 groups x cycle/chain x segments none/last/all x "
                                  "outer set x 3 arrival orders", tails=NEST_TAILS) if "nest" in layers else None,
        version_queue_documents=dict(queued=QUEUE["q"], refused_in_context=QUEUE["bad"], deciders=QUEUE["dec"],
                                     arrangements=["queued,refused,decider", "refused,queued,decider",
                                                   "queued,decider,refused"]) if "queue" in layers else None,
        overlong_fields=[dict(prefix=a, character=c, length=n, suffix=b) for a, c, n, b in LONGS] if "long" in layers else None,
        non_text_bytes_at_field_boundaries=_syms(LBYTES),
        undecodable_byte="XB = 0xFF (lone surrogate U+DCFF in the str, written to the file with surrogateescape)",
        api_histories=dict(documents=[d["lines"] for d in HIST_DOCS], generic_values=HIST_VALUES, setters=HIST_SETTERS,
                           tails=HIST_TAILS, per_field_values="valid and invalid representatives of the line layer",
                           histories=cov.kinds.get("h", 0)) if "hist" in layers else None,
        exhaustive=True,
        exhaustive_scope="every string up to the stated number of symbols over each stated alphabet, every single-point "
                         "mutation of the catalogue, every line / document variant of the stated tables; not the unbounded languages",
        wall_generate_s=round(cov.t_gen, 1), wall_gfapy_s=round(cov.t_run, 1), wall_tracelex_s=round(cov.t_val, 1))
    out.samples += cov.samples[:5]
    out.assumptions += [
        "TLC 1.8 and the TLA+ semantics of spec/Lex.tla, MC_Lex.tla, TraceLex.tla",
        "Lex.tla is my transcription of the GFA1 / GFA2 grammars (the specification texts are not in the sandbox); "
        "where the documents disagree the verdict is 'either' and nothing is demanded (list at the head of Lex.tla)",
        "language equality is decided up to the length bounds and class-representative alphabets listed in coverage",
        "non-termination only up to a %.0f s watchdog per call" % WATCHDOG,
    ]


def _run(out, tier, prop, layers, levels, extra=None):
    os.environ["VERIF_TIER"] = tier
    shorter = 1 if prop == "C07" else 0
    cov = _Cov()
    first = 1
    batches = slices(tier, layers, shorter)
    for bi, (lay, only) in enumerate(batches):
        t0 = time.time()
        cases, st, hist = generate(tier, lay, "lex-%s-mc" % prop, shorter=shorter, only=only)
        if extra and bi == len(batches) - 1:
            cases = cases + list(extra(len(cases) + 1))
        t1 = time.time()
        run_cases(cases, levels)
        t2 = time.time()
        rejects, nstates = validate(cases, "lex-%s-val" % prop)
        t3 = time.time()
        _violations(out, prop, cases, rejects)
        cov.add(cases, st, hist, nstates, t1 - t0, t2 - t1, t3 - t2)
        del cases, rejects
    _coverage(out, tier, cov, layers, shorter)
    # the report shows the first violations only: put one of every kind first (shortest input of each
    # clause x datatype / call site group), then the rest
    groups = {}
    for v in out.violations:
        groups.setdefault((tuple(v["clauses"]), v.get("callsite") or v.get("datatype") or v["kind"]), []).append(v)
    for g in groups.values():
        g.sort(key=lambda v: (len(v["input"]), v["input"]))
    heads = [g[0] for _, g in sorted(groups.items(), key=lambda kv: str(kv[0]))]
    rest = [v for _, g in sorted(groups.items(), key=lambda kv: str(kv[0])) for v in g[1:]]
    out.violations[:] = heads + rest
    out.add_cov(violation_groups={"%s @ %s" % (",".join(k[0]), k[1]): len(g) for k, g in sorted(groups.items(), key=lambda kv: str(kv[0]))})


def check_c04(out, tier, seed):
    _run(out, tier, "C04", ("enum", "mut", "line", "doc", "xdoc"), (1, 2, 3))
    if tier != "quick":
        selftest()


def check_c07(out, tier, seed):
    def extra(first):
        t = text_cases(first)
        return t + api_cases(first + len(t))
    layers = ("enum", "mut", "line", "doc", "xdoc", "lmut", "lenum", "hdr", "hist", "nest", "queue", "long")
    _run(out, tier, "C07", layers, (0, 1, 2, 3), extra)
    if tier != "quick":
        selftest()


PROPS = {"C04": (check_c04, "exploration"), "C07": (check_c07, "exploration")}


# ---------------------------------------------------------------------------------------------
# replay of one recorded violation

def replay(prop, v, path):
    c = dict(v["case"])
    c["id"] = 1
    c.setdefault("ctx", 0); c.setdefault("s", ""); c.setdefault("lines", []); c["mc"] = "?"
    levels = (0, 1, 2, 3) if prop == "C07" else (1, 2, 3)
    run_cases([c], levels, procs=1)
    rejects, _ = validate([c], "lex-replay")
    print("input: %r" % case_text(c)[:300])
    for cfg, k, r in zip(c["cfg"], c["lv"], c["res"]):
        print("   %-40s vlevel=%d -> %s" % (cfg if c["kind"] == "h" else cfg[:40], k, "/".join(r)))
    for n in c["notes"]:
        print("   foreign exception: %s at %s" % n)
    bad = [cl for _, cl in rejects.get(1, ("", []))[1] if cl.startswith(prop + ".")]
    if 1 in rejects:
        print("grammar verdict: %s; clauses: %s" % (rejects[1][0], ",".join(sorted({cl for _, cl in rejects[1][1]}))))
    if bad:
        print("VIOLATION property=%s replay=%s" % (prop, path))
        return 1
    print("replay passes")
    return 0


# ---------------------------------------------------------------------------------------------
# binding: corrupted recordings must be rejected by TraceLex

def selftest():
    """Corrupt recorded results (flip an accepted flag, turn a result into FOREIGN) and require that
    TraceLex rejects each corruption with the expected clause, and accepts the uncorrupted originals."""
    def fcase(i, ctx, s, res):
        return dict(id=i, kind="f", ctx=CTX_IDX[ctx], ver=CONTEXTS[CTX_IDX[ctx] - 1]["ver"], dia="standard", s=s,
                    lines=[], lv=[1], res=[res])
    def lcase(i, fields, res):
        return dict(id=i, kind="l", ctx=0, ver="gfa1", dia="standard", s="", lines=[fields], lv=[1], res=[res])
    def dcase(i, lines, res):
        return dict(id=i, kind="d", ctx=0, ver="gfa1", dia="standard", s="", lines=lines, lv=[1] * len(res), res=res)
    def ring(closing, overlaps):
        return [["S", "a", "*"], ["S", "b", "*"], ["S", "c", "*"], ["L", "a", "+", "b", "+", "1M"], ["L", "b", "+", "c", "+", "2M"],
                ["L", "c", "+", "a", "+", closing], ["P", "p", "a+,b+,c+", overlaps]]
    ok = ["ok", "ok", "ok", "ok"]
    refused = ["Error", "na", "na", "na"]
    doc = [["S", "A", "ACGT", "LN:i:4"], ["S", "B", "*"], ["L", "A", "+", "B", "+", "*"]]
    cases = [
        fcase(1, "tag_i", "12", ok),                                   # genuine recordings: must pass
        fcase(2, "tag_i", "1_0", refused),
        fcase(3, "pos2_E", "12$", ok),
        dict(id=4, kind="d", ctx=0, ver="gfa1", dia="standard", s="", lines=doc, lv=[1], res=[["ok", "ok", "na", "ok"]]),
        dict(id=5, kind="t", ctx=0, ver="any", dia="standard", s="", lines=[], lv=[0, 1], res=[["ok", "ok"], ["Error"]]),
        fcase(11, "tag_i", "12", refused),                             # accepted flag flipped
        fcase(12, "tag_i", "1_0", ok),
        fcase(13, "pos2_E", "12$", ["ok", "Error", "ok", "ok"]),
        fcase(14, "tag_i", "12", ["ok", "ok", "ok", "marker"]),
        dict(id=15, kind="d", ctx=0, ver="gfa1", dia="standard", s="", lines=doc[:1] + doc[2:], lv=[1],
             res=[["ok", "ok", "na", "ok"]]),                          # reference to an undefined segment kept
        dict(id=16, kind="t", ctx=0, ver="any", dia="standard", s="", lines=[], lv=[0, 1], res=[["ok", "FOREIGN"], ["Error"]]),
        fcase(17, "tag_i", "1_0", ["FOREIGN", "na", "na", "na"]),
        fcase(18, "tag_i", "12", ["ok", "FOREIGN:timeout", "ok", "ok"]),
        dict(id=19, kind="a", ctx=0, ver="gfa1", dia="standard", s="", lines=[], lv=[2], res=[["ok", "NotFoundError", "KeyError"]]),
        # number of overlaps of a path, whatever the overlaps are (Lex!PathCountWrong)
        lcase(6, ["P", "p1", "a+,b+,c+,d+", "*,*"], refused),           # genuine: refused
        lcase(7, ["P", "p1", "a+,b+,c+,d+", "*,*,*"], ok),              # genuine: n-1 placeholders, no verdict, accepted
        lcase(8, ["P", "p1", "a+,b+,c+,d+", "*,*,*"], refused),         # ... and nothing is demanded either way
        lcase(20, ["P", "p1", "a+,b+,c+,d+", "*,*"], ok),               # too few placeholders kept
        lcase(21, ["P", "p1", "a+,b+,c+,d+", "*,*,*,*,*"], ok),         # too many
        lcase(22, ["P", "p1", "a+", "*,1M"], ok),
        dict(id=23, kind="d", ctx=0, ver="gfa1", dia="standard", s="", lv=[1, 3], res=[ok[:2] + ["na", "ok"]] * 2,
             lines=[["S", "A", "*"], ["S", "B", "*"], ["L", "A", "+", "B", "+", "*"], ["P", "p", "A+,B+", "*,*,*"]]),
        # circular path: the last overlap belongs to the junction back to the first segment (Lex!VPathLinks)
        dcase(10, ring("3M", "1M,2M,3M"), [ok[:2] + ["na", "ok"]]),                    # genuine: valid, accepted
        dcase(25, ring("3M", "1M,2M,3M"), [["NotFoundError", "na", "na", "na"]]),      # valid circular path refused
        dcase(26, ring("2M", "1M,2M,3M"), [ok[:2] + ["na", "ok"]]),                    # closing link states another overlap: kept
        dcase(27, ring("3M", "1M,2M,2M"), [ok[:2] + ["na", "ok"]]),
        dcase(28, ring("3M", "1M,2M,3M")[:5] + ring("3M", "1M,2M,3M")[6:], [["ok", "ok", "na", "ok"]]),   # no closing link at all
        # API histories: one row per level, one result class per call
        dict(id=9, kind="h", ctx=0, ver="gfa2", dia="standard", s="", lines=[], lv=[0, 3],
             res=[["ok", "ok", "ok", "ok", "marker"], ["ok", "ok", "Error", "ok", "ok"]]),
        dict(id=24, kind="h", ctx=0, ver="gfa2", dia="standard", s="", lines=[], lv=[0, 3],
             res=[["ok", "ok", "ok", "FOREIGN", "marker"], ["ok", "ok", "Error", "ok", "ok"]]),
    ]
    want = {11: {"C04.rejected-valid"}, 12: {"C04.accepted-invalid"}, 13: {"C04.validate-disagrees"},
            14: {"C04.written-invalid"}, 15: {"C04.accepted-invalid"}, 16: {"C07.foreign"}, 17: {"C07.foreign"},
            18: {"C07.foreign", "C04.validate-disagrees"}, 19: {"C07.foreign"},
            20: {"C04.accepted-invalid"}, 21: {"C04.accepted-invalid"}, 22: {"C04.accepted-invalid"},
            23: {"C04.accepted-invalid"}, 24: {"C07.foreign"}, 25: {"C04.rejected-valid"}, 26: {"C04.accepted-invalid"},
            27: {"C04.accepted-invalid"}, 28: {"C04.accepted-invalid"}}
    rejects, _ = validate(cases, "lex-selftest", nshards=1)
    got = {cid: {cl for _, cl in bad} for cid, (exp, bad) in rejects.items()}
    if got != want:
        raise MachineryError("lex selftest: TraceLex rejected %r, expected %r" % (got, want))
    return len(want)


if __name__ == "__main__":
    print("selftest: %d corruptions rejected" % selftest())
