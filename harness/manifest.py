"""Generates MANIFEST.json from the registry (run: /venv/bin/python -m harness.manifest)."""
import json, os, subprocess
from .tlc import VERIF
from . import checks

TEXT = {
 "C02": ("model_checking", "Closed/Symmetric/Owner evaluated by TLC on the object graph recorded after every call of every TLC-enumerated history (MC_Gfa, all maximal histories up to the depth bound over the GFA1/GFA2 catalogues) and of seeded random/document-first histories; plus equality of every back-reference collection with the function of the document.", "5 C02"),
 "C05": ("model_checking", "After every call the written lines (bag, tags as sets), header, placeholders and back-references of the real Gfa must equal those of the text-level Step of Gfa.tla (exact removal closure, dropped mentions, rename substitution, edits of positional fields of connected lines (SetField), clones added under another identifier, objects disconnected-edited-added again); histories enumerated exhaustively by TLC up to the depth bound plus random, document-first, edit and clone histories.", "5 C05, 10.11"),
 "C08": ("model_checking", "FailStutters is an action property of MC_Gfa checked by TLC; in every validated trace an event whose call raised must have an observation digest identical to the previous one (full projection: lines, references, back-references, header, version, names, lookups, topology); in half of the histories the answers of five read-only query groups (incl. datatypes of absent tags, header counters) are also compared across every refused call.", "5 C08, 10.11"),
 "C09": ("model_checking", "UniqueIds invariant on the spec; on every recorded state the name lists and line()/segment()/try_get_line() for every identifier of the universe are compared with the document; add/rename onto a used identifier must return NotUniqueError.", "5 C09"),
 "C01": ("exploration", "Doc.tla: valid documents generated in TLA+ from a line catalogue x tag spelling variants, writer normal form Canon(doc) as a set of allowed bags; TLC enumerates documents x validation levels x version modes x entry points (string, list, file LF/CRLF/no final newline); the records written by gfapy (str, to_file, second round) are compared by TLC with Canon; seeded random documents with tags of every datatype.", "5 C01"),
 "C03": ("model_checking", "MC_Arrival: TLC enumerates every valid document (subset of the catalogue within size bounds, validity decided in TLA+) and every arrival order, checks confluence on the specification, and every order is replayed with add_line, observed after every delivery and validated against the document functions; strict documents are also compared by the digest of the complete object graph across orders (TracePerm).", "5 C03"),
 "C04": ("exploration", "Lex.tla recognisers written from the GFA grammars; TLC enumerates all short strings over per-datatype alphabets, single-point mutations of valid strings, line-level arity/tag combinations and document-level rule violations; every case is offered to gfapy at validation levels 1-3 and TLC (TraceLex) compares acceptance with the grammar verdict. Bounded language equality, not a proof.", "5 C04"),
 "C06": ("exploration", "Convert.tla pure functions with round-trip laws checked by TLC; every enumerated L/C/E/P/O case (all orientations, asymmetric CIGARs, offsets, self-links, paths) converted by gfapy at line and graph level and compared by TLC with the specification; output must load at vlevel 3.", "5 C06"),
 "C07": ("exploration", "The result class of every call of the lexical enumerations (all short texts, single-point mutations of valid lines/documents, string-taking API) is validated by TLC: FOREIGN (not derived from gfapy.Error, or watchdog timeout) is in no allowed outcome.", "5 C07"),
 "C10": ("model_checking", "Step(query) leaves the document unchanged; in every state reached by TLC-enumerated and random histories 15 query groups (incl. edits of clones and of converted copies) are run twice: the digest of the complete observation must be unchanged and answers repeatable.", "5 C10"),
 "C11": ("model_checking", "EdgeClass.tla (independent reading of the GFA2 text) enumerated exhaustively for all 400 cells of a length-3 segment; symmetry laws checked by TLC; every cell loaded into gfapy in three arrival orders (+ rename, unrelated removal) and the back-reference collections, neighbour lists and edge types compared by TLC.", "5 C11"),
 "C12": ("model_checking", "CIGAR algebra laws (involution, length exchange) checked by TLC over all 2955 CIGARs; complement(), equivalence tests and lengths of the real Link compared by TLC (TraceLink) for every CIGAR x 8 endpoint shapes; history level: complement of a stored link is a no-op, path flags in every arrival order.", "5 C12"),
 "C13": ("model_checking", "MC_Version: operational version machine of Gfa.tla = declarative verdict of Version.tla for every order of every set of <= D line kinds (TLC invariant Agrees); every order replayed incrementally and through Gfa(list|str)/from_file.", "5 C13"),
 "C14": ("exploration", "LinearPaths.tla (Chains, Spell, Merge with laws checked by TLC); TLC enumerates graphs (<= 3-4 segments, link sets incl. hairpins, self-links, parallel twins, three naming/sequence profiles, GFA1 and GFA2); linear_paths() and the result of merge_linear_paths() (twice) are compared by TLC with the specification for some traversal direction per chain, plus closed/symmetric object graph and preserved components.", "5 C14"),
 "C15": ("exploration", "Multiply.tla relational post-condition (copies, names, edges, counts, distribution, rest); TLC enumerates graphs x segments x factors -1..3 x policies x naming and judges the recorded pre/post observations.", "5 C15"),
 "C17": ("exploration", "Groups.tla written from the GFA2 text (strict and relaxed reading of captured paths and induced sets, laws checked by TLC); TLC enumerates item sequences, splits over several lines in every arrival order, nesting to depth 3, cyclic nesting, over two base graphs with parallel, reversed, self-loop and hairpin edges; items/tags/captured_path/induced_set of gfapy compared by TLC.", "5 C17"),
 "C18": ("model_checking", "Fields.tla field store with validation level; MC_Fields checks the statements on the spec and enumerates all programs of <= 3-4 steps over Set/Get/Write/Str/Validate/ValidateField x 30 fields x levels 0..3; every program is run against gfapy and judged by TraceFields; level independence on catalogue documents.", "5 C18"),
 "C19": ("model_checking", "Clone/EditInPlace frame conditions of Fields.tla; every catalogue line (connected, unconnected, virtual, all datatypes) cloned, every mutable path found generically edited on either copy, other copy and Gfa must be unchanged (TraceFields).", "5 C19"),
 "C20": ("exploration", "value classes with symbolic integers (subtype boundaries), default datatypes and representability in Fields.tla; written characters judged by the grammar in TLC; read-back equality observed by the harness.", "5 C20"),
 "C16": ("model_checking", "connected_components and the four counters logged after every call of every history are compared by TLC with Components/NDovetails/... of the document state.", "5 C16"),
}


# properties whose checks are finished and reviewed; everything else is listed as not yet claimed
RELEASED = ["C01", "C02", "C03", "C04", "C05", "C06", "C07", "C08", "C09", "C10", "C11", "C12", "C13", "C14", "C15", "C16", "C17", "C18", "C19", "C20"]


def main():
    man = {
        "version": 1,
        "setup_cmd": "cd /verif && ./setup.sh",
        "hooks": {"guard": "GFAPY_VERIF", "enable": "checks import gfapy from /repo (or $VERIF_REPO) with GFAPY_VERIF=1 in the environment; no build step (pure Python)",
                  "baseline_off_cmd": "cd /repo && env -u GFAPY_VERIF /venv/bin/python -m pytest -ra -q -p no:cacheprovider --timeout=900 --continue-on-collection-errors",
                  "source_commits": ["a745ba584e1bcc796ed0b9ebcdcb9e0f684f49b6"], "add_only": True},
        "engines": [{"name": "tlc-core", "path": "spec/Gfa.tla spec/MC_Gfa.tla spec/TraceGfa.tla harness/core.py",
                     "serves_properties": sorted(p for p in checks.CHECKS if p in RELEASED),
                     "kind_free_text": "TLA+ specification + TLC model checking + bidirectional conformance (TLC histories replayed into gfapy; recorded traces validated by TLC)"}],
        "checks": [],
        "not_applicable": [],
        "notes": "All verdicts are computed by TLC from TLA+ specifications in /verif/spec; Python only drives gfapy and projects its state syntactically. See DESIGN.md.",
    }
    for p in sorted(x for x in checks.CHECKS if x in RELEASED):
        cat, text, ref = TEXT.get(p, (checks.LEVEL[p], "see DESIGN.md", "5 " + p))
        man["checks"].append({
            "property_id": p,
            "quick_cmd": "./check %s --tier quick" % p,
            "thorough_cmd": "./check %s --tier thorough" % p,
            "evidence_file": "/verif/evidence/%s.json" % p,
            "replay_cmd_template": "./check %s --replay {path}" % p,
            "engine": "tlc-core",
            "level_claimed": {"category": checks.LEVEL[p], "text": text, "design_ref": "DESIGN.md section " + ref},
            "level_note": "Trusted: TLC; harness/project.py (syntactic projection); the catalogues and bounds stated in the evidence; my reading of the GFA specification in spec/*.tla.",
            "technique": "explicit TLA+ specification, TLC model checking, trace validation of gfapy executions against the specification",
        })
    props = [json.loads(l)["id"] for l in open(os.path.join(VERIF, "properties.jsonl"))]
    for p in props:
        if p not in checks.CHECKS or p not in RELEASED:
            man["not_applicable"].append({"property_id": p, "reason": "check not built yet in this revision (work in progress; see DESIGN.md section 5 for the planned procedure)"})
    with open(os.path.join(VERIF, "MANIFEST.json"), "w") as f:
        json.dump(man, f, indent=1)
    print("wrote MANIFEST.json with", len(man["checks"]), "checks")


if __name__ == "__main__":
    main()
