"""C12 (a link and its complement are one edge): CIGAR algebra laws on the spec (MC_Cigar),
line-level conformance (TraceLink) and history-level conformance (core pipeline)."""
import json, os, random, signal
from multiprocessing import Pool as MPool
from . import tlc, project, core


def cg_text(cg):
    return "".join("%d%s" % (o["n"], o["c"]) for o in cg) or "*"


def gen_cigars(maxops, maxlen, name):
    wd = tlc.workdir(name)
    cfg = ("SPECIFICATION Spec\nCONSTANTS MaxOps = %d\nMaxLen = %d\nCONSTRAINT Emit\nINVARIANT Involution\n"
           "INVARIANT SwapsLengths\nINVARIANT KeepsSize\nCHECK_DEADLOCK FALSE\n" % (maxops, maxlen))
    rc, out = tlc.run_tlc("MC_Cigar", cfg, wd, workers=4)
    tlc.check_ok(rc, out, "MC_Cigar")
    cgs = {}
    for raw in tlc.parse_tuples(out, "CG"):
        v = tlc.tla_value(raw)
        cgs[cg_text(v[1])] = dict(cg=v[1], compl=cg_text(v[2]), rl=v[3], ql=v[4])
    return cgs, tlc.stats(out)


def _abs(line):
    return project.abstract_text(str(line), "gfa1")


def run_case(job):
    gfapy = core._load_gfapy()
    cid, text = job
    signal.signal(signal.SIGVTALRM, core._alarm)
    signal.setitimer(signal.ITIMER_VIRTUAL, 10.0)
    rec = {"id": cid, "l": project.abstract_text(text, "gfa1"), "res": "ok", "exc": ""}
    empty = project.abstract_text("L\t?\t+\t?\t+\t*", "gfa1")
    rec.update(c1=empty, c2=empty, after=empty, c1after=empty, rl=-1, ql=-1, crl=-1, cql=-1, tests=[])
    try:
        l = gfapy.Line(text, version="gfa1")
        c1 = l.complement()
        rec["c1"] = _abs(c1)
        c2 = c1.complement()
        rec["c2"] = _abs(c2)
        ov = l.overlap
        if not gfapy.is_placeholder(ov):
            rec["rl"], rec["ql"] = ov.length_on_reference(), ov.length_on_query()
            co = ov.complement()
            rec["crl"], rec["cql"] = co.length_on_reference(), co.length_on_query()
            str(ov); str(co)
        else:
            rec["rl"] = rec["ql"] = rec["crl"] = rec["cql"] = 0
        f = text.split("\t")
        variants = []
        inv = {"+": "-", "-": "+"}
        variants.append("\t".join([f[0], f[1], inv[f[2]], f[3], f[4], f[5]]))
        variants.append("\t".join([f[0], f[3], f[2], f[1], f[4], f[5]]))
        if f[5] != "*":
            import re
            m = re.match(r"(\d+)(.*)", f[5])
            variants.append("\t".join(f[:5] + [str(int(m.group(1)) + 1) + m.group(2)]))
            variants.append("\t".join(f[:5] + ["*"]))
        lcopy = gfapy.Line(text, version="gfa1")
        pairs = [("is_complement", l, c1), ("is_complement", c1, l), ("is_eql", l, c1), ("is_eql", c1, l),
                 ("is_same", l, c1), ("is_same", l, lcopy), ("is_complement", l, lcopy), ("is_eql", l, lcopy)]
        for vt in variants:
            v = gfapy.Line(vt, version="gfa1")
            pairs += [("is_eql", l, v), ("is_eql", v, l), ("is_complement", v, l), ("is_same", l, v)]
        for q, a, b in pairs:
            a0, b0 = _abs(a), _abs(b)
            r1 = bool(getattr(a, q)(b))
            r2 = bool(getattr(a, q)(b))
            rec["tests"].append({"q": q, "a": a0, "b": b0, "r1": r1, "r2": r2, "a2": _abs(a), "b2": _abs(b)})
        rec["after"] = _abs(l)
        rec["c1after"] = _abs(c1)
        # the same questions after a copy has been edited in place (orientation flipped, complemented in
        # place): the answers are about the lines as they read now
        e1 = l.clone()
        e1.is_eql(l); e1.is_complement(l)
        e1.from_orient = inv[f[2]]
        e2 = l.clone()
        e2.is_same(l)
        e2.to_orient = inv[f[4]]
        e3 = l.clone()
        e3.is_eql(l)
        e3.make_complement()
        for e in (e1, e2, e3):
            for q, a, b in (("is_eql", e, l), ("is_eql", l, e), ("is_same", e, l), ("is_complement", e, l),
                            ("is_complement", l, e), ("is_complement", e, c1), ("is_eql", e, c1)):
                a0, b0 = _abs(a), _abs(b)
                r1 = bool(getattr(a, q)(b))
                r2 = bool(getattr(a, q)(b))
                rec["tests"].append({"q": q, "a": a0, "b": b0, "r1": r1, "r2": r2, "a2": _abs(a), "b2": _abs(b)})
    except core.Timeout:
        rec["res"], rec["exc"] = "FOREIGN", "timeout"
    except BaseException as e:  # noqa
        rec["res"], rec["exc"] = project.errclass(e), type(e).__name__
    finally:
        signal.setitimer(signal.ITIMER_VIRTUAL, 0)
    return rec


SHAPES = [(o1, o2, b) for o1 in "+-" for o2 in "+-" for b in ("B", "A")]


def line_cases(cgs):
    jobs = []
    for t in cgs:
        for o1, o2, b in SHAPES:
            jobs.append(("%s|%s%s%s" % (t, o1, o2, b), "L\tA\t%s\t%s\t%s\t%s\txx:i:1" % (o1, b, o2, t)))
    return jobs


def validate_cases(recs, name):
    wd = tlc.workdir(name + "-shards")
    n = tlc.NCPU
    files = []
    for s in range(n):
        part = recs[s::n]
        if part:
            f = os.path.join(wd, "s%d.json" % s)
            with open(f, "w") as fh:
                json.dump(part, fh)
            files.append(f)
    res = tlc.run_sharded("TraceLink", core.TRACE_CFG, files, name + "-tlc")
    rej, distinct = [], 0
    for rc, out in res:
        st = tlc.stats(out)
        if rc != 0 or st is None or "No error has been found" not in out:
            raise tlc.MachineryError("TraceLink failed:\n" + "\n".join(out.splitlines()[-30:]))
        distinct += st[1]
        for raw in tlc.parse_tuples(out, "REJECT"):
            v = tlc.tla_value(raw)
            rej.append((v[1], sorted(v[3])))
    if distinct != 2 * len(recs):
        raise tlc.MachineryError("TraceLink consumed %d states, expected %d" % (distinct, 2 * len(recs)))
    return rej


def history_jobs(cgs, keys):
    """complement of a stored link adds nothing; paths over either form, any arrival order"""
    A = lambda t: dict(k="add", text=t, id="", id2="")
    inv = {"+": "-", "-": "+"}
    jobs = []
    n = 0
    for t in keys:
        c = cgs[t]["compl"]
        for o1, o2, b in SHAPES:
            l = "L\tA\t%s\t%s\t%s\t%s" % (o1, b, o2, t)
            lc = "L\t%s\t%s\tA\t%s\t%s" % (b, inv[o2], inv[o1], c)
            segs = ["S\tA\t*"] + (["S\tB\t*"] if b == "B" else [])
            pf = "P\tpf\tA%s,%s%s\t%s" % (o1, b, o2, t)
            pr = "P\tpr\t%s%s,A%s\t%s" % (b, inv[o2], inv[o1], c)
            ps = "P\tps\t%s%s,A%s\t*" % (b, inv[o2], inv[o1])
            for od in ([*segs, l, lc, pf, pr, ps], [pf, lc, *segs, l, pr], [pr, ps, l, *segs, lc, pf],
                       [lc, pf, l, ps, *segs]):
                jobs.append(dict(id="lh-%d" % n, kind="link", cfg=dict(version="gfa1", vlevel=1),
                                 ops=[A(x) for x in od] + [dict(k="rm", text="", id="pf", id2="")],
                                 universe=["A", "B", "pf", "pr", "ps"]))
                n += 1
            # a longer path that states the overlap of this junction and leaves another one open ("*"):
            # the stated CIGAR still decides which link is meant and in which direction it is read
            if b == "A":
                tail_seg, tail_l = "T", "L\tA\t%s\tT\t+\t*" % o2
                pm = "P\tpm\tA%s,A%s,T+\t%s,*" % (o1, o2, t)
                pmc = "P\tpmc\tT-,A%s,A%s\t*,%s" % (inv[o2], inv[o1], c)
            else:
                tail_seg, tail_l = "T", "L\tB\t%s\tT\t+\t*" % o2
                pm = "P\tpm\tA%s,B%s,T+\t%s,*" % (o1, o2, t)
                pmc = "P\tpmc\tT-,B%s,A%s\t*,%s" % (inv[o2], inv[o1], c)
            for od in ([*segs, "S\tT\t*", l, tail_l, pm, pmc], [pm, pmc, *segs, "S\tT\t*", tail_l, l], [*segs, "S\tT\t*", lc, tail_l, pmc, pm]):
                jobs.append(dict(id="lh-%d" % n, kind="link", cfg=dict(version="gfa1", vlevel=1),
                                 ops=[A(x) for x in od], universe=["A", "B", "T", "pm", "pmc"]))
                n += 1
            # the same oriented pair is looked up again after it has come to denote something else:
            # the segment is renamed and another segment takes its name, then the complement form is
            # offered again (now a new edge), a path over it, and the old link is removed
            ren = dict(k="ren", text="", id="A", id2="X", n=0)
            for od in ([*segs, l, lc, ren, "S\tA\t*", lc, ps], [*segs, l, pf, ren, "S\tA\t*", l, pr],
                       [*segs, lc, pr, ren, "S\tA\t*", ps, l]):
                ops = [x if isinstance(x, dict) else A(x) for x in od]
                ops.append(dict(k="disc", text=l.replace("\tA\t", "\tX\t"), id="", id2=""))
                ops.append(A(lc))
                jobs.append(dict(id="lh-%d" % n, kind="link", cfg=dict(version="gfa1", vlevel=1), ops=ops,
                                 universe=["A", "B", "X", "pf", "pr", "ps"]))
                n += 1
    return jobs


def check_c12(out, tier, seed):
    rnd = random.Random(seed)
    cgs, st = gen_cigars(3, 2, "cigar")
    keys = sorted(cgs)
    if tier == "quick":
        small = [k for k in keys if len(cgs[k]["cg"]) <= 2]
        big = [k for k in keys if len(cgs[k]["cg"]) == 3]
        rnd.shuffle(big)
        use = small + big[:250]
    else:
        use = keys
    jobs = line_cases(use)
    with MPool(processes=tlc.NCPU) as mp:
        recs = mp.map(run_case, jobs, chunksize=64)
    rej = validate_cases(recs, "link")
    byid = {r["id"]: r for r in recs}
    for cid, clauses in rej:
        mine = [c for c in clauses if c.startswith("C12")]
        if mine:
            r = byid[cid]
            out.violations.append(dict(family="link", clauses=mine, input=r["l"]["f"][0], case=cid,
                                       api="Link.complement/is_*", what="line-level %s on %s" % (",".join(mine), cid),
                                       exc=r["exc"]))
        for c in clauses:
            if not c.startswith("C12"):
                p = "C07" if c == "foreign" else c[:3]
                out.others[p] = out.others.get(p, 0) + 1
    nontrivial = sum(1 for r in recs if r["l"]["ovs"][0] and len({o["c"] for o in r["l"]["ovs"][0]} & {"I", "D"}) > 0)
    out.add_cov(spec_cigars=len(cgs), line_cases=len(recs), asymmetric_line_cases=nontrivial, exhaustive=(tier != "quick"))
    out.samples.append({"case": recs[len(recs) // 2]["id"], "tests": len(recs[len(recs) // 2]["tests"])})
    # history level through the core pipeline
    hk = [k for k in use if k != "*"]
    rnd.shuffle(hk)
    hk = ["*", "2M1D1M", "1I2M"] + hk[: (40 if tier == "quick" else 600)]
    hk = [k for k in hk if k in cgs]
    jb = {"linkhist": history_jobs(cgs, hk)}
    core.run_pipeline(out, jb, [("gfa1s", 3)] if tier == "quick" else [("gfa1s", 4), ("gfa1", 3)], "C12")
    out.add_cov(states=st[1], transitions=st[0])
    # symbolic bounded check (Apalache): the same laws for ALL CIGARs of <= 6 operations with
    # operation lengths 1..1000 (far beyond the TLC enumeration)
    import shutil, subprocess
    if shutil.which("apalache-mc"):
        wd = tlc.workdir("apalache-cigar")
        p = subprocess.run(["apalache-mc", "check", "--length=6", "--inv=Laws", "--out-dir=" + wd,
                            os.path.join(tlc.SPEC, "apalache", "CigarApa.tla")], cwd=wd, stdout=subprocess.PIPE,
                           stderr=subprocess.STDOUT, text=True, timeout=1800)
        if "EXITCODE: OK" not in p.stdout:
            raise tlc.MachineryError("Apalache check of the CIGAR laws failed:\n" + p.stdout[-1500:])
        out.add_cov(apalache_cigar_laws="no error up to 6 operations, lengths 1..1000")
        shutil.rmtree(wd, ignore_errors=True)
    else:
        out.add_cov(apalache_cigar_laws="skipped: apalache-mc not on PATH")
    out.cov["rule"] = ("all CIGARs of <= 3 operations over {M,I,D,P,=,X,H} x lengths {1,2} (2955 incl. '*'; quick: all of "
                       "<= 2 operations + 250 sampled) x 8 endpoint shapes (4 orientation pairs x {distinct, self incl. "
                       "hairpin}): complement twice, lengths, equivalence tests in both argument orders and repeated, "
                       "4 near-miss variants; history level: stored link + its complement + paths over either form in "
                       "4 arrival orders; " + out.cov.get("rule", ""))
    out.assumptions += ["TLC; spec/Cigar.tla written from the SAM/GFA definition of the operations",
                        "S and N are outside the involution claim (property text)"]


def replay(prop, v, path):
    cid = v["case"]
    t, shape = cid.rsplit("|", 1)
    text = "L\tA\t%s\t%s\t%s\t%s\txx:i:1" % (shape[0], shape[2], shape[1], t)
    rec = run_case((cid, text))
    rej = validate_cases([rec], "link-replay")
    for cid, clauses in rej:
        print("REJECT", cid, clauses)
        if any(c.startswith(prop) for c in clauses):
            print("VIOLATION property=%s replay=%s" % (prop, path))
            return 1
    print("replay passes")
    return 0


PROPS = {"C12": (check_c12, "model_checking")}
