"""Running TLC and parsing what it prints."""
import os, re, shutil, subprocess, sys, time, json, tempfile
from concurrent.futures import ThreadPoolExecutor

VERIF = os.path.dirname(os.path.dirname(os.path.abspath(__file__)))
SPEC = os.path.join(VERIF, "spec")
WORK = os.environ.get("VERIF_WORK", os.path.join(VERIF, ".work"))
JAR = "/opt/veriftools/tla/tla2tools.jar:/opt/veriftools/tla/CommunityModules-deps.jar"
NCPU = int(os.environ.get("VERIF_CPUS", os.cpu_count() or 4))


class MachineryError(Exception):
    pass


def workdir(name):
    d = os.path.join(WORK, name)
    shutil.rmtree(d, ignore_errors=True)
    os.makedirs(d)
    return d


def run_tlc(module, cfg_text, wd, env=None, workers=1, extra=(), timeout=3600, heap="2g",
            deque=False):
    """Run TLC on spec/<module>.tla with the given cfg text. Returns (rc, stdout)."""
    cfg = os.path.join(wd, module + ".cfg")
    with open(cfg, "w") as f:
        f.write(cfg_text)
    meta = os.path.join(wd, "meta")
    e = dict(os.environ)
    if env:
        e.update(env)
    if workers == 1:   # sharded runs: many JVMs side by side, keep each one lean
        opts = ["-XX:+UseSerialGC", "-XX:CICompilerCount=2", "-Xmx" + heap, "-Xss16m"]
    else:
        opts = ["-XX:+UseParallelGC", "-Xmx" + heap, "-Xss16m"]
    if deque:
        opts.append("-Dtlc2.tool.queue.IStateQueue=StateDeque")
    cmd = ["java"] + opts + ["-cp", JAR, "tlc2.TLC", "-workers", str(workers), "-metadir", meta,
                             "-noGenerateSpecTE", "-config", cfg] + list(extra) + [os.path.join(SPEC, module + ".tla")]
    try:
        p = subprocess.run(cmd, cwd=wd, env=e, stdout=subprocess.PIPE, stderr=subprocess.STDOUT,
                           timeout=timeout, text=True, errors="replace")
    except subprocess.TimeoutExpired as ex:
        raise MachineryError("TLC timeout on %s: %s" % (module, ex))
    shutil.rmtree(meta, ignore_errors=True)
    return p.returncode, p.stdout


STATS_RE = re.compile(r"(\d+) states generated, (\d+) distinct states found")


def stats(out):
    m = None
    for m in STATS_RE.finditer(out):
        pass
    if not m:
        return None
    return int(m.group(1)), int(m.group(2))


def check_ok(rc, out, what):
    """TLC finished model checking without error (rc 0)."""
    if rc != 0 or "Model checking completed. No error has been found." not in out:
        tail = "\n".join(out.splitlines()[-40:])
        raise MachineryError("TLC failed on %s (rc=%s):\n%s" % (what, rc, tail))


def parse_tuples(out, head):
    """Extract TLC-printed tuples that start with <<"head", ...>> (bracket matching,
    tolerant of interleaving/newlines). Returns list of raw strings."""
    res = []
    pat = re.compile(r'<<\s*"%s"' % re.escape(head))
    i = 0
    while True:
        m = pat.search(out, i)
        if not m:
            break
        i = m.start()
        depth = 0
        j = i
        while j < len(out):
            if out.startswith("<<", j):
                depth += 1
                j += 2
                continue
            if out.startswith(">>", j):
                depth -= 1
                j += 2
                if depth == 0:
                    break
                continue
            j += 1
        res.append(out[i:j])
        i = j
    return res


def tla_value(s):
    """Parse a TLC-printed value made of tuples, sets, strings, ints, booleans, records."""
    s = s.strip()
    pos = 0

    def ws():
        nonlocal pos
        while pos < len(s) and s[pos] in " \n\r\t":
            pos += 1

    def val():
        nonlocal pos
        ws()
        if s.startswith("<<", pos):
            pos += 2
            items = []
            ws()
            if s.startswith(">>", pos):
                pos += 2
                return items
            while True:
                items.append(val())
                ws()
                if s.startswith(",", pos):
                    pos += 1
                    continue
                if s.startswith(">>", pos):
                    pos += 2
                    return items
                raise ValueError("bad tuple at %d in %r" % (pos, s[:200]))
        if s.startswith("{", pos):
            pos += 1
            items = []
            ws()
            if s.startswith("}", pos):
                pos += 1
                return items
            while True:
                items.append(val())
                ws()
                if s.startswith(",", pos):
                    pos += 1
                    continue
                if s.startswith("}", pos):
                    pos += 1
                    return items
                raise ValueError("bad set at %d" % pos)
        if s.startswith("[", pos):
            pos += 1
            rec = {}
            while True:
                ws()
                m = re.match(r"([A-Za-z_][A-Za-z0-9_]*)\s*\|->", s[pos:])
                if not m:
                    raise ValueError("bad record at %d" % pos)
                pos += m.end()
                rec[m.group(1)] = val()
                ws()
                if s.startswith(",", pos):
                    pos += 1
                    continue
                if s.startswith("]", pos):
                    pos += 1
                    return rec
                raise ValueError("bad record end at %d" % pos)
        if s.startswith('"', pos):
            j = pos + 1
            buf = []
            while s[j] != '"':
                if s[j] == "\\":
                    j += 1
                    buf.append({"t": "\t", "n": "\n", "r": "\r"}.get(s[j], s[j]))
                else:
                    buf.append(s[j])
                j += 1
            pos = j + 1
            return "".join(buf)
        m = re.match(r"-?\d+", s[pos:])
        if m:
            pos += m.end()
            return int(m.group(0))
        m = re.match(r"TRUE|FALSE", s[pos:])
        if m:
            pos += m.end()
            return m.group(0) == "TRUE"
        raise ValueError("bad value at %d: %r" % (pos, s[pos:pos + 40]))

    return val()


def run_sharded(module, cfg_text, shard_files, name, env_key="TRACE_FILE", timeout=3600, heap="1500m"):
    """One single-worker TLC process per shard file, in parallel. Returns list of (rc,out)."""
    wd = workdir(name)

    def one(i_f):
        i, f = i_f
        d = os.path.join(wd, "s%d" % i)
        os.makedirs(d)
        return run_tlc(module, cfg_text, d, env={env_key: f}, workers=1, timeout=timeout, heap=heap)

    with ThreadPoolExecutor(max_workers=NCPU) as ex:
        res = list(ex.map(one, enumerate(shard_files)))
    return res
