"""Evidence files, VIOLATION / KNOWN-FINDING lines, known-findings matching."""
import json, os, sys, time

from .tlc import VERIF

EVID = os.environ.get("VERIF_EVIDENCE_DIR", os.path.join(VERIF, "evidence"))
REPLAYS = os.path.join(EVID, "replays")
KNOWN = os.path.join(VERIF, "known_findings.json")


def load_known():
    if not os.path.exists(KNOWN):
        return []
    with open(KNOWN) as f:
        return json.load(f)["findings"]


def match_known(prop, viol, known):
    """viol: dict(clauses, ops (list of op dicts up to and including the failing call),
    input (optional str), callsite (optional)). Returns the matching 'known' entry or None.
    A signature is concrete: the failing call (and, if given, lines that must have been
    added before it), an exact input, or a call site."""
    for k in known:
        if k.get("status") != "known" or k.get("property") != prop:
            continue
        sig = k["signature"]
        if "clauses" in sig and not set(viol.get("clauses", [])) <= set(sig["clauses"]):
            continue
        if "input" in sig:
            if viol.get("input") == sig["input"] and sig.get("api", viol.get("api")) == viol.get("api"):
                return k
            continue
        if "callsite" in sig:
            if viol.get("callsite") == sig["callsite"]:
                return k
            continue
        if "op" in sig:
            ops = viol.get("ops") or []
            if not ops:
                continue
            last = ops[-1]
            if any(last.get(f) != v for f, v in sig["op"].items()):
                continue
            before = {o.get("text") for o in ops[:-1] if o.get("k") == "add"}
            if all(r in before for r in sig.get("requires", [])) and \
                    not any(r in before for r in sig.get("forbids", [])):
                return k
    return None


class Outcome:
    """Collected by a check; turned into evidence + exit status."""

    def __init__(self, prop, tier, seed, level):
        self.prop, self.tier, self.seed, self.level = prop, tier, seed, level
        self.t0 = time.time()
        self.cov = {}
        self.violations = []      # dicts (see match_known) + 'what'
        self.others = {}          # property -> count of rejections attributed elsewhere
        self.assumptions = []
        self.samples = []

    def add_cov(self, **kw):
        for k, v in kw.items():
            if isinstance(v, (int, float)) and not isinstance(v, bool) and k in self.cov \
                    and isinstance(self.cov[k], (int, float)):
                self.cov[k] += v
            else:
                self.cov[k] = v

    def finish(self):
        os.makedirs(REPLAYS, exist_ok=True)
        known = load_known()
        new, hits = [], {}
        for v in self.violations:
            k = match_known(self.prop, v, known)
            if k is not None:
                hits.setdefault(k["what"], 0)
                hits[k["what"]] += 1
            else:
                new.append(v)
        lines = []
        for what, n in sorted(hits.items()):
            lines.append("KNOWN-FINDING: property=%s %s (%d occurrences in this run)" % (self.prop, what, n))
        import glob
        for old in glob.glob(os.path.join(REPLAYS, "%s-*.json" % self.prop)):
            os.unlink(old)
        paths = []
        for i, v in enumerate(new[:20]):
            p = os.path.join(REPLAYS, "%s-%d.json" % (self.prop, i))
            with open(p, "w") as f:
                json.dump(v, f, indent=1, default=str)
            paths.append(p)
        for p in paths[:5]:
            lines.append("VIOLATION property=%s replay=%s" % (self.prop, p))
        cov = dict(self.cov)
        cov.setdefault("samples", self.samples[:5] or ["(none)"])
        cov["known_finding_hits"] = hits
        cov["other_property_rejections"] = self.others
        ev = {"property_id": self.prop, "tier": self.tier, "seed": self.seed, "level": self.level,
              "coverage": cov, "assumptions": self.assumptions,
              "wall_s": round(time.time() - self.t0, 2), "violations": len(new)}
        os.makedirs(EVID, exist_ok=True)
        with open(os.path.join(EVID, self.prop + ".json"), "w") as f:
            json.dump(ev, f, indent=1, default=str)
        for ln in lines:
            print(ln)
        print("%s %s tier=%s seed=%d wall=%.1fs violations=%d known=%d coverage=%s" % (
            "FAIL" if new else "PASS", self.prop, self.tier, self.seed, time.time() - self.t0,
            len(new), sum(hits.values()),
            json.dumps({k: v for k, v in cov.items() if isinstance(v, (int, bool))})))
        return 1 if new else 0
