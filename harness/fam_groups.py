"""C17 (GFA2 groups): spec -> code and code -> spec.

spec -> code: TLC (spec/MC_Groups.tla) enumerates, family by family and shard by shard, the
cases described in a JSON catalogue (base graph, item alphabets, cuts of a definition into
several lines, arrival orders, tag sets) and checks the design-level properties of
spec/Groups.tla on every case.  Each printed case is turned into concrete GFA2 lines here
(table look-up only), fed to the real gfapy line by line, and everything gfapy answers is
recorded syntactically (names and orientation signs, result classes).
code -> spec: spec/TraceGroups.tla reads the record, rebuilds the document from the abstract
form (project.abstract_text) of the lines that were really added, recomputes every answer with
the operators of Groups.tla and prints a REJECT tuple per disagreement.  No verdict is
computed in Python.

Each (family, shard) is one job of a process pool: MC_Groups (one TLC) -> gfapy -> TraceGroups
(one TLC); only the rejected cases and the counters travel back to the parent.
./check C17 --replay <file> re-runs one recorded case and prints what was added, what gfapy
answered and what the specification expects."""
import json, os, signal, sys, time, random, copy
from multiprocessing import Pool as MPool

from . import tlc, project
from .core import _load_gfapy, REPO, Timeout, _alarm

# --------------------------------------------------------------------------
# base graphs ("|" = tab).  Segment lengths: a 4, b 6, c 3, d 5.
#  e1 a+ -> b+   e2, e3 b+ -> c+ (PARALLEL dovetails)   e4 c- -> a- (serves a+ -> c+ only reversed)
#  e7 d+ -> a-   e5 internal alignment a/d   e6 containment of b in d
G1 = ["S|a|4|*", "S|b|6|*", "S|c|3|*", "S|d|5|*",
      "E|e1|a+|b+|2|4$|0|2|*", "E|e2|b+|c+|4|6$|0|2|*", "E|e3|b+|c+|5|6$|0|1|*",
      "E|e4|c-|a-|0|1|3|4$|*", "E|e5|a+|d+|1|2|1|2|*", "E|e6|b+|d+|0|6$|1|4|*",
      "E|e7|d+|a-|3|5$|2|4$|*"]
#  G2 adds: es self-loop a+ -> a+; eh hairpin c+ -> c- (fits in both orientations);
#  ea dovetail written against its geometry (positions say d+ -> c+, fields say c+ d+);
#  e9 the slot of e1 written from the other side (b- -> a-): a+ b+ now has two candidates
G2 = G1 + ["E|es|a+|a+|2|4$|0|2|*", "E|eh|c+|c-|1|3$|1|3$|*", "E|ea|c+|d+|0|1|4|5$|*",
           "E|e9|b-|a-|0|2|2|4$|*"]
#  G3: a chain  d- ad- a+ ab+ b+ bc+ c+ ce+ e+  of named dovetails (segments of length 8), and
#  UNNAMED edges (identifier "*"): two dovetails b+ -> d+ and e+ -> a+, an internal alignment a/c
#  written twice (two E lines with the same text), a containment of d in e, and e+ -> x+, which
#  leaves every set that does not list x
G3 = ["S|a|8|*", "S|b|8|*", "S|c|8|*", "S|d|8|*", "S|e|8|*", "S|x|8|*",
      "E|ab|a+|b+|6|8$|0|2|*", "E|bc|b+|c+|6|8$|0|2|*", "E|ad|a-|d+|0|2|0|2|*", "E|ce|c+|e+|6|8$|0|2|*",
      "E|*|b+|d+|5|8$|0|3|*", "E|*|e+|a+|5|8$|0|3|*", "E|*|a+|c+|3|4|3|4|*", "E|*|a+|c+|3|4|3|4|*",
      "E|*|d+|e+|0|8$|2|5|*", "E|*|e+|x+|6|8$|0|2|*"]
#  G4: CYCLES of named dovetails written exit -> entry, exactly one edge per adjacent pair:
#  a+ -> b+ -> c+ -> d+ -> a+ with the chords b+ -> a+ and c+ -> a+ (so that a path can be walked
#  again right after itself: a+ b+ | a+ b+), and an internal alignment ei between b and d (no
#  dovetail joins b and d)
G4 = ["S|a|8|*", "S|b|8|*", "S|c|8|*", "S|d|8|*",
      "E|e1|a+|b+|6|8$|0|2|*", "E|e2|b+|a+|6|8$|0|2|*", "E|e3|b+|c+|6|8$|0|2|*", "E|e4|c+|a+|6|8$|0|2|*",
      "E|e5|c+|d+|6|8$|0|2|*", "E|e6|d+|a+|6|8$|0|2|*", "E|ei|b+|d+|3|4|3|4|*"]
#  G5: a CHAIN OF E LINES WITHOUT DIRECTION: internal alignments iba (b, a), icb (c, b), ide (d-, e),
#  the containment cdc (d in c), and one dovetail dbe b+ -> e+.  The segment two consecutive
#  edges share is the first field of one and the second of the other in every combination
G5 = ["S|a|8|*", "S|b|8|*", "S|c|12|*", "S|d|8|*", "S|e|8|*",
      "E|iba|b+|a+|2|3|4|5|*", "E|icb|c+|b+|3|4|5|6|*", "E|cdc|d+|c+|0|8$|2|10|*", "E|ide|d-|e+|3|4|3|4|*",
      "E|dbe|b+|e+|6|8$|0|2|*"]
#  G6: a chain a+ e1+ b+ e2+ c+ with FRAGMENTS on a and b and a GAP between a and c: every record
#  type that creates a placeholder for a segment it mentions (E, F, G; O and U do so for any item)
G6 = ["S|a|8|*", "S|b|8|*", "S|c|8|*",
      "E|e1|a+|b+|6|8$|0|2|*", "E|e2|b+|c+|6|8$|0|2|*",
      "F|a|r1+|0|2|0|2|*", "F|b|r2-|0|2|3|5|*", "G|g1|a-|c+|10|*"]
GRAPHS = [G1, G2, G3, G4, G5, G6]
SEGS = ["a", "b", "c", "d"]
SEGS3 = ["a", "b", "c", "d", "e"]
EDGES = [["e1", "e2", "e3", "e4", "e5", "e6", "e7"],
         ["e1", "e2", "e3", "e4", "e5", "e6", "e7", "es", "eh", "ea", "e9"],
         ["ab", "bc", "ad", "ce"],
         ["e1", "e2", "e3", "e4", "e5", "e6", "ei"],
         ["iba", "icb", "cdc", "ide", "dbe"],
         ["e1", "e2"]]
GROUP_IDS = ["o", "p", "q", "u", "v", "w", "r", "s", "t"]
UNDEF = "zz"

TAGSETS = [[], ["xx:i:1"], ["yy:i:2"], ["xx:i:2"], ["xx:i:1", "yy:i:2"]]   # TLA index = position + 1


def text_of(src):
    return src.replace("|", "\t")


class Catalogue:
    """Tables shared by TLC and Python: graphs (abstract lines), items, tag sets."""

    def __init__(self):
        self.items = []          # [{"id","o"}]
        self.index = {}
        for name in SEGS3 + ["x"] + EDGES[1] + EDGES[2] + ["ei"] + EDGES[4] + GROUP_IDS + [UNDEF]:
            for o in ("+", "-", ""):
                self.index[name + o] = len(self.items) + 1
                self.items.append({"id": name, "o": o})
        self.graphs = [[project.abstract_text(text_of(l), "gfa2") for l in g] for g in GRAPHS]
        self.tags = [{"t": sorted(t), "n": [x[:2] for x in sorted(t)]} for t in TAGSETS]

    def ix(self, spec):
        """'a+ e1- p+' -> [indices]"""
        return [self.index[x] for x in spec.split()]

    def alph(self, names, orients):
        return [self.index[n + o] for n in names for o in orients]

    def item_text(self, i):
        it = self.items[i - 1]
        return it["id"] + it["o"]

    def line_text(self, ld):
        """ld = [rt, id, [item indices], tag index] -> GFA2 text"""
        rt, gid, its, tg = ld
        f = [rt, gid, " ".join(self.item_text(i) for i in its)] + sorted(TAGSETS[tg - 1])
        return "\t".join(f)

    def json_for(self, fam):
        return {"graphs": self.graphs, "items": self.items, "tags": self.tags, "fam": fam}


CAT = Catalogue()


def slot(rt, gid, alph, lo, hi, must=(), seqs=()):
    return {"rt": rt, "id": gid, "alph": list(alph), "lo": lo, "hi": hi, "must": list(must),
            "seqs": [list(x) for x in seqs]}


def listed(rt, gid, specs):
    """slot over an explicit list of item lists ('a+ b+', ...)"""
    return slot(rt, gid, [], 0, 0, seqs=[CAT.ix(x) for x in specs])


def family(name, g, slots, arrs=(1,), split=1, splitmin=1, tagsets=((1,),), orders="id", nsh=1,
           kind="seq", maxedges=0):
    return {"name": name, "g": g, "slots": slots, "arrs": list(arrs), "split": split,
            "splitmin": splitmin, "tagsets": [list(t) for t in tagsets], "orders": orders, "nsh": nsh,
            "kind": kind, "maxedges": maxedges}


TAGVARS = [(1, 1), (2, 3), (2, 2), (2, 4), (5, 4), (1, 2), (5, 3),
           (1, 1, 1), (2, 3, 1), (2, 2, 2), (2, 4, 3), (2, 3, 4), (5, 1, 4)]


def families(tier):
    C = CAT
    q = tier == "quick"
    pm = ("+", "-")
    segs = C.alph(SEGS, pm)
    flat1 = segs + C.alph(EDGES[0], pm)
    flat2 = segs + C.alph(EDGES[1], pm)
    core = C.alph(["a", "b", "c"], pm) + C.alph(["e1", "e2", "e4"], pm)
    fams = []
    # F1: one O line over every oriented segment and edge of the graph
    if q:
        fams.append(family("flatO-g1", 1, [slot("O", "o", flat1, 1, 2)]))
        fams.append(family("flatO-g1-core3", 1, [slot("O", "o", core, 3, 3)], nsh=2))
        fams.append(family("flatO-g2", 2, [slot("O", "o", flat2, 1, 2)]))
    else:
        fams.append(family("flatO-g1", 1, [slot("O", "o", flat1, 1, 4)], nsh=44))
        fams.append(family("flatO-g2", 2, [slot("O", "o", flat2, 1, 3)], nsh=6))
        fams.append(family("flatO-g1-arr", 1, [slot("O", "o", flat1, 1, 3)], arrs=(2, 3, 4), nsh=6))
    # F1b: every way of leaving elements out of every walk of the graph (contiguous lists)
    fams.append(family("walks-g1", 1, [slot("O", "o", [], 0, 0)], kind="walks", maxedges=3 if q else 4,
                       arrs=(1,) if q else (1, 3), nsh=1 if q else 4))
    fams.append(family("walks-g2", 2, [slot("O", "o", [], 0, 0)], kind="walks", maxedges=2 if q else 3,
                       nsh=1 if q else 6))
    # F1c: paths over the graph with unnamed edges (a supplied edge may be an unnamed one)
    fams.append(family("flatO-g3", 3, [slot("O", "o", C.alph(SEGS3, pm) + C.alph(EDGES[2], pm), 1, 2 if q else 3)],
                       nsh=1 if q else 2))
    # F2: a definition cut into 2..3 lines, every arrival order, tag sets
    sa = C.ix("a+ b+ e2+")
    ua = C.ix("a e2 b")
    fams.append(family("splitO", 1, [slot("O", "o", sa, 2, 3 if q else 4)], split=3, splitmin=2,
                       tagsets=TAGVARS, orders="all", arrs=(1, 2), nsh=3 if q else 6))
    fams.append(family("splitU", 1, [slot("U", "u", ua, 2, 3 if q else 4)], split=3, splitmin=2,
                       tagsets=TAGVARS, orders="all", arrs=(1,) if q else (1, 2), nsh=2 if q else 6))
    # F3: nested paths, depth 2: o lists p (both orientations) among segments and edges
    sub = C.ix("a+ b+ b- c- e1+ e1- e2+ e4-") if q else core
    outer = C.ix("a+ a- b+ b- c+ e1+ e2- p+ p-")
    fams.append(family("nestO2", 1, [slot("O", "o", outer, 1, 2 if q else 3, must=C.alph(["p"], pm)),
                                      slot("O", "p", sub, 1, 2)],
                       orders="id" if q else "rev", nsh=2 if q else 24))
    # F3b: depth 3: o lists p lists q
    qa = C.ix("a+ b+ e1+ e1- b- a-")
    pa = C.ix("q+ q- c+ e2+ zz+") if q else C.ix("q+ q- b+ c+ e2+ c- zz+")
    oa = C.ix("p+ p-") if q else C.ix("p+ p- c+ a+")
    fams.append(family("nestO3", 1, [slot("O", "o", oa, 1, 1 if q else 2, must=C.ix("p+ p-")),
                                      slot("O", "p", pa, 1, 2, must=C.ix("q+ q-")),
                                      slot("O", "q", qa, 1, 2)],
                       orders="id" if q else "all", nsh=2 if q else 16))
    # F3c: TARGETED depth 3 on the chain of G3: innermost path with every end shape (segment / edge
    # first x segment / edge last), referenced + and - on both nesting levels, followed or preceded
    # by a segment or an edge
    qs = ["a+ b+", "a+ b+ bc+", "a+ ab+", "ab+ b+", "ab+", "ab+ bc+"] + ([] if q else ["b+", "ab+ b+ c+"])
    fol = ["c+", "bc+", "d+", "ad+"] + ([] if q else ["ce+", "e+"])
    pre = ["d-", "ad-", "c-", "bc-"] + ([] if q else ["ce-", "e-"])
    ps = ["q+", "q-"] + ["q%s %s" % (sg, x) for sg in pm for x in fol] + ["%s q%s" % (x, sg) for sg in pm for x in pre]
    oy = ["c+", "ce+", "e+", "d+", "ad+", "c-"] + ([] if q else ["bc+", "d-", "ad-", "bc-", "ce-", "e-"])
    os_ = ["p+", "p-"] + ["p%s %s" % (sg, y) for sg in pm for y in oy] + ([] if q else ["p%s c+ e+" % sg for sg in pm])
    fams.append(family("nestO3-ends", 3, [listed("O", "o", os_), listed("O", "p", ps), listed("O", "q", qs)],
                       orders="id" if q else "all", nsh=2 if q else 16))
    # cyclic / self-referential paths, sets listed in paths
    fams.append(family("cycO", 1, [slot("O", "o", C.ix("p+ a+ o+ u+") if q else C.ix("p+ p- a+ o+ u+"), 1, 2,
                                        must=C.ix("p+ p- o+ u+")),
                                    slot("O", "p", C.ix("o+ b+ p-") if q else C.ix("o+ o- b+ p-"), 1, 2),
                                    slot("U", "u", C.ix("a"), 1, 1)]))
    # F4: one U line over every segment, edge and an undefined identifier
    names1 = SEGS + EDGES[0] + [UNDEF]
    names2 = SEGS + EDGES[1] + [UNDEF]
    fams.append(family("flatU-g1", 1, [slot("U", "u", C.alph(names1, ("",)), 1, 3 if q else 4)], nsh=2 if q else 4))
    fams.append(family("flatU-g2", 2, [slot("U", "u", C.alph(names2, ("",)), 1, 2 if q else 3)],
                       arrs=(1,) if q else (1, 2, 3, 4), nsh=1 if q else 4))
    # F4b: sets over the graph with unnamed edges: every E line between induced segments counts
    g3u = C.ix("a b c d e ce ad") if q else C.ix("a b c d e ab bc ad ce zz")
    fams.append(family("flatU-g3", 3, [slot("U", "u", g3u, 1, 3 if q else 4)], arrs=(1,) if q else (1, 4),
                       nsh=1 if q else 6))
    fams.append(family("nestU-g3", 3, [slot("U", "u", C.ix("a b e v"), 1, 2 if q else 3, must=C.ix("v")),
                                        slot("U", "v", C.ix("c ce d ad"), 1, 2 if q else 3)],
                       orders="id" if q else "rev", arrs=(1,) if q else (1, 2, 3, 4), nsh=1 if q else 6))
    # F5: sets over paths and sets (paths with and without unique walk)
    pl = C.ix("a+ b+ c- zz+") if q else C.ix("a+ b+ c- zz+ e1-")
    fams.append(family("nestU-paths", 1, [slot("U", "u", C.ix("a p v"), 1, 2, must=C.ix("p v")),
                                           slot("U", "v", C.ix("b p e7"), 1, 2),
                                           slot("O", "p", pl, 1, 2)],
                       orders="id" if q else "all", arrs=(1,) if q else (1, 2), nsh=3 if q else 8))
    # F5b: nesting depth 3 and cyclic nesting of sets
    fams.append(family("nestU-cyc", 1, [slot("U", "u", C.ix("a v") if q else C.ix("a v w"), 1, 2, must=C.ix("v w")),
                                         slot("U", "v", C.ix("b w u"), 1, 2),
                                         slot("U", "w", C.ix("c u v") if q else C.ix("c u v d"), 1, 2)],
                       orders="id" if q else "all", arrs=(1,) if q else (1, 2), nsh=1 if q else 6))
    # F6: a nested path that is reached MORE THAN ONCE (graph with cycles, G4): as siblings
    # (o = q+ q+; p = q+ q-), through different branches (o = p+ q+ with p = q+ b+ ...), through
    # two different intermediate paths (o = r+ s+, r = q+, s = q+ a+).  kind "repeat": TLC keeps
    # the cases in which the expansion of o comes to some path at least twice and o still has
    # a walk (or is ambiguous)
    g4q = C.ix("a+ b+ e1+ e2+ a- b-") if q else C.ix("a+ b+ c+ e1+ e2+ e3+ a- b-")
    fams.append(family("repO3", 4, [slot("O", "o", C.ix("p+ p- q+ q- a+ b+"), 2, 2 if q else 3, must=C.ix("p+ p- q+ q-")),
                                     slot("O", "p", C.ix("q+ q- a+ b+ e2+"), 1, 2),
                                     slot("O", "q", g4q, 1, 2)],
                       kind="repeat", nsh=4 if q else 12))
    ol = ["r+ s+", "r- s+", "r+ s-", "s- r-", "r+ s+ a+", "r+ q+ s+"] + ([] if q else ["r+ s+ r+", "r- s- r-", "b+ r+ s+"])
    fams.append(family("repO4", 4, [listed("O", "o", ol),
                                     slot("O", "r", C.ix("q+ q- a+ b+"), 1, 2, must=C.ix("q+ q-")),
                                     slot("O", "s", C.ix("q+ q- a+ b+"), 1, 2, must=C.ix("q+ q-")),
                                     slot("O", "q", C.ix("a+ b+ e1+ e2+") if q else g4q, 1, 2)],
                       kind="repeat", nsh=2 if q else 12))
    # F6b: the first item is an E line without direction (internal alignment) and the second a
    # nested path: which way the edge is travelled is decided by where the nested path starts
    ul = ["ei+ p+", "ei- p+", "ei+ p-", "ei- p-", "p+ ei+"] + ([] if q else ["ei+ p+ a+", "p- ei-", "ei+ p+ p+", "ei+ ei- p+"])
    fams.append(family("undirO", 4, [listed("O", "o", ul),
                                      slot("O", "p", C.ix("b+ d+ b- d- a+ c- e3+ e6+ e5- e2-") if q else
                                           C.alph(SEGS, pm) + C.ix("e3+ e6+ e5- e2- e1- e5+ ei+ ei-"), 1, 2)],
                       nsh=1 if q else 4))
    # F7: a MULTI-LINE group that other groups mention, every interleaving of its lines with the
    # lines of the groups that mention it (directly: t, w; through another group: w = t ...)
    t2 = ((1, 1), (1, 1, 1))
    pl = ["a+ b+ c+", "e1+ e3+", "c- b- a-"] + ([] if q else ["a+ e1+ b+ c+"])
    fams.append(family("lateO", 4, [listed("O", "p", pl),
                                     listed("O", "t", ["p+ d+", "p-", "d- p-"] + ([] if q else ["p+ p+"])),
                                     listed("U", "w", ["p", "t a"] + ([] if q else ["p d"]))],
                       split=2 if q else 3, splitmin=2, tagsets=t2, orders="all", nsh=2 if q else 12))
    fams.append(family("lateU", 4, [listed("U", "u", ["a e5", "d b c"] + ([] if q else ["a c", "c w", "a b c d"])),
                                     listed("U", "v", ["u", "u b"]),
                                     listed("U", "w", ["v", "u d"] + ([] if q else ["u v"]))],
                       split=2 if q else 3, splitmin=2, tagsets=t2, orders="all", nsh=1 if q else 8))
    # F7b: the mentioning group is a multi-line group too (two slots with the same identifier)
    fams.append(family("lateOO", 4, [listed("O", "p", ["a+ b+ c+"] + ([] if q else ["a+ e1+ b+ c+"])),
                                      listed("O", "t", ["p+", "a- p-"] if q else ["p+", "p-", "a- p-"]),
                                      listed("O", "t", ["d+", "d+ a+"])] + ([] if q else [listed("U", "w", ["t"])]),
                       split=2, splitmin=2, tagsets=t2, orders="all", nsh=1 if q else 4))
    # F8: E lines WITHOUT DIRECTION at every position of a path (G5): two and three consecutive
    # internal alignments / containments in every field order and sign combination, mixed with a
    # dovetail and with segments.  The witness w = `iba+ b+` (a walk only if iba is travelled against
    # its written order) is in every document: one reading has to explain both answers (C17.reading)
    e5 = C.alph(EDGES[4], pm)
    wit = listed("O", "w", ["iba+ b+"])
    fams.append(family("undirE", 5, [slot("O", "o", C.alph(EDGES[4][:4], pm) if q else e5, 2, 3), wit], nsh=1 if q else 4))
    fams.append(family("undirE-seg", 5, [slot("O", "o", C.ix("dbe+ b+ c+ d+ iba+ icb- cdc+ ide-") if q else
                                              e5 + C.ix("a+ b+ c+ c- d+ e-"), 2, 3), wit], nsh=1 if q else 12))
    # F9: PLACEHOLDERS (G6, fragments and a gap in the graph): the groups arrive before the
    # segments they mention, and the E, F, G lines that mention the same segments arrive between
    # them in every order of the blocks (a multi-line group: also between its lines)
    block = lambda o: o.index("Y") == o.index("X") + 1          # the group lines in one block
    hl = ["a+ b+ c+", "e1+ c+", "c- b-"]
    fams.append(family("holders", 6, [listed("O", "p", hl), listed("U", "u", ["b p", "a e2"])],
                       split=2, splitmin=1, tagsets=((1,), (1, 1)),
                       arrs=arr_codes(lambda o: block(o) and (q is False or o.index("X") < o.index("S"))),
                       nsh=2 if q else 4))
    fams.append(family("holders-between", 6, [listed("O", "p", ["a+ b+ c+"] if q else hl), listed("U", "u", ["b p"]),
                                               listed("O", "o", ["p-"])],
                       split=2, splitmin=2, tagsets=((1, 1),),
                       arrs=arr_codes(lambda o: not block(o) and (q is False or o.index("X") < o.index("S"))),
                       nsh=1 if q else 4))
    return fams


# --------------------------------------------------------------------------
# spec -> code: TLC enumerates the cases of one shard of one family

MC_CFG = "SPECIFICATION Spec\nINVARIANT Case\nCHECK_DEADLOCK FALSE\n"


def tla_to_json(raw):
    """A TLC-printed value made of tuples, strings, integers and booleans -> Python."""
    t = raw.replace("<<", "[").replace(">>", "]").replace("TRUE", "true").replace("FALSE", "false")
    return json.loads(t)


def mc_cases(fam, sh, wd):
    """Run MC_Groups on shard sh of family fam. Returns (cases, (generated, distinct))."""
    os.makedirs(wd, exist_ok=True)
    f = dict(fam, sh=sh)
    cf = os.path.join(wd, "catalog.json")
    with open(cf, "w") as fh:
        json.dump(CAT.json_for(f), fh)
    rc, out = tlc.run_tlc("MC_Groups", MC_CFG, wd, env={"CATALOG_FILE": cf}, workers=1, heap="1500m")
    st = tlc.stats(out)
    if st is None and "0 distinct states found" in out:
        st = (0, 0)
    if rc != 0 or st is None or "No error has been found" not in out:
        raise tlc.MachineryError("MC_Groups failed on %s/%d:\n%s" % (fam["name"], sh, "\n".join(out.splitlines()[-40:])))
    cases = []
    for ln in out.splitlines():
        if ln.startswith('"CASE '):
            v = tla_to_json(json.loads(ln)[5:])
            cases.append({"g": fam["g"], "arr": v[0], "lines": v[1], "cls": v[2]})
    if len(cases) != st[1]:
        raise tlc.MachineryError("MC_Groups %s/%d: %d cases printed, %d states" % (fam["name"], sh, len(cases), st[1]))
    return cases, st


# --------------------------------------------------------------------------
# driving gfapy (recording only)

def _class_orders():
    """Arrangements 5, 6, ...: every order of the blocks S E F G (the lines of the base graph by
    record type), X (the group lines but the last) and Y (the last group line), X before Y."""
    import itertools
    return ["".join(p) for p in itertools.permutations("EFGSXY") if p.index("X") < p.index("Y")]


ARR_ORDERS = _class_orders()


def arr_codes(pred):
    return [5 + i for i, o in enumerate(ARR_ORDERS) if pred(o)]


def arrival(case):
    """Concrete lines of a case in the order they are added."""
    base = [text_of(l) for l in GRAPHS[case["g"] - 1]]
    S = [l for l in base if l[0] == "S"]
    E = [l for l in base if l[0] == "E"]
    grp = [CAT.line_text(ld) for ld in case["lines"]]
    a = case["arr"]
    if a >= 5:
        blocks = {k: [l for l in base if l[0] == k] for k in "SEFG"}
        blocks["X"] = grp[:-1] if len(grp) > 1 else grp
        blocks["Y"] = grp[-1:] if len(grp) > 1 else []
        return [l for k in ARR_ORDERS[a - 5] for l in blocks[k]]
    if a == 1:
        return S + E + grp
    if a == 2:
        return grp + S + E
    if a == 3:
        return S + grp + E
    return E + grp + S


def _callsite(e):
    tb = e.__traceback__
    site = ""
    n = 0
    while tb is not None and n < 3000:
        fn = tb.tb_frame.f_code.co_filename
        if os.sep + "gfapy" + os.sep in fn:
            site = "gfapy/" + fn.split(os.sep + "gfapy" + os.sep, 1)[1] + ":" + tb.tb_frame.f_code.co_name
        tb = tb.tb_next
        n += 1
    return site


class Guard:
    """Result class of one call into gfapy; a fired watchdog poisons the rest of the case."""

    def __init__(self):
        self.dead = False
        self.notes = []

    def call(self, fn):
        if self.dead:
            return "FOREIGN", None
        try:
            return "ok", fn()
        except Timeout:
            self.dead = True
            self.notes.append("timeout")
            return "FOREIGN", None
        except BaseException as e:  # noqa
            c = project.errclass(e)
            self.notes.append(type(e).__name__ + ("@" + _callsite(e) if c == "FOREIGN" else ""))
            return c, None


def _limits():
    """Watchdog handler; a recursion limit that the nesting depths used here (<= 3 groups) stay far
    below, so that unbounded recursion over cyclic nesting surfaces as RecursionError quickly."""
    signal.signal(signal.SIGVTALRM, _alarm)
    sys.setrecursionlimit(400)


def _ref_name(x):
    return x if isinstance(x, str) else str(x.name)


def _items(o):
    out = []
    for it in o.items:
        if o.record_type == "O":
            out.append({"id": _ref_name(it.line), "o": str(it.orient)})
        else:
            out.append({"id": _ref_name(it), "o": ""})
    return out


def _group(gfa, gid):
    o = gfa.line(gid)
    if o is None or o.record_type not in ("O", "U"):
        return None
    return o


def _oriented(xs, pool):
    return [{"id": _ref_name(x.line), "o": str(x.orient), "p": 0} for x in xs]


def _plain(xs, pool):
    """members of a set answer: name and the written form of the line (pool index)"""
    return [{"id": _ref_name(x), "o": "", "p": pool.add(project.abstract_text(str(x), "gfa2"))} for x in xs]


QUERIES = {"O": ("captured_path", "captured_segments", "captured_edges"),
           "U": ("induced_set", "induced_segments_set", "induced_edges_set")}


def run_case(gfapy, case, pool, cid):
    g = Guard()
    signal.setitimer(signal.ITIMER_VIRTUAL, 10.0)
    try:
        gfa = gfapy.Gfa(version="gfa2", vlevel=1)
        ev = []
        for text in arrival(case):
            res, _ = g.call(lambda: gfa.add_line(text))
            e = {"l": pool.add(project.abstract_text(text, "gfa2")), "res": res, "gx": "none", "gi": [], "gt": []}
            if text[0] in "OU":
                gid = text.split("\t")[1]

                def look():
                    o = _group(gfa, gid)
                    if o is None or o.record_type != text[0]:
                        return None
                    return _items(o), sorted(o.field_to_s(t, tag=True) for t in o.tagnames)
                r, v = g.call(look)
                if r != "ok":
                    e["gx"] = r
                elif v is not None:
                    e["gx"], e["gi"], e["gt"] = "ok", v[0], v[1]
            ev.append(e)
        qs = []
        for c in case["cls"]:
            gid = c[0]
            q = {"id": gid, "rt": "-"}
            for k in "abc":
                q[k] = {"r": "none", "w": []}
            r, o = g.call(lambda: _group(gfa, gid))
            if r == "ok" and o is not None:
                q["rt"] = o.record_type
                conv = _oriented if o.record_type == "O" else _plain
                for k, attr in zip("abc", QUERIES[o.record_type]):
                    r2, v = g.call(lambda: conv(getattr(o, attr), pool))
                    q[k] = {"r": r2, "w": v if r2 == "ok" else []}
            elif r != "ok":
                q["rt"] = "O"
                for k in "abc":
                    q[k] = {"r": r, "w": []}
            qs.append(q)
        val, _ = g.call(lambda: gfa.validate())
    finally:
        signal.setitimer(signal.ITIMER_VIRTUAL, 0)
    return {"id": cid, "ev": ev, "q": qs, "val": val,
            "exp": [[c[0], c[2]] for c in case["cls"]] if case.get("from_tlc", True) else [],
            "notes": g.notes}


TRACE_CFG = "SPECIFICATION Spec\nCHECK_DEADLOCK FALSE\n"
EXPLAINED = []          # replay only: what TraceGroups says it expects


def validate_records(recs, pool, wd, explain=False):
    """One single-worker TLC over one file of records. Returns ({case id: [clauses]}, stats)."""
    os.makedirs(wd, exist_ok=True)
    f = os.path.join(wd, "trace.json")
    with open(f, "w") as fh:
        json.dump({"pool": pool.items, "cases": [{k: v for k, v in r.items() if k != "notes"} for r in recs]}, fh)
    rc, out = tlc.run_tlc("TraceGroups", TRACE_CFG, wd, env={"TRACE_FILE": f, "GROUPS_EXPLAIN": "1" if explain else "0"},
                          workers=1, heap="1500m")
    st = tlc.stats(out)
    if rc != 0 or st is None or "No error has been found" not in out:
        raise tlc.MachineryError("TraceGroups failed:\n" + "\n".join(out.splitlines()[-40:]))
    if st[1] != 2 * len(recs):
        raise tlc.MachineryError("TraceGroups consumed %d states, expected %d" % (st[1], 2 * len(recs)))
    rej = {}
    for raw in tlc.parse_tuples(out, "REJECT"):
        v = tlc.tla_value(raw)
        rej[v[1]] = sorted(v[2])
    os.remove(f)
    del EXPLAINED[:]
    if explain:
        for ln in out.splitlines():
            if ln.startswith('"EXPECT '):
                EXPLAINED.append(json.loads(ln)[7:])
    return rej, st


def case_key(case):
    return json.dumps([case["g"], case["arr"], case["lines"]])


def shard_job(job):
    """Whole pipeline for one shard of one family, in a worker process."""
    fam, sh, wdname = job
    t0 = time.time()
    wd = os.path.join(tlc.WORK, wdname)
    cases, st = mc_cases(fam, sh, os.path.join(wd, "mc"))
    t1 = time.time()
    gfapy = _load_gfapy()
    _limits()
    pool = project.Pool()
    recs = []
    seen = {}
    for i, c in enumerate(cases):
        k = case_key(c)
        if k in seen:
            continue
        seen[k] = i
        recs.append(run_case(gfapy, c, pool, i))
    t2 = time.time()
    rej, st2 = validate_records(recs, pool, os.path.join(wd, "tv"))
    t3 = time.time()
    hist = {}
    nontriv = 0
    relax = 0
    for i in seen.values():
        c = cases[i]
        for cl in c["cls"]:
            key = cl[1] + ":" + cl[2] + ((":supplied-or-inlined" if cl[3] else ":literal") if cl[2] in ("walk", "set") else "")
            hist[key] = hist.get(key, 0) + 1
        nontriv += 1 if any(cl[3] for cl in c["cls"]) else 0
        relax += 1 if any(cl[4] for cl in c["cls"]) else 0
    byid = {r["id"]: r for r in recs}
    out = []
    for cid, clauses in rej.items():
        r = byid[cid]
        out.append({"fam": fam["name"], "case": {k: cases[cid][k] for k in ("g", "arr", "lines", "cls")},
                    "clauses": clauses, "rec": r})
    samples = [{"lines": arrival(cases[i])[-len(cases[i]["lines"]):] if cases[i]["arr"] == 1 else arrival(cases[i]),
                "expected": cases[i]["cls"], "gfapy": [[q["id"], q["a"]["r"], " ".join(x["id"] + x["o"] for x in q["a"]["w"])]
                                                      for q in byid[i]["q"]]}
               for i in list(seen.values())[:: max(1, len(seen) // 2)][:2]]
    return {"fam": fam["name"], "sh": sh, "mc_states": st[1], "mc_generated": st[0], "cases": len(cases),
            "distinct": len(seen), "nontrivial": nontriv, "relaxed_differs": relax, "hist": hist,
            "tv_states": st2[1], "rejects": out, "samples": samples,
            "t": [round(t1 - t0, 1), round(t2 - t1, 1), round(t3 - t2, 1)]}


# --------------------------------------------------------------------------
# the check

API_SITE = {"C17.path": "gfapy/line/group/ordered/captured_path.py:captured_path",
            "C17.path-error-missed": "gfapy/line/group/ordered/captured_path.py:captured_path",
            "C17.path-error-spurious": "gfapy/line/group/ordered/captured_path.py:captured_path",
            "C17.reading": "gfapy/line/group/ordered/captured_path.py:captured_path",
            "C17.set": "gfapy/line/group/unordered/induced_set.py:induced_set",
            "C17.set-error": "gfapy/line/group/unordered/induced_set.py:induced_set",
            "C17.items": "gfapy/line/group/gfa2/same_id.py:_process_not_unique",
            "C17.tags": "gfapy/line/group/gfa2/same_id.py:_process_not_unique",
            "C17.validate": "gfapy/gfa.py:validate"}


def _answers(rec):
    out = []
    for q in rec["q"]:
        for k, nm in zip("abc", QUERIES.get(q["rt"], ("-", "-", "-"))):
            a = q[k]
            out.append("%s.%s -> %s" % (q["id"], nm, " ".join(x["id"] + x["o"] for x in a["w"]) if a["r"] == "ok" else a["r"]))
    return out


def violation_of(rj):
    case, rec, clauses = rj["case"], rj["rec"], rj["clauses"]
    lines = arrival(case)
    grp = [CAT.line_text(ld) for ld in case["lines"]]
    site = ""
    if "foreign" in clauses:
        for n in rec["notes"]:
            if "@" in n:
                site = n.split("@", 1)[1]
    else:
        site = API_SITE.get(clauses[0], "")
    return dict(family="groups", clauses=clauses, input="\n".join(grp), api="Gfa.add_line;group queries",
                callsite=site, fam=rj["fam"], case=case, document=lines,
                expected_strict=[[c[0], c[2]] for c in case["cls"]], observed=_answers(rec),
                adds=[[l, e["res"]] for l, e in zip(lines, rec["ev"])], validate=rec["val"], notes=rec["notes"],
                what="%s on graph G%d + %s (strict expectation %s; gfapy: %s)" % (
                    ",".join(clauses), case["g"], " / ".join(g.replace("\t", " ") for g in grp),
                    ", ".join("%s=%s" % (c[0], c[2]) for c in case["cls"]),
                    "; ".join(a for a in _answers(rec) if a.split(".")[1].startswith(("captured_path", "induced_set ")))))


def run_families(fams, name):
    jobs = []
    for f in fams:
        for sh in range(f["nsh"]):
            jobs.append((f, sh, "%s/%s-%d" % (name, f["name"], sh)))
    tlc.workdir(name)
    heavy = ["repO3", "repO4", "nestO3", "nestO3-ends", "nestO2", "nestU-cyc", "nestU-paths", "splitO", "splitU",
             "lateO", "lateU"]   # slow per case or slow to enumerate: start them first
    jobs.sort(key=lambda j: heavy.index(j[0]["name"]) if j[0]["name"] in heavy else len(heavy))
    with MPool(processes=min(tlc.NCPU, len(jobs))) as mp:
        res = mp.map(shard_job, jobs, chunksize=1)
    return res


def check_c17(out, tier, seed):
    rejects = selftest(tolerant=True)
    fams = families(tier)
    res = run_families(fams, "groups-" + tier)
    tot = dict(cases=0, distinct=0, nontrivial=0, relaxed=0, mc=0, mcg=0, tv=0)
    hist, perfam = {}, {}
    for r in res:
        tot["cases"] += r["cases"]
        tot["distinct"] += r["distinct"]
        tot["nontrivial"] += r["nontrivial"]
        tot["relaxed"] += r["relaxed_differs"]
        tot["mc"] += r["mc_states"]
        tot["mcg"] += r["mc_generated"]
        tot["tv"] += r["tv_states"]
        for k, v in r["hist"].items():
            hist[k] = hist.get(k, 0) + v
        pf = perfam.setdefault(r["fam"], {"cases": 0, "rejected": 0})
        pf["cases"] += r["distinct"]
        pf["rejected"] += len(r["rejects"])
        rejects += r["rejects"]
        if r["sh"] == 0 and len(out.samples) < 8:
            out.samples += r["samples"][:1]
    mach = [rj for rj in rejects if any(c.startswith("harness") for c in rj["clauses"])]
    if mach:
        raise tlc.MachineryError("harness clause(s) %s on %s" % (mach[0]["clauses"], arrival(mach[0]["case"])))
    # keep up to 12 examples per (family, clause set), smallest inputs first, seeded tie-break
    rnd = random.Random(seed)
    groups = {}
    for rj in rejects:
        groups.setdefault((rj["fam"], tuple(rj["clauses"])), []).append(rj)
    clause_hist = {}
    for (fam, cl), lst in sorted(groups.items()):
        clause_hist["%s:%s" % (fam, "+".join(cl))] = len(lst)
        rnd.shuffle(lst)
        lst.sort(key=lambda rj: sum(len(l[2]) for l in rj["case"]["lines"]))
        for rj in lst[:12]:
            out.violations.append(violation_of(rj))
        if "foreign" in cl:
            out.others["C07"] = out.others.get("C07", 0) + len(lst)
    out.violations.sort(key=lambda v: (len(v["input"]), v["input"]))
    out.add_cov(evaluations=tot["distinct"], distinct_nontrivial=tot["nontrivial"],
                cases_enumerated_by_tlc=tot["cases"], spec_states=tot["mc"], spec_states_generated=tot["mcg"],
                trace_states=tot["tv"], relaxed_reading_matters=tot["relaxed"], rejected_cases=len(rejects),
                exhaustive=True,
                expectation_histogram=hist, per_family=perfam, rejected_by_family_and_clause=clause_hist,
                bounds=[{k: (f[k] if k != "slots" else [{"line": s["rt"] + " " + s["id"], "len": [s["lo"], s["hi"]],
                                                          "listed": [" ".join(CAT.item_text(i) for i in x) for x in s["seqs"]],
                                                          "alphabet": " ".join(CAT.item_text(i) for i in s["alph"]),
                                                          "must_list_one_of": " ".join(CAT.item_text(i) for i in s["must"])}
                                                         for s in f["slots"]])
                         for k in ("name", "g", "slots", "arrs", "split", "orders")} for f in fams],
                rule="every case of every family is enumerated by TLC (MC_Groups: all item sequences within the length "
                     "bounds over the family's alphabet x cuts into lines x arrival orders x tag sets x arrangements; the "
                     "space of each family is exhausted, nothing is sampled) and run against gfapy; non-trivial = a case in "
                     "which the strict expectation of some group is an error kind, a walk with more elements than the "
                     "group lists (something supplied or inlined), or an induced set larger than the item list; "
                     "design-level invariants of Groups.tla checked by TLC on every case")
    out.assumptions += [
        "TLC 1.8; spec/Groups.tla written from the GFA2 specification text (quoted in the module)",
        "harness/project.py abstract_text: syntactic abstraction of the lines that were added",
        "acceptance is relational: any gfapy.Error class, raised at add_line / at the query / by validate; implied "
        "edges looked for among dovetails or among all E lines; either direction of travel for an E line that is "
        "not a dovetail written exit->entry; a nested path spliced as items or as its walk; a set over a path "
        "without unique walk may raise or answer with the mentioned segments; cyclic set nesting may raise a "
        "gfapy.Error or answer with the fixpoint",
        "gaps and fragments as group items, anonymous '*' edges, and edges over undefined segments are not enumerated",
    ]


PROPS = {"C17": (check_c17, "exploration")}


# --------------------------------------------------------------------------
# replay of one recorded violation

def _run_single(case, name):
    gfapy = _load_gfapy()
    _limits()
    pool = project.Pool()
    rec = run_case(gfapy, case, pool, 0)
    rej, _ = validate_records([rec], pool, tlc.workdir(name), explain=True)
    return rec, rej.get(0, [])


def replay(prop, v, path):
    case = v["case"]
    rec, clauses = _run_single(case, "groups-replay-%d" % os.getpid())
    for l, e in zip(arrival(case), rec["ev"]):
        print("  add_line(%r) -> %s%s" % (l, e["res"], ("   items now: " + " ".join(x["id"] + x["o"] for x in e["gi"])
                                                         + "  tags: " + " ".join(e["gt"])) if l[0] in "OU" else ""))
    for a in _answers(rec):
        print("  " + a)
    print("  validate() ->", rec["val"], " notes:", rec["notes"])
    for x in EXPLAINED:
        print("  specification expects:", x)
    if "C17.reading" in clauses:
        print("  each answer is explained by some reading, but no ONE reading (where implied edges are looked for x "
              "which way an E line without direction may be travelled) explains them all")
    if clauses:
        print("REJECT clauses=%s" % ",".join(clauses))
        print("VIOLATION property=%s replay=%s" % (prop, path))
        return 1
    print("replay passes")
    return 0


# --------------------------------------------------------------------------
# binding: corrupted records must be rejected, the recorded ones accepted

def selftest(tolerant=False):
    """Hand-made cases (no TLC enumeration): the record of what gfapy did must be accepted as it
    is, and rejected with the right clause after each corruption.  tolerant (inside a check): a
    recording that is rejected AS IT IS is a finding about the tree under test, not about the
    machinery: it is returned (and reported as a violation), its corruptions are not judged."""
    C = CAT
    base = [
        # a path written out in full, cut into two lines with disjoint tags
        {"g": 1, "arr": 1, "lines": [["O", "o", C.ix("a+ e1+"), 2], ["O", "o", C.ix("b+ e2+ c+"), 3]],
         "cls": [["o", "O", "walk", False, False]], "from_tlc": False},
        # a set cut into two lines
        {"g": 1, "arr": 3, "lines": [["U", "u", C.ix("a"), 2], ["U", "u", C.ix("b d"), 3]],
         "cls": [["u", "U", "set", True, False]], "from_tlc": False},
        # the second line contradicts a tag of the first: refused, group unchanged
        {"g": 1, "arr": 1, "lines": [["O", "o", C.ix("a+ e1+"), 2], ["O", "o", C.ix("b+"), 4]],
         "cls": [["o", "O", "walk", False, False]], "from_tlc": False},
        # a two-line path p mentioned by a set and a path that arrive between its lines
        {"g": 4, "arr": 1, "lines": [["O", "p", C.ix("a+ b+"), 1], ["U", "w", C.ix("p"), 1], ["O", "t", C.ix("p+ d+"), 1],
                                     ["O", "p", C.ix("c+"), 1]],
         "cls": [["p", "O", "walk", True, False], ["w", "U", "set", True, False], ["t", "O", "walk", True, False]],
         "from_tlc": False},
        # a nested path walked twice (no path is nested in itself)
        {"g": 4, "arr": 1, "lines": [["O", "q", C.ix("a+ b+"), 1], ["O", "o", C.ix("q+ q+"), 1]],
         "cls": [["q", "O", "walk", True, False], ["o", "O", "walk", True, False]], "from_tlc": False},
        # an internal alignment first, then a nested path that starts at its second segment
        {"g": 4, "arr": 1, "lines": [["O", "p", C.ix("d+ a+"), 1], ["O", "o", C.ix("ei+ p+"), 1]],
         "cls": [["p", "O", "walk", True, False], ["o", "O", "walk", True, False]], "from_tlc": False},
        # two internal alignments first (the shared segment is sid1 of one, sid2 of the other), next
        # to the witness that the implementation travels such edges against their written order
        {"g": 5, "arr": 1, "lines": [["O", "o", C.ix("iba+ icb+"), 1], ["O", "w", C.ix("iba+ b+"), 1]],
         "cls": [["o", "O", "not-contiguous", True, True], ["w", "O", "not-contiguous", True, True]], "from_tlc": False},
        # groups first, then the fragments, the gap, the segments and the edges
        {"g": 6, "arr": arr_codes(lambda o: o == "XYFGSE")[0],
         "lines": [["O", "p", C.ix("a+ b+"), 1], ["U", "u", C.ix("b p"), 1], ["O", "p", C.ix("c+"), 1]],
         "cls": [["p", "O", "walk", True, False], ["u", "U", "set", True, False]], "from_tlc": False},
    ]
    gfapy = _load_gfapy()
    _limits()
    pool = project.Pool()
    recs = [run_case(gfapy, c, pool, i) for i, c in enumerate(base)]
    want = {i: [] for i in range(len(base))}

    def mutant(i, fn, clause):
        r = copy.deepcopy(recs[i])
        r["id"] = len(recs) + len(muts)
        fn(r)
        muts.append(r)
        want[r["id"]] = [clause]
        origin[r["id"]] = i
    muts = []
    origin = {}

    def swap_walk(r):
        w = r["q"][0]["a"]["w"]
        w[0], w[2] = w[2], w[0]

    def flip_orient(r):
        w = r["q"][0]["a"]["w"]
        w[1]["o"] = "-"

    def drop_edge(r):
        r["q"][0]["c"]["w"] = [x for x in r["q"][0]["c"]["w"] if x["id"] != "e1"]

    def drop_edge_all(r):
        r["q"][0]["a"]["w"] = [x for x in r["q"][0]["a"]["w"] if x["id"] != "e6"]

    def extra_seg(r):
        r["q"][0]["b"]["w"].append({"id": "c", "o": "", "p": pool.add(project.abstract_text(text_of(G1[2]), "gfa2"))})

    def reorder_items(r):
        e = [e for e in r["ev"] if e["gx"] == "ok"][-1]
        e["gi"][0], e["gi"][-1] = e["gi"][-1], e["gi"][0]

    def drop_tag(r):
        e = [e for e in r["ev"] if e["gx"] == "ok"][-1]
        e["gt"] = e["gt"][:1]

    def refuse_second(r):
        e = [e for e in r["ev"] if e["gx"] == "ok"][-1]
        e["res"] = "NotUniqueError"

    def seg_list(r):
        r["q"][0]["b"]["w"] = r["q"][0]["b"]["w"][:-1]

    def raise_instead(r):
        r["q"][0]["a"] = {"r": "NotFoundError", "w": []}
        r["q"][0]["b"] = {"r": "NotFoundError", "w": []}
        r["q"][0]["c"] = {"r": "NotFoundError", "w": []}

    def foreign(r):
        r["q"][0]["a"] = {"r": "FOREIGN", "w": []}

    mutant(0, swap_walk, "C17.path")
    mutant(0, flip_orient, "C17.path")
    mutant(0, seg_list, "C17.path")
    mutant(0, raise_instead, "C17.path-error-spurious")
    mutant(0, reorder_items, "C17.items")
    mutant(0, drop_tag, "C17.tags")
    mutant(0, refuse_second, "C17.items")
    mutant(0, foreign, "foreign")
    mutant(1, drop_edge, "C17.set")
    mutant(1, drop_edge_all, "C17.set")
    mutant(1, extra_seg, "C17.set")
    mutant(1, reorder_items, "C17.items")
    mutant(1, raise_instead, "C17.set-error")

    def accept_contradiction(r):
        r["ev"][-1]["res"] = "ok"

    def merged_anyway(r):
        r["ev"][-1]["gi"].append({"id": "b", "o": "+"})

    def tag_overwritten(r):
        r["ev"][-1]["gt"] = ["xx:i:2"]

    mutant(2, accept_contradiction, "C17.tags")
    mutant(2, merged_anyway, "C17.tags")
    mutant(2, tag_overwritten, "C17.tags")

    def raises(k):
        def fn(r):
            for x in "abc":
                r["q"][k][x] = {"r": "RuntimeError", "w": []}
        return fn

    def stale_walk(r):          # t as if p still were its first line: a+ e1+ b+, then d+ does not follow
        for x in "abc":
            r["q"][2][x] = {"r": "NotFoundError", "w": []}

    def stale_set(r):           # w as if p still were its first line
        for x in "abc":
            r["q"][1][x]["w"] = [y for y in r["q"][1][x]["w"] if y["id"] in ("a", "b", "e1", "e2")]

    def stale_walk_short(r):    # p itself answered from its first line only
        r["q"][0]["a"]["w"] = r["q"][0]["a"]["w"][:3]
        r["q"][0]["b"]["w"] = r["q"][0]["b"]["w"][:2]
        r["q"][0]["c"]["w"] = r["q"][0]["c"]["w"][:1]

    mutant(3, stale_walk, "C17.path-error-spurious")
    mutant(3, stale_set, "C17.set")
    mutant(3, stale_walk_short, "C17.path")
    mutant(4, raises(1), "C17.path-error-spurious")
    mutant(5, raises(1), "C17.path-error-spurious")
    mutant(6, raises(0), "C17.reading")          # alone acceptable (written order binding), not next to w
    mutant(7, raises(0), "C17.path-error-spurious")   # p left unresolved although everything arrived
    mutant(7, raises(1), "C17.set-error")
    rej, _ = validate_records(recs + muts, pool, tlc.workdir("groups-selftest"))
    broken = [i for i in range(len(base)) if rej.get(i)] if tolerant else []
    for cid, w in want.items():
        got = rej.get(cid, [])
        if cid in broken or origin.get(cid) in broken:
            continue
        if (w and not set(w) <= set(got)) or (not w and got):
            raise tlc.MachineryError("C17 selftest: record %d expected clauses %s, TraceGroups gave %s" % (cid, w, got))
    if tolerant:
        return [{"fam": "selftest", "case": {k: base[i][k] for k in ("g", "arr", "lines", "cls")},
                 "clauses": rej[i], "rec": recs[i]} for i in broken]
    return len(muts)
