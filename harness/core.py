"""Core family: histories of add/rm/disconnect/rename over catalogues, replayed
into the real gfapy with the full projection after every call, validated by
TLC against spec/TraceGfa.tla (which uses Gfa!Step)."""
import hashlib, json, os, random, signal, sys, time, itertools
from multiprocessing import Pool as MPool

from . import project
from .tlc import VERIF, WORK, NCPU, MachineryError, run_tlc, run_sharded, workdir, stats, \
    parse_tuples, tla_value

REPO = os.environ.get("VERIF_REPO", "/repo")

# --------------------------------------------------------------------------
# catalogues: fields separated by "|" (items of O/U contain blanks)

CATALOGUES = {
    "gfa1": dict(version="gfa1", lines=[
        "S|A|ACGT", "S|B|*|LN:i:6", "S|C|*",
        "L|A|+|B|+|2M1D1M", "L|A|+|C|+|1M", "L|A|+|C|+|2M", "L|A|+|A|+|*", "L|A|+|A|-|*",
        "L|B|-|A|-|1M1I2M", "L|C|+|A|+|*", "L|B|+|C|-|*|ID:Z:l1", "L|B|+|C|-|3M",
        "L|C|+|B|+|*|ID:Z:A", "C|A|+|C|+|0|*|ID:Z:p1", "S|1|*", "S|3|*", "L|1|+|3|+|*|ID:Z:2",
        "C|A|+|B|+|1|2M", "C|A|-|B|+|0|*|ID:Z:c1",
        "P|p1|A+,B+|2M1D1M", "P|p2|B-,A-|*", "P|p4|A+,B+,C-|*,*",
        "P|p5|A+,C+,A+|1M,*,*", "P|p6|C+|*", "S|E|*|aa:A:c|bb:i:1|cc:J:[1, 2]",
        "P|B|A+,B+|*", "L|A|+|C|+|*|ID:Z:C", "C|A|+|B|+|1|2M", "C|A|+|C|+|0|*", "C|A|+|A|-|0|*", "C|B|-|B|-|1|*|ID:Z:c2",
        "P|p9|A+,A-,B+|2M1D1M,*", "P|p10|A+,C+,A+|2M,*", "P|p11|A+|2M", "L|A|+|C|+|3M", "P|p12|A+,C+|3M", "P|p13|C-,A-|2M",
        "#| comment", "H|xx:i:1", "H|TS:i:1", "H|yy:i:2|TS:i:2", "H|TS:i:0", "H|ab:Z:x|TS:i:5", "H|ab:Z:y|cd:i:0|TS:i:0",
    ], ids=["A", "B", "C", "p1", "p2", "l1", "c1", "zz", "1", "3"], unused=True,
        renames=[("A", "D"), ("A", "B"), ("B", "p1"), ("p1", "q"), ("l1", "l2"), ("C", "zz"), ("A", "4"), ("3", "5"),
                 ("l1", "6"), ("p1", "9"), ("A", "*"), ("p1", "*"), ("B", "a b")],
        tagedits=[("A", "xx:i:5"), ("B", "LN:i:7"), ("p1", "yy:Z:a b"), ("l1", "RC:i:3"), ("E", "aa:Z:s"), ("F", "bb:Z:t"),
                  ("A", "zz:A:q"), ("D", "zz:i:3")],
        deltags=[("l1", "ID:Z:l1"), ("c1", "ID:Z:c1"), ("F", "aa:A:c"), ("E", "cc:J:[1, 2]"), ("D", "zz:A:q")],
        clones=[("E", "F"), ("A", "D"), ("p1", "q"), ("p6", "p7"), ("A", "B")],
        hadds=[("xx:i:7", True), ("xx:i:1", True), ("yy:i:3", True), ("xx:i:abc", False), ("yy:i:q", False), ("TS:i:1", True), ("TS:i:9", True)],
        badlines=["L|A|+|B|+|2Q", "L|A|+|C|x|*", "C|A|+|B|+|-1|*", "P|p1|A+,B+|1M,1M,1M", "S|A|AC GT", "L|B|+|C|-|*|ID:Z:l1|ID:Z:l2",
                  "P|p8|A+,,B+|*", "C|A|+|B|+|1|2M|zz:i:x"], badtags=[("A", "xx:Z:bad"), ("p1", "yy:Z:bad"), ("l1", "RC:Z:bad")], addcs=["S|A|ACGT", "L|A|+|C|+|1M", "C|A|+|B|+|1|2M", "P|p2|B-,A-|*"],
        setfs=[("S|C|*", 2, "ACG"), ("S|A|ACGT", 2, "*"), ("L|A|+|B|+|2M1D1M", 5, "*"), ("L|A|+|C|+|1M", 2, "-"),
               ("L|A|+|C|+|1M", 3, "B"), ("C|A|+|B|+|1|2M", 5, "0"), ("C|A|+|B|+|1|2M", 6, "*"), ("C|A|+|B|+|1|2M", 2, "-"),
               ("C|A|+|B|+|1|2M", 1, "C"), ("P|p1|A+,B+|2M1D1M", 3, "*"), ("P|p2|B-,A-|*", 2, "A+,B+"),
               ("C|A|-|B|+|0|*|ID:Z:c1", 5, "2"), ("C|A|+|B|+|1|2M", 5, "!x")]),
    "gfa1s": dict(version="gfa1", lines=[
        "S|A|*", "S|B|*", "S|C|*",
        "L|A|+|B|+|2M1D1M", "L|A|+|C|+|*", "L|B|-|A|-|1M1I2M", "L|A|+|A|-|*",
        "C|A|+|B|+|1|2M",
        "P|p1|A+,B+|2M1D1M", "P|p2|B-,A-|*", "P|p3|B+|*",
    ], ids=["A", "B", "p1", "zz"], renames=[("A", "D"), ("A", "B")], tagedits=[("A", "xx:i:5"), ("p1", "yy:Z:a b")],
        validate=True,
        setfs=[("C|A|+|B|+|1|2M", 5, "0"), ("L|A|+|B|+|2M1D1M", 5, "*"), ("C|A|+|B|+|1|2M", 4, "-")]),
    "gfa2": dict(version="gfa2", lines=[
        "S|a|4|ACGT", "S|b|6|*", "S|c|3|*",
        "E|e1|a+|b+|2|4$|0|2|2M", "E|e2|a+|b-|0|4$|1|5|*", "E|e3|a+|c+|1|2|1|2|*",
        "E|*|a+|b+|2|4$|0|2|*", "E|e4|a+|a-|2|4$|2|4$|*", "E|e5|b+|c+|3|6$|0|3$|*",
        "G|g1|a+|b-|10|*", "G|g2|b+|c+|5|2",
        "F|a|x+|0|2|0|2|*", "F|a|x-|1|3|0|2|*",
        "O|o1|a+ b+", "O|o2|a+ e1+ b+", "O|o3|o2- c+", "O|o1|c+|xx:i:1", "O|o6|e1- a-", "O|o7|e5- b-",
        "U|u1|a e1 g1", "U|u2|u1 o1", "U|u1|c|yy:i:2", "U|u1|b|yy:i:3", "U|u1|b|yy:Z:2",
        "U|u3|u4", "U|u4|u3",
        "X|custom|1", "S|o1|3|*", "S|2|3|*", "E|7|a+|2+|0|1|2|3$|*",
        "# gfa2 comment", "H|TS:i:10", "S|f|3|*|aa:A:c|bb:i:1",
        "G|g3|a+|c-|7|*", "G|*|a+|b-|3|1", "F|a|y+|0|1|0|1|*", "U|u5|a e1", "O|o8|a+ e3+ c+",
        "E|c|a+|c+|0|1|0|1|*", "G|b|a+|b-|4|*", "U|u6|a u6", "O|o9|a+ o9+",
        "O|o10|a+ g1+ b-", "O|o11|b+ g2+ c+ g3- a-", "X|custom|1", "O|u1|a+ b+", "U|o1|a b", "O|o13|e3+ e3+ a+", "O|o14|e3- e3- c-",
        "E|*|a+|a+|0|4$|0|4$|*", "E|e6|a-|a-|0|4$|0|4$|*", "O|o15|a+ b+ a+ o15+", "U|u8|a b a u8", "O|o16|x+ y+ x+ y+ x+ o16+",
        "O|o1|a+ b+ a+ o1+",
        "E|*|a+|b+|2|4$|0|2|*", "G|*|a+|b-|3|1", "F|a|x+|0|2|0|2|*", "U|u7|a|aa:A:c|jj:J:[1, 2]", "U|u7|b", "O|o12|a+|aa:A:c", "O|o12|b+",
    ], ids=["a", "b", "c", "e1", "e4", "g1", "g2", "g3", "o1", "o2", "u1", "u3", "zz", "2"], unused=True,
        renames=[("a", "d"), ("a", "b"), ("e1", "e9"), ("g1", "g9"), ("o1", "u1"), ("u1", "u2"), ("b", "e1"),
                 ("a", "8"), ("e1", "9"), ("2", "11"), ("a", "*"), ("e1", "*"), ("e4", "*"), ("g1", "*"), ("o1", "*"),
                 ("u1", "*"), ("u2", "*"), ("b", "a b"), ("e2", "e 2")],
        tagedits=[("a", "xx:i:5"), ("e1", "yy:Z:a b"), ("u1", "yy:i:9"), ("o1", "xx:i:2"), ("g1", "zz:Z:q"), ("h", "aa:Z:s"),
                  ("f", "bb:Z:t")],
        badtags=[("a", "xx:Z:bad"), ("e1", "yy:Z:bad"), ("u1", "yy:Z:bad")],
        clones=[("f", "h"), ("a", "d"), ("e1", "e9"), ("o1", "o9"), ("u1", "u9"), ("g1", "g9"), ("a", "b")],
        hadds=[("TS:i:10", True), ("TS:i:11", True), ("zq:i:2", True), ("zq:i:x y", False)],
        badlines=["E|e1|a+|b+|5|2|0|2|*", "E|e5|b+|c+|3|6$|0|3$|2Q", "G|g1|a+|b-|x|*", "F|a|x+|3|1|0|2|*",
                  "O|o1|a+ b", "U|u1|a  b", "E|e3|a+|c+|1|2|1|2|*|zz:i:x", "G|g2|b+|c|5|2"],
        deltags=[("h", "aa:A:c"), ("f", "bb:i:1"), ("e9", "yy:Z:a b")],
        addcs=["S|b|6|*", "E|*|a+|b+|2|4$|0|2|*", "F|a|x+|0|2|0|2|*", "O|o1|a+ b+", "X|custom|1"],
        setfs=[("S|a|4|ACGT", 3, "*"), ("S|b|6|*", 2, "7"), ("E|e1|a+|b+|2|4$|0|2|2M", 8, "*"), ("E|e1|a+|b+|2|4$|0|2|2M", 4, "1"),
               ("E|e1|a+|b+|2|4$|0|2|2M", 2, "a-"), ("E|e2|a+|b-|0|4$|1|5|*", 8, "4M"), ("G|g1|a+|b-|10|*", 4, "7"),
               ("G|g1|a+|b-|10|*", 5, "3"), ("G|g1|a+|b-|10|*", 3, "c+"), ("F|a|x+|0|2|0|2|*", 2, "y+"),
               ("F|a|x+|0|2|0|2|*", 2, "x-"), ("F|a|x-|1|3|0|2|*", 3, "0"), ("F|a|x+|0|2|0|2|*", 1, "b"),
               ("F|a|x+|0|2|0|2|*", 7, "2M"), ("O|o1|a+ b+", 2, "a+"), ("U|u1|a e1 g1", 2, "a"),
               ("G|g1|a+|b-|10|*", 4, "!x"), ("F|a|x+|0|2|0|2|*", 2, "!read9"), ("F|a|x-|1|3|0|2|*", 2, "!y z+")]),
    "gfa2s": dict(version="gfa2", lines=[
        "S|a|4|*", "S|b|6|*",
        "E|e1|a+|b+|2|4$|0|2|*", "E|*|a+|b+|2|4$|0|2|*", "E|*|a+|b+|2|4$|0|2|*", "E|e2|a+|b-|0|4$|1|5|*",
        "G|g1|a+|b-|10|*",
        "O|o1|a+ e1+ b+", "U|u1|a e1 g1", "U|u2|u1 o1", "O|o6|e1- a-", "U|u1|b|xx:i:1", "U|u1|a|xx:Z:1",
    ], ids=["a", "b", "e1", "g1", "o1", "u1", "zz"], renames=[("a", "d"), ("e1", "u1")],
        tagedits=[("a", "xx:i:5"), ("u1", "yy:i:9")], validate=True,
        setfs=[("E|e1|a+|b+|2|4$|0|2|*", 8, "2M"), ("E|e1|a+|b+|2|4$|0|2|*", 4, "1"), ("G|g1|a+|b-|10|*", 4, "7")]),
}


CATALOGUES["perm1"] = dict(version="gfa1", lines=[
    "S|A|ACGT", "S|B|*|LN:i:6", "S|C|*",
    "L|A|+|B|+|2M1D1M", "L|B|-|A|-|1M1I2M", "L|B|+|C|-|*|ID:Z:l1", "L|A|+|A|-|*", "L|C|+|A|+|3M",
    "C|A|+|B|+|1|2M",
    "P|p1|A+,B+|2M1D1M", "P|p2|B-,A-|*", "P|p3|A+,B+,C-|*,*", "P|p4|C+,A+,B+|3M,2M1D1M,*",
    "H|VN:Z:1.0", "H|xx:i:1", "#| c", "H|xx:i:1", "H|xx:i:2", "H|xx:i:2|yy:Z:a",
], ids=["A", "B", "C", "p1", "p2", "l1"], renames=[])
CATALOGUES["perm2"] = dict(version="gfa2", lines=[
    "S|a|4|ACGT", "S|b|6|*", "S|c|3|*",
    "E|e1|a+|b+|2|4$|0|2|2M", "E|e2|a+|b-|0|4$|1|5|*", "E|*|a+|c+|1|2|1|2|*", "E|e5|b+|c+|3|6$|0|3$|*",
    "G|g1|a+|b-|10|*", "F|a|x+|0|2|0|2|*",
    "O|o1|a+ b+", "O|o2|a+ e1+ b+", "O|o3|o2- c+", "O|o1|c+|xx:i:1",
    "U|u1|a e1 g1", "U|u2|u1 o1", "U|u1|c|yy:i:2", "U|u5|a g1", "O|o5|a+ g1+ b-", "O|o6|e1- a-",
    "X|custom|1", "H|VN:Z:2.0", "H|TS:i:10", "X|custom|1", "# gfa2 comment", "# gfa2 comment",
    "E|*|a+|c+|1|2|1|2|*", "G|*|a+|b-|10|*", "G|*|a+|b-|10|*",
], ids=["a", "b", "c", "e1", "g1", "o1", "o2", "u1"], renames=[])


# small catalogues for arrival orders: multi-line groups nested in groups; self-loops given in
# complement form under paths
CATALOGUES["permg"] = dict(version="gfa2", lines=[
    "S|a|4|*", "S|b|6|*", "U|u6|a", "U|u6|b", "U|u7|u6", "U|u8|u6 b", "O|o8|a+", "O|o8|b-", "O|o9|o8+", "U|u9|o8 u6",
], ids=["a", "b", "u6", "u7", "o8"], renames=[])
CATALOGUES["perml"] = dict(version="gfa1", lines=[
    "S|A|*", "S|B|*", "L|A|-|A|-|1M", "L|A|+|B|+|*", "L|B|+|B|+|2M1D1M", "P|p|A+,A+,B+|*",
    "P|q|B-,A-,A-|*", "P|r|B+,B+|2M1D1M", "P|s|B-,B-,A-|1M1I2M,*", "L|A|+|A|-|2M", "P|h|A+,A-|*",

], ids=["A", "B", "p", "q"], renames=[])
# parallel links that differ in the overlap, paths stating one of them in either direction, a circular
# path over one segment and its self link
CATALOGUES["permp"] = dict(version="gfa1", lines=[
    "S|A|*", "S|B|*", "L|B|+|A|+|1M", "L|B|+|A|+|2M", "P|t|B+,A+|2M", "P|v|A-,B-|1M", "L|A|-|A|-|1M", "P|w|A-|1M",
    "P|x|A+|1M",
], ids=["A", "B", "t", "v", "w"], renames=[])
# a hairpin with an asymmetric overlap walked twice by one path (as written and as complement) and once by
# a path that leaves the overlap open: one document, every arrival order
CATALOGUES["permh"] = dict(version="gfa1", lines=[
    "S|A|*", "S|B|*", "L|A|+|A|-|2M1D", "L|A|-|B|+|1M", "L|B|+|A|+|1M",
    "P|p1|A+,A-|*", "P|p2|A+,A-,B+,A+,A-|2M1D,1M,1M,1I2M",
], ids=["A", "B", "p1", "p2"], renames=[])
# version queue with clashing identifiers (known findings of C08: the flush is not transactional)
CATALOGUES["kfq"] = dict(version="none", lines=[
    "P|A|B+,C+|*", "S|A|*", "L|A|+|B|+|*|ID:Z:x", "P|x|A+,B+|*", "S|B|*", "#| c", "H|VN:Z:1.0|bb:i:2", "H|aa:i:1",
    "H|TS:i:0", "H|ab:Z:x|TS:i:5", "H|VN:Z:1.0|TS:i:7",
    "X|custom|1", "Y|c|2", "O|o1|a+ o1+", "E|e1|e1+|b+|0|1|0|1|*", "S|a|3|*", "U|u1|a u1",
    "C|A|+|B|+|0|*|ID:Z:x",
], ids=["A", "x"], renames=[])
CATALOGUES["ver"] = dict(version="none", lines=[
    "H|xx:i:1", "H|VN:Z:1.0", "H|VN:Z:2.0", "H|VN:Z:3.0", "H|TS:i:10", "H|VN:Z:1.0|TS:i:20", "H|VN:Z:2.0|TS:i:20",
    "S|A|*", "S|a|3|*",
    "L|A|+|B|+|*", "C|A|+|B|+|0|*", "P|p|A+,B+|*",
    "E|e|a+|b+|0|1|2|3$|*", "F|a|x+|0|1|0|1|*", "G|g|a+|b-|5|*", "O|o|a+ b+", "U|u|a b",
    "X|custom|1", "#| c",
], ids=["A", "a"], renames=[])


# segment names that look like tags (both versions allow ':' in a name): the syntax decides the version
CATALOGUES["vern"] = dict(version="none", lines=[
    "S|ab:Z:x|*", "S|ab:Z:x|3|*", "S|cd:i:1|*|LN:i:4", "S|cd:i:1|4|*|xx:Z:y", "S|B|ACGT|xx:i:1",
    "L|ab:Z:x|+|B|+|*", "E|e|ab:Z:x+|cd:i:1-|0|1|2|3$|*", "H|VN:Z:1.0", "H|VN:Z:2.0", "P|p|ab:Z:x+,B+|*",
    "X|custom|1", "E|f|f+|B-|0|1|2|3$|*", "O|o|B+ o+", "PG|x|1", "LN|y|2", "CV|z",
], ids=["ab:Z:x", "B"], renames=[])


CATALOGUES["rgfa"] = dict(version="none", lines=[
    "S|s1|*|LN:i:4|SN:Z:chr1|SO:i:0|SR:i:0", "S|s2|*|LN:i:3|SN:Z:chr1|SO:i:4|SR:i:0", "L|s1|+|s2|+|0M",
    "S|a|3|*|SN:Z:c|SO:i:0|SR:i:0", "G|g|a+|a-|5|*", "U|u|a", "X|custom|1",
    "H|VN:Z:2.0", "H|VN:Z:1.0", "S|s3|*", "P|p|s1+,s2+|*", "L|s2|+|s1|+|1M", "#| c",
], ids=["s1", "a"], renames=[])
# identifiers: collisions between record types, integer-looking names, unused_name()
CATALOGUES["ids1"] = dict(version="gfa1", lines=[
    "S|A|*", "S|1|*", "S|3|*",
    "L|A|+|1|+|*|ID:Z:2", "L|1|+|3|+|*|ID:Z:A", "C|A|+|3|+|0|*|ID:Z:1", "P|5|A+,1+|*", "P|A|1+,3+|*",
    "L|1|+|3|+|*|ID:Z:2", "P|8|A+,1+,3+|*", "L|3|-|1|-|*|ID:Z:5",
], ids=["A", "1", "2", "5"], unused=True,
    renames=[("A", "4"), ("3", "7"), ("2", "9"), ("A", "1"), ("5", "2"), ("1", "A")])
CATALOGUES["ids2"] = dict(version="gfa2", lines=[
    "S|a|3|*", "S|1|3|*",
    "E|2|a+|1+|0|1|2|3$|*", "E|a|1+|1-|0|1|2|3$|*", "G|3|a+|1-|5|*", "O|4|a+ 2+ 1+", "U|1|a 2", "U|6|a 3", "O|6|a+ 1+", "U|4|a",
], ids=["a", "1", "2", "3"], unused=True,
    renames=[("a", "5"), ("2", "8"), ("3", "a"), ("4", "9"), ("6", "1")])


# a GFA1 document that can be converted (lengths known, overlaps stated): the conversion names the
# unnamed links and containments of the source (C06); the registry must know the new identifiers (C09)
CATALOGUES["conv1"] = dict(version="gfa1", lines=[
    "S|A|ACGT", "S|B|*|LN:i:6", "S|C|AC", "S|1|ACG", "S|6|*|LN:i:2", "S|2|A",
    "L|A|+|B|+|2M", "L|B|+|C|-|1M", "L|A|+|A|-|1M", "L|C|+|A|+|1M|ID:Z:5", "C|A|+|C|+|0|2M", "C|B|+|A|-|1|3M",
    "P|p|A+,B+|2M", "P|7|B+,C-|1M",
], ids=["A", "B", "C", "p", "1", "2", "5", "6", "7", "8", "9"], unused=True, tog2=True,
    renames=[("A", "1"), ("p", "2"), ("B", "6"), ("5", "8"), ("6", "9"), ("7", "10"), ("8", "3")])


# topology: components, counters, clean-up operations (C16)
CATALOGUES["topo1"] = dict(version="gfa1", lines=[
    "S|A|ACGT", "S|B|*|LN:i:6", "S|C|AC", "S|D|A",
    "L|A|+|B|+|*", "L|B|+|C|-|1M", "L|A|+|A|+|*", "L|D|+|D|-|*", "L|C|-|A|+|*", "L|D|+|B|+|*", "L|D|-|C|-|*",
    "C|A|+|D|+|0|*", "C|A|+|A|-|0|*", "P|p|A+,B+|*",
], ids=["A", "B", "C", "D"], renames=[("A", "E"), ("B", "b c"), ("C", "*"), ("D", "A")], rsc=[3, 7, 20], rsl=True)
CATALOGUES["topo2"] = dict(version="gfa2", lines=[
    "S|a|4|*", "S|b|6|*", "S|c|2|*", "S|d|1|*",
    "E|e1|a+|b+|2|4$|0|2|*", "E|e2|b+|c-|3|6$|1|2$|*", "E|e3|a+|a+|3|4$|0|1|*", "E|*|c+|d+|0|2$|0|1|*",
    "E|e5|a+|d+|1|2|0|1$|*", "E|e6|b+|d+|1|2|0|1|*", "O|o|a+ e1+ b+", "U|u|c d",
], ids=["a", "b", "c", "d", "e1"], renames=[("a", "x"), ("b", "b c"), ("c", ""), ("d", "a"), ("e1", "e 1")], rsc=[2, 7, 20], rsl=True)


def name_class(name):
    """0 = an identifier, 1 = the placeholder, 2 = not an identifier (empty / contains a blank)"""
    return 1 if name == "*" else 2 if (name == "" or " " in name or "\t" in name) else 0


def universe_of(cat):
    return sorted(set(cat["ids"]) | {b for _, b in cat["renames"]} | {x for ab in cat.get("clones", []) for x in ab})


def text_of(src):
    return src.replace("|", "\t")


def build_ops(cat):
    """op records in the shape TraceGfa!OpOf expects (l = text here; pool index later)."""
    ops = []
    for ln in cat["lines"]:
        ops.append(dict(k="add", text=text_of(ln), id="", id2=""))
    for i in cat["ids"]:
        ops.append(dict(k="rm", text="", id=i, id2=""))
    for a, b in cat["renames"]:
        ops.append(dict(k="ren", text="", id=a, id2=b, n=name_class(b)))
    for ln in cat["lines"]:
        if ln[0] in "LCEGFOUP":
            ops.append(dict(k="disc", text=text_of(ln), id="", id2=""))
    for a, b in cat.get("clones", []):
        ops.append(dict(k="addcl", text="", id=a, id2=b))
    for tag, ok in cat.get("hadds", []):
        ops.append(dict(k="hadd", text="H\t" + tag, id="", id2="valid" if ok else "invalid"))
    for ln in cat.get("badlines", []):
        ops.append(dict(k="add", text=text_of(ln), id="", id2="invalid"))
    for ln in cat.get("addcs", []):
        ops.append(dict(k="addc", text=text_of(ln), id="", id2=""))
    for ln, pos, val in cat.get("setfs", []):
        f = ln.split("|")
        new = f[:pos] + [val.lstrip("!")] + f[pos + 1:]
        ops.append(dict(k="setf", text="", texts=[text_of(ln), "\t".join(new)], id="", n=pos,
                        id2="invalid" if val.startswith("!") else "valid"))
    for n in cat.get("rsc", []):
        ops.append(dict(k="rsc", text="", id="", id2="", n=n))
    if cat.get("rsl"):
        ops.append(dict(k="rsl", text="", id="", id2=""))
    if cat.get("unused"):
        ops.append(dict(k="unused", text="", id="", id2=""))
    if cat.get("tog2"):
        ops.append(dict(k="tog2", text="", id="", id2=""))
        ops.append(dict(k="tog2", text="", id="", id2=""))
    if cat.get("validate"):
        ops.append(dict(k="validate", text="", id="", id2=""))
    for ident, tag in cat.get("deltags", []):
        ops.append(dict(k="deltag", text="H\t" + tag, id=ident, id2=""))
    for ident, tag in cat.get("badtags", []):
        # a value the default datatype of a new tag cannot represent (a string with a tab)
        ops.append(dict(k="settag", text="H\t" + tag, id=ident, id2="bad"))
    for ident, tag in cat.get("tagedits", []):
        ops.append(dict(k="settag", text="H\t" + tag, id=ident, id2=""))
        ops.append(dict(k="deltag", text="H\t" + tag, id=ident, id2=""))
    return ops


# --------------------------------------------------------------------------
# replay

class Timeout(BaseException):
    pass


def _alarm(signum, frame):
    raise Timeout()


def _load_gfapy():
    if REPO not in sys.path:
        sys.path.insert(0, REPO)
    os.environ["GFAPY_VERIF"] = "1"
    import gfapy
    if not os.path.abspath(gfapy.__file__).startswith(os.path.abspath(REPO)):
        raise MachineryError("gfapy imported from %s, not %s" % (gfapy.__file__, REPO))
    return gfapy


def find_instance(gfa, text, version):
    want = abstract_input(text)
    wantn = (want["rt"], want["name"], json.dumps(want["refs"]), tuple(want["f"]), tuple(want["tags"]))
    for o in gfa.lines:
        if o.virtual or o.record_type == "H":
            continue
        r = project.abstract_fields(project.safe_str(o).split("\t"), npos=len(o.positional_fieldnames)
                                    if o.record_type != "#" else None)
        if (r["rt"], r["name"], json.dumps(r["refs"]), tuple(r["f"]), tuple(r["tags"])) == wantn:
            return o
    return None


def find_named(gfa, ident):
    o = gfa.line(ident)
    if o is not None:
        return o
    for o in gfa._records["L"].values():
        if o.get("ID") == ident:
            return o
    for o in gfa._records["C"].values():
        if o.get("ID") == ident:
            return o
    return None


def _apply_add(gfapy, gfa, op, version):
    if op.get("held"):
        # the line object that an earlier call disconnected (kept by the harness), with its
        # positional fields edited while it was outside the Gfa, is added again: for the
        # specification this is the addition of the line as it reads now
        held = gfa.__dict__.setdefault("_verif_held", {})
        o = held.pop(op["held"], None)
        if o is None:
            gfa.add_line(op["text"])
        else:
            old, new = op["held"].split("\t"), op["text"].split("\t")
            names = o.positional_fieldnames
            for i in range(1, min(len(old), len(new), len(names) + 1)):
                if old[i] != new[i]:
                    o.set(names[i - 1], new[i])
            gfa.add_line(o)
    elif op.get("inst"):
        # a Line instance instead of text: same specified action
        gfa.add_line(gfapy.Line(op["text"], vlevel=gfa.vlevel, dialect=gfa.dialect))
    else:
        gfa.add_line(op["text"])


def apply_op(gfapy, gfa, op, version):
    k = op["k"]
    if k == "add":
        f0 = op["text"].split("\t")
        prev_obj = None
        if f0[0] in ("O", "U", "S", "E", "G", "P") and len(f0) > 1 and f0[1] != "*":
            try:
                prev_obj = gfa.line(f0[1])
            except gfapy.Error:
                prev_obj = None
        _apply_add(gfapy, gfa, op, version)
        if prev_obj is not None and gfa.line(f0[1]) is not prev_obj:
            # the object that carried the identifier has been superseded (placeholder, earlier group line)
            gfa.__dict__.setdefault("_verif_stale", {})[f0[1]] = prev_obj
    elif k == "hadd":
        # header.add(tag, value): one more value for a header tag (no datatype given)
        n, t, v = op["text"].split("\t")[1].split(":", 2)
        gfa.header.add(n, int(v) if (t == "i" and op["id2"] != "invalid") else v)
    elif k == "tog2":
        gfa.to_gfa2_s()
    elif k == "stale":
        # a handle obtained before the line was superseded is used to rename: the Gfa is not concerned
        o = gfa.__dict__.get("_verif_stale", {}).get(op["id"])
        if o is None:
            raise gfapy.NotFoundError("no superseded object for " + op["id"])
        o.name = op["id2"]
    elif k == "addcl":
        o = find_named(gfa, op["id"])
        if o is None or o.virtual:
            raise gfapy.NotFoundError("no line " + op["id"])
        c = o.clone()
        if o.record_type in ("L", "C"):
            c.set("ID", op["id2"])
        else:
            c.name = op["id2"]
        gfa.add_line(c)
    elif k == "addc":
        # an instance that already belongs to this Gfa is offered again
        o = find_instance(gfa, op["text"], version)
        if o is None:
            raise gfapy.NotFoundError("no such line")
        gfa.add_line(o)
    elif k == "load":
        return load_entry(gfapy, op, gfa)
    elif k == "rsc":
        gfa.remove_small_components(op["n"])
    elif k == "rsl":
        gfa.remove_self_links()
    elif k == "unused":
        return ("unused", str(gfa.unused_name()))
    elif k == "query":
        from . import queries
        return ("answers", queries.run(gfapy, gfa, op["id"]), queries.run(gfapy, gfa, op["id"]))
    elif k == "validate":
        gfa.validate()
    elif k == "flush":
        gfa.process_line_queue()
    elif k == "rm":
        gfa.rm(op["id"])
    elif k == "disc":
        o = find_instance(gfa, op["text"], version)
        if o is None:
            o = gfapy.Line(op["text"], version=version) if version else gfapy.Line(op["text"])
            o.disconnect()
        elif len(op["text"]) % 2 == 0:
            gfa.rm(o)              # removal by instance through the Gfa ...
        else:
            o.disconnect()         # ... or through the line itself
        if o is not None and op.get("hold"):
            gfa.__dict__.setdefault("_verif_held", {})[op["text"]] = o
    elif k == "setf":
        o = find_instance(gfa, op["texts"][0], version)
        if o is None:
            raise gfapy.NotFoundError("no such line")
        value = op["texts"][1].split("\t")[op["n"]]
        if len(value) % 2:
            o.set(o.positional_fieldnames[op["n"] - 1], value)
        else:
            setattr(o, o.positional_fieldnames[op["n"] - 1], value)
    elif k in ("settag", "deltag"):
        o = find_named(gfa, op["id"])
        if o is None or o.virtual:
            raise gfapy.NotFoundError("no line " + op["id"])
        n, t, v = op["text"].split("\t")[1].split(":", 2)
        if k == "deltag":
            o.delete(n)
        elif op["id2"] == "bad":
            o.set(n, "a\tb")
        else:
            if o.get_datatype(n) != t:
                o.set_datatype(n, t)       # the operation sets the tag as written: datatype and value
            o.set(n, int(v) if t == "i" else v)
    elif k == "ren":
        o = find_named(gfa, op["id"])
        if o is None or o.virtual:
            # a placeholder is not a line the user can rename
            raise gfapy.NotFoundError("no line " + op["id"])
        if o.record_type in ("L", "C"):
            o.set("ID", op["id2"])
        else:
            o.name = op["id2"]
    else:
        raise MachineryError("unknown op " + k)


def load_entry(gfapy, op, gfa):
    """whole-document entry points; returns the new Gfa (the trace continues on it)"""
    kw = dict(vlevel=gfa._vlevel, version=op.get("cfgversion"), dialect=gfa._dialect)
    entry = op["id"]
    texts = op["texts"]
    if entry == "list":
        return gfapy.Gfa(list(texts), **kw)
    if entry == "str":
        return gfapy.Gfa("\n".join(texts), **kw)
    if entry in ("file", "filecrlf", "filenonl"):
        eol = "\r\n" if entry == "filecrlf" else "\n"
        body = eol.join(texts) + ("" if entry == "filenonl" else eol)
        path = os.path.join(WORK, "load-%d.gfa" % os.getpid())
        with open(path, "w", newline="") as f:
            f.write(body)
        try:
            return gfapy.Gfa.from_file(path, **kw)
        finally:
            os.unlink(path)
    raise MachineryError("unknown entry " + entry)


def _probe(gfapy, gfa, groups):
    """answers of the given query groups, or None when they are not repeatable (then the
    comparison across a refused call would not be attributable to that call)"""
    from . import queries
    a1 = [x for g in groups for x in queries.run(gfapy, gfa, g)]
    a2 = [x for g in groups for x in queries.run(gfapy, gfa, g)]
    return a1 if a1 == a2 else None


def replay_one(job):
    """job = dict(id, kind, cfg, ops, universe). Returns trace dict with local pool."""
    gfapy = _load_gfapy()
    cfg = job["cfg"]
    cfg.setdefault("dialect", "standard")
    pool = project.Pool()
    ver = None if cfg["version"] == "none" else cfg["version"]
    try:
        gfa = gfapy.Gfa(version=ver, vlevel=cfg["vlevel"], dialect=cfg["dialect"])
    except gfapy.Error:
        return None          # the configuration itself is refused: nothing to observe

    universe = job["universe"]
    init = project.observe(gfa, pool, universe)
    evs = []
    signal.signal(signal.SIGVTALRM, _alarm)
    answers = {}
    refused_since = {}
    probe, probe_ans = job.get("probe"), None
    for op in job["ops"]:
        res = "ok"
        exc = ""
        qsame, qdiff = 1, []
        adig = ""
        signal.setitimer(signal.ITIMER_VIRTUAL, 5.0)
        mutating = op["k"] not in ("query", "unused", "validate")
        try:
            if probe and mutating and probe_ans is None:
                probe_ans = _probe(gfapy, gfa, probe)
            ng = apply_op(gfapy, gfa, op, ver or (gfa._version))
            if mutating:
                probe_ans = None
            if isinstance(ng, tuple) and ng[0] == "unused":
                op = dict(op, id2=ng[1])
            elif isinstance(ng, tuple):
                a1, a2 = ng[1], ng[2]
                prev = answers.get(op["id"])
                qsame = 1 if (a1 == a2 and (prev is None or prev == a1)) else 0
                if not qsame and a1 == a2 and refused_since.get(op["id"]):
                    qsame = 2     # the answers differ across a refused mutation: that call was not a stutter (C08)
                refused_since[op["id"]] = False
                if qsame != 1:
                    other = a2 if a1 != a2 else prev
                    qdiff = [x for x, y in zip(a1, other) if x != y][:3] or ["length"]
                answers[op["id"]] = a1
                adig = hashlib.md5("\n".join(a1).encode("utf-8", "replace")).hexdigest()
                foreign = [x for x in a1 if "=!!" in x]
                if foreign:
                    res, exc = "FOREIGN", ";".join(foreign[:4])
            elif ng is not None:
                gfa = ng
            if op["k"] not in ("query", "unused", "validate"):
                answers = {}
        except Timeout:
            res, exc = "FOREIGN", "timeout"
        except MachineryError:
            raise
        except BaseException as e:  # noqa
            res = project.errclass(e)
            exc = type(e).__name__
            refused_since = {k: True for k in answers}
            if probe and mutating and probe_ans is not None and res != "FOREIGN":
                # a refused call is a stutter for every read-only answer as well (C08)
                try:
                    after = _probe(gfapy, gfa, probe)
                    if after is not None and after != probe_ans:
                        qsame = 2
                        qdiff = [x for x, y in zip(after, probe_ans) if x != y][:3] or ["length"]
                        probe_ans = None
                except BaseException:  # noqa
                    probe_ans = None
        finally:
            signal.setitimer(signal.ITIMER_VIRTUAL, 0)
        lidx = 0
        if op.get("text"):
            lidx = pool.add(abstract_input(op["text"]))
        ls = [pool.add(abstract_input(t)) for t in op.get("texts", [])]
        obs = project.observe(gfa, pool, universe)
        evs.append({"op": {"k": op["k"], "l": lidx, "id": op["id"], "id2": op["id2"], "ls": ls, "n": op.get("n", 0)},
                    "res": res, "exc": exc, "obs": obs, "qsame": qsame, "qdiff": qdiff, "adig": adig})
        if "broken" in obs:
            break
    return {"id": job["id"], "kind": job["kind"], "cfg": cfg, "init": init, "ev": evs,
            "pool": pool.items, "src": job["ops"]}


def abstract_input(text):
    """abstraction of a line offered to gfapy: by the line's own syntax, not the Gfa's version"""
    return project.abstract_text(text, _guess_version(text))


def _guess_version(text):
    f = text.split("\t")
    if f[0] == "S":
        n = len(f) - 1
        while n > 0 and project.TAG_RE.match(f[n]):
            n -= 1
        return "gfa2" if n == 3 else "gfa1"
    return None


def merge_pools(traces):
    """Re-intern the per-trace pools into one shard pool; rewrite indices."""
    pool = project.Pool()
    out = []
    for t in traces:
        m = {0: 0}
        for i, rec in enumerate(t["pool"]):
            m[i + 1] = pool.add(rec)
        def fix(obs):
            if "broken" in obs:
                return obs
            for ln in obs["lines"]:
                ln["p"] = m[ln["p"]]
            return obs
        fix(t["init"])
        for e in t["ev"]:
            e["op"]["l"] = m[e["op"]["l"]]
            e["op"]["ls"] = [m[x] for x in e["op"]["ls"]]
            fix(e["obs"])
        out.append({k: v for k, v in t.items() if k not in ("pool", "src")})
    for t in traces:
        t["pool"] = pool.items      # indices now refer to the shard pool
    return pool.items, out


def replay_all(jobs, procs=NCPU):
    if not jobs:
        return []
    with MPool(processes=min(procs, max(1, len(jobs) // 20 + 1))) as mp:
        res = mp.map(replay_one, jobs, chunksize=max(1, len(jobs) // (procs * 8) + 1))
    return [t for t in res if t is not None]


def write_shards(traces, wd, nshards=NCPU):
    """Split traces into shard files {pool, traces}; broken traces are returned separately."""
    good = [t for t in traces if not any("broken" in e["obs"] for e in t["ev"]) and "broken" not in t["init"]]
    broken = [t for t in traces if t not in good] if len(good) != len(traces) else []
    nshards = max(1, min(nshards, len(good)))
    files = []
    nev = 0
    for s in range(nshards):
        part = good[s::nshards]
        if not part:
            continue
        src = {t["id"]: t["src"] for t in part}
        pool, tr = merge_pools(part)
        nev += sum(len(t["ev"]) + 1 for t in tr)
        f = os.path.join(wd, "shard%d.json" % s)
        with open(f, "w") as fh:
            json.dump({"pool": pool, "traces": tr}, fh)
        files.append(f)
    return files, nev, broken


TRACE_CFG = "SPECIFICATION Spec\nCHECK_DEADLOCK FALSE\n"


def validate(traces, name, module="TraceGfa"):
    """Returns dict(rejects=[(trace id, event, [clauses], phase)], states, events)."""
    wd = workdir(name + "-shards")
    by_id = {t["id"]: t for t in traces}
    files, nev, broken = write_shards(traces, wd)
    res = run_sharded(module, TRACE_CFG, files, name + "-tlc")
    rejects = []
    distinct = 0
    unm = [0, 0]
    for rc, out in res:
        st = stats(out)
        if rc != 0 or st is None or "No error has been found" not in out:
            raise MachineryError("trace validation TLC failed:\n" + "\n".join(out.splitlines()[-30:]))
        distinct += st[1]
        for raw in parse_tuples(out, "REJECT"):
            v = tla_value(raw)
            rejects.append((v[1], v[2], sorted(v[3]), v[4]))
        for raw in parse_tuples(out, "UNM"):
            v = tla_value(raw)
            unm[0] += 1
            unm[1] += v[3]
    if distinct != nev:
        raise MachineryError("trace validation consumed %d states, expected %d" % (distinct, nev))
    for t in broken:
        rejects.append((t["id"], len(t["ev"]), ["broken-listing"], "first"))
    return dict(rejects=rejects, states=distinct, events=nev, by_id=by_id, unmodelled=unm)


def slim(t):
    """what is kept of a trace after validation: no observations"""
    return {"id": t["id"], "kind": t["kind"], "cfg": t["cfg"], "src": t["src"], "n": len(t["ev"]),
            "ev": [{"op": {"k": e["op"]["k"], "id": e["op"]["id"]}, "res": e["res"], "exc": e["exc"],
                    "qdiff": e.get("qdiff"), "adig": e.get("adig", ""), "dig": (e["obs"].get("dig") if isinstance(e["obs"], dict) else None)}
                   for e in t["ev"]]}


def replay_validate(jobs, name, extra_traces=(), chunk=6000, module="TraceGfa"):
    """Replays and validates in chunks so that memory stays bounded.  Returns
    dict(rejects, states, by_id (slim traces), ntraces)."""
    rejects, by_id = [], {}
    states = 0
    unm = [0, 0]
    pending = list(extra_traces)
    n = 0
    for start in range(0, max(len(jobs), 1), chunk):
        part = jobs[start:start + chunk]
        traces = replay_all(part) if part else []
        if pending:
            traces = traces + pending
            pending = []
        if not traces:
            continue
        r = validate(traces, "%s-%d" % (name, start // chunk), module)
        rejects += r["rejects"]
        states += r["states"]
        unm = [unm[0] + r["unmodelled"][0], unm[1] + r["unmodelled"][1]]
        n += len(traces)
        for t in traces:
            by_id[t["id"]] = slim(t)
        del traces, r
    return dict(rejects=rejects, states=states, by_id=by_id, ntraces=n, unmodelled=unm)


# --------------------------------------------------------------------------
# random histories (seeded), used by the quick tier and as a smoke test

def random_jobs(catname, n, depth, seed, vlevel=1, kind="rand", cfgversion=None):
    cat = CATALOGUES[catname]
    ops = build_ops(cat)
    rnd = random.Random(seed)
    adds = [o for o in ops if o["k"] == "add" and (vlevel >= 1 or o.get("id2") != "invalid")]
    others = [o for o in ops if o["k"] != "add" and (vlevel >= 3 or o.get("id2") != "bad")
              and (vlevel >= 2 or not (o["k"] == "hadd" and o["id2"] == "invalid"))]
    jobs = []
    universe = universe_of(cat)
    for i in range(n):
        h = []
        for _ in range(depth):
            h.append(rnd.choice(adds) if rnd.random() < 0.7 else rnd.choice(others))
        jobs.append(dict(id="%s-%s-%d" % (kind, catname, i), kind=kind,
                         cfg=dict(version=cfgversion or cat["version"], vlevel=vlevel),
                         ops=h, universe=universe))
    return jobs


# --------------------------------------------------------------------------
# TLC-generated histories (spec -> code)

MC_CFG = """SPECIFICATION Spec
CONSTRAINT Emit
INVARIANT InvUniqueIds
INVARIANT InvNoDuplicateLink
INVARIANT InvQueue
PROPERTY FailStutters
PROPERTY NoDanglingAfterRm
PROPERTY VersionStable
CHECK_DEADLOCK FALSE
"""


def catalog_json(catname, depth, cfgversion=None, vlevel=1, ops=None):
    cat = CATALOGUES[catname]
    ver = cfgversion or cat["version"]
    pool = project.Pool()
    out = []
    ops = ops if ops is not None else build_ops(cat)
    for op in ops:
        l = 0
        if op["text"]:
            l = pool.add(abstract_input(op["text"]))
        rec = {"k": op["k"], "l": l, "id": op["id"], "id2": op["id2"], "n": op.get("n", 0)}
        if op["k"] == "setf":
            rec["l"], rec["l2"] = (pool.add(abstract_input(t)) for t in op["texts"])
        out.append(rec)
    return {"cfg": {"version": ver, "vlevel": vlevel, "dialect": "standard"}, "pool": pool.items, "ops": out,
            "depth": depth}, ops


def mc_histories(catname, depth, name, cfgversion=None, vlevel=1, ops=None, timeout=3600):
    """Run MC_Gfa; returns (list of maximal histories as tuples of op indices (0-based),
    ops, tlc stats)."""
    wd = workdir(name)
    cj, ops = catalog_json(catname, depth, cfgversion, vlevel, ops)
    cf = os.path.join(wd, "catalog.json")
    with open(cf, "w") as f:
        json.dump(cj, f)
    rc, out = run_tlc("MC_Gfa", MC_CFG, wd, env={"CATALOG_FILE": cf}, workers=NCPU,
                      timeout=timeout, heap="8g")
    if rc != 0 or "No error has been found" not in out:
        raise MachineryError("MC_Gfa failed:\n" + "\n".join(out.splitlines()[-40:]))
    hs = set()
    for raw in parse_tuples(out, "H"):
        v = tla_value(raw)
        hs.add(tuple(x - 1 for x in v[1]))
    leaves = [h for h in hs if h and not any((h + (i,)) in hs for i in range(len(ops)))]
    return sorted(leaves), ops, stats(out), len(hs)


def history_jobs(leaves, ops, catname, kind, cfgversion=None, vlevel=1):
    cat = CATALOGUES[catname]
    universe = universe_of(cat)
    jobs = []
    for n, h in enumerate(leaves):
        jobs.append(dict(id="%s-%s-%d" % (kind, catname, n), kind=kind,
                         cfg=dict(version=cfgversion or cat["version"], vlevel=vlevel),
                         ops=[ops[i] for i in h], universe=universe))
    return jobs


# --------------------------------------------------------------------------
# "document first" random histories: load a consistent subset of the catalogue in
# a random order, then mutate; reaches connected states much faster than uniform ops

def doc_jobs(catname, n, nmut, seed, vlevel=1, kind="doc", cfgversion=None):
    cat = CATALOGUES[catname]
    ops = build_ops(cat)
    rnd = random.Random(seed)
    adds = [o for o in ops if o["k"] == "add" and (vlevel >= 1 or o.get("id2") != "invalid")]
    others = [o for o in ops if o["k"] != "add" and (vlevel >= 3 or o.get("id2") != "bad")
              and (vlevel >= 2 or not (o["k"] == "hadd" and o["id2"] == "invalid"))]
    universe = universe_of(cat)
    jobs = []
    for i in range(n):
        k = rnd.randint(3, min(len(adds), 12))
        doc = rnd.sample(adds, k)
        h = list(doc)
        unnamed = [o for o in doc if o["text"].split("\t")[0] in "ECGFX#" and
                   (o["text"].split("\t")[0] in "CFX#" or o["text"].split("\t")[1] == "*")]
        if unnamed and rnd.random() < 0.35:
            # the same unnamed line twice (two lines of the document)
            h.insert(rnd.randint(0, len(h)), rnd.choice(unnamed))
        for _ in range(nmut):
            h.append(rnd.choice(others) if rnd.random() < 0.6 else rnd.choice(adds))
        h = [dict(o, inst=True) if o["k"] == "add" and rnd.random() < 0.3 else o for o in h]
        jobs.append(dict(id="%s-%s-%d" % (kind, catname, i), kind=kind,
                         cfg=dict(version=cfgversion or cat["version"], vlevel=vlevel),
                         ops=h, universe=universe))
    return jobs


def hdr_jobs(catname, n, seed, vlevel=1, kind="hdr"):
    """header histories: the H lines of the catalogue and header.add() calls (valid values, and at
    level >= 2 values the datatype of the tag cannot hold) in random order"""
    cat = CATALOGUES[catname]
    ops = build_ops(cat)
    rnd = random.Random(seed)
    hl = [o for o in ops if o["k"] == "add" and o["text"].startswith("H\t")]
    ha = [o for o in ops if o["k"] == "hadd" and (vlevel >= 2 or o["id2"] != "invalid")]
    other = [o for o in ops if o["k"] == "add" and o["text"][0] in "S#"][:3]
    jobs = []
    for i in range(n):
        h = [rnd.choice(hl)]
        for _ in range(rnd.randint(3, 7)):
            c = rnd.random()
            h.append(rnd.choice(ha) if (c < 0.5 and ha) else rnd.choice(hl) if c < 0.9 else rnd.choice(other))
        jobs.append(dict(id="%s-%s-%d-%d" % (kind, catname, vlevel, i), kind=kind, cfg=dict(version=cat["version"], vlevel=vlevel),
                         ops=h, universe=universe_of(cat)))
    return jobs


def dup_jobs(catname, seed, vlevel=1, kind="dup"):
    """every line of the catalogue that may occur twice (no identifier) twice or three times in a small
    document, in three arrival orders, followed by the removal of one copy, of a segment it mentions, and
    by another copy: equal lines are separate lines"""
    cat = CATALOGUES[catname]
    rnd = random.Random(seed)
    lines = [text_of(l) for l in cat["lines"]]
    segs = {}
    for t in lines:
        f = t.split("\t")
        if f[0] == "S" and f[1] not in segs:
            segs[f[1]] = t
    A = lambda t: dict(k="add", text=t, id="", id2="")
    jobs, n = [], 0
    seen = set()
    for t in lines:
        f = t.split("\t")
        unnamed = (f[0] in "CFX#" and not any(x.startswith("ID:Z:") for x in f)) or (f[0] in "EG" and f[1] == "*")
        if not unnamed or t in seen:
            continue
        seen.add(t)
        ment = [x.rstrip("+-") for x in (f[1:4:2] if f[0] == "C" else f[2:4] if f[0] in "EG" else f[1:2] if f[0] == "F" else [])]
        ss = [segs[m] for m in dict.fromkeys(ment) if m in segs]
        for reps in (2, 3):
            for od in (ss + [t] * reps, [t] * reps + ss, [t] + ss + [t] * (reps - 1)):
                tail = [dict(k="disc", text=t, id="", id2="")]
                if ment:
                    tail.append(dict(k="rm", text="", id=rnd.choice(ment), id2=""))
                tail.append(A(t))
                jobs.append(dict(id="%s-%s-%d" % (kind, catname, n), kind=kind, cfg=dict(version=cat["version"], vlevel=vlevel),
                                 ops=[A(x) for x in od] + (tail if n % 2 else tail[1:] + tail[:1]), universe=universe_of(cat)))
                n += 1
    return jobs


def rename_jobs(catname, n, seed, vlevel=1, kind="renall"):
    """a document (any arrival order, so that multi-line groups are merged before and after the
    groups that list them), then EVERY identified line renamed to a fresh identifier, one after the
    other, some renamed back: the identifier changes everywhere it is written and nothing else does"""
    cat = CATALOGUES[catname]
    rnd = random.Random(seed)
    adds = [text_of(l) for l in cat["lines"]]
    A = lambda t: dict(k="add", text=t, id="", id2="")
    fresh = ["r%d" % i for i in range(1, 9)]
    jobs = []
    for i in range(n):
        doc = rnd.sample(adds, rnd.randint(3, min(len(adds), 10)))
        names = []
        for t in doc:
            f = t.split("\t")
            nm = None
            if f[0] in "SPEGOU" and len(f) > 1 and f[1] != "*":
                nm = f[1]
            elif f[0] in "LC":
                ids = [x[5:] for x in f if x.startswith("ID:Z:")]
                nm = ids[0] if ids else None
            if nm and nm not in names:
                names.append(nm)
        rnd.shuffle(names)
        h = [A(t) for t in doc]
        for k, nm in enumerate(names[:len(fresh)]):
            h.append(dict(k="ren", text="", id=nm, id2=fresh[k], n=0))
            if rnd.random() < 0.25:
                h.append(dict(k="ren", text="", id=fresh[k], id2=nm, n=0))
            if rnd.random() < 0.2:
                h.append(A(rnd.choice(adds)))
            if cat["version"] == "gfa1" and rnd.random() < 0.25:
                h.append(dict(k="tog2", text="", id="", id2=""))
            if rnd.random() < 0.3:
                # a handle kept from before the line was superseded is used to rename
                h.append(dict(k="stale", text="", id=rnd.choice(names), id2=rnd.choice(fresh + names)))
        jobs.append(dict(id="%s-%s-%d" % (kind, catname, i), kind=kind, cfg=dict(version=cat["version"], vlevel=vlevel),
                         ops=h, universe=sorted(set(universe_of(cat)) | set(fresh) | {str(x) for x in range(1, 13)})))
    return jobs


def clone_jobs(catname, n, nmut, seed, vlevel=1, kind="clone"):
    """a document, a clone of one of its lines added under another identifier, then tag edits and
    deletions on the clone and on the original in turn (AddClone of spec/Gfa.tla: the two lines
    share nothing)"""
    cat = CATALOGUES[catname]
    ops = build_ops(cat)
    rnd = random.Random(seed)
    adds = [o for o in ops if o["k"] == "add"]
    named = {}
    for o in adds:
        f = o["text"].split("\t")
        if f[0] in "SPEGOU" and len(f) > 1:
            named.setdefault(f[1], []).append(o)
    pairs = [(a, b) for a, b in cat.get("clones", []) if a in named]
    jobs = []
    for i in range(n):
        a, b = rnd.choice(pairs)
        doc = [rnd.choice(named[a])] + rnd.sample(adds, rnd.randint(2, 7))
        rnd.shuffle(doc)
        h = list(doc) + [dict(k="addcl", text="", id=a, id2=b)]
        edits = [o for o in ops if o["k"] in ("settag", "deltag") and o["id"] in (a, b)
                 and (vlevel >= 3 or o["id2"] != "bad")]
        for _ in range(nmut):
            c = rnd.random()
            if c < 0.75 and edits:
                h.append(rnd.choice(edits))
            elif c < 0.85:
                h.append(dict(k="rm", text="", id=rnd.choice((a, b)), id2=""))
            else:
                h.append(rnd.choice(adds))
        jobs.append(dict(id="%s-%s-%d" % (kind, catname, i), kind=kind, cfg=dict(version=cat["version"], vlevel=vlevel),
                         ops=h, universe=universe_of(cat)))
    return jobs


EDIT_VALUES = {
    # (record type, version or None, position) -> candidate values (valid for the datatype)
    ("S", "gfa1", 2): ["*", "ACG", "AC"], ("S", "gfa2", 2): ["4", "7"], ("S", "gfa2", 3): ["*", "ACGT"],
    ("L", None, 1): ["B", "C"], ("L", None, 2): ["+", "-"], ("L", None, 3): ["A", "C"], ("L", None, 4): ["+", "-"],
    ("L", None, 5): ["*", "1M", "2M1D1M"],
    ("C", None, 1): ["B", "C"], ("C", None, 2): ["+", "-"], ("C", None, 3): ["A", "C"], ("C", None, 4): ["+", "-"],
    ("C", None, 5): ["0", "1", "2"], ("C", None, 6): ["*", "1M", "2M"],
    ("P", None, 2): ["A+,B+", "B-,A-"], ("P", None, 3): ["*", "1M"],
    ("E", None, 2): ["a+", "b-"], ("E", None, 3): ["b+", "c+"], ("E", None, 4): ["0", "1"], ("E", None, 5): ["2", "4$"],
    ("E", None, 6): ["0", "1"], ("E", None, 7): ["2", "3$"], ("E", None, 8): ["*", "2M", "1M1D"],
    ("G", None, 2): ["a-", "b+"], ("G", None, 3): ["b+", "c+"], ("G", None, 4): ["5", "7"], ("G", None, 5): ["*", "3"],
    ("F", None, 1): ["b", "c"], ("F", None, 2): ["y+", "x-", "x+"], ("F", None, 3): ["0", "1"], ("F", None, 4): ["2", "3"],
    ("F", None, 5): ["0", "1"], ("F", None, 6): ["2", "3"], ("F", None, 7): ["*", "1M"],
    ("O", None, 2): ["a+", "a+ b+"], ("U", None, 2): ["a", "a b"],
}


def edit_jobs(catname, n, nmut, seed, vlevel=1, kind="edit", complete=False):
    """a document, then chained edits of positional fields of its (connected) lines - the next edit of a
    line starts from what the previous one left - mixed with removals of the edited lines and of the
    segments they depend on (SetField of spec/Gfa.tla)"""
    cat = CATALOGUES[catname]
    ver = cat["version"]
    rnd = random.Random(seed)
    adds = [text_of(l) for l in cat["lines"] if l[0] in "SLCPEGFOU"]
    segtext = {}
    for l in cat["lines"]:
        if l.startswith("S|") and l.split("|")[1] not in segtext:
            segtext[l.split("|")[1]] = text_of(l)
    seglen = {l.split("|")[1]: int(l.split("|")[2]) for l in cat["lines"]
              if l.startswith("S|") and ver == "gfa2" and l.split("|")[2].isdigit()}
    universe = sorted(set(cat["ids"]) | {"rz"})
    A = lambda t: dict(k="add", text=t, id="", id2="")
    jobs = []
    for i in range(n):
        doc = rnd.sample(adds, rnd.randint(3, min(len(adds), 10)))
        if complete:     # every segment is defined: no placeholders, the topology answers are specified
            segs = [t for t in adds if t.startswith("S\t")]
            seen = set()
            segs = [t for t in segs if not (t.split("\t")[1] in seen or seen.add(t.split("\t")[1]))]
            doc = segs + [t for t in doc if not t.startswith("S\t")]
        cur = list(doc)
        h = [A(t) for t in doc]
        for _ in range(nmut):
            c = rnd.random()
            t = rnd.choice(cur)
            f = t.split("\t")
            if c < (0.45 if complete else 0.65):
                npos = {"S": 2 if ver == "gfa1" else 3, "L": 5, "C": 6, "P": 3, "E": 8, "G": 5, "F": 7, "O": 2, "U": 2}[f[0]]
                pos = rnd.randint(2 if f[0] in "SPEGOU" else 1, npos)
                vals = EDIT_VALUES.get((f[0], ver, pos)) or EDIT_VALUES.get((f[0], None, pos))
                if not vals:
                    continue
                v = rnd.choice(vals)
                if f[0] == "S" and (any(x.startswith("LN:i:") for x in f) or ver == "gfa2"):
                    v = "*" if (ver == "gfa1" or pos == 3) else f[pos]
                new = "\t".join(f[:pos] + [v] + f[pos + 1:])
                h.append(dict(k="setf", text="", texts=[t, new], id="", id2="valid", n=pos))
                # the model decides whether the edit is accepted; the generator follows the documented rule
                # only to chain edits (a wrong guess just makes the next edit address a missing line)
                refused = (f[0] == "L") or (f[0] in "CGF" and pos in ((1, 3) if f[0] == "C" else (2, 3) if f[0] == "G" else (1,))) \
                    or (f[0] == "E" and pos <= 7) or (f[0] in "POU")
                if not refused:
                    cur[cur.index(t)] = new
            elif c < 0.72 and (f[0] in "LCEGF" or (f[0] in "SOU" and rnd.random() < 0.5)):
                # the same object is disconnected, edited while outside the Gfa (every field may be
                # edited then) and added again
                npos = {"L": 5, "C": 6, "E": 8, "G": 5, "F": 7, "S": 2 if ver == "gfa1" else 3, "P": 3, "O": 2, "U": 2}[f[0]]
                new = list(f)
                if f[0] == "E" and rnd.random() < 0.5:
                    # the two intervals exchange their kinds (suffix <-> prefix): sid1 and sid2 swap the
                    # roles of "from" and "to" segment
                    L1, L2 = seglen.get(f[2][:-1], 3), seglen.get(f[3][:-1], 3)
                    pre = lambda L: ["0", "%d%s" % (min(2, L), "$" if min(2, L) == L else "")]
                    suf = lambda L: [str(max(0, L - 2)), "%d$" % L]
                    new[4:8] = (pre(L1) + suf(L2)) if f[5].endswith("$") else (suf(L1) + pre(L2))
                swapped = new != f
                # (a segment is re-added as it was: an edited sequence or length may contradict its LN tag /
                # the other field, which the grammar refuses -- not what this history is about)
                for _k in range(0 if f[0] == "S" else rnd.randint(0 if swapped else 1, 2)):
                    pos = 8 if swapped else rnd.randint(2 if f[0] in "EGSPOU" else 1, npos)
                    if f[0] == "E" and 4 <= pos <= 7:
                        pos = 8      # a single position edited alone could make begin > end: not a line any more
                    vals = EDIT_VALUES.get((f[0], ver, pos)) or EDIT_VALUES.get((f[0], None, pos))
                    if vals:
                        new[pos] = rnd.choice(vals)
                new = "\t".join(new)
                h.append(dict(k="disc", text=t, id="", id2="", hold=True))
                ment = [x.rstrip("+-") for x in (f[2].split(" ") if f[0] in "OU" else f[2:4] if f[0] in "EG" else f[1:4:2] if f[0] in "LC" else f[1:2])]
                ment = [m for m in ment if m in segtext]
                if ment and rnd.random() < 0.5:
                    # meanwhile a line the object mentions is removed and defined again: the re-added object
                    # refers to the line that carries the identifier now
                    m = rnd.choice(ment)
                    h.append(dict(k="rm", text="", id=m, id2=""))
                    h.append(A(segtext[m]))
                    h.append(dict(k="add", text=new, id="", id2="", held=t))
                    h.append(dict(k="ren", text="", id=m, id2="rz", n=0))
                else:
                    h.append(dict(k="add", text=new, id="", id2="", held=t))
                cur[cur.index(t)] = new
            elif c < 0.8 and f[0] != "S":
                h.append(dict(k="disc", text=t, id="", id2=""))
            elif c < 0.9:
                h.append(dict(k="rm", text="", id=rnd.choice(universe), id2=""))
            else:
                h.append(A(rnd.choice(adds)))
        jobs.append(dict(id="%s-%s-%d" % (kind, catname, i), kind=kind, cfg=dict(version=ver, vlevel=vlevel),
                         ops=h, universe=universe))
    return jobs


# --------------------------------------------------------------------------
# clause -> property attribution (DESIGN 3.2)

CLAUSE_PROP = {
    "foreign": "C07", "stutter": "C08", "query-changed": "C10", "query-unrepeatable": "C10", "stutter.query": "C08",
    "query-history": "C10",
    "res.notunique": "C09", "names": "C09", "lookup": "C09", "fresh": "C09",
    "res.version": "C13", "version": "C13",
    "externals": "C05", "lines": "C05", "res.refused": "C05", "res.accepted": "C05", "hdr": "C05",
    "virtual": "C03", "shadow": "C03",
    "C02.closed": "C02", "C02.sym": "C02", "C02.owner": "C02", "C02.lookup-unlisted": "C02",
    "broken-listing": "C02",
    "keys": "C11", "nbrs": "C11", "etype": "C11", "flags": "C12", "components": "C16", "counts": "C16",
}


# C03 is about everything that must not depend on the arrival order: version, written records,
# identifiers, reference targets, back-reference sets, placeholders
ORDER_CLAUSES = {"lines", "hdr", "version", "virtual", "shadow", "keys", "nbrs", "etype", "flags", "names", "lookup",
                 "externals", "C02.closed", "C02.sym", "C02.owner", "C02.lookup-unlisted", "res.refused",
                 "res.notunique", "res.version", "components", "counts"}


LINK_CLAUSES = {"lines", "res.refused", "res.accepted", "keys", "nbrs", "counts", "virtual", "C02.sym", "C02.closed"}


def attribute(clauses, kind):
    props = set()
    for c in clauses:
        p = CLAUSE_PROP.get(c, "C05")
        if kind == "ver" and c in ("lines", "stutter", "hdr"):
            # C13's own workload: "lines queued while the version was unknown are each added exactly
            # once"; a refused version decision leaves version, queue and lines as they were
            props.add("C13")
        if kind == "cell" and c in ("components", "counts"):
            # C11's own workload: "neighbours, ... other-end and connectivity answers follow from these collections"
            props.add("C11")
        if kind == "link" and c in LINK_CLAUSES:
            # a history of one link, its complement and paths over either form: what is stored after
            # each of these additions is what C12 states ("adds nothing and raises nothing", "path
            # resolution finds the stored link from either form")
            props.add("C12")
        if kind == "perm":
            if p == "C05":
                p = "C03"
            if c in ORDER_CLAUSES:
                props.add("C03")
        props.add(p)
    return props


MC_LEAF_CAP = 60000


def run_pipeline(out, jobs_by_name, mc_specs, prop):
    """jobs_by_name: {name: [jobs]} random/doc jobs; mc_specs: [(catname, depth)].
    Fills the Outcome `out` for property `prop`."""
    all_jobs = []
    st_states = st_trans = 0
    nh = 0
    for catname, depth in mc_specs:
        leaves, ops, st, n = mc_histories(catname, depth, "mc-%s-%s-%d" % (prop, catname, depth))
        st_trans += st[0]
        st_states += st[1]
        nh += n
        if len(leaves) > MC_LEAF_CAP:
            # TLC has visited every history (the properties of the specification are checked on all of
            # them); a seeded sample of the maximal ones is replayed into gfapy
            out.add_cov(mc_histories_enumerated=len(leaves), mc_histories_replayed_sample=MC_LEAF_CAP)
            leaves = sorted(random.Random(out.seed + depth).sample(leaves, MC_LEAF_CAP))
        all_jobs += history_jobs(leaves, ops, catname, "mc")
    for name, jobs in jobs_by_name.items():
        all_jobs += jobs
    st_traces, st_stats = suite_traces("suite-" + prop)
    out.add_cov(test_suite_traces=len(st_traces), test_suite_hook_events=st_stats.get("events", 0),
                test_suite_traces_skipped_big=st_stats.get("big", 0))
    r = replay_validate(all_jobs, "val-" + prop, extra_traces=st_traces)
    traces = list(r["by_id"].values())
    nontrivial = set()
    for t in traces:
        if any(e["res"] == "ok" and e["op"]["k"] in ("rm", "disc", "ren") for e in t["ev"]) or \
                sum(1 for e in t["ev"] if e["res"] == "ok") >= 2:
            nontrivial.add(hashlib.md5(json.dumps(t["src"], sort_keys=True).encode()).hexdigest())
    out.add_cov(states=st_states + r["states"], transitions=st_trans + r["states"],
                spec_states=st_states, spec_transitions=st_trans, spec_histories=nh,
                traces_validated_against_impl=len(traces), events_validated=r["states"],
                traces_left_open_by_spec=r["unmodelled"][0], events_after_open_call=r["unmodelled"][1],
                evaluations=len(traces), distinct_nontrivial=len(nontrivial),
                rule="histories of add/rm/disconnect/rename enumerated by TLC from MC_Gfa "
                     "(every maximal history up to the depth) plus seeded random and document-first "
                     "histories; non-trivial = distinct history with a successful removal/rename or "
                     ">= 2 successful calls")
    by_id = r["by_id"]
    seen_first = set()
    for tid, ev, clauses, phase in r["rejects"]:
        t = by_id.get(tid)
        kind = t["kind"] if t else "?"
        props = attribute(clauses, kind)
        if prop in props:
            mine = sorted(c for c in clauses if prop in attribute([c], kind))
            out.violations.append(dict(
                family="core", clauses=mine, all_clauses=clauses, event=ev, phase=phase, trace=tid,
                cfg=t["cfg"] if t else None, ops=(t["src"][:ev] if t else []),
                res=[e["res"] + (":" + e["exc"] if e["exc"] else "") for e in (t["ev"][:ev] if t else [])],
                what="clauses %s at call %d" % (",".join(mine), ev)))
        for p in props - {prop}:
            out.others[p] = out.others.get(p, 0) + 1
            samples = out.cov.setdefault("other_property_samples", {})
            if p not in samples and t:
                samples[p] = {"clauses": clauses, "call": ev, "cfg": t["cfg"],
                              "ops": [[o["k"], o.get("text") or o.get("texts") or [o["id"], o["id2"]]] for o in t["src"][:ev]],
                              "res": [e["res"] + (":" + e["exc"] if e["exc"] else "") for e in t["ev"][:ev]]}
    def interest(t):
        ks = [e["op"]["k"] for e in t["ev"] if e["res"] == "ok"]
        return (len(set(ks) & {"rm", "disc", "ren", "settag", "rsc"}), len({e["res"] for e in t["ev"]}), -abs(len(t["ev"]) - 8))
    picked, kinds = [], set()
    for t in sorted(traces, key=interest, reverse=True):
        if t["kind"] not in kinds:
            kinds.add(t["kind"])
            picked.append(t)
        if len(picked) >= 4:
            break
    for t in picked:
        out.samples.append({"trace": t["id"], "kind": t["kind"], "cfg": t["cfg"],
                            "calls": [[o["k"], o.get("text") or o.get("texts") or [o["id"], o["id2"]], e["res"]]
                                      for o, e in zip(t["src"], t["ev"])][:16]})
    return traces, r



# --------------------------------------------------------------------------
# arrival orders (C03): every permutation of every valid document

ARRIVAL_CFG = """SPECIFICATION Spec
CONSTRAINT Emit
INVARIANT AllAccepted
INVARIANT Confluent
INVARIANT NoPlaceholderAtEnd
INVARIANT VersionDecided
CHECK_DEADLOCK FALSE
"""


def mc_arrival(catname, minl, maxl, name, cfgversion="none", vlevel=1, timeout=3600):
    wd = workdir(name)
    cat = CATALOGUES[catname]
    ops = [o for o in build_ops(cat) if o["k"] == "add"]
    cj, ops = catalog_json(catname, maxl, cfgversion, vlevel, ops)
    cj["mindepth"] = minl
    cf = os.path.join(wd, "catalog.json")
    with open(cf, "w") as f:
        json.dump(cj, f)
    rc, out = run_tlc("MC_Arrival", ARRIVAL_CFG, wd, env={"CATALOG_FILE": cf}, workers=NCPU,
                      timeout=timeout, heap="8g")
    if rc != 0 or "No error has been found" not in out:
        raise MachineryError("MC_Arrival failed:\n" + "\n".join(out.splitlines()[-40:]))
    seqs = {}
    for raw in parse_tuples(out, "H"):
        v = tla_value(raw)
        seqs[tuple(x - 1 for x in v[1])] = bool(v[2])
    return seqs, ops, stats(out)


def perm_jobs(seqs, ops, catname, cfgversion="none", vlevel=1, tag=""):
    cat = CATALOGUES[catname]
    universe = sorted(set(cat["ids"]))
    jobs = []
    for n, (h, strict) in enumerate(sorted(seqs.items())):
        jobs.append(dict(id="perm%s-%s-%s-%d" % (tag, catname, cfgversion, n), kind="perm",
                         cfg=dict(version=cfgversion, vlevel=vlevel),
                         ops=[ops[i] for i in h] + [dict(k="flush", text="", id="", id2="")],
                         universe=universe, doc=[catname] + sorted(h), strict=strict))
    return jobs


def validate_equal_groups(groups, name, clause="order"):
    """groups: [{"id", "digs": [...], "res": [...]}]; TLC (TracePerm) requires equal digests."""
    groups = [g for g in groups if len(g["digs"]) > 1]
    if not groups:
        return [], 0
    wd = workdir(name)
    f = os.path.join(wd, "groups.json")
    with open(f, "w") as fh:
        json.dump(groups, fh)
    rc, out = run_tlc("TracePerm", TRACE_CFG, wd, env={"TRACE_FILE": f}, workers=1)
    st = stats(out)
    if rc != 0 or st is None or st[1] != 2 * len(groups):
        raise MachineryError("TracePerm failed:\n" + "\n".join(out.splitlines()[-20:]))
    rej = []
    for raw in parse_tuples(out, "REJECT"):
        v = tla_value(raw)
        rej.append((v[1], v[2], [clause], v[4]))
    return rej, len(groups)


def validate_perm_groups(traces, jobs, name):
    """Digest equality across the orders of each strict document, judged by TLC."""
    by_doc = {}
    jb = {j["id"]: j for j in jobs}
    for t in traces:
        j = jb.get(t["id"])
        if not j or not j.get("strict") or not t["ev"] or not t["ev"][-1].get("dig"):
            continue
        key = json.dumps([j["doc"], j["cfg"]])
        g = by_doc.setdefault(key, {"id": t["id"], "digs": [], "res": [], "ids": []})
        g["digs"].append(t["ev"][-1]["dig"])
        g["res"].append("+".join(sorted(e["res"] for e in t["ev"])))
        g["ids"].append(t["id"])
    groups = [g for g in by_doc.values() if len(g["digs"]) > 1]
    if not groups:
        return [], 0
    wd = workdir(name)
    f = os.path.join(wd, "groups.json")
    with open(f, "w") as fh:
        json.dump(groups, fh)
    rc, out = run_tlc("TracePerm", TRACE_CFG, wd, env={"TRACE_FILE": f}, workers=1)
    st = stats(out)
    if rc != 0 or st is None or st[1] != 2 * len(groups):
        raise MachineryError("TracePerm failed:\n" + "\n".join(out.splitlines()[-20:]))
    rej = []
    for raw in parse_tuples(out, "REJECT"):
        v = tla_value(raw)
        rej.append((v[1], v[2], sorted(v[3]), v[4]))
    return rej, len(groups)


# --------------------------------------------------------------------------
# traces of the repository's own test-suite (needs the env-guarded hook)

def suite_traces(name="suite"):
    import subprocess
    wd = workdir(name)
    out = os.path.join(wd, "suite.json")
    env = dict(os.environ, GFAPY_VERIF="1", PYTHONPATH=VERIF + os.pathsep + REPO, SUITE_TRACE_OUT=out,
               PYTHONHASHSEED="0", PYTHONDONTWRITEBYTECODE="1")
    p = subprocess.run([sys.executable, "-m", "pytest", "-q", "-p", "no:cacheprovider", "-p", "harness.suite_trace",
                        "-x", "--no-header", "-q", "tests"], cwd=REPO, env=env, stdout=subprocess.PIPE,
                       stderr=subprocess.STDOUT, text=True, timeout=1800)
    if not os.path.exists(out):
        return [], {"no_hook": 1, "pytest_tail": p.stdout[-500:]}
    with open(out) as f:
        d = json.load(f)
    return d["traces"], d["stats"]


# --------------------------------------------------------------------------
# implementation-shaped layer (GfaImpl.tla): refinement of Gfa.tla, cascade one step at a time

IMPL_LINES = ["S|a|4|*", "S|b|6|*", "E|e1|a+|b+|2|4$|0|2|*", "E|e2|a+|b+|1|4$|0|3|*",
              "E|*|a+|b-|0|1|3|6$|*", "U|u|a e1", "U|v|u b", "U|u|b", "U|v|e1", "E|e3|z+|u+|0|1|0|1|*"]


def mc_impl(depth, snapshot=True, name="impl", repoint=True, rollback=True):
    """returns (ok, (generated, distinct), violated invariant or None)"""
    wd = workdir(name)
    cf = os.path.join(wd, "cat.json")
    with open(cf, "w") as f:
        json.dump({"pool": [abstract_input(text_of(l)) for l in IMPL_LINES], "maxobjs": 9, "depth": depth}, f)
    cfg = ("SPECIFICATION Spec\nCONSTANTS\n  Catalogue <- MCCatalogue\n  MaxObjs <- MCMaxObjs\n  MaxOps <- MCMaxOps\n"
           "  SnapshotCascade = %s\n  RepointMerged = %s\n  RollbackOnRefusal = %s\nINVARIANT Refines\nINVARIANT Closed\nINVARIANT Symmetric\n"
           "INVARIANT PlaceholdersExact\nCHECK_DEADLOCK FALSE\n" % ("TRUE" if snapshot else "FALSE",
                                                                  "TRUE" if repoint else "FALSE",
                                                                  "TRUE" if rollback else "FALSE"))
    rc, out = run_tlc("MC_GfaImpl", cfg, wd, env={"CATALOG_FILE": cf}, workers=NCPU, heap="6g")
    st = stats(out)
    import re
    m = re.search(r"Invariant (\w+) is violated", out)
    if rc == 0 and "No error has been found" in out:
        return True, st, None
    if m:
        return False, st, m.group(1)
    raise MachineryError("MC_GfaImpl failed:\n" + "\n".join(out.splitlines()[-30:]))


# --------------------------------------------------------------------------
# fuzz driver: random graphs with names/values outside the catalogues (large alphabets that TLC
# would not enumerate); trace validation does not depend on a catalogue

NAME_POOL = ["s1", "A_B", "x.y", "12", "7", "a:b", "Q", "node|3", "c#1", "z9", "100", "u~v"]
CIGARS = ["*", "1M", "3M", "2M1D1M", "1I2M", "4M1I", "2=", "1M1X1M"]


def fuzz_jobs(n, seed, version, nmut=6, kind="fuzz"):
    rnd = random.Random(seed)
    jobs = []
    A = lambda t: dict(k="add", text=t, id="", id2="")
    for j in range(n):
        k = rnd.randint(2, 5)
        names = rnd.sample(NAME_POOL, k)
        lens = {x: rnd.randint(3, 9) for x in names}
        lines, ids = [], list(names)
        seq = lambda L: "".join(rnd.choice("ACGT") for _ in range(L))
        if version == "gfa1":
            for x in names:
                c = rnd.random()
                lines.append("S\t%s\t%s" % (x, seq(lens[x])) if c < 0.4 else
                             "S\t%s\t*\tLN:i:%d" % (x, lens[x]) if c < 0.8 else "S\t%s\t*" % x)
            links = []
            for _ in range(rnd.randint(1, 5)):
                a, b = rnd.choice(names), rnd.choice(names)
                o1, o2 = rnd.choice("+-"), rnd.choice("+-")
                if any(l[:4] == (a, o1, b, o2) for l in links):
                    continue
                cg = rnd.choice(CIGARS)
                links.append((a, o1, b, o2, cg))
                tag = ""
                if rnd.random() < 0.3:
                    lid = "l%d" % len(links) if rnd.random() < 0.7 else str(rnd.randint(1, 30))
                    if lid not in ids:
                        ids.append(lid)
                        tag = "\tID:Z:" + lid
                lines.append("L\t%s\t%s\t%s\t%s\t%s%s" % (a, o1, b, o2, cg, tag))
            for _ in range(rnd.randint(0, 2)):
                a, b = rnd.sample(names, 2) if k >= 2 else (names[0], names[0])
                lines.append("C\t%s\t%s\t%s\t%s\t%d\t*" % (a, rnd.choice("+-"), b, rnd.choice("+-"), rnd.randint(0, 2)))
            for pi in range(rnd.randint(0, 2)):
                if not links:
                    break
                walk = [rnd.choice(links)]
                for _ in range(rnd.randint(0, 2)):
                    nxt = [l for l in links if (l[0], l[1]) == (walk[-1][2], walk[-1][3])]
                    if not nxt:
                        break
                    walk.append(rnd.choice(nxt))
                segs = ["%s%s" % (walk[0][0], walk[0][1])] + ["%s%s" % (l[2], l[3]) for l in walk]
                pn = "p%d" % pi
                ids.append(pn)
                ov = "*" if rnd.random() < 0.5 else ",".join(l[4] for l in walk)
                if rnd.random() < 0.3:      # traverse the walk backwards (complement links)
                    inv = {"+": "-", "-": "+"}
                    segs = [s[:-1] + inv[s[-1]] for s in reversed(segs)]
                    ov = "*"
                lines.append("P\t%s\t%s\t%s" % (pn, ",".join(segs), ov))
        else:
            for x in names:
                lines.append("S\t%s\t%d\t%s" % (x, lens[x], seq(lens[x]) if rnd.random() < 0.4 else "*"))
            def iv(x):
                L = lens[x]
                b = rnd.choice([0, 0, rnd.randint(0, L)])
                e = rnd.choice([L, L, rnd.randint(b, L)])
                return "%d%s" % (b, "$" if b == L else ""), "%d%s" % (e, "$" if e == L else "")
            edges = []
            for _ in range(rnd.randint(1, 5)):
                a, b = rnd.choice(names), rnd.choice(names)
                eid = "*" if rnd.random() < 0.3 else ("e%d" % len(edges) if rnd.random() < 0.7 else str(rnd.randint(1, 30)))
                if eid != "*":
                    if eid in ids:
                        continue
                    ids.append(eid)
                (b1, e1), (b2, e2) = iv(a), iv(b)
                edges.append(eid)
                lines.append("E\t%s\t%s%s\t%s%s\t%s\t%s\t%s\t%s\t*" % (eid, a, rnd.choice("+-"), b, rnd.choice("+-"), b1, e1, b2, e2))
            for gi in range(rnd.randint(0, 2)):
                a, b = rnd.choice(names), rnd.choice(names)
                gid = "g%d" % gi
                ids.append(gid)
                lines.append("G\t%s\t%s%s\t%s%s\t%d\t%s" % (gid, a, rnd.choice("+-"), b, rnd.choice("+-"), rnd.randint(1, 50), rnd.choice(["*", "3"])))
            for _ in range(rnd.randint(0, 2)):
                x = rnd.choice(names)
                (b1, e1) = iv(x)
                lines.append("F\t%s\tread%d%s\t%s\t%s\t0\t%d\t*" % (x, rnd.randint(1, 3), rnd.choice("+-"), b1, e1, rnd.randint(1, 5)))
            named = [e for e in edges if e != "*"]
            for ui in range(rnd.randint(0, 2)):
                popu = names + named + [i for i in ids if i.startswith("g")]
                items = rnd.sample(popu, min(len(popu), rnd.randint(1, 3)))
                un = "u%d" % ui
                ids.append(un)
                lines.append("U\t%s\t%s" % (un, " ".join(items)))
            for oi in range(rnd.randint(0, 1)):
                on = "o%d" % oi
                ids.append(on)
                lines.append("O\t%s\t%s" % (on, " ".join(x + rnd.choice("+-") for x in rnd.sample(names, min(2, k)))))
        rnd.shuffle(lines)
        ops = [A(t) for t in lines]
        fresh = ["new%d" % rnd.randint(1, 9), str(rnd.randint(1, 40)), rnd.choice(NAME_POOL)]
        for _ in range(nmut):
            c = rnd.random()
            if c < 0.3:
                ops.append(dict(k="rm", text="", id=rnd.choice(ids), id2=""))
            elif c < 0.5:
                nn = rnd.choice(fresh + ids + ["*", "a b"])
                ops.append(dict(k="ren", text="", id=rnd.choice(ids), id2=nn, n=name_class(nn)))
            elif c < 0.65:
                t = rnd.choice(lines)
                ops.append(dict(k="disc", text=t, id="", id2="") if t[0] != "S" else A(t))
            elif c < 0.75:
                ops.append(dict(k="unused", text="", id="", id2=""))
            elif c < 0.85:
                ops.append(dict(k="settag", text="H\txx:i:%d" % rnd.randint(0, 2 ** 31 - 1), id=rnd.choice(ids), id2=""))
            else:
                ops.append(A(rnd.choice(lines)))
        jobs.append(dict(id="%s-%s-%d" % (kind, version, j), kind=kind, cfg=dict(version=version, vlevel=rnd.choice([1, 1, 2, 3, 0])),
                         ops=ops, universe=sorted(set(ids + fresh))[:16] + ["zz"]))
    return jobs
