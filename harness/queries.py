"""Read-only query groups (C10).  run(gfapy, gfa, group) performs every query of the
group on the Gfa / every line / every alignment value and returns a serialisation of all
answers; a gfapy.Error raised by an individual query is part of the answer ("!Class");
a foreign exception propagates to the caller (C07)."""

GROUPS = ["str", "fields", "validate", "clone_eq_diff", "link_tests", "alignment", "neighbourhood",
          "groups", "collections", "finders", "topology", "linear_paths", "select", "copy_edits", "converted_edits"]


def ans(gfapy, x, depth=0):
    if depth > 6:
        return "..."
    if x is None or isinstance(x, (bool, int, float, str)):
        return repr(x)
    if isinstance(x, gfapy.Line):
        try:
            return "Line<" + str(x) + ">"
        except gfapy.Error as e:
            return "Line<!%s>" % type(e).__name__
    if isinstance(x, (gfapy.OrientedLine, gfapy.SegmentEnd)):
        return type(x).__name__ + "<" + str(x) + ">"
    if isinstance(x, dict):
        return "{" + ",".join(sorted(ans(gfapy, k, depth + 1) + ":" + ans(gfapy, v, depth + 1)
                                     for k, v in x.items())) + "}"
    if isinstance(x, (set, frozenset)):
        return "set(" + ",".join(sorted(ans(gfapy, e, depth + 1) for e in x)) + ")"
    if isinstance(x, (list, tuple)):
        return "[" + ",".join(ans(gfapy, e, depth + 1) for e in x) + "]"
    try:
        return type(x).__name__ + "<" + str(x) + ">"
    except gfapy.Error as e:
        return type(x).__name__ + "<!%s>" % type(e).__name__


def q(gfapy, out, label, fn):
    """one query; gfapy errors are answers, anything else propagates"""
    try:
        out.append(label + "=" + ans(gfapy, fn()))
    except gfapy.Error as e:
        out.append(label + "=!" + type(e).__name__)
    except Exception as e:      # foreign: recorded ("=!!"), the group goes on; the call is classified FOREIGN
        out.append(label + "=!!" + type(e).__name__)


def all_lines(gfa):
    seen, res = set(), []
    for l in list(gfa.lines) + list(gfa._records["\n"].values()) + [gfa.header]:
        if id(l) not in seen:
            seen.add(id(l))
            res.append(l)
    return res


def run(gfapy, gfa, group):
    out = []
    lines = all_lines(gfa)
    Q = lambda label, fn: q(gfapy, out, label, fn)
    if group == "str":
        Q("gfa", lambda: str(gfa))
        for i, l in enumerate(lines):
            Q("s%d" % i, lambda: str(l))
            Q("r%d" % i, lambda: repr(l))
            Q("l%d" % i, lambda: l.to_list())
            Q("t%d" % i, lambda: l.to_str(add_virtual_commentary=False))
            if l.record_type == "S":
                Q("ws%d" % i, lambda: l.to_str_without_sequence() if hasattr(l, "to_str_without_sequence") else None)
    elif group == "fields":
        for i, l in enumerate(lines):
            Q("pf%d" % i, lambda: list(l.positional_fieldnames))
            Q("tn%d" % i, lambda: list(l.tagnames))
            Q("rt%d" % i, lambda: l.record_type)
            Q("ver%d" % i, lambda: l.version)
            for fn in list(l.positional_fieldnames) + list(l.tagnames) + ["name", "zz", "LN", "length", "xx", "yy"]:
                Q("g%d.%s" % (i, fn), lambda: l.get(fn))
                Q("tg%d.%s" % (i, fn), lambda: l.try_get(fn))
                Q("fs%d.%s" % (i, fn), lambda: l.field_to_s(fn))
                Q("ft%d.%s" % (i, fn), lambda: l.field_to_s(fn, tag=True))
                Q("dt%d.%s" % (i, fn), lambda: l.get_datatype(fn))
            for fn in list(l.positional_fieldnames) + list(l.tagnames):
                if not l.virtual:        # attribute reads of fields the line has
                    Q("at%d.%s" % (i, fn), lambda: getattr(l, fn))
    elif group == "validate":
        Q("gfa.validate", lambda: gfa.validate())
        for i, l in enumerate(lines):
            Q("v%d" % i, lambda: l.validate())
            for fn in list(l.positional_fieldnames) + list(l.tagnames):
                Q("vf%d.%s" % (i, fn), lambda: l.validate_field(fn))
    elif group == "clone_eq_diff":
        for i, l in enumerate(lines):
            if l.record_type == "H":
                continue
            Q("c%d" % i, lambda: l.clone())
            Q("ceq%d" % i, lambda: l.clone() == l)
            for j, m in enumerate(lines):
                if m.record_type == "H":
                    continue
                Q("eq%d.%d" % (i, j), lambda: l == m)
                if l.record_type == m.record_type and type(l) is type(m):
                    Q("df%d.%d" % (i, j), lambda: l.diff(m))
                    Q("ds%d.%d" % (i, j), lambda: l.diffscript(m, "x"))
            Q("eqs%d" % i, lambda: l == "zz")
    elif group == "copy_edits":
        # whatever is done to a copy (clone, complement) leaves the Gfa and the line it came from alone
        for i, l in enumerate(lines):
            if l.record_type == "H" or l.virtual:
                continue
            for how in ("clone", "complement"):
                if how == "complement" and l.record_type != "L":
                    continue
                def edit():
                    c = l.clone() if how == "clone" else l.complement()
                    res = []
                    for step in (lambda: c.set("zz", 7), lambda: c.set("zz", "s"), lambda: c.delete("zz"),
                                 lambda: [c.delete(t) for t in list(c.tagnames)],
                                 lambda: c.set_datatype("yy", "A"), lambda: c.set("yy", "q"),
                                 lambda: [c.set(f, c.get(f)) for f in c.positional_fieldnames],
                                 lambda: [c.set(f, c.field_to_s(f)) for f in c.positional_fieldnames],
                                 lambda: c.disconnect()):
                        try:
                            step()
                            res.append("ok")
                        except gfapy.Error as e:
                            res.append("!" + type(e).__name__)
                    try:
                        res.append(str(c))
                    except gfapy.Error as e:
                        res.append("!" + type(e).__name__)
                    return res
                Q("%s%d" % (how, i), edit)
    elif group == "converted_edits":
        # a converted Gfa is a new document: editing it does not reach the one it was made from
        for how in ("to_gfa1", "to_gfa2"):
            if gfa.version not in ("gfa1", "gfa2"):
                continue
            # by design the conversion to GFA2 gives an unnamed link/containment of the SOURCE an ID tag
            # (C06, "edge identifiers"): the source is compared only when nothing is left to be named
            if how == "to_gfa2" and gfa.version == "gfa1" and \
                    any(not x.get("ID") for x in list(gfa.dovetails) + list(gfa.containments)):
                continue
            def conv():
                h = getattr(gfa, how)()
                res = [str(h)]
                if h is gfa:          # documented: a Gfa of that version is returned itself
                    return res
                for step in (lambda: [x.set("zz", 1) for x in h.lines if x.record_type not in ("#",)],
                             lambda: [x.delete(t) for x in h.lines for t in list(x.tagnames)],
                             lambda: h.header.add("zq", 2),
                             lambda: [h.rm(x) for x in list(h.segments)[:1]],
                             lambda: [setattr(x, "name", str(x.name) + "_r") for x in list(h.segments)],
                             lambda: [h.rm(x) for x in list(h.lines) if x.record_type not in ("H",)]):
                    try:
                        step()
                        res.append("ok")
                    except gfapy.Error as e:
                        res.append("!" + type(e).__name__)
                return res
            Q(how, conv)
    elif group == "link_tests":
        links = [l for l in lines if l.record_type == "L"]
        edges = [l for l in lines if l.record_type in ("L", "C", "E")]
        for i, l in enumerate(links):
            Q("cp%d" % i, lambda: l.complement())
            Q("can%d" % i, lambda: l.is_canonical())
            for j, m in enumerate(links):
                Q("ic%d.%d" % (i, j), lambda: l.is_complement(m))
                Q("ie%d.%d" % (i, j), lambda: l.is_eql(m))
                Q("is%d.%d" % (i, j), lambda: l.is_same(m))
                Q("cmp%d.%d" % (i, j), lambda: l.is_compatible(m.oriented_from, m.oriented_to, m.overlap, True))
                Q("cmd%d.%d" % (i, j), lambda: l.is_compatible_direct(m.oriented_from, m.oriented_to, m.overlap))
                Q("cmc%d.%d" % (i, j), lambda: l.is_compatible_complement(m.oriented_from, m.oriented_to, m.overlap))
        for i, l in enumerate(edges):
            if l.virtual:
                continue
            Q("circ%d" % i, lambda: l.is_circular())
            Q("dov%d" % i, lambda: [l.is_dovetail(), l.is_containment(), l.is_internal()])
            Q("fe%d" % i, lambda: [l.from_end, l.to_end, l.from_name, l.to_name])
            Q("oe%d" % i, lambda: [l.other_end(l.from_end), l.other_end(l.to_end)])
            Q("fo%d" % i, lambda: [l.from_segment, l.to_segment, l.from_orient, l.to_orient])
            Q("cse%d" % i, lambda: l.is_circular_same_end())
            if l.record_type == "C":
                Q("ccan%d" % i, lambda: l.is_canonical())
                Q("rpos%d" % i, lambda: l.rpos)
            if l.record_type in ("L", "C"):
                Q("os%d" % i, lambda: [l.oriented_from, l.oriented_to])
                Q("oth%d" % i, lambda: [l.other(l.from_segment), l.other(l.to_segment)])
                Q("oos%d" % i, lambda: l.other_oriented_segment(l.oriented_from))
            if l.record_type == "E":
                Q("eo%d" % i, lambda: [l.other(l.sid1.line), l.other_oriented_segment(l.sid1)])
                Q("ov%d" % i, lambda: l.overlap)
    elif group == "alignment":
        for i, l in enumerate(lines):
            for fn in ("overlap", "alignment", "overlaps"):
                if fn in l.positional_fieldnames:
                    v = l.get(fn)
                    vs = v if fn == "overlaps" else [v]
                    for k, a in enumerate(vs):
                        if hasattr(a, "complement"):
                            Q("ac%d.%s%d" % (i, fn, k), lambda: a.complement())
                        if hasattr(a, "length_on_reference"):
                            Q("al%d.%s%d" % (i, fn, k), lambda: [a.length_on_reference(), a.length_on_query()])
                        if hasattr(a, "validate"):
                            Q("av%d.%s%d" % (i, fn, k), lambda: a.validate())
                        Q("as%d.%s%d" % (i, fn, k), lambda: [str(a), repr(a)])
            for fn in ("beg1", "end1", "beg2", "end2", "s_beg", "s_end", "f_beg", "f_end", "pos"):
                if fn in l.positional_fieldnames:
                    p = l.get(fn)
                    Q("ps%d.%s" % (i, fn), lambda: [str(p), gfapy.posvalue(p), gfapy.islastpos(p), gfapy.isfirstpos(p)])
    elif group == "neighbourhood":
        for i, l in enumerate(lines):
            if l.record_type != "S":
                continue
            for a in ("dovetails", "dovetails_L", "dovetails_R", "gaps", "gaps_L", "gaps_R", "containments",
                      "edges_to_contained", "edges_to_containers", "internals", "edges", "neighbours",
                      "neighbours_L", "neighbours_R", "containers", "contained", "paths", "sets", "fragments",
                      "all_references"):
                Q("n%d.%s" % (i, a), lambda: getattr(l, a))
            Q("conn%d" % i, lambda: l._connectivity())
            for e in ("L", "R"):
                Q("doe%d%s" % (i, e), lambda: [l.dovetails_of_end(e), l.gaps_of_end(e), l.neighbours_of_end(e)])
            for j, m in enumerate(lines):
                if m.record_type == "S":
                    Q("rel%d.%d" % (i, j), lambda: l.relations_to(m))
                    Q("reln%d.%d" % (i, j), lambda: l.relations_to(m.name, "dovetails"))
                    for e1 in ("L", "R"):
                        for e2 in ("L", "R"):
                            Q("er%d.%d%s%s" % (i, j, e1, e2),
                              lambda: l.end_relations(e1, gfapy.SegmentEnd(m, e2), "dovetails"))
            Q("len%d" % i, lambda: [l.length, l.try_get_length() if hasattr(l, "try_get_length") else None])
            Q("cov%d" % i, lambda: l.coverage() if hasattr(l, "coverage") else None)
    elif group == "groups":
        for i, l in enumerate(lines):
            if l.record_type in ("P", "O") and not l.virtual:
                Q("cpath%d" % i, lambda: l.captured_path)
                Q("cseg%d" % i, lambda: l.captured_segments)
                Q("cedg%d" % i, lambda: l.captured_edges)
            if l.record_type == "P" and not l.virtual:
                Q("pcirc%d" % i, lambda: [l.is_circular(), l.is_linear(), l.links])
            if l.record_type == "U" and not l.virtual:
                Q("iset%d" % i, lambda: l.induced_set)
                Q("isegs%d" % i, lambda: l.induced_segments_set)
                Q("iedg%d" % i, lambda: l.induced_edges_set)
            if l.record_type in ("O", "U"):
                Q("items%d" % i, lambda: l.items)
            if l.record_type not in ("H",):
                Q("refs%d" % i, lambda: [l.is_connected(), l.gfa is gfa, l.virtual, l.refstr()])
    elif group == "collections":
        for a in ("comments", "gaps", "sets", "segments", "edges", "dovetails", "containments", "paths",
                  "fragments", "custom_records", "gap_names", "set_names", "segment_names", "edge_names",
                  "path_names", "names", "external_names", "custom_record_keys", "lines", "headers", "header",
                  "version", "dialect", "vlevel", "n_input_header_lines"):
            Q(a, lambda: getattr(gfa, a))
        Q("crt", lambda: [gfa.custom_records_of_type(k) for k in gfa.custom_record_keys])
    elif group == "finders":
        ids = sorted({str(l.get("name")) for l in lines if l.get("name")}) + ["zz", "*", "", "1"]
        for i in ids:
            Q("line." + i, lambda: gfa.line(i))
            Q("seg." + i, lambda: gfa.segment(i))
            Q("tgl." + i, lambda: gfa.try_get_line(i))
            Q("tgs." + i, lambda: gfa.try_get_segment(i))
            Q("ffe." + i, lambda: gfa.fragments_for_external(i))
        for i, l in enumerate(lines):
            if l.record_type not in ("H", "#"):
                Q("ll%d" % i, lambda: gfa.line(l))
                Q("sd%d" % i, lambda: gfa._search_duplicate(l))
    elif group == "topology":
        Q("cc", lambda: sorted(sorted(s.name for s in c) for c in gfa.connected_components()))
        Q("cnt", lambda: [gfa.n_dovetails, gfa.n_containments, gfa.n_internals, gfa.n_dead_ends])
        for i, l in enumerate(lines):
            if l.record_type == "S":
                Q("scc%d" % i, lambda: sorted(s.name for s in gfa.segment_connected_component(l)))
                Q("cs%d" % i, lambda: gfa.is_cut_segment(l))
            if l.record_type in ("L", "E") and not l.virtual:
                if l.record_type == "L" or l.is_dovetail():
                    Q("cl%d" % i, lambda: gfa.is_cut_link(l))
    elif group == "linear_paths":
        Q("lps", lambda: gfa.linear_paths())
        Q("lpj", lambda: gfa.linear_paths(redundant_junctions=True))
        for i, l in enumerate(lines):
            if l.record_type == "S":
                Q("lp%d" % i, lambda: gfa.linear_path(l.name))
    elif group == "select":
        for i, l in enumerate(lines):
            if l.record_type in ("H",):
                continue
            Q("sel%d" % i, lambda: gfa.select(l))
            if l.get("name"):
                Q("seld%d" % i, lambda: gfa.select({"name": l.get("name")}))
            Q("selr%d" % i, lambda: gfa.select({"record_type": l.record_type}))
    else:
        raise ValueError("unknown query group " + group)
    return out
