"""Family "doc": property C01 (parse -> write round trip).

spec -> code : spec/MC_Doc.tla enumerates documents (catalogue of spec/Doc.tla, text
               generated inside TLA+) x tag variants x configurations; every case is run
               against the real gfapy.
code -> spec : what gfapy wrote is recorded syntactically (lines split on tabs by
               project.abstract_text, tags split at their colons) and judged by
               spec/TraceDoc.tla against Doc!Canon.  No verdict is computed here.
A seeded random driver adds larger documents with random tag values; their expected
normal form is computed by TLC from the abstracted input lines.
"""
import json, os, random, re, signal, sys, time, traceback
from multiprocessing import Pool as MPool

from . import tlc, project
from .tlc import MachineryError, NCPU
from .core import _load_gfapy, REPO

FAMILY = "doc"
ENTRIES = ["str", "strnl", "list", "fileLF", "fileCRLF", "fileNoEOL"]
TIERS = {
    # KL: all valid documents of <= KL catalogue lines; KS: closures of <= KS seed lines
    "quick": dict(KL=3, KS=2, TVALL="FALSE", FULLMOD=2, nrand=150),
    "thorough": dict(KL=4, KS=3, TVALL="TRUE", FULLMOD=1, nrand=6000),
}
MC_CFG = ("SPECIFICATION Spec\nCONSTRAINT Emit\nINVARIANT Valid\nCHECK_DEADLOCK FALSE\n"
          "CONSTANTS\n KL = %(KL)s\n KS = %(KS)s\n TVALL = %(TVALL)s\n FULLMOD = %(FULLMOD)s\n")
TRACE_CFG = "SPECIFICATION Spec\nCHECK_DEADLOCK FALSE\n"
INVALID_MARK = "# INVALID"


# --------------------------------------------------------------------------
# spec -> code: cases from TLC

def mc_cases(tier, name="doc-mc"):
    """Run MC_Doc. Returns (jobs, stats, meta)."""
    wd = tlc.workdir(name)
    p = TIERS[tier]
    rc, out = tlc.run_tlc("MC_Doc", MC_CFG % p, wd, workers=1, heap="4g", timeout=3000)
    tlc.check_ok(rc, out, "MC_Doc")
    texts = {}
    for raw in tlc.parse_tuples(out, "TEXT"):
        v = tlc.tla_value(raw)
        texts[(v[1], v[2], v[3], v[4])] = v[5]
    for raw in tlc.parse_tuples(out, "TEXTP"):     # pieces: strings and code-point sequences
        v = tlc.tla_value(raw)
        texts[(v[1], v[2], v[3], v[4])] = "".join(
            p if isinstance(p, str) else "".join(chr(c) for c in p) for p in v[5])
    cfgsets = {}
    for raw in tlc.parse_tuples(out, "CFGS"):
        v = tlc.tla_value(raw)
        cfgsets[(v[1], v[2])] = sorted(tuple(c) for c in v[3])
    meta = {}
    for raw in tlc.parse_tuples(out, "NVAR"):
        v = tlc.tla_value(raw)
        meta["nvar"] = v[1]
        meta["vartype"] = {e[0]: e[1] for e in v[2]}
    meta["rts"] = {}
    for raw in tlc.parse_tuples(out, "RTS"):
        v = tlc.tla_value(raw)
        meta["rts"][v[1]] = {e[0]: e[1] for e in v[2]}
    for raw in tlc.parse_tuples(out, "BADVALS"):
        meta["badvals"] = sorted(tlc.tla_value(raw)[1])
    for raw in tlc.parse_tuples(out, "BOUNDARY"):
        v = tlc.tla_value(raw)
        meta["boundary"] = set(range(v[1], v[2] + 1))
    if not meta.get("badvals") or not meta.get("boundary"):
        raise MachineryError("MC_Doc printed no boundary catalogue")
    if not texts or ("full", 0) not in cfgsets or "nvar" not in meta:
        raise MachineryError("MC_Doc printed no catalogue")
    seen = set()
    jobs = []
    for m in re.finditer(r'<<\s*"CASE",([^>]*)>>', out, re.S):
        nums = tuple(int(x) for x in re.findall(r"-?\d+", m.group(1)))
        if nums in seen:
            continue
        seen.add(nums)
        vn, tv, ordn, full, n = nums[:5]
        rest = nums[5:]
        if len(rest) != 3 * n:
            raise MachineryError("malformed CASE tuple %r" % (nums,))
        ver = "gfa1" if vn == 1 else "gfa2"
        trip = [rest[3 * i:3 * i + 3] for i in range(n)]
        lines = [texts[(vn, i, a, two)] for i, a, two in trip]
        cfgs = cfgsets[("full", 0)] if full else cfgsets[("red", tv)]
        jobs.append(dict(id="e%d" % len(jobs), kind="enum", ver=ver,
                         cat=dict(doc=[t[0] for t in trip], tv=tv, ord="asc" if ordn == 0 else "desc"),
                         lines=lines, cfgs=[list(c) for c in cfgs], trip=trip))
    st = tlc.stats(out)
    if st is None or st[1] != len(jobs):
        raise MachineryError("MC_Doc: %s distinct states but %d cases parsed" % (st, len(jobs)))
    if not _utf8_files():
        # files are read/written by gfapy in the locale's encoding: non-ASCII content would test the
        # locale, not gfapy
        jobs = [j for j in jobs if all(x.isascii() for x in j["lines"])]
        meta["dropped_non_ascii"] = True
    return jobs, st, meta


def _utf8_files():
    import locale
    return locale.getpreferredencoding(False).lower().replace("-", "") == "utf8"


# --------------------------------------------------------------------------
# driving gfapy (one run = one document through one configuration)

class Timeout(BaseException):
    pass


def _alarm(signum, frame):
    raise Timeout()


def _callsite(e):
    tb = traceback.extract_tb(e.__traceback__)
    base = os.path.abspath(REPO)
    for fr in reversed(tb):
        fn = os.path.abspath(fr.filename)
        if fn.startswith(base):
            return "%s:%s" % (os.path.relpath(fn, base), fr.name)
    return ""


def _guard(fn):
    """-> (result class, exception name, callsite, value)"""
    signal.setitimer(signal.ITIMER_VIRTUAL, 10.0)
    try:
        return "ok", "", "", fn()
    except Timeout:
        return "FOREIGN", "timeout", "", None
    except MachineryError:
        raise
    except BaseException as e:  # noqa
        return project.errclass(e), type(e).__name__, _callsite(e), None
    finally:
        signal.setitimer(signal.ITIMER_VIRTUAL, 0)


_IODIR = None


def _iodir():
    global _IODIR
    if _IODIR is None or not os.path.isdir(_IODIR):
        _IODIR = os.path.join(tlc.WORK, "doc-io", str(os.getpid()))
        os.makedirs(_IODIR, exist_ok=True)
    return _IODIR


def _split(s):
    return tuple(s.split("\n")) if s != "" else ()


def run_one(gfapy, lines, ver, cfg):
    """cfg = [vlevel, 'explicit'|'auto', entry]. Returns the raw outcome (a dict of
    strings / tuples of strings only)."""
    vlevel, vmode, entry = cfg
    kw = dict(vlevel=vlevel)
    if vmode == "explicit":
        kw["version"] = ver
    text = "\n".join(lines)
    d = _iodir()
    if entry == "str":
        mk = lambda: gfapy.Gfa(text, **kw)
    elif entry == "strnl":
        mk = lambda: gfapy.Gfa(text + "\n", **kw)
    elif entry == "list":
        mk = lambda: gfapy.Gfa(list(lines), **kw)
    else:
        path = os.path.join(d, "in.gfa")
        if entry == "fileLF":
            data = text + "\n"
        elif entry == "fileCRLF":
            data = "\r\n".join(lines) + "\r\n"
        elif entry == "fileNoEOL":
            data = text
        else:
            raise MachineryError("unknown entry point " + entry)
        with open(path, "wb") as f:
            f.write(data.encode())
        mk = lambda: gfapy.Gfa.from_file(path, **kw)
    o = dict(res="ok", exc="", site="", s=(), tfres="ok", tf=(), tfterm=1, lres="ok", ls=(), lv=(),
             r2res="ok", r2=(), r2exc="", r2site="")
    hold = {}

    def parse_and_write():
        hold["g"] = mk()
        return str(hold["g"])
    res, exc, site, s = _guard(parse_and_write)
    o["res"], o["exc"], o["site"] = res, exc, site
    if res != "ok":
        return o
    gfa = hold["g"]
    o["s"] = _split(s)
    # to_file
    outp = os.path.join(d, "out.gfa")

    def tofile():
        if os.path.exists(outp):
            os.unlink(outp)
        gfa.to_file(outp)
        with open(outp, "rb") as f:
            return f.read().decode("utf-8", "replace")
    res, exc, site, content = _guard(tofile)
    o["tfres"] = res
    if res == "ok":
        if content == "":
            o["tf"], o["tfterm"] = (), 1
        elif content.endswith("\n"):
            o["tf"], o["tfterm"] = tuple(content[:-1].split("\n")), 1
        else:
            o["tf"], o["tfterm"] = tuple(content.split("\n")), 0
    else:
        o["exc"], o["site"] = exc, site
    # line objects

    def listing():
        ls = list(gfa.lines)
        return tuple(str(l) for l in ls), tuple(1 if l.virtual else 0 for l in ls)
    res, exc, site, v = _guard(listing)
    o["lres"] = res
    if res == "ok":
        o["ls"], o["lv"] = v
    else:
        o["exc"], o["site"] = exc, site
    # second round
    res, exc, site, s2 = _guard(lambda: str(gfapy.Gfa(s, **kw)))
    o["r2res"], o["r2exc"], o["r2site"] = res, exc, site
    if res == "ok":
        o["r2"] = _split(s2)
    return o


OUT_KEY = ("res", "s", "tfres", "tf", "tfterm", "lres", "ls", "lv", "r2res", "r2")


def run_group(job):
    gfapy = _load_gfapy()
    signal.signal(signal.SIGVTALRM, _alarm)
    outs, index, runs = [], {}, []
    for ci, cfg in enumerate(job["cfgs"]):
        o = run_one(gfapy, job["lines"], job["ver"], cfg)
        k = tuple(o[x] for x in OUT_KEY)
        if k not in index:
            index[k] = len(outs)
            outs.append(o)
        runs.append(index[k])
    return dict(id=job["id"], kind=job["kind"], ver=job["ver"], cat=job["cat"], lines=job["lines"],
                cfgs=job["cfgs"], outs=outs, runs=runs)


def run_all(jobs, procs=NCPU):
    if not jobs:
        return []
    if procs <= 1 or len(jobs) < 8:
        return [run_group(j) for j in jobs]
    with MPool(processes=procs) as mp:
        return mp.map(run_group, jobs, chunksize=max(1, min(200, len(jobs) // (procs * 8) + 1)))


# --------------------------------------------------------------------------
# syntactic abstraction for TLC

def tag_struct(t):
    """'nn:T:value' -> structured tag (split at the colons / commas only)."""
    n, ty, val = t[:2], t[3:4], t[5:]
    if ty == "B":
        parts = val.split(",")
        return dict(n=n, t=ty, v=ty + ":" + val, sub=parts[0], el=parts[1:])
    return dict(n=n, t=ty, v=ty + ":" + val, sub="", el=[])


CP_MARK = "<cp>"


def _plain(x):
    return all(c == "\t" or " " <= c <= "~" for c in x)


# shape of a tag: name (letter + letter/digit), a letter, a non-empty printable value.  Which
# letters are datatypes and which values a datatype admits is decided by Doc!Taggable.
SHAPE_RE = re.compile(r"^[A-Za-z][A-Za-z0-9]:[A-Za-z]:[ -~]+$")
NO_SHAPE = dict(n="", t="", v="", sub="", el=[])
KNOWN_RT = set("HSLCPEGFOU")


def is_custom(text):
    rt = text.split("\t", 1)[0]
    return not text.startswith("#") and rt not in KNOWN_RT and rt != "?record_type?"


def abstract(text, ver):
    r = project.abstract_text(text, version=ver)
    sh = []
    if is_custom(text):
        # a user-defined record: the number of positional fields is not given by the record type.
        # All fields are delivered with their shapes; Doc!Resolve draws the boundary.
        fields = text.split("\t")[1:]
        r["f"], r["tags"] = fields, []
        sh = [tag_struct(x) if SHAPE_RE.match(x) else dict(NO_SHAPE) for x in fields]
    # content outside printable ASCII / tab travels as code points (TLC strings cannot be inspected
    # and control characters cannot be written in a TLA+ module)
    fc = [[] if _plain(x) else [ord(c) for c in x] for x in r["f"]]
    r["f"] = [x if not c else CP_MARK for x, c in zip(r["f"], fc)]
    tags = [t for t in r["tags"]]
    tg = [tag_struct(t) if project.TAG_RE.match(t) else dict(n="??", t="?", v=t, sub="", el=[])
          for t in tags]
    return dict(rt=r["rt"], name=r["name"], refs=r["refs"], f=r["f"], fc=fc, num=r["num"], ovs=r["ovs"], tg=tg,
                sh=sh)


class Shard:
    def __init__(self):
        self.pool = project.Pool()
        self.tidx = {}
        self.texts = []
        self.groups = []
        self._abs = {}

    def rec(self, text, ver):
        k = (text, ver)
        if k not in self._abs:
            self._abs[k] = self.pool.add(abstract(text, ver))
        return self._abs[k]

    def tid(self, text, ver):
        k = (text, ver)
        i = self.tidx.get(k)
        if i is None:
            fields = text.split("\t")
            self.texts.append(dict(p=self.rec(text, ver), inv=1 if INVALID_MARK in text else 0,
                                   virt=1 if project.VIRT_TAG in fields else 0))
            i = len(self.texts)
            self.tidx[k] = i
        return i

    def add(self, g):
        ver = g["ver"]
        outs = []
        for o in g["outs"]:
            outs.append(dict(res=o["res"], s=[self.tid(x, ver) for x in o["s"]],
                             tfres=o["tfres"], tf=[self.tid(x, ver) for x in o["tf"]], tfterm=o["tfterm"],
                             lres=o["lres"], ls=[self.tid(x, ver) for x in o["ls"]], lv=list(o["lv"]),
                             r2res=o["r2res"], r2=[self.tid(x, ver) for x in o["r2"]]))
        self.groups.append(dict(id=g["id"], kind=g["kind"], ver=ver,
                                cat=dict(doc=list(g["cat"]["doc"]), tv=g["cat"]["tv"], ord=g["cat"]["ord"]),
                                inp=[self.rec(x, ver) for x in g["lines"]], outs=outs))

    def dump(self, path):
        with open(path, "w") as f:
            json.dump(dict(pool=self.pool.items, texts=self.texts, groups=self.groups), f)


def validate(groups, name, nshards=None):
    """-> list of (group id, outcome index (0 = whole group), [clauses])."""
    if not groups:
        return []
    nshards = max(1, min(nshards or NCPU, len(groups) // 50 + 1))
    wd = tlc.workdir(name + "-shards")
    files = []
    sizes = []
    for s in range(nshards):
        part = groups[s::nshards]
        if not part:
            continue
        sh = Shard()
        for g in part:
            sh.add(g)
        f = os.path.join(wd, "shard%d.json" % s)
        sh.dump(f)
        files.append(f)
        sizes.append(len(part))
    res = tlc.run_sharded("TraceDoc", TRACE_CFG, files, name + "-tlc")
    rejects = []
    for (rc, out), n in zip(res, sizes):
        st = tlc.stats(out)
        if rc != 0 or st is None or "No error has been found" not in out:
            raise MachineryError("TraceDoc failed:\n" + "\n".join(out.splitlines()[-30:]))
        if st[1] != n:
            raise MachineryError("TraceDoc judged %d groups, expected %d" % (st[1], n))
        mach = tlc.parse_tuples(out, "MACHINERY")
        if mach:
            raise MachineryError("TraceDoc: %s" % "; ".join(mach[:5]))
        for raw in tlc.parse_tuples(out, "REJECT"):
            v = tlc.tla_value(raw)
            rejects.append((v[1], v[2], sorted(v[3])))
    return rejects


# --------------------------------------------------------------------------
# seeded random documents

# content characters that some text tools take for line boundaries (see Doc!SplitChars)
SPLIT_ASCII = ["\x0b", "\x0c", "\x1c", "\x1d", "\x1e"]
SPLIT_WIDE = ["\x85", "\u2028", "\u2029"]
A_CHARS = [chr(c) for c in range(33, 127)]
Z_CHARS = [chr(c) for c in range(32, 127)]
B_RANGE = {"c": (-128, 127), "C": (0, 255), "s": (-2 ** 15, 2 ** 15 - 1), "S": (0, 2 ** 16 - 1),
           "i": (-2 ** 31, 2 ** 31 - 1), "I": (0, 2 ** 32 - 1)}


def _rint(rnd):
    k = rnd.random()
    if k < 0.3:
        return rnd.randint(-20, 20)
    if k < 0.6:
        return rnd.choice([1, -1]) * rnd.randint(0, 2 ** rnd.randint(1, 63))
    return rnd.choice([0, 2 ** 31 - 1, -2 ** 31, 2 ** 31, 2 ** 32, 2 ** 63 - 1, -2 ** 63, 2 ** 63, 255, 256, -129])


def _rfloat(rnd):
    k = rnd.random()
    if k < 0.4:
        x = rnd.uniform(-1000, 1000)
    elif k < 0.7:
        x = rnd.uniform(-1, 1) * 10.0 ** rnd.randint(-30, 30)
    elif k < 0.85:
        x = float(rnd.randint(-1000, 1000))
    else:
        x = rnd.choice([0.0, 0.1, 1e16, 1e-7, 123456.789012345, 0.30000000000000004, 5e-324, 1.7976931348623157e308])
    return x


J_WIDE = ["\u00e9", "\u00b5", "\u00df", "\u65e5", "\u03b1", "\U0001F600", "\n", "\t", "\r", "\x08", "\x0c", "\x1f", "\x7f",
          "\"", "\\", "/", "\u2028", "\ufeff"] * 6


def _rjson(rnd, depth=0):
    k = rnd.random()
    if depth >= 3 or k < 0.45:
        c = rnd.randint(0, 5)
        if c == 0:
            return _rint(rnd)
        if c == 1:
            return _rfloat(rnd)
        if c == 2:
            # characters outside printable ASCII reach the text only as JSON escapes (json.dumps)
            alpha = Z_CHARS + (J_WIDE if rnd.random() < 0.4 else [])
            return "".join(rnd.choice(alpha) for _ in range(rnd.randint(0, 6)))
        return [None, True, False][c - 3]
    if k < 0.75:
        return [_rjson(rnd, depth + 1) for _ in range(rnd.randint(0, 3))]
    return {"".join(rnd.choice(["a", "b", "c", "x", "y", "z", " ", "_", "\u00e9", "\n", "\""]) for _ in range(rnd.randint(1, 3)))
            + str(i): _rjson(rnd, depth + 1)
            for i in range(rnd.randint(0, 3))}


def random_tag(rnd, name):
    ty = rnd.choice("AifZJHB")
    if ty == "A":
        v = rnd.choice(A_CHARS)
    elif ty == "i":
        v = str(_rint(rnd))
    elif ty == "f":
        v = repr(_rfloat(rnd))
    elif ty == "Z":
        v = "".join(rnd.choice(Z_CHARS) for _ in range(rnd.randint(1, 12)))
    elif ty == "J":
        v = json.dumps(_rjson(rnd))
        if v[0] not in "[{":
            v = "[" + v + "]"
    elif ty == "H":
        v = "".join(rnd.choice("0123456789ABCDEF") for _ in range(2 * rnd.randint(1, 6)))
    else:
        sub = rnd.choice("cCsSiIf")
        n = rnd.randint(1, 5)
        if sub == "f":
            v = "f," + ",".join(repr(_rfloat(rnd)) for _ in range(n))
        else:
            lo, hi = B_RANGE[sub]
            v = sub + "," + ",".join(str(rnd.choice([lo, hi, rnd.randint(lo, hi), rnd.randint(max(lo, -5), min(hi, 5))]))
                                     for _ in range(n))
    return "%s:%s:%s" % (name, ty, v)


def random_tags(rnd, maxn=3):
    n = rnd.choice([0, 1, 1, 2, 3][:maxn + 2])
    names = rnd.sample(TAG_NAMES, n)
    return [random_tag(rnd, nm) for nm in names]


def _cigar(rnd):
    if rnd.random() < 0.3:
        return "*"
    return "".join("%d%s" % (rnd.randint(1, 30), rnd.choice("MID")) for _ in range(rnd.randint(1, 3)))


def _inv(o):
    return "-" if o == "+" else "+"


TAG_NAMES = ["aa", "ab", "zz", "x1", "q9", "tg", "uu", "k2", "mm"]


# longer record types beginning like each standard one (and like a comment's neighbour "X#")
LONG_RTS = ["HX", "H1", "SQ", "Sx", "LNK", "L1", "CTG", "PTH", "EX", "E2", "FRG", "GP", "OX", "UX", "X#", "h", "e"]


def random_custom(rnd, bad):
    """A custom record around the boundary between positional fields and tags: [plain fields] + k
    tag-shaped fields that are positional (value impossible for the datatype: `bad`, the table
    Doc!BadVals; unknown datatype letter; name repeated further right; good tag left of a field
    that is none) + m real tags.  Which is which is decided by Doc!Resolve, not here."""
    names = rnd.sample(TAG_NAMES, len(TAG_NAMES))
    real = [random_tag(rnd, names.pop()) for _ in range(rnd.choice([0, 1, 1, 2, 3]))]
    left = []
    for _ in range(rnd.choice([1, 1, 2, 3])):
        k = rnd.random()
        if k < 0.35:
            left.append(names[0] + ":" + rnd.choice(bad))
        elif k < 0.45:
            left.append("%s:%s:%s" % (names[0], rnd.choice("QzaCIbh"), rnd.choice(["1", "x", "1,2"])))
        elif k < 0.8 and (real or left):
            # the name of a field further right
            other = rnd.choice(real + [x for x in left if SHAPE_RE.match(x)] or real + left)
            left.insert(0, random_tag(rnd, other[:2]))
            continue
        elif k < 0.9:
            left.append(rnd.choice(["plain", "a:b:c", "12", "x:i:1", "1x:i:1", "abc:i:1", "xx:i", "xx:Z"]))
        else:
            # twice the same name: only the right one can be a tag
            left += [random_tag(rnd, names[0]), random_tag(rnd, names[0])]
        if rnd.random() < 0.4:
            left.insert(0, random_tag(rnd, names[1]))     # a good tag, left of a field that is none
    plain = ["p%d" % rnd.randint(0, 9) for _ in range(rnd.choice([0, 0, 1, 2]))]
    # the record type of a custom record is any text that is not a standard one
    rt = rnd.choice(["X", "Y", "Z", "X", "Y", "Z", "XY", "s", "x1", "custom", "1"] + LONG_RTS)
    return "\t".join([rt] + plain + left + real)


def random_doc(rnd, ver, bad=()):
    """A valid document as a list of lines (validity is re-checked by TLC: Doc!IsValidDoc)."""
    L = []
    add = lambda fields, tags=True: L.append("\t".join(fields + (random_tags(rnd) if tags else [])))
    nseg = rnd.randint(2, 5)
    pool = ["s%d" % i for i in range(9)] + ["A", "B", "x.y", "12", "seg_1", "n|m"]
    segs = rnd.sample(pool, nseg)
    hdr = []
    if rnd.random() < 0.4:
        hdr.append("VN:Z:" + ("1.0" if ver == "gfa1" else "2.0"))
    if rnd.random() < 0.3:
        hdr.append("TS:i:%d" % rnd.randint(1, 1000))
    for nm in rnd.sample(["ha", "hb", "hc"], rnd.randint(0, 3)):
        hdr.append(random_tag(rnd, nm))
    rnd.shuffle(hdr)
    while hdr:
        k = rnd.randint(1, min(3, len(hdr)))
        L.append("\t".join(["H"] + hdr[:k]))
        hdr = hdr[k:]
    for _ in range(rnd.randint(0, 2)):
        alpha = Z_CHARS + ["\t"] + (SPLIT_ASCII + (SPLIT_WIDE if _utf8_files() else [])) * (4 if rnd.random() < 0.3 else 0)
        L.append("#" + "".join(rnd.choice(alpha) for _ in range(rnd.randint(0, 15))))
    if ver == "gfa1":
        for s in segs:
            seq = rnd.choice(["*", "".join(rnd.choice("ACGTacgtN") for _ in range(rnd.randint(1, 12)))])
            add(["S", s, seq])
        used, links = set(), []
        for _ in range(rnd.randint(0, 6)):
            a, b = rnd.choice(segs), rnd.choice(segs)
            ao, bo = rnd.choice("+-"), rnd.choice("+-")
            key = (a, ao, b, bo)
            ckey = (b, _inv(bo), a, _inv(ao))
            if key in used or ckey in used:
                continue
            used.add(key)
            cg = _cigar(rnd)
            f = ["L", a, ao, b, bo, cg]
            t = random_tags(rnd, 2)
            if rnd.random() < 0.3:
                t.append("ID:Z:lk%d" % len(links))
            L.append("\t".join(f + t))
            links.append((a, ao, b, bo, cg))
        for i in range(rnd.randint(0, 2)):
            a, b = rnd.sample(segs, 2)
            f = ["C", a, rnd.choice("+-"), b, rnd.choice("+-"), str(rnd.randint(0, 50)), _cigar(rnd)]
            t = random_tags(rnd, 2)
            if rnd.random() < 0.3:
                t.append("ID:Z:ct%d" % i)
            L.append("\t".join(f + t))
        for i in range(rnd.randint(0, 3)):
            if not links:
                add(["P", "pt%d" % i, rnd.choice(segs) + rnd.choice("+-"), "*"])
                continue
            chain = [rnd.choice(links)]
            while len(chain) < 3 and rnd.random() < 0.6:
                nxt = [l for l in links if (l[0], l[1]) == (chain[-1][2], chain[-1][3])]
                if not nxt:
                    break
                chain.append(rnd.choice(nxt))
            steps = [(c[0], c[1]) for c in chain] + [(chain[-1][2], chain[-1][3])]
            ovs = [c[4] for c in chain]
            if rnd.random() < 0.3:      # walk the chain backwards: uses the complement links
                steps = [(s, _inv(o)) for s, o in reversed(steps)]
                ovs = ["*"] * len(ovs)
            if rnd.random() < 0.4 or "*" in ovs:
                ov = "*" if rnd.random() < 0.5 else ",".join("*" * len(ovs))
                if len(ovs) == 1:
                    ov = "*"
            else:
                ov = ",".join(ovs)
            add(["P", "pt%d" % i, ",".join(s + o for s, o in steps), ov])
    else:
        slen = {}
        for s in segs:
            n = rnd.randint(2, 40)
            slen[s] = n
            seq = rnd.choice(["*", "".join(rnd.choice("ACGT") for _ in range(n))])
            add(["S", s, str(n), seq])

        def iv(s):
            n = slen[s]
            b = rnd.randint(0, n)
            e = rnd.randint(b, n)
            return ("%d$" % b if b == n else str(b)), ("%d$" % e if e == n else str(e))
        edges, enames = [], []
        for i in range(rnd.randint(0, 4)):
            a, b = rnd.choice(segs), rnd.choice(segs)
            ao, bo = rnd.choice("+-"), rnd.choice("+-")
            nm = rnd.choice(["*", "ed%d" % i])
            b1, e1 = iv(a)
            b2, e2 = iv(b)
            aln = rnd.choice(["*", _cigar(rnd), ",".join(str(rnd.randint(0, 9)) for _ in range(rnd.randint(1, 3)))])
            add(["E", nm, a + ao, b + bo, b1, e1, b2, e2, aln])
            edges.append((a, ao, b, bo))
            if nm != "*":
                enames.append(nm)
        gnames = []
        for i in range(rnd.randint(0, 2)):
            a, b = rnd.choice(segs), rnd.choice(segs)
            nm = rnd.choice(["*", "gp%d" % i])
            add(["G", nm, a + rnd.choice("+-"), b + rnd.choice("+-"), str(rnd.randint(0, 10 ** 6)),
                 rnd.choice(["*", str(rnd.randint(0, 1000))])])
            if nm != "*":
                gnames.append(nm)
        for i in range(rnd.randint(0, 2)):
            s = rnd.choice(segs)
            b1, e1 = iv(s)
            x = rnd.randint(0, 50)
            add(["F", s, "ext%d" % i + rnd.choice("+-"), b1, e1, str(x), str(x + rnd.randint(0, 20)),
                 rnd.choice(["*", _cigar(rnd)])])
        onames = []
        for i in range(rnd.randint(0, 2)):
            if edges and rnd.random() < 0.7:
                a, ao, b, bo = rnd.choice(edges)
                items = [a + ao, b + bo] if rnd.random() < 0.5 else [b + _inv(bo), a + _inv(ao)]
            else:
                items = [rnd.choice(segs) + rnd.choice("+-")]
            if onames and rnd.random() < 0.3:
                items = [onames[0] + rnd.choice("+-")]
            nm = "og%d" % i
            add(["O", nm, " ".join(items)])
            onames.append(nm)
        unames = []
        for i in range(rnd.randint(0, 2)):
            cand = segs + enames + gnames + onames + unames
            items = rnd.sample(cand, rnd.randint(1, min(4, len(cand))))
            nm = rnd.choice(["*", "ug%d" % i])
            if nm != "*" and len(items) >= 2 and rnd.random() < 0.4:
                # one group given in two lines (tags with different names on each)
                k = rnd.randint(1, len(items) - 1)
                L.append("\t".join(["U", nm, " ".join(items[:k])] +
                                   [random_tag(rnd, n) for n in rnd.sample(["ga", "gb"], rnd.randint(0, 2))]))
                L.append("\t".join(["U", nm, " ".join(items[k:])] +
                                   [random_tag(rnd, n) for n in rnd.sample(["gc", "gd"], rnd.randint(0, 2))]))
            else:
                add(["U", nm, " ".join(items)])
            if nm != "*":
                unames.append(nm)
        for i in range(rnd.randint(0, 2)):
            add([rnd.choice(["X", "Y", "Z"] + LONG_RTS), "f%d" % i] +
                ["v%d" % rnd.randint(0, 99) + (rnd.choice(SPLIT_ASCII) + "w" if rnd.random() < 0.15 else "")
                 for _ in range(rnd.randint(0, 2))])
        for i in range(rnd.randint(0, 2)):
            L.append(random_custom(rnd, bad))
    rnd.shuffle(L)
    return L


def random_jobs(n, seed, bad):
    rnd = random.Random(seed)
    jobs = []
    for i in range(n):
        ver = rnd.choice(["gfa1", "gfa2"])
        lines = random_doc(rnd, ver, bad)
        cfgs = []
        for v in range(4):
            for _ in range(2):
                cfgs.append([v, rnd.choice(["explicit", "auto"]), rnd.choice(ENTRIES)])
        jobs.append(dict(id="r%d" % i, kind="rand", ver=ver, cat=dict(doc=[], tv=0, ord=""),
                         lines=lines, cfgs=cfgs))
    return jobs


# --------------------------------------------------------------------------
# the check

REF_RTS = set("LCPEGFOU")


def _nontrivial(lines):
    for x in lines:
        f = x.split("\t")
        if f[0] in REF_RTS or any(project.TAG_RE.match(y) for y in f[1:]):
            return True
    return False


def _classes(groups, rejects):
    """Group rejections into classes (same clauses, same exception and call site, same set of
    failing validation levels / entry points); keep the smallest documents as examples."""
    by_id = {g["id"]: g for g in groups}
    classes = {}
    mixed_ids = {r[0] for r in rejects if r[1] == 0}
    for gid, k, clauses in rejects:
        g = by_id[gid]
        if k == 0:
            continue           # C01.entrypoint: attached to the outcome-level rejections below
        o = g["outs"][k - 1]
        cfgs = [g["cfgs"][i] for i, oi in enumerate(g["runs"]) if oi == k - 1]
        mixed = gid in mixed_ids
        cl = list(clauses) + (["C01.entrypoint"] if mixed else [])
        anyexc = o["exc"] or o["r2exc"]
        key = (tuple(cl), o["res"], o["exc"], o["site"], o["r2res"], o["r2exc"], o["r2site"],
               () if anyexc else tuple(sorted({c[0] for c in cfgs})),
               tuple(sorted({c[2] for c in cfgs})) if mixed and len({c[2] for c in cfgs}) == 1 else ())
        c = classes.setdefault(key, dict(n=0, runs=0, ex=[]))
        c["n"] += 1
        c["runs"] += len(cfgs)
        c["ex"].append((len(g["lines"]), sum(len(x) for x in g["lines"]), gid, k))
    return classes, by_id


def _violation(g, k, clauses, nclass, nruns):
    o = g["outs"][k - 1]
    cfgs = [g["cfgs"][i] for i, oi in enumerate(g["runs"]) if oi == k - 1]
    okcfgs = [g["cfgs"][i] for i, oi in enumerate(g["runs"]) if oi != k - 1]
    cfg = cfgs[0]
    exc = o["exc"] or o["r2exc"]
    site = o["site"] or o["r2site"]
    what = "clauses %s; document %r through %s at vlevel %d (%s version)" % (
        ",".join(clauses), "\n".join(g["lines"]), cfg[2], cfg[0], cfg[1])
    if exc:
        what += "; raised %s at %s" % (exc, site)
    return dict(family=FAMILY, clauses=list(clauses), input="\n".join(g["lines"]), api=cfg[2],
                vlevel=cfg[0], version_mode=cfg[1], ver=g["ver"], kind=g["kind"], cat=g["cat"],
                lines=g["lines"], cfg=cfg, failing_cfgs=cfgs, passing_cfgs=okcfgs[:8],
                callsite=site, exception=exc,
                observed=dict(res=o["res"], str="\n".join(o["s"]), round2_res=o["r2res"],
                              round2="\n".join(o["r2"]), to_file_res=o["tfres"],
                              to_file_lines=list(o["tf"]), to_file_terminated=o["tfterm"],
                              lines=list(o["ls"])),
                same_class_groups=nclass, same_class_runs=nruns, what=what)


CHUNK = 25000


def check_c01(out, tier, seed):
    import shutil
    t0 = time.time()
    jobs, st, meta = mc_cases(tier)
    t1 = time.time()
    rjobs = random_jobs(TIERS[tier]["nrand"], seed, meta["badvals"])
    alljobs = jobs + rjobs
    trun = tval = 0.0
    # coverage counters (measured from the cases that were run)
    nruns = nouts = ngroups = 0
    distinct = set()
    rts, dts, entries, vlevels, vmodes = {}, {}, {}, {}, {}
    docs = set()
    maxenum = maxrand = 0
    nspecial = nspecial_runs = 0
    nbound = nbound_runs = nshaped = nshaped_runs = nlongrt = 0
    jesc = {}
    rejects, kept = [], {}
    samples = []
    for c0 in range(0, len(alljobs), CHUNK):
        ta = time.time()
        groups = run_all(alljobs[c0:c0 + CHUNK])
        tb = time.time()
        rej = validate(groups, "doc-val")
        tc = time.time()
        trun += tb - ta
        tval += tc - tb
        rejects += rej
        bad = {r[0] for r in rej}
        for g in groups:
            if g["id"] in bad:
                kept[g["id"]] = g
            ngroups += 1
            nruns += len(g["runs"])
            nouts += len(g["outs"])
            text = "\n".join(g["lines"])
            nt = _nontrivial(g["lines"])
            for c in g["cfgs"]:
                if nt:
                    distinct.add(hash((text, tuple(c))))
                entries[c[2]] = entries.get(c[2], 0) + 1
                vlevels[str(c[0])] = vlevels.get(str(c[0]), 0) + 1
                vmodes[c[1]] = vmodes.get(c[1], 0) + 1
            for x in g["lines"]:
                f = x.split("\t")
                rt = "#" if x.startswith("#") else (f[0] if f[0] in KNOWN_RT else "custom")
                rts[g["ver"] + ":" + rt] = rts.get(g["ver"] + ":" + rt, 0) + 1
                for y in f[1:]:
                    if project.TAG_RE.match(y):
                        dts[y[3]] = dts.get(y[3], 0) + 1
                        if y[3] == "J" and "\\u" in y:
                            jesc[g["ver"] + ":" + rt] = jesc.get(g["ver"] + ":" + rt, 0) + len(g["runs"])
                if rt == "custom" and len(f[0]) > 1:
                    nlongrt += len(g["runs"])
            if not all(_plain(x) for x in g["lines"]):
                nspecial += 1
                nspecial_runs += len(g["runs"])
            if any(is_custom(x) and any(SHAPE_RE.match(y) for y in x.split("\t")[1:]) for x in g["lines"]):
                nshaped += 1
                nshaped_runs += len(g["runs"])
            if g["kind"] == "enum" and g["ver"] == "gfa2" and set(g["cat"]["doc"]) & meta["boundary"]:
                nbound += 1
                nbound_runs += len(g["runs"])
            if g["kind"] == "enum":
                docs.add((g["ver"], tuple(sorted(g["cat"]["doc"]))))
                maxenum = max(maxenum, len(g["lines"]))
            else:
                maxrand = max(maxrand, len(g["lines"]))
        for g in (groups[:2] + groups[-2:]):
            if len(samples) < 6:
                samples.append(dict(id=g["id"], kind=g["kind"], ver=g["ver"], lines=g["lines"],
                                    configurations=len(g["cfgs"]), distinct_outcomes=len(g["outs"]),
                                    written=list(g["outs"][0]["s"])))
        del groups
    shutil.rmtree(os.path.join(tlc.WORK, "doc-io"), ignore_errors=True)
    need_rt = {"gfa1:" + r for r in "H#SLCP"} | {"gfa2:" + r for r in "H#SEFGOU"} | {"gfa2:custom"}
    if not need_rt <= set(rts) or not set("AifZJHB") <= set(dts) or set(entries) != set(ENTRIES) \
            or set(vlevels) != set("0123") or set(vmodes) != {"explicit", "auto"}:
        raise MachineryError("coverage constraint not met: %r %r %r" % (sorted(rts), sorted(dts), sorted(entries)))
    if not (need_rt - {"gfa1:#", "gfa2:#"}) <= set(jesc) or not nlongrt:
        raise MachineryError("J tags with \\u escapes not on every record type: %r; long record types: %d"
                             % (sorted(jesc), nlongrt))
    if nbound < len(meta["boundary"]) or nshaped < 1:
        raise MachineryError("boundary catalogue of custom records not run: %d groups, %d with tag-shaped fields"
                             % (nbound, nshaped))
    out.add_cov(evaluations=nruns, distinct_nontrivial=len(distinct),
                rule="one evaluation = one document parsed through one configuration (vlevel, explicit/auto "
                     "version, entry point) and written back three ways + second round; non-trivial = distinct "
                     "(document text, configuration) whose document has a tagged line or a line that references "
                     "another (L C P E G F O U)",
                documents=len(docs), groups_enumerated=len(jobs), groups_random=len(rjobs),
                mc_states_generated=st[0], mc_states_distinct=st[1], groups_judged_by_tlc=ngroups,
                distinct_outcomes_judged=nouts, max_lines_enumerated=maxenum, max_lines_random=maxrand,
                groups_with_special_characters=nspecial, evaluations_with_special_characters=nspecial_runs,
                groups_of_custom_boundary_catalogue=nbound, evaluations_of_custom_boundary_catalogue=nbound_runs,
                groups_with_tag_shaped_custom_fields=nshaped, evaluations_with_tag_shaped_custom_fields=nshaped_runs,
                exhaustive=False)
    out.cov["bounds"] = dict(TIERS[tier], catalogue_lines={"gfa1": len(meta["rts"][1]), "gfa2": len(meta["rts"][2])},
                             tag_variants=meta["nvar"])
    out.cov["record_types_covered"] = rts
    out.cov["tag_datatypes_covered"] = dts
    out.cov["evaluations_with_escaped_json_by_record_type"] = jesc
    out.cov["evaluations_with_long_record_type"] = nlongrt
    out.cov["entry_points_covered"] = entries
    out.cov["vlevels_covered"] = vlevels
    out.cov["version_modes_covered"] = vmodes
    out.cov["wall_breakdown_s"] = dict(tlc_enumeration=round(t1 - t0, 1), gfapy_runs=round(trun, 1),
                                       tlc_validation=round(tval, 1))
    out.samples += samples
    # ---- violations, one per class of rejections (smallest documents first)
    classes, by_id = _classes(list(kept.values()), rejects)
    summary = []
    for key, c in sorted(classes.items(), key=lambda kv: (-kv[1]["n"], kv[0])):
        c["ex"].sort()
        summary.append(dict(clauses=list(key[0]), exception=key[2] or key[5], callsite=key[3] or key[6],
                            groups=c["n"], runs=c["runs"], example="\n".join(by_id[c["ex"][0][2]]["lines"])))
        for _, _, gid, k in c["ex"][:2]:
            out.violations.append(_violation(by_id[gid], k, list(key[0]), c["n"], c["runs"]))
    out.cov["rejection_classes"] = summary
    out.cov["rejected_outcomes"] = sum(1 for r in rejects if r[1] != 0)
    out.assumptions += [
        "TLC and the TLA+ semantics of spec/Doc.tla (catalogue, IsValidDoc, Canon, spelling table) and TraceDoc.tla",
        "harness/project.py abstract_text + splitting a tag at its colons/commas are purely syntactic",
        "a text ending in a newline is a valid way to give a document as a string (it is what to_file writes)",
        "same-identifier U lines are one record (items concatenated, tags united); both the merged and the "
        "unmerged form are accepted",
        "the integer subtype letter of a B array is a spelling (documented as recomputed from the range)",
        "VT FF FS GS RS NEL LS PS are content of a comment ('any text up to the end of the line'); the ASCII ones "
        "also of a custom-record field (no grammar in the GFA2 specification, gfapy's generic datatype excludes "
        "only tab and newline); CR/LF are terminators and never content; non-ASCII content is used only when the "
        "locale's file encoding is UTF-8",
        "custom records: reading from the right, a field is a tag while it has the shape of a tag, a datatype "
        "letter, a value the datatype admits (table Doc!BadVals for the impossible ones in use) and a name no tag "
        "further right has; everything else is positional and written back unchanged -- at every validation level",
        "documents outside the catalogue are covered only by the seeded random driver (<= ~25 lines); "
        "floats outside the spelling table are held to the fixed point only",
    ]


PROPS = {"C01": (check_c01, "exploration")}


# --------------------------------------------------------------------------
# replay of one recorded violation

def replay(prop, v, path):
    job = dict(id="replay", kind="rand", ver=v["ver"], cat=dict(doc=[], tv=0, ord=""),
               lines=v["lines"], cfgs=[v["cfg"]])
    g = run_group(job)
    o = g["outs"][0]
    print("document (%s, %s version, vlevel %d, entry %s):" % (v["ver"], v["cfg"][1], v["cfg"][0], v["cfg"][2]))
    for x in v["lines"]:
        print("   ", repr(x))
    print("result:", o["res"], o["exc"], o["site"])
    print("written:", repr("\n".join(o["s"])))
    print("round 2:", o["r2res"], o["r2exc"], repr("\n".join(o["r2"])))
    rej = validate([g], "doc-replay", nshards=1)
    for gid, k, clauses in rej:
        print("REJECT outcome=%d clauses=%s" % (k, ",".join(clauses)))
    if rej:
        print("VIOLATION property=%s replay=%s" % (prop, path))
        return 1
    print("replay passes")
    return 0


# --------------------------------------------------------------------------
# binding: corrupted recordings must be rejected

def selftest():
    """Records a few documents on which gfapy conforms, corrupts the recording in one place and
    requires TraceDoc to reject it with the expected clause (and to accept the uncorrupted one)."""
    docs = [
        ("gfa1", ["H\tVN:Z:1.0\tia:i:+5", "S\tA\tACGT\tfa:f:1.5\tza:Z:with space", "S\tB\t*\tLN:i:6",
                  "L\tA\t+\tB\t+\t2M1D1M\tbb:B:i,1,2", "L\tB\t-\tA\t-\t1M1I2M", "P\tp1\tA+,B+\t2M1D1M\tjb:J:{\"a\":1}",
                  "# comment"]),
        ("gfa2", ["S\ta\t4\tACGT", "S\tb\t6\t*\tha:H:1AE3", "E\te1\ta+\tb+\t2\t4$\t0\t2\t2M\taa:A:x",
                  "O\to1\ta+ b+", "U\tu3\ta", "U\tu3\tb\tfd:f:0.1234567891", "X\tcustom\t1\tic:i:-0",
                  "# a\x0cb\u2028c", "Y\tp\x1cq\tr"]),
    ]
    base = []
    for i, (ver, lines) in enumerate(docs):
        base.append(run_group(dict(id="st%d" % i, kind="rand", ver=ver, cat=dict(doc=[], tv=0, ord=""),
                                   lines=lines, cfgs=[[1, "auto", "str"], [0, "explicit", "fileCRLF"]])))
    import copy

    def mut(g, name, fn):
        h = copy.deepcopy(g)
        h["id"] = g["id"] + "-" + name
        o = h["outs"][0]
        for k in ("s", "tf", "ls", "r2"):
            o[k] = list(o[k])
        o["lv"] = list(o["lv"])
        fn(o)
        return h

    def each(o, f):           # same corruption in all recordings of the written text
        for k in ("s", "tf", "ls", "r2"):
            o[k] = f(list(o[k]))

    def drop_tag(ls):
        i = next(i for i, x in enumerate(ls) if x.startswith("S") and "\tfa:f:" in x or "\tha:H:" in x)
        ls[i] = "\t".join(y for y in ls[i].split("\t") if not (y.startswith("fa:") or y.startswith("ha:")))
        return ls

    def change_field(ls):
        i = next(i for i, x in enumerate(ls) if x[0] in "LE")
        ls[i] = ls[i].replace("2M", "3M", 1)
        return ls

    def change_value(ls):
        i = next(i for i, x in enumerate(ls) if "A\tACGT" in x or "fd:f:" in x)
        ls[i] = ls[i].replace("fa:f:1.5", "fa:f:1.25").replace("fd:f:0.1234567891", "fd:f:0.123457")
        return ls
    muts = []
    for g in base:
        ver = g["ver"]
        seg = "S\tZZ\t*" if ver == "gfa1" else "S\tzz\t1\t*"
        muts += [
            (mut(g, "droptag", lambda o: each(o, drop_tag)), "C01.tags"),
            (mut(g, "field", lambda o: each(o, change_field)), "C01.field"),
            (mut(g, "value", lambda o: each(o, change_value)), "C01.tags"),
            (mut(g, "added", lambda o: each(o, lambda ls: ls + [seg])), "C01.added"),
            (mut(g, "missing", lambda o: each(o, lambda ls: [x for x in ls if not x.startswith("#") and not x.startswith("X")])), "C01.missing"),
            (mut(g, "invalid", lambda o: each(o, lambda ls: [ls[0] + "\t# INVALID; errors found in fields: xx"] + ls[1:])), "C01.invalid-marker"),
            (mut(g, "virtual", lambda o: each(o, lambda ls: ls + [seg + "\tco:Z:GFAPY_virtual_line"])), "C01.virtual-marker"),
            (mut(g, "round2", lambda o: o.__setitem__("r2", list(reversed(o["r2"])))), "C01.fixpoint"),
            (mut(g, "tofile", lambda o: o.__setitem__("tfterm", 0)), "C01.to_file"),
            (mut(g, "refused", lambda o: o.__setitem__("res", "Error")), "C01.refused"),
            (mut(g, "foreign", lambda o: o.__setitem__("res", "FOREIGN")), "foreign"),
        ]
        if ver == "gfa2":
            # what a reader that takes FF / FS for a line boundary would produce
            def cut(ls):
                out = []
                for x in ls:
                    out += x.replace("\x0c", "\n").replace("\x1c", "\n").split("\n")
                return out
            muts.append((mut(g, "cut", lambda o: each(o, cut)), "C01.added"))
            muts.append((mut(g, "ctrl", lambda o: each(o, lambda ls: [x.replace("\x0c", "\x0b") for x in ls])), "C01.field"))
        if ver == "gfa1":
            muts.append((mut(g, "header", lambda o: each(o, lambda ls: [x.replace("ia:i:5", "ia:i:6") for x in ls])), "C01.header"))
            muts.append((mut(g, "bothlinks", lambda o: each(o, lambda ls: ls + ["L\tB\t-\tA\t-\t1M1I2M"])), "C01.added"))
    # custom records: a tag-shaped positional field is not a tag (levels 1 and 3: the boundary
    # itself is a finding at level 0 on trees without the repair of doc2-1)
    cust = run_group(dict(id="st9", kind="rand", ver="gfa2", cat=dict(doc=[], tv=0, ord=""),
                          lines=["S\ta\t4\tACGT", "X\tsample\txx:i:+5\txx:i:2\tzz:f:1e3",
                                 "Y\tq1:f:1e3\tcn:B:c,300\tkk:Z:second",
                                 "SQ\tp\tjf:J:[\"\\u00E9\\u65e5\",\"\\ud83d\\ude00\"]"],
                          cfgs=[[1, "auto", "str"], [3, "explicit", "fileLF"]]))
    base.append(cust)
    rep = lambda a, b: (lambda o: each(o, lambda ls: [x.replace(a, b) for x in ls]))
    muts += [
        (mut(cust, "posnorm", rep("\txx:i:+5\t", "\txx:i:5\t")), "C01.field"),
        (mut(cust, "posnorm2", rep("\tq1:f:1e3\t", "\tq1:f:1000.0\t")), "C01.field"),
        (mut(cust, "posdrop", rep("\txx:i:+5\t", "\t")), "C01.field"),
        (mut(cust, "posorder", rep("\txx:i:+5\txx:i:2\t", "\txx:i:2\txx:i:+5\t")), "C01.missing"),
        (mut(cust, "posbad", rep("\tcn:B:c,300\t", "\tcn:B:s,300\t")), "C01.missing"),   # now a tag, and q1 with it
        (mut(cust, "jraw", rep("\\u00e9", "\u00e9")), "C01.missing"),            # the character itself: not even a tag
        (mut(cust, "jcase", rep('["\\u00e9\\u65e5", "\\ud83d\\ude00"]', '["\\u00E9\\u65e5","\\ud83d\\ude00"]')), ""),   # another spelling
        (mut(cust, "rtcut", rep("SQ\tp\t", "S\tp\t")), "C01.missing"),          # record type cut to its first letter
        (mut(cust, "tagval", rep("\tzz:f:1000.0", "\tzz:f:1e3")), ""),          # a spelling: accepted
    ]
    allg = base + [m for m, _ in muts]
    rej = validate(allg, "doc-selftest", nshards=2)
    by = {}
    for gid, k, clauses in rej:
        by.setdefault(gid, set()).update(clauses)
    bad = []
    for g in base:
        if g["id"] in by:
            bad.append("uncorrupted recording %s rejected: %s" % (g["id"], sorted(by[g["id"]])))
    for m, want in muts:
        got = by.get(m["id"], set())
        if (want not in got) if want else bool(got):
            bad.append("corruption %s: expected %s, TLC reported %s" % (m["id"], want, sorted(got)))
    for b in bad:
        print("SELFTEST-FAIL:", b)
    print("selftest doc: %d corrupted recordings, %d rejected as expected" % (len(muts), len(muts) - len(
        [b for b in bad if b.startswith("corruption")])))
    assert not bad, bad
    return 0


if __name__ == "__main__":
    sys.exit(selftest())
