"""pytest plugin: turns every Gfa built by the repository's own test-suite into a trace
(code -> spec direction, DESIGN 2.4 source (c)).  Needs the env-guarded hook
gfapy/_verif_trace.py (GFAPY_VERIF=1).  Usage (from harness.core.suite_traces):
  cd $REPO && GFAPY_VERIF=1 PYTHONPATH=/verif SUITE_TRACE_OUT=<file> pytest -p harness.suite_trace ...
"""
import json, os, re, sys

MAXLINES = 40
TRACES = {}          # id(gfa) -> trace dict
KEEP = []            # keeps the Gfa objects alive so ids are not reused
STATS = {"events": 0, "big": 0, "ctor_failed": 0, "no_hook": 0}


def _universe(gfa):
    try:
        names = sorted(str(n) for n in gfa.names)[:14]
    except Exception:
        names = []
    return names + ["zz"]


def _unmodelled(kind="unmodelled"):
    return dict(k=kind, text="", id="", id2="")


POSFIELDS = {"L": 5, "C": 6, "P": 3, "E": 8, "G": 5, "F": 7, "O": 2, "U": 2}


def _op_of(gfapy, ev):
    o = _op_of0(gfapy, ev)
    if o is not None and o["k"] == "unmodelled" and "note" not in o:
        a = ev["args"] or {}
        o["note"] = "%s %s" % (ev["op"], a.get("field", ""))
    return o


def _setf(gfapy, a):
    """set() of a positional field that is not the identifier -> SetField of the spec"""
    text, field, val = a.get("text"), a.get("field"), a.get("value", "")
    if not text or text[0] not in "SLCPEGFOU" or "co:Z:GFAPY_virtual_line" in text:
        return None
    m = re.fullmatch(r"'([^'\\]*)'|(-?[0-9]+)", val)
    if not m:
        return None
    value = m.group(1) if m.group(1) is not None else m.group(2)
    try:
        line = gfapy.Line(text, vlevel=0)
        names = list(line.positional_fieldnames)
        field = line.__class__.FIELD_ALIAS.get(field, field)
    except Exception:
        return None
    if field not in names or field == line.__class__.NAME_FIELD or value == "" or "\t" in value:
        return None
    pos = names.index(field) + 1
    f = text.split("\t")
    new = "\t".join(f[:pos] + [value] + f[pos + 1:])
    return dict(k="setf", text="", texts=[text, new], id="", id2="valid", n=pos)


def _op_of0(gfapy, ev):
    op, a = ev["op"], ev["args"] or {}
    if a is None:
        return _unmodelled()
    if op == "add":
        if a.get("text") is None:
            return None
        t = a["text"]
        if "co:Z:GFAPY_virtual_line" in t or t.startswith("?record_type?"):
            return _unmodelled()
        return dict(k="add", text=t, id="", id2="")
    if op == "flush":
        return dict(k="flush", text="", id="", id2="")
    if op == "rm":
        if "id" in a:
            return dict(k="rm", text="", id=a["id"], id2="")
        return dict(k="disc", text=a["text"], id="", id2="")
    if op == "disconnect":
        return dict(k="disc", text=a["text"], id="", id2="")
    if op == "set":
        if a.get("field") in (a.get("name_field"), "name") and a.get("id") and \
                re.fullmatch(r"'[^'\\]+'", a.get("value", "")):
            return dict(k="ren", text="", id=str(a["id"]), id2=a["value"][1:-1])
        return _setf(gfapy, a) or _unmodelled()
    if op == "remove_self_links":
        return dict(k="rsl", text="", id="", id2="")
    if op == "remove_small_components":
        m = re.fullmatch(r"\((\d+),\)", a.get("args", ""))
        return dict(k="rsc", text="", id="", id2="", n=int(m.group(1))) if m else _unmodelled()
    if op == "delete":
        if a.get("id") and re.fullmatch(r"[A-Za-z][A-Za-z0-9]", a.get("field", "")):
            return dict(k="deltag", text="H\t%s:Z:x" % a["field"], id=str(a["id"]), id2="")
        return _unmodelled()
    return _unmodelled()


def _callback(ev):
    import gfapy
    from harness import project, core
    gfa = ev["gfa"]
    STATS["events"] += 1
    op = ev["op"]
    if op == "init":
        a = ev["args"] or {}
        if ev["error"] is not None:
            STATS["ctor_failed"] += 1
            return
        ver = a.get("version")
        t = {"id": "suite-%d" % len(KEEP), "kind": "suite",
             "cfg": {"version": ver if ver in ("gfa1", "gfa2") else "none",
                     "vlevel": a.get("vlevel") if isinstance(a.get("vlevel"), int) else 1,
                     "dialect": "standard"},
             "ev": [], "src": [], "poolobj": project.Pool(), "dead": False,
             "unmodelled": a.get("dialect") not in ("standard", None)}
        KEEP.append(gfa)
        TRACES[id(gfa)] = t
        # the observation of the empty Gfa is what the trace starts from
        fresh = gfapy.Gfa.__new__(gfapy.Gfa)
        try:
            import gfapy._verif_trace as vt
            cb, vt.callback = vt.callback, None
            try:
                empty = gfapy.Gfa(version=ver if ver in ("gfa1", "gfa2") else None, vlevel=t["cfg"]["vlevel"])
            finally:
                vt.callback = cb
            t["init"] = project.observe(empty, t["poolobj"], ["zz"])
        except Exception:
            t["dead"] = True
            return
        data = a.get("data")
        if data is None:
            return
        texts = data.split("\n") if isinstance(data, str) else [x if isinstance(x, str) else str(x) for x in data]
        o = dict(k="load", text="", id="list", id2="", texts=texts)
        _record(gfapy, t, gfa, o, None)
        return
    t = TRACES.get(id(gfa))
    if t is None or t["dead"]:
        return
    if op == "read_file":
        try:
            with open((ev["args"] or {}).get("filename")) as f:
                texts = [x.rstrip("\r\n") for x in f]
            o = dict(k="load", text="", id="file", id2="", texts=texts)
        except Exception:
            o = _unmodelled()
    else:
        o = _op_of(gfapy, ev)
        if o is None:
            return
    _record(gfapy, t, gfa, o, ev["error"])


def _record(gfapy, t, gfa, o, error):
    from harness import project, core
    try:
        n = len(gfa.lines)
    except Exception:
        n = 0
    if n > MAXLINES or len(t["ev"]) > 60:
        if not t["dead"]:
            STATS["big"] += 1
        t["dead"] = True
        return
    if t["unmodelled"] or any(ln.record_type in gfapy.Line.EXTENSIONS for ln in gfa.lines):
        o = dict(_unmodelled(), note=o["k"])
    pool = t["poolobj"]
    res, exc = "ok", ""
    if error is not None:
        res, exc = project.errclass(error), type(error).__name__
    import gfapy._verif_trace as vt
    cb, vt.callback = vt.callback, None     # the projection itself must not be traced
    try:
        lidx = pool.add(core.abstract_input(o["text"])) if o.get("text") else 0
        ls = [pool.add(core.abstract_input(x)) for x in o.get("texts", []) if x != ""] if o["k"] in ("load", "setf") else []
        if o["k"] == "load" and any(x == "" for x in o.get("texts", [])):
            o = dict(_unmodelled(), note="load with empty line")
        obs = project.observe(gfa, pool, _universe(gfa))
    finally:
        vt.callback = cb
    t["ev"].append({"op": {"k": o["k"], "l": lidx, "id": o["id"], "id2": o["id2"], "ls": ls,
                           "n": core.name_class(o["id2"]) if o["k"] == "ren" else o.get("n", 0)},
                    "res": res, "exc": exc, "obs": obs, "qsame": 1, "qdiff": []})
    t["src"].append({k: v for k, v in o.items()})


def pytest_configure(config):
    try:
        import gfapy._verif_trace as vt
    except ImportError:
        STATS["no_hook"] = 1
        return
    vt.callback = _callback


def pytest_unconfigure(config):
    out = os.environ.get("SUITE_TRACE_OUT")
    if not out:
        return
    try:
        import gfapy._verif_trace as vt
        vt.callback = None
    except ImportError:
        pass
    traces = []
    for t in TRACES.values():
        if t["dead"] or not t["ev"] or "init" not in t:
            continue
        traces.append({"id": t["id"], "kind": "suite", "cfg": t["cfg"], "init": t["init"], "ev": t["ev"],
                       "pool": t["poolobj"].items, "src": t["src"]})
    with open(out, "w") as f:
        json.dump({"traces": traces, "stats": STATS}, f)
