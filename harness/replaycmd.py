"""Re-run one recorded violation against the current tree."""
import json
from . import core


def replay(prop, path):
    with open(path) as f:
        v = json.load(f)
    if v.get("family") == "core":
        job = dict(id="replay", kind="replay", cfg=v["cfg"], ops=v["ops"],
                   universe=sorted({o["id"] for o in v["ops"] if o.get("id")} | {"zz"}))
        tr = [core.replay_one(job)]
        r = core.validate(tr, "replay")
        bad = False
        for tid, ev, clauses, phase in r["rejects"]:
            props = core.attribute(clauses, "replay")
            print("REJECT call=%d clauses=%s properties=%s" % (ev, ",".join(clauses), ",".join(sorted(props))))
            if prop in props:
                bad = True
        for o, e in zip(tr[0]["src"], tr[0]["ev"]):
            print("  ", o["k"], repr(o["text"] or (o["id"], o["id2"])), "->", e["res"], e["exc"])
        if bad:
            print("VIOLATION property=%s replay=%s" % (prop, path))
            return 1
        print("replay passes")
        return 0
    from . import families
    return families.replay(prop, v, path)
