"""Family "fields": C18 (validation levels), C19 (clone), C20 (tag values).

TLC decides every verdict (spec/Fields.tla, MC_Fields.tla, TraceFields.tla).
This module only (1) asks TLC for the programs to run (MC_Fields, mode "enum"),
(2) drives the real gfapy and records what it did -- result classes, written
characters, object identities, booleans returned by gfapy's own == -- and
(3) hands the record to TraceFields.

Second round (DESIGN 10.9): C18 also on lines DERIVED by library operations and with an operation
in the level comparison; C19 equality after TLC-enumerated read programs on subjects with unparsed
fields; C20 tags of lines of a Gfa written through every write path (kind "gval")."""
import json, os, random, signal, sys, time, itertools, copy
from multiprocessing import Pool as MPool

from . import tlc, report, project
from .tlc import MachineryError, NCPU
from .core import _load_gfapy, REPO, CATALOGUES, text_of

FAM = "fields"
TRACE_CFG = "SPECIFICATION Spec\nINVARIANT Judge\nCHECK_DEADLOCK FALSE\n"


# --------------------------------------------------------------------------
# guarded calls

class _Timeout(BaseException):
    pass


def _alarm(signum, frame):
    raise _Timeout()


def _init_worker():
    signal.signal(signal.SIGVTALRM, _alarm)
    _load_gfapy()


def guarded(fn, limit=30.0):
    """-> (result class, value, exception name).  Classes: ok / Error (any gfapy.Error) /
    FOREIGN (anything else, including non-termination: wall-clock watchdog, generous because
    the machine may be heavily loaded)."""
    try:
        signal.setitimer(signal.ITIMER_VIRTUAL, limit)
        try:
            v = fn()
        finally:
            signal.setitimer(signal.ITIMER_VIRTUAL, 0)
        return "ok", v, ""
    except _Timeout:
        signal.setitimer(signal.ITIMER_VIRTUAL, 0)
        return "FOREIGN", None, "timeout"
    except MachineryError:
        raise
    except BaseException as e:  # noqa
        c = project.errclass(e)
        return ("FOREIGN" if c == "FOREIGN" else "Error"), None, type(e).__name__


def _pmap(fn, jobs, chunk=None):
    if not jobs:
        return []
    n = min(NCPU, max(1, len(jobs) // 50 + 1))
    if n == 1:
        _init_worker()
        return [fn(j) for j in jobs]
    with MPool(processes=n, initializer=_init_worker) as mp:
        return mp.map(fn, jobs, chunksize=chunk or max(1, len(jobs) // (n * 8) + 1))


# --------------------------------------------------------------------------
# value descriptors -> Python objects (the only place values are built)

def mk(d):
    gfapy = _load_gfapy()
    k, a = d["py"], d.get("a")
    if k == "int":
        return int(a)
    if k == "sym":                      # symbolic integer sg * 2^e + d
        return a[0] * 2 ** a[1] + a[2]
    if k == "float":
        return float(a)
    if k == "str":
        return str(a)
    if k == "json":
        return json.loads(a)
    if k == "symlist":
        return [x[0] * 2 ** x[1] + x[2] for x in a]
    if k == "floatlist":
        return [float(x) for x in a]
    if k == "na":
        return gfapy.NumericArray(mk(a))
    if k == "ba":
        return gfapy.ByteArray(list(a))
    if k == "cigar":
        return gfapy.Alignment(a, version="gfa1")
    if k == "cigar2":
        return gfapy.Alignment(a, version="gfa2")
    if k == "ph":
        return gfapy.Placeholder()
    if k == "aph":
        return gfapy.AlignmentPlaceholder()
    if k == "ol":
        return gfapy.OrientedLine(a[0], a[1])
    if k == "ollist":
        return [gfapy.OrientedLine(x[0], x[1]) for x in a]
    if k == "ciglist":
        return [gfapy.Alignment(x, version="gfa1") for x in a]
    if k == "lastpos":
        return gfapy.LastPos(a, valid=True)
    if k == "pylit":                    # a Python literal (dicts with non-string keys, tuples, ...)
        import ast
        return ast.literal_eval(a)
    raise MachineryError("unknown value descriptor %r" % (d,))


def I(n): return {"py": "int", "a": n}
def F(s): return {"py": "float", "a": s}
def S(s): return {"py": "str", "a": s}
def J(s): return {"py": "json", "a": s}
def NA(d): return {"py": "na", "a": d}


WT_COMMON = [J("[1, 2]"), J('{"a": 1}')]     # wrong Python type for every scalar datatype

# --------------------------------------------------------------------------
# C18: the fields (one tag per tag datatype, one positional field per positional
# datatype), each with representatives of every value class the datatype has.
# "valid" / invalid is per the GFA specifications and doc/tutorial; strings are
# the encoded form of the value.

TAGLINE = 'S\tA\t*\txi:i:1\txf:f:0.5\txz:Z:abc\txa:A:c\txj:J:{"a": 1}\txh:H:0AFF\txb:B:c,1,-1'

FIELDS = [
    dict(name="xi", kind="tag", dt="i", line=TAGLINE, version="gfa1", classes={
        "valid": [I(5), S("12"), I(-7), S("-3")],
        "wrongtype": [J("[1, 2]"), F("1.5"), J('{"a": 1}')],
        "wrongsyntax": [S("A"), S("1.5"), S("12x"), S("")]}),
    dict(name="xf", kind="tag", dt="f", line=TAGLINE, version="gfa1", classes={
        "valid": [F("1.5"), S("3.25"), F("-2.5e10"), S("-1e-3")],
        "wrongtype": [J("[1.5]"), J('{"a": 1}')],
        "wrongsyntax": [S("abc"), S("1.5.2"), S("1e"), S("")],
        "outofrange": [F("nan"), F("inf"), F("-inf")]}),
    dict(name="xz", kind="tag", dt="Z", line=TAGLINE, version="gfa1", classes={
        "valid": [S("hello"), S("with space"), S("~!@")],
        "wrongtype": [I(5), J("[1, 2]"), J('{"a": 1}'), F("1.5")],
        "wrongsyntax": [S("a\tb"), S("a\nb"), S("\x01"), S("café")]}),
    dict(name="xa", kind="tag", dt="A", line=TAGLINE, version="gfa1", classes={
        "valid": [S("x"), S("~"), S("7")],
        "wrongtype": [I(5), J('["a"]')],
        "wrongsyntax": [S("ab"), S(" "), S(""), S("\t")]}),
    dict(name="xj", kind="tag", dt="J", line=TAGLINE, version="gfa1", classes={
        "valid": [J('{"b": [1, "x"]}'), S('{"k": [1, 2]}'), J('[1, "x", {"b": null}]'), S('["q"]')],
        "wrongtype": [I(5), F("1.5")],
        "wrongsyntax": [S("abc"), S('{"a":\t1}'), S("")]}),
    dict(name="xh", kind="tag", dt="H", line=TAGLINE, version="gfa1", classes={
        "valid": [{"py": "ba", "a": [1, 255]}, S("12AB"), {"py": "ba", "a": [0]}, S("00")],
        "wrongtype": [I(5), F("1.5"), J('{"a": 1}')],
        "wrongsyntax": [S("0af0"), S("XY"), S("")]}),
    dict(name="xb", kind="tag", dt="B", line=TAGLINE, version="gfa1", classes={
        "valid": [NA(J("[1, 2, 3]")), S("c,1,2"), NA(J("[1.5, 2.5]")), S("f,1.5"), NA(J("[-1, 300]"))],
        "wrongtype": [I(5), J('{"a": 1}'), F("1.5"), NA(J("[1, 2.5]"))],
        "wrongsyntax": [S("x,1"), S("c,"), S("c,1,a"), S(""), S("c")],
        "outofrange": [NA({"py": "symlist", "a": [[1, 32, 0]]}), NA({"py": "symlist", "a": [[-1, 31, -1]]}),
                       NA({"py": "symlist", "a": [[0, 0, -1], [1, 31, 0]]}), S("c,200"), S("C,-1"),
                       NA(J("[]"))]}),
    # ---- tags that do not exist yet: the first Set creates them with the default datatype of the value
    dict(name="nz", kind="newtag", dt="Z", line="S\tA\t*", version="gfa1", classes={
        "valid": [S("hello"), S("with space"), S("~!@")],
        "wrongsyntax": [S("a\tb"), S("a\nb"), S("\x01")]}),
    dict(name="nf", kind="newtag", dt="f", line="S\tA\t*", version="gfa1", classes={
        "valid": [F("1.5"), F("-2.5e10")],
        "outofrange": [F("nan"), F("inf")]}),
    dict(name="nb", kind="newtag", dt="B", line="S\tA\t*", version="gfa1", classes={
        "valid": [NA(J("[1, 2, 3]")), J("[1, -1]"), NA(J("[1.5, 2.5]"))],
        "wrongtype": [NA(J("[1, 2.5]"))],
        "outofrange": [NA({"py": "symlist", "a": [[1, 32, 0]]}), NA(J("[]")),
                       {"py": "symlist", "a": [[-1, 31, -1]]}]}),
    # ---- positional fields, GFA1
    dict(name="name", kind="pos", dt="segment_name_gfa1", line="S\tA\t*", version="gfa1", classes={
        "valid": [S("B"), S("seg1"), S("x+y")],
        "wrongtype": [I(5), J('["a"]')],
        "wrongsyntax": [S("a b"), S("*x"), S("=x"), S("a\tb"), S("")]}),
    dict(name="sequence", kind="pos", dt="sequence_gfa1", line="S\tA\tAC", version="gfa1", classes={
        "valid": [S("ACGT"), S("*"), {"py": "ph"}, S("acgtn")],
        "wrongtype": [I(5), J('["A"]')],
        "wrongsyntax": [S("AC GT"), S("AC*"), S("12"), S("")]}),
    dict(name="from_orient", kind="pos", dt="orientation", line="L\tA\t+\tB\t-\t2M", version="gfa1", classes={
        "valid": [S("-"), S("+")],
        "wrongtype": [I(1), J('["+"]')],
        "wrongsyntax": [S("x"), S(""), S("+-")]}),
    dict(name="overlap", kind="pos", dt="alignment_gfa1", line="L\tA\t+\tB\t-\t2M", version="gfa1", classes={
        "valid": [S("3M1D"), S("*"), {"py": "cigar", "a": "4M"}, {"py": "aph"}],
        "wrongtype": [I(5), F("1.5"), J('{"a": 1}')],
        "wrongsyntax": [S("2Q"), S("M2"), S("2M,1D"), S("")]}),
    dict(name="pos", kind="pos", dt="position_gfa1", line="C\tA\t+\tB\t-\t10\t2M", version="gfa1", classes={
        "valid": [I(12), S("34"), I(0)],
        "wrongtype": [J("[1]"), J('{"a": 1}')],
        "wrongsyntax": [S("x"), S("1.5"), S("1 2")],
        "outofrange": [I(-1), I(-100)]}),
    dict(name="path_name", kind="pos", dt="path_name_gfa1", line="P\tp1\tA+,B-\t*", version="gfa1", classes={
        "valid": [S("p2"), S("path")],
        "wrongtype": [I(5), J('["p"]')],
        "wrongsyntax": [S("p q"), S("*p"), S("")]}),
    dict(name="segment_names", kind="pos", dt="oriented_identifier_list_gfa1", line="P\tp1\tA+,B-\t*",
         version="gfa1", classes={
        "valid": [S("A+,C-"), {"py": "ollist", "a": [["A", "+"], ["C", "-"]]}, S("X-,Y-,Z+")],
        "wrongtype": [I(5), J('{"a": 1}')],
        "wrongsyntax": [S("A,B"), S("A+ B-"), S("A+,B"), S("")]}),
    dict(name="overlaps", kind="pos", dt="alignment_list_gfa1", line="P\tp1\tA+,B-,C+\t1M,1M", version="gfa1",
         classes={
        "valid": [S("1M,2M"), S("4M,1M1I"), {"py": "ciglist", "a": ["3M", "2M"]}],
        "wrongtype": [I(5), J('{"a": 1}')],
        "wrongsyntax": [S("1Q,2M"), S("1M;2M"), S("")]}),
    # ---- positional fields, GFA2
    dict(name="sid", kind="pos", dt="identifier_gfa2", line="S\ts1\t10\t*", version="gfa2", classes={
        "valid": [S("s2"), S("x")],
        "wrongtype": [I(5), J('["a"]')],
        "wrongsyntax": [S("a b"), S(""), S("a\tb")]}),
    dict(name="slen", kind="pos", dt="i", line="S\ts1\t10\t*", version="gfa2", classes={
        "valid": [I(12), S("34")],
        "wrongtype": [J("[1]"), F("1.5")],
        "wrongsyntax": [S("x"), S("1.5"), S("")]}),
    dict(name="sequence", kind="pos", dt="sequence_gfa2", line="S\ts1\t10\tAC", version="gfa2", classes={
        "valid": [S("ACGT"), S("*"), {"py": "ph"}],
        "wrongtype": [I(5), J('["A"]')],
        "wrongsyntax": [S("AC GT"), S(""), S("A\tC")]}),
    dict(name="eid", kind="pos", dt="optional_identifier_gfa2", line="E\te1\ta+\tb-\t0\t10\t5\t15$\t*",
         version="gfa2", classes={
        "valid": [S("e2"), S("*"), {"py": "ph"}],
        "wrongtype": [I(5), J('["a"]')],
        "wrongsyntax": [S("a b"), S("")]}),
    dict(name="sid1", kind="pos", dt="oriented_identifier_gfa2", line="E\te1\ta+\tb-\t0\t10\t5\t15$\t*",
         version="gfa2", classes={
        "valid": [S("c+"), {"py": "ol", "a": ["d", "-"]}, S("c-")],
        "wrongtype": [I(5), J('["a", "+"]')],
        "wrongsyntax": [S("c"), S("c*"), S("a b+"), S(""), S("+")]}),
    dict(name="beg1", kind="pos", dt="position_gfa2", line="E\te1\ta+\tb-\t0\t10\t5\t15$\t*",
         version="gfa2", classes={
        "valid": [I(5), S("7"), S("9$"), {"py": "lastpos", "a": 8}],
        "wrongtype": [J("[1]"), F("1.5")],
        "wrongsyntax": [S("x"), S("5$$"), S("1.5"), S("")],
        "outofrange": [I(-1), {"py": "lastpos", "a": -2}]}),
    dict(name="alignment", kind="pos", dt="alignment_gfa2", line="E\te1\ta+\tb-\t0\t10\t5\t15$\t2M",
         version="gfa2", classes={
        "valid": [S("3M1D"), S("*"), S("1,2,3"), {"py": "cigar2", "a": "4M"}, {"py": "aph"}],
        "wrongtype": [I(5), F("1.5")],
        "wrongsyntax": [S("2Q"), S("1,a"), S("")]}),
    dict(name="var", kind="pos", dt="optional_integer", line="G\tg1\ta+\tb-\t100\t5", version="gfa2", classes={
        "valid": [I(10), S("20"), S("*"), {"py": "ph"}],
        "wrongtype": [J("[1]"), F("1.5")],
        "wrongsyntax": [S("x"), S("1.5"), S("")]}),
    dict(name="items", kind="pos", dt="identifier_list_gfa2", line="U\tu1\ta b c", version="gfa2", classes={
        "valid": [S("a b"), J('["x", "y"]')],
        "wrongtype": [I(5), J('{"a": 1}')],
        "wrongsyntax": [S("a\tb"), S(""), J('["a b"]')]}),
    dict(name="items", kind="pos", dt="oriented_identifier_list_gfa2", line="O\to1\ta+ b-", version="gfa2",
         classes={
        "valid": [S("a+ c-"), {"py": "ollist", "a": [["x", "+"], ["y", "-"]]}],
        "wrongtype": [I(5), J('{"a": 1}')],
        "wrongsyntax": [S("a b"), S("a+,b"), S("")]}),
    dict(name="field1", kind="pos", dt="generic", line="X\tcustom\t1", version="gfa2", classes={
        "valid": [S("any thing"), S("x")],
        "wrongtype": [I(5), J("[1]")],
        "wrongsyntax": [S("a\tb"), S("a\nb")]}),
    dict(name="content", kind="pos", dt="comment", line="# hello", version=None, classes={
        "valid": [S("text"), S("more text")],
        "wrongtype": [I(5), J("[1]")],
        "wrongsyntax": [S("a\nb"), S("x\ny\n")]}),
]
for _i, _f in enumerate(FIELDS):
    _f["key"] = "%s:%s" % (_f["dt"], _f["name"])     # unique name used in the TLA+ store

# wrong-syntax strings that Python's converters happen to accept (int(), float());
# run as additional representatives (thorough tier and a sample in quick)
LAX = {"i:xi": [S(" 5"), S("1_0")], "f:xf": [S("inf"), S("nan"), S("1_0.5"), S(" 1.5")],
       "i:slen": [S(" 5")], "position_gfa1:pos": [S("+5"), S(" 5")], "optional_integer:var": [S(" 5")]}


def field_by_key(key):
    for f in FIELDS:
        if f["key"] == key:
            return f
    raise MachineryError("unknown field " + key)


def fields_param(fields, mode, maxlen):
    return {"mode": mode, "maxlen": maxlen,
            "fields": [{"name": f["key"], "kind": f["kind"], "dt": f["dt"],
                        "classes": sorted(f["classes"].keys())} for f in fields]}


MC_ENUM_CFG = "SPECIFICATION Spec\nVIEW ProgView\nCONSTRAINT Emit\nCHECK_DEADLOCK FALSE\n"
MC_PROPS_CFG = ("SPECIFICATION Spec\nPROPERTY Statements\nINVARIANT DeclHolds\nINVARIANT Equivalent\n"
                "CHECK_DEADLOCK FALSE\n")


def run_mc(mode, fields, maxlen, name, workers=None):
    wd = tlc.workdir(name)
    pf = os.path.join(wd, "params.json")
    with open(pf, "w") as fh:
        json.dump(fields_param(fields, mode, maxlen), fh)
    cfg = MC_ENUM_CFG if mode in ("enum", "renum") else MC_PROPS_CFG
    rc, out = tlc.run_tlc("MC_Fields", cfg, wd, env={"FIELDS_FILE": pf}, workers=workers or NCPU,
                          heap="6g", timeout=3000)
    tlc.check_ok(rc, out, "MC_Fields/" + mode)
    return out


def abstract_fields_for_props():
    """One abstract field per distinct (kind, class set): the statements do not depend on
    anything else."""
    seen, res = set(), []
    for f in FIELDS:
        k = (f["kind"], tuple(sorted(f["classes"])))
        if k not in seen:
            seen.add(k)
            res.append(f)
    return res


def enum_programs(fields, maxlen, name, workers=None):
    """-> list of (lvl, field key, (codes...)) printed by TLC, and TLC stats."""
    out = run_mc("enum", fields, maxlen, name, workers)
    progs = set()
    for raw in tlc.parse_tuples(out, "CASE"):
        v = tlc.tla_value(raw)
        progs.add((v[1], v[2], tuple(v[3])))
    return sorted(progs), tlc.stats(out)


def enum_read_programs(maxlen, name, workers=None):
    """-> sorted list of tuples of read calls ("get.clone", ...) printed by TLC (MC_Fields, mode renum)."""
    out = run_mc("renum", [field_by_key("i:xi")], maxlen, name, workers)
    progs = set()
    for raw in tlc.parse_tuples(out, "RCASE"):
        progs.add(tuple(tlc.tla_value(raw)[1]))
    n = sum(len(READ_CALLS) ** k * 2 ** k for k in range(1, maxlen + 1))
    if len(progs) != n:
        raise MachineryError("MC_Fields/renum printed %d read programs, expected %d" % (len(progs), n))
    return sorted(progs), tlc.stats(out)


# --------------------------------------------------------------------------
# C18 programs: run one against gfapy

_MISSING = object()


def _content(x):
    """For add() ("one more value for the tag"): how many values the tag holds -- a FieldArray's
    elements, one for a single value, none for a missing tag.  (Not object identity: a refused
    add() may already have wrapped the single value into a FieldArray of one, or have decoded an
    encoded value while reading it -- the same value.)"""
    if x is _MISSING:
        return 0
    d = getattr(x, "_data", None)
    return len(d) if isinstance(d, list) and type(x).__name__ == "FieldArray" else 1


def _run_calls(line, fd, codes, offset, lax, force, assign=None):
    """Run the calls of a program on field fd of `line`; -> (events, [[value, exception]]).
    assign: None (Set: line.set / attribute assignment by the parity of offset), or, on a header,
    "add" / "add+dt": every Set of the program is an Add -- Multiline.add(tag, value[, datatype])."""
    f = fd["name"]
    key = fd["key"]
    evs, vals = [], []
    nset = 0
    for code in codes:
        ev = {"k": code, "c": "-", "res": "ok", "mark": False, "kept": "T"}
        val = None
        if code.startswith("set."):
            cls = code[4:]
            reps = fd["classes"][cls]
            if lax and cls == "wrongsyntax" and key in LAX:
                reps = LAX[key]
            val = force[nset] if nset < len(force) else reps[(offset + nset) % len(reps)]
            nset += 1
            v = mk(val)
            old = line._data.get(f, _MISSING)
            if assign in ("add", "add+dt"):
                before = _content(old)
                if assign == "add":
                    r, _, exc = guarded(lambda: line.add(f, v))
                else:
                    r, _, exc = guarded(lambda: line.add(f, v, fd["dt"]))
                ev.update(k="add", c=cls, res=r, kept="T" if _content(line._data.get(f, _MISSING)) == before else "F")
                evs.append(ev)
                vals.append([val, exc])
                continue
            if offset % 2 == 1:          # odd choices assign through the attribute: line.<field> = v
                r, _, exc = guarded(lambda: setattr(line, f, v))
            else:
                r, _, exc = guarded(lambda: line.set(f, v))
            new = line._data.get(f, _MISSING)
            ev.update(k="set", c=cls, res=r, kept=("?" if v is old else ("T" if new is old else "F")))
        elif code == "get":
            old = line._data.get(f, _MISSING)
            r, _, exc = guarded(lambda: line.get(f))
            ev["res"] = r
            ev["kept"] = "T" if line._data.get(f, _MISSING) is old else "F"
        elif code == "write":
            r, _, exc = guarded(lambda: line.field_to_s(f))
            ev["res"] = r
        elif code == "str":
            old = line._data.get(f, _MISSING)
            r, text, exc = guarded(lambda: str(line))
            ev["res"] = r
            ev["kept"] = "T" if line._data.get(f, _MISSING) is old else "F"
            ev["mark"] = bool(r == "ok" and text.split("\t")[-1].startswith("# INVALID"))
        elif code == "validate":
            r, _, exc = guarded(lambda: line.validate())
            ev["res"] = r
        elif code == "vfield":
            r, _, exc = guarded(lambda: line.validate_field(f))
            ev["res"] = r
        else:
            raise MachineryError("unknown call code " + code)
        evs.append(ev)
        vals.append([val, exc])
    return evs, vals


def run_program(job):
    """job = (id, lvl, field key, codes, offset, lax[, forced values]) -> case dict for
    TraceFields + values.  The subject is a stand-alone gfapy.Line(text, vlevel=lvl)."""
    cid, lvl, key, codes, offset, lax = job[:6]
    force = list(job[6]) if len(job) > 6 else []      # explicit value descriptors for the Sets, in order
    gfapy = _load_gfapy()
    fd = field_by_key(key)
    res, line, exc = guarded(lambda: gfapy.Line(fd["line"], vlevel=lvl, version=fd["version"])
                             if fd["version"] else gfapy.Line(fd["line"], vlevel=lvl))
    if res != "ok":
        raise MachineryError("cannot build base line %r at level %d: %s" % (fd["line"], lvl, exc))
    linelvl = line.vlevel
    evs, vals = _run_calls(line, fd, codes, offset, lax, force)
    return {"id": cid, "lvl": lvl, "f": key, "dt": fd["dt"], "conn": False, "linelvl": linelvl, "origin": "text",
            "init": "absent" if fd["kind"] == "newtag" else "valid", "ev": evs}, vals


def validate_cases(kind, cases, name, nshards=None):
    """Shard the cases, run TraceFields, return {case id: (clauses, where)} and #states."""
    if not cases:
        return {}, 0
    wd = tlc.workdir(name + "-shards")
    # at most ~12000 cases per shard file (a shard is one JSON constant of one TLC process);
    # the shards run NCPU at a time
    nshards = max(1, min(nshards or NCPU, len(cases) // 200 + 1), len(cases) // 12000 + 1)
    files = []
    for s in range(nshards):
        part = cases[s::nshards]
        if not part:
            continue
        fn = os.path.join(wd, "shard%d.json" % s)
        with open(fn, "w") as fh:
            json.dump({"kind": kind, "cases": part}, fh)
        files.append(fn)
    res = tlc.run_sharded("TraceFields", TRACE_CFG, files, name + "-tlc")
    rejects, distinct = {}, 0
    for rc, out in res:
        st = tlc.stats(out)
        if rc != 0 or st is None or "No error has been found" not in out:
            raise MachineryError("TraceFields failed:\n" + "\n".join(out.splitlines()[-30:]))
        distinct += st[1]
        for raw in tlc.parse_tuples(out, "REJECT"):
            v = tlc.tla_value(raw)
            rejects[v[1]] = (sorted(v[2]), v[3])
    if distinct != len(cases):
        raise MachineryError("TraceFields consumed %d states, expected %d cases" % (distinct, len(cases)))
    return rejects, distinct


# --------------------------------------------------------------------------
# C18 (b): programs

def _prog_batches(progs, tier, seed):
    """Yield (label, jobs): every program with several choices of the representatives."""
    rnd = random.Random(seed)
    laxkeys = set(LAX)
    if tier == "quick":
        offs = [0, rnd.choice([1, 3])]
        laxoffs = [rnd.randint(0, 3)]
    else:
        offs = [0, 1, 2, 3]          # (with up to 4 Sets per program every representative is reached)
        laxoffs = [0, 1, 2, 3]
    n = 0
    for off in offs:
        jobs = []
        for p in progs:
            # quick tier: the second choice of representatives (attribute assignment) runs on every
            # program of <= 2 calls and on a seeded third of the longer ones
            if tier == "quick" and off != 0 and len(p[2]) > 2 and rnd.random() > 0.34:
                continue
            jobs.append((n, p[0], p[1], p[2], off, False))
            n += 1
        yield "off%d" % off, jobs
    for off in laxoffs:
        jobs = []
        for p in progs:
            if p[1] in laxkeys and any(c == "set.wrongsyntax" for c in p[2]):
                jobs.append((n, p[0], p[1], p[2], off, True))
                n += 1
        yield "lax%d" % off, jobs


def _prog_signature(case, vals, clauses, at):
    """Group key of a rejected program: clause, field, the value last assigned before the
    rejected call, the rejected call."""
    ev = case["ev"]
    last = None
    for e, v in zip(ev[:at], vals[:at]):
        if e["k"] == "set":
            last = (e["c"], v[0])
    call = ev[at - 1]["k"]
    return (",".join(clauses), case["f"], last[0] if last else "-", call), last


def check_programs(out, tier, seed, fields=None, maxlen=None):
    fields = fields or FIELDS
    maxlen = maxlen or (3 if tier == "quick" else 4)
    # the statements on the specification itself
    from concurrent.futures import ThreadPoolExecutor
    d = 3 if tier == "quick" else 4
    w = max(2, NCPU // 3)
    # the two runs that check the specification itself go on in the background while the
    # enumerated programs are executed and validated
    ex = ThreadPoolExecutor(max_workers=3)
    f1 = ex.submit(run_mc, "props", abstract_fields_for_props(), d, "fields-mc-props", w)
    f2 = ex.submit(run_mc, "equiv", abstract_fields_for_props(), d, "fields-mc-equiv", w)
    f3 = ex.submit(enum_programs, fields, maxlen, "fields-mc-enum", w)
    progs, s3 = f3.result()
    out.add_cov(states=s3[1], transitions=s3[0], programs_enumerated=len(progs), program_depth=maxlen,
                fields=len(fields))
    groups = {}
    ncases = 0
    nontrivial = set()
    for label, jobs in _prog_batches(progs, tier, seed):
        if not jobs:
            continue
        res = _pmap(run_program, jobs)
        cases = [r[0] for r in res]
        rejects, n = validate_cases("prog", cases, "fields-prog-" + label)
        ncases += n
        byid = {r[0]["id"]: r for r in res}
        for c, vals in res:
            # non-trivial: an invalid value was stored and something was called afterwards
            st = [i for i, e in enumerate(c["ev"]) if e["k"] == "set" and e["c"] != "valid" and e["res"] == "ok"]
            if st and st[0] < len(c["ev"]) - 1:
                nontrivial.add((c["lvl"], c["f"], tuple(e["k"] + e["c"] for e in c["ev"])))
        for cid, (clauses, at) in rejects.items():
            c, vals = byid[cid]
            key, last = _prog_signature(c, vals, clauses, at)
            g = groups.setdefault(key, dict(n=0, levels=set(), ex=None, values=set(), last=None))
            g["n"] += 1
            g["levels"].add(c["lvl"])
            g["values"].add(json.dumps(last[1]) if last else "-")
            job = jobs[cid - jobs[0][0]]
            rank = (len(job[3]), json.dumps(last[1]) if last else "", c["lvl"], job[3])
            if g["ex"] is None or rank < g["rank"]:
                g["ex"], g["rank"], g["last"] = (job, c, vals, clauses, at), rank, last
        if len(out.samples) < 3 and res:
            c, vals = res[len(res) // 2]
            out.samples.append({"program": [e["k"] + ("." + e["c"] if e["k"] == "set" else "") for e in c["ev"]],
                                "level": c["lvl"], "field": c["f"],
                                "observed": [[e["res"], e["mark"], e["kept"]] for e in c["ev"]]})
    s1, s2 = tlc.stats(f1.result()), tlc.stats(f2.result())      # (raise if a statement failed)
    ex.shutdown()
    out.add_cov(states=s1[1] + s2[1], transitions=s1[0] + s2[0], spec_states_statements=s1[1],
                spec_states_equivalence=s2[1])
    out.add_cov(traces_validated_against_impl=ncases, program_cases=ncases,
                programs_nontrivial=len(nontrivial))
    # try to show each group by its two-call core: the assignment, then the rejected call
    mini = []
    for key, g in sorted(groups.items()):
        last = g["last"]
        if last is not None and key[3] != "set":
            mini.append((len(mini), min(g["levels"]), key[1], ("set." + last[0], key[3]), 0, False, [last[1]]))
            g["mini"] = len(mini) - 1
        elif last is not None:
            mini.append((len(mini), min(g["levels"]), key[1], ("set." + last[0],), 0, False, [last[1]]))
            g["mini"] = len(mini) - 1
    if mini:
        mres = _pmap(run_program, mini)
        mrej, _ = validate_cases("prog", [r[0] for r in mres], "fields-prog-mini")
        for key, g in groups.items():
            i = g.get("mini")
            if i is not None and i in mrej and ",".join(mrej[i][0]) == key[0]:
                g["ex"] = (mini[i], mres[i][0], mres[i][1], mrej[i][0], mrej[i][1])
    for key, g in sorted(groups.items()):
        job, c, vals, clauses, at = g["ex"]
        fd = field_by_key(c["f"])
        last = g["last"]
        calls = []
        for e, v in zip(c["ev"], vals):
            calls.append("%s%s -> %s%s" % (e["k"], ("(%s %s)" % (e["c"], json.dumps(v[0]))) if e["k"] == "set" else "",
                                           e["res"], (":" + v[1]) if v[1] else ""))
        out.violations.append(dict(
            family=FAM, kind="prog", clauses=list(clauses),
            input="line=%r field=%s set=%s then=%s" % (fd["line"], fd["name"], json.dumps(last), key[3]),
            api="Line.set (or attribute assignment)/get/field_to_s/str/validate", levels=sorted(g["levels"]), occurrences=g["n"],
            values_of_this_class=sorted(g["values"]),
            program=dict(lvl=job[1], key=job[2], codes=list(job[3]), offset=job[4], lax=job[5],
                         force=list(job[6]) if len(job) > 6 else []),
            rejected_call=at, calls=calls,
            what="%s: %s.%s of %r: %s at vlevel %s; %d programs, %d values of class %s" % (
                ",".join(clauses), fd["dt"], fd["name"], fd["line"], "; ".join(calls), sorted(g["levels"]), g["n"],
                len(g["values"]), key[2])))
    return progs


# --------------------------------------------------------------------------
# C18 (b'): the same programs on lines OBTAINED FROM A Gfa built at level k, through every
# creation path that constructs lines from text.  Every line of the documents carries the
# custom tag xx:i:1 (comments: their content; segments: also their sequence).

def _tagged(lines):
    return [ln if ln.startswith(("#", "H\t")) else ln + "\txx:i:1" for ln in lines]


_G1 = ["S\tA\tAC", "S\tB\tACGT", "L\tA\t+\tB\t-\t2M", "C\tB\t+\tA\t+\t1\t2M", "P\tp\tA+,B-\t2M", "# note"]
_G2 = ["S\ta\t4\tACGT", "S\tb\t6\t*", "E\te\ta+\tb-\t0\t2\t4\t6$\t2M", "G\tg\ta+\tb-\t10\t*",
       "F\ta\tx+\t0\t2\t0\t2\t*", "O\to\ta+ e+ b-", "U\tu\ta e g", "X\tcustom\t1", "# note"]


def _rot(lines, first):
    """The document with the first line of record type `first` moved to the front."""
    i = [k for k, ln in enumerate(lines) if ln.startswith(first)][0]
    return [lines[i]] + lines[:i] + lines[i + 1:]


GDOCS = {
    "g1.S-first": dict(version="gfa1", lines=_tagged(_G1)),
    "g1.queued-L-C-P-first": dict(version="gfa1", lines=_tagged(_G1[2:5] + ["# early"] + _G1[:2] + _G1[5:])),
    "g1.comment-first": dict(version="gfa1", lines=_tagged(["# first"] + _G1)),
    "g1.VN-header": dict(version="gfa1", lines=_tagged(["H\tVN:Z:1.0", "H\txx:i:1"] + _G1)),
    "g1.header-without-VN": dict(version="gfa1", lines=_tagged(["H\txx:i:1"] + _G1)),
    "g2.S-first": dict(version="gfa2", lines=_tagged(_G2)),
    "g2.VN-header": dict(version="gfa2", lines=_tagged(["H\tVN:Z:2.0", "H\txx:i:1"] + _G2)),
    "g2.custom-and-comment-first": dict(version="gfa2", lines=_tagged(["X\tearly\t1", "# first"] + _G2)),
}
for _rt in ("E", "F", "G", "O", "U"):
    GDOCS["g2.%s-first" % _rt] = dict(version="gfa2", lines=_tagged(_rot(_G2, _rt + "\t")))
GPATHS = ["add", "add+version", "text", "text+version", "list", "file", "file+version"]


def build_gfa(docname, path, lvl, wd=None):
    gfapy = _load_gfapy()
    doc = GDOCS[docname] if docname in GDOCS else HDOCS[docname]
    lines, ver = doc["lines"], doc["version"]
    if path == "add":
        g = gfapy.Gfa(vlevel=lvl)
        for ln in lines:
            g.add_line(ln)
        g.process_line_queue()
        return g
    if path == "add+version":
        g = gfapy.Gfa(vlevel=lvl, version=ver)
        for ln in lines:
            g.add_line(ln)
        return g
    if path == "text":
        return gfapy.Gfa("\n".join(lines) + "\n", vlevel=lvl)
    if path == "text+version":
        return gfapy.Gfa("\n".join(lines), vlevel=lvl, version=ver)
    if path == "list":
        return gfapy.Gfa(list(lines), vlevel=lvl)
    if path in ("file", "file+version"):
        fn = os.path.join(wd or tlc.WORK, "fields-gdoc-%s-%d.gfa" % (docname, os.getpid()))
        with open(fn, "w") as fh:
            fh.write("\n".join(lines) + "\n")
        try:
            if path == "file":
                return gfapy.Gfa.from_file(fn, vlevel=lvl)
            return gfapy.Gfa.from_file(fn, vlevel=lvl, version=ver)
        finally:
            os.unlink(fn)
    raise MachineryError("unknown creation path " + path)


def _gfield(key, name):
    fd = dict(field_by_key(key))
    fd["name"] = name
    return fd


def gfa_subjects(gfa, seqfield=False):
    """[(line object, field definition, label)]: every real line of the Gfa with the field the
    program acts on (one field per line object: a segment's tag xx, or its sequence if seqfield)."""
    subs = []
    for i, o in enumerate(gfa.lines):
        if o.virtual or o.record_type == "H":
            continue
        rt = o.record_type
        if rt == "#":
            subs.append((o, _gfield("comment:content", "content"), "%d:#.content" % i))
            continue
        if rt == "S" and seqfield:
            k = "sequence_gfa1:sequence" if o.version == "gfa1" else "sequence_gfa2:sequence"
            subs.append((o, _gfield(k, "sequence"), "%d:S.sequence" % i))
        else:
            subs.append((o, _gfield("i:xi", "xx"), "%d:%s.xx" % (i, rt)))
    if "xx" in gfa.header.tagnames:
        subs.append((gfa.header, _gfield("i:xi", "xx"), "header.xx"))
    return subs


def run_gfa_program(job):
    """job = (docname, path, lvl, codes, offset) -> [(case, info)], one per subject line.  The Gfa
    is built once; the subjects are distinct lines (or distinct fields), so the program is run on
    each of them in turn."""
    docname, path, lvl, codes, offset = job[:5]
    seqfield = bool(job[5]) if len(job) > 5 else False
    r, gfa, exc = guarded(lambda: build_gfa(docname, path, lvl), limit=60.0)
    if r != "ok":
        raise MachineryError("cannot build %s via %s at level %d: %s" % (docname, path, lvl, exc))
    out = []
    for line, fd, label in gfa_subjects(gfa, seqfield):
        linelvl = line.vlevel
        text0 = project.safe_str(line)
        evs, vals = _run_calls(line, fd, codes, offset, False, [])
        out.append(({"id": 0, "lvl": lvl, "f": fd["key"], "dt": fd["dt"], "conn": True, "linelvl": linelvl,
                     "origin": "text", "init": "valid", "ev": evs},
                    {"vals": vals, "doc": docname, "path": path, "subject": label, "codes": list(codes),
                     "offset": offset, "seqfield": seqfield, "text": text0}))
    return out


_GPROG_ALWAYS = [("set.wrongsyntax",), ("set.wrongsyntax", "str"), ("set.wrongsyntax", "write"),
                 ("set.wrongtype", "validate"), ("set.valid", "str")]


def check_gfa_programs(out, tier, seed, progs=None):
    """progs: the programs TLC enumerated (MC_Fields, mode enum); those of the tag field i:xi are
    the ones run here (xx, a comment's content and a sequence have the same value classes)."""
    rnd = random.Random(seed + 181)
    st = (0, 0)
    if progs is None:
        progs, st = enum_programs([field_by_key("i:xi")], 2 if tier == "quick" else 3, "fields-mc-genum")
    codes = sorted({p[2] for p in progs if p[1] == "i:xi"})
    short = [c for c in codes if len(c) <= 2]
    longer = [c for c in codes if len(c) == 3]
    jobs = []
    for docname in sorted(GDOCS):
        for path in GPATHS:
            for lvl in range(4):
                if tier == "quick":
                    chosen = list(_GPROG_ALWAYS) + rnd.sample(short, 2)
                else:
                    chosen = short + rnd.sample(longer, min(len(longer), 40))
                for k, c in enumerate(dict.fromkeys(chosen)):
                    jobs.append((docname, path, lvl, c, k % 2, (k // 2) % 2))
    res = _pmap(run_gfa_program, jobs)
    cases, infos = [], []
    for lst in res:
        for c, info in lst:
            c["id"] = len(cases)
            cases.append(c)
            infos.append(info)
    rejects, n = validate_cases("prog", cases, "fields-gprog")
    subjects = {(i["doc"], i["path"], i["subject"]) for i in infos}
    out.add_cov(states=st[1] + n, transitions=st[0] + n, traces_validated_against_impl=n,
                gfa_program_cases=n, gfa_builds=len(jobs), gfa_documents=len(GDOCS), gfa_creation_paths=len(GPATHS),
                gfa_subject_lines=len(subjects))
    groups = {}
    for cid, (clauses, at) in sorted(rejects.items()):
        c, i = cases[cid], infos[cid]
        rt = i["subject"].split(":")[-1]
        first = i["subject"].split(":")[0]
        call = c["ev"][at - 1]["k"] if at else "-"
        key = (",".join(clauses), rt, call, c["linelvl"] == c["lvl"])
        g = groups.setdefault(key, dict(n=0, levels=set(), where=set(), ex=None))
        g["n"] += 1
        g["levels"].add(c["lvl"])
        g["where"].add("%s/%s/%s" % (i["doc"], i["path"], i["subject"]))
        rank = (len(c["ev"]), i["doc"], i["path"], c["lvl"])
        if g["ex"] is None or rank < g["rank"]:
            g["ex"], g["rank"] = (c, i, at), rank
    for key, g in sorted(groups.items()):
        c, i, at = g["ex"]
        calls = ["%s%s -> %s%s" % (e["k"], ("(%s %s)" % (e["c"], json.dumps(v[0]))) if e["k"] == "set" else "",
                                  e["res"], (":" + v[1]) if v[1] else "") for e, v in zip(c["ev"], i["vals"])]
        out.violations.append(dict(
            family=FAM, kind="gprog", clauses=key[0].split(","),
            input="doc=%s path=%s subject=%s program=%s" % (i["doc"], i["path"], i["subject"], ",".join(i["codes"])),
            api="Gfa construction + Line.set/get/field_to_s/str/validate", levels=sorted(g["levels"]),
            occurrences=g["n"], where=sorted(g["where"])[:12],
            gprogram=dict(doc=i["doc"], path=i["path"], lvl=c["lvl"], codes=i["codes"], offset=i["offset"],
                          seqfield=i["seqfield"], subject=i["subject"]),
            what="%s: line %r obtained from Gfa(%s via %s, vlevel=%d) has line.vlevel=%d: %s; %d cases, e.g. %s" % (
                key[0], i["text"], i["doc"], i["path"], c["lvl"], c["linelvl"], "; ".join(calls), g["n"],
                sorted(g["where"])[:3])))
    if cases:
        k = len(cases) // 3
        out.samples.append({"gfa": [infos[k]["doc"], infos[k]["path"], cases[k]["lvl"]], "subject": infos[k]["subject"],
                            "line.vlevel": cases[k]["linelvl"], "program": infos[k]["codes"],
                            "observed": [[e["res"], e["mark"]] for e in cases[k]["ev"]]})
    return n


# --------------------------------------------------------------------------
# C18 (b+): programs whose assignments are Multiline.add() calls on the header of a Gfa, on tags
# that already have one value or several (Fields!Step, "add"), with and without the datatype argument.

HDOCS = {
    "h1.one-value": dict(version="gfa1", lines=["H\tVN:Z:1.0", "H\txx:i:1\tyy:Z:abc", "S\tA\t*"]),
    "h1.two-values": dict(version="gfa1", lines=["H\tVN:Z:1.0", "H\txx:i:1", "H\tyy:Z:abc", "H\txx:i:2", "H\tyy:Z:de",
                                                  "S\tA\t*"]),
    "h2.one-value": dict(version="gfa2", lines=["H\tVN:Z:2.0\txx:i:1", "H\tyy:Z:abc", "S\ta\t4\t*"]),
    "h1.no-value": dict(version="gfa1", lines=["H\tVN:Z:1.0", "S\tA\t*"]),
}
HADD_FIELDS = [("i:xi", "xx"), ("Z:xz", "yy")]


def run_header_add_program(job):
    """job = (docname, creation path, lvl, codes, offset, "add" | "add+dt") -> [(case, info)], one per header tag."""
    docname, path, lvl, codes, offset, assign = job
    out = []
    for key, name in HADD_FIELDS:
        r, gfa, exc = guarded(lambda: build_gfa(docname, path, lvl), limit=60.0)
        if r != "ok":
            raise MachineryError("cannot build %s via %s at level %d: %s" % (docname, path, lvl, exc))
        line = gfa.header
        fd = _gfield(key, name)
        has = name in line.tagnames
        if not has:
            if assign == "add":
                continue      # (a first add() without datatype makes a NEW tag: its datatype is the value's default)
            fd["kind"] = "newtag"
        text0 = project.safe_str(line)
        evs, vals = _run_calls(line, fd, codes, offset, False, [], assign=assign)
        out.append(({"id": 0, "lvl": lvl, "f": fd["key"], "dt": fd["dt"], "conn": True, "linelvl": line.vlevel,
                     "origin": "text", "init": "valid" if has else "absent", "ev": evs},
                    {"vals": vals, "doc": docname, "path": path, "subject": "header." + name, "codes": list(codes),
                     "offset": offset, "assign": assign, "text": text0}))
    return out


def check_header_add_programs(out, tier, seed, progs=None):
    rnd = random.Random(seed + 1833)
    if progs is None:
        progs, _ = enum_programs([field_by_key("i:xi")], 2 if tier == "quick" else 3, "fields-mc-henum")
    # (the two tags have the same value classes but "outofrange": programs over valid / wrongtype / wrongsyntax)
    codes = sorted({p[2] for p in progs if p[1] == "i:xi"})
    short = [c for c in codes if len(c) <= 2]
    longer = [c for c in codes if len(c) == 3]
    jobs = []
    for docname in sorted(HDOCS):
        for path in (("add", "text", "file") if tier == "quick" else GPATHS):
            for lvl in range(4):
                if tier == "quick":
                    chosen = list(_GPROG_ALWAYS) + [("set.valid", "set.wrongsyntax"), ("set.wrongtype",),
                                                    ("set.valid", "validate")] + rnd.sample(short, 2)
                else:
                    chosen = short + rnd.sample(longer, min(len(longer), 60))
                for k, c in enumerate(dict.fromkeys(chosen)):
                    for assign in ("add", "add+dt"):
                        jobs.append((docname, path, lvl, c, k, assign))
    res = _pmap(run_header_add_program, jobs)
    cases, infos = [], []
    for lst in res:
        for c, info in lst:
            c["id"] = len(cases)
            cases.append(c)
            infos.append(info)
    rejects, n = validate_cases("prog", cases, "fields-hadd")
    out.add_cov(states=n, transitions=n, traces_validated_against_impl=n, header_add_program_cases=n,
                header_add_documents=len(HDOCS))
    groups = {}
    for cid, (clauses, at) in sorted(rejects.items()):
        c, i = cases[cid], infos[cid]
        call = c["ev"][at - 1]["k"] if at else "-"
        cls = c["ev"][at - 1]["c"] if at else "-"
        key = (",".join(clauses), i["assign"], call)
        g = groups.setdefault(key, dict(n=0, levels=set(), where=set(), ex=None))
        g["n"] += 1
        g["levels"].add(c["lvl"])
        g["where"].add("%s/%s" % (i["doc"], i["path"]))
        rank = (len(c["ev"]), i["doc"], i["path"], c["lvl"])
        if g["ex"] is None or rank < g["rank"]:
            g["ex"], g["rank"] = (c, i, at), rank
    for key, g in sorted(groups.items()):
        c, i, at = g["ex"]
        how = "header.add(tag, value)" if i["assign"] == "add" else "header.add(tag, value, datatype)"
        calls = ["%s%s -> %s%s" % (e["k"], ("(%s %s)" % (e["c"], json.dumps(v[0]))) if e["k"] == "add" else "",
                                  e["res"], (":" + v[1]) if v[1] else "") for e, v in zip(c["ev"], i["vals"])]
        out.violations.append(dict(
            family=FAM, kind="hadd", clauses=key[0].split(","),
            input="doc=%s path=%s %s program=%s via %s" % (i["doc"], i["path"], i["subject"], ",".join(i["codes"]), how),
            api="Gfa construction + %s + get/field_to_s/str/validate" % how, levels=sorted(g["levels"]),
            occurrences=g["n"], where=sorted(g["where"])[:12],
            hprogram=dict(doc=i["doc"], path=i["path"], lvl=c["lvl"], codes=i["codes"], offset=i["offset"],
                          assign=i["assign"], subject=i["subject"]),
            what="%s: header %r of Gfa(%s via %s, vlevel=%d), %s on %s: %s; %d cases at levels %s" % (
                key[0], i["text"], i["doc"], i["path"], c["lvl"], how, i["subject"], "; ".join(calls), g["n"],
                sorted(g["levels"]))))
    if cases:
        k = len(cases) // 2
        out.samples.append({"header of": [infos[k]["doc"], infos[k]["path"], cases[k]["lvl"]], "tag": infos[k]["subject"],
                            "assign": infos[k]["assign"], "program": infos[k]["codes"],
                            "observed": [[e["k"], e["res"], e["kept"]] for e in cases[k]["ev"]]})
    return n


# --------------------------------------------------------------------------
# C18 (b''): the same programs on DERIVED lines (Fields.tla PART 5 a'): lines the library makes
# from the lines of a Gfa built at level k -- merge_linear_paths, multiply, to_gfa1 / to_gfa2 of
# the Gfa and of a line, clone, complement, the split header, a renamed segment, a line that
# was disconnected and added again.

_D1 = ["H\tVN:Z:1.0", "H\txx:i:1", "S\ta\t*\tLN:i:10", "S\tb\t*\tLN:i:20", "S\tc\t*\tLN:i:30",
       "L\ta\t+\tb\t+\t4M", "L\tb\t+\tc\t+\t2M", "S\td\tACGT", "S\te\tGGTT", "L\td\t+\te\t-\t2M",
       "S\tf\tACGT", "S\tg\tAC", "S\th\tTTTT", "L\tf\t+\tg\t+\t1M", "L\tf\t+\th\t+\t1M",
       "C\tf\t+\tg\t+\t1\t2M", "P\tp\tf+,g+\t1M", "# note"]
_D1S = ["S\ta\t*", "S\tb\t*", "S\tc\tAC", "L\ta\t+\tb\t+\t*", "L\tb\t-\tc\t+\t*", "S\td\t*\tLN:i:4",
        "S\te\tGGTT\tLN:i:4", "L\td\t-\te\t-\t1M"]
_D2 = ["H\tVN:Z:2.0", "H\txx:i:1", "S\ta\t10\t*", "S\tb\t20\t*", "S\tc\t30\t*",
       "E\te1\ta+\tb+\t6\t10$\t0\t4\t4M", "E\te2\tb+\tc+\t18\t20$\t0\t2\t2M", "S\td\t4\tACGT", "S\te\t4\tGGTT",
       "E\te3\td+\te-\t2\t4$\t2\t4$\t2M", "S\tf\t4\tACGT", "S\tg\t2\tAC", "S\th\t4\tTTTT",
       "E\te4\tf+\tg+\t3\t4$\t0\t1\t1M", "E\te5\tf+\th+\t3\t4$\t0\t1\t1M", "G\tg1\td+\tf-\t10\t*",
       "F\ta\tx+\t0\t2\t0\t2\t*", "O\to\tf+ e4+ g+", "U\tu\ta e1 g1", "X\tcustom\t1", "# note"]
DDOCS = {
    "d1": dict(version="gfa1", lines=_tagged(_D1), mult=[("f", 2), ("a", 3)], rename=("a", "zz")),
    "d1.no-sequences": dict(version="gfa1", lines=_tagged(_D1S), mult=[("c", 2)], rename=("b", "zz")),
    "d2": dict(version="gfa2", lines=_tagged(_D2), mult=[("f", 2), ("a", 3)], rename=("a", "zz")),
}
DERIVATIONS = ["merge", "merge.tracking", "multiply", "convert-gfa", "convert-line", "clone", "complement",
               "split-header", "rename", "readd"]


def _real(lines):
    return [o for o in lines if o is not None and not getattr(o, "virtual", False)]


def derive(gfa, docname, op):
    """Apply the derivation -> (origin kind of Fields!DeriveKinds, resulting Gfa or None, derived lines,
    Gfa whose text / graph is the outcome)."""
    doc = DDOCS[docname]
    v1 = doc["version"] == "gfa1"
    if op == "merge":
        gfa.merge_linear_paths()
        return "merge", None, _real(gfa.lines), gfa
    if op == "merge.tracking":
        gfa.merge_linear_paths(enable_tracking=True, merged_name="short")
        return "merge", None, _real(gfa.lines), gfa
    if op == "multiply":
        for name, n in doc["mult"]:
            gfa.multiply(name, n)
        return "multiply", None, _real(gfa.lines), gfa
    if op == "convert-gfa":
        g2 = gfa.to_gfa2() if v1 else gfa.to_gfa1()
        return "convert-gfa", g2, _real(g2.lines), g2
    if op == "convert-line":
        res = []
        for o in _real(gfa.lines):
            # (a line that has no counterpart in the other version is refused or gives nothing)
            r, x, _ = guarded(lambda: o.to_gfa2() if v1 else o.to_gfa1())
            if r == "ok" and x is not None and x is not o:
                res.append(x)
        return "convert-line", None, res, gfa
    if op == "clone":
        return "clone", None, [o.clone() for o in _real(gfa.lines)], gfa
    if op == "complement":
        return "complement", None, [o.complement() for o in _real(gfa.lines) if o.record_type == "L"], gfa
    if op == "split-header":
        return "split-header", None, list(gfa.headers), gfa
    if op == "rename":
        old, new = doc["rename"]
        gfa.segment(old).name = new
        return "rename", None, _real(gfa.lines), gfa
    if op == "readd":
        o = [x for x in _real(gfa.lines) if x.record_type in ("L", "E")][0]
        o.disconnect()
        gfa.add_line(o)
        return "readd", None, [o], gfa
    raise MachineryError("unknown derivation " + op)


def _derived_field(o, i, seqfield):
    """The field the program acts on: the custom tag xx the documents put on every line (a new
    tag xx when the derivation did not carry it over), a comment's content, a sequence."""
    rt = o.record_type
    if rt == "#":
        return _gfield("comment:content", "content"), "%d:#.content" % i, "valid"
    # (not the sequence of a GFA1 segment with an LN tag: a sequence that is valid on its own but of
    # another length is an inconsistent LINE, reported by validate())
    if rt == "S" and seqfield and not (o.version == "gfa1" and "LN" in o.tagnames):
        k = "sequence_gfa1:sequence" if o.version == "gfa1" else "sequence_gfa2:sequence"
        return _gfield(k, "sequence"), "%d:S.sequence" % i, "valid"
    if "xx" in o.tagnames:
        return _gfield("i:xi", "xx"), "%d:%s.xx" % (i, rt), "valid"
    return _gfield("Z:nz", "xx"), "%d:%s.xx(new)" % (i, rt), "absent"


def run_derived_program(job):
    """job = (docname, derivation, lvl, codes, offset, seqfield) -> [(case, info)], one per derived line
    (plus one record without calls for a derived Gfa: its level)."""
    docname, op, lvl, codes, offset, seqfield = job
    gfapy = _load_gfapy()
    doc = DDOCS[docname]
    r, gfa, exc = guarded(lambda: gfapy.Gfa(list(doc["lines"]), vlevel=lvl), limit=60.0)
    if r != "ok":
        raise MachineryError("cannot build %s at level %d: %s" % (docname, lvl, exc))
    r, got, exc = guarded(lambda: derive(gfa, docname, op), limit=60.0)
    if r != "ok":
        return []          # the operation was refused: judged by the level comparison (kind "lvl")
    origin, g2, lines, _ = got
    out = []
    if g2 is not None:
        out.append(({"id": 0, "lvl": lvl, "f": "i:xi", "dt": "i", "conn": True, "linelvl": g2.vlevel, "origin": origin,
                     "init": "valid", "ev": []},
                    {"vals": [], "doc": docname, "op": op, "subject": "the derived Gfa", "codes": [], "offset": offset,
                     "seqfield": seqfield, "text": "(Gfa)"}))
    for i, o in enumerate(lines):
        if o.record_type == "H" and op != "split-header":
            continue
        if o.record_type == "H" and "xx" not in o.tagnames:
            continue
        fd, label, init = _derived_field(o, i, seqfield)
        cs = codes
        if init == "absent":
            cs = tuple(c for c in codes if not c.startswith("set.") or c[4:] in fd["classes"])
            if not any(c.startswith("set.") for c in cs):
                cs = ()
        linelvl = o.vlevel
        text0 = project.safe_str(o)
        evs, vals = _run_calls(o, fd, cs, offset, False, [])
        out.append(({"id": 0, "lvl": lvl, "f": fd["key"], "dt": fd["dt"], "conn": bool(o.is_connected()),
                     "linelvl": linelvl, "origin": origin, "init": init, "ev": evs},
                    {"vals": vals, "doc": docname, "op": op, "subject": label, "codes": list(cs), "offset": offset,
                     "seqfield": seqfield, "text": text0}))
    return out


def check_derived_programs(out, tier, seed, progs=None):
    rnd = random.Random(seed + 1818)
    if progs is None:
        progs, _ = enum_programs([field_by_key("i:xi")], 2 if tier == "quick" else 3, "fields-mc-denum")
    codes = sorted({p[2] for p in progs if p[1] == "i:xi"})
    short = [c for c in codes if len(c) <= 2]
    longer = [c for c in codes if len(c) == 3]
    jobs = []
    for docname in sorted(DDOCS):
        for op in DERIVATIONS:
            for lvl in range(4):
                if tier == "quick":
                    chosen = list(_GPROG_ALWAYS) + rnd.sample(short, 1)
                else:
                    chosen = short + rnd.sample(longer, min(len(longer), 40))
                for k, c in enumerate(dict.fromkeys(chosen)):
                    jobs.append((docname, op, lvl, c, k % 2, bool((k // 2) % 2)))
    res = _pmap(run_derived_program, jobs)
    cases, infos = [], []
    for lst in res:
        for c, info in lst:
            c["id"] = len(cases)
            cases.append(c)
            infos.append(info)
    rejects, n = validate_cases("prog", cases, "fields-dprog")
    out.add_cov(states=n, transitions=n, traces_validated_against_impl=n, derived_line_program_cases=n,
                derivations=len(DERIVATIONS), derivation_documents=len(DDOCS),
                derived_subject_lines=len({(i["doc"], i["op"], i["subject"]) for i in infos}),
                derivations_that_ran=len({(i["doc"], i["op"], c["lvl"]) for c, i in zip(cases, infos)}))
    groups = {}
    for cid, (clauses, at) in sorted(rejects.items()):
        c, i = cases[cid], infos[cid]
        rt = i["subject"].split(":")[-1]
        call = c["ev"][at - 1]["k"] if at else "-"
        key = (",".join(clauses), i["op"], rt, call, c["linelvl"] == c["lvl"])
        g = groups.setdefault(key, dict(n=0, levels=set(), where=set(), ex=None))
        g["n"] += 1
        g["levels"].add(c["lvl"])
        g["where"].add("%s/%s/%s" % (i["doc"], i["op"], i["subject"]))
        rank = (len(c["ev"]), i["doc"], c["lvl"])
        if g["ex"] is None or rank < g["rank"]:
            g["ex"], g["rank"] = (c, i, at), rank
    for key, g in sorted(groups.items()):
        c, i, at = g["ex"]
        calls = ["%s%s -> %s%s" % (e["k"], ("(%s %s)" % (e["c"], json.dumps(v[0]))) if e["k"] == "set" else "",
                                  e["res"], (":" + v[1]) if v[1] else "") for e, v in zip(c["ev"], i["vals"])]
        out.violations.append(dict(
            family=FAM, kind="dprog", clauses=key[0].split(","),
            input="doc=%s derivation=%s subject=%s program=%s" % (i["doc"], i["op"], i["subject"], ",".join(i["codes"])),
            api="Gfa + %s + Line.set/get/field_to_s/str/validate" % i["op"], levels=sorted(g["levels"]),
            occurrences=g["n"], where=sorted(g["where"])[:12],
            dprogram=dict(doc=i["doc"], op=i["op"], lvl=c["lvl"], codes=i["codes"], offset=i["offset"],
                          seqfield=i["seqfield"], subject=i["subject"]),
            what="%s: %r, made by %s from %s built at vlevel %d, has vlevel %d: %s; %d cases, e.g. %s" % (
                key[0], i["text"], i["op"], i["doc"], c["lvl"], c["linelvl"], "; ".join(calls), g["n"],
                sorted(g["where"])[:3])))
    if cases:
        k = len(cases) // 2
        out.samples.append({"derived": [infos[k]["doc"], infos[k]["op"], cases[k]["lvl"]], "subject": infos[k]["subject"],
                            "line.vlevel": cases[k]["linelvl"], "program": infos[k]["codes"],
                            "observed": [[e["res"], e["mark"]] for e in cases[k]["ev"]]})
    return n


# --------------------------------------------------------------------------
# C18 (a): the same document at levels 0..3

EXTRA_DOCS = [
    ["H\txx:i:1", "H\txx:i:2"],
    ["H\txx:i:1", "H\txx:i:2", "H\txx:i:3"],
    ["H\tVN:Z:1.0", "H\txx:Z:a", "H\txx:Z:b", "S\tA\t*"],
    ["H\tVN:Z:2.0", "H\tTS:i:10", "H\tTS:i:10"],
    ['S\tA\t*\txi:i:1\txf:f:0.5\txz:Z:a b\txa:A:c\txj:J:{"a": [1, 2]}\txh:H:0AFF\txb:B:c,1,-1',
     'S\tB\t*\txb:B:f,1.5,2.0\txj:J:["x", null]', "L\tA\t+\tB\t-\t2M\txb:B:S,1,300"],
    ["S\tA\tACGT\tLN:i:4", "S\tB\t*\tLN:i:6", "L\tA\t+\tB\t-\t2M", "P\tp\tA+,B-\t2M"],
    ["S\ta\t4\tACGT", "S\tb\t6\t*", "E\te1\ta+\tb-\t0\t2\t4\t6$\t1,2\tTS:i:2", "F\ta\tx+\t0\t2\t0\t2\t*",
     "G\tg1\ta+\tb-\t10\t*", "U\tu1\ta b", "U\tu1\te1\txx:i:1", "O\to1\ta+ e1+ b-", "X\tcustom\t1\txx:Z:a",
     "# a comment"],
    ["L\tA\t+\tB\t-\t2M", "P\tp\tA+,B-\t2M"],
    ["U\tu1\ta e1 g1", "O\to2\to1- c+"],
]


def _split_written(text):
    out = []
    for ln in text.split("\n"):
        if ln == "":
            continue
        f = ln.split("\t")
        n = len(f)
        while n > 1 and project.TAG_RE.match(f[n - 1]):
            n -= 1
        out.append({"pos": f[:n], "tags": f[n:]})
    return out


LVL_OPS = ["merge", "merge.tracking", "multiply", "convert-gfa", "rename", "readd"]


def run_doc(job):
    """job = (id, document lines[, name of a DDOCS document, derivation applied after the load])."""
    cid, doc = job[:2]
    docname, op = (job[2], job[3]) if len(job) > 2 else (None, None)
    gfapy = _load_gfapy()
    rs = []
    for lvl in range(4):
        r, gfa, exc = guarded(lambda: gfapy.Gfa(vlevel=lvl))
        nadded = 0
        if r == "ok":
            for ln in doc:
                r, _, exc = guarded(lambda: gfa.add_line(ln))
                if r != "ok":
                    break
                nadded += 1
        lines, dig, opres = [], "-", "-"
        if r == "ok":
            target = gfa
            if op is not None:
                opres, got, exc = guarded(lambda: derive(gfa, docname, op), limit=60.0)
                target = got[3] if opres == "ok" else None
            if target is not None:
                r, text, exc = guarded(lambda: str(target))
                if r == "ok":
                    lines = _split_written(text)
                    r2, obs, exc2 = guarded(lambda: project.observe(target, project.Pool(), ()), limit=60.0)
                    dig = obs.get("dig", "!" + obs.get("broken", "?")) if r2 == "ok" else "!" + exc2
        rs.append({"res": r, "op": opres, "lines": lines, "dig": dig, "exc": exc, "nadded": nadded})
    return {"id": cid, "r": [{k: v for k, v in x.items() if k in ("res", "op", "lines", "dig")} for x in rs]}, \
           [[x["res"], x["exc"], x["nadded"]] + ([x["op"]] if op is not None else []) for x in rs]


def level_docs(tier, seed):
    rnd = random.Random(seed + 18)
    docs = [list(d) for d in EXTRA_DOCS]
    for name, cat in sorted(CATALOGUES.items()):
        lines = [text_of(x) for x in cat["lines"]]
        docs += [[x] for x in lines]
        segs = [x for x in lines if x.startswith("S\t")]
        for x in lines:
            if not x.startswith("S\t"):
                docs.append(segs + [x])
        n = 120 if tier == "quick" else 2500
        for _ in range(n):
            k = rnd.randint(2, min(len(lines), 10))
            docs.append(rnd.sample(lines, k))
    seen, res = set(), []
    for d in docs:
        t = tuple(d)
        if t not in seen:
            seen.add(t)
            res.append(d)
    return res


def check_levels(out, tier, seed):
    docs = level_docs(tier, seed)
    jobs = list(enumerate(docs))
    # a library operation after the load (Fields.tla PART 5 a'): the documents of the derived-line programs
    opjobs = []
    for docname in sorted(DDOCS):
        for op in LVL_OPS:
            opjobs.append((len(jobs) + len(opjobs), DDOCS[docname]["lines"], docname, op))
    res = _pmap(run_doc, jobs + opjobs)
    docs = docs + [j[1] for j in opjobs]
    ops = [None] * len(jobs) + [(j[2], j[3]) for j in opjobs]
    cases = [r[0] for r in res]
    rejects, n = validate_cases("lvl", cases, "fields-lvl")
    nontriv = sum(1 for c, info in res if c["r"][3]["res"] == "ok" and len(docs[c["id"]]) >= 2)
    out.add_cov(traces_validated_against_impl=n, level_documents=len(jobs), level_documents_accepted_at_3=nontriv,
                level_documents_with_operation=len(opjobs),
                operations_done_at_every_level=sum(1 for c, _ in res[len(jobs):] if all(x["op"] == "ok" for x in c["r"])))
    for cid, (clauses, _) in sorted(rejects.items()):
        c, info = res[cid]
        v = dict(
            family=FAM, kind="lvl", clauses=list(clauses), input="\n".join(docs[cid]), api="Gfa.add_line x vlevel 0..3",
            doc=docs[cid], per_level=info,
            what="%s: %r -> %s" % (",".join(clauses), docs[cid], info))
        if ops[cid]:
            v.update(api="Gfa.add_line + %s x vlevel 0..3" % ops[cid][1], opdoc=ops[cid][0], op=ops[cid][1],
                     input="document %s then %s" % ops[cid],
                     what="%s: document %s, then %s: per level [load, exception, lines added, operation] = %s" % (
                         ",".join(clauses), ops[cid][0], ops[cid][1], info))
        out.violations.append(v)
    if docs:
        c, info = res[len(EXTRA_DOCS) - 4]
        out.samples.append({"document": docs[c["id"]], "per_level": info})
    return n


def check_table():
    """The string representatives of FIELDS / LAX against the grammar of Lex.tla: a wrong
    table is a machinery failure, not a finding."""
    cases = []
    for f in FIELDS:
        dt = "length_gfa2" if (f["dt"] == "i" and f["kind"] == "pos") else f["dt"]
        for cls, reps in f["classes"].items():
            for r in reps + (LAX.get(f["key"], []) if cls == "wrongsyntax" else []):
                if r["py"] == "str":
                    cases.append({"id": len(cases), "dt": dt, "cls": cls, "chars": list(r["a"]), "key": f["key"]})
    rej, n = validate_cases("table", cases, "fields-table")
    if rej:
        raise MachineryError("value-class table disagrees with Lex.tla: " + "; ".join(
            "%s %s %r: %s" % (cases[i]["key"], cases[i]["cls"], "".join(cases[i]["chars"]), rej[i][0])
            for i in sorted(rej)))
    return n


def check_c18(out, tier, seed):
    out.add_cov(table_strings_checked_against_lex=check_table())
    progs = check_programs(out, tier, seed)
    check_gfa_programs(out, tier, seed, progs)
    check_header_add_programs(out, tier, seed, progs)
    check_derived_programs(out, tier, seed, progs)
    check_levels(out, tier, seed)
    out.assumptions += [
        "TLC and the TLA+ semantics of spec/Fields.tla, MC_Fields.tla, TraceFields.tla",
        "the value-class table FIELDS of harness/fam_fields.py (which concrete values are valid / wrong type / "
        "wrong syntax / out of range for each field datatype) is my reading of the GFA specifications",
        "value-object identity (`is`) is used to observe whether an assignment replaced the stored value",
        "programs are bounded in length; documents are drawn from the catalogues of harness/core.py plus EXTRA_DOCS; "
        "'valid input' for the level comparison = accepted at level 3; values are spelled canonically "
        "(lazily parsed J/B/f values are written verbatim at level 0)",
        "lines obtained from a Gfa: documents GDOCS x creation paths GPATHS of harness/fam_fields.py; the level "
        "a constructed line must work at is the level of its Gfa (validation.rst)",
        "derived lines: documents DDOCS x operations DERIVATIONS of harness/fam_fields.py (merge_linear_paths, multiply, "
        "to_gfa1/to_gfa2 of Gfa and line, clone, complement, split header, rename, disconnect + add); a derived line "
        "works at the level of the Gfa / line it was made from, and on a valid document the outcome of an operation "
        "does not depend on the level",
        "level 0: a Get (or the marked str) may replace an invalid encoded value by its decoded object "
        "(doc/tutorial/validation.rst: no validation at level 0)",
    ]


# --------------------------------------------------------------------------
# C19: clone

DT_LINES1 = ['S\tA\t*\txi:i:7\txf:f:1.5\txz:Z:a str\txa:A:c\txj:J:{"a": [1, {"b": "c"}], "d": {"e": [2]}}'
             '\txh:H:0AFF\txb:B:c,1,-1\txg:B:f,1.5,2.5',
             "S\tB\tACGT\tLN:i:4", "L\tA\t+\tB\t-\t2M1D\tID:Z:l9", "C\tA\t+\tB\t-\t1\t2M",
             "P\tpx\tA+,B-\t2M1D", "P\tpy\tA+,B-,A+\t2M1D,*\txj:J:[1, [2, 3]]", "# a comment"]
DT_LINES2 = ['S\ta\t4\tACGT\txj:J:[{"k": [1, 2]}, "s"]\txb:B:S,1,300', "S\tb\t6\t*",
             "E\te1\ta+\tb-\t0\t2\t4\t6$\t1,2\tTS:i:2", "E\te2\ta+\tb-\t0\t2\t4\t6$\t2M\txh:H:01",
             "F\ta\tx+\t0\t2\t0\t2$\t1M", "G\tg1\ta+\tb-\t10\t3", "U\tu1\ta e1 g1", "O\to1\ta+ e1+ b-",
             "X\tcustom\t1\txx:Z:a", "Y\tf1\tf2\txj:J:{\"q\": [1]}", "# gfa2 comment"]
# custom records with 0, 1, 9, 10, 12 positional fields (the names field1.. are made by the library)
CUSTOM_RECORDS = ["X\txx:i:1", "Y\tonly", "V\t" + "\t".join("c%d" % i for i in range(1, 10)) + "\txx:Z:nine",
                  "W\t" + "\t".join("c%d" % i for i in range(1, 11)), "Q\t" + "\t".join("c%d" % i for i in range(1, 13)) + "\txj:J:[1]"]
HDR_DOC = ["H\tVN:Z:1.0", "H\txx:i:1", "H\txx:i:2", 'H\txj:J:[1, 2]', 'H\txj:J:{"a": [3]}', "H\txz:Z:one",
           "S\tA\t*"]
HDR_DOC2 = ["H\tVN:Z:1.0", "H\txx:i:1", "H\txx:i:2", "H\txz:Z:one", "H\txz:Z:two", "S\tA\t*"]
PLACEHOLDER_DOCS = [["L\tA\t+\tB\t-\t2M", "P\tp\tA+,B-\t2M"], ["U\tu1\ta e1 g1", "O\to2\to1- c+"],
                    ["E\te1\ta+\tb-\t0\t2\t4\t6$\t*", "G\tg1\ta+\tc-\t10\t*"], ["P\tq\tA+,B-,C+\t*"]]


def _greedy_doc(lines):
    """The lines that can be added one after the other without error (in the given order)."""
    gfapy = _load_gfapy()
    gfa = gfapy.Gfa(vlevel=1)
    kept = []
    for ln in lines:
        r, _, _ = guarded(lambda: gfa.add_line(ln))
        if r == "ok":
            kept.append(ln)
        else:
            # a refused line may leave the Gfa half modified: rebuild from the accepted ones
            gfa = gfapy.Gfa(vlevel=1)
            for k in kept:
                gfa.add_line(k)
    return kept


def clone_subjects(tier):
    """Subject descriptors: dict(mode="conn", doc, idx) -- line number idx of gfa.lines (or
    "header") of the Gfa built from doc -- or dict(mode="line", text, version)."""
    gfapy = _load_gfapy()
    subs = []
    docs = []
    for name, cat in sorted(CATALOGUES.items()):
        lines = [text_of(x) for x in cat["lines"]]
        docs.append(_greedy_doc(lines))
        if tier != "quick" or name in ("gfa1", "gfa2"):
            docs.append(_greedy_doc(list(reversed(lines))))
        for ln in lines:
            subs.append(dict(mode="line", text=ln,
                             version=cat["version"] if cat["version"] in ("gfa1", "gfa2") else None))
    docs += [DT_LINES1, DT_LINES2 + CUSTOM_RECORDS, HDR_DOC, HDR_DOC2] + PLACEHOLDER_DOCS
    for ln in DT_LINES1:
        subs.append(dict(mode="line", text=ln, version="gfa1"))
    for ln in DT_LINES2 + CUSTOM_RECORDS:
        subs.append(dict(mode="line", text=ln, version="gfa2"))
    for ln in HDR_DOC[:-1]:
        subs.append(dict(mode="line", text=ln, version=None))
    for vl in ((1,) if tier == "quick" else (1, 0, 3)):
        for doc in docs:
            def build():
                gfa = gfapy.Gfa(vlevel=vl)
                for ln in doc:
                    gfa.add_line(ln)
                return gfa
            r, gfa, _ = guarded(build)
            if r != "ok":
                continue            # (e.g. the repeated header tag at vlevel 3: reported by C18)
            for i, o in enumerate(gfa.lines):
                if o.record_type != "H":
                    subs.append(dict(mode="conn", doc=doc, idx=i, vlevel=vl))
            if any(ln.startswith("H\t") for ln in doc):
                subs.append(dict(mode="conn", doc=doc, idx="header", vlevel=vl))
    return subs


# J values that are not what their JSON text parses to (clone() copies J values through JSON)
PY = lambda a: {"py": "pylit", "a": a}
NONROUNDTRIP_J = [PY("{1: 'one', 2: [1, 2]}"), PY("[(1, 2), {3: None}]"), PY("{True: 1}"),
                  PY("{1.5: 'x'}"), PY("{'a': {1: {2: (3,)}}}")]
APISET_LINES = [("S\tA\t*\tLN:i:10", "gfa1"), ("E\te1\ta+\tb-\t0\t2\t4\t6$\t2M", "gfa2"), ("H\tVN:Z:1.0", None),
                ("X\tcustom\t1", "gfa2")]
# further tags whose declared datatype is not the default datatype of their value
DT_DECLARED = 'S\tD\t*\txk:J:[1, 2, 3]\txl:J:[0.5, 1.5]\txc:A:c\txe:H:1A2B\txm:Z:12\txn:f:3'


# tag texts that are valid but NOT in the spelling gfapy writes (compact JSON, signs, leading zeros,
# exponents, a B array with a wider subtype than needed or integers in a float array): a field that
# is still held as the text of the file must be copied as it is
NONCANON_TAGS = 'xj:J:{"a":1,"b":[1,2]}\txk:J:[1,2,3]\txl:J:[ {"k" : null} ]\txi:i:+5\txn:i:007\txf:f:1e3\txg:f:.5' \
                '\txb:B:i,1,2\txc:B:f,1,2\txd:B:S,+1\txz:Z:a  b'
NONCANON_LINES = [("S\tN\t*\t" + NONCANON_TAGS, "gfa1"), ("L\tN\t+\tM\t-\t2M\t" + NONCANON_TAGS, "gfa1"),
                  ("S\tn\t4\tacgt\t" + NONCANON_TAGS, "gfa2"), ("E\te9\tn+\tm-\t0\t2\t2\t4$\t2M\t" + NONCANON_TAGS, "gfa2"),
                  ("Y\tf1\t" + NONCANON_TAGS, "gfa2"), ("U\tu9\tn m\t" + NONCANON_TAGS, "gfa2")]
NONCANON_SETS = [("xj", "J", S('{"a":1,"b":[1,2]}')), ("xk", "J", S("[1,2,3]")), ("xi", "i", S("+5")), ("xn", "i", S("007")),
                 ("xf", "f", S("1e3")), ("xg", "f", S(".5")), ("xb", "B", S("i,1,2")), ("xc", "B", S("f,1,2")),
                 ("xh", "H", S("0AFF"))]


def noncanonical_variants(tier):
    """Clone subjects whose tags are spelled validly but not canonically, built at every level
    (at level 0, and for the lazily parsed datatypes, the text is kept until first read) or
    assigned as encoded strings; they are cloned BEFORE any read and compared at cloning time only
    (a later read re-spells the copy that is read: the canonical-spelling assumption of C18)."""
    subs = []
    for vl in ((0, 1) if tier == "quick" else (0, 1, 2, 3)):
        for text, ver in NONCANON_LINES:
            subs.append(dict(mode="line", text=text, version=ver, vlevel=vl, prep=None, noread=True))
        for ver, doc in (("gfa1", [NONCANON_LINES[0][0], "S\tM\t*", NONCANON_LINES[1][0]]),
                         ("gfa2", [NONCANON_LINES[2][0], "S\tm\t4\t*", NONCANON_LINES[3][0], NONCANON_LINES[4][0],
                                   NONCANON_LINES[5][0]])):
            for i in range(len(doc)):
                subs.append(dict(mode="conn", doc=doc, idx=i, vlevel=vl, prep=None, noread=True))
    for vl in ((1, 3) if tier == "quick" else (0, 1, 2, 3)):
        for text, ver in APISET_LINES:
            subs.append(dict(mode="line", text=text, version=ver, vlevel=vl, prep="apiset", sets=NONCANON_SETS, noread=True))
            if text.startswith("S\t"):
                subs.append(dict(mode="conn", doc=[text, "S\tB\t*", "L\tA\t+\tB\t-\t*"], idx=0, vlevel=vl, prep="apiset",
                                 sets=NONCANON_SETS, noread=True))
    return subs


def clone_variants(tier):
    """Further clone subjects, for the clone / read-program cases only: lines built at vlevel 0
    (fields stay encoded until first read), at vlevel 3, lines whose fields were assigned their
    own encoded form (strings), J tags set through the API to values that are not their own JSON
    round trip, tags with a declared non-default datatype."""
    gfapy = _load_gfapy()
    subs = []
    docs = [DT_LINES1 + [DT_DECLARED], DT_LINES2, HDR_DOC, HDR_DOC2] + PLACEHOLDER_DOCS
    for name, cat in sorted(CATALOGUES.items()):
        if tier != "quick" or name in ("gfa1", "gfa2", "gfa1s", "gfa2s"):
            docs.append(_greedy_doc([text_of(x) for x in cat["lines"]]))
    lines = [(ln, "gfa1") for ln in DT_LINES1 + [DT_DECLARED]] + [(ln, "gfa2") for ln in DT_LINES2] + \
            [(ln, None) for ln in HDR_DOC[:-1]]
    plan = [(0, None), (1, "strassign"), (0, "strassign")] if tier == "quick" else \
           [(0, None), (3, None), (0, "strassign"), (1, "strassign"), (2, "strassign"), (3, "strassign")]
    for vl, prep in plan:
        for ln, ver in lines:
            subs.append(dict(mode="line", text=ln, version=ver, vlevel=vl, prep=prep))
        for doc in docs:
            def build():
                gfa = gfapy.Gfa(vlevel=vl)
                for ln in doc:
                    gfa.add_line(ln)
                return gfa
            r, gfa, _ = guarded(build)
            if r != "ok":
                continue
            for i, o in enumerate(gfa.lines):
                if o.record_type != "H":
                    subs.append(dict(mode="conn", doc=doc, idx=i, vlevel=vl, prep=prep))
            if any(ln.startswith("H\t") for ln in doc):
                subs.append(dict(mode="conn", doc=doc, idx="header", vlevel=vl, prep=prep))
    subs.append(dict(mode="line", text=DT_DECLARED, version="gfa1", vlevel=1, prep=None))
    subs.append(dict(mode="conn", doc=DT_LINES1 + [DT_DECLARED], idx=len(DT_LINES1), vlevel=1, prep=None))
    for vl in ((1, 0) if tier == "quick" else (0, 1, 2, 3)):
        for text, ver in APISET_LINES:
            for k, val in enumerate(NONROUNDTRIP_J):
                for dt in ("J", None):
                    sets = [("js", dt, val)] + ([("jt", "J", NONROUNDTRIP_J[(k + 1) % len(NONROUNDTRIP_J)])] if dt else [])
                    subs.append(dict(mode="line", text=text, version=ver, vlevel=vl, prep="apiset", sets=sets))
                    if text.startswith("S\t"):
                        subs.append(dict(mode="conn", doc=[text, "S\tB\t*", "L\tA\t+\tB\t-\t*"], idx=0, vlevel=vl,
                                         prep="apiset", sets=sets))
    return subs


def read_program_jobs(subs, progs, tier, first_id=0):
    """(id, subject, read program): in the quick tier three of TLC's read programs per subject -- one
    that starts with a Get on one copy, two others, rotating through all of them --, all of them
    in the thorough tier for the variants and a rotating dozen for the rest."""
    gets = [p for p in progs if p[0].startswith("get.")]
    others = [p for p in progs if not p[0].startswith("get.")]
    jobs = []
    for i, sub in enumerate(subs):
        if sub.get("noread"):
            continue
        if tier == "quick":
            chosen = [gets[i % len(gets)], others[(2 * i) % len(others)], others[(2 * i + 1) % len(others)]]
        elif sub.get("variant"):
            chosen = progs
        else:
            chosen = [gets[(i + j) % len(gets)] for j in range(4)] + [others[(8 * i + j) % len(others)] for j in range(8)]
        for p in chosen:
            jobs.append((first_id + len(jobs), sub, p))
    return jobs


def get_subject(sub):
    gfapy = _load_gfapy()
    if sub["mode"] == "line":
        kw = {"vlevel": sub.get("vlevel", 1)}
        if sub["version"]:
            kw["version"] = sub["version"]
        gfa, ln = None, gfapy.Line(sub["text"], **kw)
    else:
        gfa = gfapy.Gfa(vlevel=sub.get("vlevel", 1))
        for x in sub["doc"]:
            gfa.add_line(x)
        ln = gfa.header if sub["idx"] == "header" else gfa.lines[sub["idx"]]
    prep = sub.get("prep")
    if prep == "strassign":
        _assign_encoded(ln, gfa is not None)
    elif prep == "apiset":
        for tag, dt, val in sub["sets"]:
            if dt:
                ln.set_datatype(tag, dt)
            ln.set(tag, mk(val))
    return gfa, ln


def _assign_encoded(line, connected):
    """Assign to every field its own encoded form (the string field_to_s gives): a valid
    assignment that leaves the field stored as a string until it is next read.  Not done for the
    identifier and the reference fields of a connected line (renaming / reconnecting are other
    operations) nor for a repeated header tag."""
    gfapy = _load_gfapy()
    skip = set()
    if connected:
        skip = set(getattr(line.__class__, "REFERENCE_FIELDS", []) or [])
        nf = getattr(line.__class__, "NAME_FIELD", None)
        if nf:
            skip.add(nf)
    done = 0
    for fn in list(line.positional_fieldnames) + list(line.tagnames):
        if fn in skip or isinstance(line._data.get(fn), gfapy.FieldArray):
            continue
        text = line.field_to_s(fn)
        line.set(fn, text)
        done += 1
    return done


def _text(x):
    r, t, exc = guarded(lambda: str(x))
    return t if r == "ok" else "!str:" + r + ":" + exc


def _tri(r, v):
    return ("T" if v else "F") if r == "ok" else r


READ_CALLS = ("get", "write", "str", "validate", "vfield")


def _read_all(line, k):
    """One read-only call (Fields!ReadOps) on every field of the line -> worst result class."""
    names = list(line.positional_fieldnames) + list(line.tagnames)
    if k == "get":
        calls = [lambda fn=fn: line.get(fn) for fn in names]
    elif k == "write":
        calls = [lambda fn=fn: line.field_to_s(fn) for fn in names]
    elif k == "vfield":
        calls = [lambda fn=fn: line.validate_field(fn) for fn in names]
    elif k == "str":
        calls = [lambda: str(line)]
    elif k == "validate":
        calls = [lambda: line.validate()]
    else:
        raise MachineryError("unknown read call " + k)
    worst, excs = "ok", []
    for f in calls:
        r, _, e = guarded(f)
        if r != "ok":
            excs.append(e)
            if worst != "FOREIGN":
                worst = r
    return worst, excs


def run_clone(job):
    cid, sub = job[:2]
    prog = job[2] if len(job) > 2 else ()          # read calls after the cloning: ("get.clone", ...)
    r0, pair, exc0 = guarded(lambda: get_subject(sub))
    if r0 != "ok":
        return None, {"exc": [exc0]}
    gfa, orig = pair
    ro, to, _ = guarded(lambda: str(orig))
    rc, cl, exc = guarded(lambda: orig.clone())
    case = {"id": cid, "conn": gfa is not None, "cl": rc, "lvl": int(sub.get("vlevel", 1)),
            "o": {"res": ro, "pos": [], "tags": [], "meta": "-"}, "c": {"res": "ok", "pos": [], "tags": [], "meta": "-"},
            "eq": "F", "eqr": "F", "isconn": "F", "gfa": "none", "steps": []}
    info = {"rt": getattr(orig, "record_type", "?"), "virtual": bool(getattr(orig, "virtual", False)),
            "text": to if ro == "ok" else "", "exc": [exc]}
    if ro == "ok":
        w = _split_written(to)
        case["o"].update(pos=w[0]["pos"] if w else [], tags=w[0]["tags"] if w else [])
    if rc == "ok":
        r, t, exc = guarded(lambda: str(cl))
        info["exc"].append(exc)
        case["c"]["res"] = r
        if r == "ok":
            w = _split_written(t)
            case["c"].update(pos=w[0]["pos"] if w else [], tags=w[0]["tags"] if w else [])
            info["ctext"] = t
        r, v, exc = guarded(lambda: cl == orig)
        info["exc"].append(exc)
        case["eq"] = _tri(r, v is True)
        r, v, exc = guarded(lambda: orig == cl)
        info["exc"].append(exc)
        case["eqr"] = _tri(r, v is True)
        r, v, exc = guarded(lambda: cl.is_connected())
        case["isconn"] = _tri(r, bool(v))
        r, v, exc = guarded(lambda: cl.gfa)
        case["gfa"] = ("none" if v is None else "some") if r == "ok" else r
        names = _meta_names(orig, cl)
        mo, mc = json.loads(_meta(orig, names)), json.loads(_meta(cl, names))
        for m in (mo, mc):
            del m["text"]          # (compared field by field above: references are written as identifiers)
        case["o"]["meta"], case["c"]["meta"] = json.dumps(mo, sort_keys=True), json.dumps(mc, sort_keys=True)
        info["meta"] = [case["o"]["meta"], case["c"]["meta"]]
        tc0 = _text(cl)
        for code in prog:
            k, t = code.split(".")
            res, excs = _read_all(cl if t == "clone" else orig, k)
            info["exc"] += excs
            r1, v1, _ = guarded(lambda: cl == orig)
            r2, v2, _ = guarded(lambda: orig == cl)
            case["steps"].append({"k": k, "t": t, "res": res, "eq": _tri(r1, v1 is True), "eqr": _tri(r2, v2 is True),
                                  "same": "T" if (_text(cl) == tc0 and _text(orig) == (to if ro == "ok" else None)) else "F"})
    return case, info


# ---- mutable paths

def _repl(v):
    """A replacement of the same broad type that is written differently."""
    gfapy = _load_gfapy()
    if isinstance(v, bool):
        return not v
    if isinstance(v, int):
        return v + 7
    if isinstance(v, float):
        return v + 1.5
    if isinstance(v, str):
        if v == "+":
            return "-"
        if v == "-":
            return "+"
        return v + "X"
    if v is None:
        return 9
    if isinstance(v, gfapy.CIGAR.Operation):
        return gfapy.CIGAR.Operation(v.length + 7, v.code)
    if isinstance(v, gfapy.OrientedLine):
        return gfapy.OrientedLine("ZZ", "-" if v.orient == "+" else "+")
    if isinstance(v, gfapy.LastPos):
        return gfapy.LastPos(v.value + 7)
    if isinstance(v, gfapy.CIGAR):
        return gfapy.CIGAR([gfapy.CIGAR.Operation(9, "M")])
    if isinstance(v, list):
        if type(v) is not list:          # Trace, NumericArray: a value of the same class
            return type(v)([9])
        return [9]
    if isinstance(v, gfapy.AlignmentPlaceholder):
        return "9M"
    if isinstance(v, dict):
        return {"zz": 9}
    if isinstance(v, (gfapy.Line, gfapy.Placeholder)):
        return "ZZ"
    return 9


KNOWN_ATTRS = {"Operation": ["length", "code"], "OrientedLine": ["orient", "line"], "LastPos": ["value"]}


def _walk(obj, path, out, depth=0):
    """Append to out every edit (path, action) reachable in the value object obj."""
    gfapy = _load_gfapy()
    if depth > 6 or isinstance(obj, (str, bytes, int, float, type(None), gfapy.Line)):
        return
    if isinstance(obj, gfapy.FieldArray):
        out.append((path, ["append"]))                # public list interface of the FieldArray
        _walk(obj._data, path + [["a", "_data"]], out, depth + 1)
        return
    if isinstance(obj, list):
        for i in range(len(obj)):
            out.append((path, ["setitem", i]))
            _walk(obj[i], path + [["i", i]], out, depth + 1)
        out.append((path, ["append"]))
        if len(obj) > 1:
            out.append((path, ["delitem", 0]))
        return
    if isinstance(obj, dict):
        for k in obj:
            out.append((path, ["setkey", k]))
            _walk(obj[k], path + [["k", k]], out, depth + 1)
        out.append((path, ["setkey", "zz_new"]))
        return
    names = KNOWN_ATTRS.get(type(obj).__name__)
    if names is None:
        names = [n for n in getattr(obj, "__dict__", {})]
    for n in names:
        out.append((path, ["setattr", n]))
        r, v, _ = guarded(lambda: getattr(obj, n))
        if r == "ok":
            _walk(v, path + [["a", n]], out, depth + 1)


def _meta(line, names=()):
    """Everything a line says about itself besides its field values, with its written form: record
    type, version, level, virtual, the names of the positional fields in order, the tag names in
    order with the datatype get_datatype reports, and the datatype reported for further names
    (tags the line does not have: a declared datatype is per-line state too).  A JSON string; two
    such strings are only ever compared for equality."""
    def q(f):
        r, v, e = guarded(f)
        return v if r == "ok" else "!" + r + ":" + e
    tags = q(lambda: list(line.tagnames))
    d = {"text": _text(line), "rt": q(lambda: line.record_type), "version": q(lambda: line.version),
         "vlevel": q(lambda: line.vlevel), "virtual": q(lambda: bool(line.virtual)),
         "pos": q(lambda: list(line.positional_fieldnames)),
         "tags": [[t, q(lambda t=t: line.get_datatype(t))] for t in tags] if isinstance(tags, list) else tags,
         "declared": [[n, q(lambda n=n: line.get_datatype(n))] for n in sorted(set(names))
                      if not (isinstance(tags, list) and n in tags)]}
    return json.dumps(d, sort_keys=True, default=str)


def _meta_diff(a, b):
    """For messages: the parts of two _meta renderings that differ."""
    try:
        x, y = json.loads(a), json.loads(b)
        d = {k: [x.get(k), y.get(k)] for k in sorted(set(x) | set(y)) if x.get(k) != y.get(k)}
        return "unchanged" if not d else "; ".join("%s: %s -> %s" % (k, json.dumps(v[0]), json.dumps(v[1])) for k, v in d.items())
    except Exception:
        return "%r -> %r" % (a, b)


def _meta_names(*lines):
    names = {"zz"}
    for ln in lines:
        r, t, _ = guarded(lambda: list(ln.tagnames))
        if r == "ok":
            names |= set(t)
    return names


def find_edits(line):
    """Every in-place edit of the value objects of line._data, and edits through the API."""
    edits = []
    for fn in list(line._data.keys()):
        w = []
        _walk(line._data[fn], [fn], w)
        edits += [dict(kind="inplace", path=p, act=a) for p, a in w]
    for fn in list(line.positional_fieldnames):
        edits.append(dict(kind="api", path=[fn], act=["set"]))
    for tn in list(line.tagnames):
        edits.append(dict(kind="api", path=[tn], act=["set"]))
        edits.append(dict(kind="api", path=[tn], act=["delete"]))
        # edits of the tag's METADATA: another datatype declared for it; the tag removed and made
        # again from a value of another kind (so that it gets another default datatype)
        edits.append(dict(kind="api", path=[tn], act=["setdt"]))
        edits.append(dict(kind="api", path=[tn], act=["retype"]))
    edits.append(dict(kind="api", path=["zz"], act=["set"]))
    edits.append(dict(kind="api", path=["zz"], act=["setdt"]))       # a datatype declared for a tag to come
    edits.append(dict(kind="api", path=["zy"], act=["setstr"]))      # a new tag holding a string
    return edits


def apply_edit(line, ed):
    if ed["kind"] == "api":
        fn = ed["path"][0]
        if ed["act"][0] == "delete":
            return line.delete(fn)
        cur = line._data.get(fn)
        if ed["act"][0] == "setdt":
            return line.set_datatype(fn, "Z" if line.get_datatype(fn) != "Z" else "J")
        if ed["act"][0] == "retype":
            line.delete(fn)
            return line.set(fn, 7 if isinstance(cur, str) else "retyped")
        if ed["act"][0] == "setstr":
            return line.set(fn, "text")
        return line.set(fn, _repl(cur))
    obj = line._data[ed["path"][0]]
    for kind, k in ed["path"][1:]:
        obj = getattr(obj, k) if kind == "a" else obj[k]
    act = ed["act"]
    if act[0] == "setitem":
        obj[act[1]] = _repl(obj[act[1]])
    elif act[0] == "delitem":
        del obj[act[1]]
    elif act[0] == "append":
        last = None
        for last in obj:
            pass
        obj.append(_repl(last))
    elif act[0] == "setkey":
        obj[act[1]] = _repl(obj.get(act[1]))
    elif act[0] == "setattr":
        setattr(obj, act[1], _repl(getattr(obj, act[1])))
    else:
        raise MachineryError("unknown edit " + repr(ed))


def list_edits(job):
    """(subject index, subject) -> [(subject index, target, edit)] found on a fresh pair."""
    si, sub = job
    gfa, orig = get_subject(sub)
    r, cl, _ = guarded(lambda: orig.clone())
    res = []
    for target, ln in (("orig", orig), ("clone", cl if r == "ok" else None)):
        if ln is None:
            continue
        r2, eds, _ = guarded(lambda: find_edits(ln))
        if r2 == "ok":
            res += [(si, target, e) for e in eds]
    return res


def run_edit(job):
    cid, sub, target, ed = job
    gfa, orig = get_subject(sub)
    r, cl, exc = guarded(lambda: orig.clone())
    if r != "ok":
        return None, {"exc": exc}        # reported by the clone case of this subject
    tgt, other = (orig, cl) if target == "orig" else (cl, orig)
    # the other copy is observed through its written form AND its metadata (_meta), also for the
    # names the edit touches
    names = _meta_names(orig, cl) | ({ed["path"][0]} if ed["kind"] == "api" else set())
    ob, tb = _meta(other, names), _text(tgt)
    gb = _text(gfa) if gfa is not None else "-"
    r, _, exc = guarded(lambda: apply_edit(tgt, ed))
    oa, ta = _meta(other, names), _text(tgt)
    ga = _text(gfa) if gfa is not None else "-"
    case = {"id": cid, "conn": gfa is not None, "target": target, "res": r, "ob": ob, "oa": oa, "gb": gb, "ga": ga}
    return case, {"exc": exc, "tb": tb, "ta": ta}


def check_c19(out, tier, seed):
    _init_worker()
    # the statements on the specification itself are checked in the background while the cases run
    from concurrent.futures import ThreadPoolExecutor
    ex = ThreadPoolExecutor(max_workers=1)
    f1 = ex.submit(run_mc, "props", abstract_fields_for_props(), 3 if tier == "quick" else 4, "fields-mc-props19",
                   max(2, NCPU // 3))
    subs = clone_subjects(tier)
    res = _pmap(run_clone, list(enumerate(subs)))
    # a catalogue line that cannot be built on its own is not a subject
    subs = [s for s, r in zip(subs, res) if r[0] is not None]
    res = [r for r in res if r[0] is not None]
    for i, r in enumerate(res):
        r[0]["id"] = i
    # the read programs (TLC: MC_Fields mode renum) on the subjects and on the variants
    rprogs, srp = enum_read_programs(2, "fields-mc-renum", max(2, NCPU // 4))
    variants = clone_variants(tier) + noncanonical_variants(tier)
    vres0 = _pmap(run_clone, list(enumerate(variants)))
    variants = [dict(v, variant=True) for v, r in zip(variants, vres0) if r[0] is not None]
    rjobs = read_program_jobs(subs + variants, rprogs, tier)
    rres = _pmap(run_clone, rjobs)
    rjobs = [j for j, r in zip(rjobs, rres) if r[0] is not None]
    rres = [r for r in rres if r[0] is not None]
    nbase = len(res)
    allres = res + [r for r in vres0 if r[0] is not None] + rres
    allsubs = subs + variants + [j[1] for j in rjobs]
    allprogs = [()] * (len(subs) + len(variants)) + [j[2] for j in rjobs]
    for i, r in enumerate(allres):
        r[0]["id"] = i
    rejects, n1 = validate_cases("clone", [r[0] for r in allres], "fields-clone")
    rts = sorted({(i["rt"], c["conn"], i["virtual"]) for c, i in res})
    unparsed_reads = sum(1 for (c, i), sub in zip(allres, allsubs)
                         if c["steps"] and (sub.get("vlevel", 1) == 0 or sub.get("prep")))
    seen = {}
    for cid, (clauses, at) in sorted(rejects.items()):
        c, info = allres[cid]
        sub, prog = allsubs[cid], allprogs[cid]
        key = (tuple(clauses), info["rt"], c["conn"], sub.get("prep") or "")
        if key in seen:
            seen[key]["occurrences"] += 1
            seen[key]["levels"] = sorted(set(seen[key]["levels"]) | {sub.get("vlevel", 1)})
            continue
        how = {"strassign": ", every field assigned its encoded string", "apiset": ", J tags set through the API: %s" % (
            json.dumps(sub.get("sets")),)}.get(sub.get("prep"), "")
        v = dict(
            family=FAM, kind="clone", clauses=list(clauses), input=info["text"],
            api="Line.clone (%s)%s" % ("connected" if c["conn"] else "unconnected", " + reads " + ",".join(prog) if prog else ""),
            subject=sub, reads=list(prog), rejected_call=at, occurrences=1, levels=[sub.get("vlevel", 1)],
            observed=c, exc=info["exc"],
            what="%s: clone of %r (%s, vlevel %d%s)%s: %s %s" % (
                ",".join(clauses), info["text"], "connected" if c["conn"] else "unconnected", sub.get("vlevel", 1), how,
                (" then " + "; ".join("%s -> %s, ==: %s/%s, texts kept: %s" % (p, st["res"], st["eq"], st["eqr"], st["same"])
                                      for p, st in zip(prog, c["steps"]))) if prog else "",
                {k: c[k] for k in ("cl", "eq", "eqr", "isconn", "gfa")}, [e for e in info["exc"] if e]))
        seen[key] = v
        out.violations.append(v)
    found = _pmap(list_edits, list(enumerate(subs)))
    jobs = []
    for lst in found:
        for si, target, ed in lst:
            jobs.append((len(jobs), subs[si], target, ed))
    eres = _pmap(run_edit, jobs)
    jobs = [j for j, r in zip(jobs, eres) if r[0] is not None]
    eres = [r for r in eres if r[0] is not None]
    for i, r in enumerate(eres):
        r[0]["id"] = i
    erej, n2 = validate_cases("edit", [r[0] for r in eres], "fields-edit")
    effective = sum(1 for c, i in eres if i["tb"] != i["ta"])
    groups = {}
    for cid, (clauses, _) in sorted(erej.items()):
        c, info = eres[cid]
        _, sub, target, ed = jobs[cid]
        text = sub["text"] if sub["mode"] == "line" else _subject_text(sub)
        # one violation per (clauses, record type, connected or not, edited copy, field): the
        # catalogue lines of one record type differ only in their values
        # (edits of the tag metadata through the API do not depend on the record type: one group per edit)
        meta_edit = ed["kind"] == "api" and ed["act"][0] in ("setdt", "retype", "setstr") or ed["path"][0] in ("zz", "zy")
        key = (",".join(clauses), "*" if meta_edit else text.split("\t")[0], sub["mode"], target,
               ed["act"][0] if meta_edit else ed["path"][0], ed["kind"])
        g = groups.setdefault(key, dict(n=0, ex=None))
        g["n"] += 1
        if g["ex"] is None:
            g["ex"] = (cid, c, info, sub, target, ed)
    for key, g in sorted(groups.items()):
        cid, c, info, sub, target, ed = g["ex"]
        text = sub["text"] if sub["mode"] == "line" else _subject_text(sub)
        out.violations.append(dict(
            family=FAM, kind="edit", clauses=key[0].split(","), input=text,
            api="clone + in-place edit (%s, %s)" % ("connected" if c["conn"] else "unconnected", target),
            subject=sub, target=target, edit=ed, observed=c, exc=info["exc"], occurrences=g["n"],
            what="%s: %r (%s) edit %s of the %s: other copy %s; gfa changed: %s (%d edits of this field of this record type)" % (
                key[0], text, sub["mode"], json.dumps(ed), target, _meta_diff(c["ob"], c["oa"]), c["gb"] != c["ga"], g["n"])))
    # one custom tag on a line and its copy, edited in turn (kind "chist")
    check_copies_histories(out, tier, seed, "C19")
    s1 = tlc.stats(f1.result())          # (raises if a statement failed)
    ex.shutdown()
    out.add_cov(states=s1[1] + n1 + n2 + srp[1], transitions=s1[0] + n1 + n2 + srp[0], spec_states_statements=s1[1],
                traces_validated_against_impl=n1 + n2, clone_subjects=len(subs), edit_cases=len(jobs),
                edits_that_changed_their_target=effective, record_kinds=len(rts),
                clone_variant_subjects=len(variants), read_programs_enumerated=len(rprogs),
                clone_read_program_cases=len(rjobs), read_cases_on_unparsed_fields=unparsed_reads)
    for c, i in res[:2]:
        out.samples.append({"clone of": i["text"], "observed": {k: c[k] for k in ("cl", "eq", "isconn", "gfa")}})
    for (c, i), j in list(zip(eres, jobs))[:2]:
        out.samples.append({"edit": j[3], "target": j[2], "target text": [i["tb"], i["ta"]],
                            "other text": [c["ob"], c["oa"]]})
    out.assumptions += [
        "TLC and the TLA+ semantics of spec/Fields.tla (Clone, EditInPlace, frame conditions), TraceFields.tla",
        "mutable state = what the generic walk of harness/fam_fields.py reaches in Line._data (list / dict / "
        "attribute edits, FieldArray, API set/delete); sharing is observed through the written text",
        "subjects: every line of the catalogues of harness/core.py, connected (two arrival orders) and not, "
        "placeholders, lines carrying every tag datatype, a multi-line header, custom records, comments",
        "equality after reads: read programs (<= 2 calls of get / field_to_s / str / validate / validate_field on "
        "every field of one copy) enumerated by TLC; variants of the subjects: built at vlevel 0 (fields stay "
        "encoded until read), every non-reference field assigned its own encoded string, J tags set through the "
        "API to Python values that are not their own JSON round trip (non-string keys, tuples)",
    ]


def _subject_text(sub):
    gfa, orig = get_subject(sub)
    return _text(orig)


# --------------------------------------------------------------------------
# C20: values assigned to tags.  Each value = (py: how to build it, v: the abstract
# descriptor TLC reasons about -- see Fields.tla PART 3).

ZSYM = {"sg": 0, "e": 0, "d": 0}


def _vd(k, n=None, fin=True, chars=(), el="none", elems=(), ln=0):
    return {"k": k, "n": n or ZSYM, "fin": fin, "chars": list(chars), "el": el,
            "elems": [{"sg": a, "e": b, "d": c} for a, b, c in elems], "len": ln}


def v_int(sg, e, d):
    return dict(py={"py": "sym", "a": [sg, e, d]}, v=_vd("int", n={"sg": sg, "e": e, "d": d}))


def v_float(lit, fin=True):
    return dict(py=F(lit), v=_vd("float", fin=fin))


def v_str(s):
    return dict(py=S(s), v=_vd("str", chars=s))


def v_json(text):
    k = "dict" if text.startswith("{") else "list"
    return dict(py=J(text), v=_vd(k))


def v_ints(elems, array):
    py = {"py": "symlist", "a": [list(x) for x in elems]}
    return dict(py=NA(py) if array else py,
                v=_vd("numarray" if array else "numlist", el="int" if elems else "none", elems=elems, ln=len(elems)))


def v_floats(lits, fin, array):
    py = {"py": "floatlist", "a": list(lits)}
    return dict(py=NA(py) if array else py,
                v=_vd("numarray" if array else "numlist", fin=fin, el="float" if lits else "none", ln=len(lits)))


def v_mixed(array):
    py = J("[1, 2.5]")
    return dict(py=NA(py) if array else py, v=_vd("numarray" if array else "numlist", el="mixed", ln=2))


def v_bytes(lst):
    return dict(py={"py": "ba", "a": list(lst)}, v=_vd("bytearray", ln=len(lst)))


def sym_universe(tier):
    ds = (-1, 0, 1) if tier == "quick" else (-2, -1, 0, 1, 2)
    es = (7, 8, 15, 16, 31, 32) if tier == "quick" else (7, 8, 15, 16, 31, 32, 63)
    u = [(0, 0, d) for d in ds]
    for e in es:
        for d in ds:
            u.append((1, e, d))
            u.append((-1, e, d))
    return u


def _symval(x):
    return x[0] * 2 ** x[1] + x[2]


FLOATS = ["0.0", "-0.0", "1.5", "-2.5", "0.1", "3.0", "1e300", "-1e-300", "5e-324", "1e16", "1e-7", "1e22",
          "123456789.125", "2.2250738585072014e-308", "1.7976931348623157e308", "-1.7976931348623157e308",
          "0.30000000000000004", "1e-5", "12345678901234567890.0"]
NONFINITE = ["inf", "-inf", "nan"]
ZSTRS = ["abc", "a b", "~", " ", "!\"#$%&'()*+,-./:;<=>?@[\\]^_`{|}", "x" * 60, "a:b:c", "1", "[1]",
         "a\tb", "a\nb", "abc\n", "\n", "", "\x01", "\x7f", "café", "a\rb", " "]
ASTRS = ["a", "~", "!", "1", " ", "ab", "", "\t", "\n", "a\n", "é"]
JSONS = ['{"a": 1}', '{"a": [1, {"b": "c"}], "d": null, "e": true, "f": 1.5}', '[1, "x"]', '["a\\tb"]',
         '["caf\\u00e9"]', '["\\"q\\" \\\\ /"]', '{}', '[[]]', '[{"k": []}]', '["a\\nb", "\\u0001"]',
         '{"nested": {"deep": {"deeper": [1, 2, {"x": "y"}]}}}', '["1e5", 100000000000000000000]']
JSTRS = ['{"a": 1}', '[1,2]', '[]', '{"k": [1, {"z": null}]}', 'abc', '{"a":\t1}', '', '{', '[1,', '1', '"s"']
ISTRS = ["5", "-5", "+5", "007", "0", "5.0", "", "abc", " 5", "1_0", "5 ", "0x10", "-", "1e3"]
FSTRS = ["1.5", "-1e-3", ".5", "3", "+2.5E+3", "1.", "inf", "nan", "abc", "", "1e", "0x1p3", "1_0.5", " 1.5", "-.5e-10"]
BSTRS = ["c,1,-1", "C,255", "s,-32768", "f,1.5,2", "S,65535", "i,-5", "c,128", "C,256", "C,-1", "s,40000",
         "x,1", "c,", "c", "", "i,1.5", "f,abc", "c,-129", "S,65536", "f", "c,1,,2"]
HSTRS = ["00", "0AFF", "ABCDEF", "0af0", "ABC", "", "GG", "0A F0", "A"]
BYTES = [[0], [255], [1, 2, 3], [0, 0], list(range(16)), []]


def c20_values(tier, seed):
    """-> list of (value, modes)."""
    rnd = random.Random(seed + 20)
    vals = []
    U = sym_universe(tier)
    for x in U:
        vals.append((v_int(*x), ["new", "i"]))
    vals.append((v_int(1, 64, 0), ["new", "i"]))
    vals.append((v_int(-1, 64, -1), ["new", "i"]))
    for s in ISTRS:
        vals.append((v_str(s), ["i"]))
    for lit in FLOATS:
        vals.append((v_float(lit), ["new", "f"]))
    for lit in NONFINITE:
        vals.append((v_float(lit, fin=False), ["new", "f"]))
    for s in FSTRS:
        vals.append((v_str(s), ["f"]))
    for s in ZSTRS:
        vals.append((v_str(s), ["new", "Z"]))
    for s in ASTRS:
        vals.append((v_str(s), ["A"]))
    for t in JSONS:
        vals.append((v_json(t), ["new", "J"]))
    for s in JSTRS:
        vals.append((v_str(s), ["J"]))
    # numeric arrays: every range [lo, hi] over the symbolic universe (sampled in the quick tier)
    Us = sorted(U, key=_symval)
    pairs = [(a, b) for i, a in enumerate(Us) for b in Us[i:]]
    if tier == "quick":
        keep = [p for p in pairs if p[0][2] in (-1, 0) and p[1][2] in (-1, 0)]
        rest = [p for p in pairs if p not in keep]
        pairs = keep + rnd.sample(rest, min(len(rest), 150))
    for lo, hi in pairs:
        elems = [lo, hi] if lo != hi else [lo]
        if rnd.random() < 0.5:
            elems = list(reversed(elems))
        if rnd.random() < 0.3:
            elems = elems + [elems[0]]
        arr = rnd.random() < 0.5
        vals.append((v_ints(elems, arr), ["new", "B"]))
        if tier != "quick":
            vals.append((v_ints(elems, not arr), ["new", "B"]))
    for arr in (False, True):
        vals.append((v_ints([], arr), ["new", "B"]))
        vals.append((v_mixed(arr), ["new", "B"]))
        vals.append((v_floats(["1.5", "2.5"], True, arr), ["new", "B"]))
        vals.append((v_floats(["0.0"], True, arr), ["new", "B"]))
        vals.append((v_floats(["1e300", "-1.5", "5e-324"], True, arr), ["new", "B"]))
        vals.append((v_floats(["inf"], False, arr), ["new", "B"]))
        vals.append((v_floats(["1.0", "nan"], False, arr), ["new", "B"]))
    vals.append((v_ints([(0, 0, 1), (0, 0, 2)], False), ["J"]))
    vals.append((v_floats(["1.5"], True, False), ["J"]))
    for s in BSTRS:
        vals.append((v_str(s), ["B"]))
    for b in BYTES:
        vals.append((v_bytes(b), ["new", "H"]))
    for s in HSTRS:
        vals.append((v_str(s), ["H"]))
    return vals


def run_value(job):
    cid, lvl, mode, val = job
    import math
    gfapy = _load_gfapy()
    line = gfapy.Line("S\tA\t*", vlevel=lvl)
    tag = "xx"
    exc = []
    if mode != "new":
        r, _, e = guarded(lambda: line.set_datatype(tag, mode))
        if r != "ok":
            raise MachineryError("set_datatype(%s) failed: %s" % (mode, e))
    v = mk(val["py"])
    if val["v"]["k"] == "float" and math.isfinite(v) != val["v"]["fin"]:
        raise MachineryError("value table: finiteness of %r" % (val["py"],))
    case = {"id": cid, "lvl": lvl, "mode": mode, "v": val["v"], "set": "ok", "dt": "-", "val": "-", "vf": "-",
            "w": "-", "wchars": [], "s": "-", "mark": False,
            "rb": {"res": "-", "dt": "-", "eq": "-", "eqv": "-"}}
    r, _, e = guarded(lambda: line.set(tag, v))
    exc.append(e)
    case["set"] = r
    text = None
    if r == "ok" and tag in line._data:
        r, dt, e = guarded(lambda: line.get_datatype(tag))
        exc.append(e)
        case["dt"] = dt if r == "ok" else "!" + r
        r, _, e = guarded(lambda: line.validate_field(tag))
        exc.append(e)
        case["vf"] = r
        r, _, e = guarded(lambda: line.validate())
        exc.append(e)
        case["val"] = r
        r, w, e = guarded(lambda: line.field_to_s(tag, tag=True))
        exc.append(e)
        case["w"] = r
        if r == "ok":
            case["wchars"] = list(w)
        r, text, e = guarded(lambda: str(line))
        exc.append(e)
        case["s"] = r
        case["mark"] = bool(r == "ok" and text.split("\t")[-1].startswith("# INVALID"))
        if r == "ok" and not case["mark"]:
            def readback():
                l2 = gfapy.Line(text, vlevel=lvl)
                return l2.get(tag), l2.get_datatype(tag)
            r, got, e = guarded(readback)
            exc.append(e)
            case["rb"]["res"] = r
            if r == "ok":
                v2, dt2 = got
                case["rb"]["dt"] = str(dt2)
                r3, cur, e = guarded(lambda: line.get(tag))

                def same(a, b):
                    if isinstance(a, float) and isinstance(b, float):
                        return a == b and repr(a) == repr(b)
                    return bool(a == b)
                case["rb"]["eq"] = _tri(r3, r3 == "ok" and same(v2, cur))
                if not (isinstance(v, str) and dt2 not in ("Z", "A")):
                    case["rb"]["eqv"] = "T" if same(v2, v) else "F"
    return case, {"exc": exc, "text": text}


# ---- the same values on a tag of a line that belongs to a Gfa, written through every path
# (Fields.tla PART 5 c).  Carriers: the header (H), the header with the tag added twice (HH), a
# connected segment (gS), a connected link (gL).

# gO2 / gU2: a GFA2 group defined on TWO lines with the same identifier: the tag is put on the line
# that is in the Gfa, then the later line (which does not repeat the tag) arrives and the library
# makes the merged group line, importing the tags of the earlier one.
GCARRIERS = ["H", "HH", "gS", "gL", "gO2", "gU2"]
GDOC = ["H\tVN:Z:1.0", "S\tA\tACGT", "S\tB\tACGT", "L\tA\t+\tB\t-\t2M"]
GDOC2 = ["H\tVN:Z:2.0", "S\ta\t4\tACGT", "S\tb\t4\tACGT", "S\tc\t4\tACGT", "E\te1\ta+\tb+\t2\t4$\t0\t2\t2M",
         "E\te2\tb+\tc+\t2\t4$\t0\t2\t2M", "O\to\ta+ b+", "U\tu\ta b"]
GLATER = {"gO2": ("o", "O\to\tc+"), "gU2": ("u", "U\tu\tc")}
_CARRIER_PREFIX = {"H": ("H\t",), "HH": ("H\t",), "gS": ("S\tA\t",), "gL": ("L\tA\t", "E\t"),
                   "gO2": ("O\to\t", "P\to\t"), "gU2": ("U\tu\t",)}


def _same_value(a, b):
    gfapy = _load_gfapy()
    if isinstance(a, gfapy.FieldArray):
        a = list(a._data)
    if isinstance(b, gfapy.FieldArray):
        b = list(b._data)
    if isinstance(a, float) and isinstance(b, float):
        return a == b and repr(a) == repr(b)
    return bool(a == b)


def _occurrences(text, carrier, tag, single=False):
    """The written forms of the tag in the lines of the carrier's record within text (single: the
    text is one line, the carrier's or one made from it), and whether the INVALID remark occurs."""
    occ, mark = [], False
    pre = _CARRIER_PREFIX[carrier]
    for ln in text.split("\n"):
        if not single and not ln.startswith(pre):
            continue
        f = ln.split("\t")
        occ += [x for x in f[1:] if x.startswith(tag + ":")]
    if "\t# INVALID" in text:
        mark = True
    return occ, mark


def _carrier_of(gfa, carrier):
    if carrier in ("H", "HH"):
        return gfa.header
    if carrier == "gS":
        return gfa.segment("A")
    if carrier in GLATER:
        return gfa.line(GLATER[carrier][0])
    ls = [x for x in gfa.lines if x.record_type in ("L", "E") and not x.virtual]
    return ls[0]


def _gfa_write_paths(gfa, line, carrier, wd):
    """[(path name, function returning the text written, how to parse it back)]"""
    def to_file():
        os.makedirs(wd, exist_ok=True)
        fn = os.path.join(wd, "fields-gval-%d.gfa" % os.getpid())
        try:
            gfa.to_file(fn)
            with open(fn) as fh:
                return fh.read()
        finally:
            if os.path.exists(fn):
                os.unlink(fn)
    paths = [("str(line)", lambda: str(line), "line"),
             ("str(gfa)", lambda: str(gfa), "gfa"),
             ("gfa.lines", lambda: "\n".join(str(x) for x in gfa.lines), "gfa"),
             ("to_file", to_file, "gfa"),
             ("to_gfa1_s", lambda: gfa.to_gfa1_s(), "gfa"),
             ("to_gfa2_s", lambda: gfa.to_gfa2_s(), "gfa"),
             ("to_gfa2", lambda: str(gfa.to_gfa2()), "gfa"),
             ("clone", lambda: str(line.clone()), "line")]
    if carrier in GLATER:
        # a GFA2 document: the other version is GFA1 (an O group becomes a P line; a U group has no
        # GFA1 counterpart)
        paths = [x for x in paths if x[0] != "to_gfa2"]
        if carrier == "gU2":
            paths = [x for x in paths if x[0] != "to_gfa1_s"]
        else:
            paths.append(("to_gfa1", lambda: str(gfa.to_gfa1()), "gfa"))
    if carrier == "gL":
        paths.append(("complement", lambda: str(line.complement()), "line"))
    if carrier == "gS":
        # last (it changes the Gfa): the copy made by multiply()
        def multiplied():
            gfa.multiply("A", 2)
            return str([x for x in gfa.segments if x.name not in ("A", "B")][0])
        paths.append(("multiply", multiplied, "line"))
    if carrier in ("H", "HH"):
        paths.insert(3, ("gfa.headers", lambda: "\n".join(str(x) for x in gfa.headers), "gfa"))
    if carrier == "HH":
        # the merged header object holding a repeated tag is written by the Gfa as one-tag H lines;
        # its own one-line form (all values in one H line) is not a line a Gfa writes or reads
        paths = [x for x in paths if x[2] == "gfa"]
    return paths


def run_gvalue(job):
    cid, lvl, mode, val, carrier, how = job
    import math
    gfapy = _load_gfapy()
    tag = "xx"
    exc = []
    r, gfa, e = guarded(lambda: gfapy.Gfa(list(GDOC2 if carrier in GLATER else GDOC), vlevel=lvl))
    if r != "ok":
        raise MachineryError("cannot build the carrier document at level %d: %s" % (lvl, e))
    line = _carrier_of(gfa, carrier)
    v = mk(val["py"])
    nadd = 2 if carrier == "HH" else 1
    case = {"id": cid, "lvl": lvl, "mode": mode, "v": val["v"], "set": "ok", "dt": "-", "val": "-", "vf": "-",
            "w": "-", "wchars": [], "s": "-", "mark": False,
            "rb": {"res": "-", "dt": "-", "eq": "-", "eqv": "-"},
            "carrier": carrier, "add2": "-", "nadd": 1, "outs": []}
    info = {"exc": exc, "vias": [], "carrier": carrier, "how": how}
    dtarg = None if mode == "new" else mode
    if carrier in ("H", "HH") and how == 0:
        r, _, e = guarded(lambda: line.add(tag, v, dtarg))
    else:
        if dtarg is not None:
            r, _, e = guarded(lambda: line.set_datatype(tag, dtarg))
            if r != "ok":
                raise MachineryError("set_datatype(%s) failed: %s" % (mode, e))
        if how == 1 and carrier not in ("H", "HH"):
            r, _, e = guarded(lambda: setattr(line, tag, v))
        else:
            r, _, e = guarded(lambda: line.set(tag, v))
    exc.append(e)
    case["set"] = r
    if r != "ok" or tag not in line._data:
        return case, info
    if nadd == 2:
        v2 = mk(val["py"])
        r, _, e = guarded(lambda: line.add(tag, v2, dtarg if how == 0 else None))
        exc.append(e)
        case["add2"] = r
        if r == "ok":
            case["nadd"] = 2
    if carrier in GLATER:
        # the later line of the group arrives; the carrier is the merged group line
        r, _, e = guarded(lambda: gfa.add_line(GLATER[carrier][1]))
        exc.append(e)
        case["add2"] = r
        line = _carrier_of(gfa, carrier)
    assigned = v if case["nadd"] == 1 else [v, v]
    r, dt, e = guarded(lambda: line.get_datatype(tag))
    exc.append(e)
    case["dt"] = ("-" if dt is None else str(dt)) if r == "ok" else "!" + r
    r, _, e = guarded(lambda: line.validate_field(tag))
    exc.append(e)
    case["vf"] = r
    r, _, e = guarded(lambda: line.validate())
    exc.append(e)
    case["val"] = r

    cache = {}

    def readback(text, how_parse):
        key = (text, how_parse)
        if key in cache:
            return cache[key]
        rb = {"res": "-", "dt": "-", "eq": "-", "eqv": "-"}

        def parse():
            if how_parse == "line":
                l2 = gfapy.Line(text, vlevel=lvl)
            else:
                g2 = gfapy.Gfa(text, vlevel=lvl)
                l2 = _carrier_of(g2, carrier)
            return l2.get(tag), l2.get_datatype(tag)
        r, got, e = guarded(parse)
        exc.append(e)
        rb["res"] = r
        if r == "ok":
            v2, dt2 = got
            rb["dt"] = str(dt2)
            r3, cur, e = guarded(lambda: line.get(tag))
            rb["eq"] = _tri(r3, r3 == "ok" and _same_value(v2, cur))
            if not (isinstance(v, str) and dt2 not in ("Z", "A")):
                rb["eqv"] = "T" if _same_value(v2, assigned) else "F"
        cache[key] = rb
        return rb

    # the base record: the line's own field_to_s (one written tag per stored value)
    r, w, e = guarded(lambda: line.field_to_s(tag, tag=True))
    exc.append(e)
    case["w"] = r
    parts = w.split("\t") if r == "ok" else []
    if parts:
        case["wchars"] = list(parts[0])
    outs = []
    empty_rb = {"res": "-", "dt": "-", "eq": "-", "eqv": "-"}
    wd = tlc.WORK
    first = True
    for name, fn, how_parse in _gfa_write_paths(gfa, line, carrier, wd):
        r, text, e = guarded(fn)
        exc.append(e)
        if r != "ok":
            obs = [{"w": r, "wchars": [], "s": r, "mark": False, "rb": empty_rb, "n": 0}]
        else:
            occ, mark = _occurrences(text, carrier, tag, single=(how_parse == "line"))
            rb = readback(text, how_parse) if not mark else empty_rb
            if mark or not occ:
                obs = [{"w": "Error" if mark else "ok", "wchars": [], "s": "ok", "mark": mark, "rb": rb, "n": len(occ)}]
            else:
                obs = [{"w": "ok", "wchars": list(x), "s": "ok", "mark": False, "rb": rb, "n": len(occ)} for x in occ]
        if first:
            # str(line) (a repeated header tag: str(gfa)) completes the base record, as in a "val" case
            first = False
            info["base"] = ["field_to_s", name]
            case["s"], case["mark"], case["rb"] = obs[0]["s"], obs[0]["mark"], obs[0]["rb"]
        for o in obs:
            k = json.dumps(o, sort_keys=True)
            hit = [i for i, (kk, _) in enumerate(outs) if kk == k]
            if hit:
                info["vias"][hit[0]].append(name)
            else:
                outs.append((k, o))
                info["vias"].append([name])
    # the further tags of field_to_s of a repeated tag
    for x in parts[1:]:
        o = {"w": "ok", "wchars": list(x), "s": case["s"], "mark": case["mark"], "rb": case["rb"], "n": len(parts)}
        k = json.dumps(o, sort_keys=True)
        if not any(kk == k for kk, _ in outs):
            outs.append((k, o))
            info["vias"].append(["field_to_s"])
    case["outs"] = [o for _, o in outs]
    return case, info


# ---- tag histories: one custom tag through set / delete / set(None) / set_datatype

NOVAL = _vd("none")
HVALS = {"int": v_int(0, 0, 12), "float": v_float("1.5"), "str": v_str("hello"), "list": v_json('["a", 1]'),
         "intlist": v_ints([(0, 0, 1), (0, 0, 2), (0, 0, 3)], False), "bytes": v_bytes([1, 255])}
# initial states: a tag that does not exist, or a tag parsed from text with each declared datatype
HINITS = {
    "new": dict(text="", present=False, dt="none", v=NOVAL),
    "i": dict(text="xx:i:1", present=True, dt="i", v=v_int(0, 0, 1)["v"]),
    "f": dict(text="xx:f:0.5", present=True, dt="f", v=v_float("0.5")["v"]),
    "Z": dict(text="xx:Z:abc", present=True, dt="Z", v=v_str("abc")["v"]),
    "A": dict(text="xx:A:c", present=True, dt="A", v=v_str("c")["v"]),
    "J": dict(text='xx:J:["a", 1]', present=True, dt="J", v=v_json('["a", 1]')["v"]),
    "H": dict(text="xx:H:0AFF", present=True, dt="H", v=v_bytes([10, 255])["v"]),
    "B": dict(text="xx:B:c,1,-1", present=True, dt="B", v=v_ints([(0, 0, 1), (0, 0, -1)], True)["v"]),
}
HSETDT = ["i", "Z", "J", "B"]


def history_alphabet():
    return [("set", k) for k in HVALS] + [("delete", ""), ("setnone", "")] + [("setdt", t) for t in HSETDT]


def _observe_tag(gfapy, line, tag, lvl, assigned):
    """What a "val" case records about the tag, after a call.  assigned: the Python value just
    assigned (None otherwise)."""
    o = {"present": tag in line.tagnames, "dt": "-", "val": "-", "vf": "-", "w": "-", "wchars": [], "s": "-",
         "mark": False, "rb": {"res": "-", "dt": "-", "eq": "-", "eqv": "-"}}
    exc = []
    r, dt, e = guarded(lambda: line.get_datatype(tag))
    exc.append(e)
    o["dt"] = ("-" if dt is None else str(dt)) if r == "ok" else "!" + r
    if not o["present"]:
        r, text, e = guarded(lambda: str(line))
        o["s"] = r
        if r == "ok" and any(f.startswith(tag + ":") for f in text.split("\t")):
            o["present"] = True            # still written
        return o, exc
    r, _, e = guarded(lambda: line.validate_field(tag))
    exc.append(e)
    o["vf"] = r
    r, _, e = guarded(lambda: line.validate())
    exc.append(e)
    o["val"] = r
    r, w, e = guarded(lambda: line.field_to_s(tag, tag=True))
    exc.append(e)
    o["w"] = r
    if r == "ok":
        o["wchars"] = list(w)
    r, text, e = guarded(lambda: str(line))
    exc.append(e)
    o["s"] = r
    o["mark"] = bool(r == "ok" and text.split("\t")[-1].startswith("# INVALID"))
    if r == "ok" and not o["mark"]:
        def readback():
            l2 = gfapy.Line(text, vlevel=lvl)
            return l2.get(tag), l2.get_datatype(tag)
        r, got, e = guarded(readback)
        exc.append(e)
        o["rb"]["res"] = r
        if r == "ok":
            v2, dt2 = got
            o["rb"]["dt"] = str(dt2)
            r3, cur, e = guarded(lambda: line.get(tag))

            def same(a, b):
                if isinstance(a, float) and isinstance(b, float):
                    return a == b and repr(a) == repr(b)
                return bool(a == b)
            o["rb"]["eq"] = _tri(r3, r3 == "ok" and same(v2, cur))
            if assigned is not None and not (isinstance(assigned, str) and dt2 not in ("Z", "A")):
                o["rb"]["eqv"] = "T" if same(v2, assigned) else "F"
    return o, exc


def run_history(job):
    cid, lvl, init, ops, connected = job
    gfapy = _load_gfapy()
    hi = HINITS[init]
    text = "S\tA\t*" + ("\t" + hi["text"] if hi["text"] else "")
    if connected:
        gfa = gfapy.Gfa(vlevel=lvl, version="gfa1")
        for ln in (text, "S\tB\t*", "L\tA\t+\tB\t-\t*"):
            gfa.add_line(ln)
        line = gfa.segment("A")
    else:
        line = gfapy.Line(text, vlevel=lvl)
    tag = "xx"
    steps, excs = [], []
    for k, a in ops:
        assigned = None
        op = {"k": k, "v": NOVAL, "t": "-"}
        if k == "set":
            assigned = mk(HVALS[a]["py"])
            op["v"] = HVALS[a]["v"]
            r, _, e = guarded(lambda: line.set(tag, assigned))
        elif k == "delete":
            r, _, e = guarded(lambda: line.delete(tag))
        elif k == "setnone":
            r, _, e = guarded(lambda: line.set(tag, None))
        elif k == "setdt":
            op["t"] = a
            r, _, e = guarded(lambda: line.set_datatype(tag, a))
        else:
            raise MachineryError("unknown history op " + k)
        o, exc = _observe_tag(gfapy, line, tag, lvl, assigned if r == "ok" else None)
        o["set"] = r
        steps.append({"op": op, "o": o})
        excs.append([e] + exc)
    return {"id": cid, "lvl": lvl, "init": {"present": hi["present"], "dt": hi["dt"], "v": hi["v"]},
            "steps": steps}, {"exc": excs, "text": project.safe_str(line)}


# ---- histories of one custom tag on TWO lines: a line and a copy the library made of it (clone(),
# or the segment made by multiply()).  Every call acts on one of the two; after every call BOTH
# are observed.  TraceFields (kind "chist") keeps one Fields!HState per line: a line's tag changes
# by the calls on that line only.

COPY_HOWS = ["clone", "clone.conn", "multiply"]


def run_copies_history(job):
    cid, lvl, init, ops, how = job
    gfapy = _load_gfapy()
    hi = HINITS[init]
    text = "S\tA\t*" + ("\t" + hi["text"] if hi["text"] else "")
    if how == "clone":
        line = gfapy.Line(text, vlevel=lvl)
    else:
        gfa = gfapy.Gfa(vlevel=lvl, version="gfa1")
        for ln in (text, "S\tB\t*", "L\tA\t+\tB\t-\t*"):
            gfa.add_line(ln)
        line = gfa.segment("A")
    if how == "multiply":
        r, _, e = guarded(lambda: gfa.multiply("A", 2))
        if r != "ok":
            raise MachineryError("multiply failed: " + e)
        copy = [x for x in gfa.segments if x.name not in ("A", "B")][0]
    else:
        r, copy, e = guarded(lambda: line.clone())
        if r != "ok":
            raise MachineryError("clone failed: " + e)
    tag = "xx"
    steps, excs = [], []

    def both(tgt, assigned, r):
        oo, e1 = _observe_tag(gfapy, line, tag, lvl, assigned if tgt == "orig" and r == "ok" else None)
        oc, e2 = _observe_tag(gfapy, copy, tag, lvl, assigned if tgt == "copy" and r == "ok" else None)
        oo["set"] = r if tgt == "orig" else "ok"
        oc["set"] = r if tgt == "copy" else "ok"
        return oo, oc, e1 + e2
    oo, oc, ex = both("orig", None, "ok")
    steps.append({"op": {"k": "none", "v": NOVAL, "t": "-"}, "tgt": "orig", "oo": oo, "oc": oc})
    excs.append(ex)
    for k, a, tgt in ops:
        x = line if tgt == "orig" else copy
        assigned = None
        op = {"k": k, "v": NOVAL, "t": "-"}
        if k == "set":
            assigned = mk(HVALS[a]["py"])
            op["v"] = HVALS[a]["v"]
            r, _, e = guarded(lambda: x.set(tag, assigned))
        elif k == "delete":
            r, _, e = guarded(lambda: x.delete(tag))
        elif k == "setnone":
            r, _, e = guarded(lambda: x.set(tag, None))
        elif k == "setdt":
            op["t"] = a
            r, _, e = guarded(lambda: x.set_datatype(tag, a))
        else:
            raise MachineryError("unknown history op " + k)
        oo, oc, ex = both(tgt, assigned, r)
        steps.append({"op": op, "tgt": tgt, "oo": oo, "oc": oc})
        excs.append([e] + ex)
    return {"id": cid, "lvl": lvl, "init": {"present": hi["present"], "dt": hi["dt"], "v": hi["v"]},
            "steps": steps}, {"exc": excs, "texts": [project.safe_str(line), project.safe_str(copy)]}


def copies_history_jobs(tier, seed, prop="C20"):
    alpha = [(k, a, t) for k, a in history_alphabet() for t in ("orig", "copy")]
    seqs = [(x,) for x in alpha if x[0] in ("set", "setdt")]
    for t in itertools.product(alpha, repeat=2):
        if any(k in ("set", "setdt") for k, _, _ in t):
            seqs.append(t)
    if tier != "quick":
        rnd = random.Random(seed + 1920)
        three = [t for t in itertools.product(alpha, repeat=3) if t[0][2] != t[1][2] or t[1][2] != t[2][2]]
        seqs += rnd.sample(three, 1500)
    jobs = []
    if tier == "quick":
        # (the quick tiers of the two properties share the ways of copying between them)
        plan = [(1, "clone"), (3, "clone.conn")] if prop == "C19" else [(1, "multiply"), (2, "clone.conn")]
        inits = ["new", "i", "A", "J", "B"]
    else:
        plan = [(l, h) for l in ((1, 3) if prop == "C19" else (1, 2)) for h in COPY_HOWS]
        inits = sorted(HINITS)
    for lvl, how in plan:
        for init in inits:
            for t in seqs:
                jobs.append((len(jobs), lvl, init, t, how))
    return jobs


def check_copies_histories(out, tier, seed, prop):
    jobs = copies_history_jobs(tier, seed, prop)
    res = _pmap(run_copies_history, jobs)
    rejects, n = validate_cases("chist", [r[0] for r in res], "fields-chist")
    groups = {}
    for cid, (clauses, at) in sorted(rejects.items()):
        c, info = res[cid]
        _, lvl, init, ops, how = jobs[cid]
        op = ops[at - 2] if at >= 2 else ("cloning", "", "")
        key = (",".join(clauses), how, op[0])
        g = groups.setdefault(key, dict(n=0, levels=set(), ex=None))
        g["n"] += 1
        g["levels"].add(lvl)
        rank = (at, len(ops), lvl, str(ops))
        if g["ex"] is None or rank < g["rank"]:
            g["ex"], g["rank"] = (cid, at), rank
    for key, g in sorted(groups.items()):
        cid, at = g["ex"]
        c, info = res[cid]
        _, lvl, init, ops, how = jobs[cid]
        calls = []
        for (k, a, tgt), st in zip((("made the copy", "", "orig"),) + tuple(ops[:at - 1]), c["steps"]):
            calls.append("%s %s(%s) -> original: datatype %s written %r%s; copy: datatype %s written %r%s" % (
                "" if k == "made the copy" else "on the " + ("original" if tgt == "orig" else "copy"), k,
                json.dumps(HVALS[a]["py"]) if k == "set" else a,
                st["oo"]["dt"], "".join(st["oo"]["wchars"]), " [# INVALID]" if st["oo"]["mark"] else "",
                st["oc"]["dt"], "".join(st["oc"]["wchars"]), " [# INVALID]" if st["oc"]["mark"] else ""))
        out.violations.append(dict(
            family=FAM, kind="chist", clauses=key[0].split(","),
            input="tag xx (%s) on S line A and its copy (%s): %s" % (
                init if init == "new" else HINITS[init]["text"], how,
                "; ".join("%s(%s) on %s" % (k, a, t) for k, a, t in ops[:max(at - 1, 0)])),
            api="Line.clone / Gfa.multiply + Line.set/delete/set_datatype on either line", levels=sorted(g["levels"]),
            occurrences=g["n"], chistory=dict(lvl=lvl, init=init, ops=[list(x) for x in ops], how=how), rejected_call=at,
            what="%s: xx (%s), copy by %s, vlevel %s: %s; %d histories" % (
                key[0], init, how, sorted(g["levels"]), "; ".join(calls), g["n"])))
    nontrivial = sum(1 for c, i in res if len(c["steps"]) >= 3 and c["steps"][1]["tgt"] != c["steps"][2]["tgt"])
    if prop == "C20":
        out.add_cov(evaluations=len(jobs), distinct_nontrivial=nontrivial, cases_validated_by_tlc=n)
    else:
        out.add_cov(states=n, transitions=n, traces_validated_against_impl=n)
    out.add_cov(two_line_tag_histories=len(jobs), two_line_tag_histories_touching_both_lines=nontrivial)
    if res:
        k = len(res) // 3
        c, i = res[k]
        out.samples.append({"two-line history": [list(x) for x in jobs[k][3]], "init": jobs[k][2], "copy by": jobs[k][4],
                            "vlevel": jobs[k][1], "datatypes original/copy": [[st["oo"]["dt"], st["oc"]["dt"]] for st in c["steps"]]})
    return n


def history_jobs(tier, seed):
    alpha = history_alphabet()
    seqs = []
    for n in (1, 2, 3) if tier == "quick" else (1, 2, 3, 4):
        for t in itertools.product(alpha, repeat=n):
            if any(k == "set" for k, _ in t):
                seqs.append(t)
    jobs = []
    if tier == "quick":
        plan = [(1, False, 3, None), (3, False, 3, None), (2, True, 3, None)]
        inits = ["new", "i", "Z", "J", "B", "H"]
    else:
        plan = [(l, c, 3, None) for l in (1, 2, 3) for c in (False, True)] + [(1, False, 4, ["new", "i"])]
        inits = sorted(HINITS)
    seen = set()
    for lvl, connected, maxlen, only in plan:
        for init in (only or inits):
            for t in seqs:
                if len(t) <= maxlen and (lvl, connected, init, t) not in seen:
                    seen.add((lvl, connected, init, t))
                    jobs.append((len(jobs), lvl, init, t, connected))
    return jobs


def check_histories(out, tier, seed):
    jobs = history_jobs(tier, seed)
    res = _pmap(run_history, jobs)
    rejects, n = validate_cases("hist", [r[0] for r in res], "fields-hist")
    groups = {}
    for cid, (clauses, at) in sorted(rejects.items()):
        c, info = res[cid]
        _, lvl, init, ops, connected = jobs[cid]
        # the calls that matter: from the last removal / datatype declaration before the rejected call
        key = (",".join(clauses), ops[at - 1][0], ops[at - 1][1] if ops[at - 1][0] != "set" else "",
               c["steps"][at - 1]["o"]["dt"])
        g = groups.setdefault(key, dict(n=0, levels=set(), ex=None))
        g["n"] += 1
        g["levels"].add(lvl)
        rank = (at, len(ops), init != "new", connected, lvl, ops)
        if g["ex"] is None or rank < g["rank"]:
            g["ex"], g["rank"] = (cid, at), rank
    for key, g in sorted(groups.items()):
        cid, at = g["ex"]
        c, info = res[cid]
        _, lvl, init, ops, connected = jobs[cid]
        calls = []
        for (k, a), st, ex in zip(ops[:at], c["steps"], info["exc"]):
            o = st["o"]
            calls.append("%s(%s) -> %s, datatype %s, written %r%s" % (
                k, json.dumps(HVALS[a]["py"]) if k == "set" else a, o["set"], o["dt"], "".join(o["wchars"]),
                " [# INVALID]" if o["mark"] else ""))
        out.violations.append(dict(
            family=FAM, kind="hist", clauses=key[0].split(","),
            input="tag xx (%s) on %s line: %s" % (init if init == "new" else HINITS[init]["text"],
                                                "a connected" if connected else "a stand-alone",
                                                "; ".join("%s(%s)" % (k, a) for k, a in ops[:at])),
            api="Line.set/delete/set_datatype + get_datatype/field_to_s/str/Line(str)", levels=sorted(g["levels"]),
            occurrences=g["n"], history=dict(lvl=lvl, init=init, ops=[list(x) for x in ops], connected=connected),
            rejected_call=at,
            what="%s: xx (%s, %s line): %s at vlevel %s; %d histories" % (
                key[0], init, "connected" if connected else "stand-alone", "; ".join(calls), sorted(g["levels"]), g["n"])))
    nontrivial = sum(1 for c, i in res if sum(1 for st in c["steps"] if st["o"]["rb"]["res"] == "ok") >= 2)
    out.add_cov(evaluations=len(jobs), tag_histories=len(jobs), tag_histories_with_two_readbacks=nontrivial,
                distinct_nontrivial=nontrivial, cases_validated_by_tlc=n)
    if res:
        c, i = res[len(res) // 2]
        j = jobs[len(res) // 2]
        out.samples.append({"history": [list(x) for x in j[3]], "init": j[2], "vlevel": j[1], "connected": j[4],
                            "datatypes": [st["o"]["dt"] for st in c["steps"]],
                            "written": ["".join(st["o"]["wchars"]) for st in c["steps"]]})
    return n


def gvalue_jobs(tier, seed):
    """The value table of C20 on the carriers GCARRIERS.  Quick tier: every (value, mode) on the
    header at two of the four levels, on the repeated header tag and the connected lines at one."""
    rnd = random.Random(seed + 2020)
    jobs = []
    k = 0
    for val, modes in c20_values(tier, seed):
        for mode in modes:
            k += 1
            for ci, carrier in enumerate(GCARRIERS):
                if carrier == "HH" and val["v"]["k"] == "str" and mode not in ("new", "Z", "A"):
                    # encoded strings added to a repeated tag stay encoded inside the FieldArray: the
                    # comparison with the parsed read-back would compare representations, not values
                    continue
                if tier == "quick":
                    if carrier == "H":
                        lvls = [k % 4, (k + 2 + (k // 4) % 2) % 4]
                    elif carrier in GLATER:
                        # (not level 0: merging reads the tags of the earlier line, and a read at level 0
                        # decodes without validating -- Fields!Step, "get")
                        lvls = [1 + (k + ci) % 3]
                    elif carrier == "HH":
                        lvls = [(k + ci) % 4]
                    else:
                        lvls = [(k + ci) % 4] if (k + ci) % 2 == 0 else []
                elif carrier == "H":
                    lvls = [0, 1, 2, 3]
                elif carrier == "HH":
                    lvls = [1 + k % 2, 3 * (k % 2)]
                elif carrier in GLATER:
                    lvls = [1 + k % 2, 3 - k % 2] if k % 2 == 0 else [2, 3]
                else:
                    lvls = [k % 2, 2 + (k + ci) % 2]
                for lvl in lvls:
                    jobs.append((len(jobs), lvl, mode, val, carrier, (k + lvl) % 2))
    return jobs


def check_gvalues(out, tier, seed):
    jobs = gvalue_jobs(tier, seed)
    res = _pmap(run_gvalue, jobs)
    rejects, n = validate_cases("gval", [r[0] for r in res], "fields-gval")
    groups = {}
    nontrivial = set()
    npaths = 0
    for (c, info), j in zip(res, jobs):
        npaths += sum(len(v) for v in info["vias"])
        if c["outs"] and all(o["rb"]["res"] == "ok" for o in c["outs"]):
            nontrivial.add((json.dumps(j[3]["py"]), j[2], j[4]))
    for cid, (clauses, at) in sorted(rejects.items()):
        c, info = res[cid]
        _, lvl, mode, val, carrier, how = jobs[cid]
        vias = info["vias"][at - 1] if at and at <= len(info["vias"]) else info.get("base", ["field_to_s"])
        o = c["outs"][at - 1] if at else c
        kind = val["v"]["k"] + "/" + val["v"]["el"]
        pattern = (c["set"], c["add2"], c["vf"], c["val"], o["w"], o["s"], o["mark"], o["rb"]["res"], o["rb"]["dt"] == c["dt"],
                   o["rb"]["eq"], o["rb"]["eqv"], o.get("n", 1) == c["nadd"])
        key = (",".join(clauses), kind, mode, carrier, tuple(sorted(set(vias))), pattern)
        g = groups.setdefault(key, dict(levels=set(), n=0, ex=None, values=set()))
        g["levels"].add(lvl)
        g["n"] += 1
        if len(g["values"]) < 12:
            g["values"].add(json.dumps(val["py"]))
        if g["ex"] is None:
            g["ex"] = (cid, c, info, o, vias)
    for key, g in sorted(groups.items(), key=lambda kv: str(kv[0])):
        cid, c, info, o, vias = g["ex"]
        obs = {k: c[k] for k in ("set", "add2", "dt", "vf", "val", "nadd")}
        obs.update(path=sorted(set(vias)), written="".join(o["wchars"]), w=o["w"], s=o["s"], mark=o["mark"], rb=o["rb"],
                   occurrences=o.get("n", 1), written_by_field_to_s="".join(c["wchars"]))
        pyv = json.dumps(jobs[cid][3]["py"])
        out.violations.append(dict(
            family=FAM, kind="gval", clauses=key[0].split(","),
            input="value=%s tag=%s carrier=%s written through %s" % (pyv, key[2], key[3], "/".join(sorted(set(vias)))),
            api="Gfa + Line.set/add + str(gfa)/gfa.lines/gfa.headers/to_file/to_gfa*_s/to_gfa2/clone", levels=sorted(g["levels"]),
            occurrences=g["n"], values_like_this=sorted(g["values"]),
            gcase=dict(lvl=jobs[cid][1], mode=key[2], val=jobs[cid][3], carrier=key[3], how=jobs[cid][5]), observed=obs,
            exc=[e for e in info["exc"] if e],
            what="%s: xx(%s) = %s on %s of a Gfa, written through %s at vlevel %s (%d cases like this) -> %s" % (
                key[0], key[2], pyv, {"H": "the header", "HH": "the header (tag added twice)", "gS": "a connected segment",
                                      "gL": "a connected link", "gO2": "an O group defined on two lines",
                                      "gU2": "a U group defined on two lines"}[key[3]],
                "/".join(sorted(set(vias))), sorted(g["levels"]), g["n"], json.dumps(obs))))
    out.add_cov(gfa_tag_cases=len(jobs), gfa_tag_cases_written_and_read_back_through_every_path=len(nontrivial),
                gfa_write_path_observations=npaths, gfa_tag_carriers=len(GCARRIERS))
    out.add_cov(evaluations=len(jobs), cases_validated_by_tlc=n, distinct_nontrivial=len(nontrivial))
    if res:
        c, info = res[len(res) // 2]
        j = jobs[len(res) // 2]
        out.samples.append({"value": j[3]["py"], "mode": j[2], "vlevel": j[1], "carrier": j[4],
                            "written": ["".join(o["wchars"]) for o in c["outs"]], "paths": info["vias"]})
    return n


def check_c20(out, tier, seed):
    _check_values(out, tier, seed)
    check_gvalues(out, tier, seed)
    check_histories(out, tier, seed)
    check_copies_histories(out, tier, seed, "C20")
    out.cov["rule"] = (out.cov["rule"] + "; tag history = (initial tag, sequence of set/delete/set(None)/"
                       "set_datatype calls, vlevel, stand-alone or connected line), judged after every call; "
                       "non-trivial = at least two calls after which the tag was written and parsed back")
    out.assumptions.append(
        "tag histories: set(tag, None) is taken to be the same removal as delete(tag) (doc/tutorial/tags.rst: "
        "\"To remove a tag from a line, use the delete(fieldname) method, or set its value to None\"); "
        "histories run at vlevel >= 1 (at level 0 parsed values are still encoded strings)")


def _check_values(out, tier, seed):
    vals = c20_values(tier, seed)
    jobs = []
    for val, modes in vals:
        for mode in modes:
            for lvl in range(4):
                jobs.append((len(jobs), lvl, mode, val))
    res = _pmap(run_value, jobs)
    rejects, n = validate_cases("val", [r[0] for r in res], "fields-val")
    nontrivial = set()
    for (c, info), j in zip(res, jobs):
        if c["rb"]["res"] == "ok":
            nontrivial.add((json.dumps(j[3]["py"]), j[2]))
    groups = {}
    for cid, (clauses, _) in sorted(rejects.items()):
        c, info = res[cid]
        _, lvl, mode, val = jobs[cid]
        # one violation per (clauses, kind of value, tag mode, what was observed); the values of a
        # group are listed with it
        kind = val["v"]["k"] + "/" + val["v"]["el"]
        ident = kind
        pattern = (c["set"], c["vf"], c["val"], c["w"], c["s"], c["mark"], c["rb"]["res"], c["rb"]["eq"], c["rb"]["eqv"])
        key = (",".join(clauses), ident, mode, pattern)
        g = groups.setdefault(key, dict(levels=set(), n=0, ex=None, values=set()))
        g["levels"].add(lvl)
        g["n"] += 1
        if len(g["values"]) < 12:
            g["values"].add(json.dumps(val["py"]))
        if g["ex"] is None:
            g["ex"] = (cid, c, info)
    for key, g in sorted(groups.items(), key=lambda kv: (kv[0][0], kv[0][1], kv[0][2], str(kv[0][3]))):
        cid, c, info = g["ex"]
        obs = {k: c[k] for k in ("set", "dt", "vf", "val", "w", "s", "mark", "rb")}
        obs["written"] = "".join(c["wchars"])
        pyv = json.dumps(jobs[cid][3]["py"])
        out.violations.append(dict(
            family=FAM, kind="val", clauses=key[0].split(","), input="value=%s tag=%s" % (pyv, key[2]),
            api="Line.set/get_datatype/validate/field_to_s/str + Line(str)", levels=sorted(g["levels"]),
            occurrences=g["n"], values_like_this=sorted(g["values"]),
            case=dict(lvl=jobs[cid][1], mode=key[2], val=jobs[cid][3]), observed=obs, exc=info["exc"],
            what="%s: xx(%s) = %s at vlevel %s (%d cases like this) -> %s %s" % (
                key[0], key[2], pyv, sorted(g["levels"]), g["n"], json.dumps(obs), [e for e in info["exc"] if e])))
    out.add_cov(evaluations=len(jobs), distinct_nontrivial=len(nontrivial), exhaustive=False,
                values=len(vals), cases_validated_by_tlc=n,
                rule="one case = (Python value, new tag or declared datatype, vlevel); non-trivial = distinct "
                     "(value, tag mode) that was accepted, written without error and parsed back")
    for (c, info), j in list(zip(res, jobs))[:: max(1, len(jobs) // 4)][:4]:
        out.samples.append({"value": j[3]["py"], "mode": j[2], "vlevel": j[1], "datatype": c["dt"],
                            "written": "".join(c["wchars"]), "readback": c["rb"]})
    out.assumptions += [
        "TLC and the TLA+ semantics of spec/Fields.tla (DefaultDTs, Representable, Subtypes, recognisers), TraceFields.tla",
        "the value table of harness/fam_fields.py (c20_values): integers are built from symbolic triples sg*2^e+d, "
        "strings from their characters, floats from literals whose finiteness is cross-checked with math.isfinite",
        "equality of the read-back value is gfapy's / Python's own == (plus repr for floats, so -0.0 is told from 0.0)",
        "J grammar is checked coarsely (bracketed, printable); JSON strings used as encoded values are chosen so that "
        "the coarse recogniser is exact on them",
    ]


PROPS = {"C18": (check_c18, "model_checking"), "C19": (check_c19, "model_checking"),
         "C20": (check_c20, "exploration")}


# --------------------------------------------------------------------------
# replay of one recorded violation

def replay(prop, v, path):
    _init_worker()
    kind = v.get("kind")
    if kind == "prog":
        p = v["program"]
        case, vals = run_program((0, p["lvl"], p["key"], tuple(p["codes"]), p["offset"], p["lax"],
                                  p.get("force", [])))
        for e, (val, exc) in zip(case["ev"], vals):
            print("  %-8s %-12s %s -> %s%s%s" % (e["k"], e["c"], json.dumps(val) if val else "", e["res"],
                                               " (" + exc + ")" if exc else "", " [# INVALID]" if e["mark"] else ""))
        rej, _ = validate_cases("prog", [case], "fields-replay")
    elif kind == "gprog":
        p = v["gprogram"]
        lst = run_gfa_program((p["doc"], p["path"], p["lvl"], tuple(p["codes"]), p["offset"], p.get("seqfield", False)))
        hit = [(c, i) for c, i in lst if i["subject"] == p["subject"]]
        if not hit:
            print("subject %s not found" % p["subject"])
            return 2
        case, info = hit[0]
        print("  %s via %s at vlevel %d: subject %s = %r, line.vlevel = %d" % (
            p["doc"], p["path"], p["lvl"], p["subject"], info["text"], case["linelvl"]))
        for e, (val, exc) in zip(case["ev"], info["vals"]):
            print("  %-8s %-12s %s -> %s%s%s" % (e["k"], e["c"], json.dumps(val) if val else "", e["res"],
                                               " (" + exc + ")" if exc else "", " [# INVALID]" if e["mark"] else ""))
        rej, _ = validate_cases("prog", [case], "fields-replay")
    elif kind == "hadd":
        p = v["hprogram"]
        lst = run_header_add_program((p["doc"], p["path"], p["lvl"], tuple(p["codes"]), p["offset"], p["assign"]))
        case, info = [(c, i) for c, i in lst if i["subject"] == p["subject"]][0]
        print("  header %r of %s via %s at vlevel %d, %s" % (info["text"], p["doc"], p["path"], p["lvl"], p["assign"]))
        for e, (val, exc) in zip(case["ev"], info["vals"]):
            print("  %-8s %-12s %s -> %s%s%s" % (e["k"], e["c"], json.dumps(val) if val else "", e["res"],
                                               " (" + exc + ")" if exc else "", " [# INVALID]" if e["mark"] else ""))
        rej, _ = validate_cases("prog", [case], "fields-replay")
    elif kind == "dprog":
        p = v["dprogram"]
        lst = run_derived_program((p["doc"], p["op"], p["lvl"], tuple(p["codes"]), p["offset"], p.get("seqfield", False)))
        hit = [(c, i) for c, i in lst if i["subject"] == p["subject"]]
        if not hit:
            print("subject %s not found" % p["subject"])
            return 2
        case, info = hit[0]
        print("  %s, %s at vlevel %d: subject %s = %r, line.vlevel = %d" % (
            p["doc"], p["op"], p["lvl"], p["subject"], info["text"], case["linelvl"]))
        for e, (val, exc) in zip(case["ev"], info["vals"]):
            print("  %-8s %-12s %s -> %s%s%s" % (e["k"], e["c"], json.dumps(val) if val else "", e["res"],
                                               " (" + exc + ")" if exc else "", " [# INVALID]" if e["mark"] else ""))
        rej, _ = validate_cases("prog", [case], "fields-replay")
    elif kind == "gval":
        c = v["gcase"]
        case, info = run_gvalue((0, c["lvl"], c["mode"], c["val"], c["carrier"], c["how"]))
        print("  ", {k: case[k] for k in ("set", "add2", "dt", "vf", "val", "w", "s", "mark", "rb")}, "".join(case["wchars"]))
        for o, vias in zip(case["outs"], info["vias"]):
            print("   %s: %s %r%s occurrences %d read back %s" % ("/".join(sorted(set(vias))), o["s"], "".join(o["wchars"]),
                                                                " [# INVALID]" if o["mark"] else "", o["n"], o["rb"]))
        rej, _ = validate_cases("gval", [case], "fields-replay")
    elif kind == "lvl":
        case, info = run_doc((0, v["doc"], v["opdoc"], v["op"]) if v.get("op") else (0, v["doc"]))
        for k, x in enumerate(info):
            print("  vlevel %d: %s" % (k, x))
        rej, _ = validate_cases("lvl", [case], "fields-replay")
    elif kind == "clone":
        case, info = run_clone((0, v["subject"], tuple(v.get("reads", []))))
        print("  ", info, {k: case[k] for k in ("cl", "eq", "eqr", "isconn", "gfa")})
        for p, st in zip(v.get("reads", []), case["steps"]):
            print("   %-14s -> %s  clone == original: %s  original == clone: %s  texts kept: %s" % (
                p, st["res"], st["eq"], st["eqr"], st["same"]))
        rej, _ = validate_cases("clone", [case], "fields-replay")
    elif kind == "edit":
        case, info = run_edit((0, v["subject"], v["target"], v["edit"]))
        print("  edit %s of the %s -> %s %s" % (json.dumps(v["edit"]), v["target"], case["res"], info["exc"]))
        print("  other copy: %r -> %r" % (case["ob"], case["oa"]))
        print("  gfa changed: %s" % (case["gb"] != case["ga"]))
        rej, _ = validate_cases("edit", [case], "fields-replay")
    elif kind == "chist":
        h = v["chistory"]
        case, info = run_copies_history((0, h["lvl"], h["init"], tuple(tuple(x) for x in h["ops"]), h["how"]))
        for (k, a, t), st in zip([("copy made", "", "")] + [tuple(x) for x in h["ops"]], case["steps"]):
            print("  %-9s %-8s %-5s original: %s %r%s  copy: %s %r%s" % (
                k, a, t, st["oo"]["dt"], "".join(st["oo"]["wchars"]), " [# INVALID]" if st["oo"]["mark"] else "",
                st["oc"]["dt"], "".join(st["oc"]["wchars"]), " [# INVALID]" if st["oc"]["mark"] else ""))
        rej, _ = validate_cases("chist", [case], "fields-replay")
    elif kind == "hist":
        h = v["history"]
        case, info = run_history((0, h["lvl"], h["init"], tuple(tuple(x) for x in h["ops"]), h["connected"]))
        for (k, a), st in zip(h["ops"], case["steps"]):
            o = st["o"]
            print("  %-8s %-8s -> %s  datatype %s  written %r%s  readback %s" % (
                k, a, o["set"], o["dt"], "".join(o["wchars"]), " [# INVALID]" if o["mark"] else "", o["rb"]))
        rej, _ = validate_cases("hist", [case], "fields-replay")
    elif kind == "val":
        c = v["case"]
        case, info = run_value((0, c["lvl"], c["mode"], c["val"]))
        print("  ", {k: case[k] for k in ("set", "dt", "vf", "val", "w", "s", "mark", "rb")},
              "".join(case["wchars"]), info["exc"])
        rej, _ = validate_cases("val", [case], "fields-replay")
    else:
        print("unknown violation kind", kind)
        return 2
    if 0 in rej:
        print("REJECT clauses=%s" % ",".join(rej[0][0]))
        print("VIOLATION property=%s replay=%s" % (prop, path))
        return 1
    print("replay passes")
    return 0


# --------------------------------------------------------------------------
# selftest: corrupted records must be rejected with the expected clause

def _expect(kind, case, clause, label, fails):
    rej, _ = validate_cases(kind, [case], "fields-selftest")
    got = rej.get(case["id"], ([], 0))[0]
    ok = (clause in got) if clause else (got == [])
    print("selftest %-46s expect %-28s got %s %s" % (label, clause or "(accepted)", got, "ok" if ok else "FAILED"))
    if not ok:
        fails.append(label)


def selftest(mutant=True):
    _init_worker()
    fails = []
    # ---- C18 programs (recorded from gfapy on fields without known defects, then corrupted)
    c, _ = run_program((0, 3, "i:xi", ("set.wrongsyntax", "validate"), 0, False))
    _expect("prog", c, None, "prog: invalid set at level 3 refused", fails)
    d = copy.deepcopy(c); d["ev"][0].update(res="ok", kept="F")
    _expect("prog", d, "C18.level3-not-at-set", "prog: pretend level 3 stored it", fails)
    d = copy.deepcopy(c); d["ev"][0].update(kept="F")
    _expect("prog", d, "C18.level3-not-at-set", "prog: pretend value changed by refused set", fails)
    c, _ = run_program((0, 2, "i:xi", ("set.wrongsyntax", "write", "str"), 0, False))
    _expect("prog", c, None, "prog: level 2 write reports", fails)
    d = copy.deepcopy(c); d["ev"][1].update(res="ok")
    _expect("prog", d, "C18.level2-not-at-write", "prog: pretend level 2 write silent", fails)
    d = copy.deepcopy(c); d["lvl"] = 1; d["linelvl"] = 1; d["ev"][1].update(res="ok")
    _expect("prog", d, None, "prog: level 1 write may be silent", fails)
    d = copy.deepcopy(c); d["linelvl"] = 1
    _expect("prog", d, "C18.level-not-propagated", "prog: pretend the line works at another level", fails)
    c, _ = run_program((0, 1, "Z:xz", ("set.wrongsyntax", "validate", "vfield"), 0, False))
    _expect("prog", c, None, "prog: validate reports at level 1", fails)
    d = copy.deepcopy(c); d["ev"][2].update(res="ok")
    _expect("prog", d, "C18.validate-missed", "prog: pretend validate_field passed", fails)
    c, _ = run_program((0, 0, "i:xi", ("set.valid", "get", "str", "validate"), 0, False))
    _expect("prog", c, None, "prog: valid set", fails)
    d = copy.deepcopy(c); d["ev"][0].update(res="Error", kept="T")
    _expect("prog", d, "C18.valid-rejected", "prog: pretend valid set refused", fails)
    d = copy.deepcopy(c); d["ev"][2].update(mark=True)
    _expect("prog", d, "C18.valid-rejected", "prog: pretend valid line marked INVALID", fails)
    d = copy.deepcopy(c); d["ev"][1].update(res="FOREIGN")
    _expect("prog", d, "foreign", "prog: pretend foreign exception", fails)
    # ---- C18 documents
    c, _ = run_doc((0, ["S\tA\t*\txx:i:1", "S\tB\t*", "L\tA\t+\tB\t-\t2M"]))
    _expect("lvl", c, None, "lvl: document equal at all levels", fails)
    d = copy.deepcopy(c); d["r"][0]["lines"][0]["tags"] = ["xx:i:2"]
    _expect("lvl", d, "C18.level-dependence", "lvl: pretend level 0 wrote another tag", fails)
    d = copy.deepcopy(c); d["r"][2]["dig"] = "0"
    _expect("lvl", d, "C18.level-dependence", "lvl: pretend level 2 built another graph", fails)
    d = copy.deepcopy(c); d["r"][1]["res"] = "Error"; d["r"][1]["lines"] = []
    _expect("lvl", d, "C18.not-monotone", "lvl: pretend level 1 refused", fails)
    # ---- C19
    sub = dict(mode="conn", doc=DT_LINES1, idx=None)
    gfa, _ = get_subject(dict(sub, idx=0))
    idx = [i for i, o in enumerate(gfa.lines) if o.record_type == "P"][0]
    sub["idx"] = idx
    c, _ = run_clone((0, sub))
    _expect("clone", c, None, "clone: path", fails)
    d = copy.deepcopy(c); d["eq"] = "F"
    _expect("clone", d, "C19.not-equal", "clone: pretend != ", fails)
    d = copy.deepcopy(c); d["c"]["pos"][2] = "A+,C-"
    _expect("clone", d, "C19.text-differs", "clone: pretend other text", fails)
    d = copy.deepcopy(c); d["isconn"] = "T"
    _expect("clone", d, "C19.not-detached", "clone: pretend connected", fails)
    d = copy.deepcopy(c); d["gfa"] = "some"
    _expect("clone", d, "C19.not-detached", "clone: pretend gfa set", fails)
    lidx = [i for i, o in enumerate(gfa.lines) if o.record_type == "L" and not o.virtual][0]
    sub = dict(sub, idx=lidx)
    ed = dict(kind="inplace", path=["overlap", ["i", 0]], act=["setattr", "length"])
    c, i = run_edit((0, sub, "clone", ed))
    if i["tb"] == i["ta"]:
        fails.append("edit did not change its target")
    _expect("edit", c, None, "edit: CIGAR operation of the clone", fails)
    d = copy.deepcopy(c); d["oa"] = i["ta"]
    _expect("edit", d, "C19.shared-state", "edit: pretend the original changed too", fails)
    d = copy.deepcopy(c); d["ga"] = d["gb"].replace("2M1D", "9M1D")
    _expect("edit", d, "C19.shared-state", "edit: pretend the Gfa changed", fails)
    # ---- C20
    c, _ = run_value((0, 2, "new", v_ints([(0, 0, 1), (1, 8, 0)], True)))
    _expect("val", c, None, "val: NumericArray [1, 256]", fails)
    d = copy.deepcopy(c); d["dt"] = "J"
    _expect("val", d, "C20.datatype", "val: pretend datatype J", fails)
    d = copy.deepcopy(c); d["wchars"][5] = "I"
    _expect("val", d, "C20.subtype", "val: pretend subtype I", fails)
    d = copy.deepcopy(c); d["wchars"][7] = "\t"
    _expect("val", d, "C20.grammar", "val: pretend a tab was written", fails)
    d = copy.deepcopy(c); d["rb"]["eq"] = "F"
    _expect("val", d, "C20.readback", "val: pretend read back differs", fails)
    d = copy.deepcopy(c); d["rb"]["dt"] = "J"
    _expect("val", d, "C20.readback", "val: pretend read back datatype differs", fails)
    c, _ = run_value((0, 2, "Z", v_str("a\tb")))
    _expect("val", c, None, "val: tab in Z reported", fails)
    d = copy.deepcopy(c); d["val"] = "ok"
    _expect("val", d, "C20.unrepresentable-emitted", "val: pretend validate passed", fails)
    d = copy.deepcopy(c); d.update(w="ok", wchars=list("xx:Z:a\tb"))
    _expect("val", d, "C20.unrepresentable-emitted", "val: pretend level 2 wrote it", fails)
    c, _ = run_value((0, 1, "new", v_int(1, 63, 1)))
    _expect("val", c, None, "val: 2^63+1", fails)
    d = copy.deepcopy(c); d["dt"] = "f"; d["wchars"][3] = "f"
    _expect("val", d, "C20.datatype", "val: pretend int got f", fails)
    # ---- C18: a line obtained from a Gfa
    lst = run_gfa_program(("g2.S-first", "text", 3, ("set.wrongsyntax", "str"), 0, False))
    c = [x for x, i in lst if i["subject"].endswith("E.xx")][0]
    _expect("prog", c, None, "gprog: edge of a Gfa at level 3", fails)
    d = copy.deepcopy(c); d["linelvl"] = 1
    _expect("prog", d, "C18.level-not-propagated", "gprog: pretend the edge works at level 1", fails)
    d = copy.deepcopy(c); d["ev"][0].update(res="ok", kept="F")
    _expect("prog", d, "C18.level3-not-at-set", "gprog: pretend the Gfa's level 3 did not refuse", fails)
    # ---- C20 tag histories
    ops = (("set", "int"), ("delete", ""), ("set", "str"))
    c, _ = run_history((0, 1, "new", ops, False))
    _expect("hist", c, None, "hist: set 12, delete, set 'hello'", fails)
    d = copy.deepcopy(c); d["steps"][1]["o"]["dt"] = "i"
    _expect("hist", d, "C20.datatype", "hist: pretend delete left the datatype i", fails)
    d = copy.deepcopy(c); d["steps"][2]["o"].update(dt="i", w="Error", wchars=[], mark=True)
    d["steps"][2]["o"]["rb"] = {"res": "-", "dt": "-", "eq": "-", "eqv": "-"}
    _expect("hist", d, "C20.datatype", "hist: pretend the new tag reused datatype i", fails)
    c, _ = run_history((0, 1, "new", (("setdt", "Z"), ("set", "str"), ("setdt", "i")), False))
    _expect("hist", c, None, "hist: declared datatype, then a datatype that cannot hold the value", fails)
    d = copy.deepcopy(c); d["steps"][2]["o"].update(val="ok", vf="ok")
    _expect("hist", d, "C20.unrepresentable-emitted", "hist: pretend validate accepted 'hello' as i", fails)
    # ---- C20: a tag of a line of a Gfa, written through every path
    c, _ = run_gvalue((0, 2, "J", v_ints([(0, 0, 1), (0, 0, 2)], False), "H", 0))
    _expect("gval", c, None, "gval: header tag declared J holding [1, 2]", fails)
    d = copy.deepcopy(c); d["outs"][0].update(wchars=list("xx:B:C,1,2"))
    _expect("gval", d, "C20.datatype", "gval: pretend the Gfa wrote the tag as B", fails)
    d = copy.deepcopy(c); d["outs"][0]["rb"] = dict(d["outs"][0]["rb"], dt="B")
    _expect("gval", d, "C20.readback", "gval: pretend it is read back as B", fails)
    d = copy.deepcopy(c); d["outs"][0]["n"] = 0
    _expect("gval", d, "C20.readback", "gval: pretend the Gfa did not write the tag", fails)
    c, _ = run_gvalue((0, 1, "new", v_str("abc"), "HH", 1))
    _expect("gval", c, None, "gval: header tag added twice", fails)
    d = copy.deepcopy(c); d["outs"][0]["n"] = 1
    _expect("gval", d, "C20.readback", "gval: pretend only one of two values was written", fails)
    # ---- C19: equality after reads
    sub = dict(mode="line", text=DT_LINES1[2], version="gfa1", vlevel=0, prep=None)
    c, _ = run_clone((0, sub, ("get.clone", "str.orig")))
    _expect("clone", c, None, "clone: vlevel 0 link, clone read, then compared", fails)
    d = copy.deepcopy(c); d["steps"][0].update(eq="F")
    _expect("clone", d, "C19.not-equal", "clone: pretend != after reading the clone", fails)
    d = copy.deepcopy(c); d["steps"][1].update(eqr="F")
    _expect("clone", d, "C19.not-equal", "clone: pretend original != clone after str", fails)
    d = copy.deepcopy(c); d["eqr"] = "F"
    _expect("clone", d, "C19.not-equal", "clone: pretend original != clone at cloning time", fails)
    d = copy.deepcopy(c); d["steps"][0].update(res="Error")
    _expect("clone", d, "C19.read-rejected", "clone: pretend reading the clone raised", fails)
    # ---- C18: derived lines, operations at every level
    lst = run_derived_program(("d1", "multiply", 2, ("set.wrongsyntax", "str"), 0, False))
    c = [x for x, i in lst if i["subject"].endswith("L.xx")][-1]
    _expect("prog", c, None, "dprog: link made by multiply at level 2", fails)
    d = copy.deepcopy(c); d["linelvl"] = 0
    _expect("prog", d, "C18.level-not-propagated", "dprog: pretend the copy works at level 0", fails)
    d = copy.deepcopy(c); d["ev"][1].update(res="ok", mark=False)
    _expect("prog", d, "C18.level2-not-at-write", "dprog: pretend the copy wrote the invalid tag silently", fails)
    c, _ = run_doc((0, DDOCS["d1"]["lines"], "d1", "multiply"))
    _expect("lvl", c, None, "lvl: multiply at every level", fails)
    d = copy.deepcopy(c); d["r"][3].update(op="Error", lines=[], dig="-")
    _expect("lvl", d, "C18.level-dependence", "lvl: pretend multiply is refused at level 3", fails)
    d = copy.deepcopy(c); d["r"][1]["lines"] = d["r"][1]["lines"][:-1]
    _expect("lvl", d, "C18.level-dependence", "lvl: pretend level 1 wrote one line less after multiply", fails)
    # ---- round 3: metadata of the copies, two-line tag histories, group carriers, header add()
    sub = dict(mode="line", text=CUSTOM_RECORDS[3], version="gfa2")
    c, _ = run_clone((0, sub))
    _expect("clone", c, None, "clone: custom record with 10 positional fields", fails)
    d = copy.deepcopy(c); d["c"]["pos"][2], d["c"]["pos"][10] = d["c"]["pos"][10], d["c"]["pos"][2]
    _expect("clone", d, "C19.text-differs", "clone: pretend the clone permuted the columns", fails)
    d = copy.deepcopy(c); d["c"]["meta"] = d["c"]["meta"].replace('"field10", ', "").replace('"field1", ', '"field1", "field10", ')
    _expect("clone", d, "C19.metadata-differs", "clone: pretend the clone lists the field names in another order", fails)
    sub = dict(mode="line", text=NONCANON_LINES[0][0], version="gfa1", vlevel=0, prep=None, noread=True)
    c, _ = run_clone((0, sub))
    _expect("clone", c, None, "clone: vlevel 0 segment with non-canonically spelled tags", fails)
    d = copy.deepcopy(c); d["c"]["tags"][0] = 'xj:J:{"a": 1, "b": [1, 2]}'
    _expect("clone", d, "C19.text-differs", "clone: pretend the clone re-spelled the unparsed J tag", fails)
    ops = (("set", "int", "orig"), ("set", "str", "copy"))
    c, _ = run_copies_history((0, 1, "new", ops, "clone"))
    _expect("chist", c, None, "chist: new tag 12 on the original, 'hello' on the clone", fails)
    d = copy.deepcopy(c); d["steps"][1]["oc"]["dt"] = "i"
    _expect("chist", d, "C19.shared-state", "chist: pretend the clone got a datatype from the original's edit", fails)
    d = copy.deepcopy(c); d["steps"][2]["oc"].update(dt="i", w="Error", wchars=[], mark=True)
    d["steps"][2]["oc"]["rb"] = {"res": "-", "dt": "-", "eq": "-", "eqv": "-"}
    _expect("chist", d, "C20.datatype", "chist: pretend the clone's new tag took the original's datatype", fails)
    c, _ = run_copies_history((0, 1, "J", (("setdt", "B", "orig"),), "multiply"))
    _expect("chist", c, None, "chist: datatype of the original changed after multiply", fails)
    d = copy.deepcopy(c); d["steps"][1]["oc"]["dt"] = "B"
    _expect("chist", d, "C19.shared-state", "chist: pretend the multiplied copy changed datatype too", fails)
    c, _ = run_gvalue((0, 2, "A", v_str("c"), "gU2", 0))
    _expect("gval", c, None, "gval: A tag on the first line of a two-line U group", fails)
    d = copy.deepcopy(c); d["wchars"] = list("xx:Z:c"); d["dt"] = "Z"
    _expect("gval", d, "C20.datatype", "gval: pretend the merged group re-inferred the datatype", fails)
    lst = run_header_add_program(("h1.one-value", "text", 3, ("set.wrongsyntax", "validate"), 0, "add"))
    c = [x for x, i in lst if i["subject"] == "header.xx"][0]
    _expect("prog", c, None, "hadd: invalid add() at level 3 refused", fails)
    d = copy.deepcopy(c); d["ev"][0].update(res="ok", kept="F")
    _expect("prog", d, "C18.level3-not-at-set", "hadd: pretend level 3 accepted the invalid add()", fails)
    lst = run_header_add_program(("h1.two-values", "add", 1, ("set.valid", "str"), 0, "add+dt"))
    c = [x for x, i in lst if i["subject"] == "header.yy"][0]
    _expect("prog", c, None, "hadd: valid add() with datatype", fails)
    d = copy.deepcopy(c); d["ev"][0].update(res="Error", kept="T")
    _expect("prog", d, "C18.valid-rejected", "hadd: pretend the valid add() was refused", fails)
    # ---- a seeded mutant of gfapy: clone copies lists shallowly (survives the test-suite)
    if mutant:
        import shutil, subprocess, tempfile
        tmp = tempfile.mkdtemp(prefix="fields-mut-", dir="/tmp")
        try:
            dst = os.path.join(tmp, "repo")
            shutil.copytree(REPO, dst, ignore=shutil.ignore_patterns(".git"))
            fn = os.path.join(dst, "gfapy/line/common/cloning.py")
            src = open(fn).read()
            if "data_cpy[k] = deepcopy(v)" not in src:
                raise MachineryError("mutation point not found in cloning.py")
            open(fn, "w").write(src.replace("data_cpy[k] = deepcopy(v)", "data_cpy[k] = v[:]", 1))
            code = ("import sys, json; sys.path.insert(0, %r)\n"
                    "from harness import fam_fields as ff, report\n"
                    "out = report.Outcome('C19', 'quick', 1, 'model_checking')\n"
                    "ff.check_c19(out, 'quick', 1)\n"
                    "print('MUT', json.dumps(sorted({v['edit']['path'][0] for v in out.violations "
                    "if v['kind'] == 'edit' and 'C19.shared-state' in v['clauses']})))\n" % tlc.VERIF)
            env = dict(os.environ, VERIF_REPO=dst, VERIF_WORK=os.path.join(tmp, "work"))
            p = subprocess.run([sys.executable, "-c", code], env=env, stdout=subprocess.PIPE,
                               stderr=subprocess.STDOUT, text=True, timeout=1200)
            hit = [l for l in p.stdout.splitlines() if l.startswith("MUT ")]
            fields = json.loads(hit[0][4:]) if hit else []
            ok = "overlap" in fields and "alignment" in fields
            print("selftest mutant shallow list copy in clone: shared fields found %s %s" % (fields, "ok" if ok else "FAILED"))
            if not ok:
                print(p.stdout[-2000:])
                fails.append("mutant shallow clone")
        finally:
            shutil.rmtree(tmp, ignore_errors=True)
    print("selftest fields: %s" % ("PASS" if not fails else "FAIL " + repr(fails)))
    # (harness/selftest.py recognises a failure by a string starting with FAIL; as an exit status a
    # string is a failure too)
    return 0 if not fails else "FAIL " + repr(fails)


if __name__ == "__main__":
    if len(sys.argv) > 1 and sys.argv[1] == "selftest":
        sys.exit(selftest(mutant="--no-mutant" not in sys.argv))
