"""Family "fields": C18 (validation levels), C19 (clone), C20 (tag values).

TLC decides every verdict (spec/Fields.tla, MC_Fields.tla, TraceFields.tla).
This module only (1) asks TLC for the programs to run (MC_Fields, mode "enum"),
(2) drives the real gfapy and records what it did -- result classes, written
characters, object identities, booleans returned by gfapy's own == -- and
(3) hands the record to TraceFields."""
import json, os, random, signal, sys, time, itertools, copy
from multiprocessing import Pool as MPool

from . import tlc, report, project
from .tlc import MachineryError, NCPU
from .core import _load_gfapy, REPO, CATALOGUES, text_of

FAM = "fields"
TRACE_CFG = "SPECIFICATION Spec\nINVARIANT Judge\nCHECK_DEADLOCK FALSE\n"


# --------------------------------------------------------------------------
# guarded calls

class _Timeout(BaseException):
    pass


def _alarm(signum, frame):
    raise _Timeout()


def _init_worker():
    signal.signal(signal.SIGALRM, _alarm)
    _load_gfapy()


def guarded(fn, limit=5.0):
    """-> (result class, value, exception name).  Classes: ok / Error (any gfapy.Error) /
    FOREIGN (anything else, including non-termination)."""
    signal.setitimer(signal.ITIMER_REAL, limit)
    try:
        v = fn()
        return "ok", v, ""
    except _Timeout:
        return "FOREIGN", None, "timeout"
    except MachineryError:
        raise
    except BaseException as e:  # noqa
        c = project.errclass(e)
        return ("FOREIGN" if c == "FOREIGN" else "Error"), None, type(e).__name__
    finally:
        signal.setitimer(signal.ITIMER_REAL, 0)


def _pmap(fn, jobs, chunk=None):
    if not jobs:
        return []
    n = min(NCPU, max(1, len(jobs) // 50 + 1))
    if n == 1:
        _init_worker()
        return [fn(j) for j in jobs]
    with MPool(processes=n, initializer=_init_worker) as mp:
        return mp.map(fn, jobs, chunksize=chunk or max(1, len(jobs) // (n * 8) + 1))


# --------------------------------------------------------------------------
# value descriptors -> Python objects (the only place values are built)

def mk(d):
    gfapy = _load_gfapy()
    k, a = d["py"], d.get("a")
    if k == "int":
        return int(a)
    if k == "sym":                      # symbolic integer sg * 2^e + d
        return a[0] * 2 ** a[1] + a[2]
    if k == "float":
        return float(a)
    if k == "str":
        return str(a)
    if k == "json":
        return json.loads(a)
    if k == "symlist":
        return [x[0] * 2 ** x[1] + x[2] for x in a]
    if k == "floatlist":
        return [float(x) for x in a]
    if k == "na":
        return gfapy.NumericArray(mk(a))
    if k == "ba":
        return gfapy.ByteArray(list(a))
    if k == "cigar":
        return gfapy.Alignment(a, version="gfa1")
    if k == "cigar2":
        return gfapy.Alignment(a, version="gfa2")
    if k == "ph":
        return gfapy.Placeholder()
    if k == "aph":
        return gfapy.AlignmentPlaceholder()
    if k == "ol":
        return gfapy.OrientedLine(a[0], a[1])
    if k == "ollist":
        return [gfapy.OrientedLine(x[0], x[1]) for x in a]
    if k == "ciglist":
        return [gfapy.Alignment(x, version="gfa1") for x in a]
    if k == "lastpos":
        return gfapy.LastPos(a, valid=True)
    raise MachineryError("unknown value descriptor %r" % (d,))


def I(n): return {"py": "int", "a": n}
def F(s): return {"py": "float", "a": s}
def S(s): return {"py": "str", "a": s}
def J(s): return {"py": "json", "a": s}
def NA(d): return {"py": "na", "a": d}


WT_COMMON = [J("[1, 2]"), J('{"a": 1}')]     # wrong Python type for every scalar datatype

# --------------------------------------------------------------------------
# C18: the fields (one tag per tag datatype, one positional field per positional
# datatype), each with representatives of every value class the datatype has.
# "valid" / invalid is per the GFA specifications and doc/tutorial; strings are
# the encoded form of the value.

TAGLINE = 'S\tA\t*\txi:i:1\txf:f:0.5\txz:Z:abc\txa:A:c\txj:J:{"a": 1}\txh:H:0AFF\txb:B:c,1,-1'

FIELDS = [
    dict(name="xi", kind="tag", dt="i", line=TAGLINE, version="gfa1", classes={
        "valid": [I(5), S("12"), I(-7), S("-3")],
        "wrongtype": [J("[1, 2]"), F("1.5"), J('{"a": 1}')],
        "wrongsyntax": [S("A"), S("1.5"), S("12x"), S("")]}),
    dict(name="xf", kind="tag", dt="f", line=TAGLINE, version="gfa1", classes={
        "valid": [F("1.5"), S("3.25"), F("-2.5e10"), S("-1e-3")],
        "wrongtype": [J("[1.5]"), J('{"a": 1}')],
        "wrongsyntax": [S("abc"), S("1.5.2"), S("1e"), S("")]}),
    dict(name="xz", kind="tag", dt="Z", line=TAGLINE, version="gfa1", classes={
        "valid": [S("hello"), S("with space"), S("~!@")],
        "wrongtype": [I(5), J("[1, 2]"), J('{"a": 1}'), F("1.5")],
        "wrongsyntax": [S("a\tb"), S("a\nb"), S(""), S("\x01"), S("café")]}),
    dict(name="xa", kind="tag", dt="A", line=TAGLINE, version="gfa1", classes={
        "valid": [S("x"), S("~"), S("7")],
        "wrongtype": [I(5), J('["a"]')],
        "wrongsyntax": [S("ab"), S(" "), S(""), S("\t")]}),
    dict(name="xj", kind="tag", dt="J", line=TAGLINE, version="gfa1", classes={
        "valid": [J('{"b": [1, "x"]}'), S('{"k": [1, 2]}'), J('[1, "x", {"b": null}]'), S('["q"]')],
        "wrongtype": [I(5), F("1.5")],
        "wrongsyntax": [S("abc"), S('{"a":\t1}'), S("")]}),
    dict(name="xh", kind="tag", dt="H", line=TAGLINE, version="gfa1", classes={
        "valid": [{"py": "ba", "a": [1, 255]}, S("12AB"), {"py": "ba", "a": [0]}, S("00")],
        "wrongtype": [I(5), F("1.5"), J('{"a": 1}')],
        "wrongsyntax": [S("0af0"), S("XY"), S("")]}),
    dict(name="xb", kind="tag", dt="B", line=TAGLINE, version="gfa1", classes={
        "valid": [NA(J("[1, 2, 3]")), S("c,1,2"), NA(J("[1.5, 2.5]")), S("f,1.5"), NA(J("[-1, 300]"))],
        "wrongtype": [I(5), J('{"a": 1}'), F("1.5"), NA(J("[1, 2.5]"))],
        "wrongsyntax": [S("x,1"), S("c,"), S("c,1,a"), S(""), S("c")],
        "outofrange": [NA({"py": "symlist", "a": [[1, 32, 0]]}), NA({"py": "symlist", "a": [[-1, 31, -1]]}),
                       NA({"py": "symlist", "a": [[0, 0, -1], [1, 31, 0]]}), S("c,200"), S("C,-1"),
                       NA(J("[]"))]}),
    # ---- positional fields, GFA1
    dict(name="name", kind="pos", dt="segment_name_gfa1", line="S\tA\t*", version="gfa1", classes={
        "valid": [S("B"), S("seg1"), S("x+y")],
        "wrongtype": [I(5), J('["a"]')],
        "wrongsyntax": [S("a b"), S("*x"), S("=x"), S("a\tb"), S("")]}),
    dict(name="sequence", kind="pos", dt="sequence_gfa1", line="S\tA\tAC", version="gfa1", classes={
        "valid": [S("ACGT"), S("*"), {"py": "ph"}, S("acgtn")],
        "wrongtype": [I(5), J('["A"]')],
        "wrongsyntax": [S("AC GT"), S("AC*"), S("12"), S("")]}),
    dict(name="from_orient", kind="pos", dt="orientation", line="L\tA\t+\tB\t-\t2M", version="gfa1", classes={
        "valid": [S("-"), S("+")],
        "wrongtype": [I(1), J('["+"]')],
        "wrongsyntax": [S("x"), S(""), S("+-")]}),
    dict(name="overlap", kind="pos", dt="alignment_gfa1", line="L\tA\t+\tB\t-\t2M", version="gfa1", classes={
        "valid": [S("3M1D"), S("*"), {"py": "cigar", "a": "4M"}, {"py": "aph"}],
        "wrongtype": [I(5), F("1.5"), J('{"a": 1}')],
        "wrongsyntax": [S("2Q"), S("M2"), S("2M,1D"), S("")]}),
    dict(name="pos", kind="pos", dt="position_gfa1", line="C\tA\t+\tB\t-\t10\t2M", version="gfa1", classes={
        "valid": [I(12), S("34"), I(0)],
        "wrongtype": [J("[1]"), J('{"a": 1}')],
        "wrongsyntax": [S("x"), S("1.5"), S("")],
        "outofrange": [I(-1), I(-100)]}),
    dict(name="path_name", kind="pos", dt="path_name_gfa1", line="P\tp1\tA+,B-\t*", version="gfa1", classes={
        "valid": [S("p2"), S("path")],
        "wrongtype": [I(5), J('["p"]')],
        "wrongsyntax": [S("p q"), S("*p"), S("")]}),
    dict(name="segment_names", kind="pos", dt="oriented_identifier_list_gfa1", line="P\tp1\tA+,B-\t*",
         version="gfa1", classes={
        "valid": [S("A+,C-"), {"py": "ollist", "a": [["A", "+"], ["C", "-"]]}, S("X-,Y-,Z+")],
        "wrongtype": [I(5), J('{"a": 1}')],
        "wrongsyntax": [S("A,B"), S("A+ B-"), S("A+;B-"), S("")]}),
    dict(name="overlaps", kind="pos", dt="alignment_list_gfa1", line="P\tp1\tA+,B-,C+\t1M,1M", version="gfa1",
         classes={
        "valid": [S("1M,2M"), S("*,*"), {"py": "ciglist", "a": ["3M", "2M"]}],
        "wrongtype": [I(5), J('{"a": 1}')],
        "wrongsyntax": [S("1Q,2M"), S("1M;2M"), S("")]}),
    # ---- positional fields, GFA2
    dict(name="sid", kind="pos", dt="identifier_gfa2", line="S\ts1\t10\t*", version="gfa2", classes={
        "valid": [S("s2"), S("x")],
        "wrongtype": [I(5), J('["a"]')],
        "wrongsyntax": [S("a b"), S(""), S("a\tb")]}),
    dict(name="slen", kind="pos", dt="i", line="S\ts1\t10\t*", version="gfa2", classes={
        "valid": [I(12), S("34")],
        "wrongtype": [J("[1]"), F("1.5")],
        "wrongsyntax": [S("x"), S("1.5"), S("")]}),
    dict(name="sequence", kind="pos", dt="sequence_gfa2", line="S\ts1\t10\tAC", version="gfa2", classes={
        "valid": [S("ACGT"), S("*"), {"py": "ph"}],
        "wrongtype": [I(5), J('["A"]')],
        "wrongsyntax": [S("AC GT"), S(""), S("A\tC")]}),
    dict(name="eid", kind="pos", dt="optional_identifier_gfa2", line="E\te1\ta+\tb-\t0\t10\t5\t15$\t*",
         version="gfa2", classes={
        "valid": [S("e2"), S("*"), {"py": "ph"}],
        "wrongtype": [I(5), J('["a"]')],
        "wrongsyntax": [S("a b"), S("")]}),
    dict(name="sid1", kind="pos", dt="oriented_identifier_gfa2", line="E\te1\ta+\tb-\t0\t10\t5\t15$\t*",
         version="gfa2", classes={
        "valid": [S("c+"), {"py": "ol", "a": ["d", "-"]}, S("c-")],
        "wrongtype": [I(5), J('["a", "+"]')],
        "wrongsyntax": [S("c"), S("c*"), S("a b+"), S(""), S("+")]}),
    dict(name="beg1", kind="pos", dt="position_gfa2", line="E\te1\ta+\tb-\t0\t10\t5\t15$\t*",
         version="gfa2", classes={
        "valid": [I(5), S("7"), S("9$"), {"py": "lastpos", "a": 8}],
        "wrongtype": [J("[1]"), F("1.5")],
        "wrongsyntax": [S("x"), S("5$$"), S("1.5"), S("")],
        "outofrange": [I(-1), {"py": "lastpos", "a": -2}]}),
    dict(name="alignment", kind="pos", dt="alignment_gfa2", line="E\te1\ta+\tb-\t0\t10\t5\t15$\t2M",
         version="gfa2", classes={
        "valid": [S("3M1D"), S("*"), S("1,2,3"), {"py": "cigar2", "a": "4M"}, {"py": "aph"}],
        "wrongtype": [I(5), F("1.5")],
        "wrongsyntax": [S("2Q"), S("1,a"), S("")]}),
    dict(name="var", kind="pos", dt="optional_integer", line="G\tg1\ta+\tb-\t100\t5", version="gfa2", classes={
        "valid": [I(10), S("20"), S("*"), {"py": "ph"}],
        "wrongtype": [J("[1]"), F("1.5")],
        "wrongsyntax": [S("x"), S("1.5"), S("")]}),
    dict(name="items", kind="pos", dt="identifier_list_gfa2", line="U\tu1\ta b c", version="gfa2", classes={
        "valid": [S("a b"), J('["x", "y"]')],
        "wrongtype": [I(5), J('{"a": 1}')],
        "wrongsyntax": [S("a\tb"), S(""), J('["a b"]')]}),
    dict(name="items", kind="pos", dt="oriented_identifier_list_gfa2", line="O\to1\ta+ b-", version="gfa2",
         classes={
        "valid": [S("a+ c-"), {"py": "ollist", "a": [["x", "+"], ["y", "-"]]}],
        "wrongtype": [I(5), J('{"a": 1}')],
        "wrongsyntax": [S("a b"), S("a+,b"), S("")]}),
    dict(name="field1", kind="pos", dt="generic", line="X\tcustom\t1", version="gfa2", classes={
        "valid": [S("any thing"), S("x")],
        "wrongtype": [I(5), J("[1]")],
        "wrongsyntax": [S("a\tb"), S("a\nb")]}),
    dict(name="content", kind="pos", dt="comment", line="# hello", version=None, classes={
        "valid": [S("text"), S("more text")],
        "wrongtype": [I(5), J("[1]")],
        "wrongsyntax": [S("a\nb"), S("x\ny\n")]}),
]
for _i, _f in enumerate(FIELDS):
    _f["key"] = "%s:%s" % (_f["dt"], _f["name"])     # unique name used in the TLA+ store

# wrong-syntax strings that Python's converters happen to accept (int(), float());
# run as additional representatives (thorough tier and a sample in quick)
LAX = {"i:xi": [S(" 5"), S("1_0")], "f:xf": [S("inf"), S("nan"), S("1_0.5"), S(" 1.5")],
       "i:slen": [S(" 5")], "position_gfa1:pos": [S("+5"), S(" 5")], "optional_integer:var": [S(" 5")]}


def field_by_key(key):
    for f in FIELDS:
        if f["key"] == key:
            return f
    raise MachineryError("unknown field " + key)


def fields_param(fields, mode, maxlen):
    return {"mode": mode, "maxlen": maxlen,
            "fields": [{"name": f["key"], "kind": f["kind"], "dt": f["dt"],
                        "classes": sorted(f["classes"].keys())} for f in fields]}


MC_ENUM_CFG = "SPECIFICATION Spec\nVIEW ProgView\nCONSTRAINT Emit\nCHECK_DEADLOCK FALSE\n"
MC_PROPS_CFG = ("SPECIFICATION Spec\nPROPERTY Statements\nINVARIANT DeclHolds\nINVARIANT Equivalent\n"
                "CHECK_DEADLOCK FALSE\n")


def run_mc(mode, fields, maxlen, name, workers=None):
    wd = tlc.workdir(name)
    pf = os.path.join(wd, "params.json")
    with open(pf, "w") as fh:
        json.dump(fields_param(fields, mode, maxlen), fh)
    cfg = MC_ENUM_CFG if mode == "enum" else MC_PROPS_CFG
    rc, out = tlc.run_tlc("MC_Fields", cfg, wd, env={"FIELDS_FILE": pf}, workers=workers or NCPU,
                          heap="6g", timeout=3000)
    tlc.check_ok(rc, out, "MC_Fields/" + mode)
    return out


def abstract_fields_for_props():
    """One abstract field per distinct (kind, class set): the statements do not depend on
    anything else."""
    seen, res = set(), []
    for f in FIELDS:
        k = (f["kind"], tuple(sorted(f["classes"])))
        if k not in seen:
            seen.add(k)
            res.append(f)
    return res


def enum_programs(fields, maxlen, name):
    """-> list of (lvl, field key, (codes...)) printed by TLC, and TLC stats."""
    out = run_mc("enum", fields, maxlen, name)
    progs = set()
    for raw in tlc.parse_tuples(out, "CASE"):
        v = tlc.tla_value(raw)
        progs.add((v[1], v[2], tuple(v[3])))
    return sorted(progs), tlc.stats(out)


# --------------------------------------------------------------------------
# C18 programs: run one against gfapy

_MISSING = object()


def run_program(job):
    """job = (id, lvl, field key, codes, offset, lax) -> case dict for TraceFields + values."""
    cid, lvl, key, codes, offset, lax = job
    gfapy = _load_gfapy()
    fd = field_by_key(key)
    f = fd["name"]
    res, line, exc = guarded(lambda: gfapy.Line(fd["line"], vlevel=lvl, version=fd["version"])
                             if fd["version"] else gfapy.Line(fd["line"], vlevel=lvl))
    if res != "ok":
        raise MachineryError("cannot build base line %r at level %d: %s" % (fd["line"], lvl, exc))
    evs, vals = [], []
    nset = 0
    for code in codes:
        ev = {"k": code, "c": "-", "res": "ok", "mark": False, "kept": "T"}
        val = None
        if code.startswith("set."):
            cls = code[4:]
            reps = fd["classes"][cls]
            if lax and cls == "wrongsyntax" and key in LAX:
                reps = LAX[key]
            val = reps[(offset + nset) % len(reps)]
            nset += 1
            v = mk(val)
            old = line._data.get(f, _MISSING)
            r, _, exc = guarded(lambda: line.set(f, v))
            new = line._data.get(f, _MISSING)
            ev.update(k="set", c=cls, res=r, kept=("?" if v is old else ("T" if new is old else "F")))
        elif code == "get":
            old = line._data.get(f, _MISSING)
            r, _, exc = guarded(lambda: line.get(f))
            ev["res"] = r
            ev["kept"] = "T" if line._data.get(f, _MISSING) is old else "F"
        elif code == "write":
            r, _, exc = guarded(lambda: line.field_to_s(f))
            ev["res"] = r
        elif code == "str":
            r, text, exc = guarded(lambda: str(line))
            ev["res"] = r
            ev["mark"] = bool(r == "ok" and text.split("\t")[-1].startswith("# INVALID"))
        elif code == "validate":
            r, _, exc = guarded(lambda: line.validate())
            ev["res"] = r
        elif code == "vfield":
            r, _, exc = guarded(lambda: line.validate_field(f))
            ev["res"] = r
        else:
            raise MachineryError("unknown call code " + code)
        evs.append(ev)
        vals.append([val, exc])
    return {"id": cid, "lvl": lvl, "f": key, "dt": fd["dt"], "ev": evs}, vals


def validate_cases(kind, cases, name, nshards=None):
    """Shard the cases, run TraceFields, return {case id: (clauses, where)} and #states."""
    if not cases:
        return {}, 0
    wd = tlc.workdir(name + "-shards")
    nshards = max(1, min(nshards or NCPU, len(cases) // 200 + 1))
    files = []
    for s in range(nshards):
        part = cases[s::nshards]
        if not part:
            continue
        fn = os.path.join(wd, "shard%d.json" % s)
        with open(fn, "w") as fh:
            json.dump({"kind": kind, "cases": part}, fh)
        files.append(fn)
    res = tlc.run_sharded("TraceFields", TRACE_CFG, files, name + "-tlc")
    rejects, distinct = {}, 0
    for rc, out in res:
        st = tlc.stats(out)
        if rc != 0 or st is None or "No error has been found" not in out:
            raise MachineryError("TraceFields failed:\n" + "\n".join(out.splitlines()[-30:]))
        distinct += st[1]
        for raw in tlc.parse_tuples(out, "REJECT"):
            v = tlc.tla_value(raw)
            rejects[v[1]] = (sorted(v[2]), v[3])
    if distinct != len(cases):
        raise MachineryError("TraceFields consumed %d states, expected %d cases" % (distinct, len(cases)))
    return rejects, distinct
