"""./check selftest : demonstrates the binding between specification and code.
Recorded traces are corrupted in one place each; TraceGfa must reject every corrupted
trace with the expected clause (and accept the uncorrupted ones).  Family modules that
provide selftest() are run as well."""
import copy, importlib, glob, json, os, random
from . import core, tlc


def _first_event_with(trace, pred):
    for i, e in enumerate(trace["ev"]):
        if pred(e):
            return i
    return None


def corruptions():
    def drop_backref(t):
        i = _first_event_with(t, lambda e: any(l["br"] for l in e["obs"]["lines"]))
        if i is None:
            return None
        for l in t["ev"][i]["obs"]["lines"]:
            if l["br"]:
                l["br"][0][1].pop()
                l["br"] = [b for b in l["br"] if b[1]]
                return {"C02.sym", "keys"}

    def dangling_fwd(t):
        i = _first_event_with(t, lambda e: any(l["fwd"] for l in e["obs"]["lines"]))
        if i is None:
            return None
        for l in t["ev"][i]["obs"]["lines"]:
            if l["fwd"]:
                l["fwd"][0][1] = 0
                return {"C02.closed"}

    def not_owner(t):
        i = _first_event_with(t, lambda e: e["obs"]["lines"])
        if i is None:
            return None
        t["ev"][i]["obs"]["lines"][0]["own"] = 0
        return {"C02.owner"}

    def dup_line(t):
        i = _first_event_with(t, lambda e: any(not l["virt"] for l in e["obs"]["lines"]))
        if i is None:
            return None
        ls = t["ev"][i]["obs"]["lines"]
        src = next(l for l in ls if not l["virt"])
        ls.append(dict(src, fwd=[], br=[], nb=src["nb"], lf=[]))
        return {"lines"}

    def flip_res(t):
        i = _first_event_with(t, lambda e: e["res"] == "ok" and e["op"]["k"] == "add")
        if i is None:
            return None
        t["ev"][i]["res"] = "NotUniqueError"
        return {"res.refused", "stutter", "res.version"}

    def flip_virtual(t):
        i = _first_event_with(t, lambda e: any(not l["virt"] for l in e["obs"]["lines"]))
        if i is None:
            return None
        next(l for l in t["ev"][i]["obs"]["lines"] if not l["virt"])["virt"] = 1
        return {"lines", "virtual"}

    def wrong_version(t):
        if not t["ev"]:
            return None
        o = t["ev"][0]["obs"]
        o["version"] = "gfa2" if o["version"] != "gfa2" else "gfa1"
        return {"version"}

    def wrong_counts(t):
        i = _first_event_with(t, lambda e: not any(l["virt"] for l in e["obs"]["lines"]) and e["obs"]["lines"])
        if i is None:
            return None
        t["ev"][i]["obs"]["nd"] += 1
        return {"counts"}

    def wrong_components(t):
        i = _first_event_with(t, lambda e: not any(l["virt"] for l in e["obs"]["lines"]) and len(e["obs"]["cc"]) >= 1)
        if i is None:
            return None
        t["ev"][i]["obs"]["cc"].append(["ghost"])
        return {"components"}

    def wrong_lookup(t):
        i = _first_event_with(t, lambda e: any(x[1] >= 1 for x in e["obs"]["look"]))
        if i is None:
            return None
        for x in t["ev"][i]["obs"]["look"]:
            if x[1] >= 1:
                x[1] = x[3] = 0
                x[2] = 0
                return {"lookup"}

    def wrong_key(t):
        def real_dovetail(e, b):
            ls = e["obs"]["lines"]
            return b[0].startswith("dovetails_") and all(x >= 1 and not ls[x - 1]["virt"] for x in b[1])
        i = _first_event_with(t, lambda e: any(real_dovetail(e, b) for l in e["obs"]["lines"] for b in l["br"]))
        if i is None:
            return None
        for l in t["ev"][i]["obs"]["lines"]:
            for b in l["br"]:
                if real_dovetail(t["ev"][i], b):
                    b[0] = "dovetails_L" if b[0] == "dovetails_R" else "dovetails_R"
                    return {"keys", "nbrs"}

    def extra_name(t):
        if not t["ev"]:
            return None
        t["ev"][-1]["obs"]["names"].append("ghost")
        return {"names"}

    def query_changed(t):
        i = _first_event_with(t, lambda e: e["op"]["k"] == "query")
        if i is None:
            return None
        t["ev"][i]["obs"]["dig"] = "corrupted"
        return {"query-changed"}

    return [drop_backref, dangling_fwd, not_owner, dup_line, flip_res, flip_virtual, wrong_version,
            wrong_counts, wrong_components, wrong_lookup, wrong_key, extra_name, query_changed]


def run(tier, seed):
    rnd = random.Random(seed)
    jobs = core.doc_jobs("gfa1", 12, 3, seed) + core.doc_jobs("gfa2", 12, 3, seed + 1)
    q = dict(k="query", text="", id="str", id2="")
    jobs = [dict(j, ops=j["ops"] + [q]) for j in jobs]
    base = core.replay_all(jobs)
    traces, expect = [], {}
    for t in base:
        c0 = copy.deepcopy(t)
        c0["id"] = "clean-" + t["id"]
        traces.append(c0)
    for fn in corruptions():
        done = 0
        for t in base:
            c = copy.deepcopy(t)
            want = fn(c)
            if want is None:
                continue
            c["id"] = "%s-%s" % (fn.__name__, t["id"])
            expect[c["id"]] = want
            traces.append(c)
            done += 1
            if done >= 3:
                break
        if not done:
            print("selftest: corruption %s found no applicable trace" % fn.__name__)
            return 2
    r = core.validate(traces, "selftest")
    got = {}
    for tid, ev, clauses, phase in r["rejects"]:
        got.setdefault(tid, set()).update(clauses)
    bad = 0
    for tid, want in sorted(expect.items()):
        if not (got.get(tid, set()) & want):
            print("selftest FAILED: corrupted trace %s not rejected with one of %s (got %s)" % (tid, sorted(want), sorted(got.get(tid, []))))
            bad += 1
    for t in traces:
        if t["id"].startswith("clean-") and t["id"] in got:
            print("selftest FAILED: clean trace %s rejected: %s" % (t["id"], sorted(got[t["id"]])))
            bad += 1
    print("selftest core: %d corrupted traces, %d clean traces, %d problems" % (len(expect), len(base), bad))
    # design level: the implementation-shaped layer refines the document spec with a snapshot cascade,
    # and TLC must find the original fan-out defect when the cascade walks the live list
    ok1, st1, _ = core.mc_impl(5, True, "self-impl-ok")
    ok2, st2, inv = core.mc_impl(6, False, "self-impl-bug")
    print("selftest GfaImpl: snapshot cascade %s (%d states); live-list cascade %s" % (
        "refines Gfa" if ok1 else "FAILS", st1[1], "violates %s as expected" % inv if not ok2 else "NOT detected"))
    if not ok1 or ok2:
        bad += 1
    ok3, st3, inv3 = core.mc_impl(5, True, "self-impl-merge", repoint=False)
    print("selftest GfaImpl: merged group definition without re-pointing %s" % (
        "violates %s as expected" % inv3 if not ok3 else "NOT detected"))
    if ok3:
        bad += 1
    ok4, st4, inv4 = core.mc_impl(5, True, "self-impl-rollback", rollback=False)
    print("selftest GfaImpl: line refused in the middle of connect without roll-back %s" % (
        "violates %s as expected" % inv4 if not ok4 else "NOT detected"))
    if ok4:
        bad += 1
    for f in sorted(glob.glob(os.path.join(os.path.dirname(__file__), "fam_*.py"))):
        m = importlib.import_module("harness." + os.path.basename(f)[:-3])
        if hasattr(m, "selftest"):
            try:
                res = m.selftest()
                failed = res is False or (isinstance(res, str) and res.upper().startswith("FAIL"))
                print("selftest %s: %s" % (m.__name__, "FAILED" if failed else "ok (%s)" % (res,)))
                if failed:
                    bad += 1
            except Exception as e:  # noqa
                print("selftest %s raised %s: %s" % (m.__name__, type(e).__name__, e))
                bad += 1
    return 1 if bad else 0
