"""Replay dispatch for family modules: a violation dict carries family=<module suffix>;
the module provides replay(prop, violation, path) -> exit code."""
import importlib


def replay(prop, v, path):
    fam = v.get("family")
    try:
        m = importlib.import_module("harness.fam_" + str(fam))
    except ImportError:
        print("no replay support for family", fam)
        return 2
    return m.replay(prop, v, path)
